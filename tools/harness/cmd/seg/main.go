// Harness area "seg": runs the real crc / segment / compression code of /repo (properties C06, C07, C08).
//
//	harness-seg c06 quick|thorough   checksums, EncodeSegment/DecodeSegment with and without lz4.Compressor{}
//	harness-seg c07 quick|thorough   corruptions applied to real encoded segments; every accepted one is reported
//	harness-seg c08 quick|thorough   both compressors, both formats, over compressibility classes and sizes
//
// Inputs are compact descriptors {pat,len,seed} that the Gallina side (coq/model/SegGen.v) expands identically.
// One JSON object per line on stdout.
package main

import (
	"bufio"
	"bytes"
	"encoding/binary"
	"encoding/hex"
	"fmt"
	"io"
	"math/rand"
	"os"
	"os/exec"
	"runtime"
	"sort"
	"strconv"
	"strings"
	"sync"
	"syscall"
	"testing/iotest"
	"time"

	"github.com/datastax/go-cassandra-native-protocol/compression/lz4"
	"github.com/datastax/go-cassandra-native-protocol/compression/snappy"
	"github.com/datastax/go-cassandra-native-protocol/crc"
	"github.com/datastax/go-cassandra-native-protocol/frame"
	"github.com/datastax/go-cassandra-native-protocol/message"
	"github.com/datastax/go-cassandra-native-protocol/primitive"
	"github.com/datastax/go-cassandra-native-protocol/segment"
	gosnappy "github.com/golang/snappy"
	golz4 "github.com/pierrec/lz4/v4"
	"verifharness/hlib"
)

type J = map[string]interface{}

// ---------------------------------------------------------------- descriptors

type Desc struct {
	Pat  string `json:"pat"`
	Len  int    `json:"len"`
	Seed int64  `json:"seed"`
	Hex  string `json:"hex,omitempty"` // pattern "hex": the payload itself (small payloads found by a search)
}

func hexDesc(p []byte) Desc { return Desc{Pat: "hex", Len: len(p), Hex: hex.EncodeToString(p)} }

func lcgNext(x uint64) uint64 { return (x*1103515245 + 12345) % (1 << 31) }

// expand must agree with coq/model/SegGen.v (gen_payload).
func expand(d Desc) []byte {
	out := make([]byte, d.Len)
	switch d.Pat {
	case "hex":
		b, err := hex.DecodeString(d.Hex)
		if err != nil || len(b) != d.Len {
			panic("bad hex descriptor")
		}
		return b
	case "zero":
	case "rep":
		for i := range out {
			out[i] = byte(d.Seed)
		}
	case "ramp":
		for i := range out {
			out[i] = byte(int64(i) + d.Seed)
		}
	case "lcg":
		x := uint64(d.Seed) % (1 << 31)
		for i := range out {
			x = lcgNext(x)
			out[i] = byte(x >> 16)
		}
	case "period":
		k := int(d.Seed%61) + 2
		for i := range out {
			out[i] = byte((i%k)*37 + int(d.Seed))
		}
	case "half": // first half pseudo-random, second half zero
		x := uint64(d.Seed) % (1 << 31)
		for i := 0; i < d.Len/2; i++ {
			x = lcgNext(x)
			out[i] = byte(x >> 16)
		}
	default:
		panic("unknown pattern " + d.Pat)
	}
	return out
}

// harness-only compressibility classes (C08; never expanded on the Coq side)
var words = []string{"SELECT", "FROM", "WHERE", "system", "peers", "keyspace_name", "table_name", " ", " ", ",", "=", "?", "AND",
	"cassandra", "0", "1", "42", "\n", "uuid", "timestamp", "text", "value", "null"}

func expandClass(class string, n int, seed int64) []byte {
	switch class {
	case "zero", "rep", "ramp", "lcg", "period", "half":
		return expand(Desc{class, n, seed, ""})
	case "text":
		r := rand.New(rand.NewSource(seed))
		var b bytes.Buffer
		for b.Len() < n {
			b.WriteString(words[r.Intn(len(words))])
		}
		return b.Bytes()[:n]
	case "mixed": // blocks of random length alternating random bytes / one repeated byte
		r := rand.New(rand.NewSource(seed))
		out := make([]byte, 0, n)
		for len(out) < n {
			l := 1 + r.Intn(300)
			if r.Intn(2) == 0 {
				for i := 0; i < l; i++ {
					out = append(out, byte(r.Intn(256)))
				}
			} else {
				v := byte(r.Intn(256))
				for i := 0; i < l; i++ {
					out = append(out, v)
				}
			}
		}
		return out[:n]
	case "dist65536": // a 4-byte window that repeats at distance exactly 65536: n = first run length, seed = second run length
		out := bytes.Repeat([]byte{'a'}, n)
		out = append(out, 0, 0, 0, 0x10)
		out = append(out, bytes.Repeat([]byte{'a'}, int(seed))...)
		return append(out, []byte("\x00\x00\xf2\x11\x00\x00\x00\x00\x03ks1\x00\x00\x00\x00\x00\x00")...)
	case "rows": // repeated result-set rows that differ in a counter
		var b bytes.Buffer
		for i := 0; b.Len() < n; i++ {
			fmt.Fprintf(&b, "\x00\x00\x00\x10row-%08d-abc\x00\x00\x00\x04\x00\x00\x00\x2a\xff\xff\xff\xff", i+int(seed))
		}
		return b.Bytes()[:n]
	}
	panic("unknown class " + class)
}

// ---------------------------------------------------------------- independent reference (written from
// native_protocol_v5.spec section 2 and Cassandra's Crc.java; shares no code with /repo)

func refCrc24(msg []byte) uint32 { // textbook MSB-first bit-at-a-time division, polynomial 0x1974F0B, start 0x875060
	reg := uint32(0x875060)
	for _, by := range msg {
		for bit := 7; bit >= 0; bit-- {
			in := uint32(by>>uint(bit)) & 1
			top := (reg>>23)&1 ^ in
			reg = (reg << 1) & 0xFFFFFF
			if top == 1 {
				reg ^= 0x974F0B
			}
		}
	}
	return reg
}

func refCrc32(payload []byte) uint32 { // reflected CRC-32 (0xEDB88320), start all-ones, over FA 2D 55 CA || payload, complemented
	reg := uint32(0xFFFFFFFF)
	feed := func(by byte) {
		for bit := 0; bit < 8; bit++ {
			in := uint32(by>>uint(bit)) & 1
			if (reg&1)^in == 1 {
				reg = (reg >> 1) ^ 0xEDB88320
			} else {
				reg >>= 1
			}
		}
	}
	for _, by := range []byte{0xFA, 0x2D, 0x55, 0xCA} {
		feed(by)
	}
	for _, by := range payload {
		feed(by)
	}
	return ^reg
}

func leBytes(v uint64, n int) []byte {
	out := make([]byte, n)
	for i := 0; i < n; i++ {
		out[i] = byte(v % 256)
		v /= 256
	}
	return out
}

// refSegment lays out a segment from the header field values and the bytes transmitted as payload.
func refSegment(compressed bool, sc bool, ulenField, clenField uint64, transmitted []byte) []byte {
	var hv uint64
	var hl int
	flag := uint64(0)
	if sc {
		flag = 1
	}
	if !compressed {
		hv = ulenField + (1<<17)*flag
		hl = 3
	} else {
		hv = clenField + (1<<17)*ulenField + (1<<34)*flag
		hl = 5
	}
	h := leBytes(hv, hl)
	out := append([]byte{}, h...)
	out = append(out, leBytes(uint64(refCrc24(h)), 3)...)
	out = append(out, transmitted...)
	out = append(out, leBytes(uint64(refCrc32(transmitted)), 4)...)
	return out
}

// refLz4Decode is an independent decoder of the LZ4 block format (written from the format description).
// It returns the decoded bytes and a reason when the block is malformed.
func refLz4Decode(src []byte) (out []byte, bad string) {
	defer func() {
		if e := recover(); e != nil {
			bad = "truncated block"
		}
	}()
	i := 0
	for i < len(src) {
		tok := src[i]
		i++
		ll := int(tok >> 4)
		if ll == 15 {
			for {
				b := src[i]
				i++
				ll += int(b)
				if b != 255 {
					break
				}
			}
		}
		out = append(out, src[i:i+ll]...)
		i += ll
		if i >= len(src) {
			break
		}
		off := int(src[i]) | int(src[i+1])<<8
		i += 2
		ml := int(tok & 15)
		if ml == 15 {
			for {
				b := src[i]
				i++
				ml += int(b)
				if b != 255 {
					break
				}
			}
		}
		ml += 4
		if off == 0 || off > len(out) {
			return out, fmt.Sprintf("match offset %d at output position %d", off, len(out))
		}
		for k := 0; k < ml; k++ {
			out = append(out, out[len(out)-off])
		}
	}
	return out, ""
}

// diagnoseLz4 classifies a failed LZ4 round trip of x: the third-party block compressor of the pinned
// pierrec/lz4 emits blocks that are not an encoding of x for some inputs longer than 64 KiB (match distance
// 65536 and above stored in the 16-bit offset field).  Everything else keeps the generic kind.
func diagnoseLz4(x []byte, got []byte) J {
	// got == nil: the wrapper returned an error instead of bytes
	j := J{"input_len": len(x), "wrapper_outcome": "different-bytes"}
	if got == nil {
		j["wrapper_outcome"] = "error"
	} else {
		first := -1
		for i := 0; i < len(x) && i < len(got); i++ {
			if x[i] != got[i] {
				first = i
				break
			}
		}
		if first < 0 && len(x) != len(got) {
			first = min(len(x), len(got))
		}
		j["first_diff"] = first
	}
	dst := make([]byte, golz4.CompressBlockBound(len(x)))
	w, err := golz4.CompressBlock(x, dst, nil)
	if err != nil {
		j["kind"] = "lz4-roundtrip-differs"
		return j
	}
	// where the block stops being an encoding of x, according to the independent decoder
	ref, bad := refLz4Decode(dst[:w])
	pos := -1
	for i := 0; i < len(x) && i < len(ref); i++ {
		if x[i] != ref[i] {
			pos = i
			break
		}
	}
	if pos < 0 && (bad != "" || len(ref) != len(x)) {
		pos = min(len(x), len(ref))
	}
	blockWrong := pos >= 0
	j["block_is_not_an_encoding_of_input"] = blockWrong
	j["block_wrong_from_offset"] = pos
	j["independent_decoder"] = bad
	if blockWrong && len(x) > 65536 && pos >= 65536 {
		j["kind"] = "lz4-block-corrupt-above-64KiB"
	} else {
		j["kind"] = "lz4-roundtrip-differs"
	}
	return j
}

// ---------------------------------------------------------------- running the real code

type encRes struct {
	ok   bool
	out  []byte
	ulen int32
	clen int32
	c32  uint32
	pan  string
}

func codecFor(comp string) segment.Codec {
	if comp == "lz4" {
		return segment.NewCodecWithCompression(lz4.Compressor{})
	}
	return segment.NewCodec()
}

func encodeSeg(comp string, sc bool, payload []byte) (r encRes) {
	defer func() {
		if e := recover(); e != nil {
			r = encRes{pan: fmt.Sprint(e)}
		}
	}()
	seg := &segment.Segment{Header: &segment.Header{IsSelfContained: sc}, Payload: &segment.Payload{UncompressedData: payload}}
	var buf bytes.Buffer
	err := codecFor(comp).EncodeSegment(seg, &buf)
	return encRes{ok: err == nil, out: buf.Bytes(), ulen: seg.Header.UncompressedPayloadLength, clen: seg.Header.CompressedPayloadLength, c32: seg.Payload.Crc32}
}

type decRes struct {
	class string // ok | err | panic
	seg   *segment.Segment
	rest  int
}

func decodeSeg(comp string, in []byte) (r decRes) {
	defer func() {
		if e := recover(); e != nil {
			r = decRes{class: "panic"}
		}
	}()
	rd := bytes.NewReader(in)
	s, err := codecFor(comp).DecodeSegment(rd)
	if err != nil {
		return decRes{class: "err"}
	}
	return decRes{class: "ok", seg: s, rest: rd.Len()}
}

func decJ(d decRes, orig []byte) J {
	j := J{"class": d.class}
	if d.class == "ok" {
		j["sc"] = d.seg.Header.IsSelfContained
		j["ulen"] = d.seg.Header.UncompressedPayloadLength
		j["clen"] = d.seg.Header.CompressedPayloadLength
		j["crc24"] = d.seg.Header.Crc24
		j["crc32"] = d.seg.Payload.Crc32
		j["plen"] = len(d.seg.Payload.UncompressedData)
		j["rest"] = d.rest
		if orig != nil {
			j["payload_eq"] = bytes.Equal(d.seg.Payload.UncompressedData, orig)
		} else {
			j["payload"] = hex.EncodeToString(d.seg.Payload.UncompressedData)
		}
	}
	return j
}

func lz4Compress(p []byte) ([]byte, bool) {
	var out bytes.Buffer
	err := lz4.Compressor{}.Compress(bytes.NewBuffer(p), &out)
	return out.Bytes(), err == nil
}

const fullLimit = 1100 // segments up to this many bytes are printed in full

// segRecord encodes the payload of descriptor d with the real codec, decodes the result followed by id%4 extra bytes,
// and returns the `seg` record (observables of both directions, the independent reference layout, and for LZ4 the
// compressed bytes that the model's oracle must answer).  Used by mode c06 and by the boundary-size part of mode c08.
func segRecord(id int, d Desc, sc bool, comp string) J {
	p := expand(d)
	e := encodeSeg(comp, sc, p)
	rec := J{"kind": "seg", "id": id, "desc": d, "sc": sc, "comp": comp, "enc_ok": e.ok}
	if e.pan != "" {
		rec["enc_panic"] = e.pan
	}
	if e.ok {
		hl := 6
		transmitted := p
		ulenF, clenF := uint64(len(p)), uint64(0)
		if comp == "lz4" {
			hl = 8
			cp, cok := lz4Compress(p)
			rec["cmp_ok"] = cok
			rec["cmp_len"] = len(cp)
			if len(cp) <= fullLimit || len(cp) <= len(p) {
				rec["cmp_hex"] = hex.EncodeToString(cp)
			}
			if len(cp) <= len(p) {
				transmitted = cp
				clenF = uint64(len(cp))
			} else { // fallback prescribed by the framing: uncompressed length field 0, compressed length field = payload length
				clenF, ulenF = uint64(len(p)), 0
			}
		}
		rec["total"] = len(e.out)
		if len(e.out) >= hl+4 {
			rec["head"] = hex.EncodeToString(e.out[:hl])
			rec["trailer"] = hex.EncodeToString(e.out[len(e.out)-4:])
			rec["body_ok"] = bytes.Equal(e.out[hl:len(e.out)-4], transmitted)
		}
		if len(e.out) <= fullLimit {
			rec["full"] = hex.EncodeToString(e.out)
		}
		rec["post"] = J{"ulen": e.ulen, "clen": e.clen, "crc32": e.c32}
		ref := refSegment(comp == "lz4", sc, ulenF, clenF, transmitted)
		rec["ref_ok"] = bytes.Equal(ref, e.out)
		if !bytes.Equal(ref, e.out) && len(ref) <= fullLimit {
			rec["ref_hex"] = hex.EncodeToString(ref)
		}
		restLen := id % 4
		rest := expand(Desc{"lcg", restLen, int64(id), ""})
		rec["rest"] = hex.EncodeToString(rest)
		d := decodeSeg(comp, append(append([]byte{}, e.out...), rest...))
		rec["dec"] = decJ(d, p)
		if comp == "lz4" && d.class == "ok" && !bytes.Equal(d.seg.Payload.UncompressedData, p) {
			rec["diag"] = diagnoseLz4(p, d.seg.Payload.UncompressedData)
		} else if comp == "lz4" && d.class == "err" {
			rec["diag"] = diagnoseLz4(p, nil)
		}
	}
	return rec
}

// segxRecord: round trip of a harness-only content class through the real segment codec (implementation side only).
func segxRecord(class string, n int, seed int64, p []byte, comp string, sc bool) J {
	e := encodeSeg(comp, sc, p)
	rec := J{"kind": "segx", "class": class, "len": n, "seed": seed, "plen": len(p), "comp": comp, "sc": sc, "enc_ok": e.ok}
	if e.ok {
		d := decodeSeg(comp, e.out)
		rec["dec"] = decJ(d, p)
		rec["total"] = len(e.out)
		rec["transmitted"] = len(e.out) - 10
		if comp == "lz4" {
			rec["transmitted"] = len(e.out) - 12
		}
		if d.class == "ok" && !bytes.Equal(d.seg.Payload.UncompressedData, p) && comp == "lz4" {
			rec["diag"] = diagnoseLz4(p, d.seg.Payload.UncompressedData)
		} else if d.class == "err" && comp == "lz4" {
			rec["diag"] = diagnoseLz4(p, nil)
		}
	}
	return rec
}

// ratioBoundaryPayloads searches small mixed payloads - a periodic run (period k, r bytes) followed by t distinct bytes -
// for those whose LZ4 block, as produced by lz4.Compressor{}.Compress, is exactly as long as the payload (delta 0: the
// encoder still sends the block, `<=`, so both header length fields are equal), one byte shorter (delta -1) and one byte
// longer (delta +1: the first payload of the uncompressed fallback).  Up to perClass payloads per delta, spread over the
// candidates.  The search runs against the compiled library, so the family follows the compressor that is really used.
type ratioPayload struct {
	p       []byte
	delta   int
	k, r, t int
}

func ratioBoundaryPayloads(perClass int) (sel []ratioPayload, counts map[int]int) {
	cands := map[int][]ratioPayload{}
	counts = map[int]int{}
	for _, k := range []int{1, 2, 3, 4, 5, 7} {
		for r := 4; r <= 48; r++ {
			for t := 0; t <= 48; t++ {
				p := make([]byte, 0, r+t)
				for i := 0; i < r; i++ {
					p = append(p, byte('A'+i%k))
				}
				for j := 0; j < t; j++ {
					p = append(p, byte('e'+j))
				}
				cp, ok := lz4Compress(p)
				if !ok {
					continue
				}
				if d := len(cp) - len(p); d >= -1 && d <= 1 {
					cands[d] = append(cands[d], ratioPayload{p, d, k, r, t})
					counts[d]++
				}
			}
		}
	}
	for _, d := range []int{0, -1, 1} {
		c := cands[d]
		n := perClass
		if n > len(c) {
			n = len(c)
		}
		for i := 0; i < n; i++ {
			sel = append(sel, c[(i*len(c))/n])
		}
	}
	return sel, counts
}

func emitRatioSearch(mode string, sel []ratioPayload, counts map[int]int) {
	hlib.Emit(J{"kind": "ratio_search", "mode": mode, "selected": len(sel), "equal": counts[0], "one_less": counts[-1], "one_more": counts[1]})
}

// ---------------------------------------------------------------- c06

func c06(tier string, seed int64) {
	rnd := rand.New(rand.NewSource(seed))
	thorough := tier == "thorough"

	// ChecksumKoopman on arbitrary registers (including bits above 8*len) and lengths 1..8
	nk := 300
	if thorough {
		nk = 5000
	}
	for i := 0; i < nk; i++ {
		var d uint64
		switch i % 5 {
		case 0:
			d = rnd.Uint64()
		case 1:
			d = rnd.Uint64() & 0xFFFFFFFFFF
		case 2:
			d = uint64(1) << uint(rnd.Intn(64))
		case 3:
			d = uint64(rnd.Intn(1 << 18))
		default:
			d = rnd.Uint64() >> uint(rnd.Intn(64))
		}
		if i < 4 {
			d = []uint64{0, 1, 0xFFFFFFFFFFFFFFFF, 0x1FFFF}[i]
		}
		l := 1 + i%8
		if i%17 == 0 {
			l = 0
		}
		hlib.Emit(J{"kind": "koopman", "data": fmt.Sprint(d), "len": l, "crc": crc.ChecksumKoopman(d, l)})
	}

	// ChecksumIEEE
	pats := []string{"zero", "rep", "ramp", "lcg", "period", "half"}
	var ilens []int
	for l := 0; l <= 40; l++ {
		ilens = append(ilens, l)
	}
	ilens = append(ilens, 63, 64, 65, 255, 256, 257, 1000, 4095, 4096, 10000)
	for i, l := range ilens {
		d := Desc{pats[i%len(pats)], l, int64(rnd.Intn(1 << 30)), ""}
		p := expand(d)
		hlib.Emit(J{"kind": "ieee", "desc": d, "crc": crc.ChecksumIEEE(p), "ref": refCrc32(p)})
	}
	hlib.Emit(J{"kind": "ieee_hex", "hex": hex.EncodeToString([]byte("123456789")), "crc": crc.ChecksumIEEE([]byte("123456789"))})

	// segments
	lens := []int{0, 1, 2, 3, 4, 5, 6, 7, 8, 9, 11, 12, 13, 15, 16, 17, 18, 19, 20, 24, 31, 32, 33, 48, 63, 64, 65, 96, 100, 127, 128, 129, 200, 255, 256, 257, 300, 511, 512, 513, 777, 1000, 1023, 1024}
	if thorough {
		for i := 0; i < 300; i++ {
			lens = append(lens, rnd.Intn(3000))
		}
		lens = append(lens, 2047, 2048, 4095, 4096, 8191, 8192, 16383, 16384, 32767, 32768, 65535, 65536, 100000, 131069)
	}
	id := 0
	emitSeg := func(d Desc, sc bool, comp string) {
		id++
		hlib.Emit(segRecord(id, d, sc, comp))
	}
	for i, l := range lens {
		for k := 0; k < 2; k++ {
			d := Desc{pats[(i+3*k)%len(pats)], l, int64(rnd.Intn(1 << 30)), ""}
			for _, sc := range []bool{true, false} {
				for _, comp := range []string{"none", "lz4"} {
					emitSeg(d, sc, comp)
				}
			}
		}
	}
	// long ones (compressed output small, or fallback, or one half-compressible)
	long := []struct {
		d    Desc
		sc   bool
		comp string
	}{
		{Desc{"zero", 131071, 0, ""}, true, "none"},
		{Desc{"lcg", 131071, 7, ""}, false, "lz4"},
		{Desc{"zero", 131071, 0, ""}, true, "lz4"},
		{Desc{"half", 131071, 11, ""}, true, "lz4"},
		{Desc{"period", 131070, 5, ""}, false, "none"},
		{Desc{"rep", 65536, 0xAB, ""}, false, "lz4"},
		// the two largest legal sizes, compressible, through the compressing codec (sent compressed)
		{Desc{"period", 131071, 9, ""}, false, "lz4"},
		{Desc{"rep", 131070, 0x5C, ""}, true, "lz4"},
	}
	if thorough {
		for _, pt := range pats {
			for _, l := range []int{131071, 131070, 65537} {
				long = append(long, struct {
					d    Desc
					sc   bool
					comp string
				}{Desc{pt, l, int64(rnd.Intn(1 << 30)), ""}, l%2 == 0, []string{"none", "lz4"}[rnd.Intn(2)]})
			}
		}
	}
	for _, c := range long {
		emitSeg(c.d, c.sc, c.comp)
	}
	// payloads whose LZ4 block is exactly as long as the payload, one byte shorter, one byte longer (found by search)
	{
		per := 6
		if thorough {
			per = 60
		}
		sel, counts := ratioBoundaryPayloads(per)
		emitRatioSearch("c06", sel, counts)
		for i, q := range sel {
			d := hexDesc(q.p)
			emitSeg(d, true, "lz4")
			emitSeg(d, false, "lz4")
			if i%3 == 0 {
				emitSeg(d, i%2 == 0, "none")
			}
		}
	}

	// harness-only content classes through the LZ4 codec (round trip predicate only; not expanded on the Coq side).
	// The first one is the fixed witness of the known third-party defect (see diagnoseLz4).
	type xc struct {
		class string
		n     int
		seed  int64
	}
	xcs := []xc{{"ramp", 65786, 0}, {"ramp", 131297 - 226, 7}, {"dist65536", 65520, 16}, {"dist65536", 65534, 15}, {"dist65536", 65400, 4}, {"dist65536", 65700, 40}, {"text", 70000, 33}, {"text", 131071, 33}, {"text", 131071, 1}, {"mixed", 131071, 2}, {"rows", 131071, 3}, {"text", 65536, 33}, {"rows", 70000, 4}}
	nx := 40
	if thorough {
		nx = 3000
	}
	for i := 0; i < nx; i++ {
		cl := []string{"text", "mixed", "rows"}[i%3]
		sz := 1 + rnd.Intn(131071)
		if i%2 == 0 {
			sz = 65537 + rnd.Intn(131071-65537+1)
		}
		xcs = append(xcs, xc{cl, sz, int64(rnd.Intn(1 << 30))})
	}
	for i, c := range xcs {
		p := expandClass(c.class, c.n, c.seed)
		for _, comp := range []string{"lz4", "none"} {
			if comp == "none" && i%8 != 0 {
				continue
			}
			hlib.Emit(segxRecord(c.class, c.n, c.seed, p, comp, i%2 == 0))
		}
	}

	// refusal above MaxPayloadLength (and acceptance at it), on the implementation only
	for _, l := range []int{131071, 131072, 131073, 140000, 200000, 262143, 262144, 1 << 20} {
		for _, comp := range []string{"none", "lz4"} {
			for _, pat := range []string{"zero", "lcg"} {
				p := expand(Desc{pat, l, 3, ""})
				e := encodeSeg(comp, true, p)
				hlib.Emit(J{"kind": "refuse", "len": l, "comp": comp, "pat": pat, "enc_ok": e.ok, "written": len(e.out), "panic": e.pan})
			}
		}
	}

	// decoder on damaged inputs (ties the decoder model outside the encoder's image): truncations and
	// single-bit flips of short real segments, and hand-made headers with the fallback conventions
	bases := []struct {
		d    Desc
		sc   bool
		comp string
	}{
		{Desc{"lcg", 0, 1, ""}, true, "none"}, {Desc{"lcg", 5, 2, ""}, false, "none"}, {Desc{"zero", 40, 0, ""}, true, "lz4"},
		{Desc{"lcg", 9, 4, ""}, true, "lz4"}, {Desc{"lcg", 0, 1, ""}, false, "lz4"}, {Desc{"period", 70, 3, ""}, false, "lz4"},
	}
	did := 0
	emitRaw := func(comp string, in []byte, what string) {
		did++
		d := decodeSeg(comp, in)
		rec := J{"kind": "raw", "id": did, "comp": comp, "hex": hex.EncodeToString(in), "what": what, "dec": decJ(d, nil)}
		if comp == "lz4" && d.class != "panic" {
			// what the model's decompression oracle must answer for the transmitted bytes (if it is consulted at all)
			if len(in) >= 8 {
				hv := uint64(0)
				for i := 0; i < 5; i++ {
					hv |= uint64(in[i]) << uint(8*i)
				}
				cl := int(hv & 0x1FFFF)
				ul := int((hv >> 17) & 0x1FFFF)
				if ul != 0 && cl != 0 && len(in) >= 8+cl {
					var out bytes.Buffer
					err := lz4.Compressor{}.Decompress(bytes.NewReader(in[8:8+cl]), &out)
					rec["oracle_in"] = hex.EncodeToString(in[8 : 8+cl])
					rec["oracle_ok"] = err == nil
					rec["oracle_out"] = hex.EncodeToString(out.Bytes())
				}
			}
		}
		hlib.Emit(rec)
	}
	for _, bse := range bases {
		p := expand(bse.d)
		e := encodeSeg(bse.comp, bse.sc, p)
		if !e.ok {
			continue
		}
		for cut := 0; cut <= len(e.out); cut++ {
			if len(e.out) > 30 && cut > 12 && cut < len(e.out)-6 && cut%7 != 0 {
				continue
			}
			emitRaw(bse.comp, e.out[:cut], "truncate")
		}
		nb := len(e.out) * 8
		for k := 0; k < 48; k++ {
			pos := rnd.Intn(nb)
			if k < 24 && k < nb {
				pos = k * nb / 24
			}
			c := append([]byte{}, e.out...)
			c[pos/8] ^= 1 << uint(pos%8)
			emitRaw(bse.comp, c, "flip1")
		}
		emitRaw(bse.comp, append(append([]byte{}, e.out...), 1, 2, 3), "trailing")
	}
	// hand-made compressed-format headers: both readings of "not compressed" (spec 2.3.2 prose: compressed length 0;
	// Cassandra / this encoder: uncompressed length 0), and a compressed length larger than the uncompressed one
	pl := []byte("hello, world")
	cpl, _ := lz4Compress(pl)
	emitRaw("lz4", refSegment(true, true, 0, uint64(len(pl)), pl), "fallback-ulen0")
	emitRaw("lz4", refSegment(true, true, uint64(len(pl)), 0, pl), "fallback-clen0")
	emitRaw("lz4", refSegment(true, false, uint64(len(pl)), uint64(len(cpl)), cpl), "compressed-longer")
	emitRaw("lz4", refSegment(true, false, 0, 0, nil), "empty")
	emitRaw("lz4", refSegment(true, false, 7, uint64(len(cpl)), cpl), "ulen-field-wrong")
	emitRaw("none", refSegment(false, true, 12, 0, pl), "plain")
	emitRaw("none", append(leBytes(12+(1<<17)+(1<<20), 3), leBytes(uint64(refCrc24(leBytes(12+(1<<17)+(1<<20), 3))), 3)...), "padding-bits-set-no-payload")
	{
		h := leBytes(12+(1<<17)+(1<<20), 3)
		in := append(append(append([]byte{}, h...), leBytes(uint64(refCrc24(h)), 3)...), pl...)
		in = append(in, leBytes(uint64(refCrc32(pl)), 4)...)
		emitRaw("none", in, "padding-bits-set")
	}
}

// ---------------------------------------------------------------- c07

func flipBits(in []byte, base int, positions []int) []byte {
	c := append([]byte{}, in...)
	for _, p := range positions {
		q := base*8 + p
		c[q/8] ^= 1 << uint(q%8)
	}
	return c
}

func choose(n, k int, f func([]int)) {
	idx := make([]int, k)
	var rec func(start, d int)
	rec = func(start, d int) {
		if d == k {
			f(idx)
			return
		}
		for i := start; i <= n-(k-d); i++ {
			idx[d] = i
			rec(i+1, d+1)
		}
	}
	rec(0, 0)
}

func c07(tier string, seed int64) {
	rnd := rand.New(rand.NewSource(seed))
	thorough := tier == "thorough"
	type base struct {
		d    Desc
		sc   bool
		comp string
	}
	bases := []base{
		{Desc{"lcg", 0, 1, ""}, true, "none"}, {Desc{"lcg", 1, 2, ""}, false, "none"}, {Desc{"lcg", 33, 3, ""}, true, "none"},
		{Desc{"lcg", 0, 1, ""}, false, "lz4"}, {Desc{"lcg", 7, 9, ""}, true, "lz4"}, {Desc{"zero", 100, 0, ""}, true, "lz4"},
		{Desc{"ramp", 64, 5, ""}, false, "lz4"}, {Desc{"period", 300, 4, ""}, true, "none"},
		{Desc{"lcg", 4096, 6, ""}, false, "none"}, {Desc{"half", 20000, 8, ""}, true, "lz4"},
		{Desc{"lcg", 131071, 10, ""}, true, "none"}, {Desc{"zero", 131071, 0, ""}, false, "lz4"}, {Desc{"lcg", 131071, 12, ""}, false, "lz4"},
	}
	total := map[string]int{}
	accepted := 0
	var sweeps []J
	report := func(class string, b base, enc []byte, region string, positions []int, c []byte) {
		accepted++
		if accepted > 50 {
			return
		}
		rec := J{"kind": "accepted", "class": class, "desc": b.d, "sc": b.sc, "comp": b.comp, "region": region, "bit_positions": append([]int{}, positions...), "segment_len": len(enc)}
		// the damaged bytes: offset from the start of the region (payload region = transmitted payload || CRC-32) and from
		// the start of the segment, with the original and the corrupted value
		var changed []J
		for i := range enc {
			if enc[i] != c[i] {
				rb := i
				if region == "payload" {
					rb = i - (len(enc) - 4 - transmittedLen(b.comp, enc))
				}
				changed = append(changed, J{"region_byte_offset": rb, "segment_byte_offset": i, "original": fmt.Sprintf("%02x", enc[i]), "corrupted": fmt.Sprintf("%02x", c[i])})
			}
		}
		rec["changed_bytes"] = changed
		if len(enc) <= 4096 {
			rec["segment_hex"] = hex.EncodeToString(enc)
			rec["corrupted_hex"] = hex.EncodeToString(c)
		}
		hlib.Emit(rec)
	}
	try := func(class string, b base, enc []byte, region string, baseByte int, positions []int) {
		total[class]++
		c := flipBits(enc, baseByte, positions)
		d := decodeSeg(b.comp, c)
		if d.class != "err" {
			report(class, b, enc, region, positions, c)
		}
	}
	for bi, b := range bases {
		p := expand(b.d)
		e := encodeSeg(b.comp, b.sc, p)
		if !e.ok {
			hlib.Emit(J{"kind": "c07_base_failed", "desc": b.d, "comp": b.comp})
			continue
		}
		if d := decodeSeg(b.comp, e.out); d.class != "ok" {
			hlib.Emit(J{"kind": "c07_base_failed", "desc": b.d, "comp": b.comp, "what": "uncorrupted segment does not decode"})
			continue
		}
		hl := 6
		if b.comp == "lz4" {
			hl = 8
		}
		hbits := hl * 8
		pbits := (len(e.out) - hl) * 8
		short := len(e.out) <= 200
		// single flips: everywhere (short) / every header bit + sampled payload bits (long)
		for q := 0; q < hbits; q++ {
			try("single-header", b, e.out, "header", 0, []int{q})
		}
		if short || (thorough && len(e.out) <= 5000) {
			for q := 0; q < pbits; q++ {
				try("single-payload", b, e.out, "payload", hl, []int{q})
			}
		} else {
			for k := 0; k < 3000; k++ {
				try("single-payload", b, e.out, "payload", hl, []int{rnd.Intn(pbits)})
			}
			for _, q := range []int{0, 1, 7, 8, pbits - 33, pbits - 32, pbits - 31, pbits - 1} {
				try("single-payload", b, e.out, "payload", hl, []int{q})
			}
		}
		// double flips inside payload||crc32
		if len(e.out) <= 60 || (thorough && len(e.out) <= 200) {
			choose(pbits, 2, func(ix []int) { try("double-payload", b, e.out, "payload", hl, ix) })
		} else {
			n := 4000
			if thorough {
				n = 100000
			}
			for k := 0; k < n; k++ {
				i, j := rnd.Intn(pbits), rnd.Intn(pbits)
				if k%4 == 0 { // close pairs
					j = i + 1 + rnd.Intn(64)
				}
				if k%16 == 1 { // farthest pairs
					i, j = rnd.Intn(40), pbits-1-rnd.Intn(40)
				}
				if i == j || j >= pbits {
					continue
				}
				try("double-payload", b, e.out, "payload", hl, []int{i, j})
			}
		}
		// bursts of 2..32 bits (first and last bit of the burst flipped, interior random), in the order the CRC
		// consumes the bits (byte order, least significant bit first)
		nb := 3000
		if thorough {
			nb = 60000
		}
		for k := 0; k < nb; k++ {
			bl := 2 + rnd.Intn(31)
			if pbits < bl {
				continue
			}
			st := rnd.Intn(pbits - bl + 1)
			if k%10 == 0 {
				st = pbits - bl - rnd.Intn(min(40, pbits-bl+1))
				if st < 0 {
					st = 0
				}
			}
			pos := []int{st}
			for x := 1; x < bl-1; x++ {
				if rnd.Intn(2) == 1 {
					pos = append(pos, st+x)
				}
			}
			pos = append(pos, st+bl-1)
			try("burst-payload", b, e.out, "payload", hl, pos)
		}
		// byte-aligned damage: up to 4 consecutive bytes replaced
		for k := 0; k < 500; k++ {
			nbytes := 1 + rnd.Intn(4)
			if len(e.out)-hl < nbytes {
				continue
			}
			st := rnd.Intn(len(e.out) - hl - nbytes + 1)
			var pos []int
			for x := 0; x < nbytes*8; x++ {
				if rnd.Intn(2) == 1 {
					pos = append(pos, st*8+x)
				}
			}
			if len(pos) == 0 {
				continue
			}
			try("bytes4-payload", b, e.out, "payload", hl, pos)
		}
		// long transmitted payloads (>= 64 KiB): positions at which a block-wise or chunked checksum implementation would
		// change state - every power of two and every multiple of 4096 bytes, with their neighbours, the first and the last
		// bytes of the payload and the CRC-32 field: all 8 single flips, the whole byte, the two bytes across the boundary,
		// and 9..32-bit bursts ending or starting there.  Then a position-exhaustive sweep: one flipped bit in EVERY byte
		// of payload||CRC-32 (thorough: all 8 bits of every byte), run on all cores.
		if tb := len(e.out) - hl - 4; tb >= 65536 {
			seen := map[int]bool{}
			var offs []int
			add := func(o int) {
				for _, x := range []int{o - 2, o - 1, o, o + 1} {
					if x >= 0 && x < tb+4 && !seen[x] {
						seen[x] = true
						offs = append(offs, x)
					}
				}
			}
			for o := 1; o <= tb; o *= 2 {
				add(o)
			}
			for o := 4096; o <= tb; o += 4096 {
				add(o)
			}
			add(1)
			add(tb)     // last payload bytes / first CRC byte
			add(tb + 3) // last CRC bytes
			sort.Ints(offs)
			for _, o := range offs {
				for bit := 0; bit < 8; bit++ {
					try("boundary-single", b, e.out, "payload", hl, []int{o*8 + bit})
				}
				try("boundary-byte", b, e.out, "payload", hl, []int{o * 8, o*8 + 1, o*8 + 2, o*8 + 3, o*8 + 4, o*8 + 5, o*8 + 6, o*8 + 7})
				try("boundary-byte", b, e.out, "payload", hl, []int{o*8 + 1, o*8 + 4, o*8 + 6})
				if o+1 < tb+4 {
					try("boundary-2bytes", b, e.out, "payload", hl, []int{o*8 + 7, o*8 + 8})
					try("boundary-2bytes", b, e.out, "payload", hl, []int{o * 8, o*8 + 3, o*8 + 5, o*8 + 9, o*8 + 15})
				}
				for _, bl := range []int{9, 17, 32} { // bursts of bl bits ending in byte o, and starting in byte o
					if st := o*8 + 7 - (bl - 1); st >= 0 {
						try("boundary-burst", b, e.out, "payload", hl, []int{st, st + bl/2, st + bl - 1})
					}
					if st := o * 8; st+bl <= pbits {
						try("boundary-burst", b, e.out, "payload", hl, []int{st, st + 1, st + bl - 1})
					}
				}
			}
			// sweep (quick tier: on the first long base only; about 4 s on 16 cores per 131075 decodes)
			if thorough || len(sweeps) == 0 {
				sweepStart := time.Now()
				nbytes := tb + 4
				workers := runtime.NumCPU()
				if workers > 16 {
					workers = 16
				}
				type hit struct{ off, bit int }
				hits := make([][]hit, workers)
				counts := make([]int, workers)
				var wg sync.WaitGroup
				for w := 0; w < workers; w++ {
					wg.Add(1)
					go func(w int) {
						defer wg.Done()
						c := append([]byte{}, e.out...)
						for o := w; o < nbytes; o += workers {
							for bit := 0; bit < 8; bit++ {
								if !thorough && bit != (o+o/8)%8 {
									continue
								}
								c[hl+o] ^= 1 << uint(bit)
								counts[w]++
								if d := decodeSeg(b.comp, c); d.class != "err" {
									hits[w] = append(hits[w], hit{o, bit})
								}
								c[hl+o] ^= 1 << uint(bit)
							}
						}
					}(w)
				}
				wg.Wait()
				var all []hit
				for w := 0; w < workers; w++ {
					total["sweep-every-byte"] += counts[w]
					all = append(all, hits[w]...)
				}
				sort.Slice(all, func(i, j int) bool { return all[i].off*8+all[i].bit < all[j].off*8+all[j].bit })
				for _, h := range all {
					report("sweep-every-byte", b, e.out, "payload", []int{h.off*8 + h.bit}, flipBits(e.out, hl, []int{h.off*8 + h.bit}))
				}
				sweeps = append(sweeps, J{"desc": b.d, "comp": b.comp, "sc": b.sc, "bytes_swept": nbytes, "decodes": func() int {
					t := 0
					for _, x := range counts {
						t += x
					}
					return t
				}(), "boundary_offsets": len(offs), "accepted": len(all), "sweep_ms": time.Since(sweepStart).Milliseconds()})
			}
		}
		// header + CRC-24: weights 1..3 exhaustively (thorough: ..4, and ..5 on the first two bases), 4..7 sampled
		maxEx := 3
		if thorough {
			maxEx = 4
			if bi == 0 || bi == 3 {
				maxEx = 5
			}
		}
		if len(e.out) > 5000 {
			maxEx = 2
		}
		for w := 2; w <= maxEx; w++ {
			choose(hbits, w, func(ix []int) { try(fmt.Sprintf("header-w%d", w), b, e.out, "header", 0, ix) })
		}
		ns := 6000
		if thorough {
			ns = 200000
		}
		if len(e.out) > 5000 {
			ns = 500
		}
		for w := maxEx + 1; w <= 7; w++ {
			for k := 0; k < ns; k++ {
				perm := rnd.Perm(hbits)[:w]
				sort.Ints(perm)
				try(fmt.Sprintf("header-w%d", w), b, e.out, "header", 0, perm)
			}
		}
	}
	hlib.Emit(J{"kind": "c07_summary", "tried": total, "accepted": accepted, "bases": len(bases), "sweeps": sweeps})
}

// transmittedLen: number of payload bytes between the header (+CRC-24) and the CRC-32 of an encoded segment
func transmittedLen(comp string, enc []byte) int {
	if comp == "lz4" {
		return len(enc) - 12
	}
	return len(enc) - 10
}

func min(a, b int) int {
	if a < b {
		return a
	}
	return b
}

// ---------------------------------------------------------------- reader / writer kinds (C08)
//
// The compressors take an io.Reader and an io.Writer.  Their result must depend on the BYTES delivered, not on the
// concrete reader or writer type: every entry point is driven with each source kind x destination kind below and must
// give the same outcome and output as with the (*bytes.Buffer, *bytes.Buffer) pair, and the round trip is judged per kind.

type chunkReader struct { // delivers at most n bytes per Read, from a plain byte slice
	data []byte
	n    int
}

func (c *chunkReader) Read(p []byte) (int, error) {
	if len(c.data) == 0 {
		return 0, io.EOF
	}
	k := c.n
	if k > len(p) {
		k = len(p)
	}
	if k > len(c.data) {
		k = len(c.data)
	}
	copy(p, c.data[:k])
	c.data = c.data[k:]
	return k, nil
}

type plainWriter struct{ buf *bytes.Buffer } // an io.Writer that is nothing else

func (w plainWriter) Write(p []byte) (int, error) { return w.buf.Write(p) }

var srcKinds = []string{"bytes.Buffer", "bytes.Reader", "strings.Reader", "io.LimitReader", "iotest.OneByteReader", "chunkReader(7)",
	"io.MultiReader", "io.SectionReader", "bufio.Reader", "iotest.DataErrReader"}
var dstKinds = []string{"bytes.Buffer", "plain io.Writer"}

func mkSource(kind string, x []byte) io.Reader {
	x = append([]byte{}, x...)
	switch kind {
	case "bytes.Buffer":
		return bytes.NewBuffer(x)
	case "bytes.Reader":
		return bytes.NewReader(x)
	case "strings.Reader":
		return strings.NewReader(string(x))
	case "io.LimitReader":
		return io.LimitReader(bytes.NewReader(append(append([]byte{}, x...), 0xEE, 0xEE, 0xEE)), int64(len(x)))
	case "iotest.OneByteReader":
		return iotest.OneByteReader(bytes.NewReader(x))
	case "chunkReader(7)":
		return &chunkReader{x, 7}
	case "io.MultiReader":
		return io.MultiReader(bytes.NewReader(x[:len(x)/2]), bytes.NewBuffer(append([]byte{}, x[len(x)/2:]...)))
	case "io.SectionReader":
		return io.NewSectionReader(bytes.NewReader(append([]byte{0xDD, 0xDD}, x...)), 2, int64(len(x)))
	case "bufio.Reader":
		return bufio.NewReaderSize(bytes.NewReader(x), 16)
	case "iotest.DataErrReader":
		return iotest.DataErrReader(bytes.NewReader(x))
	}
	panic("source kind " + kind)
}

// runEntryPoint calls one compressor method with the given source / destination kinds.
func runEntryPoint(algo, method, sk, dk string, in []byte) (out []byte, ok bool, pan string) {
	defer func() {
		if e := recover(); e != nil {
			out, ok, pan = nil, false, fmt.Sprint(e)
		}
	}()
	src := mkSource(sk, in)
	var buf bytes.Buffer
	var dst io.Writer = &buf
	if dk != "bytes.Buffer" {
		dst = plainWriter{&buf}
	}
	var err error
	switch algo + "." + method {
	case "lz4.Compress":
		err = lz4.Compressor{}.Compress(src, dst)
	case "lz4.Decompress":
		err = lz4.Compressor{}.Decompress(src, dst)
	case "lz4.CompressWithLength":
		err = lz4.Compressor{}.CompressWithLength(src, dst)
	case "lz4.DecompressWithLength":
		err = lz4.Compressor{}.DecompressWithLength(src, dst)
	case "snappy.CompressWithLength":
		err = snappy.Compressor{}.CompressWithLength(src, dst)
	case "snappy.DecompressWithLength":
		err = snappy.Compressor{}.DecompressWithLength(src, dst)
	default:
		panic("entry point " + algo + "." + method)
	}
	return append([]byte{}, buf.Bytes()...), err == nil, ""
}

// readerMatrix: for one input, every (algorithm, format) x source kind x destination kind.  One record per combination:
// the compressing entry point against the reference pair, the decompressing entry point fed with the REFERENCE compressed
// bytes through the same kinds, and the round trip through this kind alone.
func readerMatrix(class string, sz int, seed int64, x []byte) (cases, bad int) {
	for _, af := range [][3]string{{"lz4", "Compress", "Decompress"}, {"lz4", "CompressWithLength", "DecompressWithLength"}, {"snappy", "CompressWithLength", "DecompressWithLength"}} {
		algo, cm, dm := af[0], af[1], af[2]
		refC, refOk, _ := runEntryPoint(algo, cm, "bytes.Buffer", "bytes.Buffer", x)
		for _, sk := range srcKinds {
			for _, dk := range dstKinds {
				cases++
				c, cok, cpan := runEntryPoint(algo, cm, sk, dk, x)
				rec := J{"kind": "rdr", "algo": algo, "compress": cm, "decompress": dm, "class": class, "len": sz, "seed": seed, "src": sk, "dst": dk,
					"compress_ok": cok, "ref_compress_ok": refOk, "out_len": len(c), "ref_len": len(refC), "compress_same": cok == refOk && bytes.Equal(c, refC)}
				if cpan != "" {
					rec["compress_panic"] = cpan
				}
				okAll := cok == refOk && bytes.Equal(c, refC) && cpan == ""
				if refOk {
					d, dok, dpan := runEntryPoint(algo, dm, sk, dk, refC)
					rec["decompress_of_reference_ok"] = dok && bytes.Equal(d, x)
					if dpan != "" {
						rec["decompress_panic"] = dpan
					}
					okAll = okAll && dok && bytes.Equal(d, x)
				}
				if cok {
					d, dok, _ := runEntryPoint(algo, dm, sk, dk, c)
					rt := dok && bytes.Equal(d, x)
					rec["roundtrip_ok"] = rt
					rec["roundtrip_len"] = len(d)
					okAll = okAll && rt
				}
				rec["ok"] = okAll
				if !okAll {
					bad++
					if len(x) <= 256 {
						rec["input_hex"] = hex.EncodeToString(x)
						rec["out_hex"] = hex.EncodeToString(c)
						rec["ref_hex"] = hex.EncodeToString(refC)
					} else {
						rec["out_head_hex"] = hex.EncodeToString(c[:min(len(c), 16)])
						rec["ref_head_hex"] = hex.EncodeToString(refC[:min(len(refC), 16)])
					}
				}
				hlib.Emit(rec)
			}
		}
	}
	return cases, bad
}

// ---------------------------------------------------------------- c08

type rtRes struct {
	ok     bool
	clen   int
	detail string
	diag   J
}

func roundTrip(algo, format string, x []byte) (r rtRes) {
	defer func() {
		if e := recover(); e != nil {
			r = rtRes{detail: "panic: " + fmt.Sprint(e)}
		}
	}()
	var cbuf, dbuf bytes.Buffer
	var err error
	switch algo + "/" + format {
	case "lz4/raw":
		err = lz4.Compressor{}.Compress(bytes.NewBuffer(x), &cbuf)
	case "lz4/withlen":
		err = lz4.Compressor{}.CompressWithLength(bytes.NewBuffer(x), &cbuf)
	case "snappy/withlen":
		err = snappy.Compressor{}.CompressWithLength(bytes.NewBuffer(x), &cbuf)
	}
	if err != nil {
		return rtRes{detail: "compress error"}
	}
	c := append([]byte{}, cbuf.Bytes()...)
	switch algo + "/" + format {
	case "lz4/raw":
		err = lz4.Compressor{}.Decompress(bytes.NewReader(c), &dbuf)
	case "lz4/withlen":
		err = lz4.Compressor{}.DecompressWithLength(bytes.NewReader(c), &dbuf)
	case "snappy/withlen":
		err = snappy.Compressor{}.DecompressWithLength(bytes.NewReader(c), &dbuf)
	}
	if err != nil {
		r := rtRes{clen: len(c), detail: "decompress error"}
		if algo == "lz4" {
			r.diag = diagnoseLz4(x, nil)
		}
		return r
	}
	if !bytes.Equal(dbuf.Bytes(), x) {
		r := rtRes{clen: len(c), detail: fmt.Sprintf("decompressed to %d bytes, different from the %d-byte input", dbuf.Len(), len(x))}
		if algo == "lz4" {
			r.diag = diagnoseLz4(x, dbuf.Bytes())
		}
		return r
	}
	return rtRes{ok: true, clen: len(c)}
}

func c08(tier string, seed int64) {
	rnd := rand.New(rand.NewSource(seed))
	thorough := tier == "thorough"
	classes := []string{"zero", "rep", "ramp", "lcg", "period", "half", "text", "mixed", "rows"}
	sizes := []int{0, 1, 2, 3, 4, 5, 6, 7, 8, 11, 12, 13, 14, 15, 16, 17, 20, 31, 32, 33, 64, 65, 100, 127, 128, 255, 256, 257, 500, 1000, 1023, 1024, 2048, 4096, 10000,
		32767, 32768, 65535, 65536, 65537, 100000, 131070, 131071, 131072, 200000, 262144, 1 << 20}
	if thorough {
		sizes = append(sizes, 2<<20, 3<<20+17, 4<<20, 8<<20)
		for i := 0; i < 400; i++ {
			sizes = append(sizes, rnd.Intn(140000))
		}
		for i := 0; i < 40; i++ {
			sizes = append(sizes, rnd.Intn(3<<20))
		}
	}
	n := 0
	fails := 0
	for _, class := range classes {
		for _, sz := range sizes {
			csd := int64(rnd.Intn(1 << 30))
			x := expandClass(class, sz, csd)
			for _, af := range [][2]string{{"lz4", "raw"}, {"lz4", "withlen"}, {"snappy", "withlen"}} {
				r := roundTrip(af[0], af[1], x)
				n++
				rec := J{"kind": "rt", "algo": af[0], "fmt": af[1], "class": class, "len": sz, "clen": r.clen, "ok": r.ok}
				if !r.ok {
					fails++
					rec["detail"] = r.detail
					rec["seed"] = csd
					if r.diag != nil {
						rec["diag"] = r.diag
					}
					if sz <= 2048 {
						rec["input_hex"] = hex.EncodeToString(x)
					}
				}
				hlib.Emit(rec)
			}
			// the contract the Coq development assumes of the LZ4 block functions (coq/model/Lz4Wrap.v)
			bound := golz4.CompressBlockBound(len(x))
			dst := make([]byte, bound)
			w, err := golz4.CompressBlock(x, dst, nil)
			rec := J{"kind": "contract", "class": class, "len": sz, "bound": bound, "written": w, "compress_err": err != nil}
			if err == nil && len(x) == 0 {
				// the empty message: one zero token (the wrapper special-cases exactly this block)
				rec["empty_is_zero_token"] = w == 1 && dst[0] == 0
			} else if err == nil {
				c := dst[:w]
				rec["nonempty"] = w >= 1
				rec["bound_ok"] = w <= bound
				rec["ratio_ok"] = len(x) <= 255*w
				// destination large enough (exact, +1, 2x): returns exactly x
				exact := true
				for _, dl := range []int{len(x), len(x) + 1, 2*len(x) + 7} {
					out := make([]byte, dl)
					m, e2 := golz4.UncompressBlock(c, out)
					if e2 != nil || !bytes.Equal(out[:m], x) {
						exact = false
						rec["exact_fail_dst"] = dl
					}
				}
				rec["large_dst_exact"] = exact
				// destination too small: an error, never a silently truncated result
				small := true
				for _, dl := range []int{0, len(x) / 2, len(x) - 1} {
					if dl < 0 || dl >= len(x) {
						continue
					}
					out := make([]byte, dl)
					_, e2 := golz4.UncompressBlock(c, out)
					if e2 == nil {
						small = false
						rec["small_ok_dst"] = dl
					}
				}
				rec["small_dst_fails"] = small
			}
			hlib.Emit(rec)
			// snappy contract: Decode(Encode x) = x
			sc := gosnappy.Encode(nil, x)
			sd, serr := gosnappy.Decode(nil, sc)
			hlib.Emit(J{"kind": "contract_snappy", "class": class, "len": sz, "clen": len(sc), "ok": serr == nil && bytes.Equal(sd, x)})
		}
	}
	// permanent corpus: inputs in which a 4-byte window repeats at distance exactly 65536 (the pinned pierrec/lz4
	// stores that match distance as offset 0)
	{
		step1, r2s := 20, []int{4, 15, 16, 40}
		if thorough {
			step1, r2s = 1, nil
			for r := 4; r <= 40; r++ {
				r2s = append(r2s, r)
			}
		}
		type pr struct{ a, b int }
		prs := []pr{{65520, 16}, {65534, 15}}
		for r1 := 65400; r1 <= 65700; r1 += step1 {
			for _, r2 := range r2s {
				prs = append(prs, pr{r1, r2})
			}
		}
		// the same defect surfacing as a decompression ERROR (invalid offset near the end of the block): byte ramps
		for _, rl := range []int{65786, 131297, 131071} {
			x := expandClass("ramp", rl, 0)
			for _, af := range [][2]string{{"lz4", "raw"}, {"lz4", "withlen"}} {
				r := roundTrip(af[0], af[1], x)
				n++
				rec := J{"kind": "rt", "algo": af[0], "fmt": af[1], "class": "ramp", "len": len(x), "seed": 0, "clen": r.clen, "ok": r.ok}
				if !r.ok {
					fails++
					rec["detail"] = r.detail
					if r.diag != nil {
						rec["diag"] = r.diag
					}
				}
				hlib.Emit(rec)
			}
		}
		for _, q := range prs {
			x := expandClass("dist65536", q.a, int64(q.b))
			for _, af := range [][2]string{{"lz4", "raw"}, {"lz4", "withlen"}, {"snappy", "withlen"}} {
				r := roundTrip(af[0], af[1], x)
				n++
				rec := J{"kind": "rt", "algo": af[0], "fmt": af[1], "class": "dist65536", "len": len(x), "run1": q.a, "seed": q.b, "clen": r.clen, "ok": r.ok}
				if !r.ok {
					fails++
					rec["detail"] = r.detail
					if r.diag != nil {
						rec["diag"] = r.diag
					}
				}
				hlib.Emit(rec)
			}
		}
	}
	// every entry point x source reader kind x destination writer kind
	{
		msizes := []int{0, 1, 4, 29, 300, 5000}
		if thorough {
			msizes = append(msizes, 2, 3, 16, 17, 255, 256, 1000, 40000, 65535)
		}
		for ci, class := range classes {
			for si, sz := range msizes {
				if !thorough && (ci+si)%2 == 1 && sz > 4 {
					continue
				}
				csd := int64(rnd.Intn(1 << 30))
				cs, bd := readerMatrix(class, sz, csd, expandClass(class, sz, csd))
				n += cs
				fails += bd
			}
		}
		x := []byte("ABCDABCDABCDABCefghijklmnopqr")
		cs, bd := readerMatrix("literal", len(x), 0, x)
		n += cs
		fails += bd
	}
	// wrapper correspondence: small inputs with the library's own block as the oracle answer
	wrapIn := [][]byte{{}, {7}, {0}, []byte("abc"), []byte("hello, world"), expand(Desc{"zero", 300, 0, ""}), expand(Desc{"rep", 255, 9, ""}), expand(Desc{"rep", 256, 9, ""}),
		expand(Desc{"lcg", 40, 3, ""}), expand(Desc{"period", 200, 4, ""}), expand(Desc{"zero", 16, 0, ""}), expand(Desc{"zero", 17, 0, ""}), expand(Desc{"zero", 2000, 0, ""}),
		expandClass("text", 400, 5), expandClass("rows", 500, 6), expand(Desc{"ramp", 64, 250, ""})}
	for _, x := range wrapIn {
		bound := golz4.CompressBlockBound(len(x))
		dst := make([]byte, bound)
		w, err := golz4.CompressBlock(x, dst, nil)
		if err != nil {
			hlib.Emit(J{"kind": "wrap_failed", "x": hex.EncodeToString(x)})
			continue
		}
		var raw, wl, d1, d2 bytes.Buffer
		e1 := lz4.Compressor{}.Compress(bytes.NewBuffer(x), &raw)
		e2 := lz4.Compressor{}.CompressWithLength(bytes.NewBuffer(x), &wl)
		e3 := lz4.Compressor{}.Decompress(bytes.NewReader(raw.Bytes()), &d1)
		e4 := lz4.Compressor{}.DecompressWithLength(bytes.NewReader(wl.Bytes()), &d2)
		hlib.Emit(J{"kind": "wrap", "x": hex.EncodeToString(x), "block": hex.EncodeToString(dst[:w]), "bound": bound,
			"raw_ok": e1 == nil, "raw": hex.EncodeToString(raw.Bytes()), "withlen_ok": e2 == nil, "withlen": hex.EncodeToString(wl.Bytes()),
			"dec_raw_ok": e3 == nil, "dec_raw": hex.EncodeToString(d1.Bytes()), "dec_withlen_ok": e4 == nil, "dec_withlen": hex.EncodeToString(d2.Bytes())})
	}
	for _, in := range [][]byte{{}, {0}, {0, 0, 0}, {0, 0, 0, 0}, {0, 0, 0, 0, 5}, {0, 0, 0, 0, 5, 6, 7}, {0, 0, 0, 0, 0}} {
		var d bytes.Buffer
		err := lz4.Compressor{}.DecompressWithLength(bytes.NewReader(in), &d)
		hlib.Emit(J{"kind": "wrapdec", "input": hex.EncodeToString(in), "ok": err == nil, "out": hex.EncodeToString(d.Bytes())})
	}
	// corner inputs of the wrappers
	{
		var out bytes.Buffer
		err := lz4.Compressor{}.Decompress(bytes.NewReader(nil), &out)
		hlib.Emit(J{"kind": "corner", "what": "lz4.Decompress(empty input)", "err": err != nil, "out_len": out.Len()})
		out.Reset()
		n0, e0 := golz4.UncompressBlock(nil, make([]byte, 0))
		hlib.Emit(J{"kind": "corner", "what": "UncompressBlock(empty, empty)", "err": e0 != nil, "out_len": n0})
		var c bytes.Buffer
		_ = lz4.Compressor{}.Compress(bytes.NewBuffer(nil), &c)
		hlib.Emit(J{"kind": "corner", "what": "lz4.Compress(empty)", "hex": hex.EncodeToString(c.Bytes())})
		c.Reset()
		_ = lz4.Compressor{}.CompressWithLength(bytes.NewBuffer(nil), &c)
		hlib.Emit(J{"kind": "corner", "what": "lz4.CompressWithLength(empty)", "hex": hex.EncodeToString(c.Bytes())})
		c.Reset()
		_ = lz4.Compressor{}.CompressWithLength(bytes.NewBuffer([]byte("abc")), &c)
		hlib.Emit(J{"kind": "corner", "what": "lz4.CompressWithLength(abc)", "hex": hex.EncodeToString(c.Bytes())})
	}
	// frames: a body encoded with compression decodes to the same message as one encoded without
	for _, algo := range []string{"lz4", "snappy"} {
		for _, ql := range []int{0, 1, 10, 1000, 70000, 300000} {
			for _, v := range []primitive.ProtocolVersion{primitive.ProtocolVersion3, primitive.ProtocolVersion4} {
				q := strings.Repeat("SELECT * FROM t WHERE k = 0123456789; ", ql/38+1)[:ql]
				n++
				ok, detail := frameCase(algo, v, q)
				if !ok {
					fails++
				}
				hlib.Emit(J{"kind": "frame", "algo": algo, "version": int(v), "query_len": ql, "ok": ok, "detail": detail})
			}
		}
	}
	// segments through the compressing segment codec at the boundary payload sizes (the maximum 131071, 131070, and the
	// 64 KiB neighbourhood) with compressible content, i.e. payloads that are really transmitted compressed and whose
	// decompressed size is the largest the decoder may be asked to produce.  Descriptor classes give `seg` records (the
	// model runs on them as well, with the library's compressed bytes as oracle answer); harness-only classes give `segx`.
	{
		sid := 0
		bsizes := []int{131071, 131070}
		if thorough {
			bsizes = append(bsizes, 131069, 131068, 131064, 131040, 130000, 65537, 65536, 65535)
		}
		for _, sz := range bsizes {
			for _, pat := range []string{"zero", "rep", "period", "half"} {
				sid++
				n++
				d := Desc{pat, sz, int64(1 + rnd.Intn(200)), ""}
				rec := segRecord(sid, d, sid%2 == 1, "lz4")
				if dj, _ := rec["dec"].(J); rec["enc_ok"] != true || dj["class"] != "ok" || dj["payload_eq"] != true {
					fails++
				}
				hlib.Emit(rec)
			}
		}
		// compressed size on and around the uncompressed size
		{
			per := 4
			if thorough {
				per = 40
			}
			sel, counts := ratioBoundaryPayloads(per)
			emitRatioSearch("c08", sel, counts)
			for _, q := range sel {
				for _, sc := range []bool{true, false} {
					sid++
					n++
					rec := segRecord(sid, hexDesc(q.p), sc, "lz4")
					if dj, _ := rec["dec"].(J); rec["enc_ok"] != true || dj["class"] != "ok" || dj["payload_eq"] != true {
						fails++
					}
					hlib.Emit(rec)
				}
			}
		}
		xsizes := []int{131071, 131070, 131069, 65536, 65535, 32768}
		for i, sz := range xsizes {
			for k, class := range []string{"rows", "mixed", "text"} {
				csd := int64(rnd.Intn(1 << 30))
				p := expandClass(class, sz, csd)
				n++
				rec := segxRecord(class, sz, csd, p, "lz4", (i+k)%2 == 0)
				if dj, _ := rec["dec"].(J); rec["enc_ok"] != true || dj["class"] != "ok" || dj["payload_eq"] != true {
					fails++
				}
				hlib.Emit(rec)
			}
		}
	}
	hlib.Emit(J{"kind": "c08_summary", "cases": n, "failures": fails})
}

func frameCase(algo string, v primitive.ProtocolVersion, q string) (ok bool, detail string) {
	defer func() {
		if e := recover(); e != nil {
			ok, detail = false, "panic: "+fmt.Sprint(e)
		}
	}()
	var bc frame.BodyCompressor = lz4.Compressor{}
	if algo == "snappy" {
		bc = snappy.Compressor{}
	}
	cc := frame.NewCodecWithCompression(bc)
	pc := frame.NewCodec()
	mk := func() *frame.Frame {
		return frame.NewFrame(v, 1, &message.Query{Query: q, Options: &message.QueryOptions{}})
	}
	f1 := mk()
	f1.SetCompress(true)
	var b1, b2 bytes.Buffer
	if err := cc.EncodeFrame(f1, &b1); err != nil {
		return false, "encode (compressed): " + err.Error()
	}
	if err := pc.EncodeFrame(mk(), &b2); err != nil {
		return false, "encode (plain): " + err.Error()
	}
	d1, err := cc.DecodeFrame(bytes.NewReader(b1.Bytes()))
	if err != nil {
		return false, "decode (compressed): " + err.Error()
	}
	d2, err := pc.DecodeFrame(bytes.NewReader(b2.Bytes()))
	if err != nil {
		return false, "decode (plain): " + err.Error()
	}
	q1, ok1 := d1.Body.Message.(*message.Query)
	q2, ok2 := d2.Body.Message.(*message.Query)
	if !ok1 || !ok2 || q1.Query != q2.Query || q1.Query != q {
		return false, "decoded messages differ"
	}
	return true, fmt.Sprintf("compressed frame %d bytes, plain %d bytes", b1.Len(), b2.Len())
}

// ---------------------------------------------------------------- malformed (C04: decoders never panic, fault or hang)
//
//	harness-seg malformed <n> [thorough]
//
// Structure-aware malformed inputs for the REAL DecodeSegment (nil compressor and lz4) and the real decompressors.
// One JSON line per case: {"id","entry","input","outcome": ok|err|panic|timeout|oom, ...}.  Segment entries also carry
// the decoded observables and the decompression oracle, in the shape of the `raw` records of mode c06, so that the
// decoder model can be run on the same input (tools/lib/seglib.py malformed_segment_mismatches).

func runEntry(entry string, in []byte) (outcome string, d decRes) {
	switch entry {
	case "segment":
		d = decodeSeg("none", in)
		return d.class, d
	case "segment-lz4":
		d = decodeSeg("lz4", in)
		return d.class, d
	}
	outcome = "ok"
	func() {
		defer func() {
			if e := recover(); e != nil {
				outcome = "panic"
			}
		}()
		var out bytes.Buffer
		var err error
		switch entry {
		case "lz4-raw":
			err = lz4.Compressor{}.Decompress(bytes.NewReader(in), &out)
		case "lz4-len":
			err = lz4.Compressor{}.DecompressWithLength(bytes.NewReader(in), &out)
		case "snappy-len":
			err = snappy.Compressor{}.DecompressWithLength(bytes.NewReader(in), &out)
		}
		if err != nil {
			outcome = "err"
		}
	}()
	return outcome, d
}

// needsChild: inputs whose declared length would make the library allocate gigabytes run in a child process with an
// address-space limit, so that an out-of-memory kill is classified as "oom" and does not take the harness down.
func needsChild(entry string, in []byte) bool {
	if entry != "snappy-len" {
		return false
	}
	v, k := binary.Uvarint(in)
	return k > 0 && v > 64<<20
}

func runChild(entry string, in []byte) string {
	cmd := exec.Command(os.Args[0], "malformed-child", entry, hex.EncodeToString(in))
	var so, se bytes.Buffer
	cmd.Stdout, cmd.Stderr = &so, &se
	if err := cmd.Start(); err != nil {
		return "child-failed"
	}
	done := make(chan error, 1)
	go func() { done <- cmd.Wait() }()
	select {
	case <-done:
	case <-time.After(10 * time.Second):
		_ = cmd.Process.Kill()
		return "timeout"
	}
	out := strings.TrimSpace(so.String())
	if out == "ok" || out == "err" || out == "panic" {
		return out
	}
	if strings.Contains(se.String(), "out of memory") || strings.Contains(se.String(), "cannot allocate") {
		return "oom"
	}
	return "crash"
}

func malformedChild(entry, hx string) {
	_ = syscall.Setrlimit(syscall.RLIMIT_AS, &syscall.Rlimit{Cur: 3 << 30, Max: 3 << 30})
	in, _ := hex.DecodeString(hx)
	o, _ := runEntry(entry, in)
	fmt.Println(o)
}

func malformed(n int, thorough bool, seed int64) {
	rnd := rand.New(rand.NewSource(seed))
	id := 0
	emit := func(entry, what string, in []byte) {
		id++
		rec := J{"id": id, "entry": entry, "what": what, "input": hex.EncodeToString(in)}
		if needsChild(entry, in) {
			rec["outcome"] = runChild(entry, in)
			rec["child"] = true
			hlib.Emit(rec)
			return
		}
		type res struct {
			o string
			d decRes
		}
		ch := make(chan res, 1)
		go func() {
			o, d := runEntry(entry, in)
			ch <- res{o, d}
		}()
		select {
		case r := <-ch:
			rec["outcome"] = r.o
			if strings.HasPrefix(entry, "segment") {
				comp := "none"
				if entry == "segment-lz4" {
					comp = "lz4"
				}
				rec["comp"] = comp
				rec["hex"] = rec["input"]
				rec["dec"] = decJ(r.d, nil)
				if comp == "lz4" && r.o != "panic" && len(in) >= 8 {
					hv := uint64(0)
					for i := 0; i < 5; i++ {
						hv |= uint64(in[i]) << uint(8*i)
					}
					cl, ul := int(hv&0x1FFFF), int((hv>>17)&0x1FFFF)
					if ul != 0 && cl != 0 && len(in) >= 8+cl {
						var out bytes.Buffer
						var err error
						func() {
							defer func() {
								if e := recover(); e != nil {
									err = fmt.Errorf("panic")
								}
							}()
							err = lz4.Compressor{}.Decompress(bytes.NewReader(in[8:8+cl]), &out)
						}()
						rec["oracle_in"] = hex.EncodeToString(in[8 : 8+cl])
						rec["oracle_ok"] = err == nil
						rec["oracle_out"] = hex.EncodeToString(out.Bytes())
					}
				}
			}
		case <-time.After(5 * time.Second):
			rec["outcome"] = "timeout"
		}
		hlib.Emit(rec)
	}
	randBytes := func(k int) []byte {
		b := make([]byte, k)
		rnd.Read(b)
		return b
	}
	flip := func(in []byte) []byte {
		c := append([]byte{}, in...)
		if len(c) > 0 {
			q := rnd.Intn(len(c) * 8)
			c[q/8] ^= 1 << uint(q%8)
		}
		return c
	}

	// ---- segments
	pl := expand(Desc{"lcg", 23, 5, ""})
	zl := expand(Desc{"zero", 300, 0, ""})
	for _, entry := range []string{"segment", "segment-lz4"} {
		compressed := entry == "segment-lz4"
		// every header length field forced, header CRC-24 valid; bodies: none, short, exact with good / bad CRC-32, long
		vals := []uint64{0, 1, 2, 23, 131070, 131071}
		for _, u := range vals {
			cvals := []uint64{0}
			if compressed {
				cvals = vals
			}
			for _, c := range cvals {
				for _, sc := range []bool{false, true} {
					hdrOnly := refSegment(compressed, sc, u, c, nil)
					hl := 6
					if compressed {
						hl = 8
					}
					hdr := hdrOnly[:hl]
					emit(entry, "forced-lengths/no-body", hdr)
					emit(entry, "forced-lengths/short-body", append(append([]byte{}, hdr...), randBytes(3)...))
					want := int(u)
					if compressed && c != 0 && u != 0 {
						want = int(c)
					} else if compressed && u == 0 {
						want = int(c)
					}
					if want <= 4096 {
						body := randBytes(want)
						emit(entry, "forced-lengths/exact-body-good-crc", refSegment(compressed, sc, u, c, body))
						bad := refSegment(compressed, sc, u, c, body)
						bad[len(bad)-1] ^= 0x40
						emit(entry, "forced-lengths/exact-body-bad-crc", bad)
						emit(entry, "forced-lengths/body-no-crc", append(append([]byte{}, hdr...), body...))
					} else {
						emit(entry, "forced-lengths/declares-more-than-present", append(append([]byte{}, hdr...), randBytes(50)...))
					}
				}
			}
		}
		// padding bits set (the only way to put "more than 131071" into the header word), valid CRC-24
		for k := 0; k < 8; k++ {
			hl, hv := 3, uint64(12)|uint64(1+rnd.Intn(63))<<18
			if compressed {
				hl, hv = 5, uint64(12)|uint64(12)<<17|uint64(1+rnd.Intn(31))<<35
			}
			h := leBytes(hv, hl)
			in := append(append([]byte{}, h...), leBytes(uint64(refCrc24(h)), 3)...)
			in = append(in, pl[:12]...)
			in = append(in, leBytes(uint64(refCrc32(pl[:12])), 4)...)
			emit(entry, "padding-bits-set", in)
		}
		// valid framing around garbage / damaged LZ4 blocks (the decompressor is reached)
		if compressed {
			good, _ := lz4Compress(zl)
			for k := 0; k < 40+n/20; k++ {
				var blk []byte
				switch k % 4 {
				case 0:
					blk = randBytes(1 + rnd.Intn(40))
				case 1:
					blk = flip(good)
				case 2:
					blk = good[:rnd.Intn(len(good))]
					if len(blk) == 0 {
						blk = []byte{0xF0}
					}
				default:
					blk = append([]byte{0xFF, 0xFF, 0xFF, 0xFF, 0xFF}, randBytes(rnd.Intn(6))...)
				}
				emit(entry, "valid-frame-damaged-block", refSegment(true, true, uint64(1+rnd.Intn(131071)), uint64(len(blk)), blk))
			}
		}
		// truncation at every offset, bit flips, trailing bytes of real segments
		comp := "none"
		if compressed {
			comp = "lz4"
		}
		for _, p := range [][]byte{{}, pl, zl} {
			e := encodeSeg(comp, true, p)
			for cut := 0; cut <= len(e.out); cut++ {
				if len(e.out) > 60 && cut > 14 && cut < len(e.out)-8 && cut%9 != 0 {
					continue
				}
				emit(entry, "truncate", e.out[:cut])
			}
			for k := 0; k < 30+n/20; k++ {
				emit(entry, "bit-flip", flip(e.out))
			}
		}
		for k := 0; k < n; k++ {
			emit(entry, "random", randBytes(rnd.Intn(48)))
		}
	}

	// ---- decompressors
	goodBlocks := [][]byte{}
	for _, x := range [][]byte{{}, {7}, pl, zl, expandClass("text", 500, 3), expand(Desc{"period", 4000, 9, ""})} {
		c, _ := lz4Compress(x)
		goodBlocks = append(goodBlocks, c)
	}
	for _, blk := range goodBlocks {
		for cut := 0; cut <= len(blk); cut++ {
			emit("lz4-raw", "truncate", blk[:cut])
		}
		for k := 0; k < 20+n/20; k++ {
			emit("lz4-raw", "bit-flip", flip(blk))
		}
	}
	for _, blk := range [][]byte{{0xF0}, {0xF0, 0xFF}, {0xFF, 0xFF, 0xFF, 0xFF, 0xFF, 0xFF, 0xFF, 0xFF}, {0x0F, 0x00, 0x00}, {0x0F, 0x01, 0x00, 0xFF, 0xFF, 0xFF, 0xFF},
		{0x10, 'a', 0x00, 0x00}, {0x10, 'a', 0xFF, 0xFF}, {0x1F, 'a', 0x01, 0x00, 0xFF, 0xFF, 0xFF, 0xFF, 0xFF, 0xFF, 0xFF, 0xFF, 0x00}, {0x00, 0x00}, {0x00, 0x00, 0x00}} {
		emit("lz4-raw", "crafted-block", blk)
	}
	for k := 0; k < n; k++ {
		emit("lz4-raw", "random", randBytes(rnd.Intn(64)))
	}
	be := func(v uint32) []byte { return []byte{byte(v >> 24), byte(v >> 16), byte(v >> 8), byte(v)} }
	for _, dl := range []uint32{0, 1, 2, 1 << 16, 1<<31 - 1, 1 << 31, 1<<32 - 1} {
		for _, body := range [][]byte{{}, {0}, {0x10, 'a'}, {0xF0, 0xFF}, randBytes(5), goodBlocks[2], goodBlocks[3]} {
			emit("lz4-len", "declared-length", append(be(dl), body...))
		}
	}
	for cut := 0; cut < 4; cut++ {
		emit("lz4-len", "truncated-length", be(7)[:cut])
	}
	for k := 0; k < n; k++ {
		emit("lz4-len", "random", randBytes(rnd.Intn(64)))
	}
	uv := func(v uint64) []byte {
		b := make([]byte, binary.MaxVarintLen64)
		return b[:binary.PutUvarint(b, v)]
	}
	sgood := [][]byte{gosnappy.Encode(nil, pl), gosnappy.Encode(nil, zl), gosnappy.Encode(nil, expandClass("text", 500, 3))}
	for _, dl := range []uint64{0, 1, 2, 1 << 16, 1 << 26, 1<<31 - 1, 1 << 31, 1<<32 - 1, 1 << 32, 1<<63 - 1} {
		for _, body := range [][]byte{{}, {0}, {0x00, 'a'}, {0xFC, 0xFF, 0xFF, 0xFF}, randBytes(5)} {
			emit("snappy-len", "declared-length", append(uv(dl), body...))
		}
	}
	for _, g := range sgood {
		for cut := 0; cut <= len(g); cut++ {
			emit("snappy-len", "truncate", g[:cut])
		}
		for k := 0; k < 20+n/20; k++ {
			emit("snappy-len", "bit-flip", flip(g))
		}
	}
	emit("snappy-len", "varint-overlong", []byte{0xFF, 0xFF, 0xFF, 0xFF, 0xFF, 0xFF, 0xFF, 0xFF, 0xFF, 0xFF, 0x01})
	for k := 0; k < n; k++ {
		emit("snappy-len", "random", randBytes(rnd.Intn(64)))
	}
}

func main() {
	defer hlib.Flush()
	if len(os.Args) > 1 && os.Args[1] == "malformed-child" {
		malformedChild(os.Args[2], os.Args[3])
		return
	}
	if len(os.Args) > 1 && os.Args[1] == "malformed" {
		n := 300
		if len(os.Args) > 2 {
			if v, err := strconv.Atoi(os.Args[2]); err == nil {
				n = v
			}
		}
		malformed(n, len(os.Args) > 3 && os.Args[3] == "thorough", hlib.Seed())
		return
	}
	mode, tier := "c06", "quick"
	if len(os.Args) > 1 {
		mode = os.Args[1]
	}
	if len(os.Args) > 2 {
		tier = os.Args[2]
	}
	switch mode {
	case "c06":
		c06(tier, hlib.Seed())
	case "c07":
		c07(tier, hlib.Seed())
	case "c08":
		c08(tier, hlib.Seed())
	default:
		fmt.Fprintln(os.Stderr, "usage: harness-seg c06|c07|c08 quick|thorough")
		os.Exit(2)
	}
}
