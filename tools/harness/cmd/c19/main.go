package main

import (
	"encoding/json"
	"math/rand"
	"os"
	"reflect"
	"sort"
	"strconv"
	"strings"

	"github.com/datastax/go-cassandra-native-protocol/primitive"
	"verifharness/hlib"
)



type c19Method struct {
	Name   string   `json:"name"`
	Coq    string   `json:"coq"`
	Params []string `json:"params"`
	Result string   `json:"result"`
}
type c19Type struct {
	Name    string      `json:"name"`
	Kind    string      `json:"kind"`
	Bits    int         `json:"bits"`
	Consts  [][2]string `json:"consts"`
	Methods []c19Method `json:"methods"`
}

// constructors of the code types by name (reflection cannot build a named type from a string)
var intCtor = map[string]func(uint64) reflect.Value{
	"ProtocolVersion":  func(v uint64) reflect.Value { return reflect.ValueOf(primitive.ProtocolVersion(v)) },
	"OpCode":           func(v uint64) reflect.Value { return reflect.ValueOf(primitive.OpCode(v)) },
	"ResultType":       func(v uint64) reflect.Value { return reflect.ValueOf(primitive.ResultType(v)) },
	"ErrorCode":        func(v uint64) reflect.Value { return reflect.ValueOf(primitive.ErrorCode(v)) },
	"ConsistencyLevel": func(v uint64) reflect.Value { return reflect.ValueOf(primitive.ConsistencyLevel(v)) },
	"DataTypeCode":     func(v uint64) reflect.Value { return reflect.ValueOf(primitive.DataTypeCode(v)) },
	"BatchType":        func(v uint64) reflect.Value { return reflect.ValueOf(primitive.BatchType(v)) },
	"BatchChildType":   func(v uint64) reflect.Value { return reflect.ValueOf(primitive.BatchChildType(v)) },
	"HeaderFlag":       func(v uint64) reflect.Value { return reflect.ValueOf(primitive.HeaderFlag(v)) },
	"QueryFlag":        func(v uint64) reflect.Value { return reflect.ValueOf(primitive.QueryFlag(v)) },
	"RowsFlag":         func(v uint64) reflect.Value { return reflect.ValueOf(primitive.RowsFlag(v)) },
	"VariablesFlag":    func(v uint64) reflect.Value { return reflect.ValueOf(primitive.VariablesFlag(v)) },
	"PrepareFlag":      func(v uint64) reflect.Value { return reflect.ValueOf(primitive.PrepareFlag(v)) },
	"DseRevisionType":  func(v uint64) reflect.Value { return reflect.ValueOf(primitive.DseRevisionType(v)) },
	"FailureCode":      func(v uint64) reflect.Value { return reflect.ValueOf(primitive.FailureCode(v)) },
}
var strCtor = map[string]func(string) reflect.Value{
	"WriteType":          func(s string) reflect.Value { return reflect.ValueOf(primitive.WriteType(s)) },
	"EventType":          func(s string) reflect.Value { return reflect.ValueOf(primitive.EventType(s)) },
	"SchemaChangeType":   func(s string) reflect.Value { return reflect.ValueOf(primitive.SchemaChangeType(s)) },
	"SchemaChangeTarget": func(s string) reflect.Value { return reflect.ValueOf(primitive.SchemaChangeTarget(s)) },
	"TopologyChangeType": func(s string) reflect.Value { return reflect.ValueOf(primitive.TopologyChangeType(s)) },
	"StatusChangeType":   func(s string) reflect.Value { return reflect.ValueOf(primitive.StatusChangeType(s)) },
	"Compression":        func(s string) reflect.Value { return reflect.ValueOf(primitive.Compression(s)) },
}

// Check* helpers: name -> (argument types, call)
var checkHelpers = map[string]struct {
	params []string
	call   func(a []reflect.Value) error
}{
	"CheckSupportedProtocolVersion": {[]string{"ProtocolVersion"}, func(a []reflect.Value) error {
		return primitive.CheckSupportedProtocolVersion(a[0].Interface().(primitive.ProtocolVersion))
	}},
	"CheckDseProtocolVersion": {[]string{"ProtocolVersion"}, func(a []reflect.Value) error {
		return primitive.CheckDseProtocolVersion(a[0].Interface().(primitive.ProtocolVersion))
	}},
	"CheckValidOpCode":    {[]string{"OpCode"}, func(a []reflect.Value) error { return primitive.CheckValidOpCode(a[0].Interface().(primitive.OpCode)) }},
	"CheckRequestOpCode":  {[]string{"OpCode"}, func(a []reflect.Value) error { return primitive.CheckRequestOpCode(a[0].Interface().(primitive.OpCode)) }},
	"CheckResponseOpCode": {[]string{"OpCode"}, func(a []reflect.Value) error { return primitive.CheckResponseOpCode(a[0].Interface().(primitive.OpCode)) }},
	"CheckValidConsistencyLevel": {[]string{"ConsistencyLevel"}, func(a []reflect.Value) error {
		return primitive.CheckValidConsistencyLevel(a[0].Interface().(primitive.ConsistencyLevel))
	}},
	"CheckSerialConsistencyLevel": {[]string{"ConsistencyLevel"}, func(a []reflect.Value) error {
		return primitive.CheckSerialConsistencyLevel(a[0].Interface().(primitive.ConsistencyLevel))
	}},
	"CheckValidEventType": {[]string{"EventType"}, func(a []reflect.Value) error { return primitive.CheckValidEventType(a[0].Interface().(primitive.EventType)) }},
	"CheckValidWriteType": {[]string{"WriteType"}, func(a []reflect.Value) error { return primitive.CheckValidWriteType(a[0].Interface().(primitive.WriteType)) }},
	"CheckValidBatchType": {[]string{"BatchType"}, func(a []reflect.Value) error { return primitive.CheckValidBatchType(a[0].Interface().(primitive.BatchType)) }},
	"CheckValidDataTypeCode": {[]string{"DataTypeCode", "ProtocolVersion"}, func(a []reflect.Value) error {
		return primitive.CheckValidDataTypeCode(a[0].Interface().(primitive.DataTypeCode), a[1].Interface().(primitive.ProtocolVersion))
	}},
	"CheckValidSchemaChangeType": {[]string{"SchemaChangeType"}, func(a []reflect.Value) error {
		return primitive.CheckValidSchemaChangeType(a[0].Interface().(primitive.SchemaChangeType))
	}},
	"CheckValidSchemaChangeTarget": {[]string{"SchemaChangeTarget", "ProtocolVersion"}, func(a []reflect.Value) error {
		return primitive.CheckValidSchemaChangeTarget(a[0].Interface().(primitive.SchemaChangeTarget), a[1].Interface().(primitive.ProtocolVersion))
	}},
	"CheckValidStatusChangeType": {[]string{"StatusChangeType"}, func(a []reflect.Value) error {
		return primitive.CheckValidStatusChangeType(a[0].Interface().(primitive.StatusChangeType))
	}},
	"CheckValidTopologyChangeType": {[]string{"TopologyChangeType", "ProtocolVersion"}, func(a []reflect.Value) error {
		return primitive.CheckValidTopologyChangeType(a[0].Interface().(primitive.TopologyChangeType), a[1].Interface().(primitive.ProtocolVersion))
	}},
	"CheckValidResultType": {[]string{"ResultType"}, func(a []reflect.Value) error { return primitive.CheckValidResultType(a[0].Interface().(primitive.ResultType)) }},
	"CheckValidDseRevisionType": {[]string{"DseRevisionType", "ProtocolVersion"}, func(a []reflect.Value) error {
		return primitive.CheckValidDseRevisionType(a[0].Interface().(primitive.DseRevisionType), a[1].Interface().(primitive.ProtocolVersion))
	}},
	"CheckValidFailureCode": {[]string{"FailureCode"}, func(a []reflect.Value) error { return primitive.CheckValidFailureCode(a[0].Interface().(primitive.FailureCode)) }},
}

// domain of an integer code type: complete for 8 and 16 bits; for 32 bits the declared constants and
// their neighbours, every power of two and its neighbours, and seeded random values.
func intDomain(t *c19Type, rnd *rand.Rand, thorough bool) ([]uint64, bool) {
	if t.Bits <= 16 {
		n := uint64(1) << uint(t.Bits)
		d := make([]uint64, n)
		for i := range d {
			d[i] = uint64(i)
		}
		return d, true
	}
	set := map[uint64]bool{}
	mask := uint64(1)<<uint(t.Bits) - 1
	add := func(v uint64) { set[v&mask] = true }
	for _, c := range t.Consts {
		v, _ := strconv.ParseUint(c[1], 10, 64)
		add(v)
		add(v + 1)
		add(v - 1)
	}
	for i := 0; i < t.Bits; i++ {
		add(1 << uint(i))
		add(1<<uint(i) + 1)
		add(1<<uint(i) - 1)
	}
	add(0)
	add(mask)
	n := 2000
	if thorough {
		n = 200000
	}
	for i := 0; i < n; i++ {
		add(rnd.Uint64())
	}
	low := uint64(3000)
	if thorough {
		low = 70000
	}
	for i := uint64(0); i < low; i++ { // low range completely
		add(i)
	}
	var d []uint64
	for v := range set {
		d = append(d, v)
	}
	sort.Slice(d, func(i, j int) bool { return d[i] < d[j] })
	return d, false
}

func strDomain(t *c19Type, all []c19Type) []string {
	set := map[string]bool{"": true, "?": true, "UNKNOWN": true}
	for _, o := range all {
		if o.Kind != "string" {
			continue
		}
		for _, c := range o.Consts {
			s := c[1]
			set[s] = true
			set[strings.ToLower(s)] = true
			set[s+" "] = true
			set[" "+s] = true
			if len(s) > 1 {
				set[s[:len(s)-1]] = true
				set[s[1:]] = true
			}
			set[s+"S"] = true
		}
	}
	var d []string
	for s := range set {
		d = append(d, s)
	}
	sort.Strings(d)
	return d
}

func argDomain(typeName string, all []c19Type, rnd *rand.Rand, thorough bool) []reflect.Value {
	for i := range all {
		t := &all[i]
		if t.Name != typeName {
			continue
		}
		if t.Kind == "int" {
			var vs []reflect.Value
			if t.Bits <= 8 {
				d, _ := intDomain(t, rnd, thorough)
				for _, v := range d {
					vs = append(vs, intCtor[typeName](v))
				}
				return vs
			}
			// declared constants, neighbours, a few undeclared
			set := map[uint64]bool{0: true, 3: true, 1 << 20: true}
			for _, c := range t.Consts {
				v, _ := strconv.ParseUint(c[1], 10, 64)
				set[v] = true
				set[v+1] = true
			}
			var ks []uint64
			for k := range set {
				ks = append(ks, k)
			}
			sort.Slice(ks, func(i, j int) bool { return ks[i] < ks[j] })
			for _, k := range ks {
				vs = append(vs, intCtor[typeName](k&(uint64(1)<<uint(t.Bits)-1)))
			}
			return vs
		}
		var vs []reflect.Value
		for _, s := range strDomain(t, all) {
			vs = append(vs, strCtor[typeName](s))
		}
		return vs
	}
	return nil
}

func valStr(v reflect.Value) string {
	switch v.Kind() {
	case reflect.String:
		return v.String()
	case reflect.Bool:
		if v.Bool() {
			return "true"
		}
		return "false"
	default:
		return strconv.FormatUint(v.Uint(), 10)
	}
}

// c19 <constants_table.json> [thorough]
// For every method of every code type and every Check helper: the inputs of the domain on which the
// implementation answers true (bool methods) / answers a fallback name containing '?' (String methods).
func c19(args []string, seed int64) {
	raw, err := os.ReadFile(args[0])
	if err != nil {
		panic(err)
	}
	thorough := len(args) > 1 && args[1] == "thorough"
	var table []c19Type
	if err := json.Unmarshal(raw, &table); err != nil {
		panic(err)
	}
	rnd := rand.New(rand.NewSource(seed))
	for i := range table {
		t := &table[i]
		var recvs []reflect.Value
		exhaustive := false
		if t.Kind == "int" {
			ctor, ok := intCtor[t.Name]
			if !ok {
				hlib.Emit(map[string]interface{}{"kind": "unregistered", "type": t.Name})
				continue
			}
			d, ex := intDomain(t, rnd, thorough)
			exhaustive = ex
			for _, v := range d {
				recvs = append(recvs, ctor(v))
			}
		} else {
			ctor, ok := strCtor[t.Name]
			if !ok {
				hlib.Emit(map[string]interface{}{"kind": "unregistered", "type": t.Name})
				continue
			}
			for _, s := range strDomain(t, table) {
				recvs = append(recvs, ctor(s))
			}
		}
		{
			rec := map[string]interface{}{"kind": "domain", "type": t.Name, "tkind": t.Kind, "bits": t.Bits, "exhaustive": exhaustive, "size": len(recvs)}
			if !exhaustive {
				var dom []string
				for _, r := range recvs {
					dom = append(dom, valStr(r))
				}
				rec["values"] = dom
			}
			hlib.Emit(rec)
		}
		for _, m := range t.Methods {
			if len(m.Params) > 1 || (m.Result != "bool" && m.Result != "string") {
				continue
			}
			var argss [][]reflect.Value
			if len(m.Params) == 0 {
				argss = [][]reflect.Value{nil}
			} else {
				for _, a := range argDomain(m.Params[0], table, rnd, thorough) {
					argss = append(argss, []reflect.Value{a})
				}
			}
			rs := recvs
			if len(m.Params) == 1 && len(rs) > 256 {
				rs = rs[:256]
			}
			for _, as := range argss {
				pos := []string{}
				for _, r := range rs {
					meth := r.MethodByName(m.Name)
					if !meth.IsValid() {
						hlib.Emit(map[string]interface{}{"kind": "nomethod", "type": t.Name, "method": m.Name})
						break
					}
					res := meth.Call(as)[0]
					hit := false
					if m.Result == "bool" {
						hit = res.Bool()
					} else {
						hit = !strings.Contains(res.String(), "?") // String(): record the inputs printed with a specific name
					}
					if hit {
						pos = append(pos, valStr(r))
					}
				}
				rec := map[string]interface{}{"kind": "method", "type": t.Name, "tkind": t.Kind, "method": m.Name, "coq": m.Coq,
					"result": m.Result, "positive": pos, "first": len(rs)}
				if len(as) == 1 {
					rec["arg"] = valStr(as[0])
					rec["argtype"] = m.Params[0]
				}
				hlib.Emit(rec)
			}
		}
	}
	// Check helpers
	var names []string
	for n := range checkHelpers {
		names = append(names, n)
	}
	sort.Strings(names)
	for _, n := range names {
		h := checkHelpers[n]
		first := argDomain(h.params[0], table, rnd, thorough)
		if len(first) > 300 {
			// full 16-bit sweep is pointless here; keep declared + neighbours
			first = first[:300]
		}
		seconds := []reflect.Value{{}}
		if len(h.params) == 2 {
			seconds = argDomain(h.params[1], table, rnd, thorough)
		}
		{
			var dom []string
			for _, f := range first {
				dom = append(dom, valStr(f))
			}
			hlib.Emit(map[string]interface{}{"kind": "checkdomain", "name": n, "values": dom})
		}
		for _, s := range seconds {
			pos := []string{}
			for _, f := range first {
				a := []reflect.Value{f}
				if len(h.params) == 2 {
					a = append(a, s)
				}
				if h.call(a) == nil {
					pos = append(pos, valStr(f))
				}
			}
			rec := map[string]interface{}{"kind": "check", "name": n, "params": h.params, "positive": pos}
			if len(h.params) == 2 {
				rec["arg"] = valStr(s)
			}
			hlib.Emit(rec)
		}
	}
}

func main() {
	defer hlib.Flush()
	c19(os.Args[1:], hlib.Seed())
}
