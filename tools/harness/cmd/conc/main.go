// Command conc (area `conc`, property C18): M goroutines on SHARED codec instances, results compared with sequential runs.
// Built with `go build -race`; a race report (stderr, exit code 66) or a differing result is the failing input.
//
// usage: harness-conc [thorough]
//
// Shared instances: frame codecs (no compression, lz4, snappy), segment codecs (no compression, lz4), the message codecs of
// message.DefaultMessageCodecs (through the frame codecs and directly), the datacodec package-level singletons, collection /
// tuple / UDT codecs created once, and the compressors.  Every goroutine works on its OWN generated frames, segments and values;
// the expected result of every operation is computed first, sequentially, on the same instances.
package main

import (
	"bytes"
	"encoding/hex"
	"fmt"
	"math/big"
	"math/rand"
	"net"
	"os"
	"reflect"
	"sort"
	"sync"
	"time"

	"github.com/datastax/go-cassandra-native-protocol/compression/lz4"
	"github.com/datastax/go-cassandra-native-protocol/compression/snappy"
	"github.com/datastax/go-cassandra-native-protocol/datacodec"
	"github.com/datastax/go-cassandra-native-protocol/datatype"
	"github.com/datastax/go-cassandra-native-protocol/frame"
	"github.com/datastax/go-cassandra-native-protocol/message"
	"github.com/datastax/go-cassandra-native-protocol/primitive"
	"github.com/datastax/go-cassandra-native-protocol/segment"
	"verifharness/hlib"
)

// an operation: a closure over shared codec instances and its own input; returns a canonical observable and (optionally) a
// decoded object that is compared with reflect.DeepEqual
type op struct {
	kind  string // codec instance + entry point, e.g. "frame/lz4.EncodeFrame"
	input string // short description of the input (replay)
	run   func() (string, interface{})
}

func outcome(b []byte, err error) string {
	if err != nil {
		return "err"
	}
	return "ok:" + hex.EncodeToString(b)
}

func guard(f func() (string, interface{})) (s string, o interface{}) {
	defer func() {
		if r := recover(); r != nil {
			s, o = "panic", nil
		}
	}()
	return f()
}

// ---------------------------------------------------------------- shared instances

var (
	frameCodecs = map[string]frame.RawCodec{
		"frame/none":   frame.NewRawCodec(),
		"frame/lz4":    frame.NewRawCodecWithCompression(lz4.Compressor{}),
		"frame/snappy": frame.NewRawCodecWithCompression(snappy.Compressor{}),
	}
	segmentCodecs = map[string]segment.Codec{
		"segment/none": segment.NewCodec(),
		"segment/lz4":  segment.NewCodecWithCompression(lz4.Compressor{}),
	}
	lz4c    = lz4.Compressor{}
	snappyc = snappy.Compressor{}
)

type valueCodec struct {
	name  string
	codec datacodec.Codec
	gen   func(r *rand.Rand) interface{} // a source value
	dest  func() interface{}             // a fresh destination pointer
}

func mustCodec(c datacodec.Codec, err error) datacodec.Codec {
	if err != nil {
		panic(err)
	}
	return c
}

func valueCodecs() []valueCodec {
	udtType, err := datatype.NewUserDefined("ks", "u", []string{"a", "b"}, []datatype.DataType{datatype.Int, datatype.Varchar})
	if err != nil {
		panic(err)
	}
	type udtStruct struct {
		A int32
		B string
	}
	return []valueCodec{
		{"datacodec.Int", datacodec.Int, func(r *rand.Rand) interface{} { return int32(r.Uint32()) }, func() interface{} { return new(int32) }},
		{"datacodec.Bigint", datacodec.Bigint, func(r *rand.Rand) interface{} { return int64(r.Uint64()) }, func() interface{} { return new(int64) }},
		{"datacodec.Counter", datacodec.Counter, func(r *rand.Rand) interface{} { return int64(r.Uint64()) }, func() interface{} { return new(int64) }},
		{"datacodec.Smallint", datacodec.Smallint, func(r *rand.Rand) interface{} { return int16(r.Uint32()) }, func() interface{} { return new(int16) }},
		{"datacodec.Tinyint", datacodec.Tinyint, func(r *rand.Rand) interface{} { return int8(r.Uint32()) }, func() interface{} { return new(int8) }},
		{"datacodec.Boolean", datacodec.Boolean, func(r *rand.Rand) interface{} { return r.Intn(2) == 0 }, func() interface{} { return new(bool) }},
		{"datacodec.Double", datacodec.Double, func(r *rand.Rand) interface{} { return r.NormFloat64() }, func() interface{} { return new(float64) }},
		{"datacodec.Float", datacodec.Float, func(r *rand.Rand) interface{} { return float32(r.NormFloat64()) }, func() interface{} { return new(float32) }},
		{"datacodec.Varchar", datacodec.Varchar, func(r *rand.Rand) interface{} { return randStr(r, 1+r.Intn(40)) }, func() interface{} { return new(string) }},
		{"datacodec.Ascii", datacodec.Ascii, func(r *rand.Rand) interface{} { return randStr(r, 1+r.Intn(40)) }, func() interface{} { return new(string) }},
		{"datacodec.Blob", datacodec.Blob, func(r *rand.Rand) interface{} { return randBytes(r, r.Intn(64)) }, func() interface{} { return new([]byte) }},
		{"datacodec.Varint", datacodec.Varint, func(r *rand.Rand) interface{} {
			x := new(big.Int).SetBytes(randBytes(r, 1+r.Intn(20)))
			if r.Intn(2) == 0 {
				x.Neg(x)
			}
			return x
		}, func() interface{} { return new(big.Int) }},
		{"datacodec.Decimal", datacodec.Decimal, func(r *rand.Rand) interface{} {
			return datacodec.CqlDecimal{Unscaled: new(big.Int).SetInt64(r.Int63() - r.Int63()), Scale: int32(r.Intn(30))}
		}, func() interface{} { return new(datacodec.CqlDecimal) }},
		{"datacodec.Uuid", datacodec.Uuid, func(r *rand.Rand) interface{} {
			var u primitive.UUID
			copy(u[:], randBytes(r, 16))
			return u
		}, func() interface{} { return new(primitive.UUID) }},
		{"datacodec.Timeuuid", datacodec.Timeuuid, func(r *rand.Rand) interface{} {
			var u primitive.UUID
			copy(u[:], randBytes(r, 16))
			return u
		}, func() interface{} { return new(primitive.UUID) }},
		{"datacodec.Timestamp", datacodec.Timestamp, func(r *rand.Rand) interface{} { return time.UnixMilli(r.Int63n(4e12)).UTC() }, func() interface{} { return new(time.Time) }},
		{"datacodec.Date", datacodec.Date, func(r *rand.Rand) interface{} { return time.Unix(int64(r.Intn(40000))*86400, 0).UTC() }, func() interface{} { return new(time.Time) }},
		{"datacodec.Time", datacodec.Time, func(r *rand.Rand) interface{} { return time.Duration(r.Int63n(86400e9)) }, func() interface{} { return new(time.Duration) }},
		{"datacodec.Duration", datacodec.Duration, func(r *rand.Rand) interface{} {
			return datacodec.CqlDuration{Months: int32(r.Intn(100)), Days: int32(r.Intn(100)), Nanos: time.Duration(r.Int63n(1e12))}
		}, func() interface{} { return new(datacodec.CqlDuration) }},
		{"datacodec.Inet", datacodec.Inet, func(r *rand.Rand) interface{} {
			if r.Intn(2) == 0 {
				return net.IP(randBytes(r, 4))
			}
			return net.IP(randBytes(r, 16))
		}, func() interface{} { return new(net.IP) }},
		{"datacodec.List<int>", mustCodec(datacodec.NewList(datatype.NewList(datatype.Int))), func(r *rand.Rand) interface{} {
			n := r.Intn(6)
			l := make([]int32, n)
			for i := range l {
				l[i] = int32(r.Uint32())
			}
			return l
		}, func() interface{} { return new([]int32) }},
		{"datacodec.Set<varchar>", mustCodec(datacodec.NewSet(datatype.NewSet(datatype.Varchar))), func(r *rand.Rand) interface{} {
			n := r.Intn(5)
			l := make([]string, n)
			for i := range l {
				l[i] = randStr(r, 1+r.Intn(8))
			}
			return l
		}, func() interface{} { return new([]string) }},
		{"datacodec.Map<varchar,int>", mustCodec(datacodec.NewMap(datatype.NewMap(datatype.Varchar, datatype.Int))), func(r *rand.Rand) interface{} {
			// one entry: Go's map iteration order would make the bytes of a larger map vary between runs
			return map[string]int32{randStr(r, 1+r.Intn(8)): int32(r.Uint32())}
		}, func() interface{} { return new(map[string]int32) }},
		{"datacodec.Tuple<int,varchar>", mustCodec(datacodec.NewTuple(datatype.NewTuple(datatype.Int, datatype.Varchar))), func(r *rand.Rand) interface{} {
			return []interface{}{int32(r.Uint32()), randStr(r, 1+r.Intn(8))}
		}, func() interface{} { return new([]interface{}) }},
		{"datacodec.UDT{a int,b varchar}", mustCodec(datacodec.NewUserDefined(udtType)), func(r *rand.Rand) interface{} {
			return udtStruct{A: int32(r.Uint32()), B: randStr(r, 1+r.Intn(8))}
		}, func() interface{} { return new(udtStruct) }},
	}
}

// ---------------------------------------------------------------- generated inputs

func randStr(r *rand.Rand, n int) string {
	const al = "abcdefghijklmnopqrstuvwxyz0123456789 _-"
	b := make([]byte, n)
	for i := range b {
		b[i] = al[r.Intn(len(al))]
	}
	return string(b)
}

func randBytes(r *rand.Rand, n int) []byte {
	b := make([]byte, n)
	r.Read(b)
	return b
}

// compressible-but-not-degenerate payload (runs of random length)
func payload(r *rand.Rand, n int) []byte {
	b := make([]byte, 0, n)
	for len(b) < n {
		c := byte(r.Intn(256))
		k := 1 + r.Intn(6)
		for j := 0; j < k && len(b) < n; j++ {
			b = append(b, c)
		}
	}
	return b
}

func values(r *rand.Rand, n int) []*primitive.Value {
	vs := make([]*primitive.Value, n)
	for i := range vs {
		switch r.Intn(4) {
		case 0:
			vs[i] = primitive.NewNullValue()
		default:
			vs[i] = primitive.NewValue(payload(r, r.Intn(40)))
		}
	}
	return vs
}

func genMessage(r *rand.Rand, v primitive.ProtocolVersion) (message.Message, bool) {
	switch r.Intn(18) {
	case 0:
		return &message.Query{Query: "SELECT " + randStr(r, 30), Options: &message.QueryOptions{Consistency: primitive.ConsistencyLevelQuorum,
			PositionalValues: values(r, r.Intn(5)), PageSize: int32(r.Intn(5000)), PagingState: randBytes(r, r.Intn(20))}}, false
	case 1:
		return &message.Execute{QueryId: randBytes(r, 16), ResultMetadataId: randBytes(r, 16), Options: &message.QueryOptions{
			Consistency: primitive.ConsistencyLevelOne, PositionalValues: values(r, 1+r.Intn(4))}}, false
	case 2:
		n := 1 + r.Intn(3)
		ch := make([]*message.BatchChild, n)
		for i := range ch {
			if r.Intn(2) == 0 {
				ch[i] = &message.BatchChild{Query: "INSERT " + randStr(r, 20), Values: values(r, r.Intn(3))}
			} else {
				ch[i] = &message.BatchChild{Id: randBytes(r, 16), Values: values(r, r.Intn(3))}
			}
		}
		return &message.Batch{Type: primitive.BatchTypeLogged, Children: ch, Consistency: primitive.ConsistencyLevelLocalQuorum}, false
	case 3:
		return &message.Prepare{Query: "SELECT " + randStr(r, 40)}, false
	case 4:
		return &message.Startup{Options: map[string]string{"CQL_VERSION": "3.0." + fmt.Sprint(r.Intn(10))}}, false
	case 5:
		return &message.Options{}, false
	case 6:
		return &message.Register{EventTypes: []primitive.EventType{primitive.EventTypeSchemaChange, primitive.EventTypeStatusChange}}, false
	case 7:
		return &message.AuthResponse{Token: randBytes(r, 1+r.Intn(30))}, false
	case 8:
		cols := []*message.ColumnMetadata{
			{Keyspace: "ks", Table: "t", Name: "a", Type: datatype.Int},
			{Keyspace: "ks", Table: "t", Name: "b", Type: datatype.NewList(datatype.Varchar)},
			{Keyspace: "ks", Table: "t", Name: "c", Type: datatype.NewMap(datatype.Uuid, datatype.NewTuple(datatype.Int, datatype.Blob))},
		}
		rows := make(message.RowSet, r.Intn(6))
		for i := range rows {
			rows[i] = message.Row{payload(r, 4), payload(r, r.Intn(30)), payload(r, r.Intn(30))}
		}
		return &message.RowsResult{Metadata: &message.RowsMetadata{ColumnCount: 3, Columns: cols, PagingState: randBytes(r, r.Intn(8))}, Data: rows}, true
	case 9:
		return &message.VoidResult{}, true
	case 10:
		return &message.Supported{Options: map[string][]string{"COMPRESSION": {"lz4", "snappy"}}}, true
	case 11:
		return &message.Unavailable{ErrorMessage: randStr(r, 30), Consistency: primitive.ConsistencyLevelQuorum, Required: int32(r.Intn(5)), Alive: int32(r.Intn(5))}, true
	case 12:
		return &message.SchemaChangeEvent{ChangeType: primitive.SchemaChangeTypeCreated, Target: primitive.SchemaChangeTargetTable, Keyspace: "ks", Object: randStr(r, 8)}, true
	case 13:
		return &message.AuthChallenge{Token: randBytes(r, 1+r.Intn(30))}, true
	case 14:
		return &message.Ready{}, true
	case 15:
		return &message.Authenticate{Authenticator: "org.apache.cassandra.auth." + randStr(r, 8)}, true
	case 16:
		return &message.AuthSuccess{Token: randBytes(r, r.Intn(30))}, true
	default:
		return &message.Revise{RevisionType: primitive.DseRevisionTypeCancelContinuousPaging, TargetStreamId: int32(r.Intn(1000))}, false
	}
}

func genFrame(r *rand.Rand) *frame.Frame {
	versions := []primitive.ProtocolVersion{primitive.ProtocolVersion3, primitive.ProtocolVersion4, primitive.ProtocolVersion5, primitive.ProtocolVersionDse1, primitive.ProtocolVersionDse2}
	v := versions[r.Intn(len(versions))]
	msg, _ := genMessage(r, v)
	f := frame.NewFrame(v, int16(r.Intn(32000)), msg)
	if r.Intn(3) == 0 {
		f.Body.CustomPayload = map[string][]byte{"k": randBytes(r, 5)}
	}
	return f
}

// ---------------------------------------------------------------- operations of one goroutine

func opsFor(r *rand.Rand, nFrames, nSegs, nVals int, vcs []valueCodec) []op {
	var ops []op
	names := []string{"frame/none", "frame/lz4", "frame/snappy"}
	for i := 0; i < nFrames; i++ {
		f := genFrame(r)
		desc := fmt.Sprintf("%T v%d stream %d", f.Body.Message, f.Header.Version, f.Header.StreamId)
		for _, cn := range names {
			c := frameCodecs[cn]
			invoked[fmt.Sprintf("%T", c)] = true
			if cn == "frame/lz4" {
				invoked[fmt.Sprintf("%T", lz4c)] = true
			} else if cn == "frame/snappy" {
				invoked[fmt.Sprintf("%T", snappyc)] = true
			}
			fr := f.DeepCopy()
			if cn != "frame/none" && fr.Header.OpCode != primitive.OpCodeStartup && fr.Header.OpCode != primitive.OpCodeOptions {
				fr.SetCompress(true)
			}
			ops = append(ops, op{cn + ".EncodeFrame", desc, func() (string, interface{}) {
				var buf bytes.Buffer
				err := c.EncodeFrame(fr.DeepCopy(), &buf)
				return outcome(buf.Bytes(), err), nil
			}})
			var enc bytes.Buffer
			if err := c.EncodeFrame(fr.DeepCopy(), &enc); err != nil {
				continue
			}
			wire := enc.Bytes()
			ops = append(ops, op{cn + ".DecodeFrame", desc, func() (string, interface{}) {
				d, err := c.DecodeFrame(bytes.NewReader(wire))
				if err != nil {
					return "err", nil
				}
				var buf bytes.Buffer
				err = c.EncodeFrame(d, &buf)
				return outcome(buf.Bytes(), err), d
			}})
			ops = append(ops, op{cn + ".DecodeRawFrame+ConvertFromRawFrame", desc, func() (string, interface{}) {
				raw, err := c.DecodeRawFrame(bytes.NewReader(wire))
				if err != nil {
					return "err", nil
				}
				d, err := c.ConvertFromRawFrame(raw)
				if err != nil {
					return "err2", nil
				}
				return "ok:" + hex.EncodeToString(raw.Body), d
			}})
			ops = append(ops, op{cn + ".ConvertToRawFrame+EncodeRawFrame", desc, func() (string, interface{}) {
				raw, err := c.ConvertToRawFrame(fr.DeepCopy())
				if err != nil {
					return "err", nil
				}
				var buf bytes.Buffer
				err = c.EncodeRawFrame(raw, &buf)
				return outcome(buf.Bytes(), err), nil
			}})
			ops = append(ops, op{cn + ".DecodeHeader+DecodeBody", desc, func() (string, interface{}) {
				rd := bytes.NewReader(wire)
				h, err := c.DecodeHeader(rd)
				if err != nil {
					return "err", nil
				}
				b, err := c.DecodeBody(h, rd)
				if err != nil {
					return "err2", nil
				}
				return fmt.Sprintf("ok:%d:%d", h.BodyLength, h.OpCode), b
			}})
		}
		// the message codec directly, from the shared registry
		for _, mc := range message.DefaultMessageCodecs {
			if mc.GetOpCode() != f.Header.OpCode {
				continue
			}
			mc, msg, v := mc, f.Body.Message.DeepCopyMessage(), f.Header.Version
			invoked[fmt.Sprintf("%T", mc)] = true
			ops = append(ops, op{"message.DefaultMessageCodecs." + fmt.Sprintf("%T", mc) + ".Encode+EncodedLength+Decode", desc, func() (string, interface{}) {
				var buf bytes.Buffer
				if err := mc.Encode(msg, &buf, v); err != nil {
					return "err", nil
				}
				n, err := mc.EncodedLength(msg, v)
				if err != nil {
					return "err2", nil
				}
				d, err := mc.Decode(bytes.NewReader(buf.Bytes()), v)
				if err != nil {
					return "err3", nil
				}
				return fmt.Sprintf("ok:%d:%s", n, hex.EncodeToString(buf.Bytes())), d
			}})
		}
	}
	for i := 0; i < nSegs; i++ {
		data := payload(r, 1+r.Intn(3000))
		desc := fmt.Sprintf("payload %d bytes", len(data))
		for _, cn := range []string{"segment/none", "segment/lz4"} {
			c := segmentCodecs[cn]
			invoked[fmt.Sprintf("%T", c)] = true
			seg := &segment.Segment{Header: &segment.Header{IsSelfContained: r.Intn(2) == 0}, Payload: &segment.Payload{UncompressedData: data}}
			ops = append(ops, op{cn + ".EncodeSegment", desc, func() (string, interface{}) {
				var buf bytes.Buffer
				err := c.EncodeSegment(seg.DeepCopy(), &buf)
				return outcome(buf.Bytes(), err), nil
			}})
			var enc bytes.Buffer
			if err := c.EncodeSegment(seg.DeepCopy(), &enc); err != nil {
				continue
			}
			wire := enc.Bytes()
			ops = append(ops, op{cn + ".DecodeSegment", desc, func() (string, interface{}) {
				d, err := c.DecodeSegment(bytes.NewReader(wire))
				if err != nil {
					return "err", nil
				}
				return "ok:" + hex.EncodeToString(d.Payload.UncompressedData), d
			}})
		}
		// the compressors directly
		ops = append(ops, op{"lz4.Compressor.CompressWithLength+DecompressWithLength", desc, func() (string, interface{}) {
			var z, u bytes.Buffer
			if err := lz4c.CompressWithLength(bytes.NewReader(data), &z); err != nil {
				return "err", nil
			}
			zb := append([]byte(nil), z.Bytes()...)
			if err := lz4c.DecompressWithLength(bytes.NewReader(zb), &u); err != nil {
				return "err2:" + hex.EncodeToString(zb), nil
			}
			return "ok:" + hex.EncodeToString(zb) + ":" + hex.EncodeToString(u.Bytes()), nil
		}})
		ops = append(ops, op{"lz4.Compressor.Compress+Decompress", desc, func() (string, interface{}) {
			var z, u bytes.Buffer
			if err := lz4c.Compress(bytes.NewReader(data), &z); err != nil {
				return "err", nil
			}
			zb := append([]byte(nil), z.Bytes()...)
			if err := lz4c.Decompress(bytes.NewReader(zb), &u); err != nil {
				return "err2:" + hex.EncodeToString(zb), nil
			}
			return "ok:" + hex.EncodeToString(zb) + ":" + hex.EncodeToString(u.Bytes()), nil
		}})
		ops = append(ops, op{"snappy.Compressor.CompressWithLength+DecompressWithLength", desc, func() (string, interface{}) {
			var z, u bytes.Buffer
			if err := snappyc.CompressWithLength(bytes.NewReader(data), &z); err != nil {
				return "err", nil
			}
			zb := append([]byte(nil), z.Bytes()...)
			if err := snappyc.DecompressWithLength(bytes.NewReader(zb), &u); err != nil {
				return "err2:" + hex.EncodeToString(zb), nil
			}
			return "ok:" + hex.EncodeToString(zb) + ":" + hex.EncodeToString(u.Bytes()), nil
		}})
	}
	for i := 0; i < nVals; i++ {
		for _, vc := range vcs {
			vc := vc
			invoked[fmt.Sprintf("%T", vc.codec)] = true
			src := vc.gen(r)
			v := []primitive.ProtocolVersion{primitive.ProtocolVersion3, primitive.ProtocolVersion4, primitive.ProtocolVersion5}[r.Intn(3)]
			ops = append(ops, op{vc.name + ".Encode+Decode", fmt.Sprintf("%v", src), func() (string, interface{}) {
				b, err := vc.codec.Encode(src, v)
				if err != nil {
					return "err", nil
				}
				dst := vc.dest()
				wasNull, err := vc.codec.Decode(b, dst, v)
				if err != nil {
					return "err2:" + hex.EncodeToString(b), nil
				}
				return fmt.Sprintf("ok:%v:%s", wasNull, hex.EncodeToString(b)), reflect.ValueOf(dst).Elem().Interface()
			}})
		}
	}
	return ops
}

// dynamic types of the codec instances that operations were actually generated for
var invoked = map[string]bool{}

type mismatch struct {
	Goroutine int    `json:"goroutine"`
	Kind      string `json:"kind"`
	Input     string `json:"input"`
	Round     int    `json:"round"`
	Expected  string `json:"expected"`
	Observed  string `json:"observed"`
	What      string `json:"what"`
}

func clip(s string) string {
	if len(s) > 200 {
		return s[:200] + "..."
	}
	return s
}

func main() {
	defer hlib.Flush()
	thorough := len(os.Args) > 1 && os.Args[1] == "thorough"
	M, rounds, nFrames, nSegs, nVals := 8, 6, 10, 6, 2
	if thorough {
		M, rounds, nFrames, nSegs, nVals = 16, 40, 30, 15, 5
	}
	seed := hlib.Seed()
	vcs := valueCodecs()
	// every goroutine's own operations, and their sequential results on the shared instances
	all := make([][]op, M)
	expS := make([][]string, M)
	expO := make([][]interface{}, M)
	kinds := map[string]int{}
	total := 0
	for g := 0; g < M; g++ {
		r := rand.New(rand.NewSource(seed*1_000_003 + int64(g)))
		all[g] = opsFor(r, nFrames, nSegs, nVals, vcs)
		expS[g] = make([]string, len(all[g]))
		expO[g] = make([]interface{}, len(all[g]))
		for i, o := range all[g] {
			expS[g][i], expO[g][i] = guard(o.run)
			kinds[o.kind]++
			total++
		}
	}
	// sequential determinism (a second sequential pass must agree, otherwise the comparison below means nothing)
	var mm []mismatch
	var mu sync.Mutex
	for g := 0; g < M; g++ {
		for i, o := range all[g] {
			s, ob := guard(o.run)
			if s != expS[g][i] || !reflect.DeepEqual(ob, expO[g][i]) {
				mm = append(mm, mismatch{g, o.kind, o.input, -1, clip(expS[g][i]), clip(s), "two sequential runs differ"})
			}
		}
	}
	// the concurrent run
	var wg sync.WaitGroup
	start := make(chan struct{})
	executed := make([]int, M)
	for g := 0; g < M; g++ {
		wg.Add(1)
		go func(g int) {
			defer wg.Done()
			r := rand.New(rand.NewSource(seed + int64(g)*17))
			<-start
			for round := 0; round < rounds; round++ {
				order := r.Perm(len(all[g]))
				for _, i := range order {
					o := all[g][i]
					s, ob := guard(o.run)
					executed[g]++
					if s != expS[g][i] || !reflect.DeepEqual(ob, expO[g][i]) {
						mu.Lock()
						if len(mm) < 50 {
							mm = append(mm, mismatch{g, o.kind, o.input, round, clip(expS[g][i]), clip(s), "concurrent result differs from the sequential result"})
						}
						mu.Unlock()
					}
				}
			}
		}(g)
	}
	close(start)
	wg.Wait()
	nexec := 0
	for _, e := range executed {
		nexec += e
	}
	errs := 0
	for g := range expS {
		for _, s := range expS[g] {
			if len(s) >= 3 && s[:3] == "err" || s == "panic" {
				errs++
			}
		}
	}
	var ks []string
	for k := range kinds {
		ks = append(ks, k)
	}
	sort.Strings(ks)
	// the dynamic types of the instances that operations were generated for (coverage statement against the footprint table)
	typeSet := invoked
	typeSet[fmt.Sprintf("%T", lz4c)] = true
	typeSet[fmt.Sprintf("%T", snappyc)] = true
	var types []string
	for t := range typeSet {
		types = append(types, t)
	}
	sort.Strings(types)
	hlib.Emit(map[string]interface{}{"kind": "summary", "goroutines": M, "exercised_types": types, "rounds": rounds, "operations": total, "executed_concurrently": nexec,
		"operation_kinds": len(kinds), "per_kind": kinds, "kinds": ks, "sequential_errors": errs, "mismatches": mm})
}
