package main

// Floating-point part of the directed / random search of C13: *big.Float and float64 values that are NOT exactly
// representable in the CQL type they are converted to. The rule of the property: a conversion that would lose
// information is refused with an error - it never stores a rounded, flushed-to-zero or overflowed value.
//
// Classes (float64; the float32 analogues in brackets):
//   - below the normal range (|x| < 2^-1022 [2^-126]): representable only on the subnormal grid k * 2^-1074 [2^-149];
//     anything finer is rounded or flushed to zero by big.Float.Float64 / float32(x)
//   - more than 53 [24] significant bits
//   - between MaxFloat64 [MaxFloat32] and the overflow threshold (rounds down to Max), at and above it (rounds to Inf)
// Every verdict is reached with exact arithmetic (big.Float comparison of the stored IEEE value with the source),
// never with the accuracy flag the implementation itself consults.

import (
	"encoding/hex"
	"fmt"
	"math"
	"math/big"
	"reflect"
	"strconv"

	"github.com/datastax/go-cassandra-native-protocol/datacodec"
	"github.com/datastax/go-cassandra-native-protocol/primitive"
)

type bfCase struct {
	x     *big.Float
	class string
}

// mant * 2^exp, exactly (precision = bit length of mant)
func bfExact(mant *big.Int, exp int) *big.Float {
	prec := uint(mant.BitLen())
	if prec == 0 {
		prec = 1
	}
	m := new(big.Float).SetPrec(prec).SetInt(mant)
	return new(big.Float).SetMantExp(m, exp)
}

func p2(n uint) *big.Int { return pow2(n) }

func plus(a *big.Int, d int64) *big.Int { return new(big.Int).Add(a, big.NewInt(d)) }

// directed *big.Float values (each also negated)
func bfDirected() []bfCase {
	var out []bfCase
	add := func(class string, mant *big.Int, exp int) {
		x := bfExact(mant, exp)
		out = append(out, bfCase{x, class}, bfCase{new(big.Float).Neg(x), class})
	}
	one := big.NewInt(1)
	// ---- float64, subnormal range
	add("subnormal64-exact", one, -1074)                // smallest subnormal
	add("subnormal64-exact", plus(p2(51), 1), -1074)    // on the grid
	add("subnormal64-exact", plus(p2(52), -1), -1074)   // largest subnormal
	add("subnormal64-exact", one, -1022)                // smallest normal
	add("subnormal64-exact", plus(p2(52), 1), -1074)    // first normals keep the 2^-1074 grid
	add("subnormal64-inexact", one, -1100)              // flushed to 0
	add("subnormal64-inexact", plus(p2(40), 1), -1100)  // rounded on the subnormal grid
	add("subnormal64-inexact", one, -1075)              // half of the smallest subnormal: ties to even -> 0
	add("subnormal64-inexact", big.NewInt(3), -1075)    // 1.5 * smallest subnormal -> rounded
	add("subnormal64-inexact", one, -1076)              // below half
	add("subnormal64-inexact", one, -2000)              // far below
	add("subnormal64-inexact", plus(p2(52), 1), -1075)  // ~2^-1023 with a bit below the grid
	add("subnormal64-inexact", plus(p2(53), -1), -1075) // just below 2^-1022, 53 bits, finest bit below the grid
	add("subnormal64-inexact", plus(p2(53), 1), -1075)  // just above 2^-1022, 54 bits
	add("subnormal64-inexact", plus(p2(10), 1), -1084)  // 11 bits only, yet not on the grid (few bits are no excuse)
	add("subnormal64-inexact", big.NewInt(5), -1077)    // 3 bits
	// ---- float64, wide mantissas
	add("wide64-exact", plus(p2(53), -1), 0)
	add("wide64-exact", plus(p2(53), -1), -500)
	add("wide64-inexact", plus(p2(53), 1), 0)
	add("wide64-inexact", plus(p2(64), -1), 0)
	add("wide64-inexact", plus(p2(60), 1), -60) // 1 + 2^-60
	add("wide64-inexact", plus(p2(100), 1), -50)
	add("wide64-inexact", plus(p2(54), 1), 900)
	// ---- float64, the top of the range
	add("overflow64-exact", plus(p2(53), -1), 971)   // MaxFloat64
	add("overflow64-exact", one, 1023)               // 2^1023
	add("overflow64-inexact", plus(p2(55), -3), 969) // MaxFloat64 + 2^969: rounds DOWN to MaxFloat64
	add("overflow64-inexact", plus(p2(54), -3), 970) // MaxFloat64 - 2^970: 54 bits
	add("overflow64-inexact", plus(p2(54), -1), 970) // 2^1024 - 2^970: the overflow threshold, rounds to Inf
	add("overflow64-inexact", one, 1024)             // 2^1024
	add("overflow64-inexact", one, 5000)
	// ---- float32 ranges as *big.Float (exact doubles, but no CQL float path may round them either)
	add("subnormal32", one, -149)
	add("subnormal32", one, -150)
	add("subnormal32", big.NewInt(3), -150)
	add("overflow32", plus(p2(24), -1), 104) // MaxFloat32
	add("overflow32", plus(p2(26), -3), 102) // MaxFloat32 + 2^102
	add("overflow32", one, 128)
	// ---- decimal fractions at high precision (need infinitely many bits)
	for _, s := range []string{"0.1", "1e-310", "4.9e-324", "2.2250738585072011e-308", "1e-400", "1e400", "-1e400", "1.7976931348623158e308",
		"1.7976931348623157e308", "9007199254740993", "18446744073709551617", "0.3333333333333333333333333333", "123456789.125", "0.5", "1"} {
		x, _, _ := big.ParseFloat(s, 10, 200, big.ToNearestEven)
		out = append(out, bfCase{x, "decimal-200bit"})
	}
	out = append(out, bfCase{new(big.Float), "zero"}, bfCase{new(big.Float).Neg(new(big.Float)), "zero"},
		bfCase{new(big.Float).SetInf(false), "inf"}, bfCase{new(big.Float).SetInf(true), "inf"})
	return out
}

// seeded random *big.Float values: mantissa widths around 1, 24, 53, 64 bits; the position of the leading bit in the
// subnormal window, the overflow window, the float32 windows or anywhere
func bfRandom(n int) []bfCase {
	var out []bfCase
	widths := []int{1, 2, 3, 11, 23, 24, 25, 52, 53, 54, 64, 80}
	for i := 0; i < n; i++ {
		w := widths[rnd.Intn(len(widths))]
		if rnd.Intn(4) == 0 {
			w = 1 + rnd.Intn(120)
		}
		mant := new(big.Int).Rand(rnd, p2(uint(w)))
		mant.SetBit(mant, w-1, 1) // exactly w bits
		mant.SetBit(mant, 0, 1)   // odd: all w bits are significant
		var top int               // exponent of the leading bit
		class := ""
		switch rnd.Intn(6) {
		case 0, 1:
			top, class = -1022-rnd.Intn(60)+rnd.Intn(4), "random-subnormal64"
		case 2:
			top, class = 1018+rnd.Intn(9), "random-overflow64"
		case 3:
			top, class = -126-rnd.Intn(30)+rnd.Intn(4), "random-subnormal32"
		case 4:
			top, class = 122+rnd.Intn(9), "random-overflow32"
		default:
			top, class = rnd.Intn(2400)-1200, "random-anywhere"
		}
		x := bfExact(mant, top-(w-1))
		if rnd.Intn(2) == 0 {
			x.Neg(x)
		}
		out = append(out, bfCase{x, class})
	}
	return out
}

// is the IEEE double `got` exactly the real number x (x finite or infinite)?
func sameReal64(got float64, x *big.Float) bool {
	if math.IsNaN(got) {
		return false
	}
	if math.IsInf(got, 0) {
		return x.IsInf() && x.Signbit() == math.Signbit(got)
	}
	if x.IsInf() {
		return false
	}
	return new(big.Float).SetFloat64(got).Cmp(x) == 0
}

func bfName(x *big.Float) string {
	if x.IsInf() {
		return x.String()
	}
	k := bfKey(x)
	return fmt.Sprintf("%s * 2^%s", k[0], k[1])
}

// float64 values at the edges of the float32 range (all exactly representable as float64)
var f32Edge = func() []float64 {
	l := []float64{
		math.Ldexp(1, -149), math.Ldexp(1, -150), math.Ldexp(3, -150), math.Ldexp(1, -151), math.Ldexp(1, -200), // subnormal grid 2^-149
		math.Ldexp(float64(1<<23+1), -150), math.Ldexp(float64(1<<23-1), -149), math.Ldexp(1, -126), math.Ldexp(float64(1<<24+1), -150),
		math.Ldexp(5, -152), math.Ldexp(1025, -159),
		float64(1<<24 + 1), 1 + math.Ldexp(1, -24), 1 + math.Ldexp(1, -23), math.Ldexp(float64(1<<25+1), 60), // 25+ significant bits
		math.MaxFloat32, math.MaxFloat32 + math.Ldexp(1, 102), math.MaxFloat32 + math.Ldexp(1, 103), math.Ldexp(1, 128), // top of the range
		math.MaxFloat32 - math.Ldexp(1, 103), math.Ldexp(1, 127), math.Nextafter(math.MaxFloat32, math.Inf(1)),
		math.Ldexp(1, -1074), math.Ldexp(1, -1022), math.MaxFloat64,
	}
	var out []float64
	for _, f := range l {
		out = append(out, f, -f)
	}
	return out
}()

// seeded random float64 values around the float32 limits
func f64RandomNear32(n int) []float64 {
	var out []float64
	for i := 0; i < n; i++ {
		w := []int{1, 2, 11, 23, 24, 25, 30, 53}[rnd.Intn(8)]
		m := rnd.Uint64()>>(64-uint(w)) | 1 | 1<<uint(w-1)
		var top int
		switch rnd.Intn(3) {
		case 0:
			top = -126 - rnd.Intn(30) + rnd.Intn(4)
		case 1:
			top = 122 + rnd.Intn(9)
		default:
			top = rnd.Intn(300) - 150
		}
		f := math.Ldexp(float64(m), top-(w-1))
		if rnd.Intn(2) == 0 {
			f = -f
		}
		out = append(out, f)
	}
	return out
}

var bfCounts = map[string]int{}

// *big.Float -> CQL double (the only float type that accepts it) and CQL float (must refuse or be exact as well)
func predBigFloats(cases []bfCase) {
	v5 := primitive.ProtocolVersion5
	var helper reflect.Value
	if f, ok := datacodec.VerifFuncs["bigFloatToFloat64"]; ok && reflect.TypeOf(f).Kind() == reflect.Func && reflect.TypeOf(f).NumIn() == 1 &&
		reflect.TypeOf(f).In(0) == reflect.TypeOf((*big.Float)(nil)) && reflect.TypeOf(f).NumOut() == 2 {
		helper = reflect.ValueOf(f)
	}
	for _, c := range cases {
		x := c.x
		exact64 := false
		if f, _ := x.Float64(); sameReal64(f, x) {
			exact64 = true // judged by comparison, not by the accuracy flag
		}
		for _, srcv := range []interface{}{x} {
			var out []byte
			var err error
			nPred++
			predPairs["double/enc/*big.Float"] = true
			bfCounts["cases"]++
			if !exact64 {
				bfCounts["not_representable"]++
			}
			if p := safely(func() { out, err = datacodec.Double.Encode(srcv, v5) }); p != nil {
				viol(M{"cql": "double", "dir": "encode", "gotype": "*big.Float", "value": bfName(x), "class": c.class, "decimal": x.Text('g', 25),
					"observed": fmt.Sprint("panic: ", p), "expected": "error or the same real number"})
				continue
			}
			if err != nil {
				bfCounts["refused"]++
				continue
			}
			bfCounts["accepted"]++
			if len(out) != 8 {
				viol(M{"cql": "double", "dir": "encode", "gotype": "*big.Float", "value": bfName(x), "class": c.class, "decimal": x.Text('g', 25),
					"observed": "bytes " + hex.EncodeToString(out), "expected": "8 bytes"})
				continue
			}
			got := math.Float64frombits(new(big.Int).SetBytes(out).Uint64())
			if !sameReal64(got, x) {
				viol(M{"cql": "double", "dir": "encode", "gotype": "*big.Float", "value": bfName(x), "class": c.class, "decimal": x.Text('g', 25),
					"observed": fmt.Sprintf("accepted and stored as %s (= %s, bytes %s): a different real number", strconv.FormatFloat(got, 'g', -1, 64),
						bfName(new(big.Float).SetFloat64(got)), hex.EncodeToString(out)),
					"expected": "an error (the value is not a float64), never a rounded or flushed value"})
			}
		}
		// CQL float: *big.Float is not a supported source; whatever the answer, it must not be a different number
		var out []byte
		var err error
		nPred++
		predPairs["float/enc/*big.Float"] = true
		if p := safely(func() { out, err = datacodec.Float.Encode(x, v5) }); p != nil {
			viol(M{"cql": "float", "dir": "encode", "gotype": "*big.Float", "value": bfName(x), "class": c.class, "observed": fmt.Sprint("panic: ", p), "expected": "error or the same real number"})
		} else if err == nil {
			ok := len(out) == 4
			if ok {
				got := float64(math.Float32frombits(uint32(new(big.Int).SetBytes(out).Uint64())))
				ok = sameReal64(got, x)
			}
			if !ok {
				viol(M{"cql": "float", "dir": "encode", "gotype": "*big.Float", "value": bfName(x), "class": c.class, "decimal": x.Text('g', 25),
					"observed": "accepted, bytes " + hex.EncodeToString(out), "expected": "error or the same real number"})
			}
		}
		// the unexported helper itself (reached through the verif hook), when it exists under this name
		if helper.IsValid() && !x.IsInf() {
			var res []reflect.Value
			if p := safely(func() { res = helper.Call([]reflect.Value{reflect.ValueOf(x)}) }); p == nil && len(res) == 2 && !isErr(res[1]) {
				nPred++
				predPairs["helper/bigFloatToFloat64"] = true
				if got := res[0].Float(); !sameReal64(got, x) {
					viol(M{"cql": "helper", "dir": "convert", "gotype": "bigFloatToFloat64", "value": bfName(x), "class": c.class, "decimal": x.Text('g', 25),
						"observed": fmt.Sprintf("returned %s without error", strconv.FormatFloat(got, 'g', -1, 64)), "expected": "error or the same real number"})
				}
			}
		}
	}
}

// CQL double -> *big.Float whose precision (and rounding mode) the CALLER has preset: big.Float.SetFloat64 rounds to the
// receiver's precision, so the codec must refuse a value the destination cannot hold exactly. Judged exactly: after a
// Decode without error the destination holds the very real number that was on the wire (compared with big.Float.Cmp at
// full precision, never through Acc()). A NaN can never be held by a big.Float: only an error is acceptable.
func predDecodeBigFloat(fs []float64) {
	v5 := primitive.ProtocolVersion5
	modes := []big.RoundingMode{big.ToNearestEven, big.ToZero, big.AwayFromZero, big.ToNegativeInf}
	for _, f := range fs {
		wire := make([]byte, 8)
		for i := 0; i < 8; i++ {
			wire[i] = byte(math.Float64bits(f) >> uint(56-8*i))
		}
		for _, prec := range destPrecs {
			for mi, mode := range modes {
				if mi > 0 && (prec == 0 || prec >= 53) {
					continue // the rounding mode cannot matter when nothing is rounded; one mode is enough there
				}
				bf := bfDest(prec).SetMode(mode)
				goty := fmt.Sprintf("*big.Float(prec=%d)", prec)
				if mi > 0 {
					goty = fmt.Sprintf("*big.Float(prec=%d,mode=%s)", prec, mode)
				}
				nPred++
				predPairs["double/dec/"+fmt.Sprintf("*big.Float(prec=%d)", prec)] = true
				bfCounts["dec_cases"]++
				fits := !math.IsNaN(f) && (math.IsInf(f, 0) || f == 0 || prec == 0 || new(big.Float).SetFloat64(f).MinPrec() <= prec)
				if !fits {
					bfCounts["dec_not_representable"]++
				}
				var err error
				if p := safely(func() { _, err = datacodec.Double.Decode(wire, bf, v5) }); p != nil {
					viol(M{"cql": "double", "dir": "decode", "gotype": goty, "value": strconv.FormatFloat(f, 'g', -1, 64),
						"observed": fmt.Sprint("panic: ", p), "expected": "error or the same real number"})
					continue
				}
				if err != nil {
					bfCounts["dec_refused"]++
					continue
				}
				bfCounts["dec_accepted"]++
				if !sameReal64(f, bf) {
					viol(M{"cql": "double", "dir": "decode", "gotype": goty, "value": strconv.FormatFloat(f, 'g', -1, 64), "bits": fmt.Sprintf("%016x", math.Float64bits(f)),
						"observed": fmt.Sprintf("no error, destination holds %s (= %s, Acc %s): a different real number", bf.Text('g', 25), bfName(bf), bf.Acc()),
						"expected": "an error (the destination's precision cannot hold the value), never a rounded value"})
				}
			}
		}
	}
}

// NaN through the narrowing paths: float64 NaN -> CQL float, CQL double NaN (as Double.Encode(float32 NaN) writes it) -> *float32,
// CQL float NaN -> *float64. Judged: an error, or a NaN - never a number or an infinity. Whether NaN is accepted is counted.
func predNaN() {
	v5 := primitive.ProtocolVersion5
	nan64 := []uint64{0x7ff8000000000000, 0xfff8000000000000, 0x7ff0000000000001, 0x7ff8000000000001, 0xffffffffffffffff, 0x7ff4000000000000, 0x7ff7ffffffffffff}
	nan32 := []uint32{0x7fc00000, 0xffc00000, 0x7f800001, 0x7fc00001, 0xffffffff, 0x7fa00000}
	judge := func(pair, what string, bits string, err error, got float64, width int, out []byte) {
		nPred++
		predPairs[pair] = true
		bfCounts["nan_cases"]++
		if err != nil {
			bfCounts["nan_refused"]++
			return
		}
		bfCounts["nan_accepted"]++
		if len(out) != width || !math.IsNaN(got) {
			parts := splitPair(pair)
			viol(M{"cql": parts[0], "dir": parts[1], "gotype": parts[2], "value": "NaN bits " + bits, "observed": fmt.Sprintf("%s: no error, delivered %v (bytes %s)", what, got, hex.EncodeToString(out)),
				"expected": "an error or a NaN"})
		}
	}
	for _, b := range nan64 {
		f := math.Float64frombits(b)
		bs := fmt.Sprintf("%016x", b)
		// float64 NaN -> CQL float
		for _, srcv := range []interface{}{f, &f} {
			out, err := datacodec.Float.Encode(srcv, v5)
			got := 0.0
			if err == nil && len(out) == 4 {
				got = float64(math.Float32frombits(uint32(new(big.Int).SetBytes(out).Uint64())))
			}
			judge("float/encode/float64", "Float.Encode(float64 NaN)", bs, err, got, 4, out)
		}
		// CQL double NaN -> *float32 (and *float64, which must take it unchanged)
		wire := make([]byte, 8)
		for i := 0; i < 8; i++ {
			wire[i] = byte(b >> uint(56-8*i))
		}
		var d32 float32
		_, err := datacodec.Double.Decode(wire, &d32, v5)
		judge("double/decode/*float32", "Double.Decode(NaN) into *float32", bs, err, float64(d32), 8, wire)
		var d64 float64
		_, err = datacodec.Double.Decode(wire, &d64, v5)
		judge("double/decode/*float64", "Double.Decode(NaN) into *float64", bs, err, d64, 8, wire)
	}
	for _, b := range nan32 {
		g := math.Float32frombits(b)
		bs := fmt.Sprintf("%08x", b)
		// float32 NaN -> CQL double -> *float32: the round trip the narrowing check used to break
		out, err := datacodec.Double.Encode(g, v5)
		got := 0.0
		if err == nil && len(out) == 8 {
			got = math.Float64frombits(new(big.Int).SetBytes(out).Uint64())
		}
		judge("double/encode/float32", "Double.Encode(float32 NaN)", bs, err, got, 8, out)
		if err == nil && len(out) == 8 {
			var d32 float32
			_, err := datacodec.Double.Decode(out, &d32, v5)
			judge("double/decode/*float32", "Double.Decode(Double.Encode(float32 NaN)) into *float32", bs, err, float64(d32), 8, out)
		}
		// float32 NaN -> CQL float -> *float64 / *float32
		out4, err := datacodec.Float.Encode(g, v5)
		got = 0.0
		if err == nil && len(out4) == 4 {
			got = float64(math.Float32frombits(uint32(new(big.Int).SetBytes(out4).Uint64())))
		}
		judge("float/encode/float32", "Float.Encode(float32 NaN)", bs, err, got, 4, out4)
		if err == nil && len(out4) == 4 {
			var w64 float64
			_, err := datacodec.Float.Decode(out4, &w64, v5)
			judge("float/decode/*float64", "Float.Decode(NaN) into *float64", bs, err, w64, 4, out4)
		}
	}
}

func splitPair(p string) []string {
	out := []string{"", "", ""}
	n := 0
	for _, c := range p {
		if c == '/' && n < 2 {
			n++
			continue
		}
		out[n] += string(c)
	}
	return out
}
