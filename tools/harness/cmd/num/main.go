// Harness area "num" (property C13): runs the numeric conversion code of package datacodec on boundary and seeded
// random values and prints one JSON object per line.
//
//	num <numeric_table.json> [thorough] [deep]
//
// deep: only the search on the implementation (the property's predicate), widened; no correspondence records.
//
// Record kinds:
//
//	h     one conversion helper on a list of inputs                (compared with the regenerated Gallina helper)
//	m     addExact / multiplyExact / floorDiv / floorMod on pairs   (idem)
//	to    a convertTo* switch on one tagged source                  (idem)
//	from  a convertFrom* switch on one destination                  (idem)
//	w, r  write* / read* fixed-width functions                      (idem)
//	bw,br writeBigInt / readBigInt                                  (compared with the hand model NumWire.v)
//	o     an answer of the standard library the translated code relies on (strconv, big text, IEEE narrowing ...):
//	      instantiates the oracle when the Gallina functions are evaluated
//	viol  the property's own predicate failed on the public Codec API (judged with math/big)
//	sum   counts
package main

import (
	"encoding/hex"
	"encoding/json"
	"fmt"
	"math"
	"math/big"
	"math/rand"
	"os"
	"reflect"
	"sort"
	"strconv"
	"strings"
	"time"

	"github.com/datastax/go-cassandra-native-protocol/datacodec"
	"github.com/datastax/go-cassandra-native-protocol/primitive"
	"verifharness/hlib"
)

type numRange struct {
	Signed bool `json:"signed"`
	Bits   int  `json:"bits"`
}
type numHelper struct {
	Name    string   `json:"name"`
	Go      string   `json:"go"`
	IntSize int      `json:"intsize"`
	Src     numRange `json:"src"`
	Dst     numRange `json:"dst"`
	SrcGo   string   `json:"srcgo"`
	DstGo   string   `json:"dstgo"`
}
type numSwitch struct {
	Name  string   `json:"name"`
	Range numRange `json:"range"`
	Cases []string `json:"cases"`
}
type numTable struct {
	Helpers      []numHelper `json:"helpers"`
	ToSwitches   []numSwitch `json:"to_switches"`
	FromSwitches []numSwitch `json:"from_switches"`
	Other        []numSwitch `json:"other_switches"`
}

type M = map[string]interface{}

var rnd *rand.Rand
var thorough bool
var deepFactor = 1 // > 1 in the widened search ("deep")

func pow2(n uint) *big.Int { return new(big.Int).Lsh(big.NewInt(1), n) }

// boundary set of the property, with neighbours
func boundaries() []*big.Int {
	set := map[string]*big.Int{}
	add := func(v *big.Int) {
		for d := int64(-2); d <= 2; d++ {
			w := new(big.Int).Add(v, big.NewInt(d))
			set[w.String()] = w
		}
	}
	add(big.NewInt(0))
	for _, n := range []uint{7, 8, 15, 16, 31, 32, 63, 64} {
		add(pow2(n))
		add(new(big.Int).Neg(pow2(n)))
	}
	for _, s := range []string{"4294967301", "-4294967301", "100", "-100", "1000", "86400", "86399999999999", "86400000000000", "1234567890123",
		"340282366920938463463374607431768211456", "-340282366920938463463374607431768211456", "18446744073709551621", "-18446744073709551621"} {
		v, _ := new(big.Int).SetString(s, 10)
		set[v.String()] = v
	}
	n := 40
	if thorough {
		n = 2000
	}
	for i := 0; i < n; i++ {
		bits := uint(1 + rnd.Intn(70))
		v := new(big.Int).Rand(rnd, pow2(bits))
		if rnd.Intn(2) == 0 {
			v.Neg(v)
		}
		set[v.String()] = v
	}
	var out []*big.Int
	for _, v := range set {
		out = append(out, v)
	}
	sort.Slice(out, func(i, j int) bool { return out[i].Cmp(out[j]) < 0 })
	return out
}

func inRange(v *big.Int, r numRange) bool {
	if r.Bits == 0 {
		return true
	}
	if r.Signed {
		lo := new(big.Int).Neg(pow2(uint(r.Bits - 1)))
		return v.Cmp(lo) >= 0 && v.Cmp(pow2(uint(r.Bits-1))) < 0
	}
	return v.Sign() >= 0 && v.Cmp(pow2(uint(r.Bits))) < 0
}

var goTypes = map[string]reflect.Type{
	"int": reflect.TypeOf(int(0)), "int64": reflect.TypeOf(int64(0)), "int32": reflect.TypeOf(int32(0)), "int16": reflect.TypeOf(int16(0)), "int8": reflect.TypeOf(int8(0)),
	"uint": reflect.TypeOf(uint(0)), "uint64": reflect.TypeOf(uint64(0)), "uint32": reflect.TypeOf(uint32(0)), "uint16": reflect.TypeOf(uint16(0)), "uint8": reflect.TypeOf(uint8(0)),
}
var intNames = []string{"int", "int64", "int32", "int16", "int8", "uint", "uint64", "uint32", "uint16", "uint8"}

func rangeOfGo(name string) numRange {
	t := goTypes[name]
	return numRange{Signed: t.Kind() >= reflect.Int && t.Kind() <= reflect.Int64, Bits: t.Bits()}
}

// mkInt builds a value of the named integer Go type (v must fit); "*big.Int" gives a *big.Int.
func mkInt(name string, v *big.Int) reflect.Value {
	if name == "*big.Int" {
		return reflect.ValueOf(new(big.Int).Set(v))
	}
	t := goTypes[name]
	x := reflect.New(t).Elem()
	if rangeOfGo(name).Signed {
		x.SetInt(v.Int64())
	} else {
		x.SetUint(v.Uint64())
	}
	return x
}

func bigOf(x reflect.Value) *big.Int {
	switch x.Kind() {
	case reflect.Int, reflect.Int8, reflect.Int16, reflect.Int32, reflect.Int64:
		return big.NewInt(x.Int())
	case reflect.Uint, reflect.Uint8, reflect.Uint16, reflect.Uint32, reflect.Uint64:
		return new(big.Int).SetUint64(x.Uint())
	}
	if b, ok := x.Interface().(*big.Int); ok {
		return b
	}
	panic("bigOf " + x.Type().String())
}

func fn(name string) reflect.Value {
	f, ok := datacodec.VerifFuncs[name]
	if !ok {
		hlib.Emit(M{"k": "missing", "name": name})
		return reflect.Value{}
	}
	return reflect.ValueOf(f)
}

func isErr(v reflect.Value) bool { return !v.IsNil() }

// ---------------------------------------------------------------------------------------------- helpers and math.go

func runHelpers(tab *numTable, B []*big.Int) int {
	n := 0
	for _, h := range tab.Helpers {
		f := fn(h.Go)
		if !f.IsValid() {
			continue
		}
		var ins []string
		var outs []interface{}
		for _, v := range B {
			if !inRange(v, h.Src) {
				continue
			}
			args := []reflect.Value{mkInt(h.SrcGo, v)}
			if h.IntSize != 0 {
				args = append(args, reflect.ValueOf(h.IntSize))
			}
			res := f.Call(args)
			ins = append(ins, v.String())
			if isErr(res[1]) {
				outs = append(outs, nil)
			} else {
				outs = append(outs, bigOf(res[0]).String())
			}
			n++
		}
		hlib.Emit(M{"k": "h", "name": h.Name, "go": h.Go, "intsize": h.IntSize, "ins": ins, "outs": outs})
	}
	return n
}

const mathPairBudget = 60000

func runMath(B []*big.Int) int {
	var vals []int64
	for _, v := range B {
		if v.IsInt64() {
			vals = append(vals, v.Int64())
		}
	}
	n := 0
	for _, name := range []string{"addExact", "multiplyExact", "floorDiv", "floorMod"} {
		f := fn(name)
		if !f.IsValid() {
			continue
		}
		var xs, ys, rs []string
		var ov []bool
		// quick: every 5th pair; thorough: about mathPairBudget pairs per function (all pairs of ~2000 values would be 4 million per
		// function: more than the model side can evaluate in the time of a check). Pairs with MinInt64 or -1 are always taken.
		stride := 5
		if thorough {
			stride = len(vals)*len(vals)/mathPairBudget + 1
		}
		for i, x := range vals {
			for j, y := range vals {
				if (i*31+j*17)%stride != 0 && !(x == math.MinInt64 || y == math.MinInt64 || y == -1 || x == -1) {
					continue
				}
				if (name == "floorDiv" || name == "floorMod") && y == 0 {
					continue // division by zero panics in Go; outside the functions' contract
				}
				res := f.Call([]reflect.Value{reflect.ValueOf(x), reflect.ValueOf(y)})
				xs = append(xs, strconv.FormatInt(x, 10))
				ys = append(ys, strconv.FormatInt(y, 10))
				rs = append(rs, strconv.FormatInt(res[0].Int(), 10))
				if len(res) == 2 {
					ov = append(ov, res[1].Bool())
				}
				n++
			}
		}
		hlib.Emit(M{"k": "m", "name": name, "xs": xs, "ys": ys, "rs": rs, "ov": ov})
	}
	return n
}

// ---------------------------------------------------------------------------------------------- tagged sources / destinations

type src struct {
	ctor string      // goval constructor
	val  interface{} // the Go value handed to the code
	desc M           // structured payload for the model: {"z": "..."} / {"s": "..."} / {"nil": true} / {"f": bits} / {"t":[sec,nsec]}
	math *big.Int    // the mathematical integer it denotes (nil: none)
	goty string
}

var oracleSeen = map[string]bool{}

func oracle(fn string, rec M) {
	b, _ := json.Marshal(rec)
	key := fn + string(b)
	if oracleSeen[key] {
		return
	}
	oracleSeen[key] = true
	rec["k"] = "o"
	rec["fn"] = fn
	hlib.Emit(rec)
}

func printable(s string) bool {
	for i := 0; i < len(s); i++ {
		if s[i] < 32 || s[i] > 126 {
			return false
		}
	}
	return true
}

// what the standard library answers for a source string (all bit sizes the code asks for)
func stringOracles(s string) {
	for _, bits := range []int{8, 16, 32, 64} {
		v, err := strconv.ParseInt(s, 10, bits)
		oracle("ParseInt", M{"s": s, "bits": bits, "ok": err == nil, "v": strconv.FormatInt(v, 10)})
	}
	if i, ok := new(big.Int).SetString(s, 10); ok {
		oracle("BigSetString", M{"s": s, "ok": true, "v": i.String()})
	} else {
		oracle("BigSetString", M{"s": s, "ok": false, "v": "0"})
	}
}

func f64Oracles(f float64) {
	b := math.Float64bits(f)
	n := float32(f)
	oracle("f64_to_f32", M{"x": strconv.FormatUint(b, 10), "y": strconv.FormatUint(uint64(math.Float32bits(n)), 10)})
	f32Oracles(n)
	oracle("f64_isnan", M{"x": strconv.FormatUint(b, 10), "r": math.IsNaN(f)})
	oracle("f64_eqb", M{"x": strconv.FormatUint(math.Float64bits(float64(n)), 10), "y": strconv.FormatUint(b, 10), "r": float64(n) == f})
}

// precisions a caller may have given a *big.Float destination before Decode (0: not set, new(big.Float))
var destPrecs = []uint{0, 1, 10, 24, 52, 53, 64, 200}

// a fresh *big.Float destination of the given preset precision
func bfDest(prec uint) *big.Float {
	if prec == 0 {
		return new(big.Float)
	}
	return new(big.Float).SetPrec(prec).SetInt64(77) // pre-filled (rounded to prec), keeps the precision
}

// what math/big answers for z.SetFloat64(f) on a z of the given precision: the value z then holds, and z.Acc()
func setFloatOracle(prec uint, f float64) {
	if math.IsNaN(f) {
		return // SetFloat64(NaN) panics; the code never calls it (math.IsNaN guard)
	}
	z := bfDest(prec)
	z.SetFloat64(f)
	oracle("BigFloat_SetFloat64", M{"prec": int(prec), "x": strconv.FormatUint(math.Float64bits(f), 10), "bf": bfKey(z), "acc": int(z.Acc())})
}

// contractOracles asks the standard library the questions the oracle CONTRACTS quantify over, on directed boundary values beyond
// those the switch / helper cases happen to ask: the answers land in the oracle tables, and the check instantiates every premise
// of the C13 theorems on all table entries (coq/model/NumContracts.v).
func contractOracles(B []*big.Int) int {
	before := len(oracleSeen)
	// strconv / math/big text: every boundary integer printed and parsed back (all bit sizes), and the hand-written strings
	for _, v := range B {
		if v.IsInt64() {
			oracle("FormatInt", M{"x": v.String(), "s": strconv.FormatInt(v.Int64(), 10)})
		}
		oracle("BigText", M{"x": v.String(), "s": v.Text(10)})
		stringOracles(v.String())
		if v.Sign() >= 0 {
			stringOracles("+" + v.String())
		}
	}
	for _, s := range sourceStrings {
		stringOracles(s)
	}
	// IEEE narrowing / widening / == / IsNaN and big.Float.SetFloat64 at every preset precision
	var fs []float64
	fs = append(fs, f64Samples...)
	fs = append(fs, f32Edge...)
	fs = append(fs, precSamples...)
	for i := 0; i < 60; i++ {
		fs = append(fs, math.Float64frombits(rnd.Uint64()), float64(math.Float32frombits(rnd.Uint32())))
	}
	fs = append(fs, f64RandomNear32(60)...)
	for i := 0; i < 24; i++ { // NaN patterns: either sign, quiet and signalling, random payloads
		fs = append(fs, math.Float64frombits(0x7ff0000000000000|rnd.Uint64()&0x800fffffffffffff|uint64(1)<<uint(rnd.Intn(52))))
	}
	for _, f := range fs {
		f64Oracles(f)
		for _, p := range destPrecs {
			setFloatOracle(p, f)
		}
		// == between a value and its neighbours / its negation / itself (NaN != NaN, +0 == -0)
		for _, g := range []float64{f, -f, math.Nextafter(f, math.Inf(1)), float64(float32(f))} {
			oracle("f64_eqb", M{"x": strconv.FormatUint(math.Float64bits(g), 10), "y": strconv.FormatUint(math.Float64bits(f), 10), "r": g == f})
		}
	}
	for _, b32 := range []uint32{0, 0x80000000, 1, 0x007fffff, 0x00800000, 0x7f7fffff, 0x7f800000, 0xff800000, 0x7fc00000, 0xffc00000, 0x7f800001, 0x7fa00000, 0x3f800000, 0x3f800001} {
		f32Oracles(math.Float32frombits(b32))
	}
	// big.Float.Float64 on every directed *big.Float class
	for _, c := range bfDirected() {
		bigFloatOracle(c.x)
	}
	for _, c := range bfRandom(100) {
		bigFloatOracle(c.x)
	}
	return len(oracleSeen) - before
}

func f32Oracles(n float32) {
	oracle("f32_to_f64", M{"x": strconv.FormatUint(uint64(math.Float32bits(n)), 10), "y": strconv.FormatUint(math.Float64bits(float64(n)), 10)})
}

// a *big.Float is identified in the model by (mantissa, exponent) of its exact value: mant * 2^exp, mant odd or zero
func bfKey(f *big.Float) []string {
	if f.IsInf() {
		if f.Signbit() {
			return []string{"-1", "1000000"}
		}
		return []string{"1", "1000000"}
	}
	if f.Sign() == 0 {
		if f.Signbit() {
			return []string{"0", "-1"} // negative zero
		}
		return []string{"0", "0"}
	}
	m := new(big.Float)
	e := f.MantExp(m) // f = m * 2^e, 0.5 <= |m| < 1
	prec := int(f.MinPrec())
	m.SetMantExp(m, prec)
	mi, _ := m.Int(nil)
	return []string{mi.String(), strconv.Itoa(e - prec)}
}

func bigFloatOracle(f *big.Float) {
	v, acc := f.Float64()
	oracle("BigFloat_Float64", M{"bf": bfKey(f), "y": strconv.FormatUint(math.Float64bits(v), 10), "acc": int(acc)})
}

func intSources(B []*big.Int) []src {
	var out []src
	for _, name := range intNames {
		r := rangeOfGo(name)
		for _, v := range B {
			if !inRange(v, r) {
				continue
			}
			x := mkInt(name, v)
			out = append(out, src{"G_" + name, x.Interface(), M{"z": v.String()}, v, name})
			p := reflect.New(goTypes[name])
			p.Elem().Set(x)
			out = append(out, src{"G_p" + name, p.Interface(), M{"z": v.String()}, v, "*" + name})
		}
		out = append(out, src{"G_p" + name, reflect.Zero(reflect.PtrTo(goTypes[name])).Interface(), M{"nil": true}, nil, "*" + name})
	}
	for _, v := range B {
		out = append(out, src{"G_pbigint", new(big.Int).Set(v), M{"z": v.String()}, v, "*big.Int"})
	}
	out = append(out, src{"G_pbigint", (*big.Int)(nil), M{"nil": true}, nil, "*big.Int"})
	return out
}

var sourceStrings = []string{"0", "1", "-1", "127", "128", "-128", "-129", "255", "256", "32767", "32768", "-32768", "-32769", "65535", "65536",
	"2147483647", "2147483648", "-2147483648", "-2147483649", "4294967295", "4294967296", "4294967301", "9223372036854775807", "9223372036854775808",
	"-9223372036854775808", "-9223372036854775809", "18446744073709551615", "18446744073709551616", "340282366920938463463374607431768211456",
	"", "abc", "+5", " 5", "5 ", "0x10", "1_000", "007", "-0", "1e3", "1.0", "12a"}

func stringSources() []src {
	var out []src
	for _, s := range sourceStrings {
		stringOracles(s)
		var mv *big.Int
		if i, ok := new(big.Int).SetString(s, 10); ok {
			mv = i
		}
		s2 := s
		out = append(out, src{"G_string", s, M{"s": s}, mv, "string"})
		out = append(out, src{"G_pstring", &s2, M{"s": s}, mv, "*string"})
	}
	out = append(out, src{"G_pstring", (*string)(nil), M{"nil": true}, nil, "*string"})
	return out
}

var f64Samples = []float64{0, math.Copysign(0, -1), 1, -1, 0.5, 0.1, 1.0 / 3, 16777216, 16777217, 3.4028234663852886e38, 3.4028235677973366e38, 3.5e38, 1e39, -1e39,
	1.401298464324817e-45, 7.006492321624085e-46, 1e-46, 1.1754943508222875e-38, math.MaxFloat64, math.SmallestNonzeroFloat64, math.Inf(1), math.Inf(-1), math.NaN(),
	123456789, 0.000123, 1e10, 4294967296, 9007199254740993,
	// NaN patterns: negative quiet, signalling, payloads
	math.Float64frombits(0xfff8000000000000), math.Float64frombits(0x7ff0000000000001), math.Float64frombits(0x7ff8000000000001),
	math.Float64frombits(0xffffffffffffffff), math.Float64frombits(0x7ff4000000000000), float64(math.Float32frombits(0x7fc00000)),
	float64(math.Float32frombits(0xffc00001))}

// float64 values whose mantissa has exactly w significant bits, w around the preset precisions of a *big.Float destination
// (such a value fits a destination of precision p exactly iff w <= p), at a few exponents, and classic decimal fractions
var precSamples = func() []float64 {
	var out []float64
	for _, w := range []uint{1, 2, 9, 10, 11, 23, 24, 25, 51, 52, 53} {
		m := float64(uint64(1)<<(w-1) | 1)
		for _, e := range []int{0, -int(w) + 1, -30, 40, -1074 + 60, 1023 - 53} {
			out = append(out, math.Ldexp(m, e), -math.Ldexp(m, e))
		}
	}
	out = append(out, 1.0000001, 0.1, 1.0/3, 1+math.Ldexp(1, -52), 1+math.Ldexp(1, -9), 1+math.Ldexp(1, -10), 1023, 1025, 3, 5, 0.75,
		math.MaxFloat64, math.SmallestNonzeroFloat64, math.Ldexp(3, -1074), math.MaxFloat32, 16777217, 9007199254740991)
	return out
}()

func floatSources() []src {
	var out []src
	fs := append([]float64{}, f64Samples...)
	for i := 0; i < 20; i++ {
		fs = append(fs, math.Float64frombits(rnd.Uint64()))
		fs = append(fs, float64(math.Float32frombits(rnd.Uint32())))
	}
	for _, f := range fs {
		f64Oracles(f)
		f := f
		b := strconv.FormatUint(math.Float64bits(f), 10)
		out = append(out, src{"G_float64", f, M{"z": b}, nil, "float64"})
		out = append(out, src{"G_pfloat64", &f, M{"z": b}, nil, "*float64"})
		g := float32(f)
		b32 := strconv.FormatUint(uint64(math.Float32bits(g)), 10)
		out = append(out, src{"G_float32", g, M{"z": b32}, nil, "float32"})
		out = append(out, src{"G_pfloat32", &g, M{"z": b32}, nil, "*float32"})
	}
	out = append(out, src{"G_pfloat64", (*float64)(nil), M{"nil": true}, nil, "*float64"})
	out = append(out, src{"G_pfloat32", (*float32)(nil), M{"nil": true}, nil, "*float32"})
	// big.Float sources: exact doubles, values needing rounding, values beyond the double range
	var bfs []*big.Float
	for _, f := range []float64{0, 1, -1, 0.5, 0.1, 1e300, math.MaxFloat64, math.SmallestNonzeroFloat64, 16777217} {
		bfs = append(bfs, new(big.Float).SetFloat64(f))
	}
	for _, s := range []string{"0.1", "1e400", "-1e400", "1e-400", "9007199254740993", "18446744073709551617", "0.3333333333333333333333333333"} {
		x, _, _ := big.ParseFloat(s, 10, 200, big.ToNearestEven)
		bfs = append(bfs, x)
	}
	bfs = append(bfs, new(big.Float).SetInf(false), new(big.Float).SetInf(true))
	for _, c := range bfDirected() {
		if c.class == "subnormal64-inexact" || c.class == "subnormal64-exact" || c.class == "overflow64-inexact" || c.class == "wide64-inexact" {
			bfs = append(bfs, c.x)
		}
	}
	for _, x := range bfs {
		bigFloatOracle(x)
		out = append(out, src{"G_pbigfloat", x, M{"bf": bfKey(x)}, nil, "*big.Float"})
	}
	out = append(out, src{"G_pbigfloat", (*big.Float)(nil), M{"nil": true}, nil, "*big.Float"})
	return out
}

func otherSources() []src {
	return []src{
		{"G_nil", nil, M{}, nil, "nil"},
		{"G_other", true, M{}, nil, "bool"},
		{"G_other", []int{1}, M{}, nil, "[]int"},
		{"G_other", struct{}{}, M{}, nil, "struct{}"},
		{"G_other", *big.NewInt(5), M{}, nil, "big.Int"},
		{"G_other", []byte{1}, M{}, nil, "[]byte"},
		{"G_other", map[string]int{}, M{}, nil, "map[string]int"},
		{"G_other", complex(1, 1), M{}, nil, "complex128"},
	}
}

func runToSwitches(tab *numTable, srcs []src) int {
	n := 0
	names := []string{}
	for _, s := range tab.ToSwitches {
		names = append(names, s.Name)
	}
	names = append(names, "convertToBigInt", "convertToFloat32", "convertToFloat64")
	for _, name := range names {
		f := fn(name)
		if !f.IsValid() {
			continue
		}
		for _, s := range srcs {
			arg := reflect.New(f.Type().In(0)).Elem()
			if s.val != nil {
				arg.Set(reflect.ValueOf(s.val))
			}
			res := f.Call([]reflect.Value{arg})
			rec := M{"k": "to", "name": name, "c": s.ctor, "p": s.desc, "go": s.goty}
			errv := res[len(res)-1]
			rec["ok"] = !isErr(errv)
			if !isErr(errv) {
				switch name {
				case "convertToBigInt":
					b := res[0].Interface().(*big.Int)
					if b == nil {
						rec["nil"] = true
					} else {
						rec["val"] = b.String()
						rec["nil"] = false
					}
				case "convertToFloat32":
					rec["val"] = strconv.FormatUint(uint64(math.Float32bits(float32(res[0].Float()))), 10)
					rec["nil"] = res[1].Bool()
				case "convertToFloat64":
					rec["val"] = strconv.FormatUint(math.Float64bits(res[0].Float()), 10)
					rec["nil"] = res[1].Bool()
				default:
					rec["val"] = strconv.FormatInt(res[0].Int(), 10)
					rec["nil"] = res[1].Bool()
				}
			}
			hlib.Emit(rec)
			n++
		}
	}
	return n
}

type dst struct {
	ctor      string
	mk        func() interface{} // fresh pre-filled destination (nil pointer when isnil)
	nilp      bool
	goty      string
	prec      int  // *big.Float destinations: the precision preset by the caller (part of the model's D_pbigfloat); -1 otherwise
	floatOnly bool // used with the float switches only (keeps the integer switch cases as they were)
}

func destinations() []dst {
	var out []dst
	for _, name := range intNames {
		name := name
		out = append(out, dst{"D_p" + name, func() interface{} {
			p := reflect.New(goTypes[name])
			p.Elem().Set(mkInt(name, big.NewInt(77)))
			return p.Interface()
		}, false, "*" + name, -1, false})
		out = append(out, dst{"D_p" + name, func() interface{} { return reflect.Zero(reflect.PtrTo(goTypes[name])).Interface() }, true, "*" + name, -1, false})
	}
	out = append(out,
		dst{"D_piface", func() interface{} { var x interface{} = "prefilled"; return &x }, false, "*interface{}", -1, false},
		dst{"D_piface", func() interface{} { return (*interface{})(nil) }, true, "*interface{}", -1, false},
		dst{"D_pbigint", func() interface{} { return big.NewInt(77) }, false, "*big.Int", -1, false},
		dst{"D_pbigint", func() interface{} { return (*big.Int)(nil) }, true, "*big.Int", -1, false},
		dst{"D_pstring", func() interface{} { s := "prefilled"; return &s }, false, "*string", -1, false},
		dst{"D_pstring", func() interface{} { return (*string)(nil) }, true, "*string", -1, false},
		dst{"D_pfloat32", func() interface{} { f := float32(77); return &f }, false, "*float32", -1, false},
		dst{"D_pfloat32", func() interface{} { return (*float32)(nil) }, true, "*float32", -1, false},
		dst{"D_pfloat64", func() interface{} { f := float64(77); return &f }, false, "*float64", -1, false},
		dst{"D_pfloat64", func() interface{} { return (*float64)(nil) }, true, "*float64", -1, false},
		dst{"D_pbigfloat", func() interface{} { return big.NewFloat(77) }, false, "*big.Float", 53, false},
		dst{"D_pbigfloat", func() interface{} { return (*big.Float)(nil) }, true, "*big.Float", 0, false},
		dst{"D_other", func() interface{} { return nil }, false, "nil", -1, false},
		dst{"D_other", func() interface{} { return int64(5) }, false, "int64", -1, false},
		dst{"D_other", func() interface{} { b := true; return &b }, false, "*bool", -1, false},
		dst{"D_other", func() interface{} { return &[]int{} }, false, "*[]int", -1, false},
		dst{"D_other", func() interface{} { return big.Int{} }, false, "big.Int", -1, false},
	)
	// *big.Float destinations of every other preset precision (float switches only)
	for _, p := range destPrecs {
		if p == 53 {
			continue
		}
		p := p
		out = append(out, dst{"D_pbigfloat", func() interface{} { return bfDest(p) }, false, fmt.Sprintf("*big.Float(prec=%d)", p), int(p), true})
	}
	return out
}

// stored describes what a destination holds after the call, as a goval
func stored(d interface{}) M {
	switch p := d.(type) {
	case *interface{}:
		return storedIface(*p)
	case *big.Int:
		return M{"c": "G_bigint", "z": p.String()}
	case *string:
		return M{"c": "G_string", "s": *p}
	case *float32:
		return M{"c": "G_float32", "z": strconv.FormatUint(uint64(math.Float32bits(*p)), 10)}
	case *float64:
		return M{"c": "G_float64", "z": strconv.FormatUint(math.Float64bits(*p), 10)}
	case *big.Float:
		return M{"c": "G_bigfloat", "bf": bfKey(p)}
	}
	v := reflect.ValueOf(d).Elem()
	return M{"c": "G_" + v.Type().Name(), "z": bigOf(v).String()}
}

func storedIface(x interface{}) M {
	switch v := x.(type) {
	case nil:
		return M{"c": "G_nil"}
	case *big.Int:
		return M{"c": "G_pbigint", "z": v.String()}
	case float32:
		return M{"c": "G_float32", "z": strconv.FormatUint(uint64(math.Float32bits(v)), 10)}
	case float64:
		return M{"c": "G_float64", "z": strconv.FormatUint(math.Float64bits(v), 10)}
	case string:
		return M{"c": "G_string", "s": v}
	case time.Duration:
		return M{"c": "G_duration", "z": strconv.FormatInt(int64(v), 10)}
	}
	rv := reflect.ValueOf(x)
	if _, ok := goTypes[rv.Type().Name()]; ok {
		return M{"c": "G_" + rv.Type().Name(), "z": bigOf(rv).String()}
	}
	return M{"c": "G_other"}
}

func runFromSwitches(tab *numTable, B []*big.Int) int {
	n := 0
	dsts := destinations()
	type job struct {
		name string
		r    numRange
	}
	var jobs []job
	for _, s := range tab.FromSwitches {
		jobs = append(jobs, job{s.Name, s.Range})
	}
	jobs = append(jobs, job{"convertFromBigInt", numRange{true, 0}})
	for _, j := range jobs {
		f := fn(j.name)
		if !f.IsValid() {
			continue
		}
		for _, v := range B {
			if !inRange(v, j.r) {
				continue
			}
			if j.r.Bits != 0 {
				oracle("FormatInt", M{"x": v.String(), "s": strconv.FormatInt(v.Int64(), 10)})
			} else {
				oracle("BigText", M{"x": v.String(), "s": v.Text(10)})
			}
			for _, wasNull := range []bool{false, true} {
				if wasNull && v.Sign() != 0 && v.Cmp(big.NewInt(5)) != 0 {
					continue
				}
				for _, d := range dsts {
					if d.floatOnly {
						continue
					}
					dest := d.mk()
					var a0 reflect.Value
					if j.r.Bits == 0 {
						a0 = reflect.ValueOf(new(big.Int).Set(v))
					} else {
						a0 = reflect.New(f.Type().In(0)).Elem()
						a0.SetInt(v.Int64())
					}
					a2 := reflect.New(f.Type().In(2)).Elem()
					if dest != nil {
						a2.Set(reflect.ValueOf(dest))
					}
					res := f.Call([]reflect.Value{a0, reflect.ValueOf(wasNull), a2})
					rec := M{"k": "from", "name": j.name, "val": v.String(), "null": wasNull, "c": d.ctor, "dnil": d.nilp, "go": d.goty, "ok": !isErr(res[0])}
					if d.prec >= 0 {
						rec["prec"] = d.prec
					}
					if !isErr(res[0]) {
						rec["st"] = stored(dest)
					}
					hlib.Emit(rec)
					n++
				}
			}
		}
	}
	// float switches
	for _, name := range []string{"convertFromFloat32", "convertFromFloat64"} {
		f := fn(name)
		if !f.IsValid() {
			continue
		}
		fs := append([]float64{}, f64Samples...)
		nGeneral := len(fs)
		if name == "convertFromFloat64" {
			fs = append(fs, precSamples...) // these go to the *big.Float destinations (every preset precision) only
		}
		for xi, x := range fs {
			f64Oracles(x)
			for _, wasNull := range []bool{false, true} {
				if wasNull && x != 1 {
					continue
				}
				for _, d := range dsts {
					if xi >= nGeneral && (d.prec < 0 || d.nilp) {
						continue
					}
					if d.prec >= 0 && !d.nilp {
						setFloatOracle(uint(d.prec), x)
					}
					dest := d.mk()
					var a0 reflect.Value
					var bits string
					if name == "convertFromFloat32" {
						a0 = reflect.ValueOf(float32(x))
						bits = strconv.FormatUint(uint64(math.Float32bits(float32(x))), 10)
					} else {
						a0 = reflect.ValueOf(x)
						bits = strconv.FormatUint(math.Float64bits(x), 10)
					}
					a2 := reflect.New(f.Type().In(2)).Elem()
					if dest != nil {
						a2.Set(reflect.ValueOf(dest))
					}
					res := f.Call([]reflect.Value{a0, reflect.ValueOf(wasNull), a2})
					rec := M{"k": "from", "name": name, "val": bits, "null": wasNull, "c": d.ctor, "dnil": d.nilp, "go": d.goty, "ok": !isErr(res[0])}
					if d.prec >= 0 {
						rec["prec"] = d.prec
					}
					if !isErr(res[0]) {
						rec["st"] = stored(dest)
					}
					hlib.Emit(rec)
					n++
				}
			}
		}
	}
	return n
}

// ---------------------------------------------------------------------------------------------- wire layer

func runWire(B []*big.Int) int {
	n := 0
	widths := map[string]int{"Int64": 64, "Int32": 32, "Int16": 16, "Int8": 8}
	for _, suffix := range []string{"Int64", "Int32", "Int16", "Int8"} {
		w := fn("write" + suffix)
		r := fn("read" + suffix)
		if !w.IsValid() || !r.IsValid() {
			continue
		}
		bits := widths[suffix]
		for _, v := range B {
			if !inRange(v, numRange{true, bits}) {
				continue
			}
			a := reflect.New(w.Type().In(0)).Elem()
			a.SetInt(v.Int64())
			out := w.Call([]reflect.Value{a})[0].Bytes()
			hlib.Emit(M{"k": "w", "name": "write" + suffix, "v": v.String(), "bytes": hex.EncodeToString(out)})
			n++
		}
		// reads: every length from 0 to width+2, boundary and random contents
		for l := 0; l <= bits/8+2; l++ {
			for t := 0; t < 6; t++ {
				b := make([]byte, l)
				switch t {
				case 0:
				case 1:
					for i := range b {
						b[i] = 0xff
					}
				case 2:
					if l > 0 {
						b[0] = 0x80
					}
				case 3:
					if l > 0 {
						b[0] = 0x7f
						for i := 1; i < l; i++ {
							b[i] = 0xff
						}
					}
				default:
					rnd.Read(b)
				}
				res := r.Call([]reflect.Value{reflect.ValueOf(b)})
				rec := M{"k": "r", "name": "read" + suffix, "bytes": hex.EncodeToString(b), "ok": !isErr(res[2])}
				if !isErr(res[2]) {
					rec["val"] = strconv.FormatInt(res[0].Int(), 10)
					rec["null"] = res[1].Bool()
				}
				hlib.Emit(rec)
				n++
			}
		}
	}
	// floats: bits in, bytes out
	for _, suffix := range []string{"Float32", "Float64"} {
		w := fn("write" + suffix)
		r := fn("read" + suffix)
		if !w.IsValid() || !r.IsValid() {
			continue
		}
		for _, x := range f64Samples {
			var a reflect.Value
			var bits string
			if suffix == "Float32" {
				a = reflect.ValueOf(float32(x))
				bits = strconv.FormatUint(uint64(math.Float32bits(float32(x))), 10)
			} else {
				a = reflect.ValueOf(x)
				bits = strconv.FormatUint(math.Float64bits(x), 10)
			}
			out := w.Call([]reflect.Value{a})[0].Bytes()
			hlib.Emit(M{"k": "w", "name": "write" + suffix, "v": bits, "bytes": hex.EncodeToString(out)})
			res := r.Call([]reflect.Value{reflect.ValueOf(out)})
			rec := M{"k": "r", "name": "read" + suffix, "bytes": hex.EncodeToString(out), "ok": !isErr(res[2])}
			if !isErr(res[2]) {
				if suffix == "Float32" {
					rec["val"] = strconv.FormatUint(uint64(math.Float32bits(float32(res[0].Float()))), 10)
				} else {
					rec["val"] = strconv.FormatUint(math.Float64bits(res[0].Float()), 10)
				}
				rec["null"] = res[1].Bool()
			}
			hlib.Emit(rec)
			n += 2
		}
		for _, l := range []int{0, 1, 3, 5, 7, 9} {
			b := make([]byte, l)
			res := r.Call([]reflect.Value{reflect.ValueOf(b)})
			rec := M{"k": "r", "name": "read" + suffix, "bytes": hex.EncodeToString(b), "ok": !isErr(res[2])}
			if !isErr(res[2]) {
				rec["val"] = "0"
				rec["null"] = res[1].Bool()
			}
			hlib.Emit(rec)
			n++
		}
	}
	// varint bytes
	wb := fn("writeBigInt")
	rb := fn("readBigInt")
	if wb.IsValid() && rb.IsValid() {
		for _, v := range B {
			out := wb.Call([]reflect.Value{reflect.ValueOf(new(big.Int).Set(v))})[0].Bytes()
			hlib.Emit(M{"k": "bw", "v": v.String(), "bytes": hex.EncodeToString(out)})
			n++
		}
		for t := 0; t < 120; t++ {
			l := t % 12
			b := make([]byte, l)
			rnd.Read(b)
			if l > 0 && t%3 == 0 {
				b[0] = []byte{0, 0xff, 0x80, 0x7f}[t%4]
			}
			res := rb.Call([]reflect.Value{reflect.ValueOf(b)})[0].Interface().(*big.Int)
			rec := M{"k": "br", "bytes": hex.EncodeToString(b), "null": res == nil}
			if res != nil {
				rec["val"] = res.String()
			}
			hlib.Emit(rec)
			n++
		}
	}
	return n
}

// ---------------------------------------------------------------------------------------------- the property itself on the public API

type cqlInt struct {
	name  string
	codec datacodec.Codec
	bits  int   // 0: varint
	bias  int64 // date: wire = days + 2^31 (unsigned)
}

var cqlInts = []cqlInt{
	{"bigint", datacodec.Bigint, 64, 0}, {"counter", datacodec.Counter, 64, 0}, {"int", datacodec.Int, 32, 0},
	{"smallint", datacodec.Smallint, 16, 0}, {"tinyint", datacodec.Tinyint, 8, 0}, {"varint", datacodec.Varint, 0, 0},
	{"date", datacodec.Date, 32, 1 << 31}, {"time", datacodec.Time, 64, 0}, {"timestamp", datacodec.Timestamp, 64, 0},
}

// twos interprets bytes as a big-endian two's-complement integer
func twos(b []byte) *big.Int {
	v := new(big.Int).SetBytes(b)
	if len(b) > 0 && b[0]&0x80 != 0 {
		v.Sub(v, pow2(uint(8*len(b))))
	}
	return v
}

func twosBytes(v *big.Int, n int) []byte {
	m := new(big.Int).Set(v)
	if m.Sign() < 0 {
		m.Add(m, pow2(uint(8*n)))
	}
	b := m.Bytes()
	out := make([]byte, n)
	copy(out[n-len(b):], b)
	return out
}

func minimalTwos(v *big.Int) []byte {
	for n := 1; ; n++ {
		if inRange(v, numRange{true, 8 * n}) {
			return twosBytes(v, n)
		}
	}
}

var nViol, nPred int
var predPairs = map[string]bool{}

func viol(rec M) {
	rec["k"] = "viol"
	hlib.Emit(rec)
	nViol++
}

func (c cqlInt) wireValue(b []byte) *big.Int {
	if c.bias != 0 {
		return new(big.Int).Sub(new(big.Int).SetBytes(b), big.NewInt(c.bias))
	}
	return twos(b)
}

func (c cqlInt) wireBytes(v *big.Int) []byte {
	if c.bits == 0 {
		return minimalTwos(v)
	}
	if c.bias != 0 {
		return twosBytes(new(big.Int).Add(v, big.NewInt(c.bias)), c.bits/8) // unsigned, fits by construction
	}
	return twosBytes(v, c.bits/8)
}

func safely(f func()) (panicked interface{}) {
	defer func() { panicked = recover() }()
	f()
	return nil
}

func predEncode(srcs []src) {
	for _, c := range cqlInts {
		for _, s := range srcs {
			if s.math == nil {
				continue
			}
			var out []byte
			var err error
			if p := safely(func() { out, err = c.codec.Encode(s.val, primitive.ProtocolVersion5) }); p != nil {
				viol(M{"cql": c.name, "dir": "encode", "gotype": s.goty, "value": s.math.String(), "observed": fmt.Sprint("panic: ", p), "expected": "error or exact value"})
				continue
			}
			nPred++
			predPairs[c.name+"/enc/"+s.goty] = true
			if err != nil {
				continue
			}
			if out == nil {
				viol(M{"cql": c.name, "dir": "encode", "gotype": s.goty, "value": s.math.String(), "observed": "NULL", "expected": "error or exact value"})
				continue
			}
			got := c.wireValue(out)
			if c.bits != 0 && len(out) != c.bits/8 {
				viol(M{"cql": c.name, "dir": "encode", "gotype": s.goty, "value": s.math.String(), "observed": hex.EncodeToString(out), "expected": fmt.Sprintf("%d bytes", c.bits/8)})
				continue
			}
			if got.Cmp(s.math) != 0 {
				viol(M{"cql": c.name, "dir": "encode", "gotype": s.goty, "value": s.math.String(), "observed": got.String() + " (bytes " + hex.EncodeToString(out) + ")", "expected": "error or " + s.math.String()})
			}
		}
	}
}

func predDecode(B []*big.Int) {
	dsts := destinations()
	for _, c := range cqlInts {
		for _, v := range B {
			if c.bits != 0 && !inRange(v, numRange{true, c.bits}) {
				continue
			}
			wire := c.wireBytes(v)
			for _, d := range dsts {
				if d.nilp || d.ctor == "D_other" || strings.Contains(d.ctor, "float") {
					continue
				}
				if d.ctor == "D_piface" && (c.name == "date" || c.name == "time" || c.name == "timestamp") {
					continue // preferred type is time.Time / time.Duration: judged by predTime
				}
				dest := d.mk()
				var err error
				if p := safely(func() { _, err = c.codec.Decode(wire, dest, primitive.ProtocolVersion5) }); p != nil {
					viol(M{"cql": c.name, "dir": "decode", "gotype": d.goty, "value": v.String(), "observed": fmt.Sprint("panic: ", p), "expected": "error or exact value"})
					continue
				}
				nPred++
				predPairs[c.name+"/dec/"+d.goty] = true
				if err != nil {
					continue
				}
				st := stored(dest)
				var got *big.Int
				if z, ok := st["z"].(string); ok {
					got, _ = new(big.Int).SetString(z, 10)
				} else if s, ok := st["s"].(string); ok {
					if c.name == "date" || c.name == "time" || c.name == "timestamp" {
						continue // formatted with a time layout
					}
					got, _ = new(big.Int).SetString(s, 10)
				}
				if got == nil || got.Cmp(v) != 0 {
					viol(M{"cql": c.name, "dir": "decode", "gotype": d.goty, "value": v.String(), "observed": fmt.Sprint(st), "expected": "error or " + v.String()})
				}
			}
		}
	}
}

func predFloats() {
	v5 := primitive.ProtocolVersion5
	same := func(a, b float64) bool {
		return a == b && math.Signbit(a) == math.Signbit(b) || (math.IsNaN(a) && math.IsNaN(b))
	}
	fs := append([]float64{}, f64Samples...)
	fs = append(fs, f32Edge...)
	for i := 0; i < 200*deepFactor; i++ {
		fs = append(fs, math.Float64frombits(rnd.Uint64()))
	}
	fs = append(fs, f64RandomNear32(300*deepFactor)...)
	for _, f := range fs {
		f := f
		// float64 -> CQL float
		for _, srcv := range []interface{}{f, &f} {
			out, err := datacodec.Float.Encode(srcv, v5)
			nPred++
			predPairs["float/enc/float64"] = true
			if err == nil {
				got := float64(math.Float32frombits(uint32(new(big.Int).SetBytes(out).Uint64())))
				if len(out) != 4 || !same(got, f) {
					viol(M{"cql": "float", "dir": "encode", "gotype": "float64", "value": strconv.FormatFloat(f, 'g', -1, 64), "observed": strconv.FormatFloat(got, 'g', -1, 64), "expected": "error or the same real number"})
				}
			}
		}
		// float64 -> CQL double, double -> float64 / float32 / big.Float
		out, err := datacodec.Double.Encode(f, v5)
		nPred++
		predPairs["double/enc/float64"] = true
		if err != nil || len(out) != 8 || math.Float64bits(f) != new(big.Int).SetBytes(out).Uint64() {
			viol(M{"cql": "double", "dir": "encode", "gotype": "float64", "value": strconv.FormatFloat(f, 'g', -1, 64), "observed": fmt.Sprint(hex.EncodeToString(out), err), "expected": "the IEEE bits"})
			continue
		}
		var d64 float64
		var d32 float32
		if _, err := datacodec.Double.Decode(out, &d64, v5); err != nil || !same(d64, f) {
			viol(M{"cql": "double", "dir": "decode", "gotype": "*float64", "value": strconv.FormatFloat(f, 'g', -1, 64), "observed": fmt.Sprint(d64, err), "expected": "the same real number"})
		}
		nPred++
		predPairs["double/dec/*float64"] = true
		if _, err := datacodec.Double.Decode(out, &d32, v5); err == nil && !same(float64(d32), f) {
			viol(M{"cql": "double", "dir": "decode", "gotype": "*float32", "value": strconv.FormatFloat(f, 'g', -1, 64), "observed": fmt.Sprint(d32), "expected": "error or the same real number"})
		}
		nPred++
		predPairs["double/dec/*float32"] = true
		bf := new(big.Float)
		if _, err := datacodec.Double.Decode(out, bf, v5); err == nil {
			if math.IsNaN(f) || bf.Cmp(new(big.Float).SetFloat64(f)) != 0 {
				viol(M{"cql": "double", "dir": "decode", "gotype": "*big.Float", "value": strconv.FormatFloat(f, 'g', -1, 64), "observed": bf.String(), "expected": "error or the same real number"})
			}
		}
		nPred++
		predPairs["double/dec/*big.Float"] = true
		// CQL float -> float64
		g := float32(f)
		out4, _ := datacodec.Float.Encode(g, v5)
		var w64 float64
		if _, err := datacodec.Float.Decode(out4, &w64, v5); err != nil || !same(w64, float64(g)) {
			viol(M{"cql": "float", "dir": "decode", "gotype": "*float64", "value": strconv.FormatFloat(float64(g), 'g', -1, 32), "observed": fmt.Sprint(w64, err), "expected": "the same real number"})
		}
		nPred++
		predPairs["float/dec/*float64"] = true
	}
	// *big.Float -> double / float: directed classes and seeded random values (floats.go)
	cases := bfDirected()
	nr := 400
	if thorough {
		nr = 20000
	}
	cases = append(cases, bfRandom(nr*deepFactor)...)
	predBigFloats(cases)
	predDecodeBigFloat(append(append([]float64{}, fs...), precSamples...))
	predNaN()
}

func zigzag(v int64) uint64 { return uint64((v >> 63) ^ (v << 1)) }

func uvint(u uint64) []byte {
	// the native protocol's [unsigned vint]: number of leading 1 bits of the first byte = number of extra bytes
	n := 0
	for n < 8 && u >= uint64(1)<<uint(7*(n+1)) {
		n++
	}
	if n == 8 {
		out := []byte{0xff}
		for i := 7; i >= 0; i-- {
			out = append(out, byte(u>>uint(8*i)))
		}
		return out
	}
	out := make([]byte, n+1)
	for i := n; i >= 0; i-- {
		out[i] = byte(u)
		u >>= 8
	}
	out[0] |= byte(0xff << uint(8-n))
	return out
}

func predDuration(B []*big.Int) {
	v5 := primitive.ProtocolVersion5
	var vals []int64
	for _, v := range B {
		if v.IsInt64() {
			vals = append(vals, v.Int64())
		}
	}
	for _, m := range vals {
		for _, which := range []string{"months", "days", "nanos"} {
			mo, da, na := int64(1), int64(2), int64(3)
			switch which {
			case "months":
				mo = m
			case "days":
				da = m
			case "nanos":
				na = m
			}
			wire := append(append(uvint(zigzag(mo)), uvint(zigzag(da))...), uvint(zigzag(na))...)
			var d datacodec.CqlDuration
			_, err := datacodec.Duration.Decode(wire, &d, v5)
			nPred++
			predPairs["duration/dec/"+which] = true
			if err == nil && (int64(d.Months) != mo || int64(d.Days) != da || int64(d.Nanos) != na) {
				viol(M{"cql": "duration", "dir": "decode", "gotype": "CqlDuration." + which, "value": strconv.FormatInt(m, 10),
					"observed": fmt.Sprintf("months=%d days=%d nanos=%d", d.Months, d.Days, int64(d.Nanos)), "expected": "error or the same three integers"})
			}
			// encode side (only representable field values exist in Go)
			if which == "nanos" || (m >= math.MinInt32 && m <= math.MaxInt32) {
				src := datacodec.CqlDuration{Months: int32(mo), Days: int32(da), Nanos: time.Duration(na)}
				out, err := datacodec.Duration.Encode(src, v5)
				nPred++
				predPairs["duration/enc/"+which] = true
				if err == nil && hex.EncodeToString(out) != hex.EncodeToString(wire) {
					viol(M{"cql": "duration", "dir": "encode", "gotype": "CqlDuration." + which, "value": strconv.FormatInt(m, 10),
						"observed": hex.EncodeToString(out), "expected": hex.EncodeToString(wire)})
				}
			}
		}
	}
}

// time-typed representations of date / time / timestamp: the instant must survive, or an error must be returned
func predTime(B []*big.Int) {
	v5 := primitive.ProtocolVersion5
	for _, v := range B {
		if !v.IsInt64() {
			continue
		}
		x := v.Int64()
		// timestamp: wire millis -> time.Time -> wire millis
		var t time.Time
		wire := twosBytes(v, 8)
		if _, err := datacodec.Timestamp.Decode(wire, &t, v5); err == nil {
			nPred++
			predPairs["timestamp/dec/*time.Time"] = true
			ms := new(big.Int).Add(new(big.Int).Mul(big.NewInt(t.Unix()), big.NewInt(1000)), big.NewInt(int64(t.Nanosecond()/1000000)))
			if ms.Cmp(v) != 0 || t.Nanosecond()%1000000 != 0 {
				viol(M{"cql": "timestamp", "dir": "decode", "gotype": "*time.Time", "value": v.String(), "observed": ms.String(), "expected": "error or the same instant"})
			}
			back, err := datacodec.Timestamp.Encode(t, v5)
			nPred++
			predPairs["timestamp/enc/time.Time"] = true
			if err == nil && twos(back).Cmp(v) != 0 {
				viol(M{"cql": "timestamp", "dir": "encode", "gotype": "time.Time", "value": t.UTC().String(), "observed": twos(back).String(), "expected": "error or " + v.String()})
			}
		}
		// time.Time beyond the timestamp range: seconds = x, some nanos
		for _, ns := range []int64{0, 1, 999999999, 500000000} {
			tt := time.Unix(x, ns)
			out, err := datacodec.Timestamp.Encode(tt, v5)
			nPred++
			if err == nil {
				want := new(big.Int).Add(new(big.Int).Mul(big.NewInt(tt.Unix()), big.NewInt(1000)), big.NewInt(int64(tt.Nanosecond()/1000000)))
				if tt.Unix() != x {
					continue // time.Unix itself normalised outside int64 seconds
				}
				if twos(out).Cmp(want) != 0 {
					viol(M{"cql": "timestamp", "dir": "encode", "gotype": "time.Time", "value": fmt.Sprintf("unix(%d,%d)", x, ns), "observed": twos(out).String(), "expected": "error or " + want.String() + " (millisecond truncation is the type's precision)"})
				}
			}
			// date: days since epoch
			outd, err := datacodec.Date.Encode(tt, v5)
			nPred++
			predPairs["date/enc/time.Time"] = true
			if err == nil {
				days := new(big.Int).Div(big.NewInt(tt.Unix()), big.NewInt(86400)) // Euclidean = floor for positive divisor
				got := new(big.Int).Sub(new(big.Int).SetBytes(outd), pow2(31))
				if got.Cmp(days) != 0 {
					viol(M{"cql": "date", "dir": "encode", "gotype": "time.Time", "value": fmt.Sprintf("unix(%d,%d)", x, ns), "observed": got.String(), "expected": "error or " + days.String()})
				}
			}
		}
		// date: wire days -> time.Time
		if inRange(v, numRange{true, 32}) {
			var td time.Time
			wired := twosBytes(new(big.Int).Add(v, pow2(31)), 4)
			if _, err := datacodec.Date.Decode(wired, &td, v5); err == nil {
				nPred++
				predPairs["date/dec/*time.Time"] = true
				if new(big.Int).Mul(v, big.NewInt(86400)).Cmp(big.NewInt(td.Unix())) != 0 || td.Nanosecond() != 0 {
					viol(M{"cql": "date", "dir": "decode", "gotype": "*time.Time", "value": v.String(), "observed": fmt.Sprint(td.Unix()), "expected": "error or day*86400"})
				}
			}
		}
		// time: nanos of day <-> time.Duration
		var du time.Duration
		if _, err := datacodec.Time.Decode(wire, &du, v5); err == nil {
			nPred++
			predPairs["time/dec/*time.Duration"] = true
			if int64(du) != x {
				viol(M{"cql": "time", "dir": "decode", "gotype": "*time.Duration", "value": v.String(), "observed": fmt.Sprint(int64(du)), "expected": "error or the same"})
			}
		}
		outt, err := datacodec.Time.Encode(time.Duration(x), v5)
		nPred++
		predPairs["time/enc/time.Duration"] = true
		if err == nil && twos(outt).Cmp(v) != 0 {
			viol(M{"cql": "time", "dir": "encode", "gotype": "time.Duration", "value": v.String(), "observed": twos(outt).String(), "expected": "error or the same"})
		}
	}
}

// ---------------------------------------------------------------------------------------------- exported time conversions

func runTime(B []*big.Int) int {
	n := 0
	nanos := []int64{0, 1, 999999, 1000000, 500000000, 999000000, 999999999}
	for _, v := range B {
		if !v.IsInt64() {
			continue
		}
		x := v.Int64()
		for _, ns := range nanos {
			t := time.Unix(x, ns)
			if t.Unix() != x || int64(t.Nanosecond()) != ns {
				continue
			}
			m, err := datacodec.ConvertTimeToEpochMillis(t)
			hlib.Emit(M{"k": "tm", "name": "ConvertTimeToEpochMillis", "s": v.String(), "n": ns, "ok": err == nil, "v": strconv.FormatInt(m, 10)})
			d, err := datacodec.ConvertTimeToEpochDays(t)
			hlib.Emit(M{"k": "tm", "name": "ConvertTimeToEpochDays", "s": v.String(), "n": ns, "ok": err == nil, "v": strconv.FormatInt(int64(d), 10)})
			n += 2
		}
		t := datacodec.ConvertEpochMillisToTime(x)
		hlib.Emit(M{"k": "tm", "name": "ConvertEpochMillisToTime", "x": v.String(), "s": strconv.FormatInt(t.Unix(), 10), "n": t.Nanosecond()})
		du, err := datacodec.ConvertDurationToNanosOfDay(time.Duration(x))
		hlib.Emit(M{"k": "tm", "name": "ConvertDurationToNanosOfDay", "x": v.String(), "ok": err == nil, "v": strconv.FormatInt(du, 10)})
		dd, err := datacodec.ConvertNanosOfDayToDuration(x)
		hlib.Emit(M{"k": "tm", "name": "ConvertNanosOfDayToDuration", "x": v.String(), "ok": err == nil, "v": strconv.FormatInt(int64(dd), 10)})
		n += 3
		if inRange(v, numRange{true, 32}) {
			td := datacodec.ConvertEpochDaysToTime(int32(x))
			hlib.Emit(M{"k": "tm", "name": "ConvertEpochDaysToTime", "x": v.String(), "s": strconv.FormatInt(td.Unix(), 10), "n": td.Nanosecond()})
			n++
		}
	}
	return n
}

func main() {
	if len(os.Args) < 2 {
		fmt.Fprintln(os.Stderr, "usage: num <numeric_table.json> [thorough]")
		os.Exit(2)
	}
	deep := false
	for _, a := range os.Args[2:] {
		thorough = thorough || a == "thorough"
		deep = deep || a == "deep"
	}
	rnd = rand.New(rand.NewSource(hlib.Seed()))
	// the table of the translator lists helpers and switches for the correspondence; the search on the public API does
	// not need it: a missing or unreadable table (the translation failed) must not stop the search
	var tab numTable
	if raw, err := os.ReadFile(os.Args[1]); err != nil {
		hlib.Emit(M{"k": "notable", "why": err.Error()})
	} else if err := json.Unmarshal(raw, &tab); err != nil {
		hlib.Emit(M{"k": "notable", "why": err.Error()})
		tab = numTable{}
	}
	defer hlib.Flush()
	if deep {
		// the search alone, widened (used by the check when the translation, a proof or the correspondence broke and the
		// normal run found no failing input): more random integers, floats and big.Floats; no correspondence records
		thorough, deepFactor = true, 10
		B := boundaries()
		var srcs []src
		srcs = append(srcs, intSources(B)...)
		srcs = append(srcs, stringSources()...)
		predEncode(srcs)
		predDecode(B)
		predFloats()
		predDuration(B)
		predTime(B)
		hlib.Emit(M{"k": "sum", "deep": true, "counts": M{"pred": nPred, "pred_pairs": len(predPairs), "viol": nViol, "boundary_values": len(B), "bigfloat": bfCounts}})
		return
	}
	B := boundaries()
	counts := M{}
	counts["helpers"] = runHelpers(&tab, B)
	counts["math"] = runMath(B)
	var srcs []src
	srcs = append(srcs, intSources(B)...)
	srcs = append(srcs, stringSources()...)
	fl := floatSources()
	srcs = append(srcs, fl...)
	srcs = append(srcs, otherSources()...)
	counts["to"] = runToSwitches(&tab, srcs)
	counts["from"] = runFromSwitches(&tab, B)
	counts["wire"] = runWire(B)
	counts["time"] = runTime(B)
	counts["contract_oracle_queries"] = contractOracles(B)
	predEncode(srcs)
	predDecode(B)
	predFloats()
	predDuration(B)
	predTime(B)
	counts["pred"] = nPred
	counts["pred_pairs"] = len(predPairs)
	counts["viol"] = nViol
	counts["boundary_values"] = len(B)
	counts["bigfloat"] = bfCounts
	var pairs []string
	for p := range predPairs {
		pairs = append(pairs, p)
	}
	sort.Strings(pairs)
	hlib.Emit(M{"k": "sum", "counts": counts, "pairs": pairs})
}
