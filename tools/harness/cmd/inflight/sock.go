package main

// C16, runtime half (exercised, not proved): scripted socket sessions on localhost with client.NewCqlClient /
// client.NewCqlServer. A close is injected from the client, the server connection, the server, or the context at a
// step boundary of the session; then, with bounded waits: blocked receivers return, pending requests are completed
// with an error, later sends are refused, every Close returns, and the goroutine count goes back to the baseline.

import (
	"context"
	"fmt"
	"net"
	"runtime"
	"sync"
	"sync/atomic"
	"time"

	"github.com/datastax/go-cassandra-native-protocol/client"
	"github.com/datastax/go-cassandra-native-protocol/frame"
	"github.com/datastax/go-cassandra-native-protocol/message"
	"github.com/datastax/go-cassandra-native-protocol/primitive"
	"verifharness/hlib"
)

type sockFailure struct {
	Kind string      `json:"kind"`
	Cls  string      `json:"cls,omitempty"`
	What string      `json:"what"`
	Case interface{} `json:"case"`
}

type session struct {
	Version int    `json:"version"`
	Stage   string `json:"stage"`  // connected | pending | exchanged | multipage
	Closer  string `json:"closer"` // client | serverconn | server | ctx | peer-reset
	Pending int    `json:"pending"`
}

func freeAddr() string {
	l, err := net.Listen("tcp", "127.0.0.1:0")
	if err != nil {
		panic(err)
	}
	defer l.Close()
	return l.Addr().String()
}

func within(d time.Duration, f func()) bool {
	done := make(chan struct{})
	go func() { f(); close(done) }()
	select {
	case <-done:
		return true
	case <-time.After(d):
		return false
	}
}

func waitGoroutines(baseline int, d time.Duration) int {
	deadline := time.Now().Add(d)
	n := runtime.NumGoroutine()
	for n > baseline && time.Now().Before(deadline) {
		time.Sleep(20 * time.Millisecond)
		n = runtime.NumGoroutine()
	}
	return n
}

func runSession(ss session, fail func(kind, what string)) {
	baseline := runtime.NumGoroutine()
	addr := freeAddr()
	version := primitive.ProtocolVersion(ss.Version)
	server := client.NewCqlServer(addr, nil)
	var hangs int32
	server.RequestHandlers = []client.RequestHandler{func(request *frame.Frame, conn *client.CqlServerConnection, _ client.RequestHandlerContext) *frame.Frame {
		if q, ok := request.Body.Message.(*message.Query); ok {
			switch q.Query {
			case "hang":
				atomic.AddInt32(&hangs, 1)
				return nil
			default:
				return frame.NewFrame(request.Header.Version, request.Header.StreamId, &message.VoidResult{})
			}
		}
		return nil
	}}
	clt := client.NewCqlClient(addr, nil)
	clt.MaxInFlight = 8
	clt.ReadTimeout = 5 * time.Second
	ctx, cancel := context.WithCancel(context.Background())
	defer cancel()
	if err := server.Start(ctx); err != nil {
		fail("harness", "server start: "+err.Error())
		return
	}
	cc, sc, err := server.BindAndInit(clt, ctx, version, client.ManagedStreamId)
	if err != nil {
		fail("harness", "bind: "+err.Error())
		_ = server.Close()
		return
	}
	query := func(q string) *frame.Frame {
		return frame.NewFrame(version, client.ManagedStreamId, &message.Query{Query: q, Options: &message.QueryOptions{Consistency: primitive.ConsistencyLevelOne}})
	}
	var pending []client.InFlightRequest
	var wg sync.WaitGroup
	returned := int32(0)
	switch ss.Stage {
	case "exchanged":
		for i := 0; i < 3; i++ {
			if f, err := cc.SendAndReceive(query("ok")); err != nil || f == nil {
				fail("harness", fmt.Sprintf("exchange failed: %v", err))
			}
		}
	case "pending":
		if f, err := cc.SendAndReceive(query("ok")); err != nil || f == nil {
			fail("harness", fmt.Sprintf("exchange failed: %v", err))
		}
		for i := 0; i < ss.Pending; i++ {
			r, err := cc.Send(query("hang"))
			if err != nil {
				fail("harness", "send: "+err.Error())
				continue
			}
			pending = append(pending, r)
			wg.Add(1)
			go func(r client.InFlightRequest) { // a receiver blocked on the request
				defer wg.Done()
				f, err := cc.Receive(r)
				if f != nil || err == nil {
					fail("no-error-after-close", fmt.Sprintf("blocked Receive returned frame=%v err=%v for an unanswered request", f != nil, err))
				}
				atomic.AddInt32(&returned, 1)
			}(r)
		}
		// wait until the server saw them: the close then hits requests that are really outstanding
		for i := 0; i < 200 && atomic.LoadInt32(&hangs) < int32(ss.Pending); i++ {
			time.Sleep(5 * time.Millisecond)
		}
	}
	// ---- blocked receivers of every kind; each must return promptly whatever the close route
	// (the waits below are well under ReadTimeout = 5s, so a receiver that only returns by its timeout is flagged)
	type receiver struct {
		name string
		done chan struct{}
	}
	var receivers []receiver
	block := func(name string, f func()) {
		rc := receiver{name: name, done: make(chan struct{})}
		receivers = append(receivers, rc)
		started := make(chan struct{})
		go func() {
			defer close(rc.done)
			close(started)
			f()
		}()
		<-started
	}
	if events := cc.EventChannel(); events != nil {
		block("for range CqlClientConnection.EventChannel()", func() {
			for range events {
			}
		})
	}
	block("CqlClientConnection.ReceiveEvent()", func() { _, _ = cc.ReceiveEvent() })
	block("CqlServerConnection.Receive() loop", func() {
		for {
			if _, err := sc.Receive(); err != nil {
				return
			}
		}
	})
	if extra, err := cc.Send(query("hang")); err == nil {
		pending = append(pending, extra)
		block("for range InFlightRequest.Incoming()", func() {
			for range extra.Incoming() {
			}
		})
	} else {
		fail("harness", "send: "+err.Error())
	}
	time.Sleep(20 * time.Millisecond) // let them reach their blocking point
	// ---- the injected close
	closeOK := true
	switch ss.Closer {
	case "client":
		closeOK = within(3*time.Second, func() { _ = cc.Close() })
	case "serverconn":
		closeOK = within(3*time.Second, func() { _ = sc.Close() })
	case "server":
		closeOK = within(3*time.Second, func() { _ = server.Close() })
	case "ctx":
		cancel()
	case "peer-reset":
		if tcp, ok := sc.GetConn().(*net.TCPConn); ok {
			_ = tcp.SetLinger(0)
		}
		_ = sc.GetConn().Close()
	}
	if !closeOK {
		fail("close-hangs", "Close() issued by "+ss.Closer+" did not return within 3s")
	}
	// ---- the client side must notice (directly, or through the lost peer)
	if !within(5*time.Second, func() {
		for !cc.IsClosed() {
			time.Sleep(5 * time.Millisecond)
		}
	}) {
		fail("close-hangs", "client connection still open 5s after "+ss.Closer+" close")
	}
	if !within(3*time.Second, wg.Wait) {
		fail("receiver-blocked", fmt.Sprintf("%d receivers in CqlClientConnection.Receive(request) still blocked 3s after the %s close", ss.Pending-int(atomic.LoadInt32(&returned)), ss.Closer))
	}
	deadline := time.After(3 * time.Second)
	for _, rc := range receivers {
		select {
		case <-rc.done:
		case <-deadline:
			// the deadline is shared: once it has passed, every receiver that is not done is reported
			select {
			case <-rc.done:
			default:
				fail("receiver-blocked", fmt.Sprintf("close route %s: a goroutine blocked in %s has not returned 3s after the connection was closed (ReadTimeout %v)", ss.Closer, rc.name, clt.ReadTimeout))
			}
			expired := make(chan time.Time)
			close(expired)
			deadline = expired
		}
	}
	for i, r := range pending {
		ok := within(2*time.Second, func() {
			for !r.IsDone() {
				time.Sleep(5 * time.Millisecond)
			}
		})
		if !ok {
			fail("not-done-after-close", fmt.Sprintf("pending request %d not done 2s after the %s close", i, ss.Closer))
		} else if r.Err() == nil {
			fail("no-error-after-close", fmt.Sprintf("pending request %d done without error after the %s close", i, ss.Closer))
		}
	}
	if _, err := cc.Send(query("ok")); err == nil {
		fail("accepted-after-close", "Send succeeded on a closed client connection ("+ss.Closer+")")
	}
	// ---- tear everything down; every Close must return
	for name, f := range map[string]func(){"client": func() { _ = cc.Close() }, "serverconn": func() { _ = sc.Close() }, "server": func() { _ = server.Close() }} {
		if !within(3*time.Second, f) {
			fail("close-hangs", "final "+name+".Close() did not return within 3s (after "+ss.Closer+" close)")
		}
	}
	cancel()
	if n := waitGoroutines(baseline, 4*time.Second); n > baseline {
		fail("goroutine-leak", fmt.Sprintf("%d goroutines alive 4s after everything was closed (baseline %d); stacks: %.2500s", n, baseline, stacks()))
	}
}

// a request that is never answered fails with the timeout error after ReadTimeout; one answered in time does not
func runTimeoutSession(fail func(kind, what string)) {
	baseline := runtime.NumGoroutine()
	addr := freeAddr()
	server := client.NewCqlServer(addr, nil)
	server.RequestHandlers = []client.RequestHandler{func(request *frame.Frame, conn *client.CqlServerConnection, _ client.RequestHandlerContext) *frame.Frame {
		if q, ok := request.Body.Message.(*message.Query); ok && q.Query != "hang" {
			return frame.NewFrame(request.Header.Version, request.Header.StreamId, &message.VoidResult{})
		}
		return nil
	}}
	clt := client.NewCqlClient(addr, nil)
	clt.ReadTimeout = 300 * time.Millisecond
	ctx, cancel := context.WithCancel(context.Background())
	defer cancel()
	if err := server.Start(ctx); err != nil {
		fail("harness", "server start: "+err.Error())
		return
	}
	cc, sc, err := server.BindAndInit(clt, ctx, primitive.ProtocolVersion4, client.ManagedStreamId)
	if err != nil {
		fail("harness", "bind: "+err.Error())
		return
	}
	q := func(s string) *frame.Frame {
		return frame.NewFrame(primitive.ProtocolVersion4, client.ManagedStreamId, &message.Query{Query: s, Options: &message.QueryOptions{Consistency: primitive.ConsistencyLevelOne}})
	}
	okReq, err1 := cc.Send(q("ok"))
	hang, err2 := cc.Send(q("hang"))
	if err1 != nil || err2 != nil {
		fail("harness", fmt.Sprintf("send: %v %v", err1, err2))
	} else {
		time.Sleep(60 * time.Millisecond) // 0.2 timeouts
		if hang.IsDone() {
			fail("timeout-early", "unanswered request failed 60ms after sending with ReadTimeout 300ms")
		}
		time.Sleep(900 * time.Millisecond) // 3 timeouts
		if !hang.IsDone() || client.VerifErrClass(hang.Err()) != "timeout" {
			fail("timeout-missing", fmt.Sprintf("unanswered request after 3 ReadTimeouts: done=%v err=%v", hang.IsDone(), hang.Err()))
		}
		if !okReq.IsDone() || okReq.Err() != nil {
			fail("timeout-early", fmt.Sprintf("answered request: done=%v err=%v", okReq.IsDone(), okReq.Err()))
		}
		// Close after a timeout must not panic (F11) and must return
		if !within(3*time.Second, func() { _ = cc.Close() }) {
			fail("close-hangs", "client Close after a timeout did not return")
		}
	}
	_ = sc.Close()
	_ = server.Close()
	cancel()
	if n := waitGoroutines(baseline, 4*time.Second); n > baseline {
		fail("goroutine-leak", fmt.Sprintf("%d goroutines alive after the timeout session (baseline %d)", n, baseline))
	}
}

func sockSessions(tier string) {
	var sessions []session
	closers := []string{"client", "serverconn", "server", "ctx", "peer-reset"}
	if tier == "thorough" {
		for _, v := range []int{3, 4, 5} {
			for _, st := range []string{"connected", "pending", "exchanged"} {
				for _, c := range closers {
					sessions = append(sessions, session{Version: v, Stage: st, Closer: c, Pending: 3})
				}
			}
		}
	} else {
		for _, c := range closers {
			sessions = append(sessions, session{Version: 4, Stage: "pending", Closer: c, Pending: 2})
		}
		sessions = append(sessions, session{Version: 5, Stage: "pending", Closer: "client", Pending: 2}, session{Version: 4, Stage: "connected", Closer: "server", Pending: 0})
	}
	rec := predRec{Kind: "pred", Name: "socket-sessions (goroutines end, blocked receivers return, Close returns, pending requests fail; exercised, not proved)"}
	time.Sleep(50 * time.Millisecond)
	for _, ss := range sessions {
		ss := ss
		rec.Checked++
		failed := false
		runSession(ss, func(kind, what string) {
			failed = true
			if len(rec.Failures) < 10 {
				rec.Failures = append(rec.Failures, sockFailure{Kind: kind, What: what, Case: map[string]interface{}{"session": ss}})
			}
		})
		if !failed {
			rec.Distinct++
		}
	}
	rec.Checked++
	tfailed := false
	runTimeoutSession(func(kind, what string) {
		tfailed = true
		rec.Failures = append(rec.Failures, sockFailure{Kind: kind, What: what, Case: map[string]interface{}{"session": "timeout"}})
	})
	if !tfailed {
		rec.Distinct++
	}
	hlib.Emit(rec)
}
