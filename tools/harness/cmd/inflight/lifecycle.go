package main

// C16, runtime half (exercised, not proved): CqlServer.Close at awkward moments of the server's own life cycle
// (deterministic; audit findings 3 and 7), and two observations that are characterised but not judged.
//
//   pending-accept   Accept(client) is blocked when the server is closed: for a client the server has already lost and
//                    forgotten, for a client that never arrives (it is connected to somebody else), and after an Accept
//                    that timed out. Close must return without panicking, the blocked Accept must return promptly.
//   failed-start     Start fails because the port is taken: the error is returned, IsRunning() is false, Close() neither
//                    panics nor blocks, and once the port is free Start succeeds and the server serves a client.
// Verdicts: panic (value and stack; recovered here because these panics are raised in the caller's goroutine),
// close-hangs, accept-blocked, state-wrong, goroutine-leak.

import (
	"bytes"
	"context"
	"fmt"
	"net"
	"runtime"
	"runtime/debug"
	"strings"
	"sync/atomic"
	"time"

	"github.com/datastax/go-cassandra-native-protocol/client"
	"github.com/datastax/go-cassandra-native-protocol/frame"
	"github.com/datastax/go-cassandra-native-protocol/message"
	"github.com/datastax/go-cassandra-native-protocol/primitive"
	"verifharness/hlib"
)

type lifecycleSession struct {
	Family  string `json:"family"`  // pending-accept | failed-start
	Variant string `json:"variant"` // forgotten-client | never-arrives | accept-timed-out | port-in-use
}

// panicStack is debug.Stack() of a recovering goroutine without the frames of the recovery itself: it starts at the
// frame that raised the panic.
func panicStack() string {
	st := string(debug.Stack())
	if i := strings.Index(st, "\npanic("); i >= 0 {
		if j := strings.Index(st[i+1:], "\n"); j >= 0 { // skip "panic(...)" and its file line
			rest := st[i+1+j+1:]
			if k := strings.Index(rest, "\n"); k >= 0 {
				return rest[k+1:]
			}
		}
	}
	return st
}

// guarded runs f in its own goroutine with recover; returns (returned in time, panic text)
func guarded(d time.Duration, f func()) (bool, string) {
	var pv atomic.Value
	ok := within(d, func() {
		defer func() {
			if p := recover(); p != nil {
				pv.Store(fmt.Sprintf("%v\n%s", p, panicStack()))
			}
		}()
		f()
	})
	if s, _ := pv.Load().(string); s != "" {
		return ok, s
	}
	return ok, ""
}

func runPendingAccept(ss lifecycleSession, fail func(kind, what string)) {
	baseline := runtime.NumGoroutine()
	addr := freeAddr()
	server := client.NewCqlServer(addr, nil)
	server.AcceptTimeout = 3 * time.Second
	if ss.Variant == "accept-timed-out" {
		server.AcceptTimeout = 300 * time.Millisecond
	}
	ctx, cancel := context.WithCancel(context.Background())
	defer cancel()
	if err := server.Start(ctx); err != nil {
		fail("harness", "server start: "+err.Error())
		return
	}
	var cc *client.CqlClientConnection
	var other net.Listener
	switch ss.Variant {
	case "forgotten-client":
		clt := client.NewCqlClient(addr, nil)
		var sc *client.CqlServerConnection
		var err error
		if cc, sc, err = server.Bind(clt, ctx); err != nil {
			fail("harness", "bind: "+err.Error())
			_ = server.Close()
			return
		}
		_ = cc.Close()
		within(3*time.Second, func() {
			for !sc.IsClosed() {
				time.Sleep(2 * time.Millisecond)
			}
		})
		time.Sleep(100 * time.Millisecond) // the server forgets the connection in its onClose, right after IsClosed turns true
	default:
		// a client connection the server never sees: it is connected to another listener
		var err error
		if other, err = net.Listen("tcp", "127.0.0.1:0"); err != nil {
			fail("harness", "listen: "+err.Error())
			return
		}
		go func() {
			for {
				c, err := other.Accept()
				if err != nil {
					return
				}
				defer c.Close()
			}
		}()
		if cc, err = client.NewCqlClient(other.Addr().String(), nil).Connect(ctx); err != nil {
			fail("harness", "connect: "+err.Error())
			return
		}
	}
	acceptReturned := make(chan error, 1)
	acceptPanic := make(chan string, 1)
	go func() {
		defer func() {
			if p := recover(); p != nil {
				acceptPanic <- fmt.Sprintf("%v\n%s", p, panicStack())
			}
		}()
		_, err := server.Accept(cc)
		acceptReturned <- err
	}()
	if ss.Variant == "accept-timed-out" {
		select {
		case err := <-acceptReturned:
			if err == nil {
				fail("state-wrong", "Accept of a client that never connected to this server returned a connection")
			}
			acceptReturned <- err
		case p := <-acceptPanic:
			fail("panic", "CqlServer.Accept panicked: "+p)
		case <-time.After(3 * time.Second):
			fail("accept-blocked", "Accept did not return 3s after AcceptTimeout 300ms")
		}
	} else {
		time.Sleep(200 * time.Millisecond) // Accept is blocked by now
	}
	returned, pv := guarded(4*time.Second, func() { _ = server.Close() })
	if pv != "" {
		fail("panic", fmt.Sprintf("CqlServer.Close() panicked with a pending / unfulfilled Accept (%s): %.2500s", ss.Variant, pv))
	} else if !returned {
		fail("close-hangs", fmt.Sprintf("CqlServer.Close() did not return within 4s with a pending Accept (%s); stacks: %.2500s", ss.Variant, stacks()))
	}
	select {
	case err := <-acceptReturned:
		if err == nil {
			fail("state-wrong", "the pending Accept returned a connection after the server was closed")
		}
	case p := <-acceptPanic:
		fail("panic", "CqlServer.Accept panicked: "+p)
	case <-time.After(1500 * time.Millisecond):
		fail("accept-blocked", fmt.Sprintf("the pending Accept (%s) did not return within 1.5s after CqlServer.Close (AcceptTimeout %v)", ss.Variant, server.AcceptTimeout))
	}
	if !server.IsClosed() || server.IsRunning() {
		fail("state-wrong", fmt.Sprintf("after Close: IsClosed()=%v IsRunning()=%v", server.IsClosed(), server.IsRunning()))
	}
	if returned2, pv2 := guarded(3*time.Second, func() { _ = server.Close() }); pv2 != "" || !returned2 {
		fail("close-hangs", fmt.Sprintf("second CqlServer.Close(): returned=%v panic=%.300s", returned2, pv2))
	}
	within(3*time.Second, func() { _ = cc.Close() })
	if other != nil {
		_ = other.Close()
	}
	cancel()
	if n := waitGoroutines(baseline, 4*time.Second); n > baseline {
		fail("goroutine-leak", fmt.Sprintf("%d goroutines alive 4s after the server was closed (baseline %d); stacks: %.2500s", n, baseline, stacks()))
	}
}

func runFailedStart(ss lifecycleSession, fail func(kind, what string)) {
	baseline := runtime.NumGoroutine()
	occupant, err := net.Listen("tcp", "127.0.0.1:0")
	if err != nil {
		fail("harness", "listen: "+err.Error())
		return
	}
	addr := occupant.Addr().String()
	server := client.NewCqlServer(addr, nil)
	ctx, cancel := context.WithCancel(context.Background())
	defer cancel()
	var startErr error
	if returned, pv := guarded(3*time.Second, func() { startErr = server.Start(ctx) }); pv != "" || !returned {
		fail("panic", fmt.Sprintf("Start on a taken port: returned=%v panic=%.1500s", returned, pv))
	}
	if startErr == nil {
		fail("state-wrong", "Start on a port that is already bound returned no error")
	}
	if server.IsRunning() {
		fail("state-wrong", fmt.Sprintf("after a failed Start (%v): IsRunning()=true IsNotStarted()=%v IsClosed()=%v", startErr, server.IsNotStarted(), server.IsClosed()))
	}
	returned, pv := guarded(3*time.Second, func() { _ = server.Close() })
	if pv != "" {
		fail("panic", fmt.Sprintf("CqlServer.Close() after a failed Start panicked: %.2500s", pv))
	} else if !returned {
		fail("close-hangs", "CqlServer.Close() after a failed Start did not return within 3s")
	}
	if server.IsRunning() {
		fail("state-wrong", "IsRunning()=true after Close following a failed Start")
	}
	// the port becomes free: a server on that address starts and serves. The same object if it says it was never
	// started (Close was a no-op), a new one if it says it is closed.
	_ = occupant.Close()
	if server.IsClosed() {
		server = client.NewCqlServer(addr, nil)
	}
	if returned, pv := guarded(3*time.Second, func() { startErr = server.Start(ctx) }); pv != "" || !returned {
		fail("panic", fmt.Sprintf("Start after the port became free: returned=%v panic=%.1500s", returned, pv))
	} else if startErr != nil || !server.IsRunning() {
		fail("state-wrong", fmt.Sprintf("Start after the port became free: err=%v IsRunning()=%v", startErr, server.IsRunning()))
	} else {
		var cc *client.CqlClientConnection
		var sc *client.CqlServerConnection
		var err error
		if !within(8*time.Second, func() { cc, sc, err = server.Bind(client.NewCqlClient(addr, nil), ctx) }) || err != nil {
			fail("state-wrong", fmt.Sprintf("the restarted server does not accept a client: %v", err))
		} else {
			within(3*time.Second, func() { _ = cc.Close(); _ = sc.Close() })
		}
	}
	if returned, pv := guarded(4*time.Second, func() { _ = server.Close() }); pv != "" || !returned {
		fail("close-hangs", fmt.Sprintf("final CqlServer.Close(): returned=%v panic=%.500s", returned, pv))
	}
	cancel()
	if n := waitGoroutines(baseline, 4*time.Second); n > baseline {
		fail("goroutine-leak", fmt.Sprintf("%d goroutines alive 4s after the server was closed (baseline %d); stacks: %.2500s", n, baseline, stacks()))
	}
}

func lifecycleSessions(tier string) {
	sessions := []lifecycleSession{
		{"pending-accept", "forgotten-client"}, {"pending-accept", "never-arrives"}, {"pending-accept", "accept-timed-out"},
		{"failed-start", "port-in-use"},
	}
	rec := predRec{Kind: "pred", Name: "lifecycle-sessions (CqlServer.Close with a pending or timed-out Accept; Close and restart after a failed Start; exercised, not proved)"}
	reps := 1
	if tier == "thorough" {
		reps = 5
	}
	for i := 0; i < reps; i++ {
		for _, ss := range sessions {
			ss := ss
			rec.Checked++
			failed := false
			f := func(kind, what string) {
				failed = true
				if len(rec.Failures) < 10 {
					rec.Failures = append(rec.Failures, sockFailure{Kind: kind, What: what, Case: map[string]interface{}{"lifecycle_session": ss}})
				}
			}
			if ss.Family == "failed-start" {
				runFailedStart(ss, f)
			} else {
				runPendingAccept(ss, f)
			}
			if !failed {
				rec.Distinct++
			}
		}
	}
	hlib.Emit(rec)
}

// ---------------------------------------------------------------------------------------------- observations

// observation: characterised, not judged (no verdict). Printed into the evidence notes.
type observation struct {
	Kind     string `json:"kind"` // "observation"
	Name     string `json:"name"`
	Observed string `json:"observed"`
}

// run LAST in the process: the first two leave goroutines behind when the behaviour is the one described
func observations() {
	// (audit finding 9, borderline) Close() called from one of the connection's own handlers
	obs := func(name, observed string) {
		hlib.Emit(observation{Kind: "observation", Name: name, Observed: observed})
	}
	func() {
		addr := freeAddr()
		server := client.NewCqlServer(addr, nil)
		result := make(chan string, 1)
		server.RequestHandlers = []client.RequestHandler{func(request *frame.Frame, conn *client.CqlServerConnection, _ client.RequestHandlerContext) *frame.Frame {
			if _, ok := request.Body.Message.(*message.Query); ok {
				t0 := time.Now()
				if within(2*time.Second, func() { _ = conn.Close() }) {
					result <- fmt.Sprintf("returned after %v", time.Since(t0).Round(time.Millisecond))
				} else {
					result <- "did not return within 2s (Close waits for the wait group that counts the handler's own goroutine)"
				}
			}
			return nil
		}}
		ctx, cancel := context.WithCancel(context.Background())
		defer cancel()
		if err := server.Start(ctx); err != nil {
			obs("CqlServerConnection.Close() called from a RequestHandler", "not observed: "+err.Error())
			return
		}
		clt := client.NewCqlClient(addr, nil)
		clt.ReadTimeout = time.Second
		cc, _, err := server.BindAndInit(clt, ctx, primitive.ProtocolVersion4, client.ManagedStreamId)
		if err != nil {
			obs("CqlServerConnection.Close() called from a RequestHandler", "not observed: "+err.Error())
			return
		}
		_, _ = cc.Send(frame.NewFrame(primitive.ProtocolVersion4, client.ManagedStreamId, &message.Query{Query: "x", Options: &message.QueryOptions{Consistency: primitive.ConsistencyLevelOne}}))
		select {
		case r := <-result:
			obs("CqlServerConnection.Close() called from a RequestHandler", r)
		case <-time.After(4 * time.Second):
			obs("CqlServerConnection.Close() called from a RequestHandler", "handler not invoked within 4s")
		}
		go func() { _ = cc.Close() }()
		go func() { _ = server.Close() }()
	}()
	func() {
		l, err := net.Listen("tcp", "127.0.0.1:0")
		if err != nil {
			return
		}
		defer l.Close()
		go func() {
			peer, err := l.Accept()
			if err != nil {
				return
			}
			raw := &bytes.Buffer{}
			_ = frame.NewCodec().EncodeFrame(eventFrame(1), raw)
			_, _ = peer.Write(raw.Bytes())
			time.Sleep(5 * time.Second)
			_ = peer.Close()
		}()
		result := make(chan string, 1)
		clt := client.NewCqlClient(l.Addr().String(), nil)
		clt.EventHandlers = []client.EventHandler{func(ev *frame.Frame, conn *client.CqlClientConnection) {
			t0 := time.Now()
			if within(2*time.Second, func() { _ = conn.Close() }) {
				result <- fmt.Sprintf("returned after %v", time.Since(t0).Round(time.Millisecond))
			} else {
				result <- "did not return within 2s (Close waits for the wait group that counts the incoming loop, which is running the handler)"
			}
		}}
		if _, err := clt.Connect(context.Background()); err != nil {
			obs("CqlClientConnection.Close() called from an EventHandler", "not observed: "+err.Error())
			return
		}
		select {
		case r := <-result:
			obs("CqlClientConnection.Close() called from an EventHandler", r)
		case <-time.After(4 * time.Second):
			obs("CqlClientConnection.Close() called from an EventHandler", "handler not invoked within 4s")
		}
	}()
	// a timed-out request keeps its managed stream id until a late final response arrives (or the connection is closed)
	func() {
		h := client.VerifNewHandler(1, 1, 50*time.Millisecond)
		r, err := h.Enqueue(requestFrame(0))
		if err != nil {
			return
		}
		time.Sleep(250 * time.Millisecond)
		st := client.VerifStateOf(r)
		_, err2 := h.Enqueue(requestFrame(0))
		free1 := h.PoolLen()
		errLate := h.Deliver(responseFrame(int(r.StreamId()), true, 1))
		free2 := h.PoolLen()
		_, err3 := h.Enqueue(requestFrame(0))
		obs("a timed-out request keeps its managed stream id until its late final response arrives (MaxInFlight 1, ReadTimeout 50ms)",
			fmt.Sprintf("5 timeouts after Send: done=%v err=%q, free ids %d, a second Send -> %q; late final frame -> %q, free ids %d, Send -> %s",
				st.Done, st.ErrClass, free1, client.VerifErrClass(err2), client.VerifErrClass(errLate), free2, map[bool]string{true: "accepted", false: "refused"}[err3 == nil]))
		h.Close()
		h.CancelContext()
	}()
}
