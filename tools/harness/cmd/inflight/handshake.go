package main

// C16, runtime half (exercised, not proved): close / peer loss injected at every step of the HANDSHAKE, with and
// without credentials, for every entry point the library offers. Each call must return (error or success) within a
// bounded wait and leave no goroutine behind. Runs inside the race sub-command's child process (family
// handshake-steps): a goroutine of the library that spins does not wedge the harness, it shows in the stack dump.
//
//   AcceptHandshake     real CqlServerConnection, the peer is a raw TCP client that walks the handshake up to a step and
//                       then drops the socket: before anything, after OPTIONS/SUPPORTED (before STARTUP), after
//                       STARTUP/AUTHENTICATE (before AUTH_RESPONSE); or the server connection is closed locally at
//                       the same points
//   InitiateHandshake   real CqlClientConnection, the peer is a raw TCP server that drops the socket before answering
//                       STARTUP, or right after AUTHENTICATE
//   PerformHandshake    both ends real; one end (client connection, server connection, its raw socket) is closed
//                       before the call or 0.2 / 1 ms into it
//   BindAndInit         while a goroutine closes every server connection the server accepts
// Verdicts: handshake-hangs (entry point, step, stacks of the goroutines inside package client), goroutine-leak.

import (
	"bytes"
	"context"
	"fmt"
	"net"
	"runtime"
	"strings"
	"sync/atomic"
	"time"

	"github.com/datastax/go-cassandra-native-protocol/client"
	"github.com/datastax/go-cassandra-native-protocol/frame"
	"github.com/datastax/go-cassandra-native-protocol/message"
	"github.com/datastax/go-cassandra-native-protocol/primitive"
)

const handshakeWait = 4 * time.Second // ReadTimeout of these sessions is 1.5 s

// helperGoroutines counts the goroutines blocked in the result send of client.PerformHandshake's two helpers
func helperGoroutines() int {
	buf := make([]byte, 1<<18)
	n := 0
	for _, g := range strings.Split(string(buf[:runtime.Stack(buf, true)]), "\n\n") {
		if strings.Contains(g, "[chan send") && strings.Contains(g, "client.PerformHandshake.func") {
			n++
		}
	}
	return n
}

func handshakeSessions(st *raceState) {
	report := func(kind, session, what string) {
		st.mu.Lock()
		if len(st.rep.Sessions) < 12 {
			st.rep.Sessions = append(st.rep.Sessions, kind+"\x00"+session+"\x00"+what)
		}
		st.mu.Unlock()
	}
	creds := &client.AuthCredentials{Username: "u", Password: "p"}
	encode := func(f *frame.Frame) []byte {
		b := &bytes.Buffer{}
		_ = frame.NewCodec().EncodeFrame(f, b)
		return b.Bytes()
	}
	helperLeaks, helperSessions := 0, 0
	defer func() {
		if helperLeaks > 0 {
			st.mu.Lock()
			st.rep.Observed = append(st.rep.Observed, "goroutines of client.PerformHandshake left behind when the handshake fails\x00"+
				fmt.Sprintf("%d goroutines in %d sessions (PerformHandshake / BindAndInit with one end closed): the helper returns on the first error, the goroutine running the other side's handshake then blocks for ever sending its result on an unbuffered channel (handshake.go:33/36)", helperLeaks, helperSessions))
			st.mu.Unlock()
		}
	}()
	hangs := 0
	run := func(session string, body func(hang func(what string))) {
		if hangs >= 3 {
			return // three calls that never returned (and may be spinning) are enough: do not pile up more of them
		}
		baseline := runtime.NumGoroutine()
		helpersAtStart := helperGoroutines()
		body(func(what string) {
			hangs++
			report("handshake-hangs", session, fmt.Sprintf("%s: %s did not return within %v; stacks: %.3000s", session, what, handshakeWait, stacks()))
		})
		// Goroutines of the helper PerformHandshake that stay blocked on their result channel after the helper returned
		// with the other side's error are counted apart (observed, not judged: see notes/inflight.md), so that they do not
		// mask a leak of a connection's own goroutines.
		deadline := time.Now().Add(3 * time.Second)
		n, helpers := runtime.NumGoroutine(), helperGoroutines()
		for n-helpers > baseline-helpersAtStart && time.Now().Before(deadline) {
			time.Sleep(20 * time.Millisecond)
			n, helpers = runtime.NumGoroutine(), helperGoroutines()
		}
		if n-helpers > baseline-helpersAtStart {
			report("goroutine-leak", session, fmt.Sprintf("%s: %d goroutines alive 3s after everything was closed (baseline %d, not counting %d blocked PerformHandshake helpers); stacks: %.3000s", session, n, baseline, helpers, stacks()))
		}
		if helpers > helpersAtStart {
			helperLeaks += helpers - helpersAtStart
			helperSessions++
		}
		atomic.AddInt64(&st.iters, 1)
	}
	for _, v := range []primitive.ProtocolVersion{primitive.ProtocolVersion4, primitive.ProtocolVersion5} {
		for _, auth := range []bool{false, true} {
			var cr *client.AuthCredentials
			if auth {
				cr = creds
			}
			// ---- AcceptHandshake against a raw client
			steps := []string{"before-OPTIONS", "after-SUPPORTED-before-STARTUP"}
			if auth {
				steps = append(steps, "after-AUTHENTICATE-before-AUTH_RESPONSE")
			}
			for _, step := range steps {
				for _, how := range []string{"peer-loss", "local-close"} {
					step, how := step, how
					run(fmt.Sprintf("AcceptHandshake v%d auth=%v step=%s fault=%s", v, auth, step, how), func(hang func(string)) {
						addr := freeAddr()
						server := client.NewCqlServer(addr, cr)
						server.AcceptTimeout = 2 * time.Second
						ctx, cancel := context.WithCancel(context.Background())
						defer cancel()
						if err := server.Start(ctx); err != nil {
							return
						}
						defer func() { within(3*time.Second, func() { _ = server.Close() }) }()
						peer, err := net.Dial("tcp", addr)
						if err != nil {
							return
						}
						defer peer.Close()
						sc, err := server.AcceptAny()
						if err != nil {
							return
						}
						defer func() { within(3*time.Second, func() { _ = sc.Close() }) }()
						returned := make(chan error, 1)
						go func() { returned <- sc.AcceptHandshake() }()
						codec := frame.NewCodec()
						if step != "before-OPTIONS" {
							_, _ = peer.Write(encode(frame.NewFrame(v, 1, &message.Options{})))
							_ = peer.SetReadDeadline(time.Now().Add(2 * time.Second))
							_, _ = codec.DecodeFrame(peer)
						}
						if step == "after-AUTHENTICATE-before-AUTH_RESPONSE" {
							_, _ = peer.Write(encode(frame.NewFrame(v, 2, message.NewStartup())))
							_ = peer.SetReadDeadline(time.Now().Add(2 * time.Second))
							_, _ = codec.DecodeFrame(peer)
						}
						time.Sleep(20 * time.Millisecond)
						if how == "peer-loss" {
							_ = peer.Close()
						} else {
							go func() { _ = sc.Close() }()
						}
						select {
						case <-returned:
						case <-time.After(handshakeWait):
							hang("CqlServerConnection.AcceptHandshake()")
						}
					})
				}
			}
			// ---- InitiateHandshake against a raw server
			csteps := []string{"before-the-answer-to-STARTUP"}
			if auth {
				csteps = append(csteps, "after-AUTHENTICATE")
			}
			for _, step := range csteps {
				step := step
				run(fmt.Sprintf("InitiateHandshake v%d auth=%v step=%s fault=peer-loss", v, auth, step), func(hang func(string)) {
					l, err := net.Listen("tcp", "127.0.0.1:0")
					if err != nil {
						return
					}
					defer l.Close()
					go func() {
						peer, err := l.Accept()
						if err != nil {
							return
						}
						defer peer.Close()
						_ = peer.SetReadDeadline(time.Now().Add(2 * time.Second))
						req, err := frame.NewCodec().DecodeFrame(peer)
						if err != nil {
							return
						}
						if step == "after-AUTHENTICATE" {
							_, _ = peer.Write(encode(frame.NewFrame(v, req.Header.StreamId, &message.Authenticate{Authenticator: "org.apache.cassandra.auth.PasswordAuthenticator"})))
							time.Sleep(20 * time.Millisecond)
						}
					}()
					clt := client.NewCqlClient(l.Addr().String(), cr)
					clt.ReadTimeout = 1500 * time.Millisecond
					cc, err := clt.Connect(context.Background())
					if err != nil {
						return
					}
					defer func() { within(3*time.Second, func() { _ = cc.Close() }) }()
					if !within(handshakeWait, func() { _ = cc.InitiateHandshake(v, client.ManagedStreamId) }) {
						hang("CqlClientConnection.InitiateHandshake()")
					}
				})
			}
			// ---- PerformHandshake with one end closed before or during the call
			for _, victim := range []string{"server-connection", "client-connection", "server-socket"} {
				for _, delay := range []time.Duration{0, 200 * time.Microsecond, time.Millisecond} {
					victim, delay := victim, delay
					run(fmt.Sprintf("PerformHandshake v%d auth=%v closed=%s after=%v", v, auth, victim, delay), func(hang func(string)) {
						addr := freeAddr()
						server := client.NewCqlServer(addr, cr)
						clt := client.NewCqlClient(addr, cr)
						clt.ReadTimeout = 1500 * time.Millisecond
						ctx, cancel := context.WithCancel(context.Background())
						defer cancel()
						if err := server.Start(ctx); err != nil {
							return
						}
						defer func() { within(3*time.Second, func() { _ = server.Close() }) }()
						cc, sc, err := server.Bind(clt, ctx)
						if err != nil {
							return
						}
						defer func() { within(3*time.Second, func() { _ = cc.Close(); _ = sc.Close() }) }()
						fault := func() {
							switch victim {
							case "server-connection":
								_ = sc.Close()
							case "client-connection":
								_ = cc.Close()
							default:
								_ = sc.GetConn().Close()
							}
						}
						if delay == 0 {
							within(3*time.Second, fault)
						} else {
							go func() { time.Sleep(delay); fault() }()
						}
						if !within(handshakeWait, func() { _ = client.PerformHandshake(cc, sc, v, client.ManagedStreamId) }) {
							hang("client.PerformHandshake()")
						}
					})
				}
			}
			// ---- BindAndInit while every accepted server connection is closed at once
			run(fmt.Sprintf("BindAndInit v%d auth=%v every accepted server connection closed at once", v, auth), func(hang func(string)) {
				addr := freeAddr()
				server := client.NewCqlServer(addr, cr)
				server.AcceptTimeout = time.Second // Accept of a connection that was closed at once may legitimately wait this long
				clt := client.NewCqlClient(addr, cr)
				clt.ReadTimeout = 1500 * time.Millisecond
				ctx, cancel := context.WithCancel(context.Background())
				defer cancel()
				if err := server.Start(ctx); err != nil {
					return
				}
				defer func() { within(3*time.Second, func() { _ = server.Close() }) }()
				stop := make(chan struct{})
				defer close(stop)
				go func() {
					for {
						select {
						case <-stop:
							return
						default:
						}
						if cs, err := server.AllAcceptedClients(); err == nil {
							for _, c := range cs {
								_ = c.Close()
							}
						}
						time.Sleep(100 * time.Microsecond)
					}
				}()
				var cc *client.CqlClientConnection
				var sc *client.CqlServerConnection
				if !within(handshakeWait+4*time.Second, func() { cc, sc, _ = server.BindAndInit(clt, ctx, v, client.ManagedStreamId) }) {
					hang("CqlServer.BindAndInit()")
				}
				within(3*time.Second, func() {
					if cc != nil {
						_ = cc.Close()
					}
					if sc != nil {
						_ = sc.Close()
					}
				})
			})
		}
	}
}
