// Harness area "inflight" (C09, C10, C16): drives the REAL in-flight handler of /repo/client through the
// export shim client/verif_hooks.go (build tag verif) with operation histories, and prints
//   - per history the canonical observable (per-step outcome codes + final state) in exactly the encoding of
//     coq/model/Inflight.v `observe`, so that tools/props/C09.py can compare it with the model, and
//   - the verdicts of monitors that evaluate the properties' own predicates directly on the implementation.
//
// usage: harness-inflight hist  quick|thorough        generated histories (exhaustive small, random long, timing, conn)
//
//	harness-inflight one   '<json case>'         run a single history verbosely (replay)
//	harness-inflight perm  quick|thorough        C10: payload-tagged responses in all permutations
//	harness-inflight sock  quick|thorough        C16: scripted socket sessions, goroutine accounting; more connections than MaxConnections
//	harness-inflight race  quick|thorough        C16: Close / read timeout concurrent with traffic, each family in a child process
//	harness-inflight wire  quick|thorough        C10: real connections, v3..v5/DSE, responses in every order, header-only and coalesced frames
//	harness-inflight stress quick|thorough       concurrent senders + responder on the real handler
package main

import (
	"bytes"
	"encoding/json"
	"fmt"
	"math/rand"
	"os"
	"runtime"
	"sort"
	"strconv"
	"strings"
	"sync"
	"sync/atomic"
	"time"

	"github.com/datastax/go-cassandra-native-protocol/client"
	"github.com/datastax/go-cassandra-native-protocol/datatype"
	"github.com/datastax/go-cassandra-native-protocol/frame"
	"github.com/datastax/go-cassandra-native-protocol/message"
	"github.com/datastax/go-cassandra-native-protocol/primitive"
	"github.com/rs/zerolog"
	"verifharness/hlib"
)

// ---------------------------------------------------------------------------------------------- cases

type Case struct {
	Id      int      `json:"id"`
	Group   string   `json:"group"`
	Conn    bool     `json:"conn"`
	Level   int      `json:"level"`
	N       int      `json:"N"`
	P       int      `json:"P"`
	T       int64    `json:"T"`                 // timeout in abstract clock units
	UnitMs  int      `json:"unitMs"`            // 0: no timing (real timeout one hour, no T ops)
	Ops     []string `json:"ops"`               // run-length encoded: "M*3"
	NoModel bool     `json:"nomodel,omitempty"` // too long for the model inside coqc: monitors only
}

type Viol struct {
	Kind string `json:"kind"`
	Cls  string `json:"cls,omitempty"` // error class involved, where one is
	Step int    `json:"step"`
	What string `json:"what"`
}

type Result struct {
	Kind  string         `json:"kind"`
	Case  Case           `json:"case"`
	Obs   []int64        `json:"obs"`
	Viol  []Viol         `json:"viol"`
	Panic string         `json:"panic,omitempty"`
	Stall string         `json:"stall,omitempty"` // a call into the library did not return (watchdog)
	Stats map[string]int `json:"stats"`
}

func expand(ops []string) []string {
	var res []string
	for _, o := range ops {
		if i := strings.IndexByte(o, '*'); i >= 0 {
			n, _ := strconv.Atoi(o[i+1:])
			for j := 0; j < n; j++ {
				res = append(res, o[:i])
			}
		} else {
			res = append(res, o)
		}
	}
	return res
}

func rle(ops []string) []string {
	var res []string
	for i := 0; i < len(ops); {
		j := i
		for j < len(ops) && ops[j] == ops[i] {
			j++
		}
		if j-i >= 4 {
			res = append(res, fmt.Sprintf("%s*%d", ops[i], j-i))
		} else {
			res = append(res, ops[i:j]...)
		}
		i = j
	}
	return res
}

var errCode = map[string]int64{"closed": 1, "no-id": 2, "too-many-in-flight": 3, "in-use": 4, "unknown-id": 5, "release-failed": 6,
	"request-closed": 7, "too-many-pending": 8, "timeout": 9, "outgoing-full": 10, "other": 99, "": 0}

// ---------------------------------------------------------------------------------------------- frames

func tagOf(f *frame.Frame) int64 {
	if f == nil || f.Body == nil {
		return -1
	}
	if b, ok := f.Body.CustomPayload["t"]; ok {
		v, _ := strconv.ParseInt(string(b), 10, 64)
		return v
	}
	return -1
}

func requestFrame(k int) *frame.Frame {
	return frame.NewFrame(primitive.ProtocolVersion4, int16(k), &message.Options{})
}

// a response frame for stream id k carrying tag; last decides isLastFrame (continuous paging metadata).
// The pages take EVERY shape the codec supports, chosen by the tag: DSE v1 / DSE v2, with and without a paging state,
// with column specifications or NO_METADATA, and (DSE v2) with and without a new result metadata id; page numbers
// 1..1000. The frame is ENCODED AND DECODED by the real frame codec before it is handed to the code under study, so
// the message-level helpers (RowsMetadata.Flags, the RESULT codec) take part in what isLastFrame sees.
func pageShape(tag int64) (v primitive.ProtocolVersion, meta *message.RowsMetadata, what string) {
	v = primitive.ProtocolVersionDse2
	if tag%7 == 3 {
		v = primitive.ProtocolVersionDse1
	}
	meta = &message.RowsMetadata{ColumnCount: 0, ContinuousPageNumber: int32(tag%1000) + 1}
	what = fmt.Sprintf("%v page %d", v, meta.ContinuousPageNumber)
	if tag%2 == 1 {
		meta.PagingState = []byte{0xca, 0xfe}
		what += " +paging-state"
	}
	if tag%3 == 1 && v == primitive.ProtocolVersionDse2 {
		meta.NewResultMetadataId = []byte{1, 2, 3, 4}
		what += " +new-metadata-id"
	}
	if tag%4 == 2 {
		meta.ColumnCount = 1
		meta.Columns = []*message.ColumnMetadata{{Keyspace: "ks", Table: "t", Name: "c", Type: datatype.Int}}
		what += " +columns"
	} else {
		what += " no-metadata"
	}
	return
}

var responseCodec = frame.NewCodec()

func responseFrame(k int, last bool, tag int64) *frame.Frame {
	var msg message.Message
	v := primitive.ProtocolVersionDse2
	if !last {
		var meta *message.RowsMetadata
		v, meta, _ = pageShape(tag)
		meta.LastContinuousPage = false
		msg = &message.RowsResult{Metadata: meta, Data: message.RowSet{}}
	} else {
		switch tag % 5 {
		case 0:
			msg = &message.VoidResult{}
		case 1:
			var meta *message.RowsMetadata
			v, meta, _ = pageShape(tag)
			meta.LastContinuousPage = true
			msg = &message.RowsResult{Metadata: meta, Data: message.RowSet{}}
		case 2:
			msg = &message.RowsResult{Metadata: &message.RowsMetadata{ColumnCount: 0}, Data: message.RowSet{}} // not continuous paging
		case 3:
			msg = &message.Ready{}
		default:
			msg = &message.Unavailable{ErrorMessage: "x", Consistency: primitive.ConsistencyLevelOne, Required: 1, Alive: 0}
		}
	}
	f := frame.NewFrame(v, int16(k), msg)
	f.SetCustomPayload(map[string][]byte{"t": []byte(strconv.FormatInt(tag, 10))})
	// through the wire format and back
	buf := &bytes.Buffer{}
	if err := responseCodec.EncodeFrame(f, buf); err != nil {
		panic(fmt.Sprintf("harness: response frame does not encode (tag %d): %v", tag, err))
	}
	decoded, err := responseCodec.DecodeFrame(buf)
	if err != nil {
		panic(fmt.Sprintf("harness: response frame does not decode (tag %d): %v", tag, err))
	}
	return decoded
}

// describeResponse says what was sent, for the verdict
func describeResponse(last bool, tag int64) string {
	if !last || tag%5 == 1 {
		_, _, what := pageShape(tag)
		return fmt.Sprintf("continuous page (%s), LastContinuousPage=%v as sent", what, last)
	}
	return []string{"RESULT Void", "", "RESULT Rows without continuous paging", "READY", "ERROR Unavailable"}[tag%5]
}

func eventFrame(tag int64) *frame.Frame {
	f := frame.NewFrame(primitive.ProtocolVersion4, -1, &message.StatusChangeEvent{ChangeType: primitive.StatusChangeTypeUp, Address: &primitive.Inet{Addr: []byte{127, 0, 0, 1}, Port: 9042}})
	f.Body.CustomPayload = map[string][]byte{"t": []byte(strconv.FormatInt(tag, 10))}
	return f
}

// ---------------------------------------------------------------------------------------------- running one history

type handle struct {
	r        client.InFlightRequest
	sid      int
	managed  bool
	got      []int64 // tags taken by R ops, then drained at the end
	consumed int
	expect   []int64 // monitor: tags the property says this request must receive
	answered bool    // monitor: its final frame has arrived
	finalOk  bool    // monitor: the final frame was handed over without error
	dead     bool    // monitor: the request was failed (timeout, overflow, close) before that delivery
	// timing histories only (harness clock, never the library's):
	armStep  int       // step of the last event that (re)starts the read timeout: acceptance, or a page addressed to it
	armBegin time.Time // when that step began (the library's own re-arm cannot be earlier)
	armEnd   time.Time // when that step ended (nor later)
	tainted  bool      // two such events were timeout/2 or more apart: "timeout-early" is not judged on this request
	toSeen   bool      // its timeout error has been seen (and judged) already
}

// the monitor's own book of accepted requests whose final frame has not arrived, per stream id in order of
// acceptance. The code under study never lets a second one in (C09); if it does, the responses that follow on that
// id answer the OLDEST of them first - that is the request the peer saw first.
type shadowBook struct {
	byId map[int][]*handle
	n    int
}

func (b *shadowBook) count() int { return b.n }

func (b *shadowBook) oldest(id int) *handle {
	if l := b.byId[id]; len(l) > 0 {
		return l[0]
	}
	return nil
}

func (b *shadowBook) add(id int, h *handle) {
	b.byId[id] = append(b.byId[id], h)
	b.n++
}

func (b *shadowBook) answer(id int) {
	if l := b.byId[id]; len(l) > 1 {
		b.byId[id] = l[1:]
		b.n--
	} else if len(l) == 1 {
		delete(b.byId, id)
		b.n--
	}
}

// runCase runs one history; a timing history whose own clock readings show that the machine did not keep the
// schedule (see `disturbed` below) is run again, at most three times in all.
func runCase(c Case, verbose bool) Result {
	var res Result
	for attempt := 1; ; attempt++ {
		res = runCaseOnce(c, verbose)
		if res.Stats["timing-disturbed"] == 0 || attempt == 3 {
			if attempt > 1 {
				res.Stats["timing-reruns"] = attempt - 1
			}
			break
		}
	}
	if res.Stats["timing-disturbed"] > 0 {
		// three times off schedule: the model's clock says nothing about this run; the monitors still do
		res.Case.NoModel = true
	}
	return res
}

func runCaseOnce(c Case, verbose bool) (res Result) {
	res.Kind = "case"
	res.Case = c
	res.Stats = map[string]int{}
	ops := expand(c.Ops)
	res.Case.Ops = rle(ops)
	timeout := time.Hour
	unit := time.Duration(c.UnitMs) * time.Millisecond
	timing := c.UnitMs > 0
	if timing {
		timeout = time.Duration(c.T) * unit
	}
	progStep := prog.begin(&c)
	defer func() { prog.end(&c, nil) }()
	var h *client.VerifHandler
	var conn *client.VerifConn
	handledTags := []int64{}
	if c.Conn {
		conn = client.VerifNewConn(c.N, c.P, timeout, []client.EventHandler{func(ev *frame.Frame, _ *client.CqlClientConnection) {
			handledTags = append(handledTags, tagOf(ev))
		}})
		h = conn.H
	} else {
		h = client.VerifNewHandler(c.N, c.P, timeout)
	}
	var handles []*handle
	shadow := &shadowBook{byId: map[int][]*handle{}} // monitor: accepted requests whose final frame has not arrived
	closedSeen := false
	step := -1
	curCls := ""
	viol := func(kind string, format string, a ...interface{}) {
		if len(res.Viol) < 8 {
			res.Viol = append(res.Viol, Viol{Kind: kind, Cls: curCls, Step: step, What: fmt.Sprintf(format, a...)})
		}
	}
	obs := []int64{}
	// ---- harness clock of a timing history
	clock := int64(0)          // the model's clock after the current step (sum of the T arguments)
	clockAt := map[int]int64{} // model clock after step i, for the steps that (re)arm some request
	disturbed := func(format string, a ...interface{}) {
		if res.Stats["timing-disturbed"] == 0 && verbose {
			fmt.Fprintf(os.Stderr, "timing disturbed: "+format+"\n", a...)
		}
		res.Stats["timing-disturbed"]++
	}
	// The model and the code agree on a timing history as long as, for every request and every step c after the last
	// event a that (re)armed its timer: fewer than T units on the model's clock <=> less than `timeout` of real time.
	// The generator keeps the model side away from T (at most 0.3 T or at least 3 T); here the REAL side is checked with
	// the harness's own clock: [begin of a, end of c] at most 0.8 timeouts, resp. [end of a, first read of c] at least
	// 1.2 timeouts + 50 ms. A run that violates this was descheduled for too long; it proves nothing either way.
	checkSchedule := func(hd *handle, cStep int, firstRead, end time.Time) {
		if !timing || closedSeen {
			return
		}
		me := clock - clockAt[hd.armStep]
		if me < c.T {
			if d := end.Sub(hd.armBegin); d > timeout*8/10 {
				disturbed("steps %d..%d took %v on the harness clock, %d units (< T=%d) on the model's", hd.armStep, cStep, d, me, c.T)
			}
		} else {
			if d := firstRead.Sub(hd.armEnd); d < timeout*12/10+50*time.Millisecond {
				disturbed("steps %d..%d took only %v on the harness clock, %d units (>= T=%d) on the model's", hd.armStep, cStep, d, me, c.T)
			}
		}
	}
	arm := func(hd *handle, begin, end time.Time) {
		if !timing {
			return
		}
		if hd.armStep >= 0 && end.Sub(hd.armBegin) >= timeout/2 {
			hd.tainted = true
		}
		hd.armStep, hd.armBegin, hd.armEnd = step, begin, end
		clockAt[step] = clock
	}
	// C16 "not earlier while pages of its response keep arriving": a request seen failed with the timeout error less than
	// timeout/2 (harness clock, from the BEGIN of the last step that delivered a page to it or sent it, to AFTER the
	// read that saw the error) although every earlier gap between such steps was below timeout/2 as well. On a correct
	// library the timer armed at or after that begin cannot have fired before a whole timeout has passed, and the timer it
	// replaced had more than timeout/2 left when it was cancelled; load on the machine only makes the measured gaps longer.
	judgeTimeouts := func() {
		if !timing {
			return
		}
		for i, hd := range handles {
			if hd.toSeen || hd.armStep < 0 {
				continue
			}
			st := client.VerifStateOf(hd.r)
			if !st.Done {
				continue
			}
			seenAt := time.Now()
			hd.toSeen = true
			if st.ErrClass != "timeout" || hd.tainted {
				continue
			}
			// (a whole timeout, not half of one: the timer (re)started at or after armBegin cannot fire before armBegin+timeout, and
			// the one it replaced had more than timeout/2 left - not tainted - so it cannot have fired either. A library that
			// skips the restart while "enough" time is left on the old timer fails the request between timeout/2 and timeout.)
			if d := seenAt.Sub(hd.armBegin); d < timeout {
				viol("timeout-early", "request #%d (id %d) failed with the timeout error %v after step %d (%s) restarted its read timeout of %v; no two of its frames were %v or more apart (harness clock)",
					i, hd.sid, d.Round(time.Millisecond), hd.armStep, ops[hd.armStep], timeout, timeout/2)
			}
		}
	}
	defer func() {
		if p := recover(); p != nil {
			if se, ok := p.(stallError); ok {
				// ---- the watchdog: a call into the library did not return
				atomic.AddInt32(&stalledHistories, 1)
				res.Stall = se.what
				res.Case.NoModel = true // the model has no "never returns" outcome: this history is reported by the monitor alone
				res.Obs = append(obs, 98)
				res.Stats["stalled"]++
				kind := "receiver-blocked"
				switch ops[step][0] {
				case 'M', 'X', 'S':
					kind = "send-blocked"
				case 'C':
					kind = "close-hangs"
				}
				evq := ""
				if conn != nil {
					evq = fmt.Sprintf("; %d undrained EVENT frames in the events queue (capacity %d)", conn.EventsQueued(), c.N)
				}
				viol(kind, "%s did not return within %v at step %d (%s)%s", se.what, se.waited.Round(100*time.Millisecond), step, ops[step], evq)
				if kind == "receiver-blocked" {
					// the receive loop is ONE goroutine: every frame that the peer sends after this one waits behind it
					stalledAt := step
					answeredLater := map[int]bool{} // ids whose final frame is among the frames already reported
					for j := stalledAt + 1; j < len(ops); j++ {
						if k := ops[j][0]; k == 'D' || k == 'L' {
							id, _ := strconv.Atoi(ops[j][1:])
							if answeredLater[id] {
								continue
							}
							if k == 'L' {
								answeredLater[id] = true
							}
							if t := shadow.oldest(id); t != nil && !client.VerifStateOf(t.r).Done {
								step = j
								viol("delivery-failed", "response frame for id %d (step %d, %s) is never delivered to live request #%d: the receive loop is blocked in step %d (%s)%s",
									id, j, ops[j], indexOf(handles, t), stalledAt, ops[stalledAt], evq)
							}
						}
					}
					step = stalledAt
				}
			} else {
				res.Panic = fmt.Sprint(p)
				res.Obs = append(obs, 99)
				viol("panic", "panic: %v", p)
			}
		}
		// release timer goroutines (and whatever the watchdog left behind, if closing helps it)
		guardQuiet(func() {
			defer func() { _ = recover() }()
			if conn != nil {
				_ = conn.Close()
			} else {
				h.Close()
				h.CancelContext()
			}
		})
	}()
	for i, o := range ops {
		step = i
		atomic.StoreInt32(progStep, int32(i))
		curCls = ""
		kind := o[0]
		arg := 0
		if len(o) > 1 {
			arg, _ = strconv.Atoi(o[1:])
		}
		var stepObs []int64
		stepBegin := time.Now()
		firstRead := stepBegin
		switch kind {
		case 'M', 'X', 'S':
			k := arg
			if kind == 'M' {
				k = 0
			}
			f := requestFrame(k)
			var r client.InFlightRequest
			var err error
			unanswered := shadow.count()
			registeredBefore := h.InFlightLen()
			if kind == 'S' {
				guard("CqlClientConnection.Send", func() { r, err = conn.C.Send(f) })
			} else {
				guard("onOutgoingFrameEnqueued", func() { r, err = h.Enqueue(f) })
			}
			if err == nil {
				id := int(f.Header.StreamId)
				stepObs = []int64{1, int64(id)}
				hd := &handle{r: r, sid: id, managed: k == 0, armStep: -1}
				handles = append(handles, hd)
				res.Stats["accepted"]++
				// ---- monitors (C09)
				if int(r.StreamId()) != id {
					viol("id-mismatch", "request.StreamId()=%d but frame header carries %d", r.StreamId(), id)
				}
				if k == 0 && (id < 1 || id > c.N) {
					viol("id-out-of-bounds", "managed send accepted with id %d outside [1,%d]", id, c.N)
				}
				if k != 0 && id != k {
					viol("id-mismatch", "explicit send %d accepted under id %d", k, id)
				}
				if prev := shadow.oldest(id); prev != nil {
					pst := client.VerifStateOf(prev.r)
					viol("duplicate-id", "id %d given out while request #%d with the same id is unanswered (it is done=%v err=%q, its final frame has not arrived)", id, indexOf(handles, prev), pst.Done, pst.ErrClass)
				}
				if unanswered >= c.N {
					viol("over-capacity", "send accepted with %d unanswered requests (limit %d)", unanswered, c.N)
				}
				if closedSeen {
					viol("accepted-after-close", "send accepted after Close")
				}
				shadow.add(id, hd)
				arm(hd, stepBegin, time.Now())
			} else {
				cls := client.VerifErrClass(err)
				curCls = cls
				stepObs = []int64{2, errCode[cls]}
				res.Stats["refused:"+cls]++
				if k == 0 && f.Header.StreamId != 0 {
					viol("header-not-reset", "refused managed send left stream id %d in the frame header", f.Header.StreamId)
				}
				if r != nil {
					viol("refused-with-request", "refused send returned a non-nil request")
				}
				if !closedSeen && h.InFlightLen() != registeredBefore {
					viol("refused-but-registered", "send refused (%s) but %d requests are registered, %d before the call", cls, h.InFlightLen(), registeredBefore)
					// keep a handle on the orphan so that the final dump shows it (the caller never gets one)
					if orphan, ok := h.InFlightRequestAt(f.Header.StreamId); ok {
						hd := &handle{r: orphan, sid: int(f.Header.StreamId), managed: k == 0, armStep: -1}
						handles = append(handles, hd)
						shadow.add(hd.sid, hd)
						arm(hd, stepBegin, time.Now())
					}
				}
				// C09 says nothing forces acceptance below the limit except recycling (checked by the recycle group)
			}
		case 'D', 'L':
			last := kind == 'L'
			f := responseFrame(arg, last, int64(step))
			if client.VerifIsLastFrame(f) != last {
				// the frame went through the real codec: what isLastFrame decides is the library's doing
				viol("last-frame-misjudged", "isLastFrame says %v for a %s (decoded by the frame codec): the response is taken for %s",
					!last, describeResponse(last, int64(step)), map[bool]string{true: "unfinished, the request will never complete", false: "complete while more pages are due: the entry is removed and the stream id released"}[last])
			}
			// the frame answers the oldest unanswered request sent with this id
			target := shadow.oldest(arg)
			// the frame condition is checked on every request while there are few, else on the target and a window
			watch := handles
			if len(handles) > 256 {
				watch = handles[len(handles)-64:]
			}
			before := map[*handle]client.VerifRequestState{}
			for _, hd := range watch {
				before[hd] = client.VerifStateOf(hd.r)
			}
			if target != nil {
				before[target] = client.VerifStateOf(target.r)
			}
			cls := ""
			if c.Conn {
				guard("processIncomingFrame (response frame)", func() { conn.Route(f) })
				stepObs = []int64{3}
			} else {
				var err error
				guard("onIncomingFrameReceived", func() { err = h.Deliver(f) })
				cls = client.VerifErrClass(err)
				if err == nil {
					stepObs = []int64{3}
				} else {
					stepObs = []int64{4, errCode[cls]}
				}
				res.Stats["deliver:"+cls]++
			}
			if target != nil && target.armStep >= 0 {
				checkSchedule(target, step, stepBegin, time.Now()) // the delivery is itself a read of the target's timer
			}
			// ---- monitors (C10): only the request this frame answers may change, by exactly this frame
			for _, hd := range watch {
				after := client.VerifStateOf(hd.r)
				if hd == target {
					continue
				}
				if after != before[hd] {
					if target != nil && hd.sid == arg {
						viol("misrouted", "frame for id %d (tag %d) answers request #%d, the oldest unanswered request sent with id %d, but was handed to request #%d, sent later with the same id: %+v -> %+v",
							arg, step, indexOf(handles, target), arg, indexOf(handles, hd), before[hd], after)
					} else {
						viol("misrouted", "frame for id %d changed request #%d (id %d): %+v -> %+v", arg, indexOf(handles, hd), hd.sid, before[hd], after)
					}
				}
			}
			if target == nil {
				if !c.Conn && !closedSeen && cls != "unknown-id" {
					viol("unknown-id-result", "frame for unknown id %d: result class %q", arg, cls)
				}
			} else {
				i := indexOf(handles, target)
				after := client.VerifStateOf(target.r)
				bt := before[target]
				wasDead := bt.Done
				if !c.Conn && cls == "" && wasDead {
					// a request that had already failed cannot take a frame: somebody else got it (reported above) or it vanished
					if after.Queued != bt.Queued+1 {
						viol("delivery-count", "delivery of the frame for id %d reported, but request #%d, which it answers, was done (err %q) and did not receive it", arg, i, bt.ErrClass)
					} else {
						target.expect = append(target.expect, int64(step))
					}
				} else if !c.Conn && cls == "" {
					target.expect = append(target.expect, int64(step))
					if after.Queued != bt.Queued+1 {
						viol("delivery-count", "delivery reported but request #%d has %d queued frames (was %d)", i, after.Queued, bt.Queued)
					}
					if last && !(after.Done && after.ErrClass == "") {
						viol("last-not-complete", "last frame delivered but request #%d done=%v err=%q", i, after.Done, after.ErrClass)
					}
					if !last && after.Done {
						viol("early-complete", "non-final frame completed request #%d", i)
					}
				} else if c.Conn {
					if after.Queued == bt.Queued+1 {
						target.expect = append(target.expect, int64(step))
					} else if !wasDead && !closedSeen && bt.Queued < c.P {
						// processIncomingFrame only logs the handler's error: seen from outside, the frame did not arrive
						viol("delivery-failed", "frame for live request #%d, which had %d of maxPending %d frames waiting, was not delivered (request now done=%v err=%q)", i, bt.Queued, c.P, after.Done, after.ErrClass)
					}
				} else {
					if after.Queued != bt.Queued {
						viol("delivery-count", "delivery failed (%s) but queue of request #%d changed", cls, i)
					}
					if !wasDead && !closedSeen && cls != "too-many-pending" {
						viol("delivery-failed", "delivery to live request #%d failed with %q", i, cls)
					}
					// "too many pending" is the answer to page number maxPending+1 that nobody has read, not to an earlier one
					if !wasDead && !closedSeen && cls == "too-many-pending" && bt.Queued < c.P {
						viol("delivery-failed", "delivery to live request #%d failed with %q although only %d of maxPending %d frames were waiting (channel capacity %d)", i, cls, bt.Queued, c.P, bt.Capacity)
					}
				}
				if !last {
					arm(target, stepBegin, time.Now())
				}
				if last && !closedSeen {
					target.answered = true
					target.armStep = -1
					shadow.answer(arg)
				}
			}
		case 'R':
			r, found := h.InFlightRequestAt(int16(arg))
			if !found {
				stepObs = []int64{10}
			} else {
				var hd *handle
				for _, x := range handles {
					if x.r == r {
						hd = x
					}
				}
				select {
				case f, ok := <-r.Incoming():
					if ok {
						stepObs = []int64{7, tagOf(f)}
						hd.got = append(hd.got, tagOf(f))
						hd.consumed++
					} else {
						stepObs = []int64{9}
					}
				default:
					stepObs = []int64{8}
				}
			}
		case 'T':
			time.Sleep(time.Duration(arg) * unit)
			firstRead = time.Now()
			clock += int64(arg)
			stepObs = []int64{6}
		case 'C':
			if conn != nil {
				guard("CqlClientConnection.Close", func() { _ = conn.Close() })
			} else {
				guard("inFlightRequestsHandler.close", func() { h.Close() })
			}
			closedSeen = true
			stepObs = []int64{5}
			// ---- monitors (C16): every request is completed; the unanswered ones with an error
			for i, hd := range handles {
				st := client.VerifStateOf(hd.r)
				if !st.Done {
					viol("not-done-after-close", "after Close request #%d (id %d) is not done", i, hd.sid)
				}
				if !hd.answered && st.ErrClass == "" {
					viol("no-error-after-close", "after Close unanswered request #%d (id %d) has no error", i, hd.sid)
				}
				hd.toSeen = true
			}
			if n := h.InFlightLen(); n != 0 {
				viol("registered-after-close", "%d requests still registered after Close", n)
			}
		case 'E':
			before := conn.EventsQueued()
			var stBefore []client.VerifRequestState
			for _, hd := range handles {
				stBefore = append(stBefore, client.VerifStateOf(hd.r))
			}
			ev := eventFrame(int64(step))
			guard("processIncomingFrame (EVENT frame)", func() { conn.Route(ev) })
			q := int64(0)
			if conn.EventsQueued() == before+1 {
				q = 1
			}
			stepObs = []int64{11, q}
			for i, hd := range handles {
				if st := client.VerifStateOf(hd.r); st != stBefore[i] {
					viol("event-to-request", "event frame reached request #%d", i)
				}
			}
		case 'W':
			if f := conn.TakeOutgoing(); f != nil {
				stepObs = []int64{12, int64(f.Header.StreamId)}
			} else {
				stepObs = []int64{13}
			}
		default:
			panic("bad op " + o)
		}
		obs = append(obs, stepObs...)
		if verbose {
			fmt.Fprintf(os.Stderr, "step %3d %-6s -> %v   pool=%v keys=%v\n", step, o, stepObs, h.Pool(), h.InFlightKeys())
		}
		// ---- monitor: conservation (C09) on every open state
		if !closedSeen && c.N <= 64 {
			pool := h.Pool()
			seen := map[int]int{}
			for _, id := range pool {
				seen[int(id)]++
			}
			for _, k := range h.InFlightKeys() {
				if r, ok := h.InFlightRequestAt(k); ok && client.VerifStateOf(r).Managed {
					seen[int(k)]++
				}
			}
			for id := 1; id <= c.N; id++ {
				if seen[id] != 1 {
					viol("conservation", "conservation broken: id %d occurs %d times in pool + managed in-flight (pool %v)", id, seen[id], pool)
					break
				}
			}
			if len(seen) != c.N {
				viol("conservation", "conservation broken: %d distinct ids in pool + managed in-flight, want %d", len(seen), c.N)
			}
		}
		if timing {
			judgeTimeouts()
			stepEnd := time.Now()
			for _, l := range shadow.byId {
				for _, hd := range l {
					if hd.armStep >= 0 && hd.armStep < step {
						checkSchedule(hd, step, firstRead, stepEnd)
					}
				}
			}
		}
	}
	step = len(ops)
	atomic.StoreInt32(progStep, int32(step))
	dumpBegin := time.Now()
	// ---- final state, same layout as Inflight.state_code
	pool := h.Pool()
	keys := h.InFlightKeys()
	obs = append(obs, -1, b2i(h.IsClosed()), int64(len(pool)))
	for _, id := range pool {
		obs = append(obs, int64(id))
	}
	obs = append(obs, -2, int64(len(keys)))
	for _, k := range keys {
		obs = append(obs, int64(k))
	}
	var evs []int64
	var outq []int64
	if conn != nil {
		for f := conn.TakeEvent(); f != nil; f = conn.TakeEvent() {
			evs = append(evs, tagOf(f))
		}
		for f := conn.TakeOutgoing(); f != nil; f = conn.TakeOutgoing() {
			outq = append(outq, int64(f.Header.StreamId))
		}
	}
	obs = append(obs, -4, int64(len(evs)))
	obs = append(obs, evs...)
	obs = append(obs, -5, int64(len(handledTags)))
	obs = append(obs, handledTags...)
	obs = append(obs, -6, int64(len(outq)))
	obs = append(obs, outq...)
	inMap := 0
	for _, hd := range handles {
		if r, ok := h.InFlightRequestAt(int16(hd.sid)); ok && r == hd.r {
			inMap++
		}
	}
	obs = append(obs, -7, int64(len(handles)-inMap), int64(len(handles)))
	for i, hd := range handles {
		st := client.VerifStateOf(hd.r)
		r, ok := h.InFlightRequestAt(int16(hd.sid))
		in := ok && r == hd.r
		// drain what is left; then see whether the channel is closed
		chClosed := int64(0)
	drain:
		for {
			select {
			case f, ok := <-hd.r.Incoming():
				if !ok {
					chClosed = 1
					break drain
				}
				hd.got = append(hd.got, tagOf(f))
			default:
				break drain
			}
		}
		if c.Level > 0 {
			obs = append(obs, -3, int64(i), int64(hd.sid), b2i(st.Managed), b2i(in), b2i(st.Done), errCode[st.ErrClass], chClosed, int64(hd.consumed), int64(len(hd.got)))
			obs = append(obs, hd.got...)
		}
		// ---- monitors (C10 / C16): exactly the expected pages, in order; closed channel <=> done
		if !eqI(hd.got, hd.expect) {
			viol("wrong-pages", "request #%d (id %d) received %v, the frames that answer it (sent while it was the oldest unanswered request with that id) were %v", i, hd.sid, hd.got, hd.expect)
		}
		if (chClosed == 1) != st.Done {
			viol("done-vs-closed", "request #%d: channel closed=%d but IsDone()=%v", i, chClosed, st.Done)
		}
		if st.Managed != hd.managed {
			viol("managed-flag", "request #%d: managed flag %v, sent as managed=%v", i, st.Managed, hd.managed)
		}
		if !st.Done && st.ErrClass != "" {
			viol("err-without-done", "request #%d: Err() set on a request that is not done", i)
		}
	}
	if timing {
		judgeTimeouts()
		dumpEnd := time.Now()
		for _, l := range shadow.byId {
			for _, hd := range l {
				if hd.armStep >= 0 {
					checkSchedule(hd, step, dumpBegin, dumpEnd)
				}
			}
		}
	}
	res.Obs = obs
	res.Stats["handles"] = len(handles)
	return res
}

func indexOf(hs []*handle, h *handle) int {
	for i, x := range hs {
		if x == h {
			return i
		}
	}
	return -1
}

func b2i(b bool) int64 {
	if b {
		return 1
	}
	return 0
}

func eqI(a, b []int64) bool {
	if len(a) != len(b) {
		return false
	}
	for i := range a {
		if a[i] != b[i] {
			return false
		}
	}
	return true
}

// ---------------------------------------------------------------------------------------------- generators

const bigT = 1000000

func alphabet(n int, conn bool) []string {
	var a []string
	out := n + 4 // an id outside [1,N]
	if conn {
		a = append(a, "S0", "S"+strconv.Itoa(out), "W", "E", "C")
		for k := 1; k <= n; k++ {
			a = append(a, "L"+strconv.Itoa(k))
		}
		a = append(a, "D1", "L"+strconv.Itoa(out))
		return a
	}
	a = append(a, "M", "C", "X"+strconv.Itoa(out), "L"+strconv.Itoa(out), "D"+strconv.Itoa(out))
	for k := 1; k <= n; k++ {
		a = append(a, "X"+strconv.Itoa(k), "D"+strconv.Itoa(k), "L"+strconv.Itoa(k))
	}
	a = append(a, "R1")
	return a
}

// all histories over alpha of length 1..depth, in lexicographic order
func exhaustive(alpha []string, depth int, emit func([]string)) {
	var rec func(prefix []string)
	rec = func(prefix []string) {
		if len(prefix) > 0 {
			emit(append([]string(nil), prefix...))
		}
		if len(prefix) == depth {
			return
		}
		for _, o := range alpha {
			rec(append(prefix, o))
		}
	}
	rec(nil)
}

func randomHistory(rng *rand.Rand, n, length int, conn bool) []string {
	var ops []string
	live := []int{} // ids believed in flight (approximate, only steers the generator)
	others := []int{n + 1, n + 7, -3, 32767, -32768}
	if n+7 > 32767 { // stream ids are int16: stay inside the type
		others = []int{-1, -7, -3, 32767, -32768}
	}
	pick := func() int {
		if len(live) > 0 && rng.Intn(10) < 8 {
			return live[rng.Intn(len(live))]
		}
		if rng.Intn(2) == 0 {
			return 1 + rng.Intn(n)
		}
		return others[rng.Intn(len(others))]
	}
	nextManaged := 1
	for len(ops) < length {
		x := rng.Intn(1000)
		switch {
		case x < 330:
			if conn {
				ops = append(ops, "S0")
			} else {
				ops = append(ops, "M")
			}
			if len(live) < n {
				live = append(live, nextManaged)
				nextManaged = nextManaged%n + 1
			}
		case x < 420:
			k := others[rng.Intn(len(others))]
			if rng.Intn(3) == 0 {
				k = 1 + rng.Intn(n)
			}
			if conn {
				ops = append(ops, "S"+strconv.Itoa(k))
			} else {
				ops = append(ops, "X"+strconv.Itoa(k))
			}
			live = append(live, k)
		case x < 570:
			ops = append(ops, "D"+strconv.Itoa(pick()))
		case x < 860:
			k := pick()
			ops = append(ops, "L"+strconv.Itoa(k))
			for i, v := range live {
				if v == k {
					live = append(live[:i], live[i+1:]...)
					break
				}
			}
		case x < 950:
			if conn {
				if rng.Intn(2) == 0 {
					ops = append(ops, "W")
				} else {
					ops = append(ops, "E")
				}
			} else {
				ops = append(ops, "R"+strconv.Itoa(pick()))
			}
		case x < 953:
			ops = append(ops, "C")
		default:
			ops = append(ops, "D"+strconv.Itoa(pick()))
		}
	}
	return ops
}

// timing histories obey: between two long ticks (T30) the short ticks add up to at most 3 units; timeout = 10 units.
// So every observation is made either <= 0.3 timeout or >= 3 timeouts after a timer was armed.
func timingHistories(rng *rand.Rand, quick bool) [][]string {
	hs := [][]string{
		{"M", "T30"},             // silence: times out
		{"M", "T1", "L1"},        // answered in time
		{"M", "T30", "L1", "M"},  // late answer frees the id
		{"M", "T30", "D1", "L1"}, // late pages are refused, the last one unregisters
		{"M", "T1", "D1", "T1", "D1", "T1", "D1", "T30"}, // pages keep it alive, then silence
		{"M", "D1", "T30", "C"},                          // one page, silence, Close (F11 scenario)
		{"M", "D1", "T30", "D1", "L1", "C"},
		{"M", "M", "T2", "L1", "T30", "L2", "C"},
		{"X7", "T30", "X7", "L7", "X7", "T1", "L7"}, // timed-out explicit id stays registered until its last frame
		{"M", "M", "M", "T30", "M", "L1", "M", "C"},
		{"M", "T1", "C", "T30"},
		{"M", "D1", "D1", "D1", "T30", "R1", "R1", "R1", "R1"}, // overflow (P=2) then silence
	}
	n := 8
	if !quick {
		n = 40
	}
	for i := 0; i < n; i++ {
		var ops []string
		short := 0
		length := 6 + rng.Intn(8)
		for len(ops) < length {
			switch x := rng.Intn(100); {
			case x < 25:
				ops = append(ops, "M")
			case x < 32:
				ops = append(ops, "X7")
			case x < 50:
				ops = append(ops, "D"+strconv.Itoa(1+rng.Intn(2)))
			case x < 68:
				ops = append(ops, "L"+strconv.Itoa(1+rng.Intn(2)))
			case x < 72:
				ops = append(ops, "L7")
			case x < 82:
				if short < 3 {
					ops = append(ops, "T1")
					short++
				}
			case x < 95:
				ops = append(ops, "T30")
				short = 0
			case x < 97:
				ops = append(ops, "C")
			default:
				ops = append(ops, "R1")
			}
		}
		hs = append(hs, ops)
	}
	return hs
}

// ---- id reuse while the earlier request is done but unanswered (C09 last clause, C10 "id reuse racing with a late page")
//
// Request A is sent with a caller-chosen id k (or gets k from the pool), then fails WITHOUT its final frame: its
// maxPending+1-th waiting page closes it (overflow), or - in the timing variant - the read timeout does. A stays
// registered under k, so sending B with the same explicit id k must be refused; the late frames for k that follow
// belong to A (they are refused: request closed) and the final one frees k.

// overflowPrefix: send A, then p+1 pages nobody reads
func overflowPrefix(sendA string, k, p int) []string {
	ops := []string{sendA}
	for i := 0; i <= p; i++ {
		ops = append(ops, "D"+strconv.Itoa(k))
	}
	return ops
}

func reuseDirected(conn bool) []Case {
	var cases []Case
	send := "X"
	if conn {
		send = "S"
	}
	g := "reuse-overflow"
	if conn {
		g += "-conn"
	}
	for _, n := range []int{2, 3} {
		for _, p := range []int{1, 2} {
			for _, variant := range []string{"explicit-in", "explicit-out", "managed"} {
				k := 1
				sendA := send + "1"
				switch variant {
				case "explicit-out":
					k = n + 4
					sendA = send + strconv.Itoa(k)
				case "managed":
					sendA = "M"
					if conn {
						sendA = "S0"
					}
				}
				ks := strconv.Itoa(k)
				B := send + ks
				tails := [][]string{
					{B, "L" + ks, "L" + ks},                               // B, the late final frame of A, B's own answer
					{B, "D" + ks, "L" + ks, B, "L" + ks},                  // a late page, then the late final frame, then k is free
					{B, B, "L" + ks, B, "D" + ks, "L" + ks},               // refused twice, free after A's answer, B answered in two frames
					{"M", B, "L" + ks, "M", B, "L" + ks, "L2"},            // other traffic in between
					{B, "R" + ks, "L" + ks, "R" + ks, "R" + ks, "L" + ks}, // with a reader on whatever is registered under k
				}
				if conn {
					tails = append(tails, []string{B, "W", "L" + ks, "W", B, "L" + ks, "W"})
				}
				for _, t := range tails {
					var ops []string
					for _, o := range append(overflowPrefix(sendA, k, p), t...) {
						if conn && o == "M" {
							o = "S0"
						}
						ops = append(ops, o)
					}
					cases = append(cases, Case{Group: g, Conn: conn, Level: 1, N: n, P: p, T: bigT, Ops: ops})
				}
			}
		}
	}
	return cases
}

// the same with the read timeout instead of overflow (real time: timeout 10 units of 50 ms; generator rule of the
// timing family: every observation at most 0.3 or at least 3 timeouts after a timer was armed)
func reuseTiming() []Case {
	hs := [][]string{
		{"X7", "T30", "X7", "L7", "L7"},
		{"X7", "T30", "X7", "D7", "L7", "X7", "T1", "L7"},
		{"X1", "T30", "X1", "M", "L1", "L2", "L1"},
		{"M", "T30", "X1", "L1", "L1", "M"},
		{"M", "D1", "T30", "X1", "D1", "R1", "L1", "X1", "L1"},
		{"X2", "X3", "T30", "X3", "X2", "L2", "L3", "T1", "L2", "L3"},
	}
	var cases []Case
	for _, ops := range hs {
		cases = append(cases, Case{Group: "reuse-timeout", Level: 1, N: 3, P: 2, T: 10, UnitMs: 50, Ops: ops})
	}
	for _, ops := range [][]string{{"S7", "T30", "S7", "L7", "L7"}, {"S0", "T30", "S1", "W", "D1", "L1", "S1", "L1"}} {
		cases = append(cases, Case{Group: "reuse-timeout-conn", Conn: true, Level: 1, N: 3, P: 2, T: 10, UnitMs: 50, Ops: ops})
	}
	return cases
}

// random histories biased towards explicit ids inside [1,N], small maxPending (overflow is frequent) and few final frames
func reuseRandom(rng *rand.Rand, n, length int, conn bool) []string {
	var ops []string
	send := "X"
	if conn {
		send = "S"
	}
	id := func() string { return strconv.Itoa(1 + rng.Intn(n+1)) } // n+1: one id outside the managed range
	for len(ops) < length {
		switch x := rng.Intn(100); {
		case x < 28:
			ops = append(ops, send+id())
		case x < 36:
			if conn {
				ops = append(ops, "S0")
			} else {
				ops = append(ops, "M")
			}
		case x < 70:
			ops = append(ops, "D"+id())
		case x < 86:
			ops = append(ops, "L"+id())
		case x < 96:
			if conn {
				ops = append(ops, []string{"W", "E"}[rng.Intn(2)])
			} else {
				ops = append(ops, "R"+id())
			}
		case x < 97:
			ops = append(ops, "C")
		default:
			ops = append(ops, "L"+id())
		}
	}
	return ops
}

// ---- more server-pushed events than the events queue holds (capacity maxInFlight) while nobody drains it,
// interleaved with responses (C10: the events beyond the capacity are dropped, the responses behind them arrive)
func floodCases() []Case {
	var cases []Case
	rep := func(o string, n int) []string {
		var r []string
		for i := 0; i < n; i++ {
			r = append(r, o)
		}
		return r
	}
	cat := func(ls ...[]string) []string {
		var r []string
		for _, l := range ls {
			r = append(r, l...)
		}
		return r
	}
	for _, n := range []int{1, 2, 3} {
		var answers, sends []string
		for k := 1; k <= n; k++ {
			sends = append(sends, "S0")
			answers = append(answers, "L"+strconv.Itoa(k))
		}
		cases = append(cases,
			Case{Group: "flood-conn", Conn: true, Level: 1, N: n, P: 2, T: bigT, Ops: cat(sends, rep("E", n+1), answers, []string{"S0", "L1"})},
			Case{Group: "flood-conn", Conn: true, Level: 1, N: n, P: 2, T: bigT, Ops: cat(sends, rep("E", n), []string{"D1"}, rep("E", 2), answers, rep("E", 1), sends, answers)},
			Case{Group: "flood-conn", Conn: true, Level: 1, N: n, P: 2, T: bigT, Ops: cat(rep("E", n+2), sends, rep("W", n), answers)})
	}
	return cases
}

// ---- a multi-page response whose pages arrive at intervals well below the read timeout while the whole response
// takes well over two timeouts (C16: "not earlier while pages of its response keep arriving"). Real time: timeout
// T = 10 units of 50 ms; a page every 2 or 3 units (at most 0.3 T after the timer was restarted, the rule of the
// timing family), each read at once so that maxPending is never reached.
func pagedSlowCases(quick bool) []Case {
	page := func(gap int, k string) []string { return []string{"T" + strconv.Itoa(gap), "D" + k, "R" + k} }
	rep := func(n int, l []string) []string {
		var r []string
		for i := 0; i < n; i++ {
			r = append(r, l...)
		}
		return r
	}
	cat := func(ls ...[]string) []string {
		var r []string
		for _, l := range ls {
			r = append(r, l...)
		}
		return r
	}
	hs := []struct {
		conn bool
		ops  []string
	}{
		{false, cat([]string{"M"}, rep(4, page(3, "1")), []string{"T3", "L1", "R1"})},                                            // 15 units: the shortest response longer than one timeout
		{false, cat([]string{"M"}, rep(8, page(3, "1")), []string{"T3", "L1", "R1", "R1", "M"})},                                 // 27 units: 2.7 timeouts, completed
		{false, cat([]string{"M"}, rep(12, page(2, "1")), []string{"T2", "L1", "R1"})},                                           // 26 units, a page every 0.2 timeouts
		{false, cat([]string{"X7"}, rep(8, page(3, "7")), []string{"T30", "R7", "X7", "L7"})},                                    // kept alive for 2.4 timeouts, then silence: times out
		{false, cat([]string{"M", "M"}, rep(8, []string{"T2", "D1", "R1", "T1", "D2", "R2"}), []string{"T2", "L1", "T1", "L2"})}, // two responses interleaved
		{true, cat([]string{"S0", "W"}, rep(8, page(3, "1")), []string{"T3", "L1", "R1", "S0"})},                                 // through processIncomingFrame
		{false, []string{"M", "T4", "D1", "R1", "T7", "R1", "L1", "R1"}},                                                         // an early page, then 0.7 timeouts of silence: 1.1 timeouts after sending, still alive
		{false, []string{"M", "T2", "D1", "R1", "T2", "D1", "R1", "T8", "R1", "L1", "R1"}},                                       // two early pages (0.2, 0.4), then 0.8 timeouts of silence
	}
	if !quick {
		hs = append(hs, struct {
			conn bool
			ops  []string
		}{false, cat([]string{"M"}, rep(20, page(3, "1")), []string{"T3", "L1", "R1"})}, // 6.3 timeouts
			struct {
				conn bool
				ops  []string
			}{false, cat([]string{"M", "X9"}, rep(10, []string{"T1", "D1", "R1", "T2", "D9", "R9"}), []string{"T30", "R1", "R9", "L1", "L9"})})
	}
	var cases []Case
	for _, h := range hs {
		g := "timing-paged"
		if h.conn {
			g += "-conn"
		}
		cases = append(cases, Case{Group: g, Conn: h.conn, Level: 1, N: 3, P: 2, T: 10, UnitMs: 50, Ops: h.ops})
	}
	return cases
}

func genHist(tier string) []Case {
	quick := tier != "thorough"
	rng := rand.New(rand.NewSource(hlib.Seed()))
	var cases []Case
	add := func(c Case) {
		c.Id = len(cases)
		cases = append(cases, c)
	}
	type ex struct {
		n, p, depth int
		conn        bool
	}
	exs := []ex{{1, 1, 4, false}, {2, 1, 3, false}, {2, 2, 3, false}, {3, 1, 3, false}, {1, 1, 4, true}, {2, 1, 3, true}}
	if !quick {
		exs = []ex{{1, 1, 5, false}, {1, 2, 4, false}, {2, 1, 4, false}, {2, 2, 4, false}, {3, 1, 4, false}, {3, 2, 3, false}, {1, 1, 5, true}, {2, 1, 4, true}, {3, 2, 3, true}}
	}
	for _, e := range exs {
		g := fmt.Sprintf("exh-N%d-P%d-d%d", e.n, e.p, e.depth)
		if e.conn {
			g += "-conn"
		}
		exhaustive(alphabet(e.n, e.conn), e.depth, func(ops []string) {
			add(Case{Group: g, Conn: e.conn, Level: 1, N: e.n, P: e.p, T: bigT, Ops: ops})
		})
	}
	// random long histories
	type rd struct {
		n, p, length, count int
	}
	rds := []rd{{1, 1, 40, 20}, {2, 2, 60, 30}, {3, 1, 80, 30}, {4, 3, 120, 30}, {8, 10, 200, 20}, {100, 2, 600, 6}, {1024, 10, 3000, 2}}
	if !quick {
		rds = []rd{{1, 1, 60, 200}, {2, 2, 100, 300}, {3, 1, 150, 300}, {4, 3, 200, 300}, {8, 10, 400, 200}, {100, 2, 2000, 40}, {1024, 10, 8000, 8}, {32767, 10, 4000, 4}}
	}
	for _, r := range rds {
		for i := 0; i < r.count; i++ {
			conn := i%5 == 4
			add(Case{Group: fmt.Sprintf("rand-N%d", r.n), Conn: conn, Level: 1, N: r.n, P: r.p, T: bigT, Ops: randomHistory(rng, r.n, r.length, conn)})
		}
	}
	// the whole id space: fill, refuse, answer in a scrambled order, refill (level 0 dump: pool, keys)
	for _, n := range []int{5, 600, 32767} {
		ops := []string{fmt.Sprintf("M*%d", n), "M", "X" + strconv.Itoa(n/2+1), "X-5"}
		perm := rng.Perm(n)
		cnt := n
		if n > 2000 {
			cnt = 1500
		}
		for _, i := range perm[:cnt] {
			ops = append(ops, "L"+strconv.Itoa(i+1))
		}
		ops = append(ops, fmt.Sprintf("M*%d", cnt), "M", "L1", "M", "C", "M")
		// the model inside coqc is quadratic in the number of registered requests: the full 32767 fill runs on the
		// implementation only (monitors); the model follows a partial fill of the same handler size
		add(Case{Group: fmt.Sprintf("fill-N%d", n), Level: 0, N: n, P: 3, T: bigT, Ops: ops, NoModel: n > 2000})
		if n > 2000 {
			part := 1200
			ops := []string{fmt.Sprintf("M*%d", part), "X7", "X-5", "X" + strconv.Itoa(n)}
			for _, i := range rng.Perm(part)[:800] {
				ops = append(ops, "L"+strconv.Itoa(i+1))
			}
			ops = append(ops, "M*900", "L7", "L5", "M*3", "C", "M")
			add(Case{Group: fmt.Sprintf("part-N%d", n), Level: 0, N: n, P: 3, T: bigT, Ops: ops})
		}
	}
	// witnesses of defects (repaired or listed): the former F9 history, the F12 history, the former F11 history
	add(Case{Group: "witness-F9", Level: 1, N: 2, P: 2, T: bigT, Ops: []string{"X5", "X6", "M", "L5", "M", "M", "M"}})
	add(Case{Group: "witness-F12-conn", Conn: true, Level: 1, N: 1, P: 1, T: bigT, Ops: []string{"S0", "L1", "S0", "S0", "L1", "S0"}})
	add(Case{Group: "witness-F11", Level: 1, N: 3, P: 2, T: 10, UnitMs: 50, Ops: []string{"M", "D1", "T30", "C"}})
	// timing
	for _, ops := range timingHistories(rng, quick) {
		add(Case{Group: "timing", Level: 1, N: 3, P: 2, T: 10, UnitMs: 50, Ops: ops})
	}
	// ---- families added after the seeded changes C10-a, C10-b, C16-a
	// id reuse while the earlier request is done but unanswered: directed, every continuation to a depth, random, timing
	for _, c := range reuseDirected(false) {
		add(c)
	}
	for _, c := range reuseDirected(true) {
		add(c)
	}
	depth := 3
	if !quick {
		depth = 4
	}
	for _, pre := range []struct {
		name string
		n, p int
		ops  []string
	}{{"X", 2, 1, overflowPrefix("X1", 1, 1)}, {"M", 2, 1, overflowPrefix("M", 1, 1)}, {"X-P2", 3, 2, overflowPrefix("X2", 2, 2)}} {
		if quick && pre.name == "X-P2" {
			depth = 2
		}
		k := pre.ops[1][1:]
		alpha := []string{"X" + k, "M", "D" + k, "L" + k, "R" + k, "X3", "L3", "C"}
		g := fmt.Sprintf("exh-reuse-%s-d%d", pre.name, depth)
		exhaustive(alpha, depth, func(ops []string) {
			add(Case{Group: g, Level: 1, N: pre.n, P: pre.p, T: bigT, Ops: append(append([]string(nil), pre.ops...), ops...)})
		})
	}
	nrand := 30
	if !quick {
		nrand = 300
	}
	for i := 0; i < nrand; i++ {
		n := 2 + i%3
		conn := i%5 == 4
		add(Case{Group: fmt.Sprintf("rand-reuse-N%d", n), Conn: conn, Level: 1, N: n, P: 1 + i%2, T: bigT, Ops: reuseRandom(rng, n, 50+10*(i%4), conn)})
	}
	for _, c := range reuseTiming() {
		add(c)
	}
	for _, c := range floodCases() {
		add(c)
	}
	for _, c := range pagedSlowCases(quick) {
		add(c)
	}
	return cases
}

func runAll(cases []Case, tier string) {
	// timing cases sleep: run them concurrently; everything else sequentially (deterministic, fast).
	// Directed families run first (their case numbers do not change): if the library hangs, the watchdog gives up
	// after maxStalls stalled histories, and the ones it has seen by then should be the telling ones.
	results := make([]*Result, len(cases))
	prog.mu.Lock()
	prog.total = len(cases)
	prog.mu.Unlock()
	// generous: the quick run takes 5-25 s, up to a minute on a machine loaded three times over; the check itself gives
	// the harness 30 minutes, and this deadline has to report before that one kills
	limit := 12 * time.Minute
	if tier == "thorough" {
		limit = 28 * time.Minute
	}
	processDeadline(limit)
	finish := func(i int, r Result) {
		results[i] = &r
		prog.end(&cases[i], &r)
	}
	gaveUp := func() bool { return atomic.LoadInt32(&stalledHistories) >= maxStalls }
	var wg sync.WaitGroup
	sem := make(chan struct{}, 24)
	for i, c := range cases {
		if c.UnitMs > 0 {
			wg.Add(1)
			go func(i int, c Case) {
				defer wg.Done()
				sem <- struct{}{}
				defer func() { <-sem }()
				if gaveUp() {
					return
				}
				finish(i, runCase(c, false))
			}(i, c)
		}
	}
	order := make([]int, 0, len(cases))
	for pass := 0; pass < 2; pass++ {
		for i, c := range cases {
			directed := strings.HasPrefix(c.Group, "flood-") || strings.HasPrefix(c.Group, "reuse-") || strings.HasPrefix(c.Group, "witness-")
			if c.UnitMs == 0 && directed == (pass == 0) {
				order = append(order, i)
			}
		}
	}
	for _, i := range order {
		if gaveUp() {
			break
		}
		finish(i, runCase(cases[i], false))
	}
	wg.Wait()
	prog.mu.Lock()
	if prog.emitted { // the process deadline is printing: leave it to that
		prog.mu.Unlock()
		select {}
	}
	prog.emitted = true
	prog.mu.Unlock()
	skipped := 0
	for _, r := range results {
		if r == nil {
			skipped++
		} else {
			hlib.Emit(*r)
		}
	}
	if skipped > 0 {
		hlib.Emit(abortRec{Kind: "aborted", Why: "stalled-histories", Skipped: skipped, Stalls: int(atomic.LoadInt32(&stalledHistories)),
			What: fmt.Sprintf("a call into the library did not return in %d histories (each is reported with its step); the remaining %d histories were not run", atomic.LoadInt32(&stalledHistories), skipped)})
	}
}

// ---------------------------------------------------------------------------------------------- C10: permutations

type predRec struct {
	Kind     string        `json:"kind"`
	Name     string        `json:"name"`
	Checked  int           `json:"checked"`
	Distinct int           `json:"distinct"`
	Failures []interface{} `json:"failures"`
}

func permutations(n int) [][]int {
	if n == 0 {
		return [][]int{{}}
	}
	var res [][]int
	for _, p := range permutations(n - 1) {
		for i := 0; i <= len(p); i++ {
			q := append(append(append([]int{}, p[:i]...), n-1), p[i:]...)
			res = append(res, q)
		}
	}
	return res
}

// k outstanding managed requests, each answered by `pages` frames; the frames of different requests are delivered in
// every interleaving that is a permutation of the requests repeated page by page (round r delivers page r of each
// request in the permuted order), plus every full permutation of final frames for pages=1.
func permCases(tier string) []Case {
	var cases []Case
	maxK := 4
	if tier == "thorough" {
		maxK = 5
	}
	for k := 1; k <= maxK; k++ {
		for _, pages := range []int{1, 2, 3} {
			for _, perm := range permutations(k) {
				for _, withNoise := range []bool{false, true} {
					ops := []string{fmt.Sprintf("M*%d", k)}
					for pg := 1; pg <= pages; pg++ {
						for _, i := range perm {
							kind := "D"
							if pg == pages {
								kind = "L"
							}
							ops = append(ops, kind+strconv.Itoa(i+1))
							if withNoise {
								ops = append(ops, "L"+strconv.Itoa(k+3)) // spurious response
							}
						}
					}
					ops = append(ops, fmt.Sprintf("M*%d", k))
					cases = append(cases, Case{Id: len(cases), Group: fmt.Sprintf("perm-k%d-p%d", k, pages), Level: 1, N: k, P: pages, T: bigT, Ops: ops})
				}
			}
		}
	}
	// maxInFlight < maxPending: responses of more than maxInFlight and up to maxPending pages that nobody reads before the last
	// one has arrived (every page must be kept), then one page too many; through the handler and through processIncomingFrame
	for _, n := range []int{1, 2, 3} {
		for _, p := range []int{n + 1, n + 3} {
			for _, conn := range []bool{false, true} {
				send := "M"
				if conn {
					send = "S0"
				}
				for pages := n + 1; pages <= p; pages++ {
					var ops []string
					for i := 0; i < n; i++ {
						ops = append(ops, send)
					}
					for pg := 1; pg < pages; pg++ { // round robin over the n requests
						for k := 1; k <= n; k++ {
							ops = append(ops, "D"+strconv.Itoa(k))
						}
					}
					for k := n; k >= 1; k-- {
						ops = append(ops, "L"+strconv.Itoa(k))
					}
					ops = append(ops, send, "D1")
					for i := 0; i < p; i++ {
						ops = append(ops, "D1") // the last of these is page maxPending+1
					}
					ops = append(ops, "L1")
					g := "perm-wide"
					if conn {
						g += "-conn"
					}
					cases = append(cases, Case{Id: len(cases), Group: g, Conn: conn, Level: 1, N: n, P: p, T: bigT, Ops: ops})
				}
			}
		}
	}
	// pages = maxPending + 1 without a consumer: overflow closes exactly that request
	for k := 1; k <= 3; k++ {
		for _, perm := range permutations(k) {
			ops := []string{fmt.Sprintf("M*%d", k)}
			for pg := 1; pg <= 3; pg++ {
				for _, i := range perm {
					ops = append(ops, "D"+strconv.Itoa(i+1))
				}
			}
			for _, i := range perm {
				ops = append(ops, "L"+strconv.Itoa(i+1))
			}
			cases = append(cases, Case{Id: len(cases), Group: "perm-overflow", Level: 1, N: k, P: 2, T: bigT, Ops: ops})
		}
	}
	return cases
}

// ---------------------------------------------------------------------------------------------- main

func subDeadline(tier string) time.Duration {
	if tier == "thorough" {
		return 28 * time.Minute
	}
	return 12 * time.Minute
}

func main() {
	zerolog.SetGlobalLevel(zerolog.Disabled)
	defer hlib.Flush()
	if len(os.Args) < 2 {
		fmt.Fprintln(os.Stderr, "usage: harness-inflight hist|one|perm|sock|stress ...")
		os.Exit(2)
	}
	tier := "quick"
	if len(os.Args) > 2 {
		tier = os.Args[2]
	}
	switch os.Args[1] {
	case "hist":
		which := "all"
		if len(os.Args) > 3 {
			which = os.Args[3]
		}
		all := genHist(tier)
		for _, c := range permCases(tier) {
			c.Id = len(all)
			all = append(all, c)
		}
		var sel []Case
		for _, c := range all {
			g := c.Group
			isConn := strings.HasSuffix(g, "-conn")
			keep := false
			switch which {
			case "all":
				keep = true
			case "c09":
				keep = (strings.HasPrefix(g, "exh-") && !isConn) || strings.HasPrefix(g, "rand-") || strings.HasPrefix(g, "fill-") || strings.HasPrefix(g, "part-") || g == "witness-F9" || g == "witness-F12-conn" ||
					strings.HasPrefix(g, "reuse-")
			case "c10":
				keep = strings.HasPrefix(g, "perm-") || isConn || (strings.HasPrefix(g, "rand-") && c.Conn) ||
					strings.HasPrefix(g, "reuse-") || strings.HasPrefix(g, "exh-reuse-") || strings.HasPrefix(g, "rand-reuse-") || strings.HasPrefix(g, "timing-paged")
			case "c16":
				keep = g == "timing" || g == "witness-F11" || strings.HasPrefix(g, "exh-N2-P1") || g == "rand-N2" || g == "rand-N3" ||
					strings.HasPrefix(g, "timing-paged") || strings.HasPrefix(g, "reuse-timeout") || g == "flood-conn"
			}
			if keep {
				sel = append(sel, c)
			}
		}
		runAll(sel, tier)
	case "one":
		var c Case
		if err := json.Unmarshal([]byte(os.Args[2]), &c); err != nil {
			fmt.Fprintln(os.Stderr, err)
			os.Exit(2)
		}
		hlib.Emit(runCase(c, true))
	case "sock":
		processDeadline(subDeadline(tier)) // every wait inside is bounded; this is the last resort
		sockSessions(tier)
		acceptSessions(tier)
		lifecycleSessions(tier)
		observations() // last: what they observe may leave goroutines behind
	case "race":
		processDeadline(subDeadline(tier))
		runRaces(tier)
	case "racechild":
		ms, _ := strconv.ParseInt(os.Args[3], 10, 64)
		raceChild(os.Args[2], ms)
	case "wire":
		processDeadline(subDeadline(tier))
		wireSessions(tier)
	case "stress":
		processDeadline(subDeadline(tier))
		stress(tier)
	default:
		os.Exit(2)
	}
	_ = sort.Ints
	_ = runtime.NumGoroutine
}
