package main

// C10 at connection level ("over all versions incl. v5 segment framing"; exercised, not proved): a real
// CqlClientConnection and a real CqlServerConnection over localhost, protocol versions 3, 4, 5, DSE v1, DSE v2.
// In every round the client has three requests outstanding whose responses are distinguishable on sight:
//     QUERY    -> RESULT Void carrying the custom payload t=<round> (v4+),
//     REGISTER -> READY      (a response that is a frame header only: empty body),
//     OPTIONS  -> SUPPORTED
// and the peer (this harness, through CqlServerConnection.Receive / Send) answers them in every order (6 orders);
// a server-pushed EVENT is interleaved in half of the rounds. With segment framing (v5) two more rounds send the
// three responses coalesced into ONE self-contained segment (SendRaw), once with the header-only frame last and once
// with it first. Each request must get exactly its own response (verdict misrouted), within the read timeout
// (verdict delivery-failed: the response frame was written by the peer and never reached its request), the event must
// arrive on the event channel (verdict event-lost) and on no request.

import (
	"bytes"
	"context"
	"fmt"
	"strconv"
	"time"

	"github.com/datastax/go-cassandra-native-protocol/client"
	"github.com/datastax/go-cassandra-native-protocol/frame"
	"github.com/datastax/go-cassandra-native-protocol/message"
	"github.com/datastax/go-cassandra-native-protocol/primitive"
	"github.com/datastax/go-cassandra-native-protocol/segment"
	"verifharness/hlib"
)

type wireRound struct {
	Version   int      `json:"version"`
	Order     []string `json:"answer_order"` // response kinds in the order the peer writes them
	Event     bool     `json:"event_interleaved"`
	Coalesced bool     `json:"one_segment"` // all three responses in one self-contained segment
	Round     int      `json:"round"`
}

const wireReadTimeout = 1500 * time.Millisecond

func wireRequest(v primitive.ProtocolVersion, kind string) *frame.Frame {
	switch kind {
	case "query":
		return frame.NewFrame(v, client.ManagedStreamId, &message.Query{Query: "q", Options: &message.QueryOptions{Consistency: primitive.ConsistencyLevelOne}})
	case "register":
		return frame.NewFrame(v, client.ManagedStreamId, &message.Register{EventTypes: []primitive.EventType{primitive.EventTypeStatusChange}})
	default:
		return frame.NewFrame(v, client.ManagedStreamId, &message.Options{})
	}
}

func wireKindOfRequest(f *frame.Frame) string {
	switch f.Header.OpCode {
	case primitive.OpCodeQuery:
		return "query"
	case primitive.OpCodeRegister:
		return "register"
	case primitive.OpCodeOptions:
		return "options"
	}
	return "?"
}

func wireResponse(v primitive.ProtocolVersion, kind string, streamId int16, round int) *frame.Frame {
	var f *frame.Frame
	switch kind {
	case "query":
		f = frame.NewFrame(v, streamId, &message.VoidResult{})
		if v >= primitive.ProtocolVersion4 {
			f.SetCustomPayload(map[string][]byte{"t": []byte(strconv.Itoa(round))})
		}
	case "register":
		f = frame.NewFrame(v, streamId, &message.Ready{}) // header only
	default:
		f = frame.NewFrame(v, streamId, &message.Supported{Options: map[string][]string{"CQL_VERSION": {"3.0.0"}}})
	}
	return f
}

func wireCheck(kind string, round int, v primitive.ProtocolVersion, f *frame.Frame) string {
	switch kind {
	case "query":
		if f.Header.OpCode != primitive.OpCodeResult {
			return fmt.Sprintf("the QUERY request received a %v frame", f.Header.OpCode)
		}
		if v >= primitive.ProtocolVersion4 && string(f.Body.CustomPayload["t"]) != strconv.Itoa(round) {
			return fmt.Sprintf("the QUERY request of round %d received the RESULT tagged %q", round, f.Body.CustomPayload["t"])
		}
	case "register":
		if f.Header.OpCode != primitive.OpCodeReady {
			return fmt.Sprintf("the REGISTER request received a %v frame", f.Header.OpCode)
		}
	default:
		if f.Header.OpCode != primitive.OpCodeSupported {
			return fmt.Sprintf("the OPTIONS request received a %v frame", f.Header.OpCode)
		}
	}
	return ""
}

func wireVersion(v primitive.ProtocolVersion, rec *predRec) {
	fails := 0
	fail := func(r wireRound, kind, what string) {
		fails++
		if len(rec.Failures) < 10 {
			rec.Failures = append(rec.Failures, sockFailure{Kind: kind, What: what, Case: map[string]interface{}{"wire_round": r}})
		}
	}
	addr := freeAddr()
	server := client.NewCqlServer(addr, nil)
	clt := client.NewCqlClient(addr, nil)
	clt.ReadTimeout = wireReadTimeout
	clt.MaxInFlight = 4
	ctx, cancel := context.WithCancel(context.Background())
	defer cancel()
	if err := server.Start(ctx); err != nil {
		fail(wireRound{Version: int(v)}, "harness", "server start: "+err.Error())
		return
	}
	defer func() { within(3*time.Second, func() { _ = server.Close() }) }()
	var cc *client.CqlClientConnection
	var sc *client.CqlServerConnection
	var err error
	if !within(8*time.Second, func() { cc, sc, err = server.BindAndInit(clt, ctx, v, client.ManagedStreamId) }) || err != nil {
		fail(wireRound{Version: int(v)}, "harness", fmt.Sprintf("bind and handshake: %v", err))
		return
	}
	defer func() { within(3*time.Second, func() { _ = cc.Close(); _ = sc.Close() }) }()
	modern := v.SupportsModernFramingLayout()
	kinds := []string{"query", "register", "options"}
	var rounds []wireRound
	for i, perm := range permutations(3) {
		rounds = append(rounds, wireRound{Version: int(v), Order: []string{kinds[perm[0]], kinds[perm[1]], kinds[perm[2]]}, Event: i%2 == 1})
	}
	if modern {
		rounds = append(rounds,
			wireRound{Version: int(v), Order: []string{"query", "options", "register"}, Coalesced: true},
			wireRound{Version: int(v), Order: []string{"register", "query", "options"}, Coalesced: true, Event: true})
	}
	for ri, r := range rounds {
		r.Round = ri
		if fails >= 2 || cc.IsClosed() || sc.IsClosed() {
			break
		}
		// ---- three requests outstanding
		reqs := map[string]client.InFlightRequest{}
		ok := true
		for _, k := range kinds {
			q, err := cc.Send(wireRequest(v, k))
			if err != nil {
				fail(r, "harness", "send "+k+": "+err.Error())
				ok = false
				break
			}
			reqs[k] = q
		}
		if !ok {
			break
		}
		// ---- the peer has read all three before it answers any
		ids := map[string]int16{}
		if !within(5*time.Second, func() {
			for len(ids) < 3 {
				f, err := sc.Receive()
				if err != nil {
					return
				}
				ids[wireKindOfRequest(f)] = f.Header.StreamId
			}
		}) || len(ids) < 3 {
			fail(r, "harness", fmt.Sprintf("the peer received only %d of 3 requests", len(ids)))
			break
		}
		for _, k := range kinds {
			if ids[k] != reqs[k].StreamId() {
				fail(r, "harness", fmt.Sprintf("request %s: stream id %d on the wire, %d on the request", k, ids[k], reqs[k].StreamId()))
			}
		}
		// ---- the answers, in the order of this round
		ev := frame.NewFrame(v, -1, &message.StatusChangeEvent{ChangeType: primitive.StatusChangeTypeUp, Address: &primitive.Inet{Addr: []byte{127, 0, 0, 1}, Port: 9042}})
		if r.Coalesced {
			payload := &bytes.Buffer{}
			fc := frame.NewCodec()
			for i, k := range r.Order {
				if r.Event && i == 1 {
					_ = fc.EncodeFrame(ev, payload)
				}
				if err := fc.EncodeFrame(wireResponse(v, k, ids[k], ri), payload); err != nil {
					fail(r, "harness", "encode: "+err.Error())
				}
			}
			raw := &bytes.Buffer{}
			seg := &segment.Segment{Header: &segment.Header{IsSelfContained: true}, Payload: &segment.Payload{UncompressedData: payload.Bytes()}}
			if err := segment.NewCodec().EncodeSegment(seg, raw); err != nil {
				fail(r, "harness", "encode segment: "+err.Error())
			}
			if err := sc.SendRaw(raw.Bytes()); err != nil {
				fail(r, "harness", "send raw: "+err.Error())
			}
		} else {
			for i, k := range r.Order {
				if r.Event && i == 1 {
					if err := sc.Send(ev); err != nil {
						fail(r, "harness", "send event: "+err.Error())
					}
				}
				if err := sc.Send(wireResponse(v, k, ids[k], ri)); err != nil {
					fail(r, "harness", "send response: "+err.Error())
				}
			}
		}
		// ---- every request gets its own response
		roundOk := true
		for _, k := range kinds {
			rec.Checked++
			var f *frame.Frame
			var err error
			if !within(wireReadTimeout+3*time.Second, func() { f, err = cc.Receive(reqs[k]) }) {
				fail(r, "receiver-blocked", fmt.Sprintf("Receive on the %s request (stream id %d) did not return %v after the read timeout", k, ids[k], 3*time.Second))
				roundOk = false
				continue
			}
			if err != nil || f == nil {
				fail(r, "delivery-failed", fmt.Sprintf("the peer wrote the response to the %s request (stream id %d, %s) but the request never received it: %v",
					k, ids[k], map[string]string{"query": "RESULT Void", "register": "READY, a frame of header only", "options": "SUPPORTED"}[k], err))
				roundOk = false
				continue
			}
			if f.Header.StreamId != ids[k] {
				fail(r, "misrouted", fmt.Sprintf("the %s request (stream id %d) received a frame with stream id %d", k, ids[k], f.Header.StreamId))
				roundOk = false
			}
			if what := wireCheck(k, ri, v, f); what != "" {
				fail(r, "misrouted", what)
				roundOk = false
			}
			// exactly once: the request is complete (the handler closes it right after handing the frame over), nothing else waits on it
			q := reqs[k]
			if !within(2*time.Second, func() {
				for !q.IsDone() {
					time.Sleep(time.Millisecond)
				}
			}) {
				fail(r, "last-not-complete", fmt.Sprintf("the %s request is not complete 2s after its only response frame", k))
				roundOk = false
			} else if extra, open := <-q.Incoming(); open {
				fail(r, "wrong-pages", fmt.Sprintf("the %s request received a second frame (%v)", k, extra.Header.OpCode))
				roundOk = false
			}
		}
		if r.Event {
			var f *frame.Frame
			var err error
			if !within(wireReadTimeout+3*time.Second, func() { f, err = cc.ReceiveEvent() }) || err != nil || f == nil || f.Header.OpCode != primitive.OpCodeEvent {
				fail(r, "event-lost", fmt.Sprintf("the EVENT frame interleaved with the responses did not arrive on the event channel: %v", err))
				roundOk = false
			}
		}
		if roundOk {
			rec.Distinct++
		}
	}
}

// ---- every kind of response, every ERROR variant, to ONE of several outstanding requests. The frame must reach
// exactly the request with its stream id (C10), whatever the client does with the connection afterwards: after one of
// the fatal errors (SERVER_ERROR, PROTOCOL_ERROR, AUTH_ERROR) the client closes the connection, and then the other
// outstanding requests must be completed with an error (C16) - but the fatal ERROR frame itself is a response like
// any other and must have been handed to its request first.
type kindRound struct {
	Version  int    `json:"version"`
	Response string `json:"response"` // the message type the peer answers with
	Fatal    bool   `json:"fatal_error"`
}

func responseKinds() []message.Message {
	return []message.Message{
		&message.Ready{}, &message.Supported{Options: map[string][]string{"CQL_VERSION": {"3.0.0"}}}, &message.VoidResult{},
		&message.SetKeyspaceResult{Keyspace: "ks"}, &message.AuthChallenge{Token: []byte{1, 2}}, &message.AuthSuccess{Token: []byte{3}},
		&message.Overloaded{ErrorMessage: "e"}, &message.IsBootstrapping{ErrorMessage: "e"}, &message.TruncateError{ErrorMessage: "e"},
		&message.SyntaxError{ErrorMessage: "e"}, &message.Unauthorized{ErrorMessage: "e"}, &message.Invalid{ErrorMessage: "e"},
		&message.ConfigError{ErrorMessage: "e"},
		&message.Unavailable{ErrorMessage: "e", Consistency: primitive.ConsistencyLevelOne, Required: 2, Alive: 1},
		&message.AlreadyExists{ErrorMessage: "e", Keyspace: "ks", Table: "t"},
		&message.Unprepared{ErrorMessage: "e", Id: []byte{1, 2, 3}},
		// the fatal ones last: each needs a connection of its own
		&message.ServerError{ErrorMessage: "e"}, &message.ProtocolError{ErrorMessage: "e"}, &message.AuthenticationError{ErrorMessage: "e"},
	}
}

func wireKindsVersion(v primitive.ProtocolVersion, rec *predRec) {
	var cc *client.CqlClientConnection
	var sc *client.CqlServerConnection
	var server *client.CqlServer
	ctx, cancel := context.WithCancel(context.Background())
	defer cancel()
	open := func() error {
		addr := freeAddr()
		server = client.NewCqlServer(addr, nil)
		clt := client.NewCqlClient(addr, nil)
		clt.ReadTimeout = wireReadTimeout
		clt.MaxInFlight = 8
		if err := server.Start(ctx); err != nil {
			return err
		}
		var err error
		if !within(8*time.Second, func() { cc, sc, err = server.BindAndInit(clt, ctx, v, client.ManagedStreamId) }) {
			return fmt.Errorf("bind and handshake did not return")
		}
		return err
	}
	shut := func() {
		if cc != nil {
			within(3*time.Second, func() { _ = cc.Close(); _ = sc.Close() })
		}
		if server != nil {
			within(3*time.Second, func() { _ = server.Close() })
		}
		cc, sc, server = nil, nil, nil
	}
	defer shut()
	for _, msg := range responseKinds() {
		r := kindRound{Version: int(v), Response: fmt.Sprintf("%T", msg)}
		if e, isErr := msg.(message.Error); isErr {
			r.Fatal = e.GetErrorCode().IsFatalError()
		}
		rec.Checked++
		ok := true
		fail := func(kind, what string) {
			ok = false
			if len(rec.Failures) < 12 {
				rec.Failures = append(rec.Failures, sockFailure{Kind: kind, What: what, Case: map[string]interface{}{"response_kind_round": r}})
			}
		}
		if cc == nil || cc.IsClosed() || sc.IsClosed() {
			shut()
			if err := open(); err != nil {
				fail("harness", "open: "+err.Error())
				continue
			}
		}
		// three requests outstanding; the peer answers the second one with this kind of response
		var reqs []client.InFlightRequest
		for i := 0; i < 3; i++ {
			q, err := cc.Send(frame.NewFrame(v, client.ManagedStreamId, &message.Query{Query: "q", Options: &message.QueryOptions{Consistency: primitive.ConsistencyLevelOne}}))
			if err != nil {
				fail("harness", "send: "+err.Error())
				break
			}
			reqs = append(reqs, q)
		}
		if len(reqs) < 3 {
			continue
		}
		seen := 0
		if !within(5*time.Second, func() {
			for seen < 3 {
				if _, err := sc.Receive(); err != nil {
					return
				}
				seen++
			}
		}) || seen < 3 {
			fail("harness", fmt.Sprintf("the peer received %d of 3 requests", seen))
			continue
		}
		target := reqs[1]
		if err := sc.Send(frame.NewFrame(v, target.StreamId(), msg)); err != nil {
			fail("harness", "peer send: "+err.Error())
			continue
		}
		var f *frame.Frame
		var err error
		if !within(wireReadTimeout+3*time.Second, func() { f, err = cc.Receive(target) }) {
			fail("receiver-blocked", fmt.Sprintf("Receive on the request with stream id %d did not return", target.StreamId()))
		} else if err != nil || f == nil {
			fail("delivery-failed", fmt.Sprintf("the peer answered the request with stream id %d (second of three outstanding) with %T; the request never received that frame: %v", target.StreamId(), msg, err))
		} else if f.Header.StreamId != target.StreamId() || fmt.Sprintf("%T", f.Body.Message) != fmt.Sprintf("%T", msg) {
			fail("misrouted", fmt.Sprintf("the request with stream id %d was answered with %T and received %T on stream id %d", target.StreamId(), msg, f.Body.Message, f.Header.StreamId))
		}
		others := []client.InFlightRequest{reqs[0], reqs[2]}
		if r.Fatal {
			// the client closes the connection: the other two are completed with an error, promptly
			for _, o := range others {
				o := o
				if !within(3*time.Second, func() {
					for !o.IsDone() {
						time.Sleep(time.Millisecond)
					}
				}) {
					fail("not-done-after-close", fmt.Sprintf("after the fatal %T the client connection closed=%v, but the unanswered request with stream id %d is not done 3s later", msg, cc.IsClosed(), o.StreamId()))
				} else if o.Err() == nil {
					fail("no-error-after-close", fmt.Sprintf("after the fatal %T the unanswered request with stream id %d is done without an error", msg, o.StreamId()))
				}
			}
			if !within(3*time.Second, func() {
				for !cc.IsClosed() {
					time.Sleep(time.Millisecond)
				}
			}) {
				fail("close-hangs", fmt.Sprintf("the client connection is still open 3s after the fatal %T", msg))
			}
		} else {
			// nothing else moved; the other two get their own answers afterwards
			for _, o := range others {
				if o.IsDone() || len(o.Incoming()) != 0 {
					fail("misrouted", fmt.Sprintf("the response for stream id %d changed the request with stream id %d", target.StreamId(), o.StreamId()))
				}
				_ = sc.Send(frame.NewFrame(v, o.StreamId(), &message.VoidResult{}))
			}
			for _, o := range others {
				var f *frame.Frame
				var err error
				if !within(wireReadTimeout+3*time.Second, func() { f, err = cc.Receive(o) }) || err != nil || f == nil {
					fail("delivery-failed", fmt.Sprintf("after a %T for another request, the request with stream id %d did not receive its own response: %v", msg, o.StreamId(), err))
				}
			}
		}
		if ok {
			rec.Distinct++
		}
	}
}

// ---- the wiring from the connection's configuration to its in-flight handler. The histories of C09/C10 build the
// handler themselves with their own (maxInFlight, maxPending); here a REAL CqlClientConnection is configured through
// CqlClient.MaxInFlight / MaxPending with the two different from each other, in both directions, and C09's and C10's
// statements are judged on what is observable from outside:
//
//	C09  every stream id the peer sees is in 1..MaxInFlight and carried by one unanswered request only; exactly
//	     MaxInFlight unanswered managed requests are accepted, the next is refused with an error (not blocked); after
//	     all are answered MaxInFlight more are accepted;
//	C10  a response of MaxPending pages that nobody reads before the last one has arrived is delivered completely, in
//	     order, and completes the request without error.
type wiringSession struct {
	MaxInFlight int `json:"MaxInFlight"`
	MaxPending  int `json:"MaxPending"`
}

func wiringOne(ws wiringSession, rec *predRec) {
	ok := true
	fail := func(kind, what string) {
		ok = false
		if len(rec.Failures) < 12 {
			rec.Failures = append(rec.Failures, sockFailure{Kind: kind, What: fmt.Sprintf("connection with MaxInFlight %d, MaxPending %d: %s", ws.MaxInFlight, ws.MaxPending, what),
				Case: map[string]interface{}{"wiring_session": ws}})
		}
	}
	rec.Checked++
	defer func() {
		if ok {
			rec.Distinct++
		}
	}()
	v := primitive.ProtocolVersionDse2 // continuous paging needs a DSE version
	n, p := ws.MaxInFlight, ws.MaxPending
	addr := freeAddr()
	server := client.NewCqlServer(addr, nil)
	clt := client.NewCqlClient(addr, nil)
	clt.MaxInFlight, clt.MaxPending = n, p
	clt.ReadTimeout = 3 * time.Second
	ctx, cancel := context.WithCancel(context.Background())
	defer cancel()
	if err := server.Start(ctx); err != nil {
		fail("harness", "server start: "+err.Error())
		return
	}
	defer func() { within(3*time.Second, func() { _ = server.Close() }) }()
	var cc *client.CqlClientConnection
	var sc *client.CqlServerConnection
	var err error
	if !within(8*time.Second, func() { cc, sc, err = server.BindAndInit(clt, ctx, v, client.ManagedStreamId) }) || err != nil {
		fail("harness", fmt.Sprintf("bind and handshake: %v", err))
		return
	}
	defer func() { within(3*time.Second, func() { _ = cc.Close(); _ = sc.Close() }) }()
	// ---- C09: fill. Nobody answers; the peer only reads.
	fill := func(round string) (reqs []client.InFlightRequest, wireIds []int16) {
		var refusal error
		for i := 0; i < n+3; i++ {
			var r client.InFlightRequest
			var err error
			if !within(3*time.Second, func() { r, err = cc.Send(frame.NewFrame(v, client.ManagedStreamId, &message.Options{})) }) {
				fail("send-blocked", fmt.Sprintf("%s: Send number %d did not return within 3s with %d requests unanswered", round, i+1, len(reqs)))
				return
			}
			if err != nil {
				refusal = err
				break
			}
			reqs = append(reqs, r)
		}
		if len(reqs) > n {
			fail("over-capacity", fmt.Sprintf("%s: %d managed requests accepted and unanswered at the same time, the limit is MaxInFlight = %d", round, len(reqs), n))
		}
		if len(reqs) < n {
			fail("under-capacity", fmt.Sprintf("%s: only %d of MaxInFlight = %d managed requests were accepted although none of them was answered; the next was refused: %v", round, len(reqs), n, refusal))
		}
		within(5*time.Second, func() {
			for len(wireIds) < len(reqs) {
				f, err := sc.Receive()
				if err != nil {
					return
				}
				wireIds = append(wireIds, f.Header.StreamId)
			}
		})
		if len(wireIds) != len(reqs) {
			fail("harness", fmt.Sprintf("%s: the peer received %d of %d requests", round, len(wireIds), len(reqs)))
		}
		seen := map[int16]bool{}
		for _, id := range wireIds {
			if id < 1 || int(id) > n {
				fail("id-out-of-bounds", fmt.Sprintf("%s: stream id %d on the wire, outside [1,%d] (ids seen by the peer: %v)", round, id, n, wireIds))
			}
			if seen[id] {
				fail("duplicate-id", fmt.Sprintf("%s: stream id %d on the wire twice while unanswered (ids seen by the peer: %v)", round, id, wireIds))
			}
			seen[id] = true
		}
		return
	}
	answerAll := func(round string, reqs []client.InFlightRequest) {
		for i := len(reqs) - 1; i >= 0; i-- {
			if err := sc.Send(frame.NewFrame(v, reqs[i].StreamId(), &message.Supported{Options: map[string][]string{"CQL_VERSION": {"3.0.0"}}})); err != nil {
				fail("harness", "peer send: "+err.Error())
			}
		}
		for _, r := range reqs {
			var f *frame.Frame
			var err error
			if !within(6*time.Second, func() { f, err = cc.Receive(r) }) || err != nil || f == nil {
				fail("harness", fmt.Sprintf("%s: request with stream id %d did not receive its response: %v", round, r.StreamId(), err))
			}
		}
	}
	reqs, _ := fill("first fill")
	answerAll("first fill", reqs)
	reqs2, _ := fill("after every request was answered")
	if len(reqs2) < n {
		fail("recycling", fmt.Sprintf("after all %d requests were answered only %d new ones were accepted (MaxInFlight %d)", len(reqs), len(reqs2), n))
	}
	answerAll("second fill", reqs2)
	if !ok || cc.IsClosed() {
		// the C10 part below would only repeat what is already reported when the limits are wired wrongly; still run it
	}
	// ---- C10: a response of MaxPending pages, none read before the last has arrived
	var r client.InFlightRequest
	if !within(3*time.Second, func() {
		r, err = cc.Send(frame.NewFrame(v, client.ManagedStreamId, &message.Query{Query: "paged", Options: &message.QueryOptions{Consistency: primitive.ConsistencyLevelOne}}))
	}) || err != nil {
		fail("harness", fmt.Sprintf("send of the paged query: %v", err))
		return
	}
	var q *frame.Frame
	if !within(5*time.Second, func() { q, err = sc.Receive() }) || err != nil {
		fail("harness", fmt.Sprintf("peer did not receive the paged query: %v", err))
		return
	}
	for pg := 1; pg <= p; pg++ {
		meta := &message.RowsMetadata{ColumnCount: 0, ContinuousPageNumber: int32(pg), LastContinuousPage: pg == p}
		if pg%2 == 0 {
			meta.NewResultMetadataId = []byte{1, 2, 3, byte(pg)} // a page may announce changed result metadata (DSE v2)
		}
		if pg%3 == 0 {
			meta.PagingState = []byte{0xca, byte(pg)}
		}
		page := frame.NewFrame(v, q.Header.StreamId, &message.RowsResult{Metadata: meta, Data: message.RowSet{}})
		if err := sc.Send(page); err != nil {
			fail("harness", "peer send page: "+err.Error())
		}
	}
	if !within(4*time.Second, func() {
		for !r.IsDone() {
			time.Sleep(time.Millisecond)
		}
	}) {
		fail("last-not-complete", fmt.Sprintf("response of %d pages: the request is not complete 4s after the peer wrote the last page (%d pages waiting)", p, len(r.Incoming())))
	}
	var pages []int32
	for {
		f, open := <-r.Incoming()
		if !open {
			break
		}
		if rows, isRows := f.Body.Message.(*message.RowsResult); isRows {
			pages = append(pages, rows.Metadata.ContinuousPageNumber)
		} else {
			pages = append(pages, -1)
		}
		if len(pages) > p+2 {
			break
		}
	}
	if e := r.Err(); e != nil {
		fail("delivery-failed", fmt.Sprintf("a response of %d = MaxPending pages, unread until the last one had arrived, was not delivered completely: pages received %v, request failed with: %v", p, pages, e))
	} else {
		want := make([]int32, p)
		for i := range want {
			want[i] = int32(i + 1)
		}
		if fmt.Sprint(pages) != fmt.Sprint(want) {
			fail("wrong-pages", fmt.Sprintf("a response of %d = MaxPending pages: pages received %v, pages sent %v", p, pages, want))
		}
	}
}

func wireSessions(tier string) {
	rec := predRec{Kind: "pred", Name: "wire-sessions (real client and server connection, v3/v4/v5/DSE1/DSE2: three distinguishable responses in every order, header-only response, event interleaved, coalesced segment; exercised, not proved)"}
	for _, v := range []primitive.ProtocolVersion{primitive.ProtocolVersion3, primitive.ProtocolVersion4, primitive.ProtocolVersion5, primitive.ProtocolVersionDse1, primitive.ProtocolVersionDse2} {
		wireVersion(v, &rec)
	}
	hlib.Emit(rec)
	krec := predRec{Kind: "pred", Name: "response-kind rounds (real connections, v4 and v5: every kind of response incl. every ERROR variant to the second of three outstanding requests; after a fatal ERROR the others fail; exercised, not proved)"}
	kvs := []primitive.ProtocolVersion{primitive.ProtocolVersion4, primitive.ProtocolVersion5}
	if tier == "thorough" {
		kvs = append(kvs, primitive.ProtocolVersion3, primitive.ProtocolVersionDse1, primitive.ProtocolVersionDse2)
	}
	for _, v := range kvs {
		wireKindsVersion(v, &krec)
	}
	hlib.Emit(krec)
	wiring := []wiringSession{{2, 5}, {5, 2}, {1, 3}, {3, 1}}
	if tier == "thorough" {
		wiring = append(wiring, wiringSession{1, 1}, wiringSession{4, 4}, wiringSession{2, 10}, wiringSession{10, 2}, wiringSession{7, 3}, wiringSession{3, 7})
	}
	wrec := predRec{Kind: "pred", Name: "wiring-sessions (real client connection with MaxInFlight != MaxPending in both directions: stream ids on the wire in 1..MaxInFlight, exactly MaxInFlight unanswered requests, recycling, a response of MaxPending unread pages; exercised, not proved)"}
	for _, ws := range wiring {
		wiringOne(ws, &wrec)
	}
	hlib.Emit(wrec)
}
