package main

// C16, runtime half (exercised, not proved): races between Close / read timeout and the traffic of a connection.
// "... concurrently with senders and receivers ... nothing panics or deadlocks."
//
// Families (each runs in a CHILD PROCESS of this harness for a time box, because a panic in one of the library's own
// goroutines cannot be recovered and kills the process - that death is the finding, reported with the exit status
// and the head of the runtime's panic message; panics in the caller's goroutine are recovered and reported with value
// and stack; a child that stops making progress reports the stacks and exits: close-hangs):
//   timeout-delivery   a response delivered to the in-flight handler around the moment the request's read timeout
//                      fires (timeout 100 us .. 2 ms, offset swept over -40 .. +60 us), and non-final pages delivered
//                      while the handler is being closed                                         (audit finding 5)
//   send-close-client  Send from 4 goroutines while the client connection is closed              (finding 11)
//   send-close-server  Send / SendRaw from 4 goroutines while the server connection is closed    (finding 11)
//   close-flood-server Close of a server connection whose peer streams requests                  (finding 12)
//   close-flood-client Close of a client connection whose peer streams events and responses      (finding 12, 5)
//   deliver-close      final responses for 1..3 managed requests delivered on one goroutine while the handler is closed
//                      (as a connection does it: cancel the context, then close) on another; afterwards EVERY request
//                      must be complete: channel closed and (frame received or Err() != nil)     (repair e396228)
// Every Send must return a value or an error; every Close must return; the process must survive.
// The families are probabilistic: the iteration counts of the quick tier are chosen so that the pre-fix code fails
// within the time box with high probability (measured rates: notes/inflight.md).

import (
	"bytes"
	"context"
	"encoding/json"
	"fmt"
	"math/rand"
	"net"
	"os"
	"os/exec"
	"runtime"
	"strings"
	"sync"
	"sync/atomic"
	"time"

	"github.com/datastax/go-cassandra-native-protocol/client"
	"github.com/datastax/go-cassandra-native-protocol/frame"
	"github.com/datastax/go-cassandra-native-protocol/message"
	"github.com/datastax/go-cassandra-native-protocol/primitive"
	"verifharness/hlib"
)

type raceReport struct {
	Family     string   `json:"family"`
	Iterations int64    `json:"iterations"`
	Workers    int      `json:"workers"`
	Millis     int64    `json:"millis"`
	Panics     []string `json:"panics,omitempty"` // recovered in the caller's goroutine: value + stack
	Hang       string   `json:"hang,omitempty"`
	Other      []string `json:"other,omitempty"`
	Stuck      []string `json:"stuck,omitempty"` // requests that were neither answered nor failed (family deliver-close)
	// the same when the handler's context had been cancelled before close() (what CqlClientConnection.Close does)
	StuckAfterCancel []string `json:"stuck_after_cancel,omitempty"`
	// family handshake-steps: "kind\x00what" pairs (handshake-hangs, goroutine-leak, harness)
	Sessions []string `json:"sessions,omitempty"`
	Observed []string `json:"observed,omitempty"` // "name\x00what": characterised, not judged
}

var raceFamilies = []string{"timeout-delivery", "send-close-client", "send-close-server", "close-flood-server", "close-flood-client", "deliver-close", "handshake-steps"}

// ---------------------------------------------------------------------------------------------- parent

func raceBox(tier, family string) time.Duration {
	if tier == "thorough" {
		return 30 * time.Second
	}
	switch family {
	case "close-flood-client", "close-flood-server":
		return 8 * time.Second
	case "timeout-delivery", "deliver-close":
		return 5 * time.Second
	}
	return 3 * time.Second
}

// two families run at a time (each keeps four to six cores busy); the two long ones are not paired with each other
var raceOrder = [][]string{{"close-flood-server", "timeout-delivery"}, {"close-flood-client", "send-close-client"}, {"send-close-server", "deliver-close"}, {"", "handshake-steps"}} // lanes: 19 s and 13 s + the handshake sessions

func runRaces(tier string) {
	type outcome struct {
		rep    raceReport
		status string
		stderr string
		wall   time.Duration
	}
	results := make([]outcome, len(raceFamilies))
	index := map[string]int{}
	for i, fam := range raceFamilies {
		index[fam] = i
	}
	runOne := func(fam string) {
		box := raceBox(tier, fam)
		ctx, cancel := context.WithTimeout(context.Background(), box+25*time.Second)
		defer cancel()
		cmd := exec.CommandContext(ctx, os.Args[0], "racechild", fam, fmt.Sprint(box.Milliseconds()))
		var stdout, stderr bytes.Buffer
		cmd.Stdout, cmd.Stderr = &stdout, &stderr
		t0 := time.Now()
		err := cmd.Run()
		o := outcome{wall: time.Since(t0), stderr: stderr.String(), status: "0"}
		if err != nil {
			o.status = err.Error()
			if ctx.Err() != nil {
				o.status = "killed after " + (box + 25*time.Second).String() + " (" + err.Error() + ")"
			}
		}
		for _, l := range strings.Split(stdout.String(), "\n") {
			if strings.HasPrefix(l, "{") {
				_ = json.Unmarshal([]byte(l), &o.rep)
			}
		}
		results[index[fam]] = o
	}
	// the first column and the second column are two lanes; a lane runs its families one after the other
	var wg sync.WaitGroup
	for lane := 0; lane < 2; lane++ {
		wg.Add(1)
		go func(lane int) {
			defer wg.Done()
			for _, pair := range raceOrder {
				if lane < len(pair) && pair[lane] != "" {
					runOne(pair[lane])
				}
			}
		}(lane)
	}
	wg.Wait()
	for i, fam := range raceFamilies {
		o := results[i]
		rec := predRec{Kind: "pred", Name: "race " + fam + " (Close / read timeout concurrent with traffic, child process, " + raceBox(tier, fam).String() + "; exercised, not proved)",
			Checked: int(o.rep.Iterations)}
		caseOf := map[string]interface{}{"race_family": fam, "time_box": raceBox(tier, fam).String(), "workers": o.rep.Workers, "iterations": o.rep.Iterations}
		for _, p := range o.rep.Panics {
			rec.Failures = append(rec.Failures, sockFailure{Kind: "panic", What: fmt.Sprintf("%s: panic in the caller's goroutine after %d iterations: %.2500s", fam, o.rep.Iterations, p), Case: caseOf})
		}
		if o.rep.Hang != "" {
			rec.Failures = append(rec.Failures, sockFailure{Kind: "close-hangs", What: fmt.Sprintf("%s: no progress for 6s after %d iterations; %.3000s", fam, o.rep.Iterations, o.rep.Hang), Case: caseOf})
		}
		for _, p := range o.rep.Sessions {
			if kv := strings.SplitN(p, "\x00", 3); len(kv) == 3 {
				rec.Failures = append(rec.Failures, sockFailure{Kind: kv[0], What: kv[2], Case: map[string]interface{}{"handshake_session": kv[1]}})
			}
		}
		for _, p := range o.rep.Stuck {
			rec.Failures = append(rec.Failures, sockFailure{Kind: "request-stuck", Cls: "close", What: fam + ": " + p, Case: caseOf})
		}
		for _, p := range o.rep.StuckAfterCancel {
			rec.Failures = append(rec.Failures, sockFailure{Kind: "request-stuck", Cls: "context-cancelled", What: fam + ": " + p, Case: caseOf})
		}
		for _, p := range o.rep.Other {
			rec.Failures = append(rec.Failures, sockFailure{Kind: "state-wrong", What: fam + ": " + p, Case: caseOf})
		}
		if o.status != "0" && len(o.rep.Panics) == 0 && o.rep.Hang == "" {
			// the child died: an unrecoverable panic in a goroutine of the library (or it was killed)
			msg := o.stderr
			if j := strings.Index(msg, "panic:"); j >= 0 {
				msg = msg[j:]
			} else if j := strings.Index(msg, "fatal error:"); j >= 0 {
				msg = msg[j:]
			}
			kind := "panic"
			if strings.HasPrefix(o.status, "killed") {
				kind = "close-hangs"
			}
			rec.Failures = append(rec.Failures, sockFailure{Kind: kind, What: fmt.Sprintf("%s: the child process died (%s) after %v: %.2500s", fam, o.status, o.wall.Round(time.Millisecond), msg), Case: caseOf})
		}
		if len(rec.Failures) == 0 {
			rec.Distinct = 1
		}
		hlib.Emit(rec)
		for _, p := range o.rep.Observed {
			if kv := strings.SplitN(p, "\x00", 2); len(kv) == 2 {
				hlib.Emit(observation{Kind: "observation", Name: kv[0], Observed: kv[1]})
			}
		}
	}
}

// ---------------------------------------------------------------------------------------------- child

type raceState struct {
	rep      raceReport
	mu       sync.Mutex
	iters    int64
	stop     int32
	deadline time.Time
}

func (s *raceState) running() bool {
	return atomic.LoadInt32(&s.stop) == 0 && time.Now().Before(s.deadline)
}

func (s *raceState) panicked(where string, p interface{}) {
	s.mu.Lock()
	if len(s.rep.Panics) < 3 {
		s.rep.Panics = append(s.rep.Panics, fmt.Sprintf("%s: %v\n%s", where, p, panicStack()))
	}
	s.mu.Unlock()
	atomic.StoreInt32(&s.stop, 1)
}

func (s *raceState) other(format string, a ...interface{}) {
	s.mu.Lock()
	if len(s.rep.Other) < 3 {
		s.rep.Other = append(s.rep.Other, fmt.Sprintf(format, a...))
	}
	s.mu.Unlock()
}

// spin burns about n * 20 ns without yielding the processor
func spin(n int) {
	for i := 0; i < n; i++ {
		_ = time.Now()
	}
}

func raceChild(family string, millis int64) {
	st := &raceState{deadline: time.Now().Add(time.Duration(millis) * time.Millisecond)}
	st.rep.Family, st.rep.Millis = family, millis
	workers := 4
	if family == "timeout-delivery" {
		workers = 6
	}
	if n := runtime.NumCPU() / 2; n < workers && n >= 1 {
		workers = n
	}
	st.rep.Workers = workers
	finish := func() {
		st.rep.Iterations = atomic.LoadInt64(&st.iters)
		hlib.Emit(st.rep)
		hlib.Flush()
	}
	// progress watchdog: a Close (or anything else) that never returns (the handshake sessions bound every wait themselves)
	go func() {
		if family == "handshake-steps" {
			return
		}
		last, since := int64(-1), time.Now()
		for {
			time.Sleep(250 * time.Millisecond)
			if n := atomic.LoadInt64(&st.iters); n != last {
				last, since = n, time.Now()
			} else if time.Since(since) > 6*time.Second {
				st.mu.Lock()
				st.rep.Hang = stacks()
				st.mu.Unlock()
				finish()
				os.Exit(4)
			}
		}
	}()
	if family == "handshake-steps" {
		st.rep.Workers = 1
		st.deadline = time.Now().Add(10 * time.Minute) // deterministic sessions, not a time box
		handshakeSessions(st)
		finish()
		return
	}
	var wg sync.WaitGroup
	for w := 0; w < workers; w++ {
		wg.Add(1)
		go func(w int) {
			defer wg.Done()
			rng := rand.New(rand.NewSource(hlib.Seed()*1000 + int64(w)))
			switch family {
			case "timeout-delivery":
				if w%3 != 2 {
					raceTimeoutDelivery(st, rng)
				} else {
					raceCloseDelivery(st, rng)
				}
			case "send-close-client":
				raceSendCloseClient(st, rng)
			case "send-close-server":
				raceServer(st, rng, true)
			case "close-flood-server":
				raceServer(st, rng, false)
			case "close-flood-client":
				raceCloseFloodClient(st, rng, w)
			case "deliver-close":
				raceDeliverClose(st, rng, w)
			default:
				st.other("unknown family %q", family)
			}
		}(w)
	}
	wg.Wait()
	finish()
	if len(st.rep.Panics) > 0 {
		os.Exit(5)
	}
}

// ---- finding 5: the response arrives while the read timeout fires (handler level: the panic is in the caller)
func raceTimeoutDelivery(st *raceState, rng *rand.Rand) {
	timeouts := []time.Duration{100 * time.Microsecond, 200 * time.Microsecond, 300 * time.Microsecond, 500 * time.Microsecond, time.Millisecond, 2 * time.Millisecond}
	for it := 0; st.running(); it++ {
		timeout := timeouts[it%len(timeouts)]
		if it%4 != 0 {
			timeout = 300 * time.Microsecond
		}
		h := client.VerifNewHandler(4, 1, timeout)
		req := requestFrame(0)
		start := time.Now()
		r, err := h.Enqueue(req)
		if err != nil {
			st.other("enqueue on a fresh handler: %v", err)
			return
		}
		resp := responseFrame(int(r.StreamId()), true, 0)
		offset := time.Duration(it%100-40) * time.Microsecond
		for time.Since(start) < timeout+offset {
		}
		func() {
			defer func() {
				if p := recover(); p != nil {
					st.panicked(fmt.Sprintf("onIncomingFrameReceived %v after the request was sent (read timeout %v)", time.Since(start), timeout), p)
				}
			}()
			_ = h.Deliver(resp)
		}()
		// whichever won: the request is complete, with the frame or with the timeout error, exactly one of them
		doneBy := time.Now().Add(2 * time.Second)
		for !r.IsDone() && time.Now().Before(doneBy) {
			runtime.Gosched()
		}
		if !r.IsDone() {
			st.other("request neither answered nor timed out 2s after a delivery at its deadline (timeout %v)", timeout)
		}
		h.Close()
		h.CancelContext()
		atomic.AddInt64(&st.iters, 1)
		if it%64 == 0 {
			runtime.Gosched()
		}
	}
}

// ---- findings 5/12, in-flight path: pages delivered while the handler is closed
func raceCloseDelivery(st *raceState, rng *rand.Rand) {
	for it := 0; st.running(); it++ {
		h := client.VerifNewHandler(4, 4096, time.Hour)
		r, err := h.Enqueue(requestFrame(0))
		if err != nil {
			st.other("enqueue on a fresh handler: %v", err)
			return
		}
		page := responseFrame(int(r.StreamId()), false, 1)
		done := make(chan struct{})
		go func() {
			defer close(done)
			defer func() {
				if p := recover(); p != nil {
					st.panicked("onIncomingFrameReceived (non-final page) concurrent with inFlightRequestsHandler.close", p)
				}
			}()
			for i := 0; i < 4000; i++ {
				if err := h.Deliver(page); err != nil {
					return
				}
			}
		}()
		spin(rng.Intn(400))
		h.Close()
		<-done
		h.CancelContext()
		atomic.AddInt64(&st.iters, 1)
	}
}

// ---- finding 11, client: Send from several goroutines while Close runs. The connection is the shim's
// CqlClientConnection without I/O goroutines (Send and Close are the library's), so an iteration costs microseconds.
func raceSendCloseClient(st *raceState, rng *rand.Rand) {
	for it := 0; st.running(); it++ {
		conn := client.VerifNewConn(64, 1, time.Second, nil)
		var wg sync.WaitGroup
		start := make(chan struct{})
		for g := 0; g < 4; g++ {
			wg.Add(1)
			go func() {
				defer wg.Done()
				defer func() {
					if p := recover(); p != nil {
						st.panicked("CqlClientConnection.Send concurrent with Close", p)
					}
				}()
				<-start
				for i := 0; i < 200; i++ {
					r, err := conn.C.Send(requestFrame(0))
					if err == nil && r == nil {
						st.other("Send returned neither a request nor an error")
					}
					if err != nil && conn.C.IsClosed() {
						return
					}
				}
			}()
		}
		close(start)
		spin(rng.Intn(60))
		closed := make(chan struct{})
		go func() {
			defer close(closed)
			defer func() {
				if p := recover(); p != nil {
					st.panicked("CqlClientConnection.Close concurrent with Send", p)
				}
			}()
			_ = conn.Close()
		}()
		<-closed
		wg.Wait()
		if _, err := conn.C.Send(requestFrame(0)); err == nil {
			st.other("Send accepted on a closed client connection")
		}
		atomic.AddInt64(&st.iters, 1)
	}
}

// ---- findings 11 (send = true) and 12 (send = false), server connection: a real CqlServer, a raw TCP peer
func raceServer(st *raceState, rng *rand.Rand, send bool) {
	addr := freeAddr()
	server := client.NewCqlServer(addr, nil)
	server.MaxConnections = 8
	server.AcceptTimeout = 2 * time.Second
	ctx, cancel := context.WithCancel(context.Background())
	defer cancel()
	if err := server.Start(ctx); err != nil {
		st.other("server start: %v", err)
		return
	}
	defer func() { go func() { _ = server.Close() }() }()
	requests := &bytes.Buffer{}
	for i := 0; i < 50; i++ {
		_ = frame.NewCodec().EncodeFrame(frame.NewFrame(primitive.ProtocolVersion4, int16(i+1), &message.Options{}), requests)
	}
	rawResp := &bytes.Buffer{}
	_ = frame.NewCodec().EncodeFrame(frame.NewFrame(primitive.ProtocolVersion4, 1, &message.Supported{Options: map[string][]string{}}), rawResp)
	for it := 0; st.running(); it++ {
		peer, err := net.Dial("tcp", addr)
		if err != nil {
			st.other("dial: %v", err)
			return
		}
		go func() { // the peer reads and discards what the server writes
			buf := make([]byte, 4096)
			for {
				if _, err := peer.Read(buf); err != nil {
					return
				}
			}
		}()
		if !send {
			go func() { // and streams requests
				for {
					if _, err := peer.Write(requests.Bytes()); err != nil {
						return
					}
				}
			}()
		}
		sc, err := server.AcceptAny()
		if err != nil || sc == nil {
			_ = peer.Close()
			if server.IsClosed() {
				st.other("server closed by itself: %v", err)
				return
			}
			continue
		}
		var wg sync.WaitGroup
		if send {
			start := make(chan struct{})
			for g := 0; g < 4; g++ {
				wg.Add(1)
				go func(g int) {
					defer wg.Done()
					defer func() {
						if p := recover(); p != nil {
							st.panicked("CqlServerConnection.Send/SendRaw concurrent with Close", p)
						}
					}()
					<-start
					for i := 0; i < 200; i++ {
						var err error
						if g%2 == 0 {
							err = sc.Send(frame.NewFrame(primitive.ProtocolVersion4, 1, &message.Supported{Options: map[string][]string{}}))
						} else {
							err = sc.SendRaw(rawResp.Bytes())
						}
						if err != nil && sc.IsClosed() {
							return
						}
					}
				}(g)
			}
			close(start)
			spin(rng.Intn(60))
		} else {
			// the incoming loop is at work once the first request has come through
			if _, err := sc.Receive(); err != nil {
				_ = peer.Close()
				_ = sc.Close()
				continue
			}
			spin(rng.Intn(200))
		}
		func() {
			defer func() {
				if p := recover(); p != nil {
					st.panicked("CqlServerConnection.Close", p)
				}
			}()
			_ = sc.Close()
		}()
		wg.Wait()
		if err := sc.Send(frame.NewFrame(primitive.ProtocolVersion4, 1, &message.Ready{})); err == nil {
			st.other("Send accepted on a closed server connection")
		}
		_ = peer.Close()
		atomic.AddInt64(&st.iters, 1)
	}
}

// ---- finding 12, client (and 5 on a real connection): a raw TCP peer streams EVENT frames and, for one worker in four,
// answers every request at once while the client uses a tiny read timeout; the client connection is closed mid-stream
func raceCloseFloodClient(st *raceState, rng *rand.Rand, w int) {
	l, err := net.Listen("tcp", "127.0.0.1:0")
	if err != nil {
		st.other("listen: %v", err)
		return
	}
	defer l.Close()
	events := &bytes.Buffer{}
	for i := 0; i < 50; i++ {
		_ = frame.NewCodec().EncodeFrame(eventFrame(int64(i)), events)
	}
	echo := w%4 == 3
	go func() {
		for {
			peer, err := l.Accept()
			if err != nil {
				return
			}
			if echo {
				// answer each request frame (header 9 bytes + body) with a SUPPORTED carrying its stream id
				go func() {
					codec := frame.NewRawCodec()
					for {
						raw, err := codec.DecodeRawFrame(peer)
						if err != nil {
							return
						}
						resp := &bytes.Buffer{}
						_ = frame.NewCodec().EncodeFrame(frame.NewFrame(primitive.ProtocolVersion4, raw.Header.StreamId, &message.Supported{Options: map[string][]string{}}), resp)
						if _, err := peer.Write(resp.Bytes()); err != nil {
							return
						}
					}
				}()
			} else {
				go func() {
					buf := make([]byte, 4096)
					for {
						if _, err := peer.Read(buf); err != nil {
							return
						}
					}
				}()
				go func() {
					for {
						if _, err := peer.Write(events.Bytes()); err != nil {
							_ = peer.Close()
							return
						}
					}
				}()
			}
		}
	}()
	timeouts := []time.Duration{50 * time.Microsecond, 100 * time.Microsecond, 200 * time.Microsecond, 400 * time.Microsecond}
	for it := 0; st.running(); it++ {
		clt := client.NewCqlClient(l.Addr().String(), nil)
		clt.MaxInFlight = 64
		clt.MaxPending = 1
		clt.ReadTimeout = time.Second
		if echo {
			clt.ReadTimeout = timeouts[it%len(timeouts)]
		}
		cc, err := clt.Connect(context.Background())
		if err != nil {
			st.other("connect: %v", err)
			return
		}
		if echo {
			// requests whose answers come back around their read timeout
			for i := 0; i < 40 && !cc.IsClosed(); i++ {
				if r, err := cc.Send(frame.NewFrame(primitive.ProtocolVersion4, client.ManagedStreamId, &message.Options{})); err == nil {
					if i%8 == 7 {
						_, _ = cc.Receive(r)
					}
				}
				spin(rng.Intn(100))
			}
		} else {
			if _, err := cc.ReceiveEvent(); err != nil {
				_ = cc.Close()
				continue
			}
			spin(rng.Intn(200))
		}
		func() {
			defer func() {
				if p := recover(); p != nil {
					st.panicked("CqlClientConnection.Close", p)
				}
			}()
			_ = cc.Close()
		}()
		atomic.AddInt64(&st.iters, 1)
	}
}

// ---- repair e396228: a final response delivered while the handler is closed. onIncomingFrameReceived removes the
// request from the table first; whatever happens after that, nobody but this delivery can complete the request.
// mode 0: close() alone; mode 1: the context is cancelled first, as CqlClientConnection.Close does.
func raceDeliverClose(st *raceState, rng *rand.Rand, w int) {
	for it := 0; st.running(); it++ {
		n := 1 + it%3
		mode := 0 // close() alone
		if w%4 == 3 {
			mode = 1 // the context is cancelled first
		}
		h := client.VerifNewHandler(n, 1, time.Hour)
		reqs := make([]client.InFlightRequest, 0, n)
		frames := make([]*frame.Frame, 0, n)
		for i := 0; i < n; i++ {
			r, err := h.Enqueue(requestFrame(0))
			if err != nil {
				st.other("enqueue %d of %d on a fresh handler: %v", i+1, n, err)
				return
			}
			reqs = append(reqs, r)
			frames = append(frames, responseFrame(int(r.StreamId()), true, int64(i)))
		}
		start := make(chan struct{})
		delivered := make(chan struct{})
		results := make([]string, n)
		go func() {
			defer close(delivered)
			<-start
			for i, f := range frames {
				results[i] = client.VerifErrClass(h.Deliver(f))
			}
		}()
		dc, dd := rng.Intn(40), rng.Intn(40)
		_ = dd
		close(start)
		spin(dc)
		if mode == 1 {
			h.CancelContext()
		}
		h.Close()
		<-delivered
		if mode == 0 {
			h.CancelContext()
		}
		// both have returned: every request is complete, one way or the other
		stuckHere := false
		for i, r := range reqs {
			state := client.VerifStateOf(r)
			got, chClosed := 0, false
		drain:
			for {
				select {
				case _, ok := <-r.Incoming():
					if !ok {
						chClosed = true
						break drain
					}
					got++
				default:
					break drain
				}
			}
			if !state.Done || !chClosed || (got == 0 && state.ErrClass == "") {
				st.mu.Lock()
				list := &st.rep.Stuck
				if mode == 1 {
					list = &st.rep.StuckAfterCancel
				}
				if len(*list) < 3 {
					*list = append(*list, fmt.Sprintf("iteration %d of this worker (%d in all): request %d of %d (stream id %d) after the delivery of its final frame (result %q) and %s both returned: IsDone()=%v, channel closed=%v, frames received=%d, Err()=%q - it is no longer registered, so nothing will ever complete it",
						it, atomic.LoadInt64(&st.iters), i+1, n, r.StreamId(), results[i], map[int]string{0: "close()", 1: "cancel()+close()"}[mode], state.Done, chClosed, got, state.ErrClass))
				}
				st.mu.Unlock()
				if mode == 0 {
					atomic.StoreInt32(&st.stop, 1)
				}
				stuckHere = true
			}
		}
		atomic.AddInt64(&st.iters, 1)
		if stuckHere {
			return // this worker has its finding; the workers of the other mode go on
		}
	}
}
