package main

// Watchdog of the history runner. Every call into the library (Send / onOutgoingFrameEnqueued, processIncomingFrame /
// onIncomingFrameReceived, Close) is one step of a history and returns at once on the code under study: none of them
// waits for anybody (non-blocking channel operations, short critical sections). `guard` runs such a call on its own
// goroutine and waits for it under a deadline; a call that does not return is a finding of its own (the connection's
// single receive loop, a sender or a closer is stuck), reported with the history and the step, and the runner goes on
// with the next history instead of hanging with the library.
//
// The deadline counts only time during which this process was scheduled normally: the waiter sleeps in ticks of
// stallTick and counts a tick only if it woke up within 4 ticks, so a machine that is busy elsewhere (or a stopped
// process) postpones the verdict instead of producing one. stallHardCap bounds the wait in any case.

import (
	"fmt"
	"os"
	"runtime"
	"sync"
	"sync/atomic"
	"time"

	"verifharness/hlib"
)

const (
	stallTick      = 50 * time.Millisecond
	stallGoodTicks = 40               // 2 s of normally scheduled waiting
	stallHardCap   = 45 * time.Second // whatever the load
	maxStalls      = 3                // histories with a stalled call before the remaining histories are skipped
)

// stallError is the panic value with which guard leaves the history (recovered by runCase).
type stallError struct {
	what   string
	waited time.Duration
}

var stalledHistories int32

// guard runs f and returns when f returns; a panic of f is re-raised in the caller. If f does not return within the
// deadline described above, guard panics with a stallError; f's goroutine is left behind (blocked inside the library).
func guard(what string, f func()) {
	var finished int32
	var pv interface{}
	done := make(chan struct{}, 1)
	go func() {
		defer func() {
			pv = recover()
			atomic.StoreInt32(&finished, 1)
			done <- struct{}{}
		}()
		f()
	}()
	// fast path: the new goroutine is next in line on this processor; yielding lets it run the call to its end
	for i := 0; i < 4; i++ {
		runtime.Gosched()
		if atomic.LoadInt32(&finished) == 1 {
			if pv != nil {
				panic(pv)
			}
			return
		}
	}
	start := time.Now()
	good := 0
	timer := time.NewTimer(stallTick)
	defer timer.Stop()
	for {
		t0 := time.Now()
		select {
		case <-done:
			if pv != nil {
				panic(pv)
			}
			return
		case <-timer.C:
		}
		if time.Since(t0) < 4*stallTick {
			good++
		}
		if good >= stallGoodTicks || time.Since(start) > stallHardCap {
			// one last look: the call may have returned while the verdict was being formed
			if atomic.LoadInt32(&finished) == 1 {
				if pv != nil {
					panic(pv)
				}
				return
			}
			panic(stallError{what: what, waited: time.Since(start)})
		}
		timer.Reset(stallTick)
	}
}

// guardQuiet is guard for clean-up calls: a stall or a panic there is reported as false, not raised.
func guardQuiet(f func()) (ok bool) {
	defer func() {
		if p := recover(); p != nil {
			ok = false
		}
	}()
	guard("cleanup", f)
	return true
}

// ---- progress of the whole run, for the last-resort deadline of the process

type abortRec struct {
	Kind    string `json:"kind"` // "aborted"
	Why     string `json:"why"`
	Skipped int    `json:"skipped"`         // histories not run
	Case    *Case  `json:"case,omitempty"`  // the history that was running when the process deadline expired
	Step    int    `json:"step,omitempty"`  // and the step it was in
	What    string `json:"what,omitempty"`  // a sentence for the report
	Stalls  int    `json:"stalls"`          // histories in which a call into the library did not return
	Limit   string `json:"limit,omitempty"` // the deadline that expired
}

type progress struct {
	mu      sync.Mutex
	total   int
	done    []Result // completed histories, in completion order
	current map[int]*Case
	steps   map[int]*int32
	emitted bool
}

var prog = &progress{current: map[int]*Case{}, steps: map[int]*int32{}}

func (p *progress) begin(c *Case) *int32 {
	p.mu.Lock()
	defer p.mu.Unlock()
	st := new(int32)
	p.current[c.Id] = c
	p.steps[c.Id] = st
	return st
}

func (p *progress) end(c *Case, r *Result) {
	p.mu.Lock()
	defer p.mu.Unlock()
	delete(p.current, c.Id)
	delete(p.steps, c.Id)
	if r != nil {
		p.done = append(p.done, *r)
	}
}

// processDeadline is the last resort against a hang in a place that guard does not cover (a state read blocked on a
// lock, the harness itself): when it expires the completed histories are printed, the running ones are named in an
// "aborted" record, and the process exits with status 3.
func processDeadline(limit time.Duration) {
	go func() {
		time.Sleep(limit)
		prog.mu.Lock()
		if prog.emitted {
			prog.mu.Unlock()
			return
		}
		prog.emitted = true
		for _, r := range prog.done {
			hlib.Emit(r)
		}
		skipped := prog.total - len(prog.done)
		n := 0
		for id, c := range prog.current {
			cc := *c
			st := int(atomic.LoadInt32(prog.steps[id]))
			hlib.Emit(abortRec{Kind: "aborted", Why: "process-deadline", Case: &cc, Step: st,
				What:   fmt.Sprintf("history still running after the process deadline of %v (at step %d): a call into the library or a state read never returned", limit, st),
				Limit:  limit.String(),
				Stalls: int(atomic.LoadInt32(&stalledHistories)), Skipped: skipped})
			n++
		}
		if n == 0 {
			hlib.Emit(abortRec{Kind: "aborted", Why: "process-deadline", Limit: limit.String(), Skipped: skipped, Stalls: int(atomic.LoadInt32(&stalledHistories))})
		}
		hlib.Flush()
		fmt.Fprintf(os.Stderr, "harness-inflight: process deadline %v expired; %d of %d histories completed\n", limit, len(prog.done), prog.total)
		os.Exit(3)
	}()
}
