package main

// C16, runtime half (exercised, not proved): MORE client connections than CqlServer.MaxConnections over the life of
// one server. A server with MaxConnections = m (1, 2) receives k > m successive client connections through
// Bind / BindAndInit / Connect+Accept. Some clients are kept open (at most m at a time), every other one is closed
// before the next connects - from the client side (then the server connection's READER is the first closer) or from
// the server connection. AcceptAny is never called (variant "drain": a goroutine does call it all the time).
// Then, with bounded waits:
//   - every connection below the limit is accepted: the accept path returns (verdict accept-blocked when Bind/Accept
//     never returns, or when a client is still refused with "too many connections" seconds after its predecessors
//     were closed - the slot of a closed connection was never given back),
//   - with m connections open one more is refused with an error, not blocked,
//   - server.Close() returns (close-hangs), every client/server connection Close returns,
//   - the goroutine count goes back to the baseline (goroutine-leak).
// Found by an outside reader and repaired by /repo commit 4337192: onConnectionAccepted did a blocking send on the
// AcceptAny queue (capacity MaxConnections) while holding the connections lock; the accept loop blocked for ever on
// connection number m+1 and Close deadlocked on the lock.

import (
	"context"
	"fmt"
	"runtime"
	"strings"
	"sync"
	"sync/atomic"
	"time"

	"github.com/datastax/go-cassandra-native-protocol/client"
	"github.com/datastax/go-cassandra-native-protocol/primitive"
	"verifharness/hlib"
)

type acceptSession struct {
	MaxConn int    `json:"maxConnections"`
	Clients int    `json:"clients"`  // successive client connections, > MaxConn
	Keep    int    `json:"keepOpen"` // the first Keep clients stay open until the end (Keep <= MaxConn)
	Mode    string `json:"mode"`     // bind | bind-init | connect-accept
	Closer  string `json:"closer"`   // client (server-side reader closes first) | serverconn
	Drain   bool   `json:"drainAcceptAny"`
}

const (
	acceptTimeout = 2 * time.Second // CqlServer.AcceptTimeout of these sessions
	acceptWait    = 8 * time.Second // bounded wait for one Bind/Accept (AcceptTimeout, ConnectTimeout 5 s, margin)
	slotWait      = 5 * time.Second // a closed connection's slot must be free again within this time
)

// stacks returns the stacks of the goroutines that are inside the library (package client), blocked ones first in the
// runtime's order; the harness's own goroutines are left out.
func stacks() string {
	buf := make([]byte, 1<<18)
	all := strings.Split(string(buf[:runtime.Stack(buf, true)]), "\n\n")
	var lib []string
	for _, g := range all {
		if strings.Contains(g, "go-cassandra-native-protocol/client.") {
			lib = append(lib, g)
		}
	}
	return fmt.Sprintf("%d goroutines, %d of them in package client:\n%s", len(all), len(lib), strings.Join(lib, "\n\n"))
}

func runAcceptSession(ss acceptSession, fail func(kind, what string)) {
	baseline := runtime.NumGoroutine()
	addr := freeAddr()
	server := client.NewCqlServer(addr, nil)
	server.MaxConnections = ss.MaxConn
	server.AcceptTimeout = acceptTimeout
	ctx, cancel := context.WithCancel(context.Background())
	defer cancel()
	if err := server.Start(ctx); err != nil {
		fail("harness", "server start: "+err.Error())
		return
	}
	var drained int32
	var drainWg sync.WaitGroup
	stopDrain := make(chan struct{})
	if ss.Drain {
		drainWg.Add(1)
		go func() {
			defer drainWg.Done()
			for {
				select {
				case <-stopDrain:
					return
				default:
				}
				if c, err := server.AcceptAny(); err == nil && c != nil {
					atomic.AddInt32(&drained, 1)
				} else if server.IsClosed() {
					return
				}
			}
		}()
	}
	type pair struct {
		cc *client.CqlClientConnection
		sc *client.CqlServerConnection
	}
	var kept []pair
	blocked := false
	accepted := 0
	// one attempt to get client number i connected and accepted; returns the error of the library, or hangs (caller bounds it)
	attempt := func() (p pair, err error) {
		clt := client.NewCqlClient(addr, nil)
		clt.ReadTimeout = 3 * time.Second
		switch ss.Mode {
		case "bind":
			p.cc, p.sc, err = server.Bind(clt, ctx)
		case "bind-init":
			p.cc, p.sc, err = server.BindAndInit(clt, ctx, primitive.ProtocolVersion4, client.ManagedStreamId)
		default:
			if p.cc, err = clt.Connect(ctx); err == nil {
				if p.sc, err = server.Accept(p.cc); err != nil {
					_ = p.cc.Close() // so that a server connection registered behind our back sees EOF and frees its slot
					p.cc = nil
				}
			}
		}
		return
	}
	nclients := ss.Clients
	if ss.Keep >= ss.MaxConn {
		nclients = ss.MaxConn // every slot stays taken: the connection after that is the one that must be refused (below)
	}
	for i := 0; i < nclients && !blocked; i++ {
		var p pair
		var err error
		deadline := time.Now().Add(slotWait)
		for {
			returned := within(acceptWait, func() { p, err = attempt() })
			if !returned {
				blocked = true
				fail("accept-blocked", fmt.Sprintf("%s for client connection #%d (of %d, MaxConnections %d, %d open) did not return within %v (AcceptTimeout %v); stacks: %.2500s",
					ss.Mode, i+1, ss.Clients, ss.MaxConn, len(kept), acceptWait, acceptTimeout, stacks()))
				break
			}
			if err == nil {
				break
			}
			// "too many connections" right after a close is legitimate for a moment (the server side has to notice the close
			// and run its onClose); it is not legitimate seconds later
			if strings.Contains(err.Error(), "too many connections") || strings.Contains(err.Error(), "timed out waiting for incoming client connection") {
				if time.Now().Before(deadline) {
					time.Sleep(100 * time.Millisecond)
					continue
				}
				fail("accept-blocked", fmt.Sprintf("client connection #%d (of %d) still refused %v after every connection but %d was closed (MaxConnections %d): %v", i+1, ss.Clients, slotWait, len(kept), ss.MaxConn, err))
			} else {
				fail("harness", fmt.Sprintf("client connection #%d: %v", i+1, err))
			}
			blocked = true
			break
		}
		if blocked {
			break
		}
		accepted++
		if len(kept) < ss.Keep {
			kept = append(kept, p)
			continue
		}
		// close it before the next one connects
		first, second := func() { _ = p.cc.Close() }, func() { _ = p.sc.Close() }
		if ss.Closer == "serverconn" {
			first, second = second, first
		}
		if !within(3*time.Second, first) {
			fail("close-hangs", fmt.Sprintf("Close of connection #%d by %s did not return within 3s", i+1, ss.Closer))
		}
		if !within(3*time.Second, func() {
			for !p.sc.IsClosed() || !p.cc.IsClosed() {
				time.Sleep(2 * time.Millisecond)
			}
		}) {
			fail("close-hangs", fmt.Sprintf("connection #%d: 3s after the %s close: client closed=%v, server connection closed=%v", i+1, ss.Closer, p.cc.IsClosed(), p.sc.IsClosed()))
		}
		if !within(3*time.Second, second) {
			fail("close-hangs", fmt.Sprintf("Close of the other end of connection #%d did not return within 3s (after the %s close); stacks: %.2500s", i+1, ss.Closer, stacks()))
		}
	}
	// with MaxConnections connections open one more is refused, not blocked
	if !blocked && ss.Keep == ss.MaxConn {
		var err error
		var p pair
		if !within(acceptWait, func() { p, err = attempt() }) {
			blocked = true
			fail("accept-blocked", fmt.Sprintf("%s with %d of %d connections open did not return within %v", ss.Mode, len(kept), ss.MaxConn, acceptWait))
		} else if err == nil {
			// more than MaxConnections open: not a matter of C16; just do not leave it behind
			_ = p.cc.Close()
			_ = p.sc.Close()
		}
	}
	// ---- the server is closed: must return, whatever happened above
	if !within(4*time.Second, func() { _ = server.Close() }) {
		fail("close-hangs", fmt.Sprintf("CqlServer.Close() did not return within 4s after %d accepted connections (MaxConnections %d, AcceptAny %s); stacks: %.3000s",
			accepted, ss.MaxConn, map[bool]string{true: "drained", false: "never called"}[ss.Drain], stacks()))
	}
	close(stopDrain)
	if !within(acceptTimeout+3*time.Second, drainWg.Wait) {
		fail("receiver-blocked", "AcceptAny still blocked after the server was closed")
	}
	for i, p := range kept {
		if !within(3*time.Second, func() { _ = p.cc.Close(); _ = p.sc.Close() }) {
			fail("close-hangs", fmt.Sprintf("Close of kept connection #%d did not return within 3s after the server close", i+1))
		}
	}
	cancel()
	if n := waitGoroutines(baseline, 4*time.Second); n > baseline {
		fail("goroutine-leak", fmt.Sprintf("%d goroutines alive 4s after server and connections were closed (baseline %d); stacks: %.3000s", n, baseline, stacks()))
	}
}

func acceptSessions(tier string) {
	var sessions []acceptSession
	if tier == "thorough" {
		for _, m := range []int{1, 2, 3} {
			for _, mode := range []string{"bind", "bind-init", "connect-accept"} {
				for _, closer := range []string{"client", "serverconn"} {
					if closer == "client" && mode != "connect-accept" {
						continue // a refused Bind leaves its client connection behind: only with Connect+Accept can the session clean up
					}
					for keep := 0; keep <= m; keep++ {
						for _, drain := range []bool{false, true} {
							sessions = append(sessions, acceptSession{MaxConn: m, Clients: 2*m + 2, Keep: keep, Mode: mode, Closer: closer, Drain: drain})
						}
					}
				}
			}
		}
	} else {
		sessions = []acceptSession{
			{MaxConn: 1, Clients: 3, Keep: 0, Mode: "bind", Closer: "serverconn"},
			{MaxConn: 1, Clients: 3, Keep: 0, Mode: "connect-accept", Closer: "client"},
			{MaxConn: 2, Clients: 5, Keep: 1, Mode: "bind-init", Closer: "serverconn"},
			{MaxConn: 2, Clients: 5, Keep: 1, Mode: "connect-accept", Closer: "client"},
			{MaxConn: 2, Clients: 2, Keep: 2, Mode: "bind", Closer: "serverconn"},
			{MaxConn: 1, Clients: 3, Keep: 0, Mode: "connect-accept", Closer: "client", Drain: true},
			{MaxConn: 2, Clients: 5, Keep: 1, Mode: "bind-init", Closer: "serverconn", Drain: true},
		}
	}
	rec := predRec{Kind: "pred", Name: "accept-sessions (more successive client connections than MaxConnections: accept path returns, slots are reused, CqlServer.Close returns, goroutines end; exercised, not proved)"}
	for _, ss := range sessions {
		ss := ss
		rec.Checked++
		failed := false
		runAcceptSession(ss, func(kind, what string) {
			failed = true
			if len(rec.Failures) < 10 {
				rec.Failures = append(rec.Failures, sockFailure{Kind: kind, What: what, Case: map[string]interface{}{"accept_session": ss}})
			}
		})
		if !failed {
			rec.Distinct++
		}
	}
	hlib.Emit(rec)
}
