package main

// Concurrent senders + one responder on the real handler (exercised, not proved): managed sends from several
// goroutines while a responder answers in scrambled order; uniqueness and bounds of the ids handed out are checked
// by a shared ledger, conservation at the end. Also: explicit ids racing on the same id (F10 probe).

import (
	"fmt"
	"math/rand"
	"runtime"
	"sync"
	"sync/atomic"
	"time"

	"github.com/datastax/go-cassandra-native-protocol/client"
	"verifharness/hlib"
)

func stress(tier string) {
	rounds := 3
	if tier == "thorough" {
		rounds = 20
	}
	rec := predRec{Kind: "pred", Name: "concurrent senders and responder on the real handler (exercised, not proved)"}
	rng := rand.New(rand.NewSource(hlib.Seed()))
	for round := 0; round < rounds; round++ {
		n := []int{1, 2, 3, 8, 64}[round%5]
		h := client.VerifNewHandler(n, 4, time.Hour)
		var mu sync.Mutex           // guards rec only
		owner := make([]int32, n+1) // owner[id] != 0: an accepted, unanswered request holds id
		var answered = make(chan int16, 1<<16)
		var wg sync.WaitGroup
		senders := 6
		per := 300
		stop := make(chan struct{})
		var accepted int32
		deadline := time.Now().Add(400 * time.Millisecond)
		for sdr := 0; sdr < senders; sdr++ {
			wg.Add(1)
			go func(token int32) {
				defer wg.Done()
				got := 0
				for got < per && time.Now().Before(deadline) {
					f := requestFrame(0)
					r, err := h.Enqueue(f) // no harness lock: senders really run concurrently inside the handler
					if err != nil {
						runtime.Gosched()
						continue
					}
					id := r.StreamId()
					if id < 1 || int(id) > n {
						mu.Lock()
						rec.Failures = append(rec.Failures, sockFailure{Kind: "id-out-of-bounds", What: fmt.Sprintf("N=%d id=%d", n, id)})
						mu.Unlock()
					} else if !atomic.CompareAndSwapInt32(&owner[id], 0, token) {
						mu.Lock()
						rec.Failures = append(rec.Failures, sockFailure{Kind: "duplicate-id", What: fmt.Sprintf("N=%d id=%d handed out while an unanswered request holds it", n, id)})
						mu.Unlock()
					}
					got++
					atomic.AddInt32(&accepted, 1)
					answered <- id
				}
			}(int32(sdr + 1))
		}
		var rg sync.WaitGroup
		rg.Add(1)
		go func() { // responder: answers what was sent, not holding the ledger lock during delivery
			defer rg.Done()
			step := int64(0)
			for {
				select {
				case id := <-answered:
					if int(id) >= 1 && int(id) <= n {
						atomic.StoreInt32(&owner[id], 0) // cleared before the frame is delivered, i.e. before the id can be reused
					}
					step++
					_ = h.Deliver(responseFrame(int(id), true, step))
				case <-stop:
					return
				}
			}
		}()
		wg.Wait()
		for len(answered) > 0 {
			time.Sleep(time.Millisecond)
		}
		time.Sleep(5 * time.Millisecond)
		close(stop)
		rg.Wait()
		rec.Checked += int(accepted)
		if l := h.InFlightLen(); l != 0 || h.PoolLen() != n {
			rec.Failures = append(rec.Failures, sockFailure{Kind: "conservation", What: fmt.Sprintf("after all answers: %d registered, %d of %d ids free", l, h.PoolLen(), n)})
		} else {
			rec.Distinct++
		}
		h.Close()
		h.CancelContext()
		_ = rng
	}
	hlib.Emit(rec)
	n10 := 3000
	if tier == "thorough" {
		n10 = 60000
	}
	both, total := f10probe(n10)
	r10 := predRec{Kind: "pred", Name: "F10 probe: two concurrent sends with the same explicit id, both accepted", Checked: total, Distinct: both}
	if both > 0 {
		r10.Failures = append(r10.Failures, sockFailure{Kind: "explicit-id-race", What: fmt.Sprintf("explicit id 7 accepted twice concurrently in %d of %d rounds (check-then-act in onOutgoingFrameEnqueued)", both, total),
			Case: map[string]interface{}{"schedule": "two goroutines, Send(explicit 7) at the same time", "explicit": true}})
	}
	hlib.Emit(r10)
}

// F10 probe: two goroutines send the SAME explicit id at the same moment. The duplicate check of
// onOutgoingFrameEnqueued is made under RLock and the insertion later under Lock, so both can pass.
// Reports how often both sends were accepted (a schedule-dependent defect: a positive count confirms it on the real code).
func f10probe(rounds int) (both int, total int) {
	for i := 0; i < rounds; i++ {
		h := client.VerifNewHandler(4, 2, time.Hour)
		var start, done sync.WaitGroup
		start.Add(1)
		var ok int32
		for g := 0; g < 2; g++ {
			done.Add(1)
			go func() {
				defer done.Done()
				start.Wait()
				if _, err := h.Enqueue(requestFrame(7)); err == nil {
					atomic.AddInt32(&ok, 1)
				}
			}()
		}
		start.Done()
		done.Wait()
		if ok == 2 {
			both++
		}
		total++
		h.Close()
		h.CancelContext()
	}
	return
}
