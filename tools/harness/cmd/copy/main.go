// Command copy (area `copy`, property C17): a reflective walker over every type of /repo that has a deep-copy operation.
//
// usage: harness-copy <deepcopy_table.json> [thorough]
//
// For every registered type it populates every field (nested pointers, slices of slices, maps of slices, every
// implementation of every interface), calls the real DeepCopy / DeepCopyInto / DeepCopy<Interface>, and checks
//   (1) reflect.DeepEqual(copy, original), and that the original is unchanged by the call,
//   (2) no pointer target / slice backing array / map reachable from the copy overlaps memory reachable from the original,
//   (3) mutation: every reachable leaf / element / map entry of the copy is changed in turn and the original's deep
//       rendering must stay the same, and the reverse.
// It prints, one JSON object per line: the registry cross-check against the translator's table, the shape of every
// type as reflection sees it, and one record per case with the original and the copy as label-annotated value trees
// (Gallina terms of model/DeepCopy.v: a label per piece of mutable memory, numbered in pre-order; memory of the copy that
// is memory of the original keeps the original's label), so that the model's run of the regenerated copy plan can be
// compared with what the implementation did, labels included.
package main

import (
	"encoding/json"
	"fmt"
	"math"
	"math/rand"
	"os"
	"reflect"
	"regexp"
	"sort"
	"strings"
	"unsafe"

	"github.com/datastax/go-cassandra-native-protocol/datatype"
	"github.com/datastax/go-cassandra-native-protocol/frame"
	"github.com/datastax/go-cassandra-native-protocol/message"
	"github.com/datastax/go-cassandra-native-protocol/primitive"
	"github.com/datastax/go-cassandra-native-protocol/segment"
	"verifharness/hlib"
)

const module = "github.com/datastax/go-cassandra-native-protocol/"

var modulePkgs = map[string]bool{"primitive": true, "datatype": true, "message": true, "frame": true, "segment": true}

// registry of zero values: every type that is expected to have a deep-copy operation. Maintained by hand; the run
// reports a type that is in the translator's table but not here, and the reverse.
var registry = map[string]reflect.Type{
	"datatype.Custom":                 reflect.TypeOf(datatype.Custom{}),
	"datatype.List":                   reflect.TypeOf(datatype.List{}),
	"datatype.Map":                    reflect.TypeOf(datatype.Map{}),
	"datatype.PrimitiveType":          reflect.TypeOf(datatype.PrimitiveType{}),
	"datatype.Set":                    reflect.TypeOf(datatype.Set{}),
	"datatype.Tuple":                  reflect.TypeOf(datatype.Tuple{}),
	"datatype.UserDefined":            reflect.TypeOf(datatype.UserDefined{}),
	"frame.Body":                      reflect.TypeOf(frame.Body{}),
	"frame.Frame":                     reflect.TypeOf(frame.Frame{}),
	"frame.Header":                    reflect.TypeOf(frame.Header{}),
	"frame.RawFrame":                  reflect.TypeOf(frame.RawFrame{}),
	"message.AlreadyExists":           reflect.TypeOf(message.AlreadyExists{}),
	"message.AuthChallenge":           reflect.TypeOf(message.AuthChallenge{}),
	"message.AuthResponse":            reflect.TypeOf(message.AuthResponse{}),
	"message.AuthSuccess":             reflect.TypeOf(message.AuthSuccess{}),
	"message.Authenticate":            reflect.TypeOf(message.Authenticate{}),
	"message.AuthenticationError":     reflect.TypeOf(message.AuthenticationError{}),
	"message.Batch":                   reflect.TypeOf(message.Batch{}),
	"message.BatchChild":              reflect.TypeOf(message.BatchChild{}),
	"message.ColumnMetadata":          reflect.TypeOf(message.ColumnMetadata{}),
	"message.ConfigError":             reflect.TypeOf(message.ConfigError{}),
	"message.ContinuousPagingOptions": reflect.TypeOf(message.ContinuousPagingOptions{}),
	"message.Execute":                 reflect.TypeOf(message.Execute{}),
	"message.FunctionFailure":         reflect.TypeOf(message.FunctionFailure{}),
	"message.Invalid":                 reflect.TypeOf(message.Invalid{}),
	"message.IsBootstrapping":         reflect.TypeOf(message.IsBootstrapping{}),
	"message.Options":                 reflect.TypeOf(message.Options{}),
	"message.Overloaded":              reflect.TypeOf(message.Overloaded{}),
	"message.Prepare":                 reflect.TypeOf(message.Prepare{}),
	"message.PreparedResult":          reflect.TypeOf(message.PreparedResult{}),
	"message.ProtocolError":           reflect.TypeOf(message.ProtocolError{}),
	"message.Query":                   reflect.TypeOf(message.Query{}),
	"message.QueryOptions":            reflect.TypeOf(message.QueryOptions{}),
	"message.ReadFailure":             reflect.TypeOf(message.ReadFailure{}),
	"message.ReadTimeout":             reflect.TypeOf(message.ReadTimeout{}),
	"message.Ready":                   reflect.TypeOf(message.Ready{}),
	"message.Register":                reflect.TypeOf(message.Register{}),
	"message.Revise":                  reflect.TypeOf(message.Revise{}),
	"message.RowsMetadata":            reflect.TypeOf(message.RowsMetadata{}),
	"message.RowsResult":              reflect.TypeOf(message.RowsResult{}),
	"message.SchemaChangeEvent":       reflect.TypeOf(message.SchemaChangeEvent{}),
	"message.SchemaChangeResult":      reflect.TypeOf(message.SchemaChangeResult{}),
	"message.ServerError":             reflect.TypeOf(message.ServerError{}),
	"message.SetKeyspaceResult":       reflect.TypeOf(message.SetKeyspaceResult{}),
	"message.Startup":                 reflect.TypeOf(message.Startup{}),
	"message.StatusChangeEvent":       reflect.TypeOf(message.StatusChangeEvent{}),
	"message.Supported":               reflect.TypeOf(message.Supported{}),
	"message.SyntaxError":             reflect.TypeOf(message.SyntaxError{}),
	"message.TopologyChangeEvent":     reflect.TypeOf(message.TopologyChangeEvent{}),
	"message.TruncateError":           reflect.TypeOf(message.TruncateError{}),
	"message.Unauthorized":            reflect.TypeOf(message.Unauthorized{}),
	"message.Unavailable":             reflect.TypeOf(message.Unavailable{}),
	"message.Unprepared":              reflect.TypeOf(message.Unprepared{}),
	"message.VariablesMetadata":       reflect.TypeOf(message.VariablesMetadata{}),
	"message.VoidResult":              reflect.TypeOf(message.VoidResult{}),
	"message.WriteFailure":            reflect.TypeOf(message.WriteFailure{}),
	"message.WriteTimeout":            reflect.TypeOf(message.WriteTimeout{}),
	"primitive.FailureReason":         reflect.TypeOf(primitive.FailureReason{}),
	"primitive.Inet":                  reflect.TypeOf(primitive.Inet{}),
	"primitive.UUID":                  reflect.TypeOf(primitive.UUID{}),
	"primitive.Value":                 reflect.TypeOf(primitive.Value{}),
	"segment.Header":                  reflect.TypeOf(segment.Header{}),
	"segment.Payload":                 reflect.TypeOf(segment.Payload{}),
	"segment.Segment":                 reflect.TypeOf(segment.Segment{}),
}

var ifaceTypes = map[string]reflect.Type{
	"message.Message":   reflect.TypeOf((*message.Message)(nil)).Elem(),
	"datatype.DataType": reflect.TypeOf((*datatype.DataType)(nil)).Elem(),
}

// ---------------------------------------------------------------- shapes by reflection

type tyJ struct {
	K    string `json:"k"`
	N    string `json:"n,omitempty"`
	Len  int64  `json:"len,omitempty"`
	Elem *tyJ   `json:"e,omitempty"`
	Key  *tyJ   `json:"key,omitempty"`
	Go   string `json:"go,omitempty"`
}

type fieldJ struct {
	Name string `json:"name"`
	Ty   *tyJ   `json:"ty"`
}

func qual(t reflect.Type) string {
	p := t.PkgPath()
	if strings.HasPrefix(p, module) {
		p = p[len(module):]
	}
	return p + "." + t.Name()
}

func inModule(t reflect.Type) bool {
	p := t.PkgPath()
	return strings.HasPrefix(p, module) && modulePkgs[p[len(module):]]
}

func hasCopyMethod(t reflect.Type) bool {
	pt := reflect.PtrTo(t)
	for i := 0; i < pt.NumMethod(); i++ {
		if strings.HasPrefix(pt.Method(i).Name, "DeepCopy") {
			return true
		}
	}
	return false
}

func shapeOf(t reflect.Type) *tyJ {
	if t.Name() != "" && t.PkgPath() != "" {
		if inModule(t) {
			switch t.Kind() {
			case reflect.Struct:
				return &tyJ{K: "named", N: qual(t)}
			case reflect.Interface:
				return &tyJ{K: "iface", N: qual(t)}
			}
			if hasCopyMethod(t) {
				return &tyJ{K: "named", N: qual(t)}
			}
		} else if t.Kind() == reflect.Struct || t.Kind() == reflect.Interface {
			return &tyJ{K: "unsupported", N: t.String()}
		}
	}
	switch t.Kind() {
	case reflect.Bool, reflect.Int, reflect.Int8, reflect.Int16, reflect.Int32, reflect.Int64, reflect.Uint, reflect.Uint8, reflect.Uint16,
		reflect.Uint32, reflect.Uint64, reflect.Uintptr, reflect.Float32, reflect.Float64, reflect.Complex64, reflect.Complex128:
		return &tyJ{K: "scalar", Go: t.Kind().String()}
	case reflect.String:
		return &tyJ{K: "string"}
	case reflect.Ptr:
		return &tyJ{K: "ptr", Elem: shapeOf(t.Elem())}
	case reflect.Slice:
		return &tyJ{K: "slice", Elem: shapeOf(t.Elem())}
	case reflect.Array:
		return &tyJ{K: "array", Len: int64(t.Len()), Elem: shapeOf(t.Elem())}
	case reflect.Map:
		return &tyJ{K: "map", Key: shapeOf(t.Key()), Elem: shapeOf(t.Elem())}
	}
	return &tyJ{K: "unsupported", N: t.String()}
}

func (t *tyJ) coq() string {
	switch t.K {
	case "scalar":
		return "TScalar"
	case "string":
		return "TString"
	case "ptr":
		return "(TPtr " + t.Elem.coq() + ")"
	case "slice":
		return "(TSlice " + t.Elem.coq() + ")"
	case "array":
		return fmt.Sprintf("(TArray %d %s)", t.Len, t.Elem.coq())
	case "map":
		return "(TMap " + t.Key.coq() + " " + t.Elem.coq() + ")"
	case "iface":
		return "(TIface " + coqStr(t.N) + ")"
	case "named":
		return "(TNamed " + coqStr(t.N) + ")"
	}
	return "TScalar"
}

func coqStr(s string) string {
	return "\"" + strings.ReplaceAll(s, "\"", "\"\"") + "\""
}

// ---------------------------------------------------------------- access to unexported fields

func settable(f reflect.Value) reflect.Value {
	if f.CanSet() || !f.CanAddr() {
		return f
	}
	return reflect.NewAt(f.Type(), unsafe.Pointer(f.UnsafeAddr())).Elem()
}

// ---------------------------------------------------------------- population

type gen struct {
	rng      *rand.Rand
	mode     string // full | zero | empty | mixed
	ctr      map[string]int
	impls    map[string][]reflect.Type // interface -> implementations (struct types), sorted by name
	leafImpl map[string][]reflect.Type // implementations without interface reach
}

func (g *gen) str() string {
	const al = "abcdefghijklmnopqrstuvwxyz0123456789_"
	n := 1 + g.rng.Intn(6)
	b := make([]byte, n)
	for i := range b {
		b[i] = al[g.rng.Intn(len(al))]
	}
	return string(b)
}

// choice: 0 = nil, 1 = empty, 2 = populated
func (g *gen) choice() int {
	switch g.mode {
	case "full":
		return 2
	case "empty":
		return 1
	case "zero":
		return 0
	}
	return 2 // mixed: every kind draws for itself below
}

func (g *gen) fill(v reflect.Value, ifDepth int) {
	switch v.Kind() {
	case reflect.Bool:
		if g.mode != "zero" {
			v.SetBool(true)
		}
	case reflect.Int, reflect.Int8, reflect.Int16, reflect.Int32, reflect.Int64:
		if g.mode != "zero" {
			x := int64(1 + g.rng.Intn(100))
			if g.rng.Intn(4) == 0 {
				x = -x
			}
			if g.rng.Intn(3) == 0 {
				// small values of either sign: the declared constants of the enumeration-like integer types (a copy method that
				// branches on such a field - say on primitive.ValueTypeNull = -1 / ValueTypeUnset = -2 - is only exercised by them)
				x = int64(g.rng.Intn(7) - 3)
			}
			v.SetInt(x)
		}
	case reflect.Uint, reflect.Uint8, reflect.Uint16, reflect.Uint32, reflect.Uint64, reflect.Uintptr:
		if g.mode != "zero" {
			v.SetUint(uint64(1 + g.rng.Intn(100)))
		}
	case reflect.Float32, reflect.Float64:
		if g.mode != "zero" {
			v.SetFloat(float64(1+g.rng.Intn(100)) / 4)
		}
	case reflect.String:
		if g.mode != "zero" {
			v.SetString(g.str())
		}
	case reflect.Ptr:
		c := g.choice()
		if g.mode == "mixed" {
			c = []int{0, 2, 2}[g.rng.Intn(3)]
		}
		if c == 0 {
			return
		}
		p := reflect.New(v.Type().Elem())
		sub := *g
		if g.mode == "empty" { // a non-nil pointer to a zero struct with empty containers
			sub.mode = "empty"
		}
		sub.fill(p.Elem(), ifDepth)
		v.Set(p)
	case reflect.Slice:
		c := g.choice()
		if g.mode == "mixed" {
			c = g.rng.Intn(3)
		}
		switch c {
		case 0:
		case 1:
			v.Set(reflect.MakeSlice(v.Type(), 0, 0))
		default:
			n := 2
			if g.mode == "mixed" {
				n = 1 + g.rng.Intn(3)
			}
			s := reflect.MakeSlice(v.Type(), n, n+g.rng.Intn(2))
			for i := 0; i < n; i++ {
				g.fill(s.Index(i), ifDepth)
			}
			v.Set(s)
		}
	case reflect.Array:
		for i := 0; i < v.Len(); i++ {
			g.fill(v.Index(i), ifDepth)
		}
	case reflect.Map:
		c := g.choice()
		if g.mode == "mixed" {
			c = g.rng.Intn(3)
		}
		switch c {
		case 0:
		case 1:
			v.Set(reflect.MakeMap(v.Type()))
		default:
			m := reflect.MakeMap(v.Type())
			n := 2
			if g.mode == "mixed" {
				n = 1 + g.rng.Intn(3)
			}
			for i := 0; i < n; i++ {
				k := reflect.New(v.Type().Key()).Elem()
				kg := *g
				kg.mode = "full"
				kg.fill(k, ifDepth)
				if k.Kind() == reflect.String {
					k.SetString(fmt.Sprintf("k%d%s", i, k.String()))
				}
				e := reflect.New(v.Type().Elem()).Elem()
				g.fill(e, ifDepth)
				m.SetMapIndex(k, e)
			}
			v.Set(m)
		}
	case reflect.Interface:
		c := g.choice()
		if g.mode == "mixed" {
			c = []int{0, 2, 2, 2}[g.rng.Intn(4)]
		}
		if c == 0 {
			return
		}
		name := qual(v.Type())
		cands := g.impls[name]
		if ifDepth >= 3 {
			cands = g.leafImpl[name]
		}
		if len(cands) == 0 {
			return
		}
		var t reflect.Type
		if g.mode == "mixed" {
			t = cands[g.rng.Intn(len(cands))]
		} else {
			t = cands[g.ctr[name]%len(cands)]
			g.ctr[name]++
		}
		p := reflect.New(t)
		g.fill(p.Elem(), ifDepth+1)
		v.Set(p)
	case reflect.Struct:
		for i := 0; i < v.NumField(); i++ {
			g.fill(settable(v.Field(i)), ifDepth)
		}
	}
}

// ---------------------------------------------------------------- label-annotated trees

type region struct {
	lo, hi uintptr
	label  int
}

type labels struct {
	byAddr  map[uintptr]int
	regions []region
	next    int
}

type dumper struct {
	own     *labels // labels given to memory first seen in this dump
	old     *labels // labels of the original (nil when dumping the original)
	erased  bool    // print every label as 0
	aliased []string
	nodes   int
	bad     []string
	paths   map[string]bool // normalised paths of the mutable nodes visited
}

var reIdx = regexp.MustCompile(`\[[0-9]+\]`)
var reKey = regexp.MustCompile(`\{[^}]*\}`)

// norm strips slice indices and map keys from a field path.
func norm(p string) string { return reKey.ReplaceAllString(reIdx.ReplaceAllString(p, "[]"), "{}") }


func (d *dumper) label(addr uintptr, size uintptr, path string) int {
	d.nodes++
	if d.erased {
		return 0
	}
	if d.paths != nil {
		d.paths[norm(path)] = true
	}
	if size == 0 { // zero-size allocations share runtime.zerobase: not mutable memory, always "fresh"
		l := d.own.next
		d.own.next++
		return l
	}
	if d.old != nil {
		for _, r := range d.old.regions {
			if addr < r.hi && r.lo < addr+size {
				d.aliased = append(d.aliased, path)
				if l, ok := d.old.byAddr[addr]; ok {
					return l
				}
				return r.label
			}
		}
	}
	if l, ok := d.own.byAddr[addr]; ok {
		return l
	}
	l := d.own.next
	d.own.next++
	d.own.byAddr[addr] = l
	d.own.regions = append(d.own.regions, region{addr, addr + size, l})
	return l
}

func zlit(x string) string {
	if strings.HasPrefix(x, "-") {
		return "(" + x + ")"
	}
	return x
}

func (d *dumper) dump(v reflect.Value, path string, b *strings.Builder) {
	switch v.Kind() {
	case reflect.Bool:
		if v.Bool() {
			b.WriteString("VS 1")
		} else {
			b.WriteString("VS 0")
		}
	case reflect.Int, reflect.Int8, reflect.Int16, reflect.Int32, reflect.Int64:
		b.WriteString("VS " + zlit(fmt.Sprint(v.Int())))
	case reflect.Uint, reflect.Uint8, reflect.Uint16, reflect.Uint32, reflect.Uint64, reflect.Uintptr:
		b.WriteString("VS " + fmt.Sprint(v.Uint()))
	case reflect.Float32, reflect.Float64:
		b.WriteString("VS " + fmt.Sprint(math.Float64bits(v.Float())))
	case reflect.String:
		b.WriteString("VStr " + coqStr(v.String()))
	case reflect.Ptr:
		if v.IsNil() {
			b.WriteString("VNil")
			return
		}
		l := d.label(v.Pointer(), v.Type().Elem().Size(), path)
		fmt.Fprintf(b, "VPtr %d (", l)
		d.dump(v.Elem(), path+"->", b)
		b.WriteString(")")
	case reflect.Slice:
		if v.IsNil() {
			b.WriteString("VNil")
			return
		}
		l := d.label(v.Pointer(), uintptr(v.Len())*v.Type().Elem().Size(), path)
		fmt.Fprintf(b, "VSlice %d [", l)
		for i := 0; i < v.Len(); i++ {
			if i > 0 {
				b.WriteString("; ")
			}
			d.dump(v.Index(i), fmt.Sprintf("%s[%d]", path, i), b)
		}
		b.WriteString("]")
	case reflect.Array:
		b.WriteString("VArr [")
		for i := 0; i < v.Len(); i++ {
			if i > 0 {
				b.WriteString("; ")
			}
			d.dump(v.Index(i), fmt.Sprintf("%s[%d]", path, i), b)
		}
		b.WriteString("]")
	case reflect.Map:
		if v.IsNil() {
			b.WriteString("VNil")
			return
		}
		l := d.label(v.Pointer(), 8, path)
		fmt.Fprintf(b, "VMap %d [", l)
		for i, k := range sortedKeys(v) {
			if i > 0 {
				b.WriteString("; ")
			}
			b.WriteString("(")
			d.dump(k, path+"{key}", b)
			b.WriteString(", ")
			d.dump(v.MapIndex(k), fmt.Sprintf("%s{%v}", path, k.Interface()), b)
			b.WriteString(")")
		}
		b.WriteString("]")
	case reflect.Interface:
		if v.IsNil() {
			b.WriteString("VNil")
			return
		}
		e := v.Elem()
		if e.Kind() != reflect.Ptr {
			d.bad = append(d.bad, path+": interface holds a "+e.Type().String())
			b.WriteString("VNil")
			return
		}
		fmt.Fprintf(b, "VIface %s (", coqStr(qual(e.Type().Elem())))
		d.dump(e, path+"("+qual(e.Type().Elem())+")", b)
		b.WriteString(")")
	case reflect.Struct:
		b.WriteString("VStruct [")
		for i := 0; i < v.NumField(); i++ {
			if i > 0 {
				b.WriteString("; ")
			}
			d.dump(v.Field(i), path+"."+v.Type().Field(i).Name, b)
		}
		b.WriteString("]")
	default:
		d.bad = append(d.bad, path+": kind "+v.Kind().String())
		b.WriteString("VNil")
	}
}

func sortedKeys(m reflect.Value) []reflect.Value {
	ks := m.MapKeys()
	sort.Slice(ks, func(i, j int) bool { return fmt.Sprint(ks[i].Interface()) < fmt.Sprint(ks[j].Interface()) })
	return ks
}

func erasedDump(v reflect.Value) string {
	var b strings.Builder
	(&dumper{erased: true}).dump(v, "", &b)
	return b.String()
}

// firstDiff returns the path of the first place where two values of the same type differ ("" if none).
func firstDiff(a, b reflect.Value, path string) string {
	if a.Kind() != b.Kind() {
		return path
	}
	switch a.Kind() {
	case reflect.Ptr:
		if a.IsNil() != b.IsNil() {
			return path
		}
		if a.IsNil() {
			return ""
		}
		return firstDiff(a.Elem(), b.Elem(), path+"->")
	case reflect.Slice:
		if a.IsNil() != b.IsNil() || a.Len() != b.Len() {
			return path
		}
		for i := 0; i < a.Len(); i++ {
			if d := firstDiff(a.Index(i), b.Index(i), fmt.Sprintf("%s[%d]", path, i)); d != "" {
				return d
			}
		}
	case reflect.Array:
		for i := 0; i < a.Len(); i++ {
			if d := firstDiff(a.Index(i), b.Index(i), fmt.Sprintf("%s[%d]", path, i)); d != "" {
				return d
			}
		}
	case reflect.Map:
		if a.IsNil() != b.IsNil() || a.Len() != b.Len() {
			return path
		}
		for _, k := range sortedKeys(a) {
			e := b.MapIndex(k)
			if !e.IsValid() {
				return fmt.Sprintf("%s{%v}", path, k.Interface())
			}
			if d := firstDiff(a.MapIndex(k), e, fmt.Sprintf("%s{%v}", path, k.Interface())); d != "" {
				return d
			}
		}
	case reflect.Interface:
		if a.IsNil() != b.IsNil() {
			return path
		}
		if a.IsNil() {
			return ""
		}
		if a.Elem().Type() != b.Elem().Type() {
			return path
		}
		n := a.Elem().Type().String()
		if a.Elem().Kind() == reflect.Ptr {
			n = qual(a.Elem().Type().Elem())
		}
		return firstDiff(a.Elem(), b.Elem(), path+"("+n+")")
	case reflect.Struct:
		for i := 0; i < a.NumField(); i++ {
			if d := firstDiff(a.Field(i), b.Field(i), path+"."+a.Type().Field(i).Name); d != "" {
				return d
			}
		}
	case reflect.Bool:
		if a.Bool() != b.Bool() {
			return path
		}
	case reflect.Int, reflect.Int8, reflect.Int16, reflect.Int32, reflect.Int64:
		if a.Int() != b.Int() {
			return path
		}
	case reflect.Uint, reflect.Uint8, reflect.Uint16, reflect.Uint32, reflect.Uint64, reflect.Uintptr:
		if a.Uint() != b.Uint() {
			return path
		}
	case reflect.Float32, reflect.Float64:
		if math.Float64bits(a.Float()) != math.Float64bits(b.Float()) {
			return path
		}
	case reflect.String:
		if a.String() != b.String() {
			return path
		}
	}
	return ""
}

// ---------------------------------------------------------------- mutation

// mutate changes every reachable leaf / element / map entry of v in turn, calls probe after each change, restores.
func mutate(v reflect.Value, path string, probe func(path string), count *int) {
	switch v.Kind() {
	case reflect.Bool:
		if v.CanSet() {
			old := v.Bool()
			v.SetBool(!old)
			*count++
			probe(path)
			v.SetBool(old)
		}
	case reflect.Int, reflect.Int8, reflect.Int16, reflect.Int32, reflect.Int64:
		if v.CanSet() {
			old := v.Int()
			v.SetInt(old ^ 1)
			*count++
			probe(path)
			v.SetInt(old)
		}
	case reflect.Uint, reflect.Uint8, reflect.Uint16, reflect.Uint32, reflect.Uint64, reflect.Uintptr:
		if v.CanSet() {
			old := v.Uint()
			v.SetUint(old ^ 1)
			*count++
			probe(path)
			v.SetUint(old)
		}
	case reflect.Float32, reflect.Float64:
		if v.CanSet() {
			old := v.Float()
			v.SetFloat(old + 1)
			*count++
			probe(path)
			v.SetFloat(old)
		}
	case reflect.String:
		if v.CanSet() {
			old := v.String()
			v.SetString(old + "!")
			*count++
			probe(path)
			v.SetString(old)
		}
	case reflect.Ptr:
		if v.IsNil() {
			return
		}
		mutate(v.Elem(), path+"->", probe, count)
		if v.CanSet() {
			old := reflect.New(v.Type()).Elem()
			old.Set(v)
			v.Set(reflect.Zero(v.Type()))
			*count++
			probe(path)
			v.Set(old)
		}
	case reflect.Slice:
		if v.IsNil() {
			return
		}
		for i := 0; i < v.Len(); i++ {
			mutate(v.Index(i), fmt.Sprintf("%s[%d]", path, i), probe, count)
		}
		if v.CanSet() {
			old := reflect.New(v.Type()).Elem()
			old.Set(v)
			v.Set(reflect.Zero(v.Type()))
			*count++
			probe(path)
			v.Set(old)
		}
	case reflect.Array:
		for i := 0; i < v.Len(); i++ {
			mutate(v.Index(i), fmt.Sprintf("%s[%d]", path, i), probe, count)
		}
	case reflect.Map:
		if v.IsNil() {
			return
		}
		for _, k := range sortedKeys(v) {
			e := v.MapIndex(k)
			p := fmt.Sprintf("%s{%v}", path, k.Interface())
			// what is reachable through the entry
			mutate(e, p, probe, count)
			// the entry itself
			v.SetMapIndex(k, reflect.Zero(v.Type().Elem()))
			*count++
			alt := reflect.New(v.Type().Elem()).Elem()
			alt.Set(e)
			if alt.Kind() == reflect.String {
				alt.SetString(e.String() + "!")
				v.SetMapIndex(k, alt)
			}
			probe(p)
			v.SetMapIndex(k, reflect.Value{})
			probe(p + " (deleted)")
			v.SetMapIndex(k, e)
		}
		if v.Type().Key().Kind() == reflect.String {
			nk := reflect.New(v.Type().Key()).Elem()
			nk.SetString("~new~")
			v.SetMapIndex(nk, reflect.Zero(v.Type().Elem()))
			*count++
			probe(path + " (insert)")
			v.SetMapIndex(nk, reflect.Value{})
		}
	case reflect.Interface:
		if v.IsNil() {
			return
		}
		mutate(v.Elem(), path+"("+qual(v.Elem().Type().Elem())+")", probe, count)
		if v.CanSet() {
			old := reflect.New(v.Type()).Elem()
			old.Set(v)
			v.Set(reflect.Zero(v.Type()))
			*count++
			probe(path)
			v.Set(old)
		}
	case reflect.Struct:
		for i := 0; i < v.NumField(); i++ {
			mutate(settable(v.Field(i)), path+"."+v.Type().Field(i).Name, probe, count)
		}
	}
}

// ---------------------------------------------------------------- cases

type caseRec struct {
	Kind          string   `json:"kind"`
	Id            string   `json:"id"`
	Type          string   `json:"type"`
	Method        string   `json:"method"`
	Fn            string   `json:"fn"`
	Variant       string   `json:"variant"`
	ArgTy         string   `json:"arg_ty"`
	Next          int      `json:"next"`
	Orig          string   `json:"orig"`
	Copy          string   `json:"copy"`
	Equal         bool     `json:"equal"`
	OrigUnchanged bool     `json:"orig_unchanged"`
	Nodes         int      `json:"nodes"`
	Mutations     int      `json:"mutations"`
	Paths         []string `json:"paths"`
	Aliased       []string `json:"aliased"`
	LeakC2O       []string `json:"leak_copy_to_orig"`
	LeakO2C       []string `json:"leak_orig_to_copy"`
	Panic         string   `json:"panic,omitempty"`
	Bad           []string `json:"bad,omitempty"`
	TypedNil      string   `json:"typed_nil,omitempty"`
	CopyNilIface  bool     `json:"copy_is_untyped_nil,omitempty"`
	DiffPath      string   `json:"diff_path,omitempty"`
}

var caseNo int

// runCase copies *orig (orig is a pointer to a populated T) with the named method and checks it.
func runCase(tname string, orig reflect.Value, method string, variant string, typedNil string) {
	caseNo++
	t := orig.Type().Elem()
	rec := caseRec{Kind: "case", Id: fmt.Sprintf("c%d", caseNo), Type: tname, Method: method, Fn: tname + "." + method, Variant: variant, TypedNil: typedNil}
	defer func() {
		if r := recover(); r != nil {
			rec.Panic = fmt.Sprint(r)
			rec.Equal = false
		}
		hlib.Emit(rec)
	}()
	// the value handed to the model: the pointer for DeepCopy / DeepCopy<I>, the struct for DeepCopyInto
	subject := orig
	rec.ArgTy = "(TPtr (TNamed " + coqStr(tname) + "))"
	if method == "DeepCopyInto" {
		subject = orig.Elem()
		rec.ArgTy = "(TNamed " + coqStr(tname) + ")"
	}
	ol := &labels{byAddr: map[uintptr]int{}}
	od := &dumper{own: ol}
	var ob strings.Builder
	od.dump(subject, tname, &ob)
	rec.Orig = ob.String()
	rec.Next = ol.next
	rec.Bad = od.bad
	before := erasedDump(subject)

	// the call
	var result reflect.Value
	switch method {
	case "DeepCopyInto":
		out := reflect.New(t)
		orig.MethodByName(method).Call([]reflect.Value{out})
		result = out.Elem()
	default:
		res := orig.MethodByName(method).Call(nil)
		result = res[0]
		if result.Kind() == reflect.Interface {
			// keep the static interface type so that the dump prints VIface
			h := reflect.New(result.Type()).Elem()
			h.Set(result)
			result = h
		}
	}
	rec.OrigUnchanged = erasedDump(subject) == before

	cl := &labels{byAddr: map[uintptr]int{}, next: ol.next}
	cd := &dumper{own: cl, old: ol, paths: map[string]bool{}}
	var cb strings.Builder
	cd.dump(result, tname, &cb)
	rec.Copy = cb.String()
	rec.Aliased = cd.aliased
	for p := range cd.paths {
		rec.Paths = append(rec.Paths, p)
	}
	sort.Strings(rec.Paths)
	rec.Nodes = cd.nodes
	rec.Bad = append(rec.Bad, cd.bad...)

	// (1) equality
	switch method {
	case "DeepCopyInto":
		rec.Equal = reflect.DeepEqual(result.Interface(), subject.Interface())
	case "DeepCopy":
		rec.Equal = reflect.DeepEqual(result.Interface(), orig.Interface())
	default:
		rec.Equal = !result.IsNil() && reflect.DeepEqual(result.Elem().Interface(), orig.Interface())
		rec.CopyNilIface = result.IsNil()
	}
	if !rec.Equal {
		cmp := result
		if cmp.Kind() == reflect.Interface && !cmp.IsNil() {
			cmp = cmp.Elem()
		}
		if cmp.Type() == subject.Type() {
			rec.DiffPath = firstDiff(subject, cmp, tname)
		}
		if rec.DiffPath == "" {
			rec.DiffPath = tname
		}
	}
	// (3) mutation, both directions
	cview := result
	if method == "DeepCopyInto" {
		cview = result // addressable: out.Elem()
	}
	obase := erasedDump(subject)
	cbase := erasedDump(cview)
	seen := map[string]bool{}
	mutate(cview, tname, func(p string) {
		if erasedDump(subject) != obase && !seen[p] {
			seen[p] = true
			rec.LeakC2O = append(rec.LeakC2O, p)
		}
	}, &rec.Mutations)
	seen = map[string]bool{}
	mutate(subject, tname, func(p string) {
		if erasedDump(cview) != cbase && !seen[p] {
			seen[p] = true
			rec.LeakO2C = append(rec.LeakO2C, p)
		}
	}, &rec.Mutations)
	if erasedDump(subject) != obase || erasedDump(cview) != cbase {
		rec.Bad = append(rec.Bad, "mutation test did not restore the values")
	}
}

func methodsOf(t reflect.Type) []string {
	var ms []string
	pt := reflect.PtrTo(t)
	for i := 0; i < pt.NumMethod(); i++ {
		if n := pt.Method(i).Name; strings.HasPrefix(n, "DeepCopy") {
			ms = append(ms, n)
		}
	}
	sort.Strings(ms)
	return ms
}

// reaches: the interfaces reachable from a type (through pointers, slices, maps, arrays, struct fields; not through interfaces)
func reaches(t reflect.Type, seen map[reflect.Type]bool, out map[string]bool) {
	if seen[t] {
		return
	}
	seen[t] = true
	switch t.Kind() {
	case reflect.Interface:
		out[qual(t)] = true
	case reflect.Ptr, reflect.Slice, reflect.Array:
		reaches(t.Elem(), seen, out)
	case reflect.Map:
		reaches(t.Key(), seen, out)
		reaches(t.Elem(), seen, out)
	case reflect.Struct:
		for i := 0; i < t.NumField(); i++ {
			reaches(t.Field(i).Type, seen, out)
		}
	}
}

func main() {
	defer hlib.Flush()
	if len(os.Args) < 2 {
		fmt.Fprintln(os.Stderr, "usage: harness-copy deepcopy_table.json [thorough]")
		os.Exit(2)
	}
	thorough := len(os.Args) > 2 && os.Args[2] == "thorough"
	var table struct {
		Types []struct {
			Name    string   `json:"name"`
			Methods []string `json:"methods"`
		} `json:"types"`
	}
	if b, err := os.ReadFile(os.Args[1]); err != nil {
		fmt.Fprintln(os.Stderr, err)
		os.Exit(2)
	} else if err := json.Unmarshal(b, &table); err != nil {
		fmt.Fprintln(os.Stderr, err)
		os.Exit(2)
	}
	// ---- registry cross-check
	inTable := map[string]bool{}
	var missHarness, missTable, noMethods []string
	for _, t := range table.Types {
		inTable[t.Name] = true
		if registry[t.Name] == nil {
			missHarness = append(missHarness, t.Name)
		}
	}
	var names []string
	for n, t := range registry {
		names = append(names, n)
		if !inTable[n] {
			missTable = append(missTable, n)
		}
		if len(methodsOf(t)) == 0 {
			noMethods = append(noMethods, n)
		}
	}
	sort.Strings(names)
	sort.Strings(missTable)
	sort.Strings(noMethods)
	hlib.Emit(map[string]interface{}{"kind": "registry", "registered": len(registry), "missing_in_harness": missHarness, "missing_in_table": missTable,
		"registered_without_copy_method": noMethods})

	// ---- shapes and interface implementations, by reflection
	g0 := &gen{impls: map[string][]reflect.Type{}, leafImpl: map[string][]reflect.Type{}}
	for _, n := range names {
		t := registry[n]
		rec := map[string]interface{}{"kind": "shape", "type": n, "methods": methodsOf(t)}
		if t.Kind() == reflect.Struct {
			rec["decl"] = "struct"
			fs := []fieldJ{}
			for i := 0; i < t.NumField(); i++ {
				fs = append(fs, fieldJ{t.Field(i).Name, shapeOf(t.Field(i).Type)})
			}
			rec["fields"] = fs
		} else {
			rec["decl"] = "alias"
			// the underlying type, spelled by kind
			var u *tyJ
			switch t.Kind() {
			case reflect.Array:
				u = &tyJ{K: "array", Len: int64(t.Len()), Elem: shapeOf(t.Elem())}
			case reflect.Slice:
				u = &tyJ{K: "slice", Elem: shapeOf(t.Elem())}
			case reflect.Map:
				u = &tyJ{K: "map", Key: shapeOf(t.Key()), Elem: shapeOf(t.Elem())}
			default:
				u = &tyJ{K: "unsupported", N: t.String()}
			}
			rec["alias"] = u
		}
		hlib.Emit(rec)
	}
	var inames []string
	for n := range ifaceTypes {
		inames = append(inames, n)
	}
	sort.Strings(inames)
	for _, in := range inames {
		it := ifaceTypes[in]
		var impls []string
		for _, n := range names {
			t := registry[n]
			if reflect.PtrTo(t).Implements(it) {
				impls = append(impls, n)
				g0.impls[in] = append(g0.impls[in], t)
				r := map[string]bool{}
				reaches(t, map[reflect.Type]bool{}, r)
				if len(r) == 0 {
					g0.leafImpl[in] = append(g0.leafImpl[in], t)
				}
			}
		}
		hlib.Emit(map[string]interface{}{"kind": "iface", "name": in, "impls": impls})
	}

	// ---- cases
	seed := hlib.Seed()
	mixed := 4
	if thorough {
		mixed = 60
	}
	for ti, n := range names {
		t := registry[n]
		ms := methodsOf(t)
		// number of `full` variants: enough to put every implementation of every reachable interface first
		r := map[string]bool{}
		reaches(t, map[reflect.Type]bool{}, r)
		full := 1
		for in := range r {
			if k := len(g0.impls[in]); k > full {
				full = k
			}
		}
		type variant struct {
			name, mode string
			start      int
			seed       int64
		}
		var vs []variant
		for k := 0; k < full; k++ {
			vs = append(vs, variant{fmt.Sprintf("full#%d", k), "full", k, seed*1000003 + int64(ti)*131 + int64(k)})
		}
		vs = append(vs, variant{"zero", "zero", 0, 1}, variant{"empty", "empty", 0, seed + int64(ti)})
		for k := 0; k < mixed; k++ {
			vs = append(vs, variant{fmt.Sprintf("mixed#%d", k), "mixed", 0, seed*7919 + int64(ti)*977 + int64(k)})
		}
		for _, va := range vs {
			for _, m := range ms {
				g := &gen{rng: rand.New(rand.NewSource(va.seed)), mode: va.mode, ctr: map[string]int{}, impls: g0.impls, leafImpl: g0.leafImpl}
				for in := range g0.impls {
					g.ctr[in] = va.start
				}
				orig := reflect.New(t)
				g.fill(orig.Elem(), 0)
				runCase(n, orig, m, va.name, "")
			}
		}
	}

	// ---- typed nil pointers inside interfaces: every (type, interface-typed field or slice element) x every implementation
	for _, n := range names {
		t := registry[n]
		if t.Kind() != reflect.Struct {
			continue
		}
		for i := 0; i < t.NumField(); i++ {
			ft := t.Field(i).Type
			var it reflect.Type
			inSlice := false
			if ft.Kind() == reflect.Interface {
				it = ft
			} else if ft.Kind() == reflect.Slice && ft.Elem().Kind() == reflect.Interface {
				it = ft.Elem()
				inSlice = true
			} else {
				continue
			}
			for _, impl := range g0.impls[qual(it)] {
				orig := reflect.New(t)
				g := &gen{rng: rand.New(rand.NewSource(seed)), mode: "full", ctr: map[string]int{}, impls: g0.impls, leafImpl: g0.leafImpl}
				g.fill(orig.Elem(), 0)
				f := settable(orig.Elem().Field(i))
				tn := reflect.Zero(reflect.PtrTo(impl)) // (*T)(nil)
				path := n + "." + t.Field(i).Name
				if inSlice {
					f.Index(0).Set(tn)
					path += "[0]"
				} else {
					f.Set(tn)
				}
				runCase(n, orig, "DeepCopy", "typednil:"+qual(impl), path)
			}
		}
	}
}
