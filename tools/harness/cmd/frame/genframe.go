package main

import (
	"bytes"
	"fmt"
	"math"
	"math/rand"
	"strings"

	"github.com/datastax/go-cassandra-native-protocol/datatype"
	"github.com/datastax/go-cassandra-native-protocol/frame"
	"github.com/datastax/go-cassandra-native-protocol/message"
	"github.com/datastax/go-cassandra-native-protocol/primitive"
)

// a generated version-valid frame
type genCase struct {
	kind    string
	version primitive.ProtocolVersion
	comp    string // none | lz4 | snappy : the compressor of the codec (the Compressed flag is set iff comp != none)
	phase   string // corpus | enum | sweep | random | nonvalid
	invalid bool   // not version-valid / not in normal form: characterised, never judged
	class   string
	f       *frame.Frame
}

// header flags and body prefix of a frame
type flagSpec struct {
	tracing  bool
	payload  int // 0: none, 1: one entry, 2: several entries
	warnings int // 0: none, 1: one, 2: several
	beta     bool
	comp     string
}

func (fs flagSpec) String() string {
	var p []string
	if fs.tracing {
		p = append(p, "tracing")
	}
	if fs.payload > 0 {
		p = append(p, fmt.Sprintf("payload%d", fs.payload))
	}
	if fs.warnings > 0 {
		p = append(p, fmt.Sprintf("warnings%d", fs.warnings))
	} else if fs.warnings < 0 {
		p = append(p, "warnflag")
	}
	if fs.beta {
		p = append(p, "beta")
	}
	if fs.comp != "none" && fs.comp != "" {
		p = append(p, fs.comp)
	}
	if len(p) == 0 {
		return "plain"
	}
	return strings.Join(p, ",")
}

// the codec compresses whatever frame carries the flag (the mutators never set it on STARTUP, OPTIONS or READY, but the
// bundled server flags every response once compression is negotiated, READY included); only STARTUP must never be compressed
func compressibleKind(kind string) bool {
	return kind != "Startup"
}

func compressionsFor(kind string, v primitive.ProtocolVersion) []string {
	if !compressibleKind(kind) {
		return []string{"none"}
	}
	if v == v5 {
		return []string{"none", "lz4"} // snappy is not defined for v5
	}
	return []string{"none", "lz4", "snappy"}
}

// every flag combination that is legal for the direction and version (uncompressed), then the compressed extremes
func legalFlagSpecs(k *kindSpec, v primitive.ProtocolVersion) []flagSpec {
	var out []flagSpec
	pl := []int{0}
	wa := []int{0}
	if hasPayloadAndWarnings(v) {
		pl = []int{0, 1, 2}
		if k.response {
			wa = []int{0, 1, 2}
		}
	}
	if !k.response {
		// a request may carry the WARNING header flag (any version): the codec then neither writes nor reads warnings
		wa = []int{0, -1}
	}
	for _, tr := range []bool{false, true} {
		for _, p := range pl {
			for _, w := range wa {
				if w < 0 && p == 1 {
					continue
				}
				out = append(out, flagSpec{tracing: tr, payload: p, warnings: w, comp: "none"})
			}
		}
	}
	for _, comp := range compressionsFor(k.name, v)[1:] {
		out = append(out, flagSpec{comp: comp})
		out = append(out, flagSpec{tracing: true, payload: pl[len(pl)-1], warnings: wa[len(wa)-1], comp: comp})
	}
	if v == v5 {
		out = append(out, flagSpec{beta: true, comp: "none"}) // USE_BETA is defined by the v5 specification only
	}
	return out
}

func randomFlagSpec(c *chooser, k *kindSpec, v primitive.ProtocolVersion) flagSpec {
	fs := flagSpec{comp: "none"}
	fs.tracing = c.val(3) == 0
	if hasPayloadAndWarnings(v) {
		if c.val(3) == 0 {
			fs.payload = 1 + c.val(2)
		}
		if k.response && c.val(3) == 0 {
			fs.warnings = 1 + c.val(2)
		}
	}
	if !k.response && c.val(8) == 0 {
		fs.warnings = -1
	}
	if v == v5 && c.val(12) == 0 {
		fs.beta = true
	}
	comps := compressionsFor(k.name, v)
	if len(comps) > 1 && c.val(3) == 0 {
		fs.comp = comps[1+c.val(len(comps)-1)]
	}
	return fs
}

var streamIdClasses = []int16{0, 1, -1, 127, -128, 42}
var streamIdClassesV3 = []int16{128, 255, 256, -129, 32767, -32768}

func genStreamId(c *chooser, v primitive.ProtocolVersion) int16 {
	if v >= v3 {
		if c.random() && c.val(4) == 0 {
			return int16(c.val(65536) - 32768)
		}
		if c.val(2) == 0 {
			return streamIdClassesV3[c.val(len(streamIdClassesV3))]
		}
	} else if c.random() && c.val(4) == 0 {
		return int16(c.val(256) - 128)
	}
	return streamIdClasses[c.val(len(streamIdClasses))]
}

func buildFrame(c *chooser, v primitive.ProtocolVersion, streamId int16, msg message.Message, fs flagSpec) *frame.Frame {
	h := &frame.Header{IsResponse: msg.IsResponse(), Version: v, StreamId: streamId, OpCode: msg.GetOpCode()}
	b := &frame.Body{Message: msg}
	if fs.tracing {
		h.Flags |= primitive.HeaderFlagTracing
		if msg.IsResponse() {
			b.TracingId = c.uuid()
		}
	}
	if fs.payload > 0 {
		h.Flags |= primitive.HeaderFlagCustomPayload
		b.CustomPayload = map[string][]byte{}
		n := 1
		if fs.payload == 2 {
			n = 2 + c.val(2)
		}
		for i := 0; i < n; i++ {
			key := fmt.Sprintf("key%d", i)
			if c.val(4) == 0 {
				key = cap16(key + c.str())
			}
			b.CustomPayload[key] = c.optBytes()
		}
	}
	if fs.warnings < 0 {
		h.Flags |= primitive.HeaderFlagWarning
	}
	if fs.warnings > 0 {
		h.Flags |= primitive.HeaderFlagWarning
		n := 1
		if fs.warnings == 2 {
			n = 2 + c.val(2)
		}
		b.Warnings = make([]string, n)
		for i := range b.Warnings {
			b.Warnings[i] = c.str()
		}
	}
	if fs.beta {
		h.Flags |= primitive.HeaderFlagUseBeta
	}
	if fs.comp != "none" && fs.comp != "" {
		h.Flags |= primitive.HeaderFlagCompressed
	}
	return &frame.Frame{Header: h, Body: b}
}

func hashString(s string) uint64 {
	var h uint64 = 14695981039346656037
	for i := 0; i < len(s); i++ {
		h ^= uint64(s[i])
		h *= 1099511628211
	}
	return h
}

// ---------------------------------------------------------------- phase 1: deterministic enumeration

func enumCases(emit func(gc genCase)) {
	for _, v := range allVersions {
		for ki := range kinds {
			k := &kinds[ki]
			if !k.definedIn(v) {
				continue
			}
			c := newEnumChooser()
			variant := 0
			for {
				c.start(hashString(k.name)*31 + uint64(v)*1000003 + uint64(variant))
				msg := k.gen(c, v)
				class := c.class()
				if variant == 0 {
					// the first variant of every kind x version goes through every legal flag combination
					for _, fs := range legalFlagSpecs(k, v) {
						f := buildFrame(c, v, genStreamId(c, v), msg, fs)
						emit(genCase{kind: k.name, version: v, comp: fs.comp, phase: "enum", class: joinClass(class, fs.String()), f: f})
					}
				} else {
					fs := randomFlagSpec(c, k, v)
					f := buildFrame(c, v, genStreamId(c, v), msg, fs)
					emit(genCase{kind: k.name, version: v, comp: fs.comp, phase: "enum", class: joinClass(class, fs.String()), f: f})
				}
				variant++
				if !c.next() {
					break
				}
			}
		}
	}
}

func joinClass(a, b string) string {
	if a == "" {
		return b
	}
	return a + "|" + b
}

// ---------------------------------------------------------------- phase 2: sweeps over enum constants and boundary values

func plainFrame(v primitive.ProtocolVersion, streamId int16, msg message.Message) *frame.Frame {
	return buildFrame(newEnumChooser(), v, streamId, msg, flagSpec{comp: "none"})
}

func kindOf(msg message.Message) string {
	s := fmt.Sprintf("%T", msg)
	return s[strings.LastIndex(s, ".")+1:]
}

func nestedTypes(v primitive.ProtocolVersion) []datatype.DataType {
	out := []datatype.DataType{
		datatype.NewList(datatype.NewSet(datatype.NewMap(datatype.Int, datatype.NewList(datatype.Varchar)))),
		datatype.NewMap(datatype.NewCustom("a.b.C"), datatype.NewMap(datatype.Uuid, datatype.NewSet(datatype.Blob))),
	}
	if v >= v3 {
		udt := &datatype.UserDefined{Keyspace: "ks", Name: "addr", FieldNames: []string{"street", "zip", "phones"},
			FieldTypes: []datatype.DataType{datatype.Varchar, datatype.Int, datatype.NewSet(datatype.Varchar)}}
		tup := datatype.NewTuple(datatype.Int, datatype.NewList(datatype.Double), datatype.NewTuple(datatype.Boolean))
		out = append(out,
			datatype.NewList(datatype.NewMap(udt, tup)), // list<map<udt,tuple>>
			&datatype.UserDefined{Keyspace: "ks", Name: "outer", FieldNames: []string{"inner", "t"}, FieldTypes: []datatype.DataType{udt, tup}},
			datatype.NewTuple(), // no field
			&datatype.UserDefined{Keyspace: "", Name: "", FieldNames: []string{}, FieldTypes: []datatype.DataType{}},
			datatype.NewTuple(datatype.NewTuple(datatype.NewTuple(datatype.NewTuple(datatype.NewTuple(datatype.Inet))))),
		)
	}
	// a deep chain
	var deep datatype.DataType = datatype.Bigint
	for i := 0; i < 40; i++ {
		switch i % 3 {
		case 0:
			deep = datatype.NewList(deep)
		case 1:
			deep = datatype.NewSet(deep)
		default:
			deep = datatype.NewMap(datatype.Varchar, deep)
		}
	}
	out = append(out, deep)
	return out
}

func resultMetadataIdFor(v primitive.ProtocolVersion) []byte {
	if hasResultMetadataId(v) {
		return []byte{4, 5}
	}
	return nil
}

func columnsOf(types []datatype.DataType, sameTable bool) []*message.ColumnMetadata {
	cols := make([]*message.ColumnMetadata, len(types))
	for i, t := range types {
		cols[i] = &message.ColumnMetadata{Keyspace: "ks", Table: "t", Name: fmt.Sprintf("c%d", i), Type: t}
		if !sameTable {
			cols[i].Table = fmt.Sprintf("t%d", i)
		}
	}
	return cols
}

func sweepCases(rnd *rand.Rand, thorough bool, emit func(gc genCase)) {
	add := func(v primitive.ProtocolVersion, class string, comp string, f *frame.Frame) {
		if comp != "none" {
			f.Header.Flags |= primitive.HeaderFlagCompressed
		}
		emit(genCase{kind: kindOf(f.Body.Message), version: v, comp: comp, phase: "sweep", class: class, f: f})
	}
	i64p := func(x int64) *int64 { return &x }
	i32p := func(x int32) *int32 { return &x }
	for _, v := range allVersions {
		// every consistency level in QUERY, BATCH and UNAVAILABLE
		for _, cl := range consistencyLevels {
			add(v, fmt.Sprintf("consistency=%d", cl), "none", plainFrame(v, 1, &message.Query{Query: "SELECT 1", Options: &message.QueryOptions{Consistency: cl}}))
			add(v, fmt.Sprintf("consistency=%d", cl), "none", plainFrame(v, 1, &message.Batch{Consistency: cl, Children: []*message.BatchChild{{Query: "INSERT"}}}))
			add(v, fmt.Sprintf("consistency=%d", cl), "none", plainFrame(v, 1, &message.Unavailable{ErrorMessage: "u", Consistency: cl, Required: 3, Alive: 1}))
		}
		// serial consistency levels
		for _, cl := range []primitive.ConsistencyLevel{primitive.ConsistencyLevelSerial, primitive.ConsistencyLevelLocalSerial} {
			cl := cl
			add(v, fmt.Sprintf("serial=%d", cl), "none", plainFrame(v, 1, &message.Query{Query: "q", Options: &message.QueryOptions{SerialConsistency: &cl}}))
			if hasBatchFlags(v) {
				add(v, fmt.Sprintf("serial=%d", cl), "none", plainFrame(v, 1, &message.Batch{SerialConsistency: &cl}))
			}
		}
		// string lengths 0, 1, 255, 256, 65535 ([string]) and beyond for [long string]
		for _, n := range []int{0, 1, 255, 256, 65535} {
			s := repeatString(n, byte(n))
			// the longest strings make lines of 400 kB: outside the thorough tier only two kinds on three versions carry them
			long := n > 256
			if !long || thorough || v == v2 || v == v4 {
				add(v, fmt.Sprintf("strlen=%d", n), "none", plainFrame(v, 2, &message.ServerError{ErrorMessage: s}))
			}
			if !long || thorough || v == v5 {
				add(v, fmt.Sprintf("longstrlen=%d", n), "none", plainFrame(v, 2, &message.Query{Query: s, Options: &message.QueryOptions{}}))
			}
			if n > 0 && (!long || thorough) {
				add(v, fmt.Sprintf("strlen=%d", n), "none", plainFrame(v, 2, &message.Authenticate{Authenticator: s}))
				add(v, fmt.Sprintf("strlen=%d", n), "none", plainFrame(v, 2, &message.SetKeyspaceResult{Keyspace: s}))
				add(v, fmt.Sprintf("longstrlen=%d", n), "none", plainFrame(v, 2, &message.Prepare{Query: s}))
			}
			if !long || thorough {
				add(v, fmt.Sprintf("strlen=%d", n), "none", plainFrame(v, 2, &message.Startup{Options: map[string]string{"CQL_VERSION": s}}))
				add(v, fmt.Sprintf("strlen=%d", n), "none", plainFrame(v, 2, &message.Supported{Options: map[string][]string{s: {s, ""}}}))
				add(v, fmt.Sprintf("strlen=%d", n), "none", plainFrame(v, 2, &message.AlreadyExists{ErrorMessage: "", Keyspace: s, Table: s}))
				add(v, fmt.Sprintf("byteslen=%d", n), "none", plainFrame(v, 2, &message.AuthResponse{Token: []byte(s)}))
				add(v, fmt.Sprintf("shortbyteslen=%d", n), "none", plainFrame(v, 2, &message.Unprepared{ErrorMessage: "x", Id: []byte(s)}))
				if hasPayloadAndWarnings(v) {
					f := plainFrame(v, 2, &message.VoidResult{})
					f.Header.Flags |= primitive.HeaderFlagWarning | primitive.HeaderFlagCustomPayload
					f.Body.Warnings = []string{s}
					f.Body.CustomPayload = map[string][]byte{s: []byte(s)}
					add(v, fmt.Sprintf("strlen=%d", n), "none", f)
				}
			}
		}
		if thorough || v == dse2 {
			add(v, "longstrlen=65536", "none", plainFrame(v, 2, &message.Query{Query: repeatString(65536, 3), Options: &message.QueryOptions{}}))
		}
		// extreme integers
		for _, x := range []int32{math.MinInt32, math.MaxInt32, -1, 0} {
			add(v, fmt.Sprintf("int32=%d", x), "none", plainFrame(v, 3, &message.Unavailable{Consistency: primitive.ConsistencyLevelOne, Required: x, Alive: -x}))
			add(v, fmt.Sprintf("int32=%d", x), "none", plainFrame(v, 3, &message.ReadTimeout{Received: x, BlockFor: x, DataPresent: x < 0}))
			add(v, fmt.Sprintf("port=%d", x), "none", plainFrame(v, -1, &message.StatusChangeEvent{ChangeType: primitive.StatusChangeTypeUp, Address: &primitive.Inet{Addr: []byte{10, 0, 0, 1}, Port: x}}))
			if hasNowInSeconds(v) {
				add(v, fmt.Sprintf("now=%d", x), "none", plainFrame(v, 3, &message.Query{Query: "q", Options: &message.QueryOptions{NowInSeconds: i32p(x)}}))
				add(v, fmt.Sprintf("now=%d", x), "none", plainFrame(v, 3, &message.Batch{NowInSeconds: i32p(x)}))
			}
			if isDse(v) {
				cp := &message.ContinuousPagingOptions{MaxPages: x, PagesPerSecond: -x}
				if v == dse2 {
					cp.NextPages = x
				}
				add(v, fmt.Sprintf("cp=%d", x), "none", plainFrame(v, 3, &message.Query{Query: "q", Options: &message.QueryOptions{ContinuousPagingOptions: cp}}))
				add(v, fmt.Sprintf("revise=%d", x), "none", plainFrame(v, 3, &message.Revise{RevisionType: primitive.DseRevisionTypeCancelContinuousPaging, TargetStreamId: x}))
				if v == dse2 {
					add(v, fmt.Sprintf("revise=%d", x), "none", plainFrame(v, 3, &message.Revise{RevisionType: primitive.DseRevisionTypeMoreContinuousPages, TargetStreamId: x, NextPages: x}))
				}
			}
			if v == v4 {
				add(v, fmt.Sprintf("numfailures=%d", x), "none", plainFrame(v, 3, &message.ReadFailure{NumFailures: x}))
				add(v, fmt.Sprintf("numfailures=%d", x), "none", plainFrame(v, 3, &message.WriteFailure{NumFailures: x, WriteType: primitive.WriteTypeSimple}))
			}
		}
		add(v, "pagesize=max", "none", plainFrame(v, 3, &message.Query{Query: "q", Options: &message.QueryOptions{PageSize: math.MaxInt32}}))
		if hasDefaultTimestamp(v) {
			for _, x := range []int64{math.MinInt64, math.MaxInt64, -1, 0} {
				add(v, fmt.Sprintf("ts=%d", x), "none", plainFrame(v, 3, &message.Query{Query: "q", Options: &message.QueryOptions{DefaultTimestamp: i64p(x)}}))
				add(v, fmt.Sprintf("ts=%d", x), "none", plainFrame(v, 3, &message.Batch{DefaultTimestamp: i64p(x)}))
			}
		}
		// stream ids
		sids := []int16{0, 1, -1, 127, -128}
		if v >= v3 {
			sids = append(sids, 128, -129, 255, 256, math.MaxInt16, math.MinInt16)
		}
		for _, sid := range sids {
			add(v, fmt.Sprintf("stream=%d", sid), "none", plainFrame(v, sid, &message.Options{}))
			add(v, fmt.Sprintf("stream=%d", sid), "none", plainFrame(v, sid, &message.Ready{}))
		}
		// addresses
		for i, ip := range ipClasses {
			add(v, fmt.Sprintf("ip#%d", i), "none", plainFrame(v, -1, &message.TopologyChangeEvent{ChangeType: primitive.TopologyChangeTypeNewNode, Address: &primitive.Inet{Addr: ip, Port: 9042}}))
		}
		if hasReasonMap(v) {
			var rm []*primitive.FailureReason
			for i, code := range failureCodes {
				rm = append(rm, &primitive.FailureReason{Endpoint: ipClasses[i%len(ipClasses)], Code: code})
			}
			add(v, "failurecodes", "none", plainFrame(v, 4, &message.ReadFailure{ErrorMessage: "rf", Consistency: primitive.ConsistencyLevelQuorum, Received: 1, BlockFor: 2, FailureReasons: rm, DataPresent: true}))
			add(v, "failurecodes", "none", plainFrame(v, 4, &message.WriteFailure{ErrorMessage: "wf", Consistency: primitive.ConsistencyLevelQuorum, Received: 1, BlockFor: 2, FailureReasons: rm, WriteType: primitive.WriteTypeCas}))
		}
		if hasContentions(v) {
			for _, ct := range []uint16{0, 1, 65535} {
				add(v, fmt.Sprintf("contentions=%d", ct), "none", plainFrame(v, 4, &message.WriteTimeout{WriteType: primitive.WriteTypeCas, Contentions: ct}))
			}
		}
		// every data type code of the version, and nested types, in RESULT Rows and RESULT Prepared
		prims := primitiveTypes(v)
		for _, same := range []bool{true, false} {
			cols := columnsOf(prims, same)
			add(v, fmt.Sprintf("alltypes same=%v", same), "none", plainFrame(v, 5, &message.RowsResult{Metadata: &message.RowsMetadata{ColumnCount: int32(len(cols)), Columns: cols}, Data: message.RowSet{make(message.Row, len(cols))}}))
		}
		// columns that share the table name but not the keyspace, the keyspace but not the table, or differ only in the
		// last column: the global-table-spec decision must look at both names of every column
		for variant := 0; variant < 6; variant++ {
			tc := columnsOf([]datatype.DataType{datatype.Int, datatype.Varchar, datatype.Int}, true)
			switch variant {
			case 0:
				tc[1].Keyspace, tc[2].Keyspace = "ks1", "ks2"
			case 1:
				tc[1].Table = "t1"
			case 2:
				tc[2].Keyspace = "other"
			case 3:
				// different tables whose names coincide once keyspace and table are joined with a separator
				tc[0].Keyspace, tc[0].Table = "a.b", "c"
				tc[1].Keyspace, tc[1].Table = "a", "b.c"
				tc[2].Keyspace, tc[2].Table = "a.b", "c"
			case 4:
				tc[0].Keyspace, tc[0].Table = "ab", "c"
				tc[1].Keyspace, tc[1].Table = "a", "bc" // same concatenation
				tc[2].Keyspace, tc[2].Table = "ab", "c"
			default:
				tc[0].Keyspace, tc[0].Table = "KS", "t"
				tc[1].Keyspace, tc[1].Table = "ks", "T" // differ in case only
				tc[2].Keyspace, tc[2].Table = "KS", "t"
			}
			add(v, fmt.Sprintf("table-spec variant=%d", variant), "none", plainFrame(v, 5, &message.RowsResult{Metadata: &message.RowsMetadata{ColumnCount: 3, Columns: tc}, Data: message.RowSet{make(message.Row, 3)}}))
			add(v, fmt.Sprintf("table-spec variant=%d", variant), "none", plainFrame(v, 5, &message.PreparedResult{PreparedQueryId: []byte{1}, ResultMetadataId: resultMetadataIdFor(v),
				VariablesMetadata: &message.VariablesMetadata{Columns: tc}, ResultMetadata: &message.RowsMetadata{ColumnCount: 3, Columns: tc}}))
		}
		nested := nestedTypes(v)
		cols := columnsOf(nested, true)
		add(v, "nestedtypes", "none", plainFrame(v, 5, &message.RowsResult{Metadata: &message.RowsMetadata{ColumnCount: int32(len(cols)), Columns: cols}}))
		pr := &message.PreparedResult{PreparedQueryId: []byte{1, 2, 3}, VariablesMetadata: &message.VariablesMetadata{Columns: columnsOf(nested, false)},
			ResultMetadata: &message.RowsMetadata{ColumnCount: int32(len(prims)), Columns: columnsOf(prims, true)}}
		if hasResultMetadataId(v) {
			pr.ResultMetadataId = []byte{4, 5}
		}
		if hasPkIndices(v) {
			pr.VariablesMetadata.PkIndices = []uint16{0, 1, 65535}
		}
		add(v, "nestedtypes", "none", plainFrame(v, 5, pr))
		// values: null, empty, unset
		vals := []*primitive.Value{primitive.NewNullValue(), primitive.NewValue([]byte{}), primitive.NewValue([]byte{0}), primitive.NewValue(nil)}
		if hasUnset(v) {
			vals = append(vals, primitive.NewUnsetValue())
		}
		add(v, "values", "none", plainFrame(v, 6, &message.Query{Query: "q", Options: &message.QueryOptions{PositionalValues: vals}}))
		add(v, "values", "none", plainFrame(v, 6, &message.Batch{Children: []*message.BatchChild{{Id: []byte{1}, Values: vals}, {Query: "q", Values: vals}}}))
		if hasNamedValues(v) {
			add(v, "values", "none", plainFrame(v, 6, &message.Execute{QueryId: []byte{1}, ResultMetadataId: rmid(v), Options: &message.QueryOptions{NamedValues: map[string]*primitive.Value{"": vals[0]}}}))
		}
		// compressible and incompressible bodies
		for _, comp := range compressionsFor("Query", v)[1:] {
			add(v, "compressible=20000", comp, plainFrame(v, 7, &message.Query{Query: strings.Repeat("a", 20000), Options: &message.QueryOptions{}}))
			add(v, "compressible=1000", comp, plainFrame(v, 7, &message.Query{Query: strings.Repeat("\x00", 1000), Options: &message.QueryOptions{}}))
			if thorough || (v == v4 && comp == "lz4") {
				add(v, "compressible=131071", comp, plainFrame(v, 7, &message.AuthResponse{Token: make([]byte, 131071)}))
			}
			rows := make(message.RowSet, 300)
			for i := range rows {
				rows[i] = message.Row{[]byte("same"), nil, []byte("same same same same")}
			}
			add(v, "compressible rows", comp, plainFrame(v, 7, &message.RowsResult{Metadata: &message.RowsMetadata{ColumnCount: 3}, Data: rows}))
			noise := make([]byte, 4096)
			x := uint32(12345)
			for i := range noise {
				x = x*1664525 + 1013904223
				noise[i] = byte(x >> 24)
			}
			add(v, "incompressible=4096", comp, plainFrame(v, 7, &message.AuthSuccess{Token: noise}))
			add(v, "tiny", comp, plainFrame(v, 7, &message.VoidResult{}))
			add(v, "tiny", comp, plainFrame(v, 7, &message.AuthChallenge{Token: nil}))
		}
		if thorough {
			big := make([]*primitive.Value, 65535)
			for i := range big {
				big[i] = primitive.NewValue([]byte{byte(i)})
			}
			add(v, "values=65535", "none", plainFrame(v, 8, &message.Query{Query: "q", Options: &message.QueryOptions{PositionalValues: big}}))
			ch := make([]*message.BatchChild, 2000)
			for i := range ch {
				ch[i] = &message.BatchChild{Query: "INSERT INTO t (a) VALUES (?)", Values: []*primitive.Value{primitive.NewValue([]byte{byte(i)})}}
			}
			add(v, "children=2000", "lz4", plainFrame(v, 8, &message.Batch{Children: ch}))
		}
	}
	_ = rnd
}

func rmid(v primitive.ProtocolVersion) []byte {
	if hasResultMetadataId(v) {
		return []byte{9, 9}
	}
	return nil
}

// ---------------------------------------------------------------- phase 3: seeded random cases

func randomCase(c *chooser) genCase {
	for {
		v := allVersions[c.val(len(allVersions))]
		k := &kinds[c.val(len(kinds))]
		if !k.definedIn(v) {
			continue
		}
		msg := k.gen(c, v)
		fs := randomFlagSpec(c, k, v)
		f := buildFrame(c, v, genStreamId(c, v), msg, fs)
		return genCase{kind: k.name, version: v, comp: fs.comp, phase: "random", class: fs.String(), f: f}
	}
}

// corpusCases: fixed cases that every run emits first (minimal reproductions of findings).
func corpusCases(thorough bool, emit func(gc genCase)) {
	// pierrec/lz4 v4.0.3: a repeat at distance exactly 65536 is encoded with offset 0 (known finding "lz4-offset-65536")
	tok := append(append(bytes.Repeat([]byte{'a'}, 65534), 0, 0, 0, 0), bytes.Repeat([]byte{'a'}, 15)...)
	vs := []primitive.ProtocolVersion{v4}
	if thorough {
		vs = allVersions
	}
	for _, v := range vs {
		f := plainFrame(v, 1, &message.AuthResponse{Token: tok})
		f.Header.Flags |= primitive.HeaderFlagCompressed
		emit(genCase{kind: "AuthResponse", version: v, comp: "lz4", phase: "corpus", class: "token='a'*65534+00000000+'a'*15", f: f})
	}
}

// nonValidCases: frames that are NOT version-valid or not in normal form (a field that the variant / version does not
// carry is set, a documented precondition is broken).  They are emitted with "valid": false: the checks are computed
// but are not claims of the properties; they document what the code does there and feed the model correspondence.
func nonValidCases(emit func(gc genCase)) {
	add := func(v primitive.ProtocolVersion, class string, msg message.Message) {
		emit(genCase{kind: kindOf(msg), version: v, comp: "none", phase: "nonvalid", invalid: true, class: class, f: plainFrame(v, 9, msg)})
	}
	i32p := func(x int32) *int32 { return &x }
	i64p := func(x int64) *int64 { return &x }
	any := primitive.ConsistencyLevelAny
	for _, v := range allVersions {
		add(v, "nil options", &message.Query{Query: "q"})
		add(v, "nil options", &message.Execute{QueryId: []byte{1}, ResultMetadataId: rmid(v)})
		add(v, "regular value with nil contents", &message.Query{Query: "q", Options: &message.QueryOptions{PositionalValues: []*primitive.Value{{Type: primitive.ValueTypeRegular}}}})
		add(v, "positional and named values", &message.Query{Query: "q", Options: &message.QueryOptions{
			PositionalValues: []*primitive.Value{primitive.NewValue([]byte{1})}, NamedValues: map[string]*primitive.Value{"a": primitive.NewValue([]byte{2})}}})
		add(v, "page size 0 in bytes", &message.Query{Query: "q", Options: &message.QueryOptions{PageSizeInBytes: true}})
		add(v, "negative page size", &message.Query{Query: "q", Options: &message.QueryOptions{PageSize: -1}})
		add(v, "non-serial serial consistency", &message.Query{Query: "q", Options: &message.QueryOptions{SerialConsistency: &any}})
		add(v, "non-serial serial consistency", &message.Batch{SerialConsistency: &any})
		add(v, "invalid consistency", &message.Query{Query: "q", Options: &message.QueryOptions{Consistency: 0x0b}})
		add(v, "invalid consistency", &message.Batch{Consistency: 0xffff})
		add(v, "invalid consistency", &message.Unavailable{Consistency: 0x0b})
		add(v, "column index set", &message.RowsResult{Metadata: &message.RowsMetadata{ColumnCount: 1, Columns: []*message.ColumnMetadata{{Keyspace: "k", Table: "t", Name: "c", Index: 5, Type: datatype.Int}}}})
		add(v, "column count differs from columns", &message.RowsResult{Metadata: &message.RowsMetadata{ColumnCount: 2, Columns: []*message.ColumnMetadata{{Keyspace: "k", Table: "t", Name: "c", Type: datatype.Int}}}})
		add(v, "nil rows metadata", &message.RowsResult{})
		add(v, "row shorter than the column count", &message.RowsResult{Metadata: &message.RowsMetadata{ColumnCount: 2}, Data: message.RowSet{{[]byte{1}}}})
		add(v, "nil prepared metadata", &message.PreparedResult{PreparedQueryId: []byte{1}, ResultMetadataId: rmid(v)})
		add(v, "last continuous page without page number", &message.RowsResult{Metadata: &message.RowsMetadata{LastContinuousPage: true}})
		add(v, "keyspace target with object", &message.SchemaChangeResult{ChangeType: primitive.SchemaChangeTypeCreated, Target: primitive.SchemaChangeTargetKeyspace, Keyspace: "ks", Object: "o"})
		add(v, "table target with arguments", &message.SchemaChangeEvent{ChangeType: primitive.SchemaChangeTypeCreated, Target: primitive.SchemaChangeTargetTable, Keyspace: "ks", Object: "t", Arguments: []string{"a"}})
		add(v, "contentions without CAS", &message.WriteTimeout{WriteType: primitive.WriteTypeSimple, Contentions: 3})
		add(v, "unknown write type", &message.WriteTimeout{WriteType: "NOPE"})
		add(v, "unknown write type", &message.WriteFailure{WriteType: "NOPE"})
		add(v, "empty execute id", &message.Execute{Options: &message.QueryOptions{}})
		add(v, "empty prepare query", &message.Prepare{})
		add(v, "empty register", &message.Register{})
		add(v, "unknown event type", &message.Register{EventTypes: []primitive.EventType{"NOPE"}})
		add(v, "nil inet", &message.StatusChangeEvent{ChangeType: primitive.StatusChangeTypeUp})
		add(v, "nil address", &message.StatusChangeEvent{ChangeType: primitive.StatusChangeTypeUp, Address: &primitive.Inet{}})
		add(v, "5-byte address", &message.TopologyChangeEvent{ChangeType: primitive.TopologyChangeTypeNewNode, Address: &primitive.Inet{Addr: []byte{1, 2, 3, 4, 5}}})
		add(v, "nil batch child value", &message.Batch{Children: []*message.BatchChild{{Query: "q", Values: []*primitive.Value{nil}}}})
		add(v, "batch child with query and id", &message.Batch{Children: []*message.BatchChild{{Query: "q", Id: []byte{1}}}})
		add(v, "batch child without query and id", &message.Batch{Children: []*message.BatchChild{{}}})
		add(v, "invalid batch type", &message.Batch{Type: 3})
		add(v, "nil data type", &message.RowsResult{Metadata: &message.RowsMetadata{ColumnCount: 1, Columns: []*message.ColumnMetadata{{Name: "c"}}}})
		add(v, "udt names and types differ", &message.RowsResult{Metadata: &message.RowsMetadata{ColumnCount: 1, Columns: []*message.ColumnMetadata{{Name: "c",
			Type: &datatype.UserDefined{Keyspace: "k", Name: "u", FieldNames: []string{"a", "b"}, FieldTypes: []datatype.DataType{datatype.Int}}}}}})
		add(v, "string longer than 65535", &message.ServerError{ErrorMessage: repeatString(65536, 0)})
		// features of later versions
		if !hasUnset(v) {
			add(v, "unset value", &message.Query{Query: "q", Options: &message.QueryOptions{PositionalValues: []*primitive.Value{primitive.NewUnsetValue()}}})
		}
		if !hasNamedValues(v) {
			add(v, "named values", &message.Query{Query: "q", Options: &message.QueryOptions{NamedValues: map[string]*primitive.Value{"a": primitive.NewValue([]byte{2})}}})
		}
		if !hasDefaultTimestamp(v) {
			add(v, "default timestamp", &message.Query{Query: "q", Options: &message.QueryOptions{DefaultTimestamp: i64p(1)}})
		}
		if !hasBatchFlags(v) {
			add(v, "batch flags", &message.Batch{DefaultTimestamp: i64p(1)})
		}
		if !hasKeyspace(v) {
			add(v, "keyspace", &message.Query{Query: "q", Options: &message.QueryOptions{Keyspace: "ks"}})
			add(v, "keyspace", &message.Prepare{Query: "q", Keyspace: "ks"})
			add(v, "keyspace", &message.Batch{Keyspace: "ks"})
			add(v, "new result metadata id", &message.RowsResult{Metadata: &message.RowsMetadata{NewResultMetadataId: []byte{1}}})
			add(v, "result metadata id", &message.Execute{QueryId: []byte{1}, ResultMetadataId: []byte{2}, Options: &message.QueryOptions{}})
		}
		if !hasNowInSeconds(v) {
			add(v, "now in seconds", &message.Query{Query: "q", Options: &message.QueryOptions{NowInSeconds: i32p(1)}})
			add(v, "now in seconds", &message.Batch{NowInSeconds: i32p(1)})
		}
		if !isDse(v) {
			add(v, "continuous paging", &message.Query{Query: "q", Options: &message.QueryOptions{ContinuousPagingOptions: &message.ContinuousPagingOptions{MaxPages: 1}}})
			add(v, "page size in bytes", &message.Query{Query: "q", Options: &message.QueryOptions{PageSize: 10, PageSizeInBytes: true}})
			add(v, "continuous page number", &message.RowsResult{Metadata: &message.RowsMetadata{ContinuousPageNumber: 1}})
			add(v, "revise", &message.Revise{RevisionType: primitive.DseRevisionTypeCancelContinuousPaging, TargetStreamId: 1})
		} else {
			add(v, "next pages on cancel", &message.Revise{RevisionType: primitive.DseRevisionTypeCancelContinuousPaging, TargetStreamId: 1, NextPages: 4})
			if v == dse1 {
				add(v, "more pages", &message.Revise{RevisionType: primitive.DseRevisionTypeMoreContinuousPages, TargetStreamId: 1, NextPages: 4})
				add(v, "next pages in continuous paging options", &message.Query{Query: "q", Options: &message.QueryOptions{ContinuousPagingOptions: &message.ContinuousPagingOptions{NextPages: 4}}})
			}
		}
		if hasReasonMap(v) {
			add(v, "num failures with reason map", &message.ReadFailure{NumFailures: 3})
			add(v, "invalid failure code", &message.ReadFailure{FailureReasons: []*primitive.FailureReason{{Endpoint: []byte{1, 2, 3, 4}, Code: 7}}})
			add(v, "nil failure reason", &message.WriteFailure{WriteType: primitive.WriteTypeSimple, FailureReasons: []*primitive.FailureReason{nil}})
		} else {
			add(v, "reason map", &message.ReadFailure{FailureReasons: []*primitive.FailureReason{{Endpoint: []byte{1, 2, 3, 4}, Code: 1}}})
		}
		if !hasContentions(v) {
			add(v, "contentions", &message.WriteTimeout{WriteType: primitive.WriteTypeCas, Contentions: 3})
		}
		if v < v4 {
			add(v, "function target", &message.SchemaChangeResult{ChangeType: primitive.SchemaChangeTypeCreated, Target: primitive.SchemaChangeTargetFunction, Keyspace: "ks", Object: "f", Arguments: []string{"int"}})
			add(v, "v4 data type", &message.RowsResult{Metadata: &message.RowsMetadata{ColumnCount: 1, Columns: columnsOf([]datatype.DataType{datatype.Date}, true)}})
			add(v, "pk indices", &message.PreparedResult{PreparedQueryId: []byte{1}, VariablesMetadata: &message.VariablesMetadata{PkIndices: []uint16{0}}, ResultMetadata: &message.RowsMetadata{}})
			f := plainFrame(v, 9, &message.VoidResult{})
			f.Header.Flags |= primitive.HeaderFlagCustomPayload
			f.Body.CustomPayload = map[string][]byte{"k": {1}}
			emit(genCase{kind: "VoidResult", version: v, comp: "none", phase: "nonvalid", invalid: true, class: "custom payload", f: f})
			g := plainFrame(v, 9, &message.VoidResult{})
			g.Header.Flags |= primitive.HeaderFlagWarning
			g.Body.Warnings = []string{"w"}
			emit(genCase{kind: "VoidResult", version: v, comp: "none", phase: "nonvalid", invalid: true, class: "warnings", f: g})
		}
		if v < v3 {
			add(v, "type target", &message.SchemaChangeEvent{ChangeType: primitive.SchemaChangeTypeCreated, Target: primitive.SchemaChangeTargetType, Keyspace: "ks", Object: "t"})
			add(v, "udt", &message.RowsResult{Metadata: &message.RowsMetadata{ColumnCount: 1, Columns: columnsOf([]datatype.DataType{datatype.NewTuple(datatype.Int)}, true)}})
			add(v, "moved node", &message.TopologyChangeEvent{ChangeType: primitive.TopologyChangeTypeMovedNode, Address: &primitive.Inet{Addr: []byte{1, 2, 3, 4}}})
			f := plainFrame(v, 300, &message.Options{})
			emit(genCase{kind: "Options", version: v, comp: "none", phase: "nonvalid", invalid: true, class: "stream id beyond a byte", f: f})
		}
		if v < v5 {
			add(v, "duration type", &message.RowsResult{Metadata: &message.RowsMetadata{ColumnCount: 1, Columns: columnsOf([]datatype.DataType{datatype.Duration}, true)}})
		}
		// header / body disagreements
		f := plainFrame(v, 9, &message.Query{Query: "q", Options: &message.QueryOptions{}})
		f.Header.Flags |= primitive.HeaderFlagWarning
		f.Body.Warnings = []string{"w"}
		emit(genCase{kind: "Query", version: v, comp: "none", phase: "nonvalid", invalid: true, class: "warnings on a request", f: f})
		g := plainFrame(v, 9, &message.VoidResult{})
		g.Header.Flags |= primitive.HeaderFlagTracing
		emit(genCase{kind: "VoidResult", version: v, comp: "none", phase: "nonvalid", invalid: true, class: "tracing flag without tracing id", f: g})
		h := plainFrame(v, 9, &message.VoidResult{})
		h.Header.OpCode = primitive.OpCodeReady
		emit(genCase{kind: "VoidResult", version: v, comp: "none", phase: "nonvalid", invalid: true, class: "opcode differs from the message", f: h})
		k := plainFrame(v, 9, &message.VoidResult{})
		k.Header.Flags |= primitive.HeaderFlagCompressed
		emit(genCase{kind: "VoidResult", version: v, comp: "none", phase: "nonvalid", invalid: true, class: "compressed flag without compressor", f: k})
		if v >= v4 {
			p := plainFrame(v, 9, &message.VoidResult{})
			p.Header.Flags |= primitive.HeaderFlagCustomPayload
			emit(genCase{kind: "VoidResult", version: v, comp: "none", phase: "nonvalid", invalid: true, class: "payload flag with empty payload", f: p})
			q := plainFrame(v, 9, &message.VoidResult{})
			q.Body.CustomPayload = map[string][]byte{"k": {1}}
			emit(genCase{kind: "VoidResult", version: v, comp: "none", phase: "nonvalid", invalid: true, class: "payload without flag", f: q})
		}
		st := plainFrame(v, 9, &message.Startup{Options: map[string]string{"CQL_VERSION": "3.0.0"}})
		st.Header.Flags |= primitive.HeaderFlagCompressed
		emit(genCase{kind: "Startup", version: v, comp: "lz4", phase: "nonvalid", invalid: true, class: "compressed startup", f: st})
	}
	for _, bad := range []primitive.ProtocolVersion{0, 1, 6, 64, 67, 127} {
		f := plainFrame(bad, 1, &message.Options{})
		emit(genCase{kind: "Options", version: bad, comp: "none", phase: "nonvalid", invalid: true, class: "unsupported version", f: f})
	}
}

// allCases streams the whole generator: corpus, enumeration, sweeps, non-valid frames, then n seeded random cases.
func allCases(n int, thorough bool, seed int64, emit func(gc genCase)) {
	corpusCases(thorough, emit)
	enumCases(emit)
	rnd := rand.New(rand.NewSource(seed))
	sweepCases(rnd, thorough, emit)
	nonValidCases(emit)
	c := newRandChooser(rnd)
	for i := 0; i < n; i++ {
		emit(randomCase(c))
	}
}
