// harness-frame growth: how the work of the decoders grows with the input length on families of inputs parameterised by a
// size n (C04: "never ... fails to terminate" is approached through the growth rate: a decoder whose allocation volume is
// quadratic in the input length needs hours on a 1 MiB input although it returns eventually).  For each family the bytes
// allocated while decoding the inputs of size n and 4n are measured (runtime.MemStats.TotalAlloc, one goroutine); a linear
// decoder gives a ratio near 4, a quadratic one near 16.
package main

import (
	"runtime"

	"github.com/datastax/go-cassandra-native-protocol/frame"
	"verifharness/hlib"
)

type growthFamily struct {
	name  string
	build func(n int) []byte
}

func rowsWithColumnType(typeBytes []byte) []byte {
	body := []byte{0, 0, 0, 2, 0, 0, 0, 1, 0, 0, 0, 1, 0, 2, 'k', 's', 0, 1, 't', 0, 1, 'c'}
	body = append(body, typeBytes...)
	body = append(body, 0, 0, 0, 0)
	return append([]byte{0x84, 0, 0, 1, 8, byte(len(body) >> 24), byte(len(body) >> 16), byte(len(body) >> 8), byte(len(body))}, body...)
}

func repeatBytes(b []byte, n int) []byte {
	out := make([]byte, 0, len(b)*n)
	for i := 0; i < n; i++ {
		out = append(out, b...)
	}
	return out
}

func growthFamilies() []growthFamily {
	cut := func(in []byte, tail int) []byte {
		// drop the rows count and the innermost type: the descriptor ends in the middle
		in = in[:len(in)-tail]
		l := len(in) - 9
		in[5], in[6], in[7], in[8] = byte(l>>24), byte(l>>16), byte(l>>8), byte(l)
		return in
	}
	return []growthFamily{
		{"nested list<...<int>> (well formed)", func(n int) []byte { return rowsWithColumnType(append(repeatBytes([]byte{0, 0x20}, n), 0, 9)) }},
		{"nested list<... cut before the innermost type", func(n int) []byte { return cut(rowsWithColumnType(append(repeatBytes([]byte{0, 0x20}, n), 0, 9)), 6) }},
		{"nested set<... cut before the innermost type", func(n int) []byte { return cut(rowsWithColumnType(append(repeatBytes([]byte{0, 0x22}, n), 0, 9)), 6) }},
		{"nested map<int, map<int, ... cut", func(n int) []byte { return cut(rowsWithColumnType(append(repeatBytes([]byte{0, 0x21, 0, 9}, n), 0, 9)), 6) }},
		{"nested tuple<tuple<... cut", func(n int) []byte { return cut(rowsWithColumnType(append(repeatBytes([]byte{0, 0x31, 0, 1}, n), 0, 9)), 6) }},
		{"tuple of n ints (well formed, flat)", func(n int) []byte {
			return rowsWithColumnType(append([]byte{0, 0x31, byte(n >> 8), byte(n)}, repeatBytes([]byte{0, 9}, n)...))
		}},
		{"n rows of one null cell", func(n int) []byte {
			body := []byte{0, 0, 0, 2, 0, 0, 0, 4, 0, 0, 0, 1, byte(n >> 24), byte(n >> 16), byte(n >> 8), byte(n)}
			body = append(body, repeatBytes([]byte{0xff, 0xff, 0xff, 0xff}, n)...)
			return append([]byte{0x84, 0, 0, 1, 8, byte(len(body) >> 24), byte(len(body) >> 16), byte(len(body) >> 8), byte(len(body))}, body...)
		}},
	}
}

func allocOf(codec frame.RawCodec, in []byte) (uint64, string) {
	var a, b runtime.MemStats
	runtime.GC()
	runtime.ReadMemStats(&a)
	_, _, outcome, _ := decodeFrame(codec, in)
	runtime.ReadMemStats(&b)
	return b.TotalAlloc - a.TotalAlloc, outcome
}

func cmdGrowth() {
	codec := frame.NewRawCodec()
	for i, fam := range growthFamilies() {
		const n = 500
		small, big := fam.build(n), fam.build(4*n)
		allocOf(codec, small) // warm up
		a1, o1 := allocOf(codec, small)
		a4, o4 := allocOf(codec, big)
		ratio := 0.0
		if a1 > 0 {
			ratio = float64(a4) / float64(a1)
		}
		hlib.Emit(J{"id": "gr" + itoa(i+1), "family": fam.name, "n": n, "bytes_small": len(small), "bytes_big": len(big),
			"alloc_small": a1, "alloc_big": a4, "ratio": ratio, "outcome_small": o1, "outcome_big": o4,
			"size_ratio": float64(len(big)) / float64(len(small))})
	}
}
