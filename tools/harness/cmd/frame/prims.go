// harness-frame prims: every primitive notation of package primitive that has a LengthOf function, on sweeps of values:
// LengthOf(x) = number of bytes Write(x) emits = number of bytes Read consumes, and Read returns x (C03, the notation clause;
// several of these functions are not reachable through frames, e.g. the vint length functions).
package main

import (
	"bytes"
	"fmt"
	"math"
	"net"
	"reflect"
	"strings"

	"github.com/datastax/go-cassandra-native-protocol/primitive"
	"verifharness/hlib"
)

type primCase struct {
	notation string
	value    string
	length   func() (int, error)
	write    func(*bytes.Buffer) (int, error) // returns the count the writer reports (-1 if it reports none)
	read     func(*bytes.Reader) (interface{}, int, error)
	want     interface{}
}

func vintValues() []int64 {
	vals := []int64{0, 1, -1, 2, -2, math.MaxInt64, math.MinInt64, math.MaxInt32, math.MinInt32}
	for k := uint(1); k < 64; k++ {
		p := int64(1) << k
		vals = append(vals, p-2, p-1, p, p+1, -p-1, -p, -p+1, -p+2)
	}
	return vals
}

func uvintValues() []uint64 {
	vals := []uint64{0, 1, math.MaxUint64, math.MaxUint64 - 1}
	for k := uint(1); k < 64; k++ {
		p := uint64(1) << k
		vals = append(vals, p-2, p-1, p, p+1)
	}
	return vals
}

func primCases() []primCase {
	var out []primCase
	for _, v := range vintValues() {
		v := v
		out = append(out, primCase{"vint", fmt.Sprint(v), func() (int, error) { return primitive.LengthOfVint(v), nil },
			func(b *bytes.Buffer) (int, error) { return primitive.WriteVint(v, b) },
			func(r *bytes.Reader) (interface{}, int, error) { x, n, e := primitive.ReadVint(r); return x, n, e }, v})
	}
	for _, v := range uvintValues() {
		v := v
		out = append(out, primCase{"unsigned vint", fmt.Sprint(v), func() (int, error) { return primitive.LengthOfUnsignedVint(v), nil },
			func(b *bytes.Buffer) (int, error) { return primitive.WriteUnsignedVint(v, b) },
			func(r *bytes.Reader) (interface{}, int, error) { x, n, e := primitive.ReadUnsignedVint(r); return x, n, e }, v})
	}
	strs := []string{"", "a", "é", "\x00", strings.Repeat("x", 255), strings.Repeat("y", 256), strings.Repeat("z", 65535)}
	for _, s := range strs {
		s := s
		out = append(out, primCase{"string", fmt.Sprintf("%d bytes", len(s)), func() (int, error) { return primitive.LengthOfString(s), nil },
			func(b *bytes.Buffer) (int, error) { return -1, primitive.WriteString(s, b) },
			func(r *bytes.Reader) (interface{}, int, error) { x, e := primitive.ReadString(r); return x, -1, e }, s})
		out = append(out, primCase{"long string", fmt.Sprintf("%d bytes", len(s)), func() (int, error) { return primitive.LengthOfLongString(s), nil },
			func(b *bytes.Buffer) (int, error) { return -1, primitive.WriteLongString(s, b) },
			func(r *bytes.Reader) (interface{}, int, error) { x, e := primitive.ReadLongString(r); return x, -1, e }, s})
	}
	out = append(out, primCase{"long string", "70000 bytes", func() (int, error) { return primitive.LengthOfLongString(strings.Repeat("q", 70000)), nil },
		func(b *bytes.Buffer) (int, error) { return -1, primitive.WriteLongString(strings.Repeat("q", 70000), b) },
		func(r *bytes.Reader) (interface{}, int, error) { x, e := primitive.ReadLongString(r); return x, -1, e }, strings.Repeat("q", 70000)})
	lists := [][]string{{}, {""}, {"a", "", "bc"}, make([]string, 300)}
	for _, l := range lists {
		l := l
		out = append(out, primCase{"string list", fmt.Sprintf("%d elements", len(l)), func() (int, error) { return primitive.LengthOfStringList(l), nil },
			func(b *bytes.Buffer) (int, error) { return -1, primitive.WriteStringList(l, b) },
			func(r *bytes.Reader) (interface{}, int, error) { x, e := primitive.ReadStringList(r); return x, -1, e }, l})
	}
	blobs := [][]byte{nil, {}, {0}, bytes.Repeat([]byte{7}, 65535), bytes.Repeat([]byte{8}, 65536), bytes.Repeat([]byte{9}, 100000)}
	for _, bl := range blobs {
		bl := bl
		out = append(out, primCase{"bytes", fmt.Sprintf("nil=%v %d bytes", bl == nil, len(bl)), func() (int, error) { return primitive.LengthOfBytes(bl), nil },
			func(b *bytes.Buffer) (int, error) { return -1, primitive.WriteBytes(bl, b) },
			func(r *bytes.Reader) (interface{}, int, error) { x, e := primitive.ReadBytes(r); return x, -1, e }, bl})
		if len(bl) <= 65535 {
			out = append(out, primCase{"short bytes", fmt.Sprintf("nil=%v %d bytes", bl == nil, len(bl)), func() (int, error) { return primitive.LengthOfShortBytes(bl), nil },
				func(b *bytes.Buffer) (int, error) { return -1, primitive.WriteShortBytes(bl, b) },
				func(r *bytes.Reader) (interface{}, int, error) { x, e := primitive.ReadShortBytes(r); return x, -1, e }, bl})
		}
	}
	smaps := []map[string]string{{}, {"a": ""}, {"CQL_VERSION": "3.0.0", "COMPRESSION": "lz4", "": "x"}}
	for _, m := range smaps {
		m := m
		out = append(out, primCase{"string map", fmt.Sprintf("%d entries", len(m)), func() (int, error) { return primitive.LengthOfStringMap(m), nil },
			func(b *bytes.Buffer) (int, error) { return -1, primitive.WriteStringMap(m, b) },
			func(r *bytes.Reader) (interface{}, int, error) { x, e := primitive.ReadStringMap(r); return x, -1, e }, m})
	}
	mmaps := []map[string][]string{{}, {"a": {}}, {"COMPRESSION": {"lz4", "snappy"}, "CQL_VERSION": {"3.4.5"}}}
	for _, m := range mmaps {
		m := m
		out = append(out, primCase{"string multimap", fmt.Sprintf("%d entries", len(m)), func() (int, error) { return primitive.LengthOfStringMultiMap(m), nil },
			func(b *bytes.Buffer) (int, error) { return -1, primitive.WriteStringMultiMap(m, b) },
			func(r *bytes.Reader) (interface{}, int, error) { x, e := primitive.ReadStringMultiMap(r); return x, -1, e }, m})
	}
	bmaps := []map[string][]byte{{}, {"k": nil}, {"k": {}, "l": {1, 2, 3}}}
	for _, m := range bmaps {
		m := m
		out = append(out, primCase{"bytes map", fmt.Sprintf("%d entries", len(m)), func() (int, error) { return primitive.LengthOfBytesMap(m), nil },
			func(b *bytes.Buffer) (int, error) { return -1, primitive.WriteBytesMap(m, b) },
			func(r *bytes.Reader) (interface{}, int, error) { x, e := primitive.ReadBytesMap(r); return x, -1, e }, m})
	}
	for _, ip := range []net.IP{net.IPv4(1, 2, 3, 4).To4(), net.ParseIP("::1"), net.ParseIP("2001:db8::ff00:42:8329")} {
		ip := ip
		out = append(out, primCase{"inetaddr", ip.String(), func() (int, error) { return primitive.LengthOfInetAddr(ip) },
			func(b *bytes.Buffer) (int, error) { return -1, primitive.WriteInetAddr(ip, b) },
			func(r *bytes.Reader) (interface{}, int, error) { x, e := primitive.ReadInetAddr(r); return x, -1, e }, ip})
		in := &primitive.Inet{Addr: ip, Port: 9042}
		out = append(out, primCase{"inet", ip.String(), func() (int, error) { return primitive.LengthOfInet(in) },
			func(b *bytes.Buffer) (int, error) { return -1, primitive.WriteInet(in, b) },
			func(r *bytes.Reader) (interface{}, int, error) { x, e := primitive.ReadInet(r); return x, -1, e }, in})
	}
	for _, rm := range [][]*primitive.FailureReason{{}, {{Endpoint: net.IPv4(1, 2, 3, 4).To4(), Code: primitive.FailureCodeCounterWrite}},
		{{Endpoint: net.ParseIP("::1"), Code: primitive.FailureCodeUnknown}, {Endpoint: net.IPv4(9, 9, 9, 9).To4(), Code: primitive.FailureCodeTableNotFound}}} {
		rm := rm
		out = append(out, primCase{"reason map", fmt.Sprintf("%d entries", len(rm)), func() (int, error) { return primitive.LengthOfReasonMap(rm) },
			func(b *bytes.Buffer) (int, error) { return -1, primitive.WriteReasonMap(rm, b) },
			func(r *bytes.Reader) (interface{}, int, error) { x, e := primitive.ReadReasonMap(r); return x, -1, e }, rm})
	}
	for _, v := range []primitive.ProtocolVersion{primitive.ProtocolVersion3, primitive.ProtocolVersion4, primitive.ProtocolVersion5} {
		v := v
		vals := []*primitive.Value{primitive.NewNullValue(), primitive.NewValue([]byte{}), primitive.NewValue([]byte{1, 2, 3}), primitive.NewValue(bytes.Repeat([]byte{1}, 70000))}
		if v >= primitive.ProtocolVersion4 {
			vals = append(vals, primitive.NewUnsetValue())
		}
		for _, val := range vals {
			val := val
			out = append(out, primCase{"value", fmt.Sprintf("v%d type %d, %d bytes", v, val.Type, len(val.Contents)), func() (int, error) { return primitive.LengthOfValue(val) },
				func(b *bytes.Buffer) (int, error) { return -1, primitive.WriteValue(val, b, v) },
				func(r *bytes.Reader) (interface{}, int, error) { x, e := primitive.ReadValue(r, v); return x, -1, e }, val})
		}
		out = append(out, primCase{"positional values", fmt.Sprintf("v%d %d values", v, len(vals)), func() (int, error) { return primitive.LengthOfPositionalValues(vals) },
			func(b *bytes.Buffer) (int, error) { return -1, primitive.WritePositionalValues(vals, b, v) },
			func(r *bytes.Reader) (interface{}, int, error) { x, e := primitive.ReadPositionalValues(r, v); return x, -1, e }, vals})
		named := map[string]*primitive.Value{"a": vals[0], "": vals[2]}
		out = append(out, primCase{"named values", fmt.Sprintf("v%d", v), func() (int, error) { return primitive.LengthOfNamedValues(named) },
			func(b *bytes.Buffer) (int, error) { return -1, primitive.WriteNamedValues(named, b, v) },
			func(r *bytes.Reader) (interface{}, int, error) { x, e := primitive.ReadNamedValues(r, v); return x, -1, e }, named})
	}
	return out
}

func cmdPrims() {
	for i, c := range primCases() {
		rec := J{"id": "pr" + itoa(i+1), "notation": c.notation, "value": c.value, "ok": true}
		why := ""
		fail := func(s string) {
			rec["ok"] = false
			if why == "" {
				why = s
			}
		}
		var buf bytes.Buffer
		var ln, reported int
		var lerr, werr error
		if p, w := guard(func() { ln, lerr = c.length() }); p {
			fail("LengthOf panics: " + w)
		}
		if p, w := guard(func() { reported, werr = c.write(&buf) }); p {
			fail("Write panics: " + w)
		}
		rec["length_fn"], rec["written"] = ln, buf.Len()
		if (lerr == nil) != (werr == nil) {
			fail(fmt.Sprintf("LengthOf error %v but Write error %v", lerr, werr))
		} else if werr == nil {
			if ln != buf.Len() {
				fail(fmt.Sprintf("LengthOf = %d but Write emitted %d bytes", ln, buf.Len()))
			}
			if reported >= 0 && reported != buf.Len() {
				fail(fmt.Sprintf("Write reports %d bytes but emitted %d", reported, buf.Len()))
			}
			rd := bytes.NewReader(append(buf.Bytes(), 0xAB, 0xCD))
			var got interface{}
			var n int
			var rerr error
			if p, w := guard(func() { got, n, rerr = c.read(rd) }); p {
				fail("Read panics: " + w)
			} else if rerr != nil {
				fail("Read of the written bytes: " + rerr.Error())
			} else {
				if rd.Len() != 2 {
					fail(fmt.Sprintf("Read consumed %d bytes, %d were written", buf.Len()+2-rd.Len(), buf.Len()))
				}
				if n >= 0 && n != buf.Len() {
					fail(fmt.Sprintf("Read reports %d bytes, %d were written", n, buf.Len()))
				}
				if d := equivValue(reflect.ValueOf(c.want), reflect.ValueOf(got), ""); d != "" {
					fail("Read returns a different value: " + d)
				}
			}
		}
		rec["why"] = why
		hlib.Emit(rec)
	}
}
