package main

// Generators of VERSION-VALID messages: only features that the specification of the version defines, fields that are
// irrelevant for a variant/version left at their zero value (documented preconditions of the message structs).
// The version tables below are written from specs/*.spec, not from the Supports* predicates of the code.

import (
	"fmt"

	"github.com/datastax/go-cassandra-native-protocol/datatype"
	"github.com/datastax/go-cassandra-native-protocol/message"
	"github.com/datastax/go-cassandra-native-protocol/primitive"
)

const (
	v2   = primitive.ProtocolVersion2
	v3   = primitive.ProtocolVersion3
	v4   = primitive.ProtocolVersion4
	v5   = primitive.ProtocolVersion5
	dse1 = primitive.ProtocolVersionDse1
	dse2 = primitive.ProtocolVersionDse2
)

var allVersions = []primitive.ProtocolVersion{v2, v3, v4, v5, dse1, dse2}

func isDse(v primitive.ProtocolVersion) bool { return v == dse1 || v == dse2 }

// spec-side capability tables
func hasNamedValues(v primitive.ProtocolVersion) bool      { return v >= v3 }
func hasDefaultTimestamp(v primitive.ProtocolVersion) bool { return v >= v3 }
func hasUnset(v primitive.ProtocolVersion) bool            { return v >= v4 }
func hasKeyspace(v primitive.ProtocolVersion) bool         { return v == v5 || v == dse2 }
func hasNowInSeconds(v primitive.ProtocolVersion) bool     { return v == v5 }
func hasResultMetadataId(v primitive.ProtocolVersion) bool { return v == v5 || v == dse2 }
func hasReasonMap(v primitive.ProtocolVersion) bool        { return v == v5 || isDse(v) }
func hasContentions(v primitive.ProtocolVersion) bool      { return v == v5 }
func hasBatchFlags(v primitive.ProtocolVersion) bool       { return v >= v3 }
func hasPayloadAndWarnings(v primitive.ProtocolVersion) bool {
	return v >= v4
}
func hasPkIndices(v primitive.ProtocolVersion) bool { return v >= v4 }

type kindSpec struct {
	name     string
	response bool
	minV     primitive.ProtocolVersion // first OSS version defining the kind (DSE versions include everything of v4)
	dseOnly  bool
	gen      func(c *chooser, v primitive.ProtocolVersion) message.Message
}

func (k *kindSpec) definedIn(v primitive.ProtocolVersion) bool {
	if k.dseOnly {
		return isDse(v)
	}
	return v >= k.minV
}

func simpleError(name string, mk func(string) message.Message) kindSpec {
	return kindSpec{name: name, response: true, minV: v2, gen: func(c *chooser, v primitive.ProtocolVersion) message.Message {
		return mk(c.str())
	}}
}

var kinds = []kindSpec{
	// requests
	{name: "Startup", minV: v2, gen: genStartup},
	{name: "Options", minV: v2, gen: func(c *chooser, v primitive.ProtocolVersion) message.Message { return &message.Options{} }},
	{name: "Query", minV: v2, gen: genQuery},
	{name: "Prepare", minV: v2, gen: genPrepare},
	{name: "Execute", minV: v2, gen: genExecute},
	{name: "Register", minV: v2, gen: genRegister},
	{name: "Batch", minV: v2, gen: genBatch},
	{name: "AuthResponse", minV: v2, gen: func(c *chooser, v primitive.ProtocolVersion) message.Message {
		return &message.AuthResponse{Token: genToken(c)}
	}},
	{name: "Revise", dseOnly: true, gen: genRevise},
	// responses
	{name: "Ready", response: true, minV: v2, gen: func(c *chooser, v primitive.ProtocolVersion) message.Message { return &message.Ready{} }},
	{name: "Authenticate", response: true, minV: v2, gen: func(c *chooser, v primitive.ProtocolVersion) message.Message {
		auths := []string{"org.apache.cassandra.auth.PasswordAuthenticator", "com.datastax.bdp.cassandra.auth.DseAuthenticator", "a"}
		if c.random() && c.val(3) == 0 {
			return &message.Authenticate{Authenticator: c.nonEmptyStr()} // the encoder refuses an empty authenticator
		}
		return &message.Authenticate{Authenticator: auths[c.val(len(auths))]}
	}},
	{name: "Supported", response: true, minV: v2, gen: genSupported},
	{name: "AuthChallenge", response: true, minV: v2, gen: func(c *chooser, v primitive.ProtocolVersion) message.Message {
		return &message.AuthChallenge{Token: genToken(c)}
	}},
	{name: "AuthSuccess", response: true, minV: v2, gen: func(c *chooser, v primitive.ProtocolVersion) message.Message {
		return &message.AuthSuccess{Token: genToken(c)}
	}},
	simpleError("ServerError", func(s string) message.Message { return &message.ServerError{ErrorMessage: s} }),
	simpleError("ProtocolError", func(s string) message.Message { return &message.ProtocolError{ErrorMessage: s} }),
	simpleError("AuthenticationError", func(s string) message.Message { return &message.AuthenticationError{ErrorMessage: s} }),
	simpleError("Overloaded", func(s string) message.Message { return &message.Overloaded{ErrorMessage: s} }),
	simpleError("IsBootstrapping", func(s string) message.Message { return &message.IsBootstrapping{ErrorMessage: s} }),
	simpleError("TruncateError", func(s string) message.Message { return &message.TruncateError{ErrorMessage: s} }),
	simpleError("SyntaxError", func(s string) message.Message { return &message.SyntaxError{ErrorMessage: s} }),
	simpleError("Unauthorized", func(s string) message.Message { return &message.Unauthorized{ErrorMessage: s} }),
	simpleError("Invalid", func(s string) message.Message { return &message.Invalid{ErrorMessage: s} }),
	simpleError("ConfigError", func(s string) message.Message { return &message.ConfigError{ErrorMessage: s} }),
	{name: "Unavailable", response: true, minV: v2, gen: func(c *chooser, v primitive.ProtocolVersion) message.Message {
		return &message.Unavailable{ErrorMessage: c.str(), Consistency: c.consistency(), Required: c.i32(), Alive: c.i32()}
	}},
	{name: "ReadTimeout", response: true, minV: v2, gen: func(c *chooser, v primitive.ProtocolVersion) message.Message {
		return &message.ReadTimeout{ErrorMessage: c.str(), Consistency: c.consistency(), Received: c.i32(), BlockFor: c.i32(), DataPresent: c.flip()}
	}},
	{name: "WriteTimeout", response: true, minV: v2, gen: genWriteTimeout},
	{name: "ReadFailure", response: true, minV: v4, gen: genReadFailure},
	{name: "WriteFailure", response: true, minV: v4, gen: genWriteFailure},
	{name: "FunctionFailure", response: true, minV: v4, gen: func(c *chooser, v primitive.ProtocolVersion) message.Message {
		return &message.FunctionFailure{ErrorMessage: c.str(), Keyspace: c.str(), Function: c.str(), Arguments: genArguments(c)}
	}},
	{name: "Unprepared", response: true, minV: v2, gen: func(c *chooser, v primitive.ProtocolVersion) message.Message {
		return &message.Unprepared{ErrorMessage: c.str(), Id: c.optBytes()}
	}},
	{name: "AlreadyExists", response: true, minV: v2, gen: func(c *chooser, v primitive.ProtocolVersion) message.Message {
		return &message.AlreadyExists{ErrorMessage: c.str(), Keyspace: c.str(), Table: c.str()}
	}},
	{name: "SchemaChangeEvent", response: true, minV: v2, gen: func(c *chooser, v primitive.ProtocolVersion) message.Message {
		ct, tg, ks, ob, args := genSchemaChange(c, v, true)
		return &message.SchemaChangeEvent{ChangeType: ct, Target: tg, Keyspace: ks, Object: ob, Arguments: args}
	}},
	{name: "StatusChangeEvent", response: true, minV: v2, gen: func(c *chooser, v primitive.ProtocolVersion) message.Message {
		t := primitive.StatusChangeTypeUp
		if c.optNamed("down", 2) == 1 {
			t = primitive.StatusChangeTypeDown
		}
		return &message.StatusChangeEvent{ChangeType: t, Address: c.inet()}
	}},
	{name: "TopologyChangeEvent", response: true, minV: v2, gen: func(c *chooser, v primitive.ProtocolVersion) message.Message {
		ts := []primitive.TopologyChangeType{primitive.TopologyChangeTypeNewNode, primitive.TopologyChangeTypeRemovedNode}
		if v >= v3 {
			ts = append(ts, primitive.TopologyChangeTypeMovedNode) // MOVED_NODE: v3+ (as in the code's capability table)
		}
		return &message.TopologyChangeEvent{ChangeType: ts[c.optNamed("type", len(ts))], Address: c.inet()}
	}},
	{name: "VoidResult", response: true, minV: v2, gen: func(c *chooser, v primitive.ProtocolVersion) message.Message { return &message.VoidResult{} }},
	{name: "SetKeyspaceResult", response: true, minV: v2, gen: func(c *chooser, v primitive.ProtocolVersion) message.Message {
		return &message.SetKeyspaceResult{Keyspace: c.nonEmptyStr()}
	}},
	{name: "SchemaChangeResult", response: true, minV: v2, gen: func(c *chooser, v primitive.ProtocolVersion) message.Message {
		ct, tg, ks, ob, args := genSchemaChange(c, v, false)
		return &message.SchemaChangeResult{ChangeType: ct, Target: tg, Keyspace: ks, Object: ob, Arguments: args}
	}},
	{name: "PreparedResult", response: true, minV: v2, gen: genPrepared},
	{name: "RowsResult", response: true, minV: v2, gen: genRows},
}

func kindByName(name string) *kindSpec {
	for i := range kinds {
		if kinds[i].name == name {
			return &kinds[i]
		}
	}
	panic("unknown kind " + name)
}

func genToken(c *chooser) []byte {
	switch c.optNamed("token", 3) {
	case 0:
		return nil
	case 1:
		return []byte{}
	}
	return c.nonEmptyBytes()
}

func genArguments(c *chooser) []string {
	switch c.optNamed("args", 3) {
	case 0:
		return nil
	case 1:
		return []string{}
	}
	n := 1 + c.val(3)
	l := make([]string, n)
	for i := range l {
		l[i] = c.str()
	}
	return l
}

func genStartup(c *chooser, v primitive.ProtocolVersion) message.Message {
	switch c.optNamed("options", 5) {
	case 0:
		return &message.Startup{Options: map[string]string{"CQL_VERSION": "3.0.0"}}
	case 1:
		comp := "lz4"
		if v != v5 && c.flip() {
			comp = "snappy"
		}
		return &message.Startup{Options: map[string]string{"CQL_VERSION": "3.4.5", "COMPRESSION": comp}}
	case 2:
		m := map[string]string{"CQL_VERSION": "3.0.0", "DRIVER_NAME": c.str(), "DRIVER_VERSION": c.str(), "THROW_ON_OVERLOAD": "1"}
		if c.random() {
			for i, n := 0, c.val(5); i < n; i++ {
				m[c.str()] = c.str()
			}
		}
		return &message.Startup{Options: m}
	case 3:
		return &message.Startup{Options: map[string]string{}}
	}
	return &message.Startup{Options: nil}
}

func genSupported(c *chooser, v primitive.ProtocolVersion) message.Message {
	switch c.optNamed("options", 5) {
	case 0:
		return &message.Supported{Options: map[string][]string{"CQL_VERSION": {"3.0.0"}}}
	case 1:
		return &message.Supported{Options: map[string][]string{
			"CQL_VERSION": {"3.0.0", "3.4.5"}, "COMPRESSION": {"snappy", "lz4"}, "PROTOCOL_VERSIONS": {"3/v3", "4/v4", "5/v5-beta"}}}
	case 2:
		m := map[string][]string{"EMPTY": {}, "NIL": nil, "": {""}}
		if c.random() {
			for i, n := 0, c.val(5); i < n; i++ {
				m[c.str()] = c.stringList(4)
			}
		}
		return &message.Supported{Options: m}
	case 3:
		return &message.Supported{Options: map[string][]string{}}
	}
	return &message.Supported{Options: nil}
}

func genRegister(c *chooser, v primitive.ProtocolVersion) message.Message {
	all := []primitive.EventType{primitive.EventTypeTopologyChange, primitive.EventTypeStatusChange, primitive.EventTypeSchemaChange}
	mask := 1 + c.optNamed("events", 7) // every non-empty subset
	var l []primitive.EventType
	for i, e := range all {
		if mask&(1<<uint(i)) != 0 {
			l = append(l, e)
		}
	}
	if c.random() && c.val(4) == 0 { // order and duplicates are free
		l = append(l, all[c.val(3)])
		l[0], l[len(l)-1] = l[len(l)-1], l[0]
	}
	return &message.Register{EventTypes: l}
}

func genPositionalValues(c *chooser, v primitive.ProtocolVersion, shape int) []*primitive.Value {
	// shape 0: empty, 1: one value, 2: several
	n := 0
	switch shape {
	case 1:
		n = 1
	case 2:
		n = 2 + c.val(3)
		if c.chance(30) {
			n = 50 + c.val(200)
		}
	}
	vs := make([]*primitive.Value, n)
	for i := range vs {
		vs[i] = c.value(v)
	}
	return vs
}

func genQueryOptions(c *chooser, v primitive.ProtocolVersion) *message.QueryOptions {
	o := &message.QueryOptions{Consistency: c.consistency()}
	nValues := 2 // none, positional
	if hasNamedValues(v) {
		nValues = 3 // + named
	}
	switch c.optNamed("values", nValues) {
	case 1:
		o.PositionalValues = genPositionalValues(c, v, c.val(3)) // empty (non-nil), one, several
	case 2:
		o.NamedValues = map[string]*primitive.Value{}
		for i, n := 0, c.val(4); i < n; i++ {
			o.NamedValues[cap16(fmt.Sprintf("n%d%s", i, c.str()))] = c.value(v)
		}
	}
	o.SkipMetadata = c.optNamed("skip", 2) == 1
	nPage := 2
	if isDse(v) {
		nPage = 3
	}
	if p := c.optNamed("page", nPage); p > 0 {
		sizes := []int32{1, 100, 5000, 2147483647}
		o.PageSize = sizes[c.val(len(sizes))]
		o.PageSizeInBytes = p == 2
	}
	if c.optNamed("state", 2) == 1 {
		o.PagingState = c.someBytes()
	}
	if c.optNamed("serial", 2) == 1 {
		o.SerialConsistency = c.serialConsistency()
	}
	if hasDefaultTimestamp(v) && c.optNamed("ts", 2) == 1 {
		ts := c.i64()
		o.DefaultTimestamp = &ts
	}
	if hasKeyspace(v) && c.optNamed("ks", 2) == 1 {
		o.Keyspace = c.nonEmptyStr()
	}
	if hasNowInSeconds(v) && c.optNamed("now", 2) == 1 {
		n := c.i32()
		o.NowInSeconds = &n
	}
	if isDse(v) && c.optNamed("cp", 2) == 1 {
		cp := &message.ContinuousPagingOptions{MaxPages: c.i32(), PagesPerSecond: c.i32()}
		if v == dse2 {
			cp.NextPages = c.i32()
		}
		o.ContinuousPagingOptions = cp
	}
	return o
}

func genQuery(c *chooser, v primitive.ProtocolVersion) message.Message {
	return &message.Query{Query: c.longStr(), Options: genQueryOptions(c, v)}
}

func genExecute(c *chooser, v primitive.ProtocolVersion) message.Message {
	m := &message.Execute{QueryId: c.nonEmptyBytes()}
	if hasResultMetadataId(v) {
		m.ResultMetadataId = c.nonEmptyBytes()
	}
	m.Options = genQueryOptions(c, v)
	return m
}

func genPrepare(c *chooser, v primitive.ProtocolVersion) message.Message {
	m := &message.Prepare{Query: c.nonEmptyLongStr()}
	if hasKeyspace(v) && c.optNamed("ks", 2) == 1 {
		m.Keyspace = c.nonEmptyStr()
	}
	return m
}

func genBatchChild(c *chooser, v primitive.ProtocolVersion, prepared bool, valueShape int) *message.BatchChild {
	ch := &message.BatchChild{}
	if prepared {
		ch.Id = c.nonEmptyBytes()
	} else {
		ch.Query = c.nonEmptyLongStr()
	}
	switch valueShape {
	case 0:
		ch.Values = nil
	case 1:
		ch.Values = []*primitive.Value{}
	default:
		ch.Values = genPositionalValues(c, v, valueShape-1)
	}
	return ch
}

func genBatch(c *chooser, v primitive.ProtocolVersion) message.Message {
	types := []primitive.BatchType{primitive.BatchTypeLogged, primitive.BatchTypeUnlogged, primitive.BatchTypeCounter}
	m := &message.Batch{Type: types[c.optNamed("type", 3)], Consistency: c.consistency()}
	switch c.optNamed("children", 5) {
	case 0:
		m.Children = nil
	case 1:
		m.Children = []*message.BatchChild{genBatchChild(c, v, false, 0)}
	case 2:
		m.Children = []*message.BatchChild{genBatchChild(c, v, true, 2)}
	case 3:
		m.Children = []*message.BatchChild{genBatchChild(c, v, false, 3), genBatchChild(c, v, true, 1), genBatchChild(c, v, true, 3)}
	case 4:
		n := 0
		if c.random() {
			n = c.val(40)
		}
		m.Children = make([]*message.BatchChild, n)
		for i := range m.Children {
			m.Children[i] = genBatchChild(c, v, c.flip(), c.val(4))
		}
	}
	if hasBatchFlags(v) {
		if c.optNamed("serial", 2) == 1 {
			m.SerialConsistency = c.serialConsistency()
		}
		if c.optNamed("ts", 2) == 1 {
			ts := c.i64()
			m.DefaultTimestamp = &ts
		}
		if hasKeyspace(v) && c.optNamed("ks", 2) == 1 {
			m.Keyspace = c.nonEmptyStr()
		}
		if hasNowInSeconds(v) && c.optNamed("now", 2) == 1 {
			n := c.i32()
			m.NowInSeconds = &n
		}
	}
	return m
}

func genRevise(c *chooser, v primitive.ProtocolVersion) message.Message {
	m := &message.Revise{RevisionType: primitive.DseRevisionTypeCancelContinuousPaging, TargetStreamId: c.i32()}
	if v == dse2 && c.optNamed("more", 2) == 1 {
		m.RevisionType = primitive.DseRevisionTypeMoreContinuousPages
		m.NextPages = c.i32()
	}
	return m
}

func genWriteTimeout(c *chooser, v primitive.ProtocolVersion) message.Message {
	m := &message.WriteTimeout{ErrorMessage: c.str(), Consistency: c.consistency(), Received: c.i32(), BlockFor: c.i32()}
	m.WriteType = writeTypes[c.optNamed("wt", len(writeTypes))]
	if hasContentions(v) && m.WriteType == primitive.WriteTypeCas {
		cs := []uint16{0, 1, 2, 65535}
		m.Contentions = cs[c.val(len(cs))]
	}
	return m
}

func genReasonMap(c *chooser) []*primitive.FailureReason {
	var n int
	switch c.optNamed("reasons", 4) {
	case 0:
		return nil
	case 1:
		return []*primitive.FailureReason{}
	case 2:
		n = 1
	case 3:
		n = 2 + c.val(3)
		if c.chance(20) {
			n = 20 + c.val(50)
		}
	}
	l := make([]*primitive.FailureReason, n)
	for i := range l {
		l[i] = &primitive.FailureReason{Endpoint: c.ip(), Code: failureCodes[c.val(len(failureCodes))]}
	}
	return l
}

func genReadFailure(c *chooser, v primitive.ProtocolVersion) message.Message {
	m := &message.ReadFailure{ErrorMessage: c.str(), Consistency: c.consistency(), Received: c.i32(), BlockFor: c.i32(), DataPresent: c.flip()}
	if hasReasonMap(v) {
		m.FailureReasons = genReasonMap(c)
	} else {
		m.NumFailures = c.i32()
	}
	return m
}

func genWriteFailure(c *chooser, v primitive.ProtocolVersion) message.Message {
	m := &message.WriteFailure{ErrorMessage: c.str(), Consistency: c.consistency(), Received: c.i32(), BlockFor: c.i32()}
	m.WriteType = writeTypes[c.optNamed("wt", len(writeTypes))]
	if hasReasonMap(v) {
		m.FailureReasons = genReasonMap(c)
	} else {
		m.NumFailures = c.i32()
	}
	return m
}

var schemaChangeTypes = []primitive.SchemaChangeType{primitive.SchemaChangeTypeCreated, primitive.SchemaChangeTypeUpdated, primitive.SchemaChangeTypeDropped}

func schemaTargets(v primitive.ProtocolVersion) []primitive.SchemaChangeTarget {
	ts := []primitive.SchemaChangeTarget{primitive.SchemaChangeTargetKeyspace, primitive.SchemaChangeTargetTable}
	if v >= v3 {
		ts = append(ts, primitive.SchemaChangeTargetType)
	}
	if v >= v4 {
		ts = append(ts, primitive.SchemaChangeTargetFunction, primitive.SchemaChangeTargetAggregate)
	}
	return ts
}

func genSchemaChange(c *chooser, v primitive.ProtocolVersion, event bool) (ct primitive.SchemaChangeType, tg primitive.SchemaChangeTarget, ks, ob string, args []string) {
	ct = schemaChangeTypes[c.optNamed("change", 3)]
	ts := schemaTargets(v)
	tg = ts[c.optNamed("target", len(ts))]
	ks = c.nonEmptyStr()
	switch tg {
	case primitive.SchemaChangeTargetKeyspace:
	case primitive.SchemaChangeTargetTable, primitive.SchemaChangeTargetType:
		ob = c.nonEmptyStr()
	default:
		ob = c.nonEmptyStr()
		args = genArguments(c)
	}
	return
}

// ---------------------------------------------------------------- data types

var primitiveTypesV2 = []datatype.DataType{
	datatype.Ascii, datatype.Bigint, datatype.Blob, datatype.Boolean, datatype.Counter, datatype.Decimal, datatype.Double,
	datatype.Float, datatype.Int, datatype.Timestamp, datatype.Uuid, datatype.Varchar, datatype.Varint, datatype.Timeuuid,
	datatype.Inet,
}
var primitiveTypesV4 = []datatype.DataType{datatype.Date, datatype.Time, datatype.Smallint, datatype.Tinyint}

func primitiveTypes(v primitive.ProtocolVersion) []datatype.DataType {
	ts := append([]datatype.DataType{}, primitiveTypesV2...)
	if v >= v4 {
		ts = append(ts, primitiveTypesV4...)
	}
	if v == v5 || isDse(v) {
		ts = append(ts, datatype.Duration)
	}
	return ts
}

func genDataType(c *chooser, v primitive.ProtocolVersion, depth int) datatype.DataType {
	prims := primitiveTypes(v)
	nComposite := 4 // custom, list, map, set
	if v >= v3 {
		nComposite = 6 // + udt, tuple
	}
	k := c.val(len(prims) + nComposite*2)
	if depth <= 0 && k >= len(prims)+1 {
		k = c.val(len(prims) + 1)
	}
	if k < len(prims) {
		return prims[k]
	}
	switch (k - len(prims)) % nComposite {
	case 0:
		classes := []string{"org.apache.cassandra.db.marshal.DateType", "", "X"}
		return datatype.NewCustom(classes[c.val(len(classes))])
	case 1:
		return datatype.NewList(genDataType(c, v, depth-1))
	case 2:
		return datatype.NewMap(genDataType(c, v, depth-1), genDataType(c, v, depth-1))
	case 3:
		return datatype.NewSet(genDataType(c, v, depth-1))
	case 4:
		n := c.val(4)
		names := make([]string, n)
		types := make([]datatype.DataType, n)
		for i := range names {
			names[i] = fmt.Sprintf("f%d", i)
			if c.val(5) == 0 {
				names[i] = c.str()
			}
			types[i] = genDataType(c, v, depth-1)
		}
		return &datatype.UserDefined{Keyspace: c.str(), Name: c.str(), FieldNames: names, FieldTypes: types}
	}
	n := c.val(4)
	types := make([]datatype.DataType, n)
	for i := range types {
		types[i] = genDataType(c, v, depth-1)
	}
	return datatype.NewTuple(types...)
}

// shape 1: all columns of one table (global table spec), 2: different tables
func genColumns(c *chooser, v primitive.ProtocolVersion, shape int, n int) []*message.ColumnMetadata {
	cols := make([]*message.ColumnMetadata, n)
	ks, tb := c.str(), c.str()
	mode := 0
	if shape == 2 {
		mode = c.val(5)
	}
	for i := range cols {
		col := &message.ColumnMetadata{Keyspace: ks, Table: tb, Name: fmt.Sprintf("c%d", i), Type: genDataType(c, v, 2)}
		if c.val(6) == 0 {
			col.Name = c.str()
		}
		if c.val(3) == 0 {
			col.Index = int32(i + c.val(3)) // the wire does not carry it
		}
		if shape == 2 {
			// no global table spec as soon as n >= 2; the columns differ in the table, in the keyspace only, in the
			// table only, or only the last column differs (each of these is a distinct way to get haveSameTable wrong)
			switch mode {
			case 0:
				col.Table = cap16(fmt.Sprintf("%d_%s", i, tb))
				if i%2 == 1 {
					col.Keyspace = cap16("2" + ks)
				}
			case 1:
				col.Keyspace = cap16(fmt.Sprintf("%d_%s", i, ks)) // same table name, different keyspaces
			case 2:
				col.Table = cap16(fmt.Sprintf("%d_%s", i, tb)) // same keyspace, different tables
			case 3:
				// the boundary between keyspace and table moves: "ks" + "." + "x.t" and "ks.x" + "." + "t" join to the same string
				if i%2 == 1 {
					col.Keyspace, col.Table = cap16(ks+".x"), tb
				} else {
					col.Keyspace, col.Table = ks, cap16("x."+tb)
				}
			default:
				if i == n-1 && n >= 2 {
					col.Keyspace = cap16("z" + ks) // only the last column is from elsewhere
				} else if n < 2 {
					col.Table = cap16("0_" + tb)
				}
			}
		}
		cols[i] = col
	}
	return cols
}

func columnCountFor(c *chooser, shape int) int {
	if shape == 0 {
		return 0
	}
	n := 1 + c.val(3)
	if shape == 2 && n == 1 {
		n = 2
	}
	if c.chance(25) {
		n = 10 + c.val(40)
	}
	return n
}

func genRowsMetadata(c *chooser, v primitive.ProtocolVersion, prefix string) *message.RowsMetadata {
	m := &message.RowsMetadata{}
	shape := c.optNamed(prefix+"cols", 3) // 0: no metadata, 1: one table, 2: several tables
	if shape == 0 {
		counts := []int32{0, 1, 3}
		m.ColumnCount = counts[c.val(len(counts))]
		if c.flip() {
			m.Columns = []*message.ColumnMetadata{}
		}
	} else {
		n := columnCountFor(c, shape)
		m.Columns = genColumns(c, v, shape, n)
		m.ColumnCount = int32(n)
	}
	if c.optNamed(prefix+"state", 2) == 1 {
		m.PagingState = c.someBytes()
	}
	if hasResultMetadataId(v) && c.optNamed(prefix+"newid", 2) == 1 {
		m.NewResultMetadataId = c.nonEmptyBytes()
	}
	if isDse(v) {
		if p := c.optNamed(prefix+"cpage", 3); p > 0 {
			pages := []int32{1, 2, 2147483647}
			m.ContinuousPageNumber = pages[c.val(len(pages))]
			m.LastContinuousPage = p == 2
		}
	}
	return m
}

func genRows(c *chooser, v primitive.ProtocolVersion) message.Message {
	m := &message.RowsResult{Metadata: genRowsMetadata(c, v, "")}
	nRows := 0
	switch c.optNamed("rows", 3) {
	case 0:
		if c.flip() {
			m.Data = message.RowSet{}
		}
		return m
	case 1:
		nRows = 1
	case 2:
		nRows = 2 + c.val(3)
		if c.chance(15) {
			nRows = 50 + c.val(300)
		}
	}
	compressible := c.chance(4)
	m.Data = make(message.RowSet, nRows)
	for i := range m.Data {
		row := make(message.Row, m.Metadata.ColumnCount)
		for j := range row {
			if compressible {
				row[j] = []byte("the same cell value, again and again")
			} else {
				row[j] = c.optBytes()
			}
		}
		m.Data[i] = row
	}
	return m
}

func genPrepared(c *chooser, v primitive.ProtocolVersion) message.Message {
	m := &message.PreparedResult{PreparedQueryId: c.nonEmptyBytes()}
	if hasResultMetadataId(v) {
		m.ResultMetadataId = c.nonEmptyBytes()
	}
	vm := &message.VariablesMetadata{}
	shape := c.optNamed("vars", 3)
	n := columnCountFor(c, shape)
	if shape > 0 {
		vm.Columns = genColumns(c, v, shape, n)
	} else if c.flip() {
		vm.Columns = []*message.ColumnMetadata{}
	}
	if hasPkIndices(v) {
		if c.optNamed("pk", 2) == 1 {
			vm.PkIndices = [][]uint16{{0}, {uint16(c.val(3)), 65535, 1}, {}}[c.val(3)]
		}
	}
	m.VariablesMetadata = vm
	m.ResultMetadata = genRowsMetadata(c, v, "r.")
	return m
}
