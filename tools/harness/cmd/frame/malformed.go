package main

// malformed: structure-aware mutations of valid encodings, run through the decoding entry points of frame.RawCodec
// (DecodeFrame = "frame", DecodeRawFrame = "rawframe", DecodeHeader = "header", DecodeBody with a valid header = "body").
//
// The positions of the length / count / code fields of a body are found by tracing the reads the real decoder makes
// on the valid encoding: every 1-, 2-, 4- and 8-byte read is a field.  Each field is set to -1, -2, 0, 1 and the
// boundary and huge values of its width.  Further families: truncation at every offset, single bit flips, splices of
// two frames, random bytes, and header mutations (version byte, opcode, flags, stream id, body length).
//
// Every case runs in a child process (`harness-frame worker`, address space limited with RLIMIT_AS) inside a goroutine
// with recover() and a 5 s limit; a child killed by the runtime's out-of-memory fatal error gives outcome "oom".

import (
	"bufio"
	"bytes"
	"encoding/binary"
	"encoding/hex"
	"encoding/json"
	"fmt"
	"io"
	"math/rand"
	"os"
	"os/exec"
	"runtime"
	"runtime/pprof"
	"strconv"
	"strings"
	"sync"
	"sync/atomic"
	"syscall"
	"time"

	"github.com/datastax/go-cassandra-native-protocol/datatype"
	"github.com/datastax/go-cassandra-native-protocol/frame"
	"github.com/datastax/go-cassandra-native-protocol/message"
	"github.com/datastax/go-cassandra-native-protocol/primitive"
	"verifharness/hlib"
)

type job struct {
	Id          string `json:"id"`
	Entry       string `json:"entry"`
	Version     int    `json:"version"`
	Compression string `json:"compression"`
	Input       string `json:"input"`            // hex
	Header      string `json:"header,omitempty"` // hex of a valid header (entry "body")
	Origin      string `json:"origin"`
}

// ---------------------------------------------------------------- running one case (in the worker)

type caseResult struct {
	outcome  string
	consumed int
	decoded  string
	reencode string
	reEqual  interface{}
	reErr    string // error text of EncodeFrame or of the second DecodeFrame, or the first difference
	reClass  string // stable slug (reclass.go)
	detail   string
}

func runEntry(j *job) caseResult {
	in, err := hex.DecodeString(j.Input)
	if err != nil {
		return caseResult{outcome: "err", detail: "bad hex", reencode: "n/a"}
	}
	codec := codecFor(j.Compression)
	res := caseResult{reencode: "n/a"}
	r := bytes.NewReader(in)
	var perr error
	p, what := guard(func() {
		switch j.Entry {
		case "frame":
			var f *frame.Frame
			if f, perr = codec.DecodeFrame(r); perr == nil {
				res.decoded = hlib.CoqTerm(f)
				res.consumed = len(in) - r.Len()
				reencode(codec, f, &res)
			}
		case "rawframe":
			var f *frame.RawFrame
			if f, perr = codec.DecodeRawFrame(r); perr == nil {
				res.decoded = hlib.CoqTerm(f)
			}
		case "header":
			var h *frame.Header
			if h, perr = codec.DecodeHeader(r); perr == nil {
				res.decoded = hlib.CoqTerm(h)
			}
		case "body":
			hb, _ := hex.DecodeString(j.Header)
			var h *frame.Header
			if h, perr = codec.DecodeHeader(bytes.NewReader(hb)); perr != nil {
				perr = fmt.Errorf("harness: invalid header for entry body: %w", perr)
				return
			}
			var b *frame.Body
			if b, perr = codec.DecodeBody(h, r); perr == nil {
				res.decoded = hlib.CoqTerm(b)
			}
		default:
			perr = fmt.Errorf("harness: unknown entry %q", j.Entry)
		}
	})
	res.consumed = len(in) - r.Len()
	switch {
	case p:
		res.outcome = "panic"
		res.detail = what
	case perr != nil:
		res.outcome = "err"
		res.detail = perr.Error()
		if len(res.detail) > 160 {
			res.detail = res.detail[:160]
		}
	default:
		res.outcome = "ok"
	}
	return res
}

// the re-encode clause of C05: bytes that decode successfully and are re-encoded decode again to an equal frame
func reencode(codec frame.RawCodec, f *frame.Frame, res *caseResult) {
	enc, _, oc, w := encodeFrame(codec, f)
	if oc != "ok" {
		res.reencode = "err"
		if oc == "panic" {
			res.reencode = "panic"
		}
		res.reEqual = nil
		res.detail = "re-encode: " + w
		res.reErr = w
		if oc == "panic" {
			res.reClass = "unclassified"
		} else {
			res.reClass = classifyReencode(f, "encode", w)
		}
		return
	}
	res.reencode = "ok"
	f2, c2, oc2, w2 := decodeFrame(codec, enc)
	if oc2 != "ok" {
		res.reEqual = false
		res.detail = "decode of the re-encoded frame: " + oc2 + " " + w2
		res.reErr = w2
		res.reClass = classifyReencode(f, "decode", w2)
		return
	}
	if d := frameEquiv(f, f2); d != "" {
		res.reEqual = false
		res.detail = "re-decoded frame differs: " + d
		res.reErr = d
		res.reClass = classifyReencode(f, "differs", d)
		return
	}
	res.reEqual = c2 == len(enc)
	if c2 != len(enc) {
		res.detail = fmt.Sprintf("decode of the re-encoded frame leaves %d of %d bytes unread", len(enc)-c2, len(enc))
		res.reErr = res.detail
		res.reClass = "unclassified"
	}
}

func recordOf(j *job, res caseResult) J {
	rec := J{"id": j.Id, "version": j.Version, "compression": j.Compression, "input": j.Input, "origin": j.Origin, "entry": j.Entry,
		"outcome": res.outcome, "consumed": res.consumed, "reencode": res.reencode, "reencode_equal": res.reEqual}
	if j.Header != "" {
		rec["header"] = j.Header
	}
	if res.outcome == "ok" {
		rec["decoded"] = res.decoded
	}
	if res.reClass != "" {
		rec["reencode_error"] = res.reErr
		rec["reencode_class"] = res.reClass
	}
	if res.detail != "" {
		rec["detail"] = res.detail
	}
	return rec
}

const caseTimeout = 5 * time.Second

// runWithTimeout: the case runs in its own goroutine; a decoder that does not return within 5 s is reported as
// "timeout" (the goroutine cannot be killed: the worker exits afterwards and the parent starts a new one).
func runWithTimeout(j *job) (J, bool) {
	done := make(chan caseResult, 1)
	t0 := time.Now()
	go func() { done <- runEntry(j) }()
	select {
	case res := <-done:
		rec := recordOf(j, res)
		if os.Getenv("VERIF_FRAME_STATS") != "" {
			rec["us"] = time.Since(t0).Microseconds()
		}
		if ms := time.Since(t0).Milliseconds(); ms >= 20 {
			rec["slow_ms"] = ms // informative: never compared
		}
		return rec, false
	case <-time.After(caseTimeout):
		return recordOf(j, caseResult{outcome: "timeout", reencode: "n/a"}), true
	}
}

// Memory guard of a worker.  A decoder that sizes an allocation by a count read from the wire can ask for tens of GiB.
//   - RLIMIT_AS is set to the address space the worker occupies once started plus VERIF_FRAME_VMEM_MB (default 192 MiB;
//     a stricter `ulimit -v` of the caller is left alone): larger requests fail at once with the runtime's
//     out-of-memory fatal error.  The limit is relative because the Go runtime itself reserves more than 1 GiB.
//   - a watchdog ends the worker (exit status 6) when its resident memory passes VERIF_FRAME_RSS_MB (default 1024):
//     the backstop when no address-space limit can be set.
//
// Both are reported as outcome "oom".
func envMB(name string, def int64) int64 {
	if s := os.Getenv(name); s != "" {
		if v, err := strconv.ParseInt(s, 10, 64); err == nil {
			return v
		}
	}
	return def
}

func statmField(i int) int64 {
	b, err := os.ReadFile("/proc/self/statm")
	if err != nil {
		return 0
	}
	f := strings.Fields(string(b))
	if len(f) <= i {
		return 0
	}
	pages, _ := strconv.ParseInt(f[i], 10, 64)
	return pages * int64(os.Getpagesize())
}

func limitAddressSpace() {
	mb := envMB("VERIF_FRAME_VMEM_MB", 192)
	if size := statmField(0); mb > 0 && size > 0 {
		var cur syscall.Rlimit
		if err := syscall.Getrlimit(syscall.RLIMIT_AS, &cur); err == nil {
			want := uint64(size) + uint64(mb)<<20
			if cur.Cur == ^uint64(0) || cur.Cur > want {
				lim := syscall.Rlimit{Cur: want, Max: cur.Max}
				if cur.Max != ^uint64(0) && cur.Max < want {
					lim.Cur = cur.Max
				}
				_ = syscall.Setrlimit(syscall.RLIMIT_AS, &lim)
			}
		}
	}
	rss := envMB("VERIF_FRAME_RSS_MB", 1024)
	if rss > 0 {
		go rssWatchdog(rss << 20)
	}
}

func residentBytes() int64 { return statmField(1) }

func rssWatchdog(limit int64) {
	for {
		time.Sleep(20 * time.Millisecond)
		if r := residentBytes(); r > limit {
			fmt.Fprintf(os.Stderr, "harness: out of memory guard: resident memory %d bytes above the limit of %d\n", r, limit)
			os.Exit(6)
		}
	}
}

// worker: jobs as JSON lines on stdin, one record per job on stdout, flushed after every record.
func cmdWorker() {
	limitAddressSpace()
	in := bufio.NewReaderSize(os.Stdin, 1<<16)
	for {
		line, err := in.ReadBytes('\n')
		if len(line) > 1 {
			var j job
			if jerr := json.Unmarshal(line, &j); jerr != nil {
				fmt.Fprintln(os.Stderr, "worker: bad job:", jerr)
				os.Exit(4)
			}
			t0 := time.Now()
			rec, timedOut := runWithTimeout(&j)
			hlib.Emit(rec)
			hlib.Flush()
			if timedOut {
				os.Exit(3)
			}
			if time.Since(t0) > 200*time.Microsecond {
				// a case that made the heap grow: start afresh rather than reuse (and zero) hundreds of MiB
				var ms runtime.MemStats
				runtime.ReadMemStats(&ms)
				if ms.HeapSys > 48<<20 {
					os.Exit(5)
				}
			}
		}
		if err != nil {
			return
		}
	}
}

// one <entry> <version> <compression> <hex> [<header hex>]: a single case in this process (replay of a finding)
func cmdOne(args []string) {
	if len(args) < 4 {
		usage()
	}
	v, _ := strconv.Atoi(args[1])
	j := &job{Id: "one", Entry: args[0], Version: v, Compression: args[2], Input: args[3], Origin: "replay"}
	if len(args) > 4 {
		j.Header = args[4]
	}
	limitAddressSpace()
	rec, _ := runWithTimeout(j)
	hlib.Emit(rec)
}

// ---------------------------------------------------------------- the parent: dispatching jobs to workers

func classifyDeath(stderr string, waitErr error) (string, string) {
	first := stderr
	if i := strings.Index(first, "\n"); i >= 0 {
		first = first[:i]
	}
	low := strings.ToLower(stderr)
	switch {
	case strings.Contains(low, "out of memory") || strings.Contains(low, "cannot allocate memory") || strings.Contains(low, "cannot reserve") ||
		strings.Contains(low, "pthread_create failed"):
		return "oom", first
	case strings.Contains(low, "stack overflow") || strings.Contains(low, "stack exceeds"):
		return "panic", "fatal: " + first
	case strings.Contains(low, "fatal error") || strings.Contains(low, "panic:"):
		return "panic", "fatal: " + first
	}
	if waitErr != nil {
		// killed without a message: the kernel's OOM killer sends SIGKILL
		if strings.Contains(waitErr.Error(), "killed") {
			return "oom", waitErr.Error()
		}
		return "panic", "worker died: " + waitErr.Error() + " " + first
	}
	return "panic", "worker ended early " + first
}

type cappedBuffer struct {
	mu sync.Mutex
	b  []byte
}

func (c *cappedBuffer) Write(p []byte) (int, error) {
	c.mu.Lock()
	if len(c.b) < 1<<16 {
		c.b = append(c.b, p...)
	}
	c.mu.Unlock()
	return len(p), nil
}
func (c *cappedBuffer) String() string { c.mu.Lock(); defer c.mu.Unlock(); return string(c.b) }

// runShard runs jobs[lo:hi] through worker processes, restarting the worker after each death; results[i] receives
// the JSON line of job i.
func runShard(self string, alljobs []job, idx []int, allresults [][]byte) {
	jobs := make([]job, len(idx))
	for k, ix := range idx {
		jobs[k] = alljobs[ix]
	}
	results := make([][]byte, len(idx))
	defer func() {
		for k, ix := range idx {
			allresults[ix] = results[k]
		}
	}()
	lo, hi := 0, len(jobs)
	i := lo
	for i < hi {
		atomic.AddInt64(&workerStarts, 1)
		cmd := exec.Command(self, "worker")
		cmd.Env = append(os.Environ(), "GOMAXPROCS="+workerProcs()) // few threads per worker: the parallelism is across workers
		stdin, err1 := cmd.StdinPipe()
		stdout, err2 := cmd.StdoutPipe()
		errBuf := &cappedBuffer{}
		cmd.Stderr = errBuf
		if err1 != nil || err2 != nil || cmd.Start() != nil {
			for ; i < hi; i++ {
				results[i], _ = json.Marshal(recordOf(&jobs[i], caseResult{outcome: "err", reencode: "n/a", detail: "harness: cannot start worker"}))
			}
			return
		}
		start := i
		go func() {
			w := bufio.NewWriterSize(stdin, 1<<16)
			enc := json.NewEncoder(w)
			for k := start; k < hi; k++ {
				if enc.Encode(&jobs[k]) != nil {
					break
				}
				if w.Flush() != nil {
					break
				}
			}
			stdin.Close()
		}()
		lines := make(chan []byte, 64)
		go func() {
			rd := bufio.NewReaderSize(stdout, 1<<16)
			for {
				line, err := rd.ReadBytes('\n')
				if len(line) > 1 && line[len(line)-1] == '\n' {
					lines <- line[:len(line)-1]
				}
				if err != nil {
					close(lines)
					return
				}
			}
		}()
		alive := true
		killed := false
		for alive && i < hi {
			select {
			case line, ok := <-lines:
				if !ok {
					alive = false
					break
				}
				results[i] = line
				i++
			case <-time.After(caseTimeout + 5*time.Second):
				_ = cmd.Process.Kill()
				for range lines {
				}
				results[i], _ = json.Marshal(recordOf(&jobs[i], caseResult{outcome: "timeout", reencode: "n/a", detail: "worker killed by the parent"}))
				i++
				alive = false
				killed = true
			}
		}
		if i >= hi {
			_ = cmd.Process.Kill()
			go func() {
				for range lines {
				}
			}()
			_ = cmd.Wait()
			return
		}
		werr := cmd.Wait()
		if !killed {
			// the worker died while working on job i (a timeout record is followed by a deliberate exit: nothing to add)
			if ee, ok := werr.(*exec.ExitError); ok && (ee.ExitCode() == 3 || ee.ExitCode() == 5) {
				continue // deliberate exits after a record: timeout reported, or recycling after a large allocation
			}
			oc, detail := classifyDeath(errBuf.String(), werr)
			results[i], _ = json.Marshal(recordOf(&jobs[i], caseResult{outcome: oc, reencode: "n/a", detail: detail}))
			i++
		}
	}
}

var workerStarts int64

func workerProcs() string {
	if s := os.Getenv("VERIF_FRAME_WORKER_PROCS"); s != "" {
		return s
	}
	return "2"
}

func runJobs(jobs []job) {
	t0 := time.Now()
	if pf := os.Getenv("VERIF_FRAME_PROF"); pf != "" {
		if f, err := os.Create(pf); err == nil {
			_ = pprof.StartCPUProfile(f)
			defer pprof.StopCPUProfile()
		}
	}
	defer func() {
		if os.Getenv("VERIF_FRAME_STATS") != "" {
			fmt.Fprintf(os.Stderr, "harness-frame: %d jobs, %d worker starts, %.1f s\n", len(jobs), atomic.LoadInt64(&workerStarts), time.Since(t0).Seconds())
		}
	}()
	self, err := os.Executable()
	if err != nil {
		self = os.Args[0]
	}
	results := make([][]byte, len(jobs))
	par := runtime.NumCPU()
	if par > 8 {
		par = 8
	}
	if par < 1 {
		par = 1
	}
	if s := os.Getenv("VERIF_FRAME_WORKERS"); s != "" {
		if v, err := strconv.Atoi(s); err == nil && v > 0 {
			par = v
		}
	}
	var wg sync.WaitGroup
	for p := 0; p < par; p++ {
		var idx []int
		for i := p; i < len(jobs); i += par { // strided: the slow families are spread over all workers
			idx = append(idx, i)
		}
		if len(idx) == 0 {
			continue
		}
		wg.Add(1)
		go func(idx []int) {
			defer wg.Done()
			runShard(self, jobs, idx, results)
		}(idx)
	}
	wg.Wait()
	for i, r := range results {
		if r == nil {
			r, _ = json.Marshal(recordOf(&jobs[i], caseResult{outcome: "err", reencode: "n/a", detail: "harness: no result"}))
		}
		hlib.Out.Write(r)
		hlib.Out.WriteByte('\n')
	}
}

// ---------------------------------------------------------------- base frames and field positions

type baseFrame struct {
	gc      genCase
	enc     []byte // the valid encoding
	hl      int
	rawBody []byte   // uncompressed body
	fields  [][2]int // (offset, width) of the reads the decoder makes on the uncompressed body
}

type traceReader struct {
	r     *bytes.Reader
	total int
	reads [][2]int
}

func (t *traceReader) Read(p []byte) (int, error) {
	off := t.total - t.r.Len()
	n, err := t.r.Read(p)
	if n > 0 {
		t.reads = append(t.reads, [2]int{off, n})
	}
	return n, err
}

func makeBase(gc genCase) *baseFrame {
	codec := codecFor(gc.comp)
	enc, hdr, oc, _ := encodeFrame(codec, gc.f)
	if oc != "ok" {
		return nil
	}
	b := &baseFrame{gc: gc, enc: enc, hl: headerLen(gc.version)}
	b.rawBody = enc[b.hl:]
	if gc.comp != "none" {
		out := &bytes.Buffer{}
		if err := compressorFor(gc.comp).DecompressWithLength(bytes.NewReader(enc[b.hl:]), out); err != nil {
			return nil
		}
		b.rawBody = out.Bytes()
	}
	// trace the decoder on the uncompressed body
	h := *hdr
	h.Flags = h.Flags.Remove(primitive.HeaderFlagCompressed)
	tr := &traceReader{r: bytes.NewReader(b.rawBody), total: len(b.rawBody)}
	if p, _ := guard(func() { _, _ = frame.NewRawCodec().DecodeBody(&h, tr) }); p {
		return nil
	}
	for _, rd := range tr.reads {
		if rd[1] == 1 || rd[1] == 2 || rd[1] == 4 || rd[1] == 8 {
			b.fields = append(b.fields, rd)
		}
	}
	return b
}

// bodyToWire rebuilds the frame bytes from a (mutated) uncompressed body: compresses when the base is compressed and
// rewrites the header's body length.
func (b *baseFrame) bodyToWire(raw []byte) []byte {
	body := raw
	if b.gc.comp != "none" {
		out := &bytes.Buffer{}
		if err := compressorFor(b.gc.comp).CompressWithLength(bytes.NewBuffer(append([]byte{}, raw...)), out); err != nil {
			return nil
		}
		body = out.Bytes()
	}
	w := make([]byte, 0, b.hl+len(body))
	w = append(w, b.enc[:b.hl]...)
	binary.BigEndian.PutUint32(w[b.hl-4:b.hl], uint32(len(body)))
	return append(w, body...)
}

var fieldValues = map[int][]uint64{
	1: {0, 1, 2, 4, 16, 0x7f, 0x80, 0xff},
	2: {0xffff, 0xfffe, 0, 1, 0x7fff, 0x8000},
	4: {0xffffffff, 0xfffffffe, 0, 1, 0x7fff, 0xffff, 0x10000, 0x7fffffff, 0x80000000},
	8: {0, 0xffffffffffffffff, 0x8000000000000000},
}

func putField(b []byte, off, width int, v uint64) {
	for i := width - 1; i >= 0; i-- {
		b[off+i] = byte(v)
		v >>= 8
	}
}

func getField(b []byte, off, width int) uint64 {
	var v uint64
	for i := 0; i < width; i++ {
		v = v<<8 | uint64(b[off+i])
	}
	return v
}

// collectBases: for every kind x version the plain frame, the frame with every flag set, a compressed frame and a rich
// variant produced by the random chooser.
func collectBases(rnd *rand.Rand, thorough bool) []*baseFrame {
	var out []*baseFrame
	rc := newRandChooser(rnd)
	for _, v := range allVersions {
		for ki := range kinds {
			k := &kinds[ki]
			if !k.definedIn(v) {
				continue
			}
			c := newEnumChooser()
			c.start(hashString(k.name) + uint64(v))
			msg := k.gen(c, v)
			specs := legalFlagSpecs(k, v)
			pick := []flagSpec{specs[0]}
			// all flags on, uncompressed: the last uncompressed combination
			for i := len(specs) - 1; i >= 0; i-- {
				if specs[i].comp == "none" && !specs[i].beta {
					pick = append(pick, specs[i])
					break
				}
			}
			for _, fs := range specs {
				if fs.comp != "none" && fs.tracing {
					pick = append(pick, fs)
				}
			}
			for _, fs := range pick {
				gc := genCase{kind: k.name, version: v, comp: fs.comp, class: fs.String(), f: buildFrame(c, v, genStreamId(c, v), msg, fs)}
				if b := makeBase(gc); b != nil {
					out = append(out, b)
				}
			}
			reps := 1
			if thorough {
				reps = 4
			}
			for r := 0; r < reps; r++ {
				m2 := k.gen(rc, v)
				fs := randomFlagSpec(rc, k, v)
				gc := genCase{kind: k.name, version: v, comp: fs.comp, class: "rich," + fs.String(), f: buildFrame(rc, v, genStreamId(rc, v), m2, fs)}
				if b := makeBase(gc); b != nil && len(b.enc) < 4096 {
					out = append(out, b)
				}
			}
		}
	}
	return out
}

// directedBases: small frames in which several counts and lengths depend on each other (row sets without metadata, batches,
// maps and lists); every field of these receives every boundary value in both tiers.
func directedBases() []*baseFrame {
	var out []*baseFrame
	cell := func(b ...byte) []byte { return b }
	for _, v := range allVersions {
		msgs := []message.Message{
			&message.RowsResult{Metadata: &message.RowsMetadata{ColumnCount: 2}, Data: message.RowSet{{cell(1), cell(2, 3)}, {nil, cell()}}},
			&message.RowsResult{Metadata: &message.RowsMetadata{ColumnCount: 1, PagingState: []byte{9}}, Data: message.RowSet{{cell(7)}}},
			&message.RowsResult{Metadata: &message.RowsMetadata{ColumnCount: 2, Columns: columnsOf([]datatype.DataType{datatype.Int, datatype.Varchar}, true)},
				Data: message.RowSet{{cell(0, 0, 0, 1), cell('a')}}},
			&message.PreparedResult{PreparedQueryId: []byte{1, 2}, VariablesMetadata: &message.VariablesMetadata{Columns: columnsOf([]datatype.DataType{datatype.Int}, true)},
				ResultMetadata: &message.RowsMetadata{ColumnCount: 1, Columns: columnsOf([]datatype.DataType{datatype.Varchar}, true)}},
			&message.Batch{Children: []*message.BatchChild{{Query: "q", Values: []*primitive.Value{primitive.NewValue([]byte{1})}}, {Id: []byte{5}, Values: []*primitive.Value{}}}},
			&message.Execute{QueryId: []byte{1}, Options: &message.QueryOptions{PositionalValues: []*primitive.Value{primitive.NewValue([]byte{1}), primitive.NewNullValue()}}},
			&message.Supported{Options: map[string][]string{"COMPRESSION": {"lz4", "snappy"}}},
			&message.Register{EventTypes: []primitive.EventType{primitive.EventTypeSchemaChange, primitive.EventTypeStatusChange}},
		}
		if v >= v4 {
			msgs = append(msgs, &message.Unprepared{ErrorMessage: "u", Id: []byte{1, 2, 3}})
		}
		for i, m := range msgs {
			gc := genCase{kind: kindOf(m), version: v, comp: "none", class: fmt.Sprintf("directed%d", i), f: plainFrame(v, 1, m)}
			if b := makeBase(gc); b != nil {
				out = append(out, b)
			}
		}
	}
	return out
}

// ---------------------------------------------------------------- mutation families

type jobSink struct {
	jobs []job
	seen map[string]bool
}

func (s *jobSink) add(entries []string, b *baseFrame, version primitive.ProtocolVersion, comp string, input []byte, origin string) {
	if input == nil {
		return
	}
	hx := hex.EncodeToString(input)
	key := comp + "|" + hx
	if s.seen[key] {
		return
	}
	s.seen[key] = true
	for _, e := range entries {
		j := job{Id: "m" + strconv.Itoa(len(s.jobs)+1), Entry: e, Version: int(version), Compression: comp, Input: hx, Origin: origin}
		if e == "body" {
			// DecodeBody with the (valid) header of the input: the body is everything after the header
			hl := headerLen(version)
			if len(input) < hl {
				continue
			}
			j.Header = hx[:2*hl]
			j.Input = hx[2*hl:]
		}
		s.jobs = append(s.jobs, j)
	}
}

func originOf(b *baseFrame, what string) string {
	return fmt.Sprintf("%s v%d %s [%s]: %s", b.gc.kind, int(b.gc.version), b.gc.comp, b.gc.class, what)
}

// header mutations: version byte x direction bit, opcode, flags, stream id, body length
func headerMutations(s *jobSink, thorough bool) {
	entries := []string{"header", "frame", "rawframe"}
	type hb struct {
		v    primitive.ProtocolVersion
		msg  message.Message
		comp string
	}
	bases := []hb{
		{v2, &message.Options{}, "none"}, {v2, &message.Ready{}, "none"},
		{v4, &message.Options{}, "none"}, {v4, &message.Ready{}, "none"},
		{v4, &message.Query{Query: "SELECT 1", Options: &message.QueryOptions{Consistency: primitive.ConsistencyLevelOne}}, "none"},
		{v5, &message.ServerError{ErrorMessage: "boom"}, "lz4"},
		{dse2, &message.VoidResult{}, "snappy"},
		{v3, &message.AuthResponse{Token: []byte{1, 2, 3}}, "none"},
	}
	for bi, hbase := range bases {
		f := plainFrame(hbase.v, 5, hbase.msg)
		enc, _, oc, _ := encodeFrame(codecFor("none"), f)
		if oc != "ok" {
			continue
		}
		b := &baseFrame{gc: genCase{kind: kindOf(hbase.msg), version: hbase.v, comp: hbase.comp, class: "header"}, enc: enc, hl: headerLen(hbase.v)}
		opOff := b.hl - 5
		mut := func(off int, val byte, what string) {
			m := append([]byte{}, enc...)
			m[off] = val
			s.add([]string{"header", "frame"}, b, hbase.v, hbase.comp, m, originOf(b, what))
		}
		for x := 0; x < 256 && (bi < 4 || thorough); x++ {
			mut(0, byte(x), fmt.Sprintf("version byte=%#02x", x))
		}
		for x := 0; x < 256 && (bi < 4 || thorough); x++ {
			mut(opOff, byte(x), fmt.Sprintf("opcode=%#02x", x))
		}
		for x := 0; x < 256 && (bi >= 4 || thorough); x++ {
			mut(1, byte(x), fmt.Sprintf("flags=%#02x", x))
		}
		for _, x := range []byte{0, 1, 0x7f, 0x80, 0xff} {
			mut(2, x, fmt.Sprintf("stream byte0=%#02x", x))
			if b.hl == 9 {
				mut(3, x, fmt.Sprintf("stream byte1=%#02x", x))
			}
		}
		actual := uint64(len(enc) - b.hl)
		for _, val := range append(fieldValues[4], actual+1, actual-1, actual+100) {
			m := append([]byte{}, enc...)
			putField(m, b.hl-4, 4, val)
			s.add(entries, b, hbase.v, hbase.comp, m, originOf(b, fmt.Sprintf("body length=%#x", val)))
		}
	}
	// version byte x opcode: both bytes together
	for _, hl := range []int{8, 9} {
		for vb := 0; vb < 256; vb++ {
			for op := 0; op < 256; op++ {
				if !thorough && !((vb&0x7f) <= 6 || (vb&0x7f) == 65 || (vb&0x7f) == 66 || op%64 == 0) {
					continue
				}
				if !thorough && op > 0x12 && op < 0xfe && op%64 != 0 {
					continue
				}
				m := make([]byte, hl)
				m[0] = byte(vb)
				m[hl-5] = byte(op)
				ver := primitive.ProtocolVersion(vb & 0x7f)
				s.add([]string{"header"}, nil, ver, "none", m, fmt.Sprintf("header %d bytes: version byte=%#02x opcode=%#02x", hl, vb, op))
			}
		}
	}
}

func fieldMutations(s *jobSink, b *baseFrame, budget int, rnd *rand.Rand) int {
	type fm struct {
		f [2]int
		v uint64
	}
	var all []fm
	for _, f := range b.fields {
		orig := getField(b.rawBody, f[0], f[1])
		for _, val := range fieldValues[f[1]] {
			if val != orig {
				all = append(all, fm{f, val})
			}
		}
	}
	if budget < len(all) {
		rnd.Shuffle(len(all), func(i, j int) { all[i], all[j] = all[j], all[i] })
		all = all[:budget]
	}
	entries := []string{"frame", "body"}
	for _, m := range all {
		raw := append([]byte{}, b.rawBody...)
		putField(raw, m.f[0], m.f[1], m.v)
		s.add(entries, b, b.gc.version, b.gc.comp, b.bodyToWire(raw), originOf(b, fmt.Sprintf("field@%d/%d=%#x", m.f[0], m.f[1], m.v)))
	}
	return len(all)
}

// windows: every aligned and unaligned 2- and 4-byte window of the first 64 body bytes (thorough tier)
func windowMutations(s *jobSink, b *baseFrame) {
	entries := []string{"frame", "body"}
	lim := len(b.rawBody)
	if lim > 64 {
		lim = 64
	}
	for _, w := range []int{2, 4} {
		for off := 0; off+w <= lim; off++ {
			for _, val := range fieldValues[w] {
				if getField(b.rawBody, off, w) == val {
					continue
				}
				raw := append([]byte{}, b.rawBody...)
				putField(raw, off, w, val)
				s.add(entries, b, b.gc.version, b.gc.comp, b.bodyToWire(raw), originOf(b, fmt.Sprintf("window@%d/%d=%#x", off, w, val)))
			}
		}
	}
}

func truncations(s *jobSink, b *baseFrame, every bool, rnd *rand.Rand, budget int) int {
	n := 0
	offs := make([]int, 0, len(b.enc))
	for cut := 0; cut < len(b.enc); cut++ {
		offs = append(offs, cut)
	}
	if !every && budget < len(offs) {
		rnd.Shuffle(len(offs), func(i, j int) { offs[i], offs[j] = offs[j], offs[i] })
		offs = offs[:budget]
	}
	for _, cut := range offs {
		entries := []string{"frame", "rawframe"}
		if cut >= b.hl {
			entries = append(entries, "body")
		} else {
			entries = append(entries, "header")
		}
		s.add(entries, b, b.gc.version, b.gc.comp, b.enc[:cut], originOf(b, fmt.Sprintf("truncated at %d of %d", cut, len(b.enc))))
		n++
	}
	return n
}

func bitFlips(s *jobSink, b *baseFrame, every bool, rnd *rand.Rand, budget int) int {
	total := len(b.enc) * 8
	idx := make([]int, total)
	for i := range idx {
		idx[i] = i
	}
	if !every && budget < total {
		rnd.Shuffle(total, func(i, j int) { idx[i], idx[j] = idx[j], idx[i] })
		idx = idx[:budget]
	}
	for _, bit := range idx {
		m := append([]byte{}, b.enc...)
		m[bit/8] ^= 1 << uint(bit%8)
		entries := []string{"frame"}
		if bit/8 < b.hl {
			entries = []string{"frame", "header", "rawframe"}
		} else {
			entries = []string{"frame", "body"}
		}
		s.add(entries, b, b.gc.version, b.gc.comp, m, originOf(b, fmt.Sprintf("bit %d of byte %d flipped", bit%8, bit/8)))
	}
	return len(idx)
}

func splice(s *jobSink, a, b *baseFrame, rnd *rand.Rand) {
	var m []byte
	what := ""
	switch rnd.Intn(3) {
	case 0: // header of a, body of b
		m = append(append([]byte{}, a.enc[:a.hl]...), b.enc[b.hl:]...)
		what = "header + body of " + b.gc.kind
	case 1: // a cut at x, continued with b from y
		x, y := rnd.Intn(len(a.enc)+1), rnd.Intn(len(b.enc)+1)
		m = append(append([]byte{}, a.enc[:x]...), b.enc[y:]...)
		what = fmt.Sprintf("[:%d] + %s[%d:]", x, b.gc.kind, y)
	default: // body of b inserted inside the body of a
		x := a.hl + rnd.Intn(len(a.enc)-a.hl+1)
		m = append(append(append([]byte{}, a.enc[:x]...), b.enc[b.hl:]...), a.enc[x:]...)
		what = fmt.Sprintf("body of %s inserted at %d", b.gc.kind, x)
	}
	s.add([]string{"frame", "rawframe", "body"}, a, a.gc.version, a.gc.comp, m, originOf(a, "splice "+what))
}

func randomBytes(s *jobSink, bases []*baseFrame, rnd *rand.Rand) {
	comps := []string{"none", "lz4", "snappy"}
	comp := comps[rnd.Intn(3)]
	switch rnd.Intn(3) {
	case 0: // fully random
		m := make([]byte, rnd.Intn(80))
		rnd.Read(m)
		ver := primitive.ProtocolVersion(0)
		if len(m) > 0 {
			ver = primitive.ProtocolVersion(m[0] & 0x7f)
		}
		s.add([]string{"frame", "rawframe", "header"}, nil, ver, comp, m, "random bytes")
	case 1: // a valid header, then random bytes of the declared length
		b := bases[rnd.Intn(len(bases))]
		n := rnd.Intn(120)
		m := append([]byte{}, b.enc[:b.hl]...)
		binary.BigEndian.PutUint32(m[b.hl-4:], uint32(n))
		body := make([]byte, n)
		rnd.Read(body)
		m = append(m, body...)
		s.add([]string{"frame", "body"}, b, b.gc.version, b.gc.comp, m, originOf(b, "valid header + random body"))
	default: // a valid frame whose tail is overwritten with random bytes
		b := bases[rnd.Intn(len(bases))]
		m := append([]byte{}, b.enc...)
		if len(m) > b.hl {
			from := b.hl + rnd.Intn(len(m)-b.hl)
			rnd.Read(m[from:])
			s.add([]string{"frame", "body"}, b, b.gc.version, b.gc.comp, m, originOf(b, fmt.Sprintf("random tail from %d", from)))
		}
	}
}

// minimal inputs of the known classes of the C05 re-encode clause (reclass.go): always emitted first, entry "frame"
var reencodeCorpus = []struct {
	slug    string
	version primitive.ProtocolVersion
	hex     string
}{
	{"prepare-empty-query", v4, "04000001090000000400000000"},
	{"authenticate-empty-authenticator", v4, "8400000103000000020000"},
	{"register-empty-list", v4, "040000010b000000020000"},
	{"setkeyspace-empty-keyspace", v4, "840000010800000006000000030000"},
	{"schemachange-empty-keyspace", v4, "8400000108000000190000000500074352454154454400084b455953504143450000"},
	{"schemachange-empty-object", v4, "84000001080000001a0000000500074352454154454400055441424c4500026b730000"},
	{"prepared-empty-id", v4, "84000001080000001a0000000400000000000000000000000000000000000400000000"},
	{"prepared-empty-result-metadata-id", v5, "85000001080000001d0000000400010100000000000000000000000000000000000400000000"},
	{"unknown-change-type", v4, "840000010c0000001b000d5354415455535f4348414e4745000158047f00000100002352"},
	{"non-serial-serial-consistency", v4, "04000001070000000a00000001710001100001"},
	{"batch-child-empty-query", v4, "040000010d0000000d00000100000000000000000100"},
	{"batch-child-empty-id", v4, "040000010d0000000b0000010100000000000100"},
	{"custom-payload-below-v4", v3, "8304000102000000020000"},
	{"warnings-below-v4", v3, "8308000102000000020000"},
	{"page-size-non-positive", v4, "04000001070000000c0000000171000104ffffffff"},
	{"continuous-page-non-positive", dse1, "c1000001080000001400000002c0000004000000000000000000000000"},
}

// cmdMalformed: the fixed header mutations, then about n records (cases = input x entry point) of the other families
// (thorough: in addition every field value of every base, every window, every truncation offset and every bit of a
// sample of bases).
func cmdMalformed(args []string) {
	n, thorough := argN(args)
	tGen := time.Now()
	rnd := rand.New(rand.NewSource(hlib.Seed()))
	bases := collectBases(rnd, thorough)
	s := &jobSink{seen: map[string]bool{}}
	for _, c := range reencodeCorpus {
		in, _ := hex.DecodeString(c.hex)
		s.add([]string{"frame"}, nil, c.version, "none", in, "corpus: re-encode class "+c.slug)
	}
	headerMutations(s, thorough)
	for _, b := range directedBases() {
		fieldMutations(s, b, 1<<30, rnd)
	}
	// a type descriptor nested very deeply and cut off before its innermost type (a truncation of a valid encoding):
	// list<list<...: 2 bytes per level, no count or length field involved
	for _, depth := range []int{1000} {
		body := []byte{0, 0, 0, 2, 0, 0, 0, 1, 0, 0, 0, 1, 0, 2, 'k', 's', 0, 1, 't', 0, 1, 'c'}
		for i := 0; i < depth; i++ {
			body = append(body, 0x00, 0x20)
		}
		in := append([]byte{0x84, 0, 0, 1, 8, byte(len(body) >> 24), byte(len(body) >> 16), byte(len(body) >> 8), byte(len(body))}, body...)
		s.add([]string{"frame"}, nil, v4, "none", in, fmt.Sprintf("directed: RESULT Rows v4, column type list< nested %d deep and truncated", depth))
	}
	order := rnd.Perm(len(bases))
	if thorough {
		for _, b := range bases {
			if !strings.HasPrefix(b.gc.class, "rich") && len(b.fields) <= 200 {
				fieldMutations(s, b, 1<<30, rnd) // every field of every kind x version x {plain, all flags, compressed} base
			}
		}
		for i, bi := range order {
			if i < 40 {
				windowMutations(s, bases[bi])
			}
			if i < 200 {
				truncations(s, bases[bi], true, rnd, 0)
			}
			if i < 40 && len(bases[bi].enc) < 200 {
				bitFlips(s, bases[bi], true, rnd, 0)
			}
		}
	}
	// budgeted part: about n records (cases), 50% field values, 15% truncations, 15% bit flips, 10% splices, 10% random
	if n > 0 && len(bases) > 0 {
		start := len(s.jobs)
		used := func() int { return len(s.jobs) - start }
		// each family stops when its share of the n records is used up; inputs per base so that all bases take part
		perBase := func(share, recordsPerInput int) int {
			k := (n*share/100/recordsPerInput + len(bases) - 1) / len(bases)
			if k < 1 {
				k = 1
			}
			return k
		}
		family := func(share int, step func(b *baseFrame)) {
			limit := used() + n*share/100
			for pass := 0; pass < 6 && used() < limit; pass++ {
				before := used()
				for _, bi := range order {
					if used() >= limit {
						break
					}
					step(bases[bi])
				}
				if used() == before {
					break
				}
			}
		}
		family(50, func(b *baseFrame) { fieldMutations(s, b, perBase(50, 2), rnd) })
		family(15, func(b *baseFrame) { truncations(s, b, false, rnd, perBase(15, 3)) })
		family(15, func(b *baseFrame) { bitFlips(s, b, false, rnd, perBase(15, 2)) })
		limit := used() + n*10/100
		for tries := 0; used() < limit && tries < 10*n; tries++ {
			a, b := bases[rnd.Intn(len(bases))], bases[rnd.Intn(len(bases))]
			if a.gc.version == b.gc.version || rnd.Intn(4) == 0 {
				splice(s, a, b, rnd)
			}
		}
		limit = used() + n*10/100
		for tries := 0; used() < limit && tries < 10*n; tries++ {
			randomBytes(s, bases, rnd)
		}
	}
	if os.Getenv("VERIF_FRAME_STATS") != "" {
		fmt.Fprintf(os.Stderr, "harness-frame: %d bases, %d jobs generated in %.1f s\n", len(bases), len(s.jobs), time.Since(tGen).Seconds())
	}
	if os.Getenv("VERIF_FRAME_DRYRUN") != "" {
		return // only count (with VERIF_FRAME_STATS)
	}
	runJobs(s.jobs)
}

func min(a, b int) int {
	if a < b {
		return a
	}
	return b
}

var _ = io.EOF
