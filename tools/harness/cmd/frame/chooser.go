package main

import (
	"math"
	"math/rand"
	"net"
	"strings"

	"github.com/datastax/go-cassandra-native-protocol/primitive"
)

// chooser drives a generator function either exhaustively over its structural choice points (enumeration mode:
// every combination of the opt() choices is visited, values rotate deterministically through small classes) or
// randomly (all choices from one PRNG seeded by VERIF_SEED).
type chooser struct {
	rnd *rand.Rand // nil in enumeration mode

	// enumeration mode
	path  []int // choices to replay
	pos   int
	arity []int  // arity of every opt() met during the current run
	salt  uint64 // deterministic stream for val()
	trace []string
}

func newEnumChooser() *chooser { return &chooser{} }

func newRandChooser(rnd *rand.Rand) *chooser { return &chooser{rnd: rnd} }

func (c *chooser) random() bool { return c.rnd != nil }

// start (re)starts a run of the generator in enumeration mode.
func (c *chooser) start(salt uint64) {
	c.pos = 0
	c.arity = c.arity[:0]
	c.salt = salt*0x9E3779B97F4A7C15 + 0x1234567
	c.trace = c.trace[:0]
}

// next advances to the next combination of structural choices; false when all have been visited.
func (c *chooser) next() bool {
	// the run just finished met len(c.arity) choice points; path holds the choices made (padded with zeros)
	for len(c.path) < len(c.arity) {
		c.path = append(c.path, 0)
	}
	c.path = c.path[:len(c.arity)]
	for i := len(c.path) - 1; i >= 0; i-- {
		if c.path[i]+1 < c.arity[i] {
			c.path[i]++
			c.path = c.path[:i+1]
			return true
		}
	}
	return false
}

// opt is a structural choice among n alternatives (optional field present or not, shape of a collection ...).
func (c *chooser) opt(n int) int {
	if n <= 1 {
		return 0
	}
	if c.rnd != nil {
		return c.rnd.Intn(n)
	}
	k := 0
	if c.pos < len(c.path) {
		k = c.path[c.pos]
		if k >= n {
			k = n - 1
		}
	}
	c.pos++
	c.arity = append(c.arity, n)
	return k
}

// optNamed records the choice in the class description of the case.
func (c *chooser) optNamed(name string, n int) int {
	k := c.opt(n)
	if k > 0 {
		if n == 2 {
			c.trace = append(c.trace, name)
		} else {
			c.trace = append(c.trace, name+"="+itoa(k))
		}
	}
	return k
}

func (c *chooser) class() string { return strings.Join(c.trace, "+") }

// val is a value choice among n alternatives: random, or rotating deterministically in enumeration mode.
func (c *chooser) val(n int) int {
	if n <= 1 {
		return 0
	}
	if c.rnd != nil {
		return c.rnd.Intn(n)
	}
	c.salt = c.salt*6364136223846793005 + 1442695040888963407
	return int((c.salt >> 33) % uint64(n))
}

func (c *chooser) flip() bool { return c.val(2) == 1 }

// chance is true with probability 1/n in random mode and never in enumeration mode (rare, large value classes).
func (c *chooser) chance(n int) bool {
	if c.rnd == nil {
		return false
	}
	return c.rnd.Intn(n) == 0
}

func itoa(i int) string {
	if i == 0 {
		return "0"
	}
	neg := i < 0
	if neg {
		i = -i
	}
	var b [20]byte
	p := len(b)
	for i > 0 {
		p--
		b[p] = byte('0' + i%10)
		i /= 10
	}
	if neg {
		p--
		b[p] = '-'
	}
	return string(b[p:])
}

// ---------------------------------------------------------------- value classes

var smallStrings = []string{"a", "ks1", "table_1", "kéy", "system.local", "x y", "\x00", "SELECT * FROM t"}

func repeatString(n int, seed byte) string {
	b := make([]byte, n)
	for i := range b {
		b[i] = 'a' + byte((int(seed)+i)%26)
	}
	return string(b)
}

// str: a [string] (at most 65535 bytes), possibly empty
func (c *chooser) str() string {
	if c.val(6) == 0 {
		return ""
	}
	return c.nonEmptyStr()
}

func (c *chooser) nonEmptyStr() string {
	if c.chance(60) {
		return repeatString(255+c.val(2), byte(c.val(26))) // 255, 256
	}
	if c.chance(600) {
		return repeatString(65535, byte(c.val(26)))
	}
	if c.random() && c.val(3) == 0 {
		n := 1 + c.val(40)
		b := make([]byte, n)
		for i := range b {
			b[i] = byte(c.val(256))
		}
		return string(b)
	}
	return smallStrings[c.val(len(smallStrings))]
}

// cap16 keeps a composed string within the 65535 bytes of a [string]
func cap16(s string) string {
	if len(s) > 65535 {
		return s[:65535]
	}
	return s
}

// longStr: a [long string], possibly empty
func (c *chooser) longStr() string {
	if c.val(8) == 0 {
		return ""
	}
	return c.nonEmptyLongStr()
}

func (c *chooser) nonEmptyLongStr() string {
	if c.chance(300) {
		return repeatString(65536+c.val(100), byte(c.val(26)))
	}
	if c.chance(40) {
		return strings.Repeat("SELECT a, b, c FROM ks.t WHERE k = ? ", 20+c.val(300)) // highly compressible
	}
	return c.nonEmptyStr()
}

var i32Classes = []int32{0, 1, -1, math.MinInt32, math.MaxInt32, 42, 65535, 65536, -2}

func (c *chooser) i32() int32 {
	if c.random() && c.val(3) == 0 {
		return int32(c.rnd.Uint32())
	}
	return i32Classes[c.val(len(i32Classes))]
}

var i64Classes = []int64{0, 1, -1, math.MinInt64, math.MaxInt64, math.MinInt32, math.MaxInt32, 1600000000000000}

func (c *chooser) i64() int64 {
	if c.random() && c.val(3) == 0 {
		return int64(c.rnd.Uint64())
	}
	return i64Classes[c.val(len(i64Classes))]
}

// someBytes: a non-nil byte string, possibly empty
func (c *chooser) someBytes() []byte {
	switch c.val(6) {
	case 0:
		return []byte{}
	case 1:
		return []byte{0}
	case 2:
		return []byte{0xca, 0xfe, 0xba, 0xbe}
	}
	return c.nonEmptyBytes()
}

func (c *chooser) nonEmptyBytes() []byte {
	n := 1 + c.val(16)
	if c.chance(50) {
		n = 255 + c.val(2)
	}
	if c.chance(500) {
		n = 65535
	}
	b := make([]byte, n)
	switch c.val(3) {
	case 0: // compressible
		for i := range b {
			b[i] = 0x61
		}
	default:
		for i := range b {
			b[i] = byte(c.val(256))
		}
	}
	return b
}

// optBytes: nil, empty or non-empty
func (c *chooser) optBytes() []byte {
	if c.val(5) == 0 {
		return nil
	}
	return c.someBytes()
}

func (c *chooser) value(v primitive.ProtocolVersion) *primitive.Value {
	n := 3
	if v >= primitive.ProtocolVersion4 {
		n = 4 // unset values from v4
	}
	switch c.val(n + 2) {
	case 0:
		return primitive.NewNullValue()
	case 1:
		return primitive.NewValue([]byte{})
	case 3:
		if n == 4 {
			return primitive.NewUnsetValue()
		}
	}
	return primitive.NewValue(c.someBytes())
}

var consistencyLevels = []primitive.ConsistencyLevel{
	primitive.ConsistencyLevelAny, primitive.ConsistencyLevelOne, primitive.ConsistencyLevelTwo, primitive.ConsistencyLevelThree,
	primitive.ConsistencyLevelQuorum, primitive.ConsistencyLevelAll, primitive.ConsistencyLevelLocalQuorum,
	primitive.ConsistencyLevelEachQuorum, primitive.ConsistencyLevelSerial, primitive.ConsistencyLevelLocalSerial,
	primitive.ConsistencyLevelLocalOne,
}

func (c *chooser) consistency() primitive.ConsistencyLevel {
	return consistencyLevels[c.val(len(consistencyLevels))]
}

func (c *chooser) serialConsistency() *primitive.ConsistencyLevel {
	cl := primitive.ConsistencyLevelSerial
	if c.flip() {
		cl = primitive.ConsistencyLevelLocalSerial
	}
	return &cl
}

var writeTypes = []primitive.WriteType{
	primitive.WriteTypeSimple, primitive.WriteTypeBatch, primitive.WriteTypeUnloggedBatch, primitive.WriteTypeCounter,
	primitive.WriteTypeBatchLog, primitive.WriteTypeCas, primitive.WriteTypeView, primitive.WriteTypeCdc,
}

var failureCodes = []primitive.FailureCode{
	primitive.FailureCodeUnknown, primitive.FailureCodeTooManyTombstonesRead, primitive.FailureCodeIndexNotAvailable,
	primitive.FailureCodeCdcSpaceFull, primitive.FailureCodeCounterWrite, primitive.FailureCodeTableNotFound,
	primitive.FailureCodeKeyspaceNotFound,
}

var ipClasses = []net.IP{
	{127, 0, 0, 1},                                   // IPv4 held in 4 bytes
	net.IPv4(192, 168, 1, 42),                        // IPv4 held in 16 bytes
	{0, 0, 0, 0},                                     // 0.0.0.0
	{255, 255, 255, 255},                             // broadcast
	net.ParseIP("::1"),                               // IPv6 loopback
	net.ParseIP("2001:db8::ff00:42:8329"),            // IPv6
	net.ParseIP("fe80::1"),                           // link local
	{0, 0, 0, 0, 0, 0, 0, 0, 0, 0, 0, 0, 0, 0, 0, 0}, // ::
}

func (c *chooser) ip() net.IP {
	if c.random() && c.val(3) == 0 {
		n := 4
		if c.flip() {
			n = 16
		}
		b := make(net.IP, n)
		for i := range b {
			b[i] = byte(c.val(256))
		}
		return b
	}
	src := ipClasses[c.val(len(ipClasses))]
	out := make(net.IP, len(src))
	copy(out, src)
	return out
}

func (c *chooser) inet() *primitive.Inet {
	ports := []int32{9042, 0, -1, 65535, math.MaxInt32, math.MinInt32}
	return &primitive.Inet{Addr: c.ip(), Port: ports[c.val(len(ports))]}
}

func (c *chooser) uuid() *primitive.UUID {
	var u primitive.UUID
	switch c.val(3) {
	case 0: // all zero
	case 1:
		for i := range u {
			u[i] = 0xff
		}
	default:
		for i := range u {
			u[i] = byte(c.val(256))
		}
	}
	return &u
}

func (c *chooser) stringList(max int) []string {
	n := c.val(max + 1)
	l := make([]string, n)
	for i := range l {
		l[i] = c.str()
	}
	return l
}
