package main

import (
	"bytes"
	"fmt"
	"net"
	"reflect"
)

// frameEquiv is the equality of C01: structural equality up to exactly the distinctions the wire format cannot carry
//   - nil versus empty collections (slices, byte strings, maps),
//   - an IPv4 address held in 4 or in 16 bytes (net.IP),
//
// and nothing else.  Header.BodyLength is excluded here (it is compared with the emitted length by the caller).
// It returns "" when a and b are equivalent, else the path of the first difference.
func frameEquiv(a, b interface{}) string {
	return equivValue(reflect.ValueOf(a), reflect.ValueOf(b), "")
}

var netIPType = reflect.TypeOf(net.IP{})

func equivValue(a, b reflect.Value, path string) string {
	if !a.IsValid() || !b.IsValid() {
		if a.IsValid() != b.IsValid() {
			return path + ": one side missing"
		}
		return ""
	}
	if a.Type() != b.Type() {
		return fmt.Sprintf("%s: type %v vs %v", path, a.Type(), b.Type())
	}
	switch a.Kind() {
	case reflect.Ptr, reflect.Interface:
		if a.IsNil() || b.IsNil() {
			if a.IsNil() != b.IsNil() {
				return fmt.Sprintf("%s: nil vs non-nil", path)
			}
			return ""
		}
		return equivValue(a.Elem(), b.Elem(), path)
	case reflect.Struct:
		t := a.Type()
		for i := 0; i < t.NumField(); i++ {
			if t.Name() == "Header" && t.Field(i).Name == "BodyLength" {
				continue
			}
			if t.Name() == "ColumnMetadata" && t.Field(i).Name == "Index" {
				continue // a Go-side annotation: the wire carries no index (the model's norm_column sets it to 0)
			}
			if d := equivValue(a.Field(i), b.Field(i), path+"."+t.Field(i).Name); d != "" {
				return d
			}
		}
		return ""
	case reflect.Slice:
		if a.Type() == netIPType {
			ia, ib := net.IP(a.Bytes()), net.IP(b.Bytes())
			if a16, b16 := ia.To16(), ib.To16(); a16 != nil && b16 != nil {
				if !bytes.Equal(a16, b16) {
					return fmt.Sprintf("%s: address %v vs %v", path, ia, ib)
				}
				return ""
			}
		}
		if a.Len() != b.Len() {
			return fmt.Sprintf("%s: length %d vs %d", path, a.Len(), b.Len())
		}
		if a.Type().Elem().Kind() == reflect.Uint8 {
			if !bytes.Equal(a.Bytes(), b.Bytes()) {
				return path + ": bytes differ"
			}
			return ""
		}
		for i := 0; i < a.Len(); i++ {
			if d := equivValue(a.Index(i), b.Index(i), fmt.Sprintf("%s[%d]", path, i)); d != "" {
				return d
			}
		}
		return ""
	case reflect.Array:
		for i := 0; i < a.Len(); i++ {
			if d := equivValue(a.Index(i), b.Index(i), fmt.Sprintf("%s[%d]", path, i)); d != "" {
				return d
			}
		}
		return ""
	case reflect.Map:
		if a.Len() != b.Len() {
			return fmt.Sprintf("%s: map size %d vs %d", path, a.Len(), b.Len())
		}
		it := a.MapRange()
		for it.Next() {
			bv := b.MapIndex(it.Key())
			if !bv.IsValid() {
				return fmt.Sprintf("%s: key %q missing", path, it.Key().String())
			}
			if d := equivValue(it.Value(), bv, fmt.Sprintf("%s[%q]", path, it.Key().String())); d != "" {
				return d
			}
		}
		return ""
	case reflect.Bool:
		if a.Bool() != b.Bool() {
			return fmt.Sprintf("%s: %v vs %v", path, a.Bool(), b.Bool())
		}
	case reflect.Int, reflect.Int8, reflect.Int16, reflect.Int32, reflect.Int64:
		if a.Int() != b.Int() {
			return fmt.Sprintf("%s: %d vs %d", path, a.Int(), b.Int())
		}
	case reflect.Uint, reflect.Uint8, reflect.Uint16, reflect.Uint32, reflect.Uint64, reflect.Uintptr:
		if a.Uint() != b.Uint() {
			return fmt.Sprintf("%s: %d vs %d", path, a.Uint(), b.Uint())
		}
	case reflect.String:
		if a.String() != b.String() {
			return fmt.Sprintf("%s: string %q vs %q", path, clip(a.String()), clip(b.String()))
		}
	default:
		return fmt.Sprintf("%s: unsupported kind %v", path, a.Kind())
	}
	return ""
}

func clip(s string) string {
	if len(s) > 40 {
		return s[:40] + "..."
	}
	return s
}
