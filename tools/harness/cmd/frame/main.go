// Harness area "frame": runs the real frame / message / primitive / datatype code of /repo (properties C01-C05, C20).
// The contract of the output is notes/frame-harness.md.
//
//	harness-frame gen <n> [thorough]        version-valid frames: corpus, deterministic enumeration, sweeps, non-valid frames
//	                                        ("valid": false), then n seeded random cases
//	harness-frame malformed <n> [thorough]  structure-aware mutations of valid encodings through the four decoding entry
//	                                        points: the fixed header mutations, then about n records (input x entry point)
//	harness-frame mutators <n>              sequences of frame mutators (C20) and of Startup accessors
//	harness-frame specbytes                 hand-written specification-formatted frames the encoder never emits, decoded by the codec
//	harness-frame growth                    allocation volume of the decoders on input families of size n and 4n (growth rate)
//	harness-frame prims                     LengthOf / Write / Read of every primitive notation on value sweeps (C03)
//	harness-frame selftest                  a Coq file with one populated term of every message kind and data type
//	harness-frame one <entry> <version> <compression> <hex>   a single malformed case in this process (replay)
//	harness-frame worker                    (internal) malformed cases from stdin, one JSON line each
//
// One JSON object per line on stdout.  Every random choice derives from VERIF_SEED.
package main

import (
	"fmt"
	"os"
	"strconv"

	"verifharness/hlib"
)

func usage() {
	fmt.Fprintln(os.Stderr, "usage: harness-frame gen <n> [thorough] | malformed <n> [thorough] | mutators <n> | selftest | one <entry> <version> <compression> <hex>")
	os.Exit(2)
}

func argN(args []string) (int, bool) {
	n := 0
	thorough := false
	if len(args) > 0 {
		v, err := strconv.Atoi(args[0])
		if err != nil || v < 0 {
			usage()
		}
		n = v
	}
	if len(args) > 1 && args[1] == "thorough" {
		thorough = true
	}
	return n, thorough
}

func cmdGen(args []string) {
	n, thorough := argN(args)
	i := 0
	allCases(n, thorough, hlib.Seed(), func(gc genCase) {
		i++
		hlib.Emit(runGenCase("g"+strconv.Itoa(i), i, gc))
	})
}

func main() {
	defer hlib.Flush()
	if len(os.Args) < 2 {
		usage()
	}
	switch os.Args[1] {
	case "gen":
		cmdGen(os.Args[2:])
	case "malformed":
		cmdMalformed(os.Args[2:])
	case "mutators":
		cmdMutators(os.Args[2:])
	case "specbytes":
		cmdSpecBytes()
	case "growth":
		cmdGrowth()
	case "prims":
		cmdPrims()
	case "selftest":
		cmdSelftest()
	case "one":
		cmdOne(os.Args[2:])
	case "worker":
		cmdWorker()
	default:
		usage()
	}
}
