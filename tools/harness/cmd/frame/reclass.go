package main

// Classes of the C05 re-encode clause: a frame that DecodeFrame returned and that EncodeFrame refuses ("encode"), or
// whose re-encoding does not decode again ("decode"), or decodes to a different frame ("differs").  The slug is computed
// from the decoded frame AND the stage/error text; when no rule applies the class is "unclassified" (never guessed), so
// that a new asymmetry stays visible.

import (
	"strings"

	"github.com/datastax/go-cassandra-native-protocol/frame"
	"github.com/datastax/go-cassandra-native-protocol/message"
	"github.com/datastax/go-cassandra-native-protocol/primitive"
)

type reRule struct {
	slug   string
	stage  string // "encode": EncodeFrame returns this error; "differs": the second decode gives a different frame
	errSub string // substring of the error text (stage encode), or of the path of the first difference (stage differs)
	holds  func(f *frame.Frame) bool
}

func optionsOf(m message.Message) *message.QueryOptions {
	switch q := m.(type) {
	case *message.Query:
		return q.Options
	case *message.Execute:
		return q.Options
	}
	return nil
}

func rowsMetadataOf(m message.Message) []*message.RowsMetadata {
	switch r := m.(type) {
	case *message.RowsResult:
		return []*message.RowsMetadata{r.Metadata}
	case *message.PreparedResult:
		return []*message.RowsMetadata{r.ResultMetadata}
	}
	return nil
}

func schemaChangeOf(m message.Message) (ct primitive.SchemaChangeType, tg primitive.SchemaChangeTarget, ks, ob string, ok bool) {
	switch s := m.(type) {
	case *message.SchemaChangeEvent:
		return s.ChangeType, s.Target, s.Keyspace, s.Object, true
	case *message.SchemaChangeResult:
		return s.ChangeType, s.Target, s.Keyspace, s.Object, true
	}
	return "", "", "", "", false
}

var reRules = []reRule{
	// header / body prefix
	{"custom-payload-below-v4", "encode", "custom payloads are not supported", func(f *frame.Frame) bool {
		return f.Header.Flags.Contains(primitive.HeaderFlagCustomPayload) && f.Header.Version < primitive.ProtocolVersion4
	}},
	{"warnings-below-v4", "encode", "warnings are not supported", func(f *frame.Frame) bool {
		return f.Header.Flags.Contains(primitive.HeaderFlagWarning) && f.Header.Version < primitive.ProtocolVersion4 && f.Body.Warnings != nil
	}},
	// requests
	{"prepare-empty-query", "encode", "PREPARE empty query", func(f *frame.Frame) bool {
		m, ok := f.Body.Message.(*message.Prepare)
		return ok && m.Query == ""
	}},
	{"register-empty-list", "encode", "REGISTER messages must have at least one event type", func(f *frame.Frame) bool {
		m, ok := f.Body.Message.(*message.Register)
		return ok && len(m.EventTypes) == 0
	}},
	{"non-serial-serial-consistency", "encode", "invalid serial consistency level", func(f *frame.Frame) bool {
		o := optionsOf(f.Body.Message)
		return o != nil && o.SerialConsistency != nil && !o.SerialConsistency.IsSerial()
	}},
	{"batch-child-empty-query", "encode", "empty BATCH query id", func(f *frame.Frame) bool {
		m, ok := f.Body.Message.(*message.Batch)
		if !ok {
			return false
		}
		for _, c := range m.Children {
			if c != nil && c.Query == "" && c.Id == nil { // kind 0 with an empty query string: Id was never assigned
				return true
			}
		}
		return false
	}},
	{"batch-child-empty-id", "encode", "empty BATCH query id", func(f *frame.Frame) bool {
		m, ok := f.Body.Message.(*message.Batch)
		if !ok {
			return false
		}
		for _, c := range m.Children {
			if c != nil && c.Query == "" && c.Id != nil && len(c.Id) == 0 { // kind 1 with a zero-length id
				return true
			}
		}
		return false
	}},
	// responses
	{"authenticate-empty-authenticator", "encode", "AUTHENTICATE authenticator cannot be empty", func(f *frame.Frame) bool {
		m, ok := f.Body.Message.(*message.Authenticate)
		return ok && m.Authenticator == ""
	}},
	{"setkeyspace-empty-keyspace", "encode", "RESULT SetKeyspace: cannot write empty keyspace", func(f *frame.Frame) bool {
		m, ok := f.Body.Message.(*message.SetKeyspaceResult)
		return ok && m.Keyspace == ""
	}},
	{"unknown-change-type", "encode", "invalid schema change type", func(f *frame.Frame) bool {
		ct, _, _, _, ok := schemaChangeOf(f.Body.Message)
		return ok && !ct.IsValid()
	}},
	{"unknown-change-type", "encode", "invalid status change type", func(f *frame.Frame) bool {
		m, ok := f.Body.Message.(*message.StatusChangeEvent)
		return ok && !m.ChangeType.IsValid()
	}},
	{"unknown-change-type", "encode", "invalid topology change type", func(f *frame.Frame) bool {
		m, ok := f.Body.Message.(*message.TopologyChangeEvent)
		return ok && (!m.ChangeType.IsValid() || !f.Header.Version.SupportsTopologyChangeType(m.ChangeType))
	}},
	{"schemachange-empty-keyspace", "encode", "SchemaChange: cannot write empty keyspace", func(f *frame.Frame) bool {
		_, _, ks, _, ok := schemaChangeOf(f.Body.Message)
		return ok && ks == ""
	}},
	{"schemachange-empty-object", "encode", "SchemaChange: cannot write empty", func(f *frame.Frame) bool {
		_, tg, ks, ob, ok := schemaChangeOf(f.Body.Message)
		return ok && ks != "" && ob == "" && tg != primitive.SchemaChangeTargetKeyspace
	}},
	{"prepared-empty-id", "encode", "empty RESULT Prepared query id", func(f *frame.Frame) bool {
		m, ok := f.Body.Message.(*message.PreparedResult)
		return ok && len(m.PreparedQueryId) == 0
	}},
	{"prepared-empty-result-metadata-id", "encode", "empty RESULT Prepared result metadata id", func(f *frame.Frame) bool {
		m, ok := f.Body.Message.(*message.PreparedResult)
		return ok && len(m.PreparedQueryId) != 0 && len(m.ResultMetadataId) == 0
	}},
	// decoded, re-encoded, decoded again: different frame
	{"page-size-non-positive", "differs", ".Options.PageSize", func(f *frame.Frame) bool {
		o := optionsOf(f.Body.Message)
		return o != nil && o.PageSize <= 0 && (o.PageSize < 0 || o.PageSizeInBytes)
	}},
	{"continuous-page-non-positive", "differs", "ContinuousPage", func(f *frame.Frame) bool {
		for _, rm := range rowsMetadataOf(f.Body.Message) {
			if rm != nil && rm.ContinuousPageNumber <= 0 && (rm.ContinuousPageNumber < 0 || rm.LastContinuousPage) {
				return true
			}
		}
		return false
	}},
}

// classifyReencode: stage is "encode" (errText = error of EncodeFrame), "decode" (errText = error of the second
// DecodeFrame) or "differs" (errText = path and values of the first difference).
func classifyReencode(f *frame.Frame, stage, errText string) (slug string) {
	defer func() {
		if recover() != nil {
			slug = "unclassified"
		}
	}()
	for _, r := range reRules {
		if r.stage == stage && strings.Contains(errText, r.errSub) && r.holds(f) {
			return r.slug
		}
	}
	return "unclassified"
}
