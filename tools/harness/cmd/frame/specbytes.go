// harness-frame specbytes: frames written BY HAND from the specifications that the library's own encoder never emits
// (alternative but legal encodings, aliases), decoded by the real codec; the expected frame is given next to the bytes.
// These exercise the "specification-formatted bytes decode to the message they denote" clause of C02 where the
// generator (which starts from Go values) cannot reach.
package main

import (
	"encoding/hex"
	"strings"

	"github.com/datastax/go-cassandra-native-protocol/datatype"
	"github.com/datastax/go-cassandra-native-protocol/frame"
	"github.com/datastax/go-cassandra-native-protocol/message"
	"github.com/datastax/go-cassandra-native-protocol/primitive"
	"verifharness/hlib"
)

type specCase struct {
	name    string
	version primitive.ProtocolVersion
	hex     string       // spaces allowed
	expect  *frame.Frame // nil: the specification of that version does not define these bytes, an error is expected
}

func respFrame(v primitive.ProtocolVersion, stream int16, bodyLen int32, msg message.Message) *frame.Frame {
	return &frame.Frame{Header: &frame.Header{IsResponse: msg.IsResponse(), Version: v, StreamId: stream, OpCode: msg.GetOpCode(), BodyLength: bodyLen},
		Body: &frame.Body{Message: msg}}
}

func specCases() []specCase {
	col := func(name string, t datatype.DataType) *message.ColumnMetadata {
		return &message.ColumnMetadata{Keyspace: "ks", Table: "t", Name: name, Type: t}
	}
	rowsText := "00000002 00000001 00000001 0002 6b73 0001 74 0001 63 000a 00000000"
	rowsListText := "00000002 00000001 00000001 0002 6b73 0001 74 0001 63 0020 000a 00000000"
	return []specCase{
		// native_protocol_v2.spec 4.2.5.2: type id 0x000A Text (an alias of varchar, removed in v3)
		{"v2 rows, column of type 0x000A text", v2, "82 00 01 08 0000001c " + rowsText,
			respFrame(v2, 1, 28, &message.RowsResult{Metadata: &message.RowsMetadata{ColumnCount: 1, Columns: []*message.ColumnMetadata{col("c", datatype.Varchar)}}, Data: message.RowSet{}})},
		{"v2 rows, column of type list<text>", v2, "82 00 01 08 0000001e " + rowsListText,
			respFrame(v2, 1, 30, &message.RowsResult{Metadata: &message.RowsMetadata{ColumnCount: 1, Columns: []*message.ColumnMetadata{col("c", datatype.NewList(datatype.Varchar))}}, Data: message.RowSet{}})},
		{"v3 rows, type 0x000A is not defined by v3", v3, "83 00 0001 08 0000001c " + rowsText, nil},
		{"v4 rows, type 0x000A is not defined by v4", v4, "84 00 0001 08 0000001c " + rowsText, nil},
		// [bytes]: "if n < 0, no byte should follow and the value represented is null" - any negative length, not only -1
		{"v4 rows, a cell of length -2 is null", v4, "84 00 0001 08 00000014 00000002 00000004 00000001 00000001 fffffffe",
			respFrame(v4, 1, 20, &message.RowsResult{Metadata: &message.RowsMetadata{ColumnCount: 1}, Data: message.RowSet{{nil}}})},
		// [string map] of SUPPORTED ([string multimap]) with a key listed once and an empty list
		{"v4 supported, key with empty list", v4, "84 00 0001 06 00000007 0001 0001 61 0000",
			respFrame(v4, 1, 7, &message.Supported{Options: map[string][]string{"a": {}}})},
		// opcode 0xFF is defined by the DSE specifications only
		{"v4 header with the DSE-only opcode 0xFF", v4, "04 00 0001 ff 0000000c 00000001 00000005 00000000", nil},
		{"DSE v1 REVISE_REQUEST cancel", primitive.ProtocolVersionDse1, "41 00 0001 ff 00000008 00000001 00000005",
			&frame.Frame{Header: &frame.Header{Version: primitive.ProtocolVersionDse1, StreamId: 1, OpCode: primitive.OpCodeDseRevise, BodyLength: 8},
				Body: &frame.Body{Message: &message.Revise{RevisionType: primitive.DseRevisionTypeCancelContinuousPaging, TargetStreamId: 5}}}},
	}
}

func cmdSpecBytes() {
	codec := frame.NewRawCodec()
	for i, c := range specCases() {
		in, err := hex.DecodeString(strings.ReplaceAll(c.hex, " ", ""))
		if err != nil {
			panic(err)
		}
		rec := J{"id": "sb" + itoa(i+1), "name": c.name, "version": int(c.version), "bytes": hex.EncodeToString(in), "expect_error": c.expect == nil}
		f, consumed, outcome, why := decodeFrame(codec, in)
		rec["decode"] = outcome
		rec["consumed"] = consumed
		rec["why"] = why
		if c.expect != nil {
			rec["expected"] = hlib.CoqTerm(c.expect)
		}
		if outcome == "ok" {
			rec["decoded"] = hlib.CoqTerm(f)
			if c.expect != nil {
				d := frameEquiv(c.expect, f)
				rec["equal"] = d == "" && consumed == len(in)
				if d != "" {
					rec["why"] = d
				}
			}
		}
		hlib.Emit(rec)
	}
}
