// harness-frame specbytes: frames written BY HAND from the specifications that the library's own encoder never emits
// (alternative but legal encodings, aliases), decoded by the real codec; the expected frame is given next to the bytes.
// These exercise the "specification-formatted bytes decode to the message they denote" clause of C02 where the
// generator (which starts from Go values) cannot reach.
//
// Every byte below is derived from the text of /repo/specs/*.spec (section numbers in the comments), never from the
// library's encoder.  The length arithmetic of each body is written next to the case; cmdSpecBytes re-checks that the
// length field of the header, the BodyLength of the expected frame and the number of body bytes agree (a malformed
// hand-written case stops the command instead of producing a misleading record).
//
// "FAILS on /repo HEAD" marks a case whose outcome on the current library differs from the expectation: these are
// candidate defects (see notes/specbytes.md); they stay in the file on purpose.
package main

import (
	"encoding/binary"
	"encoding/hex"
	"fmt"
	"net"
	"strings"

	"github.com/datastax/go-cassandra-native-protocol/datatype"
	"github.com/datastax/go-cassandra-native-protocol/frame"
	"github.com/datastax/go-cassandra-native-protocol/message"
	"github.com/datastax/go-cassandra-native-protocol/primitive"
	"verifharness/hlib"
)

type specCase struct {
	name    string
	version primitive.ProtocolVersion
	hex     string       // spaces allowed
	expect  *frame.Frame // nil: the specification of that version does not define these bytes, an error is expected
}

// respFrame builds the expected frame of a message without header flags (requests as well as responses: the direction
// comes from the message).
func respFrame(v primitive.ProtocolVersion, stream int16, bodyLen int32, msg message.Message) *frame.Frame {
	return &frame.Frame{Header: &frame.Header{IsResponse: msg.IsResponse(), Version: v, StreamId: stream, OpCode: msg.GetOpCode(), BodyLength: bodyLen},
		Body: &frame.Body{Message: msg}}
}

// flagFrame builds the expected frame of a body that carries header flags (tracing id, warnings, custom payload).
func flagFrame(v primitive.ProtocolVersion, flags primitive.HeaderFlag, stream int16, bodyLen int32, body *frame.Body) *frame.Frame {
	m := body.Message
	return &frame.Frame{Header: &frame.Header{IsResponse: m.IsResponse(), Version: v, Flags: flags, StreamId: stream, OpCode: m.GetOpCode(), BodyLength: bodyLen},
		Body: body}
}

// Fragments used by many cases (section 3 of every specification: [string] = [short] n + n bytes, [long string] = [int] n + n bytes).
const (
	hxKs    = "0002 6b73"                                                  // [string] "ks"
	hxT     = "0001 74"                                                    // [string] "t"
	hxM     = "0001 6d"                                                    // [string] "m" (error message)
	hxQ     = "00000001 71"                                                // [long string] "q"
	hxGspec = hxKs + " " + hxT                                             // <global_table_spec> "ks"."t" (7 bytes)
	hxColC  = "0001 63"                                                    // column name "c"
	hxUuid  = "00112233 44556677 8899aabb ccddeeff"                        // [uuid]
	hxTopo  = "000f 544f504f4c4f47595f4348414e4745"                        // [string] "TOPOLOGY_CHANGE" (17 bytes)
	hxStat  = "000d 5354415455535f4348414e4745"                            // [string] "STATUS_CHANGE" (15 bytes)
	hxSchem = "000d 534348454d415f4348414e4745"                            // [string] "SCHEMA_CHANGE" (15 bytes)
	hxCre   = "0007 43524541544544"                                        // [string] "CREATED" (9 bytes)
	hxUpd   = "0007 55504441544544"                                        // [string] "UPDATED" (9 bytes)
	hxDro   = "0007 44524f50504544"                                        // [string] "DROPPED" (9 bytes)
	hxFun   = "0008 46554e4354494f4e"                                      // [string] "FUNCTION" (10 bytes)
	hxAgg   = "0009 414747524547415445"                                    // [string] "AGGREGATE" (11 bytes)
	hxCqlV  = "000b 43514c5f56455253494f4e 0005 332e302e30"                // "CQL_VERSION" -> "3.0.0" (13 + 7 bytes)
	hxIPv6  = "10 20010db8 00000000 00000000 00000001"                     // [inetaddr] 2001:db8::1 (17 bytes)
	hxOneCI = "00000002 00000001 00000001 " + hxGspec + " " + hxColC + " " // Rows, Global_tables_spec, 1 column "c" of type ... (4+4+4+7+3 bytes)
	hxCAS   = "0001 6d 0008 00000001 00000002 0003 434153"                 // "m" SERIAL received=1 blockfor=2 "CAS" (3+2+4+4+5 bytes)
	hxRF    = "00001300 0001 6d 0001 00000001 00000002"                    // Read_failure "m" ONE received=1 blockfor=2 (4+3+2+4+4 bytes)
	hxCP    = "00000005 00000002"                                          // <max_num_pages>=5 <pages_per_second>=2
	hxPrep0 = "00000000 00000000 00000000 00000004 00000000"               // v4+ Prepared: no bind markers, no pk, empty result metadata (12+8 bytes)
	hxAllEv = "0003 " + hxTopo + " " + hxStat + " " + hxSchem              // [string list] of the three event types (2+17+15+15 bytes)
	// four column specifications under a global table spec (v3+ 4.2.5.2 option ids):
	hxTyA   = " 0001 61 0000 0003 782e59"                                                     // "a": custom "x.Y" (3+2+5 bytes)
	hxTyB   = " 0001 62 0020 0021 0009 0022 000d"                                             // "b": list<map<int,set<varchar>>> (3+10 bytes)
	hxTyC   = " 0001 63 0030 0002 6b73 0001 75 0002 0001 66 0011 0001 67 0031 0002 0012 0013" // "c": udt ks.u {f: date, g: tuple<time,smallint>} (3+2+4+3+2+5+11 bytes)
	hxTyD   = " 0001 64 0014"                                                                 // "d": tinyint (3+2 bytes)
	hxTypes = hxTyA + hxTyB + hxTyC + hxTyD
)

func specCases() []specCase {
	var all []specCase
	all = append(all, specCasesFirst()...)
	all = append(all, specCasesQuery()...)
	all = append(all, specCasesExecPrepBatch()...)
	all = append(all, specCasesResult()...)
	all = append(all, specCasesError()...)
	all = append(all, specCasesEvent()...)
	all = append(all, specCasesHandshake()...)
	all = append(all, specCasesHeader()...)
	return all
}

func col(name string, t datatype.DataType) *message.ColumnMetadata {
	return &message.ColumnMetadata{Keyspace: "ks", Table: "t", Name: name, Type: t}
}

func oneCol(t datatype.DataType) *message.RowsResult {
	return &message.RowsResult{Metadata: &message.RowsMetadata{ColumnCount: 1, Columns: []*message.ColumnMetadata{col("c", t)}}, Data: message.RowSet{}}
}

// the first eight cases (ids sb1..sb8 are referred to elsewhere: keep their order)
func specCasesFirst() []specCase {
	rowsText := "00000002 00000001 00000001 0002 6b73 0001 74 0001 63 000a 00000000"
	rowsListText := "00000002 00000001 00000001 0002 6b73 0001 74 0001 63 0020 000a 00000000"
	return []specCase{
		// native_protocol_v2.spec 4.2.5.2: type id 0x000A Text (an alias of varchar, removed in v3)
		{"v2 rows, column of type 0x000A text", v2, "82 00 01 08 0000001c " + rowsText,
			respFrame(v2, 1, 28, &message.RowsResult{Metadata: &message.RowsMetadata{ColumnCount: 1, Columns: []*message.ColumnMetadata{col("c", datatype.Varchar)}}, Data: message.RowSet{}})},
		{"v2 rows, column of type list<text>", v2, "82 00 01 08 0000001e " + rowsListText,
			respFrame(v2, 1, 30, &message.RowsResult{Metadata: &message.RowsMetadata{ColumnCount: 1, Columns: []*message.ColumnMetadata{col("c", datatype.NewList(datatype.Varchar))}}, Data: message.RowSet{}})},
		{"v3 rows, type 0x000A is not defined by v3", v3, "83 00 0001 08 0000001c " + rowsText, nil},
		{"v4 rows, type 0x000A is not defined by v4", v4, "84 00 0001 08 0000001c " + rowsText, nil},
		// [bytes]: "if n < 0, no byte should follow and the value represented is null" - any negative length, not only -1
		{"v4 rows, a cell of length -2 is null", v4, "84 00 0001 08 00000014 00000002 00000004 00000001 00000001 fffffffe",
			respFrame(v4, 1, 20, &message.RowsResult{Metadata: &message.RowsMetadata{ColumnCount: 1}, Data: message.RowSet{{nil}}})},
		// [string map] of SUPPORTED ([string multimap]) with a key listed once and an empty list
		{"v4 supported, key with empty list", v4, "84 00 0001 06 00000007 0001 0001 61 0000",
			respFrame(v4, 1, 7, &message.Supported{Options: map[string][]string{"a": {}}})},
		// opcode 0xFF is defined by the DSE specifications only
		{"v4 header with the DSE-only opcode 0xFF", v4, "04 00 0001 ff 0000000c 00000001 00000005 00000000", nil},
		{"DSE v1 REVISE_REQUEST cancel", primitive.ProtocolVersionDse1, "41 00 0001 ff 00000008 00000001 00000005",
			&frame.Frame{Header: &frame.Header{Version: primitive.ProtocolVersionDse1, StreamId: 1, OpCode: primitive.OpCodeDseRevise, BodyLength: 8},
				Body: &frame.Body{Message: &message.Revise{RevisionType: primitive.DseRevisionTypeCancelContinuousPaging, TargetStreamId: 5}}}},
	}
}

func i32p(v int32) *int32 { return &v }
func i64p(v int64) *int64 { return &v }
func clp(c primitive.ConsistencyLevel) *primitive.ConsistencyLevel {
	return &c
}

const (
	clOne    = primitive.ConsistencyLevelOne
	clQuorum = primitive.ConsistencyLevelQuorum
)

// QUERY: <query><consistency><flags>[values][page_size][paging_state][serial_consistency][timestamp][keyspace][now_in_seconds]
// (section 4.1.4 of every specification; [value] / [bytes] in section 3)
func specCasesQuery() []specCase {
	q := func(o *message.QueryOptions) *message.Query { return &message.Query{Query: "q", Options: o} }
	named7 := map[string]*primitive.Value{"k": primitive.NewValue([]byte{7})}
	return []specCase{
		// v4 section 3 [value]: -1 null, -2 not set, 0 empty, n > 0.  body = 5+2+1+2+4+4+4+5 = 27
		{"v4 query, values null / not set / empty / one byte", v4, "04 00 0001 07 0000001b " + hxQ + " 0001 01 0004 ffffffff fffffffe 00000000 00000001 2a",
			respFrame(v4, 1, 27, q(&message.QueryOptions{Consistency: clOne, PositionalValues: []*primitive.Value{
				primitive.NewNullValue(), primitive.NewUnsetValue(), primitive.NewValue([]byte{}), primitive.NewValue([]byte{0x2a})}}))},
		// v4 section 3 [value]: "n < -2 is an invalid value and results in an error".  body = 5+2+1+2+4 = 14
		{"v4 query, value of length -3 is an error", v4, "04 00 0001 07 0000000e " + hxQ + " 0001 01 0001 fffffffd", nil},
		// v3 4.1.4 flag 0x01: the values are [bytes]; v3 section 3 [bytes]: n < 0 is null (v3 has no "not set").  body = 14
		// FAILS on /repo HEAD: ReadValue refuses -2 below v4 ("cannot use unset value with ProtocolVersion OSS 3")
		{"v3 query, a [bytes] value of length -2 is null", v3, "03 00 0001 07 0000000e " + hxQ + " 0001 01 0001 fffffffe",
			respFrame(v3, 1, 14, q(&message.QueryOptions{Consistency: clOne, PositionalValues: []*primitive.Value{primitive.NewNullValue()}}))},
		// v2 4.1.4 flag 0x01 + section 3 [bytes]: any negative length is null.  body = 14
		// FAILS on /repo HEAD: "invalid [value] length: -3"
		{"v2 query, a [bytes] value of length -3 is null", v2, "02 00 01 07 0000000e " + hxQ + " 0001 01 0001 fffffffd",
			respFrame(v2, 1, 14, q(&message.QueryOptions{Consistency: clOne, PositionalValues: []*primitive.Value{primitive.NewNullValue()}}))},
		// v4 4.1.4 flag 0x40 without 0x01: "only makes sense if the 0x01 flag is set and is ignored otherwise".  body = 5+2+1 = 8
		{"v4 query, flag 0x40 without 0x01 is ignored", v4, "04 00 0001 07 00000008 " + hxQ + " 0001 40",
			respFrame(v4, 1, 8, q(&message.QueryOptions{Consistency: clOne}))},
		// v4 4.1.4: every flag at once (0x7f), named value "k"=07, page size 100, paging state beef, LOCAL_SERIAL, timestamp 1234.
		// body = 5+2+1+(2+3+5)+4+6+2+8 = 38
		{"v4 query, all seven flags", v4, "04 00 0001 07 00000026 " + hxQ + " 0001 7f 0001 0001 6b 00000001 07 00000064 00000002 beef 0009 00000000000004d2",
			respFrame(v4, 1, 38, q(&message.QueryOptions{Consistency: clOne, NamedValues: named7, SkipMetadata: true, PageSize: 100, PagingState: []byte{0xbe, 0xef},
				SerialConsistency: clp(primitive.ConsistencyLevelLocalSerial), DefaultTimestamp: i64p(1234)}))},
		// v2 4.1.4: the five v2 flags (0x1f).  body = 5+2+1+(2+5)+4+6+2 = 27
		{"v2 query, all five flags", v2, "02 00 01 07 0000001b " + hxQ + " 0001 1f 0001 00000001 07 00000064 00000002 beef 0008",
			respFrame(v2, 1, 27, q(&message.QueryOptions{Consistency: clOne, PositionalValues: []*primitive.Value{primitive.NewValue([]byte{7})}, SkipMetadata: true,
				PageSize: 100, PagingState: []byte{0xbe, 0xef}, SerialConsistency: clp(primitive.ConsistencyLevelSerial)}))},
		// v4 4.1.4 flag 0x08: <paging_state> is a [bytes]; a null one is a legal [bytes].  body = 5+2+1+4 = 12
		{"v4 query, null paging state", v4, "04 00 0001 07 0000000c " + hxQ + " 0001 08 ffffffff",
			respFrame(v4, 1, 12, q(&message.QueryOptions{Consistency: clOne}))},
		// v5 4.1.4: <flags> is an [int]; 0x0080 keyspace, 0x0100 now_in_seconds.  body = 5+2+4+4+4 = 19
		{"v5 query, keyspace and now_in_seconds", v5, "05 00 0001 07 00000013 " + hxQ + " 0001 00000180 0002 6b73 0000000a",
			respFrame(v5, 1, 19, q(&message.QueryOptions{Consistency: clOne, Keyspace: "ks", NowInSeconds: i32p(10)}))},
		// v5 4.1.4: flags 0x01a5 = values, page size, timestamp, keyspace, now_in_seconds in that order.  body = 5+2+4+(2+5)+4+8+4+4 = 38
		{"v5 query, values page size timestamp keyspace now", v5, "05 00 0001 07 00000026 " + hxQ + " 0001 000001a5 0001 00000001 07 00000064 00000000000004d2 0002 6b73 0000000a",
			respFrame(v5, 1, 38, q(&message.QueryOptions{Consistency: clOne, PositionalValues: []*primitive.Value{primitive.NewValue([]byte{7})}, PageSize: 100,
				DefaultTimestamp: i64p(1234), Keyspace: "ks", NowInSeconds: i32p(10)}))},
		// v4 4.1.4 defines flags 0x01..0x40 only: bit 0x80 (keyspace, v5) has no meaning in v4.  body = 5+2+1+4 = 12
		// FAILS on /repo HEAD (accepted, Keyspace = "ks"): DecodeQueryOptions does not gate flag bits by version
		{"v4 query, flag 0x80 is not defined by v4", v4, "04 00 0001 07 0000000c " + hxQ + " 0001 80 0002 6b73", nil},
		// dse_protocol_v1.spec 10: "Does _not_ have keyspace field in QUERY".  body = 5+2+4+4 = 15
		// FAILS on /repo HEAD (accepted, Keyspace = "ks")
		{"DSE v1 query, flag 0x80 is not defined by DSE v1", dse1, "41 00 0001 07 0000000f " + hxQ + " 0001 00000080 0002 6b73", nil},
		// v2 4.1.4 defines flags 0x01..0x10 only: 0x20 (default timestamp) is v3+.  body = 5+2+1+8 = 16
		// FAILS on /repo HEAD (accepted, DefaultTimestamp = 1234)
		{"v2 query, flag 0x20 is not defined by v2", v2, "02 00 01 07 00000010 " + hxQ + " 0001 20 00000000000004d2", nil},
		// section 3 [long string]: an [int] n followed by n bytes; a negative n denotes nothing.  body = 4+2+1 = 7
		// FAILS on /repo HEAD (accepted as the empty query): ReadLongString maps every n <= 0 to ""
		{"v4 query, [long string] of length -1", v4, "04 00 0001 07 00000007 ffffffff 0001 00", nil},
		// section 3 [consistency]: 0x0000..0x000A.  body = 5+2+1 = 8
		{"v4 query, consistency 0x000B is not defined", v4, "04 00 0001 07 00000008 " + hxQ + " 000b 00", nil},
		// dse_protocol_v1.spec 4.1.4: flags [int]; 0x80000000 continuous paging <max_num_pages><pages_per_second> (no <next_pages> in DSE v1).
		// body = 5+2+4+4+8 = 23
		{"DSE v1 query, continuous paging options", dse1, "41 00 0001 07 00000017 " + hxQ + " 0001 80000004 00000064 " + hxCP,
			respFrame(dse1, 1, 23, q(&message.QueryOptions{Consistency: clOne, PageSize: 100, ContinuousPagingOptions: &message.ContinuousPagingOptions{MaxPages: 5, PagesPerSecond: 2}}))},
		// dse_protocol_v2.spec 4.1.4: [<timestamp>][<keyspace>][continuous_paging_options] with <next_pages>.  flags 0x800000a4.
		// body = 5+2+4+4+8+4+12 = 39
		{"DSE v2 query, timestamp keyspace continuous paging", dse2, "42 00 0001 07 00000027 " + hxQ + " 0001 800000a4 00000064 00000000000004d2 0002 6b73 " + hxCP + " 00000003",
			respFrame(dse2, 1, 39, q(&message.QueryOptions{Consistency: clOne, PageSize: 100, DefaultTimestamp: i64p(1234), Keyspace: "ks",
				ContinuousPagingOptions: &message.ContinuousPagingOptions{MaxPages: 5, PagesPerSecond: 2, NextPages: 3}}))},
	}
}

// EXECUTE (4.1.6), PREPARE (4.1.5), BATCH (4.1.7)
func specCasesExecPrepBatch() []specCase {
	id := []byte{0xca, 0xfe}
	rmid := []byte{0xba, 0xbe}
	v7 := []*primitive.Value{primitive.NewValue([]byte{7})}
	return []specCase{
		// v4 4.1.6 + 4.1.4 flags 0x41: named values in EXECUTE ("while supported, is almost surely inefficient").  body = 4+2+1+2+3+5 = 17
		{"v4 execute, named values", v4, "04 00 0001 0a 00000011 0002 cafe 0004 41 0001 0001 6b 00000001 07",
			respFrame(v4, 1, 17, &message.Execute{QueryId: id, Options: &message.QueryOptions{Consistency: clQuorum, NamedValues: map[string]*primitive.Value{"k": primitive.NewValue([]byte{7})}}})},
		// v5 4.1.6: <id><result_metadata_id><query_parameters>.  body = 4+4+2+4 = 14
		{"v5 execute, result metadata id", v5, "05 00 0001 0a 0000000e 0002 cafe 0002 babe 0001 00000000",
			respFrame(v5, 1, 14, &message.Execute{QueryId: id, ResultMetadataId: rmid, Options: &message.QueryOptions{Consistency: clOne}})},
		// v5 4.1.6 / 4.2.5.4: <result_metadata_id> is a [short bytes]; n = 0 is a legal [short bytes].  body = 4+2+2+4 = 12
		// FAILS on /repo HEAD: "EXECUTE missing result metadata id" (although RESULT Prepared with an empty id decodes)
		{"v5 execute, empty result metadata id", v5, "05 00 0001 0a 0000000c 0002 cafe 0000 0001 00000000",
			respFrame(v5, 1, 12, &message.Execute{QueryId: id, ResultMetadataId: []byte{}, Options: &message.QueryOptions{Consistency: clOne}})},
		// dse_protocol_v2.spec 4.1.6 + 4.1.4: result metadata id; flags 0xc0000004 = page size in bytes + continuous paging.
		// body = 4+4+2+4+4+12 = 30
		{"DSE v2 execute, page size in bytes, continuous paging", dse2, "42 00 0001 0a 0000001e 0002 cafe 0002 babe 0001 c0000004 00001000 " + hxCP + " 00000003",
			respFrame(dse2, 1, 30, &message.Execute{QueryId: id, ResultMetadataId: rmid, Options: &message.QueryOptions{Consistency: clOne, PageSize: 4096, PageSizeInBytes: true,
				ContinuousPagingOptions: &message.ContinuousPagingOptions{MaxPages: 5, PagesPerSecond: 2, NextPages: 3}}})},
		// dse_protocol_v1.spec 4.1.6: <id><query_parameters>, no result metadata id; flags [int].  body = 4+2+4 = 10
		{"DSE v1 execute, no result metadata id", dse1, "41 00 0001 0a 0000000a 0002 cafe 0001 00000000",
			respFrame(dse1, 1, 10, &message.Execute{QueryId: id, Options: &message.QueryOptions{Consistency: clOne}})},
		// v5 4.1.5: <query><flags>[<keyspace>].  body = 5+4+4 = 13 / 5+4 = 9
		{"v5 prepare, with keyspace", v5, "05 00 0001 09 0000000d " + hxQ + " 00000001 0002 6b73", respFrame(v5, 1, 13, &message.Prepare{Query: "q", Keyspace: "ks"})},
		{"v5 prepare, flags 0", v5, "05 00 0001 09 00000009 " + hxQ + " 00000000", respFrame(v5, 1, 9, &message.Prepare{Query: "q"})},
		// dse_protocol_v1.spec 4.1.5 / 10: no flags in PREPARE; dse_protocol_v2.spec 4.1.5: flags and keyspace
		{"DSE v1 prepare, no flags", dse1, "41 00 0001 09 00000005 " + hxQ, respFrame(dse1, 1, 5, &message.Prepare{Query: "q"})},
		{"DSE v2 prepare, with keyspace", dse2, "42 00 0001 09 0000000d " + hxQ + " 00000001 0002 6b73", respFrame(dse2, 1, 13, &message.Prepare{Query: "q", Keyspace: "ks"})},
		// v2 4.1.7: <type><n><query_1>...<query_n><consistency>, no flags; kind 0 with one value, kind 1 without.
		// body = 1+2+(1+5+2+5)+(1+4+2)+2 = 25
		{"v2 batch, kinds 0 and 1, no flags", v2, "02 00 01 0d 00000019 01 0002 00 " + hxQ + " 0001 00000001 07 01 0002 cafe 0000 0004",
			respFrame(v2, 1, 25, &message.Batch{Type: primitive.BatchTypeUnlogged, Consistency: clQuorum,
				Children: []*message.BatchChild{{Query: "q", Values: v7}, {Id: id, Values: []*primitive.Value{}}}})},
		// v3 4.1.7: flags [byte] 0x30 = serial consistency + timestamp.  body = 1+2+(1+5+2)+2+1+2+8 = 24
		{"v3 batch, serial consistency and timestamp", v3, "03 00 0001 0d 00000018 00 0001 00 " + hxQ + " 0000 0001 30 0008 00000000000004d2",
			respFrame(v3, 1, 24, &message.Batch{Type: primitive.BatchTypeLogged, Consistency: clOne, Children: []*message.BatchChild{{Query: "q", Values: []*primitive.Value{}}},
				SerialConsistency: clp(primitive.ConsistencyLevelSerial), DefaultTimestamp: i64p(1234)})},
		// v3 4.1.7: the flags byte is mandatory in v3; a v2-shaped batch (ending after <consistency>) is truncated.  body = 1+2+2 = 5
		{"v3 batch, v2 layout without flags", v3, "03 00 0001 0d 00000005 00 0000 0001", nil},
		// v5 4.1.7: flags [int] 0x0180 keyspace + now_in_seconds, counter batch without queries.  body = 1+2+2+4+4+4 = 17
		{"v5 batch, keyspace and now_in_seconds", v5, "05 00 0001 0d 00000011 02 0000 0001 00000180 0002 6b73 0000000a",
			respFrame(v5, 1, 17, &message.Batch{Type: primitive.BatchTypeCounter, Consistency: clOne, Children: []*message.BatchChild{}, Keyspace: "ks", NowInSeconds: i32p(10)})},
		// v4 4.1.7: "<kind> value must be either 0 or 1".  body = 1+2+1+5+2+2+1 = 14
		{"v4 batch, child of kind 2", v4, "04 00 0001 0d 0000000e 00 0001 02 " + hxQ + " 0000 0001 00", nil},
		// v4 4.1.7: <type> is 0, 1 or 2.  body = 1+2+2+1 = 6
		{"v4 batch, type 3", v4, "04 00 0001 0d 00000006 03 0000 0001 00", nil},
		// v4 4.1.7: <value_i> is a [value]: -2 is "not set".  body = 1+2+1+4+2+4+2+1 = 17
		{"v4 batch, value not set", v4, "04 00 0001 0d 00000011 00 0001 01 0002 cafe 0001 fffffffe 0001 00",
			respFrame(v4, 1, 17, &message.Batch{Type: primitive.BatchTypeLogged, Consistency: clOne, Children: []*message.BatchChild{{Id: id, Values: []*primitive.Value{primitive.NewUnsetValue()}}}})},
		// dse_protocol_v2.spec 4.1.7: flags [int], 0x80 keyspace.  body = 1+2+2+4+4 = 13
		{"DSE v2 batch, keyspace", dse2, "42 00 0001 0d 0000000d 00 0000 0001 00000080 0002 6b73",
			respFrame(dse2, 1, 13, &message.Batch{Type: primitive.BatchTypeLogged, Consistency: clOne, Children: []*message.BatchChild{}, Keyspace: "ks"})},
		// dse_protocol_v1.spec 4.1.7: flags [int], 0x10 serial consistency.  body = 1+2+2+4+2 = 11
		{"DSE v1 batch, int flags, serial consistency", dse1, "41 00 0001 0d 0000000b 00 0000 0001 00000010 0009",
			respFrame(dse1, 1, 11, &message.Batch{Type: primitive.BatchTypeLogged, Consistency: clOne, Children: []*message.BatchChild{}, SerialConsistency: clp(primitive.ConsistencyLevelLocalSerial)})},
	}
}

// RESULT (4.2.5): Rows metadata, column types, Prepared, Schema_change
func specCasesResult() []specCase {
	id := []byte{0xca, 0xfe}
	rmid := []byte{0xba, 0xbe}
	cInt := []*message.ColumnMetadata{col("c", datatype.Int)}
	udt := &datatype.UserDefined{Keyspace: "ks", Name: "u", FieldNames: []string{"f", "g"},
		FieldTypes: []datatype.DataType{datatype.Date, datatype.NewTuple(datatype.Time, datatype.Smallint)}}
	emptyRM := &message.RowsMetadata{ColumnCount: 0}
	tail := " " + hxGspec + " " + hxColC + " 0009 00000000" // <global_table_spec> "c" int, 0 rows: 7+5+4 = 16 bytes
	return []specCase{
		// v4 4.2.5.2: Global_tables_spec clear: every <col_spec_i> carries <ksname><tablename>.  One row: int 42, empty varchar.
		// body = 4+4+4+(4+3+3+2)+(4+3+3+2)+4+8+4 = 52
		{"v4 rows, no global table spec, two tables", v4, "84 00 0001 08 00000034 00000002 00000000 00000002 0002 6b73 0001 74 0001 61 0009 0002 6b32 0001 75 0001 62 000d 00000001 00000004 0000002a 00000000",
			respFrame(v4, 1, 52, &message.RowsResult{Metadata: &message.RowsMetadata{ColumnCount: 2, Columns: []*message.ColumnMetadata{
				{Keyspace: "ks", Table: "t", Name: "a", Type: datatype.Int}, {Keyspace: "k2", Table: "u", Name: "b", Type: datatype.Varchar}}},
				Data: message.RowSet{{{0, 0, 0, 42}, {}}}})},
		// v4 4.2.5.2: flags 0x03 Global_tables_spec + Has_more_pages: <paging_state> precedes the table spec.  body = 4+4+4+6+16 = 34
		{"v4 rows, has more pages", v4, "84 00 0001 08 00000022 00000002 00000003 00000001 00000002 beef" + tail,
			respFrame(v4, 1, 34, &message.RowsResult{Metadata: &message.RowsMetadata{ColumnCount: 1, PagingState: []byte{0xbe, 0xef}, Columns: cInt}, Data: message.RowSet{}})},
		// v4 4.2.5.2: flags 0x06 No_metadata + Has_more_pages, 2 columns, one row (01, null).  body = 4+4+4+5+4+5+4 = 30
		{"v4 rows, no metadata, paging state, one row", v4, "84 00 0001 08 0000001e 00000002 00000006 00000002 00000001 aa 00000001 00000001 01 ffffffff",
			respFrame(v4, 1, 30, &message.RowsResult{Metadata: &message.RowsMetadata{ColumnCount: 2, PagingState: []byte{0xaa}}, Data: message.RowSet{{{1}, nil}}})},
		// v4 4.2.5.2 No_metadata: "no <global_table_spec> nor <col_spec_i>" even when Global_tables_spec is set too (flags 0x05).  body = 16
		{"v4 rows, no metadata wins over global table spec", v4, "84 00 0001 08 00000010 00000002 00000005 00000001 00000000",
			respFrame(v4, 1, 16, &message.RowsResult{Metadata: &message.RowsMetadata{ColumnCount: 1}, Data: message.RowSet{}})},
		// v4 4.2.5.2: Global_tables_spec with 0 columns: the table spec is present, no <col_spec_i> follows.  body = 4+4+4+7+4 = 23
		{"v4 rows, global table spec and no column", v4, "84 00 0001 08 00000017 00000002 00000001 00000000 " + hxGspec + " 00000000",
			respFrame(v4, 1, 23, &message.RowsResult{Metadata: &message.RowsMetadata{ColumnCount: 0, Columns: []*message.ColumnMetadata{}}, Data: message.RowSet{}})},
		// v4 4.2.5.2: <rows_content> is (<rows_count> * <columns_count>) [bytes]: three rows of no column are no byte.  body = 4+4+4+4 = 16
		{"v4 rows, three rows of zero columns", v4, "84 00 0001 08 00000010 00000002 00000004 00000000 00000003",
			respFrame(v4, 1, 16, &message.RowsResult{Metadata: &message.RowsMetadata{ColumnCount: 0}, Data: message.RowSet{{}, {}, {}}})},
		// v5 4.2.5.2: flags 0x09 Metadata_changed: <new_metadata_id> [short bytes] after the (absent) paging state.  body = 4+4+4+4+16 = 32
		{"v5 rows, metadata changed", v5, "85 00 0001 08 00000020 00000002 00000009 00000001 0002 babe" + tail,
			respFrame(v5, 1, 32, &message.RowsResult{Metadata: &message.RowsMetadata{ColumnCount: 1, NewResultMetadataId: rmid, Columns: cInt}, Data: message.RowSet{}})},
		// v5 4.2.5.2: flags 0x0b: [<paging_state>][<new_metadata_id>] in that order.  body = 4+4+4+6+4+16 = 38
		{"v5 rows, paging state then new metadata id", v5, "85 00 0001 08 00000026 00000002 0000000b 00000001 00000002 beef 0002 babe" + tail,
			respFrame(v5, 1, 38, &message.RowsResult{Metadata: &message.RowsMetadata{ColumnCount: 1, PagingState: []byte{0xbe, 0xef}, NewResultMetadataId: rmid, Columns: cInt}, Data: message.RowSet{}})},
		// v4 4.2.5.2 defines flags 0x01, 0x02, 0x04 only: 0x08 (Metadata_changed, v5) has no meaning in v4.  body = 32
		// FAILS on /repo HEAD (accepted, NewResultMetadataId = babe): decodeRowsMetadata does not gate flag bits by version
		{"v4 rows, flag 0x08 is not defined by v4", v4, "84 00 0001 08 00000020 00000002 00000009 00000001 0002 babe" + tail, nil},
		// dse_protocol_v1.spec 4.2.5.2: flags 0xc0000003 global + more pages + continuous paging + last page: [<paging_state>][<continuous_page_no>].
		// body = 4+4+4+6+4+16 = 38
		{"DSE v1 rows, last continuous page", dse1, "c1 00 0001 08 00000026 00000002 c0000003 00000001 00000002 beef 00000007" + tail,
			respFrame(dse1, 1, 38, &message.RowsResult{Metadata: &message.RowsMetadata{ColumnCount: 1, PagingState: []byte{0xbe, 0xef}, ContinuousPageNumber: 7, LastContinuousPage: true, Columns: cInt}, Data: message.RowSet{}})},
		// dse_protocol_v2.spec 4.2.5.2: [<paging_state>][<new_metadata_id>][<continuous_page_no>], flags 0x4000000b.  body = 4+4+4+6+4+4+16 = 42
		{"DSE v2 rows, paging state, new metadata id, continuous page", dse2, "c2 00 0001 08 0000002a 00000002 4000000b 00000001 00000002 beef 0002 babe 00000007" + tail,
			respFrame(dse2, 1, 42, &message.RowsResult{Metadata: &message.RowsMetadata{ColumnCount: 1, PagingState: []byte{0xbe, 0xef}, NewResultMetadataId: rmid, ContinuousPageNumber: 7, Columns: cInt}, Data: message.RowSet{}})},
		// v4 4.2.5.2 option ids: custom, list, map, set, UDT, tuple, date, time, smallint, tinyint.  body = 4+4+4+7+10+13+30+5+4 = 81
		{"v4 rows, custom, nested collections, udt, tuple, v4 scalars", v4, "84 00 0001 08 00000051 00000002 00000001 00000004 " + hxGspec + hxTypes + " 00000000",
			respFrame(v4, 1, 81, &message.RowsResult{Metadata: &message.RowsMetadata{ColumnCount: 4, Columns: []*message.ColumnMetadata{
				col("a", datatype.NewCustom("x.Y")), col("b", datatype.NewList(datatype.NewMap(datatype.Int, datatype.NewSet(datatype.Varchar)))), col("c", udt), col("d", datatype.Tinyint)}},
				Data: message.RowSet{}})},
		// 0x0015 Duration: v5 4.2.5.2 and dse_protocol_v1.spec 4.2.5.2 list it, v4 4.2.5.2 does not.  body = 4+4+4+7+3+2+4 = 28
		{"v5 rows, duration", v5, "85 00 0001 08 0000001c " + hxOneCI + "0015 00000000", respFrame(v5, 1, 28, oneCol(datatype.Duration))},
		{"DSE v1 rows, duration", dse1, "c1 00 0001 08 0000001c " + hxOneCI + "0015 00000000", respFrame(dse1, 1, 28, oneCol(datatype.Duration))},
		// FAILS on /repo HEAD (accepted): CheckValidDataTypeCode ignores its version argument
		{"v4 rows, type 0x0015 duration is not defined by v4", v4, "84 00 0001 08 0000001c " + hxOneCI + "0015 00000000", nil},
		// v3 4.2.5.2 stops at 0x0010 Inet among the scalars: 0x0011 Date .. 0x0014 Tinyint are v4 ("Changes from v3").  body = 28
		// FAILS on /repo HEAD (both accepted)
		{"v3 rows, type 0x0011 date is not defined by v3", v3, "83 00 0001 08 0000001c " + hxOneCI + "0011 00000000", nil},
		{"v3 rows, type 0x0014 tinyint is not defined by v3", v3, "83 00 0001 08 0000001c " + hxOneCI + "0014 00000000", nil},
		// v2 4.2.5.2 has neither 0x0030 UDT nor 0x0031 Tuple (v3 "Changes from v2").  udt ks.u without fields: body = 4+4+4+7+3+(2+4+3+2)+4 = 37;
		// tuple<int>: body = 4+4+4+7+3+(2+2+2)+4 = 32
		// FAILS on /repo HEAD (both accepted)
		{"v2 rows, type 0x0030 udt is not defined by v2", v2, "82 00 01 08 00000025 " + hxOneCI + "0030 0002 6b73 0001 75 0000 00000000", nil},
		{"v2 rows, type 0x0031 tuple is not defined by v2", v2, "82 00 01 08 00000020 " + hxOneCI + "0031 0001 0009 00000000", nil},
		// the same bytes under v3, where 4.2.5.2 defines them
		{"v3 rows, udt without fields", v3, "83 00 0001 08 00000025 " + hxOneCI + "0030 0002 6b73 0001 75 0000 00000000",
			respFrame(v3, 1, 37, oneCol(&datatype.UserDefined{Keyspace: "ks", Name: "u", FieldNames: []string{}, FieldTypes: []datatype.DataType{}}))},
		{"v3 rows, tuple<int>", v3, "83 00 0001 08 00000020 " + hxOneCI + "0031 0001 0009 00000000", respFrame(v3, 1, 32, oneCol(datatype.NewTuple(datatype.Int)))},
		// v5 4.2.5.2: 0x0016 is no option id
		{"v5 rows, type 0x0016 is not defined", v5, "85 00 0001 08 0000001c " + hxOneCI + "0016 00000000", nil},

		// v4 4.2.5.4: <flags><columns_count><pk_count>[<pk_index_i>][<global_table_spec>?<col_spec_i>]; pk indices [1, 0].
		// body = 4+4+(4+4+4+4+7+5+5)+8 = 49
		{"v4 prepared, pk indices, global table spec", v4, "84 00 0001 08 00000031 00000004 0002 cafe 00000001 00000002 00000002 0001 0000 " + hxGspec + " 0001 61 0009 0001 62 000d 00000004 00000000",
			respFrame(v4, 1, 49, &message.PreparedResult{PreparedQueryId: id, VariablesMetadata: &message.VariablesMetadata{PkIndices: []uint16{1, 0},
				Columns: []*message.ColumnMetadata{col("a", datatype.Int), col("b", datatype.Varchar)}}, ResultMetadata: emptyRM})},
		// v4 4.2.5.4: variables without Global_tables_spec, pk_count 0; result metadata with one column.  body = 4+4+(4+4+4+12)+(4+4+7+5) = 52
		{"v4 prepared, per-column table spec, result metadata", v4, "84 00 0001 08 00000034 00000004 0002 cafe 00000000 00000001 00000000 0002 6b73 0001 74 0001 61 0009 00000001 00000001 " + hxGspec + " " + hxColC + " 000d",
			respFrame(v4, 1, 52, &message.PreparedResult{PreparedQueryId: id, VariablesMetadata: &message.VariablesMetadata{Columns: []*message.ColumnMetadata{col("a", datatype.Int)}},
				ResultMetadata: &message.RowsMetadata{ColumnCount: 1, Columns: []*message.ColumnMetadata{col("c", datatype.Varchar)}}})},
		// v3 4.2.5.4: <metadata> is a Rows metadata: no <pk_count>.  body = 4+4+(4+4+7+5)+8 = 36
		{"v3 prepared, no pk count", v3, "83 00 0001 08 00000024 00000004 0002 cafe 00000001 00000001 " + hxGspec + " " + hxColC + " 0009 00000004 00000000",
			respFrame(v3, 1, 36, &message.PreparedResult{PreparedQueryId: id, VariablesMetadata: &message.VariablesMetadata{Columns: cInt}, ResultMetadata: emptyRM})},
		// v2 4.2.5.4: "<metadata> is defined exactly as for a Rows RESULT (... you can however assume that the Has_more_pages flag is always off)":
		// the No_metadata flag (0x04) is part of that definition: 2 bind markers, no <col_spec_i>.  body = 4+4+8+8 = 24
		// FAILS on /repo HEAD (decode error): decodeVariablesMetadata ignores No_metadata and reads two column specifications
		{"v2 prepared, bind metadata with the No_metadata flag", v2, "82 00 01 08 00000018 00000004 0002 cafe 00000004 00000002 00000004 00000000",
			respFrame(v2, 1, 24, &message.PreparedResult{PreparedQueryId: id, VariablesMetadata: &message.VariablesMetadata{}, ResultMetadata: emptyRM})},
		// v4 4.2.5.4: "<global_table_spec> is present if the Global_tables_spec is set in <flags>" - also with 0 bind markers.
		// body = 4+4+12+7+8 = 35
		// FAILS on /repo HEAD: decodeVariablesMetadata skips the table spec when columns_count = 0 (decodeRowsMetadata reads it, see
		// "v4 rows, global table spec and no column"); the table spec is then taken for the result metadata
		{"v4 prepared, global table spec and no bind marker", v4, "84 00 0001 08 00000023 00000004 0002 cafe 00000001 00000000 00000000 " + hxGspec + " 00000004 00000000",
			respFrame(v4, 1, 35, &message.PreparedResult{PreparedQueryId: id, VariablesMetadata: &message.VariablesMetadata{}, ResultMetadata: emptyRM})},
		// v5 4.2.5.4 / dse_protocol_v2.spec 4.2.5.4: <id><result_metadata_id><metadata><result_metadata>.  body = 4+4+4+20 = 32
		{"v5 prepared, result metadata id", v5, "85 00 0001 08 00000020 00000004 0002 cafe 0002 babe " + hxPrep0,
			respFrame(v5, 1, 32, &message.PreparedResult{PreparedQueryId: id, ResultMetadataId: rmid, VariablesMetadata: &message.VariablesMetadata{}, ResultMetadata: emptyRM})},
		{"DSE v2 prepared, result metadata id", dse2, "c2 00 0001 08 00000020 00000004 0002 cafe 0002 babe " + hxPrep0,
			respFrame(dse2, 1, 32, &message.PreparedResult{PreparedQueryId: id, ResultMetadataId: rmid, VariablesMetadata: &message.VariablesMetadata{}, ResultMetadata: emptyRM})},
		// dse_protocol_v1.spec 4.2.5.4: <id><metadata><result_metadata> (v4 layout).  body = 4+4+20 = 28
		{"DSE v1 prepared, no result metadata id", dse1, "c1 00 0001 08 0000001c 00000004 0002 cafe " + hxPrep0,
			respFrame(dse1, 1, 28, &message.PreparedResult{PreparedQueryId: id, VariablesMetadata: &message.VariablesMetadata{}, ResultMetadata: emptyRM})},

		// v2 4.2.5.5: <change><keyspace><table>, <table> empty for a keyspace.  body = 4+9+4+2 = 19 / 4+9+4+3 = 20
		{"v2 schema change result, keyspace", v2, "82 00 01 08 00000013 00000005 " + hxCre + " " + hxKs + " 0000",
			respFrame(v2, 1, 19, &message.SchemaChangeResult{ChangeType: primitive.SchemaChangeTypeCreated, Target: primitive.SchemaChangeTargetKeyspace, Keyspace: "ks"})},
		{"v2 schema change result, table", v2, "82 00 01 08 00000014 00000005 " + hxUpd + " " + hxKs + " " + hxT,
			respFrame(v2, 1, 20, &message.SchemaChangeResult{ChangeType: primitive.SchemaChangeTypeUpdated, Target: primitive.SchemaChangeTargetTable, Keyspace: "ks", Object: "t"})},
		// v3 4.2.5.5 + 4.2.6: <change_type><target><options>, target "TYPE".  body = 4+9+6+4+3 = 26
		{"v3 schema change result, type", v3, "83 00 0001 08 0000001a 00000005 " + hxUpd + " 0004 54595045 " + hxKs + " 0001 75",
			respFrame(v3, 1, 26, &message.SchemaChangeResult{ChangeType: primitive.SchemaChangeTypeUpdated, Target: primitive.SchemaChangeTargetType, Keyspace: "ks", Object: "u"})},
		// v4 4.2.6: FUNCTION: keyspace, name, [string list] of argument types ("int", "text").  body = 4+9+10+4+3+(2+5+6) = 43
		{"v4 schema change result, function with arguments", v4, "84 00 0001 08 0000002b 00000005 " + hxDro + " " + hxFun + " " + hxKs + " 0001 66 0002 0003 696e74 0004 74657874",
			respFrame(v4, 1, 43, &message.SchemaChangeResult{ChangeType: primitive.SchemaChangeTypeDropped, Target: primitive.SchemaChangeTargetFunction, Keyspace: "ks", Object: "f", Arguments: []string{"int", "text"}})},
		// v3 4.2.6 knows KEYSPACE, TABLE and TYPE only: the same bytes are not defined by v3
		{"v3 schema change result, target FUNCTION is not defined by v3", v3, "83 00 0001 08 0000002b 00000005 " + hxDro + " " + hxFun + " " + hxKs + " 0001 66 0002 0003 696e74 0004 74657874", nil},
		// v4 4.2.6: AGGREGATE with an empty argument list.  body = 4+9+11+4+3+2 = 33
		{"v4 schema change result, aggregate without arguments", v4, "84 00 0001 08 00000021 00000005 " + hxCre + " " + hxAgg + " " + hxKs + " 0001 61 0000",
			respFrame(v4, 1, 33, &message.SchemaChangeResult{ChangeType: primitive.SchemaChangeTypeCreated, Target: primitive.SchemaChangeTargetAggregate, Keyspace: "ks", Object: "a", Arguments: []string{}})},
		// 4.2.5: kinds 0x0001..0x0005
		{"v4 result, kind 6 is not defined", v4, "84 00 0001 08 00000004 00000006", nil},
	}
}

// ERROR (4.2.1 and the section "Error codes": 8 in v2 and v5, 9 in v3, v4 and the DSE specifications)
func specCasesError() []specCase {
	lo4 := net.IPv4(127, 0, 0, 1)
	ten := net.IPv4(10, 0, 0, 1)
	return []specCase{
		// v4 9: 0x1000 <cl><required><alive>.  body = 4+3+2+4+4 = 17
		{"v4 error, unavailable", v4, "84 00 0001 00 00000011 00001000 " + hxM + " 0004 00000003 00000002",
			respFrame(v4, 1, 17, &message.Unavailable{ErrorMessage: "m", Consistency: clQuorum, Required: 3, Alive: 2})},
		// v4 9: 0x1100 <cl><received><blockfor><writeType>.  body = 4+3+2+4+4+11 = 28
		{"v4 error, write timeout BATCH_LOG", v4, "84 00 0001 00 0000001c 00001100 " + hxM + " 0001 00000001 00000002 0009 42415443485f4c4f47",
			respFrame(v4, 1, 28, &message.WriteTimeout{ErrorMessage: "m", Consistency: clOne, Received: 1, BlockFor: 2, WriteType: primitive.WriteTypeBatchLog})},
		// v5 8: 0x1100 ...<writeType><contentions>, "<contentions> is a [short] ... only presents when the <writeType> is CAS".  body = 4+18+2 = 24
		{"v5 error, write timeout CAS with contentions", v5, "85 00 0001 00 00000018 00001100 " + hxCAS + " 0005",
			respFrame(v5, 1, 24, &message.WriteTimeout{ErrorMessage: "m", Consistency: primitive.ConsistencyLevelSerial, Received: 1, BlockFor: 2, WriteType: primitive.WriteTypeCas, Contentions: 5})},
		// v4 9 and dse_protocol_v2.spec 9: no <contentions>.  body = 4+18 = 22
		{"v4 error, write timeout CAS without contentions", v4, "84 00 0001 00 00000016 00001100 " + hxCAS,
			respFrame(v4, 1, 22, &message.WriteTimeout{ErrorMessage: "m", Consistency: primitive.ConsistencyLevelSerial, Received: 1, BlockFor: 2, WriteType: primitive.WriteTypeCas})},
		{"DSE v2 error, write timeout CAS without contentions", dse2, "c2 00 0001 00 00000016 00001100 " + hxCAS,
			respFrame(dse2, 1, 22, &message.WriteTimeout{ErrorMessage: "m", Consistency: primitive.ConsistencyLevelSerial, Received: 1, BlockFor: 2, WriteType: primitive.WriteTypeCas})},
		// v5 8: a write type other than CAS has no <contentions>.  body = 4+3+2+4+4+8 = 25
		{"v5 error, write timeout SIMPLE", v5, "85 00 0001 00 00000019 00001100 " + hxM + " 0001 00000001 00000002 0006 53494d504c45",
			respFrame(v5, 1, 25, &message.WriteTimeout{ErrorMessage: "m", Consistency: clOne, Received: 1, BlockFor: 2, WriteType: primitive.WriteTypeSimple})},
		// v4 9: 0x1200 <data_present> "If its value is 0 ... Otherwise, the value is != 0": 0x02 is true.  body = 4+3+2+4+4+1 = 18
		{"v4 error, read timeout with data_present 0x02", v4, "84 00 0001 00 00000012 00001200 " + hxM + " 0001 00000001 00000002 02",
			respFrame(v4, 1, 18, &message.ReadTimeout{ErrorMessage: "m", Consistency: clOne, Received: 1, BlockFor: 2, DataPresent: true})},
		// v4 9: 0x1300 <cl><received><blockfor><numfailures><data_present>.  body = 17+4+1 = 22
		{"v4 error, read failure with numfailures", v4, "84 00 0001 00 00000016 " + hxRF + " 00000001 00",
			respFrame(v4, 1, 22, &message.ReadFailure{ErrorMessage: "m", Consistency: clOne, Received: 1, BlockFor: 2, NumFailures: 1})},
		// v3 9 has no 0x1300 (v4 10: "Read_failure error code was added").
		// FAILS on /repo HEAD (accepted): the ERROR decoder does not gate codes by version
		{"v3 error, code 0x1300 is not defined by v3", v3, "83 00 0001 00 00000016 " + hxRF + " 00000001 00", nil},
		// v5 8: 0x1300 <reasonmap>: [int] n, n x (<endpoint> [inetaddr], <failurecode> [short]); IPv4 and IPv6 endpoints.
		// body = 17+4+(1+4+2)+(17+2)+1 = 48
		{"v5 error, read failure with reason map", v5, "85 00 0001 00 00000030 " + hxRF + " 00000002 04 7f000001 0001 " + hxIPv6 + " 0002 01",
			respFrame(v5, 1, 48, &message.ReadFailure{ErrorMessage: "m", Consistency: clOne, Received: 1, BlockFor: 2, DataPresent: true, FailureReasons: []*primitive.FailureReason{
				{Endpoint: lo4, Code: primitive.FailureCodeTooManyTombstonesRead}, {Endpoint: net.ParseIP("2001:db8::1"), Code: primitive.FailureCodeIndexNotAvailable}}})},
		// dse_protocol_v1.spec 9: "Any other value for <failurecode> must be considered as an Unknown reason (but drivers should not fail)
		// as new <failurecode> may be added without a bump of the protocol version".  body = 17+4+7+1 = 29
		// FAILS on /repo HEAD: ReadReasonMap -> CheckValidFailureCode: "invalid failure code: FailureCode ? [0x0007]"
		{"DSE v1 error, read failure with the unlisted failure code 7", dse1, "c1 00 0001 00 0000001d " + hxRF + " 00000001 04 0a000001 0007 00",
			respFrame(dse1, 1, 29, &message.ReadFailure{ErrorMessage: "m", Consistency: clOne, Received: 1, BlockFor: 2, FailureReasons: []*primitive.FailureReason{{Endpoint: ten, Code: primitive.FailureCode(7)}}})},
		// v5 8: "<failurecode> is a [short]" without any enumeration.  body = 29
		// FAILS on /repo HEAD: "invalid failure code: FailureCode ? [0x0100]"
		{"v5 error, read failure with failure code 0x0100", v5, "85 00 0001 00 0000001d " + hxRF + " 00000001 04 0a000001 0100 00",
			respFrame(v5, 1, 29, &message.ReadFailure{ErrorMessage: "m", Consistency: clOne, Received: 1, BlockFor: 2, FailureReasons: []*primitive.FailureReason{{Endpoint: ten, Code: primitive.FailureCode(0x100)}}})},
		// dse_protocol_v2.spec 9: failure code 0x0006 (keyspace not found).  body = 29
		{"DSE v2 error, read failure with failure code 6", dse2, "c2 00 0001 00 0000001d " + hxRF + " 00000001 04 0a000001 0006 00",
			respFrame(dse2, 1, 29, &message.ReadFailure{ErrorMessage: "m", Consistency: clOne, Received: 1, BlockFor: 2, FailureReasons: []*primitive.FailureReason{{Endpoint: ten, Code: primitive.FailureCodeKeyspaceNotFound}}})},
		// v5 8: 0x1500 <cl><received><blockfor><reasonmap><write_type>, empty map, "VIEW".  body = 4+3+2+4+4+4+6 = 27
		{"v5 error, write failure VIEW, empty reason map", v5, "85 00 0001 00 0000001b 00001500 " + hxM + " 0001 00000000 00000001 00000000 0004 56494557",
			respFrame(v5, 1, 27, &message.WriteFailure{ErrorMessage: "m", Consistency: clOne, Received: 0, BlockFor: 1, FailureReasons: []*primitive.FailureReason{}, WriteType: primitive.WriteTypeView})},
		// v4 9: 0x1500 <numfailures><writeType> "COUNTER".  body = 4+3+2+4+4+4+9 = 30
		{"v4 error, write failure COUNTER with numfailures", v4, "84 00 0001 00 0000001e 00001500 " + hxM + " 0001 00000000 00000001 00000001 0007 434f554e544552",
			respFrame(v4, 1, 30, &message.WriteFailure{ErrorMessage: "m", Consistency: clOne, Received: 0, BlockFor: 1, NumFailures: 1, WriteType: primitive.WriteTypeCounter})},
		// v4 9: 0x1400 <keyspace><function><arg_types>.  body = 4+3+4+3+(2+5) = 21
		{"v4 error, function failure", v4, "84 00 0001 00 00000015 00001400 " + hxM + " " + hxKs + " 0001 66 0001 0003 696e74",
			respFrame(v4, 1, 21, &message.FunctionFailure{ErrorMessage: "m", Keyspace: "ks", Function: "f", Arguments: []string{"int"}})},
		// v4 9: 0x2400 <ks><table>, "<table> will be present but will be the empty string".  body = 4+3+4+2 = 13
		{"v4 error, already exists (keyspace)", v4, "84 00 0001 00 0000000d 00002400 " + hxM + " " + hxKs + " 0000",
			respFrame(v4, 1, 13, &message.AlreadyExists{ErrorMessage: "m", Keyspace: "ks"})},
		// v4 9: 0x2500 [short bytes].  body = 4+3+4 = 11
		{"v4 error, unprepared", v4, "84 00 0001 00 0000000b 00002500 " + hxM + " 0002 cafe",
			respFrame(v4, 1, 11, &message.Unprepared{ErrorMessage: "m", Id: []byte{0xca, 0xfe}})},
		// v2 8: 0x0100 Bad credentials.  body = 4+3 = 7
		{"v2 error, bad credentials", v2, "82 00 01 00 00000007 00000100 " + hxM, respFrame(v2, 1, 7, &message.AuthenticationError{ErrorMessage: "m"})},
		// no specification lists 0x1234
		{"v4 error, code 0x1234 is not defined", v4, "84 00 0001 00 00000007 00001234 " + hxM, nil},
		// v4 9 has no 0x1700
		{"v4 error, code 0x1700 is not defined by v4", v4, "84 00 0001 00 00000011 00001700 " + hxM + " 0008 00000001 00000002", nil},
		// v5 8: 0x1700 CAS_WRITE_UNKNOWN <cl><received><blockfor>.  body = 4+3+2+4+4 = 17
		// FAILS on /repo HEAD: "unknown ERROR code: 5888"; the library has no message type for this code, the expected message below is a
		// stand-in that only marks the bytes as defined by the specification
		{"v5 error, CAS_WRITE_UNKNOWN 0x1700", v5, "85 00 0001 00 00000011 00001700 " + hxM + " 0008 00000001 00000002",
			respFrame(v5, 1, 17, &message.ServerError{ErrorMessage: "stand-in: no Go type for CAS_WRITE_UNKNOWN"})},
		// v5 8: 0x1600 CDC_WRITE_FAILURE (listed; "// todo": no content after <code><message>).  body = 7
		// FAILS on /repo HEAD: "unknown ERROR code: 5632"; stand-in expectation as above
		{"v5 error, CDC_WRITE_FAILURE 0x1600", v5, "85 00 0001 00 00000007 00001600 " + hxM,
			respFrame(v5, 1, 7, &message.ServerError{ErrorMessage: "stand-in: no Go type for CDC_WRITE_FAILURE"})},
		// dse_protocol_v1.spec 9 (and v2): 0x8000 Client_write_failure, no additional content.  body = 7
		// FAILS on /repo HEAD: "unknown ERROR code: 32768"; stand-in expectation as above
		{"DSE v1 error, Client_write_failure 0x8000", dse1, "c1 00 0001 00 00000007 00008000 " + hxM,
			respFrame(dse1, 1, 7, &message.ServerError{ErrorMessage: "stand-in: no Go type for Client_write_failure"})},
	}
}

// EVENT (4.2.6); "All EVENT messages have a streamId of -1"
func specCasesEvent() []specCase {
	v6 := net.ParseIP("2001:db8::1")
	return []specCase{
		// v4 4.2.6 TOPOLOGY_CHANGE: [string] "NEW_NODE", [inet] = size 4, address, [int] port 9042.  body = 17+10+(1+4+4) = 36
		{"v4 event, topology change NEW_NODE, IPv4", v4, "84 00 ffff 0c 00000024 " + hxTopo + " 0008 4e45575f4e4f4445 04 c0a80001 00002352",
			respFrame(v4, -1, 36, &message.TopologyChangeEvent{ChangeType: primitive.TopologyChangeTypeNewNode, Address: &primitive.Inet{Addr: net.IPv4(192, 168, 0, 1), Port: 9042}})},
		// v3 4.2.6 ("NEW_NODE", "REMOVED_NODE", or "MOVED_NODE"), 16-byte address.  body = 17+12+(17+4) = 50
		{"v3 event, topology change MOVED_NODE, IPv6", v3, "83 00 ffff 0c 00000032 " + hxTopo + " 000a 4d4f5645445f4e4f4445 " + hxIPv6 + " 00002352",
			respFrame(v3, -1, 50, &message.TopologyChangeEvent{ChangeType: primitive.TopologyChangeTypeMovedNode, Address: &primitive.Inet{Addr: v6, Port: 9042}})},
		// v2 4.2.6 STATUS_CHANGE "DOWN"; v2 2.3: the stream id is one signed byte.  body = 15+6+9 = 30
		{"v2 event, status change DOWN", v2, "82 00 ff 0c 0000001e " + hxStat + " 0004 444f574e 04 7f000001 00002352",
			respFrame(v2, -1, 30, &message.StatusChangeEvent{ChangeType: primitive.StatusChangeTypeDown, Address: &primitive.Inet{Addr: net.IPv4(127, 0, 0, 1), Port: 9042}})},
		// v5 4.2.6 STATUS_CHANGE "UP", 16-byte address.  body = 15+4+21 = 40
		{"v5 event, status change UP, IPv6", v5, "85 00 ffff 0c 00000028 " + hxStat + " 0002 5550 " + hxIPv6 + " 00002352",
			respFrame(v5, -1, 40, &message.StatusChangeEvent{ChangeType: primitive.StatusChangeTypeUp, Address: &primitive.Inet{Addr: v6, Port: 9042}})},
		// v2 4.2.6 SCHEMA_CHANGE: 3 [string]: change, keyspace, table ("" for a keyspace).  body = 15+9+4+3 = 31 / 15+9+4+2 = 30
		{"v2 event, schema change of a table", v2, "82 00 ff 0c 0000001f " + hxSchem + " " + hxDro + " " + hxKs + " " + hxT,
			respFrame(v2, -1, 31, &message.SchemaChangeEvent{ChangeType: primitive.SchemaChangeTypeDropped, Target: primitive.SchemaChangeTargetTable, Keyspace: "ks", Object: "t"})},
		{"v2 event, schema change of a keyspace", v2, "82 00 ff 0c 0000001e " + hxSchem + " " + hxCre + " " + hxKs + " 0000",
			respFrame(v2, -1, 30, &message.SchemaChangeEvent{ChangeType: primitive.SchemaChangeTypeCreated, Target: primitive.SchemaChangeTargetKeyspace, Keyspace: "ks"})},
		// v3 4.2.6: <change_type><target><options>; KEYSPACE has one option.  body = 15+9+10+4 = 38
		{"v3 event, schema change, target KEYSPACE", v3, "83 00 ffff 0c 00000026 " + hxSchem + " " + hxCre + " 0008 4b45595350414345 " + hxKs,
			respFrame(v3, -1, 38, &message.SchemaChangeEvent{ChangeType: primitive.SchemaChangeTypeCreated, Target: primitive.SchemaChangeTargetKeyspace, Keyspace: "ks"})},
		// v5 4.2.6: FUNCTION with one argument type.  body = 15+9+10+4+3+(2+5) = 48
		{"v5 event, schema change, function", v5, "85 00 ffff 0c 00000030 " + hxSchem + " " + hxCre + " " + hxFun + " " + hxKs + " 0001 66 0001 0003 696e74",
			respFrame(v5, -1, 48, &message.SchemaChangeEvent{ChangeType: primitive.SchemaChangeTypeCreated, Target: primitive.SchemaChangeTargetFunction, Keyspace: "ks", Object: "f", Arguments: []string{"int"}})},
		// dse_protocol_v1.spec 4.2.6: AGGREGATE without arguments.  body = 15+9+11+4+3+2 = 44
		{"DSE v1 event, schema change, aggregate", dse1, "c1 00 ffff 0c 0000002c " + hxSchem + " " + hxDro + " " + hxAgg + " " + hxKs + " 0001 61 0000",
			respFrame(dse1, -1, 44, &message.SchemaChangeEvent{ChangeType: primitive.SchemaChangeTypeDropped, Target: primitive.SchemaChangeTargetAggregate, Keyspace: "ks", Object: "a", Arguments: []string{}})},
		// the same bytes under v3, whose 4.2.6 has no AGGREGATE target
		{"v3 event, schema change target AGGREGATE is not defined by v3", v3, "83 00 ffff 0c 0000002c " + hxSchem + " " + hxDro + " " + hxAgg + " " + hxKs + " 0001 61 0000", nil},
		// 4.2.6: the valid event types are TOPOLOGY_CHANGE, STATUS_CHANGE, SCHEMA_CHANGE
		{"v4 event, type FOO is not defined", v4, "84 00 ffff 0c 00000005 0003 464f4f", nil},
	}
}

// STARTUP (4.1.1), SUPPORTED (4.2.4), REGISTER (4.1.8), AUTH_* (4.1.2, 4.2.3, 4.2.7, 4.2.8), OPTIONS (4.1.3)
func specCasesHandshake() []specCase {
	return []specCase{
		// v4 4.1.1: [string map]; an option the specification does not list is still a well-formed pair.  body = 2+20+3+3 = 28
		{"v4 startup, extra unknown option", v4, "04 00 0000 01 0000001c 0002 " + hxCqlV + " 0001 58 0001 79",
			respFrame(v4, 0, 28, &message.Startup{Options: map[string]string{"CQL_VERSION": "3.0.0", "X": "y"}})},
		// v5 2.4.1.2: header flag 0x10 USE_BETA on STARTUP.  body = 2+20 = 22
		{"v5 startup, USE_BETA flag", v5, "05 10 0000 01 00000016 0001 " + hxCqlV,
			flagFrame(v5, primitive.HeaderFlagUseBeta, 0, 22, &frame.Body{Message: &message.Startup{Options: map[string]string{"CQL_VERSION": "3.0.0"}}})},
		// v3 4.2.4: [string multimap], "COMPRESSION" -> ["lz4", "snappy"].  body = 2+13+2+5+8 = 30
		{"v3 supported, one key with two values", v3, "83 00 0001 06 0000001e 0001 000b 434f4d5052455353494f4e 0002 0003 6c7a34 0006 736e61707079",
			respFrame(v3, 1, 30, &message.Supported{Options: map[string][]string{"COMPRESSION": {"lz4", "snappy"}}})},
		{"v2 supported, empty multimap", v2, "82 00 01 06 00000002 0000", respFrame(v2, 1, 2, &message.Supported{Options: map[string][]string{}})},
		// v4 4.1.8: [string list] of the three event types of 4.2.6.  body = 2+17+15+15 = 49
		{"v4 register, all event types", v4, "04 00 0001 0b 00000031 " + hxAllEv,
			respFrame(v4, 1, 49, &message.Register{EventTypes: []primitive.EventType{primitive.EventTypeTopologyChange, primitive.EventTypeStatusChange, primitive.EventTypeSchemaChange}})},
		{"v4 register, event type FOO is not defined", v4, "04 00 0001 0b 00000007 0001 0003 464f4f", nil},
		// 4.1.2 / 4.2.7 / 4.2.8: a single [bytes] token, "when it can be null/empty ... depends on the actual authenticator"
		{"v4 auth response, null token", v4, "04 00 0001 0f 00000004 ffffffff", respFrame(v4, 1, 4, &message.AuthResponse{Token: nil})},
		{"v4 auth response, empty token", v4, "04 00 0001 0f 00000004 00000000", respFrame(v4, 1, 4, &message.AuthResponse{Token: []byte{}})},
		{"v3 auth challenge, token of length -5 is null", v3, "83 00 0001 0e 00000004 fffffffb", respFrame(v3, 1, 4, &message.AuthChallenge{Token: nil})},
		{"v5 auth success, two-byte token", v5, "85 00 0001 10 00000006 00000002 beef", respFrame(v5, 1, 6, &message.AuthSuccess{Token: []byte{0xbe, 0xef}})},
		{"DSE v1 auth success, null token", dse1, "c1 00 0001 10 00000004 ffffffff", respFrame(dse1, 1, 4, &message.AuthSuccess{Token: nil})},
		// v2 4.2.3: a single [string]
		{"v2 authenticate", v2, "82 00 01 03 00000005 0003 612e42", respFrame(v2, 1, 5, &message.Authenticate{Authenticator: "a.B"})},
		// v4 2.2 flag 0x02 on a request: "Other requests will simply ignore the tracing flag if set"; a request body has no tracing id
		{"v4 options, tracing flag on a request", v4, "04 02 0001 05 00000000", flagFrame(v4, primitive.HeaderFlagTracing, 1, 0, &frame.Body{Message: &message.Options{}})},
	}
}

// Header (section 2; 2.4.1 in v5) and the flag-dependent body prefix
func specCasesHeader() []specCase {
	uuid := &primitive.UUID{0x00, 0x11, 0x22, 0x33, 0x44, 0x55, 0x66, 0x77, 0x88, 0x99, 0xaa, 0xbb, 0xcc, 0xdd, 0xee, 0xff}
	void := &message.VoidResult{}
	return []specCase{
		// v4 2.2 flag 0x02 on a response: "The tracing ID is a [uuid] and is the first thing in the frame body".  body = 16+4 = 20
		{"v4 result void, tracing id", v4, "84 02 0001 08 00000014 " + hxUuid + " 00000001", flagFrame(v4, 0x02, 1, 20, &frame.Body{TracingId: uuid, Message: void})},
		// v4 2.2 / v5 4: [<tracing_id>][<warnings>][<custom_payload>]<message>; warnings ["w"], payload {"k": aa}.  body = 16+(2+3)+(2+3+5)+4 = 35
		{"v4 result void, tracing id, warnings, custom payload", v4, "84 0e 0001 08 00000023 " + hxUuid + " 0001 0001 77 0001 0001 6b 00000001 aa 00000001",
			flagFrame(v4, 0x0e, 1, 35, &frame.Body{TracingId: uuid, Warnings: []string{"w"}, CustomPayload: map[string][]byte{"k": {0xaa}}, Message: void})},
		// v2 2.2 flag 0x02 on a response, one-byte stream id.  body = 20
		{"v2 result void, tracing id", v2, "82 02 01 08 00000014 " + hxUuid + " 00000001", flagFrame(v2, 0x02, 1, 20, &frame.Body{TracingId: uuid, Message: void})},
		// v4 2.2 flag 0x04 on a request, [bytes map] with a null [bytes] value.  body = (2+3+4)+5+2+1 = 17
		{"v4 query, custom payload with a null value", v4, "04 04 0001 07 00000011 0001 0001 6b ffffffff " + hxQ + " 0001 00",
			flagFrame(v4, 0x04, 1, 17, &frame.Body{CustomPayload: map[string][]byte{"k": nil}, Message: &message.Query{Query: "q", Options: &message.QueryOptions{Consistency: clOne}}})},
		// v5 2.4.1.2 flag 0x08 alone: the [string list] is the first value of the body.  body = 2+3+3+4 = 12
		{"v5 result void, two warnings", v5, "85 08 0001 08 0000000c 0002 0001 61 0001 62 00000001", flagFrame(v5, 0x08, 1, 12, &frame.Body{Warnings: []string{"a", "b"}, Message: void})},
		// dse_protocol_v2.spec 2.2: tracing id then an empty [bytes map].  body = 16+2+4 = 22
		{"DSE v2 result void, tracing id and empty custom payload", dse2, "c2 06 0001 08 00000016 " + hxUuid + " 0000 00000001",
			flagFrame(dse2, 0x06, 1, 22, &frame.Body{TracingId: uuid, CustomPayload: map[string][]byte{}, Message: void})},
		// v5 2.4 / 2.4.1.2: "0x01: Compression flag. In protocol v5 this flag is deprecated and ignored."
		// FAILS on /repo HEAD: "cannot decompress body: no compressor available" (with a compressor: the body would be decompressed)
		{"v5 ready, the compression flag is ignored in v5", v5, "85 01 0001 02 00000000", flagFrame(v5, 0x01, 1, 0, &frame.Body{Message: &message.Ready{}})},
		// v3 2.2 defines 0x01 and 0x02: "The rest of the flags is currently unused and ignored" - 0x04 is no custom payload in v3.
		// FAILS on /repo HEAD: the decoder reads a custom payload ("cannot decode body custom payload ... EOF"); same root as the known C05 class custom-payload-below-v4
		{"v3 ready, header flag 0x04 is unused in v3 and ignored", v3, "83 04 0001 02 00000000", flagFrame(v3, 0x04, 1, 0, &frame.Body{Message: &message.Ready{}})},
		// v2 2.2 likewise: 0x08 is no warning flag in v2.
		// FAILS on /repo HEAD: the decoder reads warnings ("cannot decode body warnings ... EOF"); same root as the known C05 class warnings-below-v4
		{"v2 ready, header flag 0x08 is unused in v2 and ignored", v2, "82 08 01 02 00000000", flagFrame(v2, 0x08, 1, 0, &frame.Body{Message: &message.Ready{}})},
		// v4 2.2: "The rest of flags is currently unused and ignored" (0x20, 0x40, 0x80)
		{"v4 ready, unused header flags 0xe0", v4, "84 e0 0001 02 00000000", flagFrame(v4, 0xe0, 1, 0, &frame.Body{Message: &message.Ready{}})},
		// v4 2.2 flag 0x08 concerns responses ("The response contains warnings"): a request body has no warnings
		{"v4 options, warning flag on a request", v4, "04 08 0001 05 00000000", flagFrame(v4, 0x08, 1, 0, &frame.Body{Message: &message.Options{}})},
		// Section 1 of v2, v3, v4 and the DSE specifications (2.4 of v5): "client libraries should always assume that the body of a given frame may contain more data than
		// what is described in this document. It will however always be safe to ignore the remainder of the frame body"; 4.2 of every version:
		// "clients should support extra informations (that they should simply discard) ... at the end of the frame body".
		// The declared length covers the two extra bytes abcd: the frame ends after them.
		// FAILS on /repo HEAD (all four): DecodeFrame decodes the message and leaves the remainder of the body unread (consumed = header +
		// message, not header + length): on a stream (client.readFrame reads the connection with DecodeFrame) the next frame starts at "abcd"
		{"v4 ready, two more body bytes than described are discarded", v4, "84 00 0001 02 00000002 abcd", respFrame(v4, 1, 2, &message.Ready{})},
		{"v4 result void, two more body bytes than described are discarded", v4, "84 00 0001 08 00000006 00000001 abcd", respFrame(v4, 1, 6, void)},
		{"v2 result void, two more body bytes than described are discarded", v2, "82 00 01 08 00000006 00000001 abcd", respFrame(v2, 1, 6, void)},
		{"v5 auth challenge, two more body bytes than described are discarded", v5, "85 00 0001 0e 00000006 ffffffff abcd", respFrame(v5, 1, 6, &message.AuthChallenge{Token: nil})},
		// 2.3: stream ids are signed; the smallest ones
		{"v4 result void, stream id -32768", v4, "84 00 8000 08 00000004 00000001", respFrame(v4, -32768, 4, void)},
		{"v2 result void, stream id -128", v2, "82 00 80 08 00000004 00000001", respFrame(v2, -128, 4, void)},
		// 2.1: versions 1, 6 and DSE 3 (0x43) are described by no specification in /repo/specs that the library supports
		{"version 1 request", primitive.ProtocolVersion(1), "01 00 01 05 00000000", nil},
		{"version 6 request", primitive.ProtocolVersion(6), "06 00 0001 05 00000000", nil},
		{"version 0x43 (DSE 3) request", primitive.ProtocolVersion(0x43), "43 00 0001 05 00000000", nil},
		{"version 0x43 (DSE 3) response", primitive.ProtocolVersion(0x43), "c3 00 0001 02 00000000", nil},
		// 2.1 direction bit against 2.4 opcode
		{"v4 QUERY marked as a response", v4, "84 00 0001 07 00000008 " + hxQ + " 0001 00", nil},
		{"v4 RESULT marked as a request", v4, "04 00 0001 08 00000004 00000001", nil},
		{"v5 READY marked as a request", v5, "05 00 0001 02 00000000", nil},
		{"v2 AUTH_RESPONSE marked as a response", v2, "82 00 01 0f 00000004 ffffffff", nil},
		{"DSE v1 CANCEL marked as a response", dse1, "c1 00 0001 ff 00000008 00000001 00000005", nil},
		// 2.4: "there is no 0x04 message in this version of the protocol"; 0x11 is past the table
		{"v4 opcode 0x04", v4, "04 00 0001 04 00000000", nil},
		{"v4 opcode 0x11", v4, "84 00 0001 11 00000000", nil},
		{"v5 header with the DSE-only opcode 0xFF", v5, "05 00 0001 ff 00000008 00000001 00000005", nil},
		// dse_protocol_v2.spec 4.1.9: revision type 2 carries <next_pages>.  body = 12
		{"DSE v2 REVISE_REQUEST more pages", dse2, "42 00 0001 ff 0000000c 00000002 00000005 00000003",
			respFrame(dse2, 1, 12, &message.Revise{RevisionType: primitive.DseRevisionTypeMoreContinuousPages, TargetStreamId: 5, NextPages: 3})},
		// dse_protocol_v1.spec 4.1.9: the only operation type is 0x00000001
		{"DSE v1 CANCEL of operation type 2 is not defined by DSE v1", dse1, "41 00 0001 ff 0000000c 00000002 00000005 00000003", nil},
		{"DSE v2 REVISE_REQUEST of revision type 3 is not defined", dse2, "42 00 0001 ff 00000008 00000003 00000005", nil},
	}
}

// checkSpecCase verifies the hand-written length arithmetic of a case: header length field = number of body bytes = BodyLength of the expectation.
func checkSpecCase(c specCase, in []byte) {
	hl := 9
	if len(in) > 0 && in[0]&0x7f <= 2 {
		hl = 8
	}
	if len(in) < hl {
		panic(fmt.Sprintf("specbytes case %q: shorter than a header", c.name))
	}
	declared := int(int32(binary.BigEndian.Uint32(in[hl-4 : hl])))
	if declared != len(in)-hl {
		panic(fmt.Sprintf("specbytes case %q: header declares %d body bytes, %d written", c.name, declared, len(in)-hl))
	}
	if c.expect != nil && int(c.expect.Header.BodyLength) != declared {
		panic(fmt.Sprintf("specbytes case %q: expected BodyLength %d, header declares %d", c.name, c.expect.Header.BodyLength, declared))
	}
	if uint8(c.version) != in[0]&0x7f {
		panic(fmt.Sprintf("specbytes case %q: version %d, version byte %#x", c.name, c.version, in[0]))
	}
}

func cmdSpecBytes() {
	codec := frame.NewRawCodec()
	for i, c := range specCases() {
		in, err := hex.DecodeString(strings.ReplaceAll(c.hex, " ", ""))
		if err != nil {
			panic(fmt.Sprintf("specbytes case %q: %v", c.name, err))
		}
		checkSpecCase(c, in)
		rec := J{"id": "sb" + itoa(i+1), "name": c.name, "version": int(c.version), "bytes": hex.EncodeToString(in), "expect_error": c.expect == nil, "header_clause": c.expect == nil && isHeaderCase(c.name)}
		f, consumed, outcome, why := decodeFrame(codec, in)
		rec["decode"] = outcome
		rec["consumed"] = consumed
		rec["why"] = why
		if c.expect != nil {
			rec["expected"] = hlib.CoqTerm(c.expect)
		}
		if outcome == "ok" {
			rec["decoded"] = hlib.CoqTerm(f)
			if c.expect != nil {
				d := frameEquiv(c.expect, f)
				rec["equal"] = d == "" && consumed == len(in)
				if d != "" {
					rec["why"] = d
				} else if consumed != len(in) {
					rec["why"] = fmt.Sprintf("the decoded frame is the expected one but %d of %d bytes were consumed", consumed, len(in))
				}
			}
		}
		hlib.Emit(rec)
	}
}

// isHeaderCase: the expected refusal is the rejection clause of C02 (unsupported version, unknown opcode, direction bit against
// the opcode); every other expected refusal concerns the body, where the statement only speaks of bytes the specification defines.
func isHeaderCase(name string) bool {
	return strings.HasPrefix(name, "version ") || strings.Contains(name, "marked as") || strings.Contains(name, "opcode 0x") ||
		strings.Contains(name, "header with")
}
