package main

import (
	"fmt"
	"math"
	"math/rand"
	"net"

	"github.com/datastax/go-cassandra-native-protocol/datatype"
	"github.com/datastax/go-cassandra-native-protocol/frame"
	"github.com/datastax/go-cassandra-native-protocol/message"
	"github.com/datastax/go-cassandra-native-protocol/primitive"
	"verifharness/hlib"
)

// cmdSelftest prints a Coq file in which every kind of printed term is given its expected type; compiling it with
// `coqc -Q . GCNP` in /verif/coq checks the printer against model/{Prim,DataType,MsgTypes,Frame}.v.
func cmdSelftest() {
	w := hlib.Out
	fmt.Fprintln(w, "From Coq Require Import ZArith List String.")
	fmt.Fprintln(w, "From GCNP Require Import model.Hex model.Prim model.DataType model.MsgTypes model.Frame.")
	fmt.Fprintln(w, "Import ListNotations.")
	fmt.Fprintln(w, "Open Scope Z_scope.")
	n := 0
	def := func(typ string, term string) {
		n++
		fmt.Fprintf(w, "Definition t%d : %s := %s.\n", n, typ, term)
	}
	// one fully populated frame of every kind and version (random chooser: every optional field has a chance), plus the
	// first enumerated variant
	rnd := rand.New(rand.NewSource(hlib.Seed()))
	rc := newRandChooser(rnd)
	for _, v := range allVersions {
		for ki := range kinds {
			k := &kinds[ki]
			if !k.definedIn(v) {
				continue
			}
			for rep := 0; rep < 3; rep++ {
				msg := k.gen(rc, v)
				fs := randomFlagSpec(rc, k, v)
				if rep == 0 {
					all := legalFlagSpecs(k, v)
					fs = all[len(all)/2]
					fs.tracing = true
				}
				f := buildFrame(rc, v, genStreamId(rc, v), msg, fs)
				def("Frame", hlib.CoqTerm(f))
				if rep == 0 {
					def("Message", hlib.CoqTerm(msg))
					def("Header", hlib.CoqTerm(f.Header))
					def("Body", hlib.CoqTerm(f.Body))
				}
			}
		}
	}
	// hand-populated values: every field non-trivial
	cl := primitive.ConsistencyLevelLocalSerial
	ts := int64(math.MinInt64)
	now := int32(math.MinInt32)
	qo := &message.QueryOptions{
		Consistency:             primitive.ConsistencyLevelEachQuorum,
		PositionalValues:        []*primitive.Value{primitive.NewValue([]byte{1, 2}), primitive.NewNullValue(), primitive.NewUnsetValue(), nil},
		NamedValues:             map[string]*primitive.Value{"b": primitive.NewValue([]byte{}), "a": primitive.NewNullValue(), "": nil},
		SkipMetadata:            true,
		PageSize:                -5,
		PageSizeInBytes:         true,
		PagingState:             []byte{},
		SerialConsistency:       &cl,
		DefaultTimestamp:        &ts,
		Keyspace:                "ks",
		NowInSeconds:            &now,
		ContinuousPagingOptions: &message.ContinuousPagingOptions{MaxPages: -1, PagesPerSecond: 2, NextPages: math.MaxInt32},
	}
	def("QueryOptions", hlib.CoqTerm(qo))
	def("option QueryOptions", hlib.CoqOpt(qo))
	def("option QueryOptions", hlib.CoqOpt((*message.QueryOptions)(nil)))
	def("QueryOptions", hlib.CoqTerm(&message.QueryOptions{}))
	def("ContinuousPagingOptions", hlib.CoqTerm(qo.ContinuousPagingOptions))
	def("Message", hlib.CoqTerm(&message.Query{Query: "", Options: nil}))
	def("Message", hlib.CoqTerm(&message.Execute{QueryId: []byte{1}, ResultMetadataId: nil, Options: qo}))
	def("Message", hlib.CoqTerm(&message.Batch{Type: primitive.BatchTypeCounter, Children: []*message.BatchChild{
		{Query: "q", Values: []*primitive.Value{primitive.NewValue([]byte{7})}}, {Id: []byte{9}}, nil},
		Consistency: primitive.ConsistencyLevelAll, SerialConsistency: &cl, DefaultTimestamp: &ts, Keyspace: "k", NowInSeconds: &now}))
	def("BatchChild", hlib.CoqTerm(&message.BatchChild{Query: "q", Id: []byte{}, Values: nil}))
	udt := &datatype.UserDefined{Keyspace: "ks", Name: "u", FieldNames: []string{"a", ""}, FieldTypes: []datatype.DataType{datatype.Int, nil}}
	types := []datatype.DataType{
		datatype.Ascii, datatype.Bigint, datatype.Blob, datatype.Boolean, datatype.Counter, datatype.Date, datatype.Decimal, datatype.Double,
		datatype.Duration, datatype.Float, datatype.Inet, datatype.Int, datatype.Smallint, datatype.Time, datatype.Timestamp, datatype.Timeuuid,
		datatype.Tinyint, datatype.Uuid, datatype.Varchar, datatype.Varint,
		datatype.NewCustom("c.C"), datatype.NewCustom(""),
		datatype.NewList(datatype.Int), datatype.NewList(nil), datatype.NewSet(datatype.NewList(datatype.Blob)),
		datatype.NewMap(datatype.Int, nil), datatype.NewMap(nil, datatype.NewMap(datatype.Uuid, datatype.Varchar)),
		datatype.NewTuple(), datatype.NewTuple(datatype.Int, nil, datatype.NewTuple(datatype.Inet)),
		udt, &datatype.UserDefined{},
		datatype.NewList(datatype.NewMap(udt, datatype.NewTuple(datatype.Int, datatype.NewSet(datatype.Varchar)))),
	}
	for _, t := range types {
		def("DataType", hlib.CoqTerm(t))
		def("option DataType", hlib.CoqOpt(t))
	}
	for _, v := range allVersions {
		for _, t := range nestedTypes(v) {
			def("DataType", hlib.CoqTerm(t))
		}
	}
	def("option DataType", hlib.CoqOpt(datatype.DataType(nil)))
	def("ColumnMetadata", hlib.CoqTerm(&message.ColumnMetadata{Keyspace: "k", Table: "t", Name: "n", Index: -3, Type: types[len(types)-1]}))
	def("ColumnMetadata", hlib.CoqTerm(&message.ColumnMetadata{}))
	vm := &message.VariablesMetadata{PkIndices: []uint16{0, 65535}, Columns: columnsOf(types[:3], false)}
	def("VariablesMetadata", hlib.CoqTerm(vm))
	rm := &message.RowsMetadata{ColumnCount: 3, PagingState: []byte{1}, NewResultMetadataId: []byte{}, ContinuousPageNumber: -7, LastContinuousPage: true,
		Columns: append(columnsOf(types[20:24], true), nil)}
	def("RowsMetadata", hlib.CoqTerm(rm))
	def("Message", hlib.CoqTerm(&message.PreparedResult{PreparedQueryId: []byte{1}, ResultMetadataId: []byte{2}, VariablesMetadata: vm, ResultMetadata: rm}))
	def("Message", hlib.CoqTerm(&message.PreparedResult{}))
	def("Message", hlib.CoqTerm(&message.RowsResult{Metadata: rm, Data: message.RowSet{{[]byte{1}, nil, []byte{}}, {}, nil}}))
	def("Message", hlib.CoqTerm(&message.RowsResult{}))
	def("Message", hlib.CoqTerm(&message.ReadFailure{ErrorMessage: "m", Consistency: 3, Received: -1, BlockFor: 2, NumFailures: 7,
		FailureReasons: []*primitive.FailureReason{{Endpoint: net.IP{1, 2, 3, 4}, Code: 5}, {Endpoint: nil, Code: 65535}, nil}, DataPresent: true}))
	def("Message", hlib.CoqTerm(&message.WriteFailure{WriteType: primitive.WriteTypeCas, FailureReasons: []*primitive.FailureReason{}}))
	def("Message", hlib.CoqTerm(&message.WriteTimeout{WriteType: "nonsense", Contentions: 65535}))
	def("Message", hlib.CoqTerm(&message.StatusChangeEvent{ChangeType: primitive.StatusChangeTypeDown, Address: nil}))
	def("Message", hlib.CoqTerm(&message.TopologyChangeEvent{ChangeType: "x", Address: &primitive.Inet{Addr: nil, Port: -1}}))
	def("Message", hlib.CoqTerm(&message.Supported{Options: map[string][]string{"b": {"x", "y"}, "a": nil, "c": {}}}))
	def("Message", hlib.CoqTerm(&message.Startup{Options: map[string]string{"b": "1", "a": "2"}}))
	def("Message", hlib.CoqTerm(&message.Register{EventTypes: []primitive.EventType{primitive.EventTypeSchemaChange, "odd"}}))
	def("Message", hlib.CoqTerm(&message.Revise{RevisionType: 2, TargetStreamId: -1, NextPages: math.MinInt32}))
	def("Inet", hlib.CoqTerm(&primitive.Inet{Addr: net.ParseIP("::1"), Port: 9042}))
	def("Value", hlib.CoqTerm(primitive.NewUnsetValue()))
	def("Value", hlib.CoqTerm(primitive.Value{Type: 5, Contents: []byte{1}}))
	def("FailureReason", hlib.CoqTerm(&primitive.FailureReason{Endpoint: net.IP{1, 2, 3, 4}, Code: 2}))
	var u primitive.UUID
	u[15] = 0xab
	def("option bytes", hlib.CoqTerm(&u))
	def("option bytes", hlib.CoqTerm((*primitive.UUID)(nil)))
	def("bytes", hlib.CoqTerm(u))
	def("option bytes", hlib.CoqTerm([]byte{1, 2, 3}))
	def("option bytes", hlib.CoqTerm([]byte(nil)))
	def("option bytes", hlib.CoqTerm(net.IP{1, 2, 3, 4}))
	def("bytes", hlib.CoqTerm("héllo"))
	def("bytes", hlib.CoqTerm(primitive.WriteTypeCas))
	def("bytes", hlib.CoqHex([]byte{0, 255}))
	def("Z", hlib.CoqTerm(int64(math.MinInt64)))
	def("Z", hlib.CoqTerm(uint64(math.MaxUint64)))
	def("Z", hlib.CoqTerm(primitive.ProtocolVersionDse2))
	def("Z", hlib.CoqZ(-1))
	def("bool", hlib.CoqTerm(true))
	def("list (bytes * option bytes)", hlib.CoqTerm(map[string][]byte{"k2": nil, "k1": {}, "k0": {1}}))
	def("list (bytes * option bytes)", hlib.CoqTerm(map[string][]byte(nil)))
	def("option (list bytes)", hlib.CoqOpt([]string{"w1", ""}))
	def("option (list bytes)", hlib.CoqOpt([]string(nil)))
	def("option (list bytes)", hlib.CoqOpt([]string{}))
	def("list bytes", hlib.CoqTerm([]string{"w1", ""}))
	def("list Z", hlib.CoqTerm([]uint16{1, 2}))
	def("list (list (option bytes))", hlib.CoqTerm(message.RowSet{{nil, {}}, nil}))
	hdr := &frame.Header{IsResponse: true, Version: primitive.ProtocolVersion4, Flags: 0x1f, StreamId: -32768, OpCode: primitive.OpCodeResult, BodyLength: -1}
	def("Header", hlib.CoqTerm(hdr))
	def("Header", hlib.CoqTerm(*hdr))
	body := &frame.Body{TracingId: &u, CustomPayload: map[string][]byte{"a": nil}, Warnings: []string{}, Message: &message.VoidResult{}}
	def("Body", hlib.CoqTerm(body))
	def("Frame", hlib.CoqTerm(&frame.Frame{Header: hdr, Body: body}))
	def("Frame", hlib.CoqTerm(frame.Frame{Header: hdr, Body: &frame.Body{Message: &message.Options{}}}))
	def("RawFrame", hlib.CoqTerm(&frame.RawFrame{Header: hdr, Body: []byte{1, 2}}))
	def("RawFrame", hlib.CoqTerm(&frame.RawFrame{Header: hdr, Body: nil}))
	// the frames of the sweeps (boundary values) except the very long strings
	i := 0
	sweepCases(rnd, false, func(gc genCase) {
		i++
		if i%7 == 0 && len(hlib.CoqTerm(gc.f)) < 5000 {
			def("Frame", hlib.CoqTerm(gc.f))
		}
	})
	fmt.Fprintf(w, "(* %d terms *)\n", n)
}
