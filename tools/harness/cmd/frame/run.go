package main

import (
	"bytes"
	"encoding/binary"
	"encoding/hex"
	"fmt"
	"io"

	"github.com/datastax/go-cassandra-native-protocol/compression/lz4"
	"github.com/datastax/go-cassandra-native-protocol/compression/snappy"
	"github.com/datastax/go-cassandra-native-protocol/frame"
	"github.com/datastax/go-cassandra-native-protocol/message"
	"github.com/datastax/go-cassandra-native-protocol/primitive"
	"verifharness/hlib"
)

type J = map[string]interface{}

func compressorFor(comp string) frame.BodyCompressor {
	switch comp {
	case "lz4":
		return lz4.Compressor{}
	case "snappy":
		return snappy.Compressor{}
	}
	return nil
}

func codecFor(comp string) frame.RawCodec {
	if c := compressorFor(comp); c != nil {
		return frame.NewRawCodecWithCompression(c)
	}
	return frame.NewRawCodec()
}

func messageCodecFor(op primitive.OpCode) message.Codec {
	for _, mc := range message.DefaultMessageCodecs {
		if mc.GetOpCode() == op {
			return mc
		}
	}
	return nil
}

// guard runs fn and converts a panic into (true, description).
func guard(fn func()) (panicked bool, what string) {
	defer func() {
		if r := recover(); r != nil {
			panicked = true
			what = fmt.Sprint(r)
			if len(what) > 200 {
				what = what[:200]
			}
		}
	}()
	fn()
	return
}

// a reader that is not an io.Seeker (nor anything else than an io.Reader)
type plainReader struct{ r io.Reader }

func (p *plainReader) Read(b []byte) (int, error) { return p.r.Read(b) }

// a reader that implements io.Seeker but cannot seek (an *os.File wrapping a pipe or a socket)
type unseekableReader struct{ r io.Reader }

func (u *unseekableReader) Read(b []byte) (int, error) { return u.r.Read(b) }
func (u *unseekableReader) Seek(int64, int) (int64, error) {
	return 0, fmt.Errorf("seek: illegal seek")
}

// a reader that satisfies every Read with at most n bytes (a connection delivering the frame in pieces)
type chunkReader struct {
	r io.Reader
	n int
}

func (c *chunkReader) Read(b []byte) (int, error) {
	if len(b) > c.n {
		b = b[:c.n]
	}
	return c.r.Read(b)
}

func headerLen(v primitive.ProtocolVersion) int {
	if v >= primitive.ProtocolVersion3 {
		return 9
	}
	return 8
}

// shallow copy with its own header: EncodeFrame / ConvertToRawFrame store the body length into the header
func withOwnHeader(f *frame.Frame) *frame.Frame {
	h := *f.Header
	return &frame.Frame{Header: &h, Body: f.Body}
}

func encodeFrame(codec frame.RawCodec, f *frame.Frame) (out []byte, hdr *frame.Header, outcome string, why string) {
	g := withOwnHeader(f)
	var err error
	buf := &bytes.Buffer{}
	if p, w := guard(func() { err = codec.EncodeFrame(g, buf) }); p {
		return nil, nil, "panic", w
	}
	if err != nil {
		return nil, nil, "err", err.Error()
	}
	return buf.Bytes(), g.Header, "ok", ""
}

func decodeFrame(codec frame.RawCodec, in []byte) (f *frame.Frame, consumed int, outcome string, why string) {
	r := bytes.NewReader(in)
	var err error
	if p, w := guard(func() { f, err = codec.DecodeFrame(r) }); p {
		return nil, len(in) - r.Len(), "panic", w
	}
	if err != nil {
		return nil, len(in) - r.Len(), "err", err.Error()
	}
	return f, len(in) - r.Len(), "ok", ""
}

var trailer = []byte{0xAA, 0xBB, 0xCC, 0xDD, 0xEE, 0xFF, 0x99}

// companion frame of a stream test: a small frame of the same version with its own stream id
func companion(codec frame.RawCodec, v primitive.ProtocolVersion, i int) ([]byte, *frame.Frame) {
	var f *frame.Frame
	switch i % 3 {
	case 0:
		f = plainFrame(v, 7, &message.Options{})
	case 1:
		f = plainFrame(v, -3, &message.ServerError{ErrorMessage: "companion"})
	default:
		f = plainFrame(v, 11, &message.Query{Query: "SELECT now() FROM system.local", Options: &message.QueryOptions{Consistency: primitive.ConsistencyLevelOne}})
	}
	b, _, oc, _ := encodeFrame(codec, f)
	if oc != "ok" {
		return nil, nil
	}
	return b, f
}

// runGenCase runs the real code on one generated frame and fills every field of the contract.
func runGenCase(id string, idx int, gc genCase) J {
	f := gc.f
	v := gc.version
	codec := codecFor(gc.comp)
	rec := J{"id": id, "kind": gc.kind, "version": int(v), "compression": gc.comp, "flags": int(f.Header.Flags),
		"phase": gc.phase, "valid": !gc.invalid, "variant": gc.class, "class": "", "response": f.Header.IsResponse, "stream": int(f.Header.StreamId), "opcode": int(f.Header.OpCode)}
	rec["frame"] = hlib.CoqTerm(f)
	rec["deterministic"] = hlib.CoqDeterministic(f)
	checks := J{}
	rec["checks"] = checks
	why := ""
	fail := func(name, detail string) {
		checks[name] = false
		if why == "" {
			why = name + ": " + detail
		}
	}
	defer func() { rec["why"] = why }()

	// message length function
	encLen := -1
	mc := messageCodecFor(f.Body.Message.GetOpCode())
	var msgBytes []byte
	msgEncoded := false
	if mc != nil {
		var err error
		if p, w := guard(func() { encLen, err = mc.EncodedLength(f.Body.Message, v) }); p {
			encLen = -1
			fail("length_fn_equal", "EncodedLength panicked: "+w)
		} else if err != nil {
			encLen = -1
		}
		mb := &bytes.Buffer{}
		if p, _ := guard(func() { err = mc.Encode(f.Body.Message, mb, v) }); !p && err == nil {
			msgBytes = mb.Bytes()
			msgEncoded = true
		}
	}
	rec["encoded_length_fn"] = encLen

	// encode
	enc, encHdr, oc, w := encodeFrame(codec, f)
	rec["encode"] = oc
	if oc != "ok" {
		rec["bytes"] = ""
		rec["body_len_declared"] = -1
		rec["body_len_emitted"] = -1
		rec["decode"] = "n/a"
		for _, n := range checkNames {
			checks[n] = false
		}
		why = "encode " + oc + ": " + w
		return rec
	}
	rec["bytes"] = hex.EncodeToString(enc)
	hl := headerLen(v)
	declared := int(int32(binary.BigEndian.Uint32(enc[hl-4 : hl])))
	emitted := len(enc) - hl
	rec["body_len_declared"] = declared
	rec["body_len_emitted"] = emitted
	checks["body_length_equal"] = true
	if declared != emitted || int(encHdr.BodyLength) != emitted {
		fail("body_length_equal", fmt.Sprintf("declared %d, header field %d, emitted %d", declared, encHdr.BodyLength, emitted))
	}

	// raw (uncompressed) body
	rawBody := enc[hl:]
	if gc.comp != "none" {
		out := &bytes.Buffer{}
		var err error
		if p, w := guard(func() { err = compressorFor(gc.comp).DecompressWithLength(bytes.NewReader(enc[hl:]), out) }); p || err != nil {
			rawBody = nil
			fail("roundtrip_equal", fmt.Sprintf("cannot decompress the emitted body: %v %v", w, err))
		} else {
			rawBody = out.Bytes()
		}
		rec["raw_body"] = hex.EncodeToString(rawBody)
	}

	// known finding of the pinned LZ4 dependency: tag every body in which some 4-byte window repeats at distance 65536
	// (on the body as the encoder produces it before compression: the emitted one may already be corrupted)
	if emitted+len(rawBody) >= 65540 {
		h := *f.Header
		h.Flags = h.Flags.Remove(primitive.HeaderFlagCompressed)
		plain := &bytes.Buffer{}
		var err error
		if p, _ := guard(func() { err = codecFor("none").EncodeBody(&h, f.Body, plain) }); !p && err == nil && repeatsAt65536(plain.Bytes()) {
			rec["class"] = "lz4-offset-65536"
		}
	}

	// message EncodedLength = emitted message bytes
	checks["length_fn_equal"] = true
	if !msgEncoded {
		fail("length_fn_equal", "message codec refused the message")
	} else if encLen != len(msgBytes) {
		fail("length_fn_equal", fmt.Sprintf("EncodedLength %d, message encoder wrote %d", encLen, len(msgBytes)))
	} else if rawBody != nil {
		// the message occupies the tail of the uncompressed body; the prefix parts are accounted for one by one
		prefix := 0
		if f.Header.Flags.Contains(primitive.HeaderFlagTracing) && f.Header.IsResponse {
			prefix += primitive.LengthOfUuid
		}
		if f.Header.Flags.Contains(primitive.HeaderFlagCustomPayload) {
			prefix += primitive.LengthOfBytesMap(f.Body.CustomPayload)
		}
		if f.Header.Flags.Contains(primitive.HeaderFlagWarning) && f.Header.IsResponse {
			prefix += primitive.LengthOfStringList(f.Body.Warnings)
		}
		if len(rawBody) != prefix+encLen {
			fail("length_fn_equal", fmt.Sprintf("uncompressed body %d bytes, prefix %d + EncodedLength %d", len(rawBody), prefix, encLen))
		}
	}

	// decode: one DecodeFrame of exactly the record's own bytes gives decode / decoded / consumed
	dec, consumed, doc, dw := decodeFrame(codec, enc)
	rec["decode"] = doc
	rec["consumed"] = consumed
	if doc != "ok" {
		for _, n := range checkNames {
			if _, seen := checks[n]; !seen {
				checks[n] = false
			}
		}
		if why == "" {
			why = "decode " + doc + ": " + dw
		}
		return rec
	}
	rec["decoded"] = hlib.CoqTerm(dec)

	// round trip
	checks["roundtrip_equal"] = true
	if d := frameEquiv(f, dec); d != "" {
		fail("roundtrip_equal", d)
	} else if int(dec.Header.BodyLength) != emitted {
		fail("roundtrip_equal", fmt.Sprintf("decoded BodyLength %d, emitted %d", dec.Header.BodyLength, emitted))
	}
	// (a second decode, with bytes following the frame: the decoder must stop at the end of the frame)
	checks["consumed_equal"] = true
	if consumed != len(enc) {
		fail("consumed_equal", fmt.Sprintf("DecodeFrame consumed %d of %d bytes", consumed, len(enc)))
	} else if dec2, c2, oc2, w2 := decodeFrame(codec, append(append([]byte{}, enc...), trailer...)); oc2 != "ok" {
		fail("consumed_equal", "decode with trailing bytes "+oc2+": "+w2)
	} else if c2 != len(enc) {
		fail("consumed_equal", fmt.Sprintf("DecodeFrame with trailing bytes consumed %d of %d bytes", c2, len(enc)))
	} else if d := frameEquiv(dec, dec2); d != "" {
		fail("consumed_equal", "decode with trailing bytes differs: "+d)
	}

	// stream: three frames back to back, nothing left over
	checks["stream2"] = true
	func() {
		comp, compFrame := companion(codec, v, idx)
		if comp == nil {
			fail("stream2", "companion frame does not encode")
			return
		}
		stream := append(append(append([]byte{}, enc...), comp...), enc...)
		r := bytes.NewReader(stream)
		var fs []*frame.Frame
		for i := 0; i < 3; i++ {
			var g *frame.Frame
			var err error
			if p, w := guard(func() { g, err = codec.DecodeFrame(r) }); p || err != nil {
				fail("stream2", fmt.Sprintf("frame %d of the stream: %v %v", i, w, err))
				return
			}
			fs = append(fs, g)
		}
		if r.Len() != 0 {
			fail("stream2", fmt.Sprintf("%d bytes left over", r.Len()))
			return
		}
		if d := frameEquiv(f, fs[0]); d != "" {
			fail("stream2", "first frame: "+d)
		} else if d := frameEquiv(f, fs[2]); d != "" {
			fail("stream2", "third frame: "+d)
		} else if d := frameEquiv(compFrame, fs[1]); d != "" {
			fail("stream2", "second frame: "+d)
		}
	}()

	// DecodeRawFrame + ConvertFromRawFrame = DecodeFrame
	checks["raw_agree"] = true
	func() {
		r := bytes.NewReader(append(append([]byte{}, enc...), trailer...))
		var rf *frame.RawFrame
		var g *frame.Frame
		var err error
		if p, w := guard(func() { rf, err = codec.DecodeRawFrame(r) }); p || err != nil {
			fail("raw_agree", fmt.Sprintf("DecodeRawFrame: %v %v", w, err))
			return
		}
		if r.Len() != len(trailer) {
			fail("raw_agree", fmt.Sprintf("DecodeRawFrame left %d bytes, expected %d", r.Len(), len(trailer)))
			return
		}
		if !bytes.Equal(rf.Body, enc[hl:]) {
			fail("raw_agree", "raw body differs from the emitted body")
			return
		}
		if p, w := guard(func() { g, err = codec.ConvertFromRawFrame(rf) }); p || err != nil {
			fail("raw_agree", fmt.Sprintf("ConvertFromRawFrame: %v %v", w, err))
			return
		}
		if d := frameEquiv(dec, g); d != "" {
			fail("raw_agree", d)
		} else if g.Header.BodyLength != dec.Header.BodyLength {
			fail("raw_agree", "body length differs")
		}
	}()

	// ConvertToRawFrame + EncodeRawFrame decodes to the same frame
	checks["convert_to_raw_agree"] = true
	func() {
		var rf *frame.RawFrame
		var err error
		g := withOwnHeader(f)
		if p, w := guard(func() { rf, err = codec.ConvertToRawFrame(g) }); p || err != nil {
			fail("convert_to_raw_agree", fmt.Sprintf("ConvertToRawFrame: %v %v", w, err))
			return
		}
		// the raw frame itself: its header announces its body, and it converts back to the frame
		if int(rf.Header.BodyLength) != len(rf.Body) {
			fail("convert_to_raw_agree", fmt.Sprintf("ConvertToRawFrame: header declares %d body bytes, raw body has %d", rf.Header.BodyLength, len(rf.Body)))
			return
		}
		var back *frame.Frame
		if p, w := guard(func() { back, err = codec.ConvertFromRawFrame(rf) }); p || err != nil {
			fail("convert_to_raw_agree", fmt.Sprintf("ConvertFromRawFrame(ConvertToRawFrame(f)): %v %v", w, err))
			return
		} else if d := frameEquiv(f, back); d != "" {
			fail("convert_to_raw_agree", "ConvertFromRawFrame(ConvertToRawFrame(f)): "+d)
			return
		}
		buf := &bytes.Buffer{}
		if p, w := guard(func() { err = codec.EncodeRawFrame(rf, buf) }); p || err != nil {
			fail("convert_to_raw_agree", fmt.Sprintf("EncodeRawFrame: %v %v", w, err))
			return
		}
		if rec["deterministic"] == true && !bytes.Equal(buf.Bytes(), enc) {
			fail("convert_to_raw_agree", "bytes differ from EncodeFrame")
			return
		}
		g2, c2, oc2, w2 := decodeFrame(codec, buf.Bytes())
		if oc2 != "ok" {
			fail("convert_to_raw_agree", "decode "+oc2+": "+w2)
		} else if d := frameEquiv(f, g2); d != "" {
			fail("convert_to_raw_agree", d)
		} else if c2 != buf.Len() || int(g2.Header.BodyLength) != buf.Len()-hl {
			fail("convert_to_raw_agree", "lengths differ")
		}
	}()

	// EncodeHeader + EncodeBody = EncodeFrame
	checks["header_body_split"] = true
	func() {
		h := *encHdr
		buf := &bytes.Buffer{}
		var err error
		if p, w := guard(func() { err = codec.EncodeHeader(&h, buf) }); p || err != nil {
			fail("header_body_split", fmt.Sprintf("EncodeHeader: %v %v", w, err))
			return
		}
		if buf.Len() != hl {
			fail("header_body_split", fmt.Sprintf("header of %d bytes", buf.Len()))
			return
		}
		if p, w := guard(func() { err = codec.EncodeBody(&h, f.Body, buf) }); p || err != nil {
			fail("header_body_split", fmt.Sprintf("EncodeBody: %v %v", w, err))
			return
		}
		if rec["deterministic"] == true {
			if !bytes.Equal(buf.Bytes(), enc) {
				fail("header_body_split", "bytes differ from EncodeFrame")
			}
			return
		}
		// some map of the frame has several entries: the two encodings may order them differently (and then compress
		// to different lengths), so the body is produced first and the header carries its length
		bodyBuf := &bytes.Buffer{}
		if p, w := guard(func() { err = codec.EncodeBody(&h, f.Body, bodyBuf) }); p || err != nil {
			fail("header_body_split", fmt.Sprintf("EncodeBody: %v %v", w, err))
			return
		}
		if gc.comp == "none" && bodyBuf.Len() != emitted {
			fail("header_body_split", "body length differs from EncodeFrame")
			return
		}
		h.BodyLength = int32(bodyBuf.Len())
		buf.Reset()
		if p, w := guard(func() { err = codec.EncodeHeader(&h, buf) }); p || err != nil {
			fail("header_body_split", fmt.Sprintf("EncodeHeader: %v %v", w, err))
			return
		}
		buf.Write(bodyBuf.Bytes())
		g2, c2, oc2, w2 := decodeFrame(codec, buf.Bytes())
		if oc2 != "ok" {
			fail("header_body_split", "decode "+oc2+": "+w2)
		} else if d := frameEquiv(f, g2); d != "" {
			fail("header_body_split", d)
		} else if c2 != buf.Len() {
			fail("header_body_split", "bytes left over")
		}
	}()

	// DecodeHeader + DecodeBody = DecodeFrame
	checks["header_body_decode"] = true
	func() {
		r := bytes.NewReader(append(append([]byte{}, enc...), trailer...))
		var h *frame.Header
		var b *frame.Body
		var err error
		if p, w := guard(func() { h, err = codec.DecodeHeader(r) }); p || err != nil {
			fail("header_body_decode", fmt.Sprintf("DecodeHeader: %v %v", w, err))
			return
		}
		if len(enc)+len(trailer)-r.Len() != hl {
			fail("header_body_decode", "DecodeHeader consumed a wrong number of bytes")
			return
		}
		if p, w := guard(func() { b, err = codec.DecodeBody(h, r) }); p || err != nil {
			fail("header_body_decode", fmt.Sprintf("DecodeBody: %v %v", w, err))
			return
		}
		if r.Len() != len(trailer) {
			fail("header_body_decode", fmt.Sprintf("%d bytes left, expected %d", r.Len(), len(trailer)))
			return
		}
		if d := frameEquiv(dec, &frame.Frame{Header: h, Body: b}); d != "" {
			fail("header_body_decode", d)
		}
	}()

	// DecodeHeader + DecodeRawBody / DiscardBody consume exactly header + BodyLength
	partial := func(name string, seekable bool, op func(h *frame.Header, src io.Reader) error) {
		checks[name] = true
		in := append(append([]byte{}, enc...), trailer...)
		br := bytes.NewReader(in)
		var src io.Reader = br
		if !seekable {
			src = &plainReader{br}
		}
		var h *frame.Header
		var err error
		if p, w := guard(func() { h, err = codec.DecodeHeader(src) }); p || err != nil {
			fail(name, fmt.Sprintf("DecodeHeader: %v %v", w, err))
			return
		}
		if p, w := guard(func() { err = op(h, src) }); p || err != nil {
			fail(name, fmt.Sprintf("%v %v", w, err))
			return
		}
		if got := len(in) - br.Len(); got != hl+int(h.BodyLength) || got != len(enc) {
			fail(name, fmt.Sprintf("consumed %d, header %d + BodyLength %d, frame %d bytes", got, hl, h.BodyLength, len(enc)))
		}
	}
	partial("raw_body_consumed", true, func(h *frame.Header, src io.Reader) error {
		body, err := codec.DecodeRawBody(h, src)
		if err == nil && !bytes.Equal(body, enc[hl:]) {
			return fmt.Errorf("raw body differs from the emitted body")
		}
		return err
	})
	partial("raw_body_consumed_plain", false, func(h *frame.Header, src io.Reader) error {
		body, err := codec.DecodeRawBody(h, src)
		if err == nil && !bytes.Equal(body, enc[hl:]) {
			return fmt.Errorf("raw body differs from the emitted body")
		}
		return err
	})
	partial("discard_consumed", false, func(h *frame.Header, src io.Reader) error { return codec.DiscardBody(h, src) })
	partial("discard_seek_consumed", true, func(h *frame.Header, src io.Reader) error { return codec.DiscardBody(h, src) })
	partial("discard_unseekable_consumed", false, func(h *frame.Header, src io.Reader) error {
		// src is the plain reader of this check: hand DiscardBody the same bytes behind a Seeker that cannot seek
		return codec.DiscardBody(h, &unseekableReader{src})
	})

	// sources that deliver the bytes in pieces (io.Reader allows short reads): every decoding path gives the same result
	for _, chunk := range []int{1, 7, 4096} {
		if chunk == 1 && len(enc) > 20000 {
			continue
		}
		name := "chunked_decode"
		checks[name] = checks[name] != false
		func() {
			in := append(append([]byte{}, enc...), trailer...)
			br := bytes.NewReader(in)
			var g *frame.Frame
			var err error
			if p, w := guard(func() { g, err = codec.DecodeFrame(&chunkReader{br, chunk}) }); p || err != nil {
				fail(name, fmt.Sprintf("DecodeFrame from a source delivering %d byte(s) per Read: %v %v", chunk, w, err))
				return
			}
			if d := frameEquiv(dec, g); d != "" {
				fail(name, fmt.Sprintf("source delivering %d byte(s) per Read: %s", chunk, d))
			} else if br.Len() != len(trailer) {
				fail(name, fmt.Sprintf("source delivering %d byte(s) per Read: %d bytes left, expected %d", chunk, br.Len(), len(trailer)))
			}
		}()
		name = "chunked_raw"
		checks[name] = checks[name] != false
		func() {
			in := append(append([]byte{}, enc...), trailer...)
			br := bytes.NewReader(in)
			var rf *frame.RawFrame
			var g *frame.Frame
			var err error
			if p, w := guard(func() { rf, err = codec.DecodeRawFrame(&chunkReader{br, chunk}) }); p || err != nil {
				fail(name, fmt.Sprintf("DecodeRawFrame from a source delivering %d byte(s) per Read: %v %v", chunk, w, err))
				return
			}
			if br.Len() != len(trailer) {
				fail(name, fmt.Sprintf("DecodeRawFrame, source delivering %d byte(s) per Read: %d bytes left, expected %d", chunk, br.Len(), len(trailer)))
				return
			}
			if !bytes.Equal(rf.Body, enc[hl:]) {
				fail(name, fmt.Sprintf("DecodeRawFrame, source delivering %d byte(s) per Read: raw body differs from the emitted body", chunk))
				return
			}
			if p, w := guard(func() { g, err = codec.ConvertFromRawFrame(rf) }); p || err != nil {
				fail(name, fmt.Sprintf("ConvertFromRawFrame: %v %v", w, err))
				return
			}
			if d := frameEquiv(dec, g); d != "" {
				fail(name, d)
			}
			// DecodeHeader + DiscardBody on the same kind of source
			br2 := bytes.NewReader(in)
			src := &chunkReader{br2, chunk}
			var h *frame.Header
			if p, w := guard(func() { h, err = codec.DecodeHeader(src) }); p || err != nil {
				fail(name, fmt.Sprintf("DecodeHeader from a source delivering %d byte(s) per Read: %v %v", chunk, w, err))
				return
			}
			if p, w := guard(func() { err = codec.DiscardBody(h, src) }); p || err != nil {
				fail(name, fmt.Sprintf("DiscardBody from a source delivering %d byte(s) per Read: %v %v", chunk, w, err))
				return
			}
			if br2.Len() != len(trailer) {
				fail(name, fmt.Sprintf("DecodeHeader+DiscardBody, source delivering %d byte(s) per Read: %d bytes left, expected %d", chunk, br2.Len(), len(trailer)))
			}
		}()
	}

	// re-encoding the decoded frame decodes again to an equal frame
	checks["reencode_equal"] = true
	func() {
		enc2, _, oc2, w2 := encodeFrame(codec, dec)
		if oc2 != "ok" {
			fail("reencode_equal", "re-encode "+oc2+": "+w2)
			return
		}
		dec2, c2, oc3, w3 := decodeFrame(codec, enc2)
		if oc3 != "ok" {
			fail("reencode_equal", "second decode "+oc3+": "+w3)
			return
		}
		if d := frameEquiv(dec, dec2); d != "" {
			fail("reencode_equal", d)
		} else if c2 != len(enc2) {
			fail("reencode_equal", "second decode left bytes over")
		}
		rec["reencode_bytes_equal"] = bytes.Equal(enc, enc2) // informative only: not part of the property
	}()
	return rec
}

// repeatsAt65536: some 4-byte window of b occurs again exactly 65536 bytes later (pierrec/lz4 v4.0.3 may encode such
// a match with offset 65536, which wraps to 0 in the block format: silent corruption).  Cheap over-approximation of
// "the compressor picks that match".
func repeatsAt65536(b []byte) bool {
	const d = 65536
	for i := 0; i+d+4 <= len(b); i++ {
		if b[i] == b[i+d] && b[i+1] == b[i+d+1] && b[i+2] == b[i+d+2] && b[i+3] == b[i+d+3] {
			return true
		}
	}
	return false
}

var checkNames = []string{"roundtrip_equal", "length_fn_equal", "body_length_equal", "consumed_equal", "stream2", "raw_agree",
	"convert_to_raw_agree", "header_body_split", "header_body_decode", "raw_body_consumed", "raw_body_consumed_plain",
	"discard_consumed", "discard_seek_consumed", "reencode_equal"}
