package main

// mutators (C20): random sequences of the frame mutators on frames made by frame.NewFrame, and random sequences of the
// Startup option accessors.  The invariants of the property are evaluated on the implementation after every step.
//
// Versions below 4 define neither custom payloads nor warnings: there the sequences use only SetTracingId (responses),
// RequestTracingId (requests) and SetCompress.  From version 4 on: SetCustomPayload and SetCompress in both directions,
// RequestTracingId on requests, SetWarnings and SetTracingId on responses (the documented preconditions of the API).

import (
	"encoding/hex"
	"fmt"
	"math/rand"
	"sort"
	"strconv"

	"github.com/datastax/go-cassandra-native-protocol/frame"
	"github.com/datastax/go-cassandra-native-protocol/message"
	"github.com/datastax/go-cassandra-native-protocol/primitive"
	"verifharness/hlib"
)

type mutOp struct {
	name  string
	arg   string // Coq term of the argument
	coq   string // Coq term of type mop (coq/model/Mutators.v)
	apply func(f *frame.Frame)
}

// genMutOp: a direction- and version-appropriate mutator call; with misuse, any of the five mutators.
func genMutOp(rnd *rand.Rand, c *chooser, v primitive.ProtocolVersion, response bool, misuse bool) mutOp {
	var names []string
	if misuse {
		names = []string{"SetCustomPayload", "SetWarnings", "SetTracingId", "RequestTracingId", "SetCompress"}
	} else {
		if hasPayloadAndWarnings(v) {
			names = append(names, "SetCustomPayload")
			if response {
				names = append(names, "SetWarnings")
			}
		}
		if response {
			names = append(names, "SetTracingId")
		} else {
			names = append(names, "RequestTracingId")
		}
		names = append(names, "SetCompress")
	}
	op := genMutOpNamed(rnd, c, names[rnd.Intn(len(names))])
	op.coq = "(Op" + op.name + " " + op.arg + ")"
	return op
}

func genMutOpNamed(rnd *rand.Rand, c *chooser, name string) mutOp {
	switch name {
	case "SetCustomPayload":
		var p map[string][]byte
		switch rnd.Intn(5) {
		case 0:
			p = nil
		case 1:
			p = map[string][]byte{}
		case 2:
			p = map[string][]byte{"k": c.optBytes()}
		case 3:
			p = map[string][]byte{"": nil}
		default:
			p = map[string][]byte{}
			for i, n := 0, 1+rnd.Intn(3); i < n; i++ {
				p[cap16(fmt.Sprintf("k%d%s", i, c.str()))] = c.optBytes()
			}
		}
		return mutOp{name: name, arg: hlib.CoqTerm(p), apply: func(f *frame.Frame) { f.SetCustomPayload(p) }}
	case "SetWarnings":
		var w []string
		switch rnd.Intn(4) {
		case 0:
			w = nil
		case 1:
			w = []string{}
		case 2:
			w = []string{"w"}
		default:
			w = make([]string, 1+rnd.Intn(3))
			for i := range w {
				w[i] = c.str()
			}
		}
		return mutOp{name: name, arg: hlib.CoqOpt(w), apply: func(f *frame.Frame) { f.SetWarnings(w) }}
	case "SetTracingId":
		var u *primitive.UUID
		if rnd.Intn(3) != 0 {
			u = c.uuid()
		}
		return mutOp{name: name, arg: hlib.CoqTerm(u), apply: func(f *frame.Frame) { f.SetTracingId(u) }}
	case "RequestTracingId":
		b := rnd.Intn(2) == 1
		return mutOp{name: name, arg: hlib.CoqTerm(b), apply: func(f *frame.Frame) { f.RequestTracingId(b) }}
	default:
		b := rnd.Intn(3) != 0
		return mutOp{name: "SetCompress", arg: hlib.CoqTerm(b), apply: func(f *frame.Frame) { f.SetCompress(b) }}
	}
}

func runMutatorCase(id string, rnd *rand.Rand, c *chooser, k *kindSpec, v primitive.ProtocolVersion, msg message.Message, misuse bool) J {
	sid := genStreamId(c, v)
	f := frame.NewFrame(v, sid, msg)
	rec := J{"id": id, "version": int(v), "kind": k.name, "response": k.response, "stream_id": int(sid),
		"message": hlib.CoqTerm(msg), "frame_initial": hlib.CoqTerm(f), "misuse": misuse}
	inv := J{"payload_flag": true, "warning_flag": true, "tracing_flag": true, "compress_flag": true, "header_fixed": true, "no_panic": true}
	rec["invariants"] = inv
	why := ""
	fail := func(name, detail string) {
		inv[name] = false
		if why == "" {
			why = name + ": " + detail
		}
	}
	requested := false
	check := func(step string) {
		fl := f.Header.Flags
		if fl.Contains(primitive.HeaderFlagCustomPayload) != (len(f.Body.CustomPayload) > 0) {
			fail("payload_flag", step)
		}
		if fl.Contains(primitive.HeaderFlagWarning) != (len(f.Body.Warnings) > 0) {
			fail("warning_flag", step)
		}
		if k.response {
			if fl.Contains(primitive.HeaderFlagTracing) != (f.Body.TracingId != nil) {
				fail("tracing_flag", step)
			}
		} else if fl.Contains(primitive.HeaderFlagTracing) != requested {
			fail("tracing_flag", step)
		}
		if fl.Contains(primitive.HeaderFlagCompressed) && !mutatorCompressible(k.name) {
			fail("compress_flag", step)
		}
		h := f.Header
		if h.Version != v || h.StreamId != sid || h.OpCode != msg.GetOpCode() || h.IsResponse != msg.IsResponse() || f.Body.Message != msg {
			fail("header_fixed", step)
		}
	}
	check("after NewFrame")
	n := rnd.Intn(9)
	ops := make([][2]string, 0, n)
	opsCoq := make([]string, 0, n)
	flagsAfter := make([]int, 0, n)
	for i := 0; i < n; i++ {
		op := genMutOp(rnd, c, v, k.response, misuse)
		if p, w := guard(func() { op.apply(f) }); p {
			fail("no_panic", op.name+": "+w)
		}
		if op.name == "RequestTracingId" {
			requested = op.arg == "true"
		}
		ops = append(ops, [2]string{op.name, op.arg})
		opsCoq = append(opsCoq, op.coq)
		flagsAfter = append(flagsAfter, int(f.Header.Flags))
		check(fmt.Sprintf("after op %d (%s)", i, op.name))
	}
	rec["ops"] = ops
	rec["ops_coq"] = opsCoq
	rec["flags_after"] = flagsAfter
	rec["frame_after"] = hlib.CoqTerm(f) // before any encoding: Header.BodyLength is still what NewFrame put there
	// the frame still encodes (encodeFrame works on a copy of the header: the recorded frame is not touched) with a codec that has a compressor, and round-trips
	codec := codecFor("lz4")
	enc, _, oc, w := encodeFrame(codec, f)
	rec["encode"] = oc
	rt := false
	if oc != "ok" {
		if why == "" {
			why = "encode " + oc + ": " + w
		}
	} else {
		dec, consumed, doc, dw := decodeFrame(codec, enc)
		// judged for EVERY sequence, direction-appropriate or not: what encodes decodes again, and the declared length is the emitted length
		rec["decode"] = doc
		rec["lengths_ok"] = doc == "ok" && consumed == len(enc) && int(dec.Header.BodyLength) == len(enc)-headerLen(v)
		switch {
		case doc != "ok":
			if why == "" {
				why = "decode " + doc + ": " + dw
			}
		case frameEquiv(f, dec) != "":
			if why == "" {
				why = "roundtrip: " + frameEquiv(f, dec)
			}
		case consumed != len(enc) || int(dec.Header.BodyLength) != len(enc)-headerLen(v):
			if why == "" {
				why = "roundtrip: lengths differ"
			}
		default:
			rt = true
		}
	}
	rec["roundtrip_equal"] = rt
	rec["why"] = why
	return rec
}

// ---------------------------------------------------------------- Startup accessors

type startupAccessor struct {
	name string
	key  string
	set  func(m *message.Startup, s string, b bool)
	get  func(m *message.Startup) string // booleans as "true"/"false"
	bool bool
}

var startupAccessors = []startupAccessor{
	{name: "Compression", key: message.StartupOptionCompression,
		set: func(m *message.Startup, s string, b bool) { m.SetCompression(primitive.Compression(s)) },
		get: func(m *message.Startup) string { return string(m.GetCompression()) }},
	{name: "ClientId", key: message.StartupOptionClientId,
		set: func(m *message.Startup, s string, b bool) { m.SetClientId(s) },
		get: func(m *message.Startup) string { return m.GetClientId() }},
	{name: "ApplicationName", key: message.StartupOptionApplicationName,
		set: func(m *message.Startup, s string, b bool) { m.SetApplicationName(s) },
		get: func(m *message.Startup) string { return m.GetApplicationName() }},
	{name: "ApplicationVersion", key: message.StartupOptionApplicationVersion,
		set: func(m *message.Startup, s string, b bool) { m.SetApplicationVersion(s) },
		get: func(m *message.Startup) string { return m.GetApplicationVersion() }},
	{name: "DriverName", key: message.StartupOptionDriverName,
		set: func(m *message.Startup, s string, b bool) { m.SetDriverName(s) },
		get: func(m *message.Startup) string { return m.GetDriverName() }},
	{name: "DriverVersion", key: message.StartupOptionDriverVersion,
		set: func(m *message.Startup, s string, b bool) { m.SetDriverVersion(s) },
		get: func(m *message.Startup) string { return m.GetDriverVersion() }},
	{name: "ThrowOnOverload", key: message.StartupOptionThrowOnOverload, bool: true,
		set: func(m *message.Startup, s string, b bool) { m.SetThrowOnOverload(b) },
		get: func(m *message.Startup) string { return strconv.FormatBool(m.IsThrowOnOverload()) }},
}

var startupStrings = []string{"", "1", "0", "NONE", "LZ4", "SNAPPY", "lz4", "3.0.0", "CQL_VERSION", "DRIVER_VERSION", "THROW_ON_OVERLOAD",
	"COMPRESSION", "my app", "é", "\x00"}

func startupString(rnd *rand.Rand) string {
	if rnd.Intn(4) == 0 {
		b := make([]byte, rnd.Intn(12))
		rnd.Read(b)
		return string(b)
	}
	if rnd.Intn(600) == 0 {
		return repeatString(65535, 1)
	}
	return startupStrings[rnd.Intn(len(startupStrings))]
}

func runStartupCase(id string, rnd *rand.Rand) J {
	var m *message.Startup
	switch rnd.Intn(5) {
	case 4:
		m = &message.Startup{} // nil options map: the setters must allocate it
	case 0:
		m = message.NewStartup()
	case 1:
		m = &message.Startup{Options: map[string]string{}}
	case 2:
		m = message.NewStartup(message.StartupOptionCompression, "LZ4", message.StartupOptionDriverVersion, "4.1", message.StartupOptionThrowOnOverload, "1")
	default:
		kv := []string{}
		for i, n := 0, rnd.Intn(5); i < n; i++ {
			kv = append(kv, startupAccessors[rnd.Intn(len(startupAccessors))].key, startupString(rnd))
		}
		kv = append(kv, "CUSTOM_"+startupString(rnd), startupString(rnd))
		m = message.NewStartup(kv...)
	}
	rec := J{"id": id, "kind": "startup", "initial": hlib.CoqTerm(m.Options)}
	inv := J{"get_after_set": true, "others_unchanged": true, "no_panic": true}
	rec["invariants"] = inv
	why := ""
	fail := func(name, detail string) {
		inv[name] = false
		if why == "" {
			why = name + ": " + detail
		}
	}
	n := rnd.Intn(9)
	ops := make([][2]string, 0, n)
	opsCoq := make([]string, 0, n)
	states := make([]string, 0, n)
	for i := 0; i < n; i++ {
		ai := rnd.Intn(len(startupAccessors))
		a := startupAccessors[ai]
		s := startupString(rnd)
		b := rnd.Intn(2) == 1
		// snapshot of everything the setter does not own
		before := map[string]string{}
		for k, v := range m.Options {
			if k != a.key {
				before[k] = v
			}
		}
		gettersBefore := make([]string, len(startupAccessors))
		for gi, g := range startupAccessors {
			gettersBefore[gi] = g.get(m)
		}
		if p, w := guard(func() { a.set(m, s, b) }); p {
			fail("no_panic", "Set"+a.name+": "+w)
		}
		got := a.get(m)
		want := s
		argTerm := hlib.CoqTerm(s)
		coq := "(SSet K" + a.name + " " + argTerm + ")"
		switch {
		case a.bool:
			want = strconv.FormatBool(b)
			argTerm = want
			coq = "(SSetThrow " + want + ")"
		case a.name == "Compression":
			coq = "(SSetCompression " + argTerm + ")"
		}
		step := fmt.Sprintf("op %d Set%s(%q)", i, a.name, clip(want))
		if got != want {
			fail("get_after_set", fmt.Sprintf("%s: getter returns %q", step, clip(got)))
		}
		after := map[string]string{}
		for k, v := range m.Options {
			if k != a.key {
				after[k] = v
			}
		}
		if len(after) != len(before) {
			fail("others_unchanged", step+": the set of other keys changed")
		} else {
			keys := make([]string, 0, len(before))
			for k := range before {
				keys = append(keys, k)
			}
			sort.Strings(keys)
			for _, k := range keys {
				if av, ok := after[k]; !ok || av != before[k] {
					fail("others_unchanged", fmt.Sprintf("%s: option %q changed", step, k))
					break
				}
			}
		}
		for gi, g := range startupAccessors {
			if gi != ai && g.get(m) != gettersBefore[gi] {
				fail("others_unchanged", fmt.Sprintf("%s: Get%s changed", step, g.name))
			}
		}
		ops = append(ops, [2]string{"Set" + a.name, argTerm})
		opsCoq = append(opsCoq, coq)
		states = append(states, hlib.CoqTerm(m.Options))
	}
	observed := J{}
	for _, g := range startupAccessors {
		if g.bool {
			observed[g.name] = g.get(m) == "true"
		} else {
			observed[g.name] = hex.EncodeToString([]byte(g.get(m)))
		}
	}
	rec["ops"] = ops
	rec["ops_coq"] = opsCoq
	rec["options_after_each"] = states
	rec["observed"] = observed // the getters' answers after the whole sequence (strings in hex)
	rec["final"] = hlib.CoqTerm(m.Options)
	rec["why"] = why
	return rec
}

// cmdMutators: one sequence for every kind x version, then n seeded random ones; then the Startup sequences.
func cmdMutators(args []string) {
	n, _ := argN(args)
	rnd := rand.New(rand.NewSource(hlib.Seed()))
	c := newRandChooser(rnd)
	i := 0
	for _, v := range allVersions {
		for ki := range kinds {
			k := &kinds[ki]
			if !k.definedIn(v) {
				continue
			}
			i++
			hlib.Emit(runMutatorCase("u"+strconv.Itoa(i), rnd, c, k, v, k.gen(c, v), false))
		}
	}
	for j := 0; j < n; j++ {
		v := allVersions[rnd.Intn(len(allVersions))]
		k := &kinds[rnd.Intn(len(kinds))]
		if !k.definedIn(v) {
			j--
			continue
		}
		i++
		hlib.Emit(runMutatorCase("u"+strconv.Itoa(i), rnd, c, k, v, k.gen(c, v), false))
	}
	// misuse: any mutator on any frame (RequestTracingId on a response, SetWarnings on a request, payloads below v4 ...);
	// these histories are characterised, not judged
	for j, nm := 0, n/10+30; j < nm; j++ {
		v := allVersions[rnd.Intn(len(allVersions))]
		k := &kinds[rnd.Intn(len(kinds))]
		if !k.definedIn(v) {
			j--
			continue
		}
		i++
		hlib.Emit(runMutatorCase("x"+strconv.Itoa(j+1), rnd, c, k, v, k.gen(c, v), true))
	}
	ns := n/2 + 50
	for j := 0; j < ns; j++ {
		hlib.Emit(runStartupCase("s"+strconv.Itoa(j+1), rnd))
	}
}

// SetCompress never flags these three kinds (frame.go isCompressible)
func mutatorCompressible(kind string) bool {
	return kind != "Startup" && kind != "Options" && kind != "Ready"
}
