package main

import (
	"fmt"
	"math"
	"math/big"
	"math/rand"
	"sort"
	"strings"

	"github.com/datastax/go-cassandra-native-protocol/datatype"
)

// ctype is a CQL type tree; it carries the library's own descriptor and prints itself as a Coq [cqltype] term.
type ctype struct {
	kind   string // scalar list set map tuple udt
	scalar string // SAscii ...
	elem   *ctype
	key    *ctype
	val    *ctype
	fields []*ctype
	names  []string
	dt     datatype.DataType
}

var scalarNames = []string{"SAscii", "SBigint", "SBlob", "SBoolean", "SCounter", "SDate", "SDecimal", "SDouble", "SDuration", "SFloat", "SInet",
	"SInt", "SSmallint", "STime", "STimestamp", "STimeuuid", "STinyint", "SUuid", "SVarchar", "SVarint", "SCustom"}

var scalarDt = map[string]datatype.DataType{
	"SAscii": datatype.Ascii, "SBigint": datatype.Bigint, "SBlob": datatype.Blob, "SBoolean": datatype.Boolean, "SCounter": datatype.Counter,
	"SDate": datatype.Date, "SDecimal": datatype.Decimal, "SDouble": datatype.Double, "SDuration": datatype.Duration, "SFloat": datatype.Float,
	"SInet": datatype.Inet, "SInt": datatype.Int, "SSmallint": datatype.Smallint, "STime": datatype.Time, "STimestamp": datatype.Timestamp,
	"STimeuuid": datatype.Timeuuid, "STinyint": datatype.Tinyint, "SUuid": datatype.Uuid, "SVarchar": datatype.Varchar, "SVarint": datatype.Varint,
	"SCustom": datatype.NewCustom("org.example.Custom"),
}

func scalarT(name string) *ctype { return &ctype{kind: "scalar", scalar: name, dt: scalarDt[name]} }
func listT(e *ctype) *ctype      { return &ctype{kind: "list", elem: e, dt: datatype.NewList(e.dt)} }
func setT(e *ctype) *ctype       { return &ctype{kind: "set", elem: e, dt: datatype.NewSet(e.dt)} }
func mapT(k, v *ctype) *ctype {
	return &ctype{kind: "map", key: k, val: v, dt: datatype.NewMap(k.dt, v.dt)}
}
func tupleT(fs ...*ctype) *ctype {
	dts := make([]datatype.DataType, len(fs))
	for i, f := range fs {
		dts[i] = f.dt
	}
	return &ctype{kind: "tuple", fields: fs, dt: datatype.NewTuple(dts...)}
}
func udtT(names []string, fs ...*ctype) *ctype {
	dts := make([]datatype.DataType, len(fs))
	for i, f := range fs {
		dts[i] = f.dt
	}
	u, err := datatype.NewUserDefined("ks", "u", names, dts)
	if err != nil {
		panic(err)
	}
	return &ctype{kind: "udt", fields: fs, names: names, dt: u}
}

func (t *ctype) coq() string {
	switch t.kind {
	case "scalar":
		return "(TScalar " + t.scalar + ")"
	case "list":
		return "(TList " + t.elem.coq() + ")"
	case "set":
		return "(TSet " + t.elem.coq() + ")"
	case "map":
		return "(TMap " + t.key.coq() + " " + t.val.coq() + ")"
	case "tuple", "udt":
		fs := make([]string, len(t.fields))
		for i, f := range t.fields {
			fs[i] = f.coq()
		}
		if t.kind == "tuple" {
			return "(TTuple [" + strings.Join(fs, "; ") + "])"
		}
		ns := make([]string, len(t.names))
		for i, n := range t.names {
			ns[i] = "\"" + n + "\"%string"
		}
		return "(TUdt [" + strings.Join(ns, "; ") + "] [" + strings.Join(fs, "; ") + "])"
	}
	panic("ctype.coq")
}

func (t *ctype) depth() int {
	d := 0
	for _, c := range t.children() {
		if x := c.depth(); x > d {
			d = x
		}
	}
	return d + 1
}

func (t *ctype) children() []*ctype {
	switch t.kind {
	case "list", "set":
		return []*ctype{t.elem}
	case "map":
		return []*ctype{t.key, t.val}
	case "tuple", "udt":
		return t.fields
	}
	return nil
}

// aval is an abstract CQL value; it prints itself as a Coq [cval] term.
type aval struct {
	kind  string // null int bytes bool decimal duration inet uuid float list map tuple udt
	z     *big.Int
	z2    *big.Int
	z3    *big.Int
	bs    []byte
	b     bool
	w     int // float: 32 | 64
	elems []*aval
	pairs [][2]*aval
}

var aNull = &aval{kind: "null"}

func aInt(z *big.Int) *aval      { return &aval{kind: "int", z: new(big.Int).Set(z)} }
func aInt64(x int64) *aval       { return &aval{kind: "int", z: big.NewInt(x)} }
func aBytes(b []byte) *aval      { return &aval{kind: "bytes", bs: append([]byte{}, b...)} }
func aFloat32(bits uint64) *aval { return &aval{kind: "float", z: new(big.Int).SetUint64(bits), w: 32} }
func aFloat64(bits uint64) *aval { return &aval{kind: "float", z: new(big.Int).SetUint64(bits), w: 64} }

// isNaN: the float value (of width w) is a NaN
func (a *aval) isNaN() bool {
	b := a.z.Uint64()
	if a.w == 32 {
		return b&0x7f800000 == 0x7f800000 && b&0x007fffff != 0
	}
	return b&0x7ff0000000000000 == 0x7ff0000000000000 && b&0x000fffffffffffff != 0
}

// nanCanon: every NaN replaced by one canonical NaN - the equality of the round-trip predicate is "same bits, or both NaN"
// (the payload of a NaN is not a value the codecs promise to keep across float32 <-> float64 conversions).
func (a *aval) nanCanon() *aval {
	switch a.kind {
	case "float":
		if a.isNaN() {
			if a.w == 32 {
				return aFloat32(0x7fc00000)
			}
			return aFloat64(0x7ff8000000000000)
		}
	case "list", "tuple", "udt":
		r := &aval{kind: a.kind, elems: []*aval{}}
		for _, e := range a.elems {
			r.elems = append(r.elems, e.nanCanon())
		}
		return r
	case "map":
		r := &aval{kind: "map"}
		for _, p := range a.pairs {
			r.pairs = append(r.pairs, [2]*aval{p[0].nanCanon(), p[1].nanCanon()})
		}
		return r
	}
	return a
}

func zs(z *big.Int) string {
	if z.Sign() < 0 {
		return "(" + z.String() + ")"
	}
	return z.String()
}

func hx(b []byte) string { return fmt.Sprintf("(hx \"%x\")", b) }

func (a *aval) coq() string {
	switch a.kind {
	case "null":
		return "VNull"
	case "int":
		return "(VInt " + zs(a.z) + ")"
	case "bytes":
		return "(VBytes " + hx(a.bs) + ")"
	case "bool":
		if a.b {
			return "(VBool true)"
		}
		return "(VBool false)"
	case "decimal":
		return "(VDecimal " + zs(a.z) + " " + zs(a.z2) + ")"
	case "duration":
		return "(VDuration " + zs(a.z) + " " + zs(a.z2) + " " + zs(a.z3) + ")"
	case "inet":
		return "(VInet " + hx(a.bs) + ")"
	case "uuid":
		return "(VUuid " + hx(a.bs) + ")"
	case "float":
		return "(VFloat " + zs(a.z) + ")"
	case "list", "tuple", "udt":
		es := make([]string, len(a.elems))
		for i, e := range a.elems {
			es[i] = e.coq()
		}
		c := map[string]string{"list": "VList", "tuple": "VTuple", "udt": "VUdt"}[a.kind]
		return "(" + c + " [" + strings.Join(es, "; ") + "])"
	case "map":
		es := make([]string, len(a.pairs))
		for i, p := range a.pairs {
			es[i] = "(" + p[0].coq() + ", " + p[1].coq() + ")"
		}
		return "(VMap [" + strings.Join(es, "; ") + "])"
	}
	panic("aval.coq " + a.kind)
}

// canon sorts map entries (recursively) so that two values equal up to Go's map iteration order print identically.
func (a *aval) canon() *aval {
	switch a.kind {
	case "list", "tuple", "udt":
		r := &aval{kind: a.kind}
		for _, e := range a.elems {
			r.elems = append(r.elems, e.canon())
		}
		return r
	case "map":
		r := &aval{kind: "map"}
		for _, p := range a.pairs {
			r.pairs = append(r.pairs, [2]*aval{p[0].canon(), p[1].canon()})
		}
		sort.SliceStable(r.pairs, func(i, j int) bool {
			ki, kj := r.pairs[i][0].coq(), r.pairs[j][0].coq()
			if ki != kj {
				return ki < kj
			}
			return r.pairs[i][1].coq() < r.pairs[j][1].coq()
		})
		return r
	}
	return a
}

func aEqual(a, b *aval) bool { return a.nanCanon().canon().coq() == b.nanCanon().canon().coq() }

// hasMultiMap: does encoding this value iterate a Go map with two or more entries (byte order then unspecified)?
func (a *aval) size() int {
	n := 1
	for _, e := range a.elems {
		n += e.size()
	}
	for _, p := range a.pairs {
		n += p[0].size() + p[1].size()
	}
	return n
}

// ---------------------------------------------------------------------------------------------- generators

type gen struct{ r *rand.Rand }

func (g *gen) pick(n int) int { return g.r.Intn(n) }

func (g *gen) scalarType() *ctype { return scalarT(scalarNames[g.pick(len(scalarNames))]) }

var fieldNamePool = []string{"a", "b", "c", "name", "Value", "x_1", "id", "userId", "ZIP"}

func (g *gen) typeTree(depth int) *ctype {
	if depth <= 1 || g.pick(4) == 0 {
		return g.scalarType()
	}
	switch g.pick(5) {
	case 0:
		return listT(g.typeTree(depth - 1))
	case 1:
		return setT(g.typeTree(depth - 1))
	case 2:
		return mapT(g.typeTree(depth-1), g.typeTree(depth-1))
	case 3:
		n := 1 + g.pick(3)
		fs := make([]*ctype, n)
		for i := range fs {
			fs[i] = g.typeTree(depth - 1)
		}
		return tupleT(fs...)
	default:
		n := 1 + g.pick(3)
		fs := make([]*ctype, n)
		perm := g.r.Perm(len(fieldNamePool))
		names := make([]string, n)
		for i := range fs {
			fs[i] = g.typeTree(depth - 1)
			names[i] = fieldNamePool[perm[i]]
		}
		return udtT(names, fs...)
	}
}

func pow2(k uint) *big.Int { return new(big.Int).Lsh(big.NewInt(1), k) }

// boundary integers within [lo, hi]
func (g *gen) intIn(lo, hi *big.Int) *big.Int {
	cands := []*big.Int{big.NewInt(0), big.NewInt(1), big.NewInt(-1), new(big.Int).Set(lo), new(big.Int).Set(hi),
		new(big.Int).Add(lo, big.NewInt(1)), new(big.Int).Sub(hi, big.NewInt(1))}
	for _, k := range []uint{7, 8, 15, 16, 31, 32, 63} {
		p := pow2(k)
		cands = append(cands, p, new(big.Int).Sub(p, big.NewInt(1)), new(big.Int).Neg(p), new(big.Int).Sub(new(big.Int).Neg(p), big.NewInt(1)),
			new(big.Int).Add(p, big.NewInt(1)))
	}
	for tries := 0; tries < 50; tries++ {
		var c *big.Int
		if g.pick(3) == 0 {
			// uniformly random in range
			span := new(big.Int).Sub(hi, lo)
			span.Add(span, big.NewInt(1))
			c = new(big.Int).Rand(g.r, span)
			c.Add(c, lo)
		} else {
			c = cands[g.pick(len(cands))]
		}
		if c.Cmp(lo) >= 0 && c.Cmp(hi) <= 0 {
			return c
		}
	}
	return new(big.Int).Set(lo)
}

func irange(bits uint) (*big.Int, *big.Int) {
	return new(big.Int).Neg(pow2(bits - 1)), new(big.Int).Sub(pow2(bits-1), big.NewInt(1))
}

func (g *gen) bigAny() *big.Int {
	switch g.pick(6) {
	case 0:
		lo, hi := irange(64)
		return g.intIn(lo, hi)
	case 1:
		k := uint(8 * (1 + g.pick(20)))
		cands := []*big.Int{pow2(k - 1), new(big.Int).Neg(pow2(k - 1)), new(big.Int).Sub(pow2(k-1), big.NewInt(1)),
			new(big.Int).Sub(new(big.Int).Neg(pow2(k-1)), big.NewInt(1)), pow2(k), new(big.Int).Neg(pow2(k))}
		return cands[g.pick(len(cands))]
	case 2:
		return big.NewInt(int64(g.pick(600) - 300))
	default:
		n := 1 + g.pick(40)
		b := make([]byte, n)
		g.r.Read(b)
		z := new(big.Int).SetBytes(b)
		if g.pick(2) == 0 {
			z.Neg(z)
		}
		return z
	}
}

func (g *gen) someBytes(text bool, ascii bool) []byte {
	var n int
	switch g.pick(8) {
	case 0:
		n = 0
	case 1:
		n = 1
	case 2:
		n = 200 + g.pick(200)
	default:
		n = g.pick(12)
	}
	b := make([]byte, n)
	if ascii {
		for i := range b {
			b[i] = byte(g.pick(128))
		}
		return b
	}
	if text {
		// valid UTF-8
		var sb strings.Builder
		runes := []rune{'a', 'Z', '0', ' ', 0x00e9, 0x4e16, 0x1f600, 0x7f, 0}
		for sb.Len() < n {
			sb.WriteRune(runes[g.pick(len(runes))])
		}
		return []byte(sb.String())
	}
	g.r.Read(b)
	return b
}

// +-0, +-1, +-Inf, quiet NaNs (default, with a payload, negative), a signalling NaN, smallest / largest subnormal, smallest normal, largest finite;
// NaN and the infinities come first and last so that every tier keeps them for every representation
var floatBits32 = []uint64{0x7fc00000, 0x7f800000, 0, 0x80000000, 0x3f800000, 0xbf800000, 0x7fc00001, 0xffc00000, 0x7fa00000, 0x7fe00000, 0x00000001, 0x007fffff, 0x00800000, 0x7f7fffff,
	0x3fc00000, 0xff800000, 0xffe00000}
var floatBits64 = []uint64{0x7ff8000000000000, 0x7ff0000000000000, 0, 0x8000000000000000, 0x3ff0000000000000, 0xbff0000000000000,
	0x7ff8000000000001, 0xfff8000000000000, 0x7ff4000000000000, 0x7ffc000000000000, 1, 0x000fffffffffffff, 0x0010000000000000, 0x7fefffffffffffff,
	0x3ff8000000000000, 0x47efffffe0000000, 0x36a0000000000000, 0xfff0000000000000, 0xfffc000000000000}

// value generates an abstract non-null value of scalar type s
func (g *gen) scalarValue(s string) *aval {
	switch s {
	case "SBigint", "SCounter", "STimestamp":
		lo, hi := irange(64)
		return aInt(g.intIn(lo, hi))
	case "STime":
		if g.pick(3) == 0 {
			return aInt(g.intIn(big.NewInt(0), big.NewInt(86399999999999)))
		}
		return aInt64(int64(g.r.Int63n(86400000000000)))
	case "SInt", "SDate":
		lo, hi := irange(32)
		return aInt(g.intIn(lo, hi))
	case "SSmallint":
		lo, hi := irange(16)
		return aInt(g.intIn(lo, hi))
	case "STinyint":
		lo, hi := irange(8)
		return aInt(g.intIn(lo, hi))
	case "SVarint":
		return aInt(g.bigAny())
	case "SDecimal":
		lo, hi := irange(32)
		return &aval{kind: "decimal", z: g.intIn(lo, hi), z2: g.bigAny()}
	case "SDuration":
		lo, hi := irange(32)
		lo6, hi6 := irange(64)
		return &aval{kind: "duration", z: g.intIn(lo, hi), z2: g.intIn(lo, hi), z3: g.intIn(lo6, hi6)}
	case "SBoolean":
		return &aval{kind: "bool", b: g.pick(2) == 0}
	case "SFloat":
		if g.pick(2) == 0 {
			return aFloat32(floatBits32[g.pick(len(floatBits32))])
		}
		return aFloat32(uint64(g.r.Uint32()))
	case "SDouble":
		if g.pick(2) == 0 {
			return aFloat64(floatBits64[g.pick(len(floatBits64))])
		}
		if g.pick(3) == 0 {
			return aFloat64(math.Float64bits(float64(math.Float32frombits(g.r.Uint32())))) // a double that is a float32 number
		}
		return aFloat64(g.r.Uint64())
	case "SAscii":
		return aBytes(g.someBytes(true, true))
	case "SVarchar":
		return aBytes(g.someBytes(true, false))
	case "SBlob", "SCustom":
		return aBytes(g.someBytes(false, false))
	case "SUuid", "STimeuuid":
		b := make([]byte, 16)
		g.r.Read(b)
		if g.pick(6) == 0 {
			b = make([]byte, 16)
		}
		return &aval{kind: "uuid", bs: b}
	case "SInet":
		n := 4
		if g.pick(2) == 0 {
			n = 16
		}
		b := make([]byte, n)
		g.r.Read(b)
		if n == 16 && g.pick(4) == 0 {
			// nearly IPv4-mapped (but not mapped: the canonical form of a mapped address is the 4-byte one)
			b = []byte{0, 0, 0, 0, 0, 0, 0, 0, 0, 0, 0xff, 0xfe, 1, 2, 3, 4}
		}
		if n == 16 && isV4Mapped(b) {
			b = b[12:]
		}
		return &aval{kind: "inet", bs: b}
	}
	panic("scalarValue " + s)
}

func isV4Mapped(b []byte) bool {
	if len(b) != 16 {
		return false
	}
	for i := 0; i < 10; i++ {
		if b[i] != 0 {
			return false
		}
	}
	return b[10] == 0xff && b[11] == 0xff
}
