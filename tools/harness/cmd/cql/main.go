// Command cql runs the CQL value codecs of /repo/datacodec (the real code) on generated inputs and prints observables.
//
//	cql gen <n>        seeded type trees, values and Go representations; Encode / Decode through the public Codec API
//	cql directed       boundary values of every scalar in every accepted representation, spec tables, nested nulls
//	cql null           NULL behaviour: nil sources, pre-filled destinations (C14)
//	cql malformed <n>  decoders on mutated encodings, outcome class ok/err/panic (C04)
//	cql replay         one case from stdin (JSON: type/value as produced by gen) - used by the checks' replay
package main

import (
	"bytes"
	"encoding/hex"
	"fmt"
	"math/rand"
	"os"
	"reflect"
	"strconv"
	"strings"

	"github.com/datastax/go-cassandra-native-protocol/datacodec"
	"github.com/datastax/go-cassandra-native-protocol/primitive"
	"verifharness/hlib"
)

var versions = []primitive.ProtocolVersion{primitive.ProtocolVersion2, primitive.ProtocolVersion3, primitive.ProtocolVersion4,
	primitive.ProtocolVersion5, primitive.ProtocolVersionDse1, primitive.ProtocolVersionDse2}

type caseRec struct {
	Kind       string `json:"kind"`
	Id         string `json:"id"`
	Ver        int    `json:"ver"`
	TypeCql    string `json:"type_cql"`
	TypeCoq    string `json:"type_coq"`
	Depth      int    `json:"depth"`
	Rep        string `json:"rep"`
	ValCoq     string `json:"val_coq"`
	NullInColl bool   `json:"null_in_coll"` // a NULL sits at a collection element / map key / map value position (not expressible in v2)
	Unordered  bool   `json:"unordered"`    // encoding iterated a Go map with >= 2 entries: byte order unspecified
	EncClass   string `json:"enc_class"`    // ok | null | err | panic
	EncHex     string `json:"enc_hex"`
	DecClass   string `json:"dec_class"` // decode of the encoded bytes into *interface{}
	DecCoq     string `json:"dec_coq"`
	DecNull    bool   `json:"dec_null"`
	RtEqual    bool   `json:"rt_equal"`   // decoded (untyped destination) value equals the source value
	SameClass  string `json:"same_class"` // decode into the same Go representation
	SameEqual  bool   `json:"same_equal"`
	SameCoq    string `json:"same_coq"`
	SameNull   bool   `json:"same_null"`
	Err        string `json:"err,omitempty"`
	// the same case in the universe of coq/model/CqlGoVal.v (empty when the representation is outside it)
	SrcGty  string `json:"src_gty,omitempty"`
	SrcG    string `json:"src_g,omitempty"`
	DestGty string `json:"dest_gty,omitempty"`
	SameG   string `json:"same_g,omitempty"`
	DecG    string `json:"dec_g,omitempty"`
	// container types: the same bytes decoded into one more typed destination (dests.go: maps keyed by interface{}, untyped containers,
	// array / struct / pointer keys, taking turns): never a panic; outcome and value compared with the Go-representation model
	AltDest  string `json:"alt_dest,omitempty"`
	AltGty   string `json:"alt_gty,omitempty"`
	AltClass string `json:"alt_class,omitempty"`
	AltNull  bool   `json:"alt_null,omitempty"`
	AltG     string `json:"alt_g,omitempty"`
	AltErr   string `json:"alt_err,omitempty"`
	// Encode must not modify its source: the Go value re-abstracted AFTER Encode (and, inside the modelled universe, re-printed) equals what
	// it was built from; a second Encode of the same Go value gives the same outcome and (ordered sources) the same bytes; the decoded
	// value also equals the source as it is after encoding
	SrcIntact   bool   `json:"src_intact"`
	SrcAfterCoq string `json:"src_after_coq,omitempty"`
	Enc2Same    bool   `json:"enc2_same"`
	Enc2Hex     string `json:"enc2_hex,omitempty"`
	RtEqualSrc  bool   `json:"rt_equal_src"`
	// the Go type an untyped destination received, at every level, against the documented preferred types (prefdoc.go, written from doc.go)
	DecType    string `json:"dec_type,omitempty"`
	PrefDiffer string `json:"pref_differs,omitempty"` // "" = as documented
}

var altTurn int

func safely(f func()) (panicked bool, msg string) {
	defer func() {
		if r := recover(); r != nil {
			panicked = true
			msg = fmt.Sprint(r)
		}
	}()
	f()
	return
}

func hasMultiMap(r *rep, a *aval) bool {
	if a.kind == "null" {
		return false
	}
	switch {
	case r.kind == "ptr":
		return hasMultiMap(r.inner, a)
	case r.s != nil:
		return false
	case r.kind == "slice" || r.kind == "array" || r.kind == "ifaceslice":
		for _, e := range a.elems {
			if hasMultiMap(r.elem, e) {
				return true
			}
		}
	case r.kind == "map":
		if len(a.pairs) >= 2 {
			return true
		}
		for _, p := range a.pairs {
			if hasMultiMap(r.key, p[0]) || hasMultiMap(r.val, p[1]) {
				return true
			}
		}
	case r.kind == "structmap":
		for i, p := range a.pairs {
			if hasMultiMap(r.fields[i], p[1]) {
				return true
			}
		}
	default:
		for i, e := range a.elems {
			if hasMultiMap(r.fields[i], e) {
				return true
			}
		}
	}
	return false
}

func nullInColl(t *ctype, a *aval) bool {
	if a.kind == "null" {
		return false
	}
	switch t.kind {
	case "list", "set":
		for _, e := range a.elems {
			if e.kind == "null" || nullInColl(t.elem, e) {
				return true
			}
		}
	case "map":
		for _, p := range a.pairs {
			if p[0].kind == "null" || p[1].kind == "null" || nullInColl(t.key, p[0]) || nullInColl(t.val, p[1]) {
				return true
			}
		}
	case "tuple", "udt":
		for i, e := range a.elems {
			if i < len(t.fields) && nullInColl(t.fields[i], e) {
				return true
			}
		}
	}
	return false
}

// runCase: Encode the Go value of representation r for a, then Decode the bytes into *interface{} and into the same representation.
func runCase(id string, t *ctype, r *rep, a *aval, ver primitive.ProtocolVersion) *caseRec {
	rec := &caseRec{Kind: "case", Id: id, Ver: int(ver), TypeCql: t.dt.AsCql(), TypeCoq: t.coq(), Depth: t.depth(), Rep: r.String(), ValCoq: inSourceOrder(r, a).coq(),
		Unordered: hasMultiMap(r, a), NullInColl: nullInColl(t, a)}
	codec, err := datacodec.NewCodec(t.dt)
	if err != nil {
		rec.EncClass = "nocodec"
		rec.Err = err.Error()
		return rec
	}
	src := r.mk(a)
	if gty, ok := gtyOf(t, r.gt); ok && len(a.coq()) < 3000 && !strings.Contains(r.String(), "structmap") {
		if rec.SrcGty, rec.SrcG = gty, gvalOf(t, r.gt, src); !inUniverse(rec.SrcG) {
			rec.SrcGty, rec.SrcG = "", ""
		}
	}
	var enc []byte
	var eerr error
	if p, msg := safely(func() { enc, eerr = codec.Encode(src.Interface(), ver) }); p {
		rec.EncClass, rec.Err = "panic", msg
		return rec
	}
	// the source after Encode, and a second Encode of the very same Go value
	after := abs(t, src)
	rec.SrcIntact = aEqual(after, a)
	if rec.SrcIntact && rec.SrcG != "" {
		rec.SrcIntact = gvalOf(t, r.gt, src) == rec.SrcG
	}
	if !rec.SrcIntact {
		rec.SrcAfterCoq = after.canon().coq()
	}
	{
		var enc2 []byte
		var eerr2 error
		if p, _ := safely(func() { enc2, eerr2 = codec.Encode(src.Interface(), ver) }); p {
			rec.Enc2Hex = "panic"
		} else {
			rec.Enc2Same = (eerr == nil) == (eerr2 == nil) && (enc == nil) == (enc2 == nil) && len(enc) == len(enc2) && (rec.Unordered || bytes.Equal(enc, enc2))
			if !rec.Enc2Same && len(enc2) <= 3000 {
				rec.Enc2Hex = hex.EncodeToString(enc2)
				if eerr2 != nil {
					rec.Enc2Hex = "error: " + eerr2.Error()
				}
			}
		}
	}
	switch {
	case eerr != nil:
		rec.EncClass, rec.Err = "err", eerr.Error()
		return rec
	case enc == nil:
		rec.EncClass = "null"
	default:
		rec.EncClass = "ok"
		rec.EncHex = hex.EncodeToString(enc)
	}
	// untyped destination
	var dest interface{}
	var wasNull bool
	var derr error
	if p, msg := safely(func() { wasNull, derr = codec.Decode(enc, &dest, ver) }); p {
		rec.DecClass, rec.Err = "panic", msg
	} else if derr != nil {
		rec.DecClass, rec.Err = "err", derr.Error()
	} else {
		rec.DecClass = "ok"
		rec.DecNull = wasNull
		d := abs(t, reflect.ValueOf(&dest).Elem())
		if rec.SrcGty != "" {
			if rec.DecG = gvalOf(t, tIface, reflect.ValueOf(&dest).Elem()); !inUniverse(rec.DecG) {
				rec.DecG = ""
			}
		}
		rec.DecCoq = d.canon().coq()
		rec.RtEqual = aEqual(d, a) && (wasNull == (a.kind == "null" || enc == nil))
		rec.RtEqualSrc = aEqual(d, after)
		if dest != nil {
			rec.DecType = reflect.TypeOf(dest).String()
			rec.PrefDiffer = prefDiffers(t, reflect.ValueOf(dest), t.dt.AsCql())
		}
	}
	// same representation
	dt := r.gt
	if dt.Kind() == reflect.Ptr && dt != tBigPtr {
		dt = dt.Elem()
	}
	var dptr reflect.Value
	if dt == tBigPtr {
		dptr = reflect.New(tBig) // a *big.Int destination
	} else {
		dptr = reflect.New(dt)
	}
	if p, msg := safely(func() { wasNull, derr = codec.Decode(enc, dptr.Interface(), ver) }); p {
		rec.SameClass, rec.Err = "panic", msg
	} else if derr != nil {
		rec.SameClass, rec.Err = "err", derr.Error()
	} else {
		rec.SameClass = "ok"
		rec.SameNull = wasNull
		d := abs(t, dptr.Elem())
		if gty, ok := gtyOf(t, dptr.Elem().Type()); ok && rec.SrcGty != "" {
			if rec.DestGty, rec.SameG = gty, gvalOf(t, dptr.Elem().Type(), dptr.Elem()); !inUniverse(rec.SameG) {
				rec.DestGty, rec.SameG = "", ""
			}
		}
		if wasNull {
			// the destination holds the zero value; what the caller learns is wasNull
			d = aNull
		}
		rec.SameCoq = d.canon().coq()
		rec.SameEqual = aEqual(d, a) || (enc == nil && wasNull)
	}
	if t.kind != "scalar" && len(enc) <= 3000 {
		altTurn++
		adt := styleType(t, a, 1+altTurn%nStyles)
		res := decodeInto(t, codec, enc, ver, adt)
		rec.AltDest, rec.AltGty, rec.AltClass, rec.AltNull, rec.AltG, rec.AltErr = "*"+adt.String(), res.Gty, res.Class, res.WasNull, res.G, res.Err
	}
	return rec
}

func (g *gen) value(t *ctype, allowNull bool) *aval {
	if allowNull && g.pick(7) == 0 {
		return aNull
	}
	switch t.kind {
	case "scalar":
		return g.scalarValue(t.scalar)
	case "list", "set":
		n := g.pick(4)
		r := &aval{kind: "list", elems: []*aval{}}
		for i := 0; i < n; i++ {
			r.elems = append(r.elems, g.value(t.elem, true))
		}
		return r
	case "map":
		n := g.pick(4)
		r := &aval{kind: "map"}
		seen := map[string]bool{}
		ident := g.pick(3) == 0
		for i := 0; i < n; i++ {
			var k *aval
			if ident && (t.key.scalar == "SVarchar" || t.key.scalar == "SAscii") {
				// identifier keys (a struct can stand for the map): lower case, mixed case ("uK3"), upper case ("UK3")
				l1, l2, d := string(rune('a'+g.pick(26))), string(rune('a'+g.pick(26))), strconv.Itoa(g.pick(10))
				switch g.pick(3) {
				case 0:
					k = aBytes([]byte(l1 + d))
				case 1:
					k = aBytes([]byte(l1 + strings.ToUpper(l2) + d))
				default:
					k = aBytes([]byte(strings.ToUpper(l1+l2) + d))
				}
			} else {
				k = g.value(t.key, g.pick(4) == 0)
			}
			if seen[k.canon().coq()] || isNaNKey(t.key, k) {
				continue // a NaN can not be looked up in a Go map: covered by the directed case "nan-key" instead
			}
			seen[k.canon().coq()] = true
			r.pairs = append(r.pairs, [2]*aval{k, g.value(t.val, true)})
		}
		return r
	case "tuple", "udt":
		r := &aval{kind: t.kind, elems: []*aval{}}
		for _, f := range t.fields {
			r.elems = append(r.elems, g.value(f, true))
		}
		return r
	}
	panic("value")
}

func isNaNKey(t *ctype, k *aval) bool {
	if k.kind != "float" {
		return false
	}
	b := k.z.Uint64()
	if t.scalar == "SFloat" {
		return b&0x7f800000 == 0x7f800000 && b&0x007fffff != 0
	}
	return b&0x7ff0000000000000 == 0x7ff0000000000000 && b&0x000fffffffffffff != 0
}

func cmdGen(n int) {
	g := &gen{r: rand.New(rand.NewSource(hlib.Seed()))}
	for i := 0; i < n; i++ {
		depth := 1 + g.pick(4)
		t := g.typeTree(depth)
		a := g.value(t, i%11 == 0)
		ver := versions[g.pick(len(versions))]
		if g.pick(3) == 0 {
			ver = primitive.ProtocolVersion2
		}
		r := g.plan(t, []*aval{a}, false, g.pick(4) == 0)
		hlib.Emit(runCase(fmt.Sprintf("g%d", i), t, r, a, ver))
	}
}

func main() {
	defer hlib.Flush()
	if len(os.Args) < 2 {
		fmt.Fprintln(os.Stderr, "usage: cql gen|directed|null|malformed ...")
		os.Exit(2)
	}
	argN := func(def int) int {
		if len(os.Args) > 2 {
			if v, err := strconv.Atoi(os.Args[2]); err == nil {
				return v
			}
		}
		return def
	}
	switch os.Args[1] {
	case "gen":
		cmdGen(argN(300))
	case "directed":
		cmdDirected(len(os.Args) > 2 && os.Args[2] == "quick")
	case "null":
		cmdNull()
	case "reuse":
		cmdReuse(argN(200))
	case "malformed":
		cmdMalformed(argN(400))
	default:
		fmt.Fprintln(os.Stderr, "unknown subcommand")
		os.Exit(2)
	}
}
