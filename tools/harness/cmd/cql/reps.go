package main

import (
	"encoding/hex"
	"fmt"
	"math"
	"math/big"
	"net"
	"reflect"
	"regexp"
	"sort"
	"strings"
	"time"
	"unicode/utf8"

	"github.com/datastax/go-cassandra-native-protocol/datacodec"
	"github.com/datastax/go-cassandra-native-protocol/primitive"
)

// rep is a plan: which accepted Go representation (doc.go table) is used at each position of a type tree.
type rep struct {
	t      *ctype
	kind   string // scalar:<name> | slice | array | ifaceslice | map | structmap | tupslice | tuparray | tupstruct | udtmap | udtstruct | udtslice | ptr
	gt     reflect.Type
	s      *srep
	elem   *rep
	key    *rep
	val    *rep
	fields []*rep
	inner  *rep // ptr
	n      int
	fnames []string // struct field names
	fidx   []int    // struct kinds: the struct field holding CQL field / entry i (nil: field i)
}

func (r *rep) fieldIndex(i int) int {
	if r.fidx != nil {
		return r.fidx[i]
	}
	return i
}

func capitalise(s string) string { return strings.ToUpper(s[:1]) + s[1:] }

// structLayout declares the struct type that stands for the CQL names (UDT field names / keys of a map<text,...>) with the given field types.
//
//	mode 0  every field either untagged with the capitalised CQL name, or named F<i> with a `cassandra` tag
//	mode 1  every field tagged, and the Go NAME of each field is the (capitalised) CQL name of ANOTHER field: the tag must win over the name,
//	        wherever the fields are declared
//	mode 2  fields declared in reverse order; extra: after an additional untagged field that stands for no CQL name; dup adds, last, a second
//	        field carrying the tag of CQL name 0 (shadowed by the first one: never read, never written). A struct used as a CQL MAP has
//	        one entry per field, so neither applies there.
//
// Returns the type and, per CQL name, the index of the struct field that stands for it (documented rule: a tagged field matches by its tag
// only, an untagged one by its name, case-insensitively).
func (g *gen) structLayout(names []string, fts []reflect.Type, mode int, extra, dup, mapKeys bool) (reflect.Type, []int, []string) {
	// a struct used as a CQL MAP writes the key of an untagged field as its lower-cased Go name: only a tag can stand for a key with upper-case letters
	untaggedOK := func(i int) bool { return !mapKeys || names[i] == strings.ToLower(names[i]) }
	n := len(names)
	var sf []reflect.StructField
	fidx := make([]int, n)
	tagOf := func(name string) reflect.StructTag { return reflect.StructTag(`cassandra:"` + name + `"`) }
	switch mode {
	case 1:
		for i := 0; i < n; i++ {
			fidx[i] = i
			sf = append(sf, reflect.StructField{Name: capitalise(names[(i+1)%n]), Type: fts[i], Tag: tagOf(names[i])})
		}
	case 2:
		if extra {
			sf = append(sf, reflect.StructField{Name: "Zz_9", Type: reflect.TypeOf(int32(0))})
		}
		for i := n - 1; i >= 0; i-- {
			fidx[i] = len(sf)
			f := reflect.StructField{Type: fts[i], Name: fmt.Sprintf("Fld_%d", i), Tag: tagOf(names[i])}
			if g.pick(2) == 0 && untaggedOK(i) {
				f = reflect.StructField{Type: fts[i], Name: capitalise(names[i])}
			}
			sf = append(sf, f)
		}
		if dup && n > 0 {
			sf = append(sf, reflect.StructField{Name: "Dup_0", Type: fts[0], Tag: tagOf(names[0])})
			if sf[fidx[0]].Tag == "" { // the first one must carry the tag too, otherwise the later tagged field is the one that matches
				sf[fidx[0]] = reflect.StructField{Type: fts[0], Name: "Fld_0", Tag: tagOf(names[0])}
			}
		}
	default:
		for i := 0; i < n; i++ {
			fidx[i] = i
			f := reflect.StructField{Type: fts[i], Name: fmt.Sprintf("Fld_%d", i), Tag: tagOf(names[i])}
			if g.pick(2) == 0 && untaggedOK(i) {
				f = reflect.StructField{Type: fts[i], Name: capitalise(names[i])}
			}
			sf = append(sf, f)
		}
	}
	fn := make([]string, len(sf))
	for i, f := range sf {
		fn[i] = f.Name
	}
	return reflect.StructOf(sf), fidx, fn
}

func (r *rep) nillable() bool {
	switch r.gt.Kind() {
	case reflect.Ptr, reflect.Slice, reflect.Map, reflect.Interface:
		return true
	}
	return false
}

func (r *rep) String() string {
	switch {
	case r.kind == "ptr":
		return "*" + r.inner.String()
	case r.s != nil:
		return r.s.name
	case r.kind == "slice":
		return "[]" + r.elem.String()
	case r.kind == "array":
		return fmt.Sprintf("[%d]%s", r.n, r.elem.String())
	case r.kind == "ifaceslice":
		return "[]interface{}{" + r.elem.String() + "}"
	case r.kind == "map":
		return "map[" + r.key.String() + "]" + r.val.String()
	case r.kind == "structmap" || r.kind == "udtstruct" || r.kind == "tupstruct":
		return r.kind + " " + r.gt.String() // field names, types and tags
	default:
		fs := make([]string, len(r.fields))
		for i, f := range r.fields {
			fs[i] = f.String()
		}
		return r.kind + "{" + strings.Join(fs, ",") + "}"
	}
}

var (
	tIface       = reflect.TypeOf((*interface{})(nil)).Elem()
	tBigPtr      = reflect.TypeOf((*big.Int)(nil))
	tBig         = reflect.TypeOf(big.Int{})
	tBigFloatPtr = reflect.TypeOf((*big.Float)(nil))
	tBigFloat    = reflect.TypeOf(big.Float{})
	tFloat32     = reflect.TypeOf(float32(0))
	tFloat64     = reflect.TypeOf(float64(0))
	tTime        = reflect.TypeOf(time.Time{})
	tDur         = reflect.TypeOf(time.Duration(0))
	tIP          = reflect.TypeOf(net.IP{})
	tUUID        = reflect.TypeOf(primitive.UUID{})
	tDecimal     = reflect.TypeOf(datacodec.CqlDecimal{})
	tCqlDur      = reflect.TypeOf(datacodec.CqlDuration{})
	tBytes       = reflect.TypeOf([]byte{})
	tRunes       = reflect.TypeOf([]rune{})
	tString      = reflect.TypeOf("")
	tArr16       = reflect.TypeOf([16]byte{})
)

// isBigPtr: *big.Int and *big.Float are accepted as they are (the pointer is the representation; a pointer to them is not accepted)
func isBigPtr(t reflect.Type) bool { return t == tBigPtr || t == tBigFloatPtr }

// srep: one accepted Go type for a scalar CQL type
type srep struct {
	name string
	gt   reflect.Type
	ok   func(a *aval) bool
	mk   func(a *aval) interface{}
}

var intRepBits = map[string]struct {
	bits   uint
	signed bool
}{"int64": {64, true}, "int": {64, true}, "int32": {32, true}, "int16": {16, true}, "int8": {8, true},
	"uint64": {64, false}, "uint": {64, false}, "uint32": {32, false}, "uint16": {16, false}, "uint8": {8, false}}

// repEdge: the integer value a sits at a boundary of the Go integer type of THIS representation (its min / max and, for an unsigned
// type, the sign-reinterpretation boundary 2^(bits-1)): such (value, representation) pairs are never thinned out by the quick tier
// (the thorough tier runs every value in every representation anyway).
func repEdge(sr *srep, a *aval) bool {
	ib, ok := intRepBits[sr.name]
	if !ok || a.kind != "int" {
		return false
	}
	lo, hi := irange(ib.bits)
	if !ib.signed {
		lo, hi = big.NewInt(0), new(big.Int).Sub(pow2(ib.bits), big.NewInt(1))
	}
	edges := []*big.Int{lo, hi}
	if !ib.signed {
		edges = append(edges, pow2(ib.bits-1))
	}
	for _, e := range edges {
		if e.Cmp(a.z) == 0 {
			return true
		}
	}
	return false
}

func fitsBits(z *big.Int, bits uint, signed bool) bool {
	if signed {
		lo, hi := irange(bits)
		return z.Cmp(lo) >= 0 && z.Cmp(hi) <= 0
	}
	return z.Sign() >= 0 && z.Cmp(pow2(bits)) < 0
}

func intReps(get func(a *aval) *big.Int) []*srep {
	mkS := func(name string, gt reflect.Type, bits uint, signed bool) *srep {
		return &srep{name, gt, func(a *aval) bool { return fitsBits(get(a), bits, signed) }, func(a *aval) interface{} {
			v := reflect.New(gt).Elem()
			if signed {
				v.SetInt(get(a).Int64())
			} else {
				v.SetUint(get(a).Uint64())
			}
			return v.Interface()
		}}
	}
	return []*srep{
		mkS("int64", reflect.TypeOf(int64(0)), 64, true), mkS("int", reflect.TypeOf(int(0)), 64, true), mkS("int32", reflect.TypeOf(int32(0)), 32, true),
		mkS("int16", reflect.TypeOf(int16(0)), 16, true), mkS("int8", reflect.TypeOf(int8(0)), 8, true),
		mkS("uint64", reflect.TypeOf(uint64(0)), 64, false), mkS("uint", reflect.TypeOf(uint(0)), 64, false), mkS("uint32", reflect.TypeOf(uint32(0)), 32, false),
		mkS("uint16", reflect.TypeOf(uint16(0)), 16, false), mkS("uint8", reflect.TypeOf(uint8(0)), 8, false),
	}
}

func zOf(a *aval) *big.Int { return a.z }

var always = func(a *aval) bool { return true }

var dateLo, dateHi = time.Date(1, 1, 1, 0, 0, 0, 0, time.UTC).Unix() / 86400, time.Date(9999, 12, 31, 0, 0, 0, 0, time.UTC).Unix() / 86400

func scalarReps(s string) []*srep {
	bigRep := &srep{"*big.Int", tBigPtr, always, func(a *aval) interface{} { return new(big.Int).Set(a.z) }}
	strNum := &srep{"string(base10)", tString, always, func(a *aval) interface{} { return a.z.String() }}
	switch s {
	case "SBigint", "SCounter", "SInt", "SSmallint", "STinyint":
		// preferred first
		pref := map[string]int{"SBigint": 0, "SCounter": 0, "SInt": 2, "SSmallint": 3, "STinyint": 4}[s]
		rs := intReps(zOf)
		rs[0], rs[pref] = rs[pref], rs[0]
		if s == "SBigint" || s == "SCounter" {
			rs = append(rs, bigRep)
		}
		return append(rs, strNum)
	case "SVarint":
		return append([]*srep{bigRep, strNum}, intReps(zOf)...)
	case "SBoolean":
		rs := []*srep{{"bool", reflect.TypeOf(false), always, func(a *aval) interface{} { return a.b }}}
		for _, ir := range intReps(func(a *aval) *big.Int {
			if a.b {
				return big.NewInt(1)
			}
			return big.NewInt(0)
		}) {
			rs = append(rs, ir)
		}
		return rs
	case "SFloat":
		f32 := func(a *aval) float32 { return math.Float32frombits(uint32(a.z.Uint64())) }
		return []*srep{
			{"float32", tFloat32, always, func(a *aval) interface{} { return f32(a) }},
			// float64 holding the same number (every float32 widens exactly; a signalling NaN would be quietened by the conversion and is left to float32)
			{"float64", tFloat64, func(a *aval) bool { return uint64(math.Float32bits(float32(float64(f32(a))))) == a.z.Uint64() },
				func(a *aval) interface{} { return float64(f32(a)) }},
		}
	case "SDouble":
		f64 := func(a *aval) float64 { return math.Float64frombits(a.z.Uint64()) }
		return []*srep{
			{"float64", tFloat64, always, func(a *aval) interface{} { return f64(a) }},
			// float32 when the double is a float32 number: exact values, +-0, +-Inf and every NaN whose payload survives the narrowing
			{"float32", tFloat32, func(a *aval) bool { return math.Float64bits(float64(float32(f64(a)))) == a.z.Uint64() },
				func(a *aval) interface{} { return float32(f64(a)) }},
			// *big.Float (precision 53) holds every double except NaN
			{"*big.Float", tBigFloatPtr, func(a *aval) bool { return !math.IsNaN(f64(a)) }, func(a *aval) interface{} { return new(big.Float).SetFloat64(f64(a)) }},
		}
	case "SDate":
		dateUTC := func(a *aval) time.Time { return time.Unix(a.z.Int64()*86400, 0).UTC() }
		rs := []*srep{
			{"time.Time", tTime, always, func(a *aval) interface{} { return dateUTC(a) }},
			{"string(layout)", tString, func(a *aval) bool { return a.z.Int64() >= dateLo && a.z.Int64() <= dateHi },
				func(a *aval) interface{} { return dateUTC(a).Format("2006-01-02") }},
		}
		rs = append(rs, inZones(always, dateUTC)...)
		// the instant need not be midnight UTC: the last nanosecond of the UTC day, seen from a zone where it is already the next day
		rs = append(rs, &srep{"time.Time(23:59:59.999999999Z at +14:00)", tTime, always, func(a *aval) interface{} {
			return dateUTC(a).Add(24*time.Hour - 1).In(zones[2])
		}})
		return append(rs, intReps(zOf)...)
	case "STime":
		inRange := func(a *aval) bool { return a.z.Sign() >= 0 && a.z.Cmp(big.NewInt(86399999999999)) <= 0 }
		timeUTC := func(a *aval) time.Time {
			return time.Date(0, 1, 1, 0, 0, 0, 0, time.UTC).Add(time.Duration(a.z.Int64()))
		}
		rs := []*srep{
			{"time.Duration", tDur, inRange, func(a *aval) interface{} { return time.Duration(a.z.Int64()) }},
			{"time.Time", tTime, inRange, func(a *aval) interface{} { return timeUTC(a) }},
			{"string(layout)", tString, inRange, func(a *aval) interface{} { return timeUTC(a).Format("15:04:05.999999999") }},
		}
		rs = append(rs, inZones(inRange, timeUTC)...)
		// the date part is irrelevant: a present-day instant in a western zone
		rs = append(rs, &srep{"time.Time(2024 at -08:00)", tTime, inRange, func(a *aval) interface{} {
			return time.Date(2024, 2, 29, 0, 0, 0, 0, time.UTC).Add(time.Duration(a.z.Int64())).In(zones[1])
		}})
		return append(rs, intReps(zOf)...)
	case "STimestamp":
		tsUTC := func(a *aval) time.Time {
			ms := a.z.Int64()
			sec := ms / 1000
			rem := ms % 1000
			if rem < 0 {
				rem += 1000
				sec--
			}
			return time.Unix(sec, rem*1000000).UTC()
		}
		inLayout := func(a *aval) bool { return a.z.IsInt64() && a.z.Int64() >= tsLo && a.z.Int64() <= tsHi }
		rs := []*srep{{"time.Time", tTime, always, func(a *aval) interface{} { return tsUTC(a) }}}
		rs = append(rs, inZones(always, tsUTC)...)
		// strings in the codec's default layout, which carries an explicit zone offset
		rs = append(rs, &srep{"string(layout,Z)", tString, inLayout, func(a *aval) interface{} { return tsUTC(a).Format(tsLayout) }})
		for _, z := range zones[:3] {
			z := z
			rs = append(rs, &srep{"string(layout," + z.String() + ")", tString, inLayout, func(a *aval) interface{} { return tsUTC(a).In(z).Format(tsLayout) }})
		}
		return append(rs, intReps(zOf)...)
	case "SDecimal":
		return []*srep{{"CqlDecimal", tDecimal, always, func(a *aval) interface{} {
			return datacodec.CqlDecimal{Unscaled: new(big.Int).Set(a.z2), Scale: int32(a.z.Int64())}
		}}}
	case "SDuration":
		return []*srep{{"CqlDuration", tCqlDur, always, func(a *aval) interface{} {
			return datacodec.CqlDuration{Months: int32(a.z.Int64()), Days: int32(a.z2.Int64()), Nanos: time.Duration(a.z3.Int64())}
		}}}
	case "SAscii", "SVarchar":
		return []*srep{
			{"string", tString, always, func(a *aval) interface{} { return string(a.bs) }},
			{"[]byte", tBytes, always, func(a *aval) interface{} { return append([]byte{}, a.bs...) }},
			{"[]rune", tRunes, func(a *aval) bool { return utf8.Valid(a.bs) }, func(a *aval) interface{} {
				r := []rune(string(a.bs))
				if r == nil {
					r = []rune{}
				}
				return r
			}},
		}
	case "SBlob", "SCustom":
		return []*srep{
			{"[]byte", tBytes, always, func(a *aval) interface{} { return append([]byte{}, a.bs...) }},
			{"string", tString, always, func(a *aval) interface{} { return string(a.bs) }},
		}
	case "SUuid", "STimeuuid":
		return []*srep{
			{"primitive.UUID", tUUID, always, func(a *aval) interface{} { var u primitive.UUID; copy(u[:], a.bs); return u }},
			{"[16]byte", tArr16, always, func(a *aval) interface{} { var u [16]byte; copy(u[:], a.bs); return u }},
			{"[]byte", tBytes, always, func(a *aval) interface{} { return append([]byte{}, a.bs...) }},
			{"string(hex)", tString, always, func(a *aval) interface{} { var u primitive.UUID; copy(u[:], a.bs); return u.String() }},
			{"string(HEX)", tString, always, func(a *aval) interface{} { var u primitive.UUID; copy(u[:], a.bs); return strings.ToUpper(u.String()) }},
			{"string(hEx mixed case)", tString, always, func(a *aval) interface{} {
				var u primitive.UUID
				copy(u[:], a.bs)
				b := []byte(u.String())
				for i := range b {
					if i%2 == 0 && b[i] >= 'a' && b[i] <= 'f' {
						b[i] -= 'a' - 'A'
					}
				}
				return string(b)
			}},
			{"string(hex, no hyphens)", tString, always, func(a *aval) interface{} { return fmt.Sprintf("%x", a.bs) }},
		}
	case "SInet":
		return []*srep{
			{"net.IP", tIP, always, func(a *aval) interface{} { return net.IP(append([]byte{}, a.bs...)) }},
			{"net.IP(16-byte form)", tIP, always, func(a *aval) interface{} { return net.IP(append([]byte{}, a.bs...)).To16() }},
			{"[]byte", tBytes, always, func(a *aval) interface{} { return append([]byte{}, a.bs...) }},
			{"string(ip)", tString, always, func(a *aval) interface{} { return net.IP(a.bs).String() }},
		}
	}
	panic("scalarReps " + s)
}

// zones: the locations every time.Time representation is generated in (besides UTC): fixed offsets east and west of UTC, with half hours,
// beyond +12, and named zones when the tz database is installed (their offsets for year 0 / early dates are local mean times with seconds).
// The abstract value of a time.Time is that of the INSTANT: its UTC date, UTC nanos-of-day, epoch milliseconds - the same in every location.
var zones = func() []*time.Location {
	zs := []*time.Location{time.FixedZone("+05:30", 5*3600+1800), time.FixedZone("-08:00", -8*3600), time.FixedZone("+14:00", 14*3600)}
	for _, n := range []string{"America/New_York", "Asia/Kolkata"} {
		if l, err := time.LoadLocation(n); err == nil {
			zs = append(zs, l)
		}
	}
	return zs
}()

// inZones: the time.Time representation mkUTC again, once per zone: the same instant, another wall clock (and often another calendar day)
func inZones(ok func(a *aval) bool, mkUTC func(a *aval) time.Time) []*srep {
	var rs []*srep
	for _, z := range zones {
		z := z
		rs = append(rs, &srep{"time.Time(" + z.String() + ")", tTime, ok, func(a *aval) interface{} { return mkUTC(a).In(z) }})
	}
	return rs
}

const tsLayout = "2006-01-02T15:04:05.999999999-07:00" // datacodec.TimestampLayoutDefault

var tsLo, tsHi = time.Date(1, 1, 2, 0, 0, 0, 0, time.UTC).UnixMilli(), time.Date(9999, 12, 30, 0, 0, 0, 0, time.UTC).UnixMilli()

var identRe = regexp.MustCompile(`^[A-Za-z][A-Za-z0-9]{0,5}$`)

func nonNull(vals []*aval) []*aval {
	var r []*aval
	for _, v := range vals {
		if v.kind != "null" {
			r = append(r, v)
		}
	}
	return r
}

// planStructMap: a struct standing for a map<text,V> value with the given (identifier) keys, declared in the given structLayout mode
func (g *gen) planStructMap(t *ctype, ks, vs []*aval, mode int) *rep {
	r := &rep{t: t, kind: "structmap"}
	names := make([]string, len(ks))
	fts := make([]reflect.Type, len(ks))
	for i, k := range ks {
		fr := g.plan(t.val, []*aval{vs[i]}, false, false)
		r.fields = append(r.fields, fr)
		names[i], fts[i] = string(k.bs), fr.gt
	}
	r.gt, r.fidx, r.fnames = g.structLayout(names, fts, mode, false, false, true)
	return r
}

// inSourceOrder: the abstract value with the entries of every map listed in the order the SOURCE enumerates them, where the source fixes an
// order: a struct used as a CQL map is walked in declaration order (whatever order the generator listed the entries in).  Entry order is not
// part of a map value; the byte-exact comparisons (encoder vs specification serializer vs model encoder) need the value in the order
// the encoder saw.  Go maps enumerate in no fixed order: those cases are flagged `unordered` and compared up to entry order instead.
func inSourceOrder(r *rep, a *aval) *aval {
	if a.kind == "null" {
		return a
	}
	switch {
	case r.kind == "ptr":
		return inSourceOrder(r.inner, a)
	case r.s != nil:
		return a
	case r.kind == "slice" || r.kind == "array" || r.kind == "ifaceslice":
		c := &aval{kind: a.kind, elems: []*aval{}}
		for _, e := range a.elems {
			c.elems = append(c.elems, inSourceOrder(r.elem, e))
		}
		return c
	case r.kind == "map":
		c := &aval{kind: "map"}
		for _, p := range a.pairs {
			c.pairs = append(c.pairs, [2]*aval{inSourceOrder(r.key, p[0]), inSourceOrder(r.val, p[1])})
		}
		return c
	case r.kind == "structmap":
		c := &aval{kind: "map", pairs: make([][2]*aval, len(a.pairs))}
		order := make([]int, len(a.pairs)) // entries sorted by the index of the struct field that holds them
		for i := range order {
			order[i] = i
		}
		sort.SliceStable(order, func(x, y int) bool { return r.fieldIndex(order[x]) < r.fieldIndex(order[y]) })
		for pos, i := range order {
			c.pairs[pos] = [2]*aval{a.pairs[i][0], inSourceOrder(r.fields[i], a.pairs[i][1])}
		}
		return c
	default:
		c := &aval{kind: a.kind, elems: []*aval{}}
		for i, e := range a.elems {
			if i < len(r.fields) {
				e = inSourceOrder(r.fields[i], e)
			}
			c.elems = append(c.elems, e)
		}
		return c
	}
}

// holdsIface: a comparable type whose values may still be unhashable (an interface inside an array / struct can hold a slice)
func holdsIface(t reflect.Type) bool {
	switch t.Kind() {
	case reflect.Interface:
		return true
	case reflect.Array:
		return holdsIface(t.Elem())
	case reflect.Struct:
		for i := 0; i < t.NumField(); i++ {
			if holdsIface(t.Field(i).Type) {
				return true
			}
		}
	}
	return false
}

func ptrTo(r *rep) *rep { return &rep{t: r.t, kind: "ptr", gt: reflect.PtrTo(r.gt), inner: r} }

// plan chooses a representation able to hold every value of vals (all of CQL type t).
// preferred: use the first (preferred) representation everywhere.
func (g *gen) plan(t *ctype, vals []*aval, needComparable bool, preferred bool) *rep {
	nn := nonNull(vals)
	hasNull := len(nn) < len(vals)
	var r *rep
	switch t.kind {
	case "scalar":
		var cands []*srep
		for _, c := range scalarReps(t.scalar) {
			ok := true
			for _, v := range nn {
				if !c.ok(v) {
					ok = false
					break
				}
			}
			if ok {
				cands = append(cands, c)
			}
		}
		c := cands[0]
		if !preferred && g.pick(2) == 0 {
			c = cands[g.pick(len(cands))]
		}
		r = &rep{t: t, kind: "scalar:" + c.name, gt: c.gt, s: c}
	case "list", "set":
		var children []*aval
		sameLen := true
		for _, v := range nn {
			children = append(children, v.elems...)
			if len(v.elems) != len(nn[0].elems) {
				sameLen = false
			}
		}
		choice := 0
		if !preferred {
			choice = g.pick(4)
		}
		switch {
		case choice == 1 && sameLen && len(nn) > 0 && len(nn[0].elems) <= 4:
			e := g.plan(t.elem, children, false, preferred)
			r = &rep{t: t, kind: "array", elem: e, n: len(nn[0].elems), gt: reflect.ArrayOf(len(nn[0].elems), e.gt)}
		case choice == 2:
			e := g.plan(t.elem, nonNull(children), false, preferred)
			r = &rep{t: t, kind: "ifaceslice", elem: e, gt: reflect.SliceOf(tIface)}
		default:
			e := g.plan(t.elem, children, false, preferred)
			r = &rep{t: t, kind: "slice", elem: e, gt: reflect.SliceOf(e.gt)}
		}
	case "map":
		var ks, vs []*aval
		for _, v := range nn {
			for _, p := range v.pairs {
				ks = append(ks, p[0])
				vs = append(vs, p[1])
			}
		}
		// struct-as-map: one value, identifier keys
		if !preferred && len(vals) == 1 && len(nn) == 1 && (t.key.scalar == "SVarchar" || t.key.scalar == "SAscii") && len(ks) > 0 && len(ks) <= 4 && g.pick(2) == 0 {
			okKeys := true
			seen := map[string]bool{}
			for _, k := range ks {
				if k.kind != "bytes" || !identRe.Match(k.bs) || seen[strings.ToLower(string(k.bs))] {
					okKeys = false
				}
				if k.kind == "bytes" {
					seen[strings.ToLower(string(k.bs))] = true // Go field names derived from the keys must differ, also case-insensitively
				}
			}
			if okKeys {
				r = g.planStructMap(t, ks, vs, g.pick(3))
				break
			}
		}
		k := g.plan(t.key, ks, true, preferred)
		v := g.plan(t.val, vs, false, preferred)
		r = &rep{t: t, kind: "map", key: k, val: v, gt: reflect.MapOf(k.gt, v.gt)}
	case "tuple", "udt":
		n := len(t.fields)
		cols := make([][]*aval, n)
		for _, v := range nn {
			for i := 0; i < n; i++ {
				cols[i] = append(cols[i], v.elems[i])
			}
		}
		choice := 0
		if !preferred {
			choice = g.pick(4)
		}
		pre := map[string]string{"tuple": "tup", "udt": "udt"}[t.kind]
		switch {
		case choice == 1: // struct
			r = &rep{t: t, kind: pre + "struct"}
			fts := make([]reflect.Type, n)
			for i := 0; i < n; i++ {
				fr := g.plan(t.fields[i], cols[i], false, false)
				r.fields = append(r.fields, fr)
				fts[i] = fr.gt
			}
			if t.kind == "udt" {
				r.gt, r.fidx, r.fnames = g.structLayout(t.names, fts, g.pick(3), true, g.pick(2) == 0, false)
			} else {
				r.gt = structOf(fts, nil) // tuples: fields by position
			}
		case choice == 2 && t.kind == "tuple": // [n]interface{}
			r = &rep{t: t, kind: "tuparray", n: n, gt: reflect.ArrayOf(n, tIface)}
			for i := 0; i < n; i++ {
				r.fields = append(r.fields, g.plan(t.fields[i], nonNull(cols[i]), false, false))
			}
		case (choice == 2 || choice == 3) && t.kind == "udt": // []interface{}
			r = &rep{t: t, kind: "udtslice", gt: reflect.SliceOf(tIface)}
			for i := 0; i < n; i++ {
				r.fields = append(r.fields, g.plan(t.fields[i], nonNull(cols[i]), false, false))
			}
		default:
			if t.kind == "tuple" {
				r = &rep{t: t, kind: "tupslice", gt: reflect.SliceOf(tIface)}
			} else {
				r = &rep{t: t, kind: "udtmap", gt: reflect.MapOf(tString, tIface)}
			}
			for i := 0; i < n; i++ {
				r.fields = append(r.fields, g.plan(t.fields[i], nonNull(cols[i]), false, preferred))
			}
		}
	}
	if !isBigPtr(r.gt) && ((hasNull && !r.nillable()) || (needComparable && (!r.gt.Comparable() || holdsIface(r.gt))) || (!preferred && g.pick(5) == 0)) {
		r = ptrTo(r)
	}
	return r
}

// mk builds the Go value of representation r for abstract value a (a Value of type r.gt)
func (r *rep) mk(a *aval) reflect.Value {
	if a.kind == "null" {
		return reflect.Zero(r.gt)
	}
	set := func(slot reflect.Value, fr *rep, e *aval) {
		if slot.Kind() == reflect.Interface && fr.gt.Kind() != reflect.Interface {
			if e.kind != "null" {
				slot.Set(fr.mk(e))
			}
		} else {
			slot.Set(fr.mk(e))
		}
	}
	switch {
	case r.kind == "ptr":
		p := reflect.New(r.inner.gt)
		p.Elem().Set(r.inner.mk(a))
		return p
	case r.s != nil:
		v := reflect.ValueOf(r.s.mk(a))
		return v.Convert(r.gt)
	case r.kind == "slice" || r.kind == "ifaceslice":
		s := reflect.MakeSlice(r.gt, len(a.elems), len(a.elems))
		for i, e := range a.elems {
			set(s.Index(i), r.elem, e)
		}
		return s
	case r.kind == "array":
		s := reflect.New(r.gt).Elem()
		for i, e := range a.elems {
			set(s.Index(i), r.elem, e)
		}
		return s
	case r.kind == "map":
		m := reflect.MakeMapWithSize(r.gt, len(a.pairs))
		for _, p := range a.pairs {
			m.SetMapIndex(r.key.mk(p[0]), r.val.mk(p[1]))
		}
		return m
	case r.kind == "structmap":
		s := reflect.New(r.gt).Elem()
		for i, p := range a.pairs {
			s.Field(r.fieldIndex(i)).Set(r.fields[i].mk(p[1]))
		}
		return s
	case r.kind == "tupstruct" || r.kind == "udtstruct":
		s := reflect.New(r.gt).Elem()
		for i, e := range a.elems {
			s.Field(r.fieldIndex(i)).Set(r.fields[i].mk(e))
		}
		return s
	case r.kind == "tupslice" || r.kind == "udtslice":
		s := reflect.MakeSlice(r.gt, len(a.elems), len(a.elems))
		for i, e := range a.elems {
			set(s.Index(i), r.fields[i], e)
		}
		return s
	case r.kind == "tuparray":
		s := reflect.New(r.gt).Elem()
		for i, e := range a.elems {
			set(s.Index(i), r.fields[i], e)
		}
		return s
	case r.kind == "udtmap":
		m := reflect.MakeMapWithSize(r.gt, len(a.elems))
		for i, e := range a.elems {
			slot := reflect.New(tIface).Elem()
			set(slot, r.fields[i], e)
			m.SetMapIndex(reflect.ValueOf(r.t.names[i]), slot)
		}
		return m
	}
	panic("mk " + r.kind)
}

// ---------------------------------------------------------------------------------------------- abstraction

// docField: the struct field that stands for the CQL name, by the DOCUMENTED rule (doc.go, reflection.go): "if the struct field has a
// cassandra tag, then the tag must match the name exactly; otherwise the name must match the struct field name, case insensitively".
// A tagged field is never found under its Go name; a tag match is exact and wins wherever it is declared. -1: no such field.
func docField(st reflect.Type, name string) int {
	for j := 0; j < st.NumField(); j++ {
		if tag := st.Field(j).Tag.Get("cassandra"); tag != "" && tag == name {
			return j
		}
	}
	for j := 0; j < st.NumField(); j++ {
		if st.Field(j).Tag.Get("cassandra") == "" && strings.EqualFold(st.Field(j).Name, name) {
			return j
		}
	}
	return -1
}

func bigOfKind(v reflect.Value) (*big.Int, bool) {
	switch v.Kind() {
	case reflect.Int, reflect.Int8, reflect.Int16, reflect.Int32, reflect.Int64:
		return big.NewInt(v.Int()), true
	case reflect.Uint, reflect.Uint8, reflect.Uint16, reflect.Uint32, reflect.Uint64:
		return new(big.Int).SetUint64(v.Uint()), true
	}
	return nil, false
}

func floorDiv(a, b int64) int64 {
	q := a / b
	if (a%b != 0) && ((a < 0) != (b < 0)) {
		q--
	}
	return q
}

// abs maps a Go value holding a CQL value of type t back to the abstract value. It follows the documented meaning of each
// accepted Go type (doc.go); it is independent of the codecs.
func abs(t *ctype, v reflect.Value) (res *aval) {
	if !v.IsValid() {
		return aNull
	}
	if v.Type() == tBigPtr {
		if v.IsNil() {
			return aNull
		}
		return aInt(v.Interface().(*big.Int))
	}
	if v.Type() == tBigFloatPtr {
		if v.IsNil() {
			return aNull
		}
		f, _ := v.Interface().(*big.Float).Float64()
		return aFloat64(math.Float64bits(f))
	}
	switch v.Kind() {
	case reflect.Ptr, reflect.Interface:
		if v.IsNil() {
			return aNull
		}
		return abs(t, v.Elem())
	case reflect.Slice, reflect.Map:
		if v.IsNil() {
			return aNull
		}
	}
	bad := func() *aval {
		return &aval{kind: "bytes", bs: []byte(fmt.Sprintf("UNABSTRACTABLE %s as %s", v.Type(), t.coq()))}
	}
	switch t.kind {
	case "scalar":
		switch t.scalar {
		case "SBigint", "SCounter", "SInt", "SSmallint", "STinyint", "SVarint":
			if z, ok := bigOfKind(v); ok {
				return aInt(z)
			}
			if v.Type() == tBig {
				b := v.Interface().(big.Int)
				return aInt(&b)
			}
			if v.Kind() == reflect.String {
				if z, ok := new(big.Int).SetString(v.String(), 10); ok {
					return aInt(z)
				}
			}
		case "SBoolean":
			if v.Kind() == reflect.Bool {
				return &aval{kind: "bool", b: v.Bool()}
			}
			if z, ok := bigOfKind(v); ok {
				return &aval{kind: "bool", b: z.Sign() != 0}
			}
		case "SFloat":
			if v.Type() == tFloat32 && v.CanInterface() {
				return aFloat32(uint64(math.Float32bits(v.Interface().(float32)))) // the exact bits (Value.Float would quieten a signalling NaN)
			}
			if v.Kind() == reflect.Float32 {
				return aFloat32(uint64(math.Float32bits(float32(v.Float()))))
			}
			if v.Kind() == reflect.Float64 { // a float64 holding a float32 number
				return aFloat32(uint64(math.Float32bits(float32(v.Float()))))
			}
		case "SDouble":
			if v.Kind() == reflect.Float64 {
				return aFloat64(math.Float64bits(v.Float()))
			}
			if v.Kind() == reflect.Float32 {
				return aFloat64(math.Float64bits(v.Float()))
			}
			if v.Type() == tBigFloat {
				b := v.Interface().(big.Float)
				f, _ := b.Float64()
				return aFloat64(math.Float64bits(f))
			}
		case "SDate":
			if v.Type() == tTime {
				return aInt64(floorDiv(v.Interface().(time.Time).Unix(), 86400))
			}
			if z, ok := bigOfKind(v); ok {
				return aInt(z)
			}
			if v.Kind() == reflect.String {
				if tm, err := time.Parse("2006-01-02", v.String()); err == nil {
					return aInt64(floorDiv(tm.Unix(), 86400))
				}
			}
		case "STime":
			if v.Type() == tDur {
				return aInt64(v.Int())
			}
			if v.Type() == tTime {
				tm := v.Interface().(time.Time).UTC()
				return aInt64(int64(tm.Nanosecond()) + int64(tm.Second())*1e9 + int64(tm.Minute())*60e9 + int64(tm.Hour())*3600e9)
			}
			if v.Kind() == reflect.String {
				if tm, err := time.Parse("15:04:05.999999999", v.String()); err == nil {
					return aInt64(int64(tm.Nanosecond()) + int64(tm.Second())*1e9 + int64(tm.Minute())*60e9 + int64(tm.Hour())*3600e9)
				}
			}
			if z, ok := bigOfKind(v); ok {
				return aInt(z)
			}
		case "STimestamp":
			if v.Type() == tTime {
				tm := v.Interface().(time.Time)
				z := new(big.Int).Mul(big.NewInt(tm.Unix()), big.NewInt(1000))
				z.Add(z, big.NewInt(int64(tm.Nanosecond()/1000000)))
				return aInt(z)
			}
			if v.Kind() == reflect.String {
				if tm, err := time.Parse(tsLayout, v.String()); err == nil {
					return aInt64(tm.UnixMilli())
				}
			}
			if z, ok := bigOfKind(v); ok {
				return aInt(z)
			}
		case "SDecimal":
			if v.Type() == tDecimal {
				d := v.Interface().(datacodec.CqlDecimal)
				u := d.Unscaled
				if u == nil {
					u = big.NewInt(0)
				}
				return &aval{kind: "decimal", z: big.NewInt(int64(d.Scale)), z2: new(big.Int).Set(u)}
			}
		case "SDuration":
			if v.Type() == tCqlDur {
				d := v.Interface().(datacodec.CqlDuration)
				return &aval{kind: "duration", z: big.NewInt(int64(d.Months)), z2: big.NewInt(int64(d.Days)), z3: big.NewInt(int64(d.Nanos))}
			}
		case "SAscii", "SVarchar", "SBlob", "SCustom":
			if v.Kind() == reflect.String {
				return aBytes([]byte(v.String()))
			}
			if v.Type() == tBytes {
				return aBytes(v.Bytes())
			}
			if v.Type() == tRunes {
				return aBytes([]byte(string(v.Interface().([]rune))))
			}
		case "SUuid", "STimeuuid":
			if v.Type() == tUUID || v.Type() == tArr16 {
				b := make([]byte, 16)
				reflect.Copy(reflect.ValueOf(b), v)
				return &aval{kind: "uuid", bs: b}
			}
			if v.Type() == tBytes {
				return &aval{kind: "uuid", bs: append([]byte{}, v.Bytes()...)}
			}
			if v.Kind() == reflect.String {
				// parsed independently of primitive.ParseUuid: 32 hex digits of either case, hyphens ignored
				if b, err := hex.DecodeString(strings.ReplaceAll(v.String(), "-", "")); err == nil && len(b) == 16 {
					return &aval{kind: "uuid", bs: b}
				}
			}
		case "SInet":
			var ip net.IP
			if v.Type() == tIP || v.Type() == tBytes {
				ip = net.IP(v.Bytes())
			} else if v.Kind() == reflect.String {
				ip = net.ParseIP(v.String())
			} else {
				return bad()
			}
			if v4 := ip.To4(); v4 != nil { // an IPv4 address is the same address in its 4- and 16-byte forms (net.IP)
				ip = v4
			}
			return &aval{kind: "inet", bs: append([]byte{}, ip...)}
		}
		return bad()
	case "list", "set":
		if v.Kind() == reflect.Slice || v.Kind() == reflect.Array {
			r := &aval{kind: "list", elems: []*aval{}}
			for i := 0; i < v.Len(); i++ {
				r.elems = append(r.elems, abs(t.elem, v.Index(i)))
			}
			return r
		}
	case "map":
		if v.Kind() == reflect.Map {
			r := &aval{kind: "map"}
			it := v.MapRange()
			for it.Next() {
				r.pairs = append(r.pairs, [2]*aval{abs(t.key, it.Key()), abs(t.val, it.Value())})
			}
			return r.canon()
		}
		if v.Kind() == reflect.Struct {
			r := &aval{kind: "map"}
			for i := 0; i < v.NumField(); i++ {
				f := v.Type().Field(i)
				name := f.Tag.Get("cassandra")
				if name == "" {
					name = strings.ToLower(f.Name)
				}
				r.pairs = append(r.pairs, [2]*aval{aBytes([]byte(name)), abs(t.val, v.Field(i))})
			}
			return r
		}
	case "tuple":
		if v.Kind() == reflect.Slice || v.Kind() == reflect.Array {
			r := &aval{kind: "tuple", elems: []*aval{}}
			for i := 0; i < v.Len() && i < len(t.fields); i++ {
				r.elems = append(r.elems, abs(t.fields[i], v.Index(i)))
			}
			return r
		}
		if v.Kind() == reflect.Struct {
			r := &aval{kind: "tuple", elems: []*aval{}}
			for i := 0; i < v.NumField() && i < len(t.fields); i++ {
				r.elems = append(r.elems, abs(t.fields[i], v.Field(i)))
			}
			return r
		}
	case "udt":
		r := &aval{kind: "udt", elems: []*aval{}}
		switch v.Kind() {
		case reflect.Slice, reflect.Array:
			for i := 0; i < v.Len() && i < len(t.fields); i++ {
				r.elems = append(r.elems, abs(t.fields[i], v.Index(i)))
			}
			return r
		case reflect.Map:
			for i, n := range t.names {
				r.elems = append(r.elems, abs(t.fields[i], v.MapIndex(reflect.ValueOf(n))))
			}
			return r
		case reflect.Struct:
			for i, n := range t.names {
				var fv reflect.Value
				if j := docField(v.Type(), n); j >= 0 {
					fv = v.Field(j)
				}
				r.elems = append(r.elems, abs(t.fields[i], fv))
			}
			return r
		}
	}
	return bad()
}
