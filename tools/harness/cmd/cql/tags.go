package main

import (
	"encoding/hex"
	"fmt"
	"math/big"
	"math/rand"
	"reflect"
	"time"

	"github.com/datastax/go-cassandra-native-protocol/datacodec"
	"github.com/datastax/go-cassandra-native-protocol/primitive"
	"verifharness/hlib"
)

// Struct representations declared in Go source (reflect.StructOf cannot declare unexported fields): the struct <-> UDT / map<text,..> field
// lookup with `cassandra` tags.  Documented rule (doc.go, reflection.go): a tagged field matches by its tag only, exactly; an untagged
// field by its name, case-insensitively.

// the audit's example: each field is tagged with the name the OTHER field's Go name folds to
type tagPerson struct {
	Name string `cassandra:"full_name"`
	Nick string `cassandra:"name"`
}

// the tag match is declared AFTER an untagged field whose name folds to the same CQL name
type tagLate struct {
	Id   int32
	Real int32 `cassandra:"id"`
}

// the empty tag is no tag; declaration order differs from the UDT's
type tagEmpty struct {
	B string `cassandra:""`
	A int32  `cassandra:""`
}

// two fields with one tag: the first stands for the CQL field, the second is never read or written
type tagDup struct {
	First  int32  `cassandra:"a"`
	Second int32  `cassandra:"a"`
	B      string `cassandra:"b"`
}

// an unexported field shadowed by a tagged exported one: the tag wins, the unexported field is never touched
type tagShadow struct {
	name  string
	Shown string `cassandra:"name"`
}

// a CQL field that resolves to an unexported field: not an accepted representation - Encode and Decode must refuse it (error, no panic)
type tagHidden struct {
	A int32 `cassandra:"a"`
	b string
}

// tags and CQL field names with upper-case letters: a tag is matched exactly, an untagged field case-insensitively
type tagMixed struct {
	UserId int32  `cassandra:"userId"`
	Zip    string `cassandra:"ZIP"`
	Plain  int32
}

type structCase struct {
	t      *ctype
	gt     reflect.Type
	fidx   []int // CQL field i -> struct field; -1: the CQL field resolves to no settable field (refusal expected)
	a      *aval
	refuse bool
}

func tagCases() []structCase {
	i32, txt := scalarT("SInt"), scalarT("SVarchar")
	u := func(names []string, fs ...*ctype) *ctype { return udtT(names, fs...) }
	v := func(es ...*aval) *aval { return &aval{kind: "udt", elems: es} }
	s := func(x string) *aval { return aBytes([]byte(x)) }
	return []structCase{
		{t: u([]string{"name", "full_name"}, txt, txt), gt: reflect.TypeOf(tagPerson{}), fidx: []int{1, 0}, a: v(s("js"), s("John Smith"))},
		{t: u([]string{"full_name", "name"}, txt, txt), gt: reflect.TypeOf(tagPerson{}), fidx: []int{0, 1}, a: v(s("John Smith"), s("js"))},
		{t: u([]string{"id"}, i32), gt: reflect.TypeOf(tagLate{}), fidx: []int{1}, a: v(vint(7))},
		{t: u([]string{"a", "b"}, i32, txt), gt: reflect.TypeOf(tagEmpty{}), fidx: []int{1, 0}, a: v(vint(5), s("x"))},
		{t: u([]string{"a", "b"}, i32, txt), gt: reflect.TypeOf(tagDup{}), fidx: []int{0, 2}, a: v(vint(5), s("x"))},
		{t: u([]string{"name"}, txt), gt: reflect.TypeOf(tagShadow{}), fidx: []int{1}, a: v(s("visible"))},
		{t: u([]string{"userId", "ZIP", "PLAIN"}, i32, txt, i32), gt: reflect.TypeOf(tagMixed{}), fidx: []int{0, 1, 2}, a: v(vint(5), s("x"), vint(6))},
		{t: u([]string{"a", "b"}, i32, txt), gt: reflect.TypeOf(tagHidden{}), fidx: []int{0, -1}, a: v(vint(5), s("x")), refuse: true},
	}
}

type probeRec struct {
	Kind    string `json:"kind"` // structprobe | probe
	Id      string `json:"id"`
	What    string `json:"what"`
	TypeCql string `json:"type_cql"`
	Dest    string `json:"dest,omitempty"`
	Hex     string `json:"hex,omitempty"`
	Class   string `json:"class"` // ok | err | panic (structprobe: of the judged call)
	Holds   bool   `json:"holds"` // structprobe: the predicate named in What holds
	Detail  string `json:"detail"`
}

// cmdTags: the declared struct cases through runCase (accepted representations: judged like every directed case), and the refusal /
// decode-only probes.
func cmdTags(next func() string) {
	g := &gen{r: rand.New(rand.NewSource(hlib.Seed() + 53))}
	for _, c := range tagCases() {
		r := &rep{t: c.t, kind: "udtstruct", gt: c.gt}
		for i, f := range c.t.fields {
			r.fields = append(r.fields, g.plan(f, []*aval{c.a.elems[i]}, false, true))
		}
		if !c.refuse {
			r.fidx = c.fidx
			for _, ver := range []primitive.ProtocolVersion{primitive.ProtocolVersion2, primitive.ProtocolVersion4} {
				rec := runCase(next(), c.t, r, c.a, ver)
				rec.Kind = "directed"
				hlib.Emit(rec)
			}
			continue
		}
		// a CQL field resolves to an unexported struct field: error in both directions, never a panic
		codec, _ := datacodec.NewCodec(c.t.dt)
		src := reflect.New(c.gt).Elem()
		var eerr, derr error
		rec := &probeRec{Kind: "structprobe", Id: next(), TypeCql: c.t.dt.AsCql(), Dest: "*" + c.gt.String(),
			What: "a CQL field that resolves to an unexported struct field is refused with an error by Encode and by Decode"}
		pe, me := safely(func() { _, eerr = codec.Encode(src.Interface(), primitive.ProtocolVersion4) })
		enc, _ := codec.Encode(r2map(c.t, c.a), primitive.ProtocolVersion4)
		rec.Hex = hex.EncodeToString(enc)
		pd, md := safely(func() { _, derr = codec.Decode(enc, reflect.New(c.gt).Interface(), primitive.ProtocolVersion4) })
		switch {
		case pe || pd:
			rec.Class, rec.Detail = "panic", me+md
		case eerr != nil && derr != nil:
			rec.Class, rec.Holds = "err", true
		default:
			rec.Class, rec.Detail = "ok", fmt.Sprintf("Encode err=%v, Decode err=%v", eerr, derr)
		}
		hlib.Emit(rec)
	}
	// the same struct as a CQL map<varchar,int>: the key of a tagged field is its tag, exactly (upper-case letters included); of an untagged
	// field its lower-cased name
	{
		type mixedMap struct {
			UserId int32 `cassandra:"userId"`
			Zip    int32 `cassandra:"ZIP"`
			Plain  int32
		}
		mt := mapT(scalarT("SVarchar"), scalarT("SInt"))
		a := &aval{kind: "map", pairs: [][2]*aval{{aBytes([]byte("userId")), vint(1)}, {aBytes([]byte("ZIP")), vint(2)}, {aBytes([]byte("plain")), vint(3)}}}
		r := &rep{t: mt, kind: "structmap", gt: reflect.TypeOf(mixedMap{}), fidx: []int{0, 1, 2}}
		for _, p := range a.pairs {
			r.fields = append(r.fields, g.plan(mt.val, []*aval{p[1]}, false, true))
		}
		for _, ver := range []primitive.ProtocolVersion{primitive.ProtocolVersion2, primitive.ProtocolVersion4} {
			rec := runCase(next(), mt, r, a, ver)
			rec.Kind = "directed"
			hlib.Emit(rec)
		}
	}
	// decode-only: a map<varchar,int> entry whose key names no struct field (here the empty key) must not be stored anywhere: error, or a
	// struct from which every wire entry can be read back under its own key
	type onlyA struct{ A int32 }
	type tagged struct {
		A int32 `cassandra:"x"`
		X int32
	}
	mt := mapT(scalarT("SVarchar"), scalarT("SInt"))
	codec, _ := datacodec.NewCodec(mt.dt)
	for _, pc := range []struct {
		dest interface{}
		m    map[string]int32
	}{
		{&onlyA{}, map[string]int32{"": 1}},
		{&onlyA{}, map[string]int32{"a": 1}},
		{&onlyA{A: 9}, map[string]int32{"b": 1}},
		{&tagged{}, map[string]int32{"x": 1}},
		{&tagged{}, map[string]int32{"a": 1}},
		{&tagged{}, map[string]int32{"x": 1, "": 2}},
	} {
		enc, _ := codec.Encode(pc.m, primitive.ProtocolVersion4)
		rec := &probeRec{Kind: "structprobe", Id: next(), TypeCql: mt.dt.AsCql(), Dest: fmt.Sprintf("%T", pc.dest), Hex: hex.EncodeToString(enc),
			What: "map<varchar,int> decoded into a struct: error, or every wire entry is held by the field that stands for its key (tag, else name)"}
		var derr error
		if p, msg := safely(func() { _, derr = codec.Decode(enc, pc.dest, primitive.ProtocolVersion4) }); p {
			rec.Class, rec.Detail = "panic", msg
		} else if derr != nil {
			rec.Class, rec.Holds, rec.Detail = "err", true, derr.Error()
		} else {
			rec.Class, rec.Holds = "ok", true
			sv := reflect.ValueOf(pc.dest).Elem()
			for k, want := range pc.m {
				j := docField(sv.Type(), k)
				if j < 0 || sv.Field(j).Int() != int64(want) {
					rec.Holds = false
				}
			}
			rec.Detail = fmt.Sprintf("wire %v -> %+v", pc.m, sv.Interface())
		}
		if len(rec.Detail) > 300 {
			rec.Detail = rec.Detail[:300]
		}
		hlib.Emit(rec)
	}
	// codecs built with a layout that carries a zone offset (NewTime / NewDate / NewTimestamp): a string with an explicit offset denotes an
	// instant; the CQL value is that of the instant in UTC
	for _, zc := range []struct {
		codec  datacodec.Codec
		typ    string
		src    string
		expect string
	}{
		{datacodec.NewTime("15:04:05.999999999-07:00"), "time", "10:15:30.123456789+05:30", "00000f946aec7115"},                               // 04:45:30.123456789Z = 17130123456789 ns
		{datacodec.NewTime("15:04:05.999999999-07:00"), "time", "20:00:00-08:00", "00000d18c2e28000"},                                         // 04:00:00Z (next day) = 14400000000000 ns
		{datacodec.NewDate("2006-01-02T15:04:05-07:00"), "date", "2021-06-01T23:30:00-08:00", "8000495c"},                                     // 2021-06-02Z = day 18780 (+2^31)
		{datacodec.NewDate("2006-01-02T15:04:05-07:00"), "date", "2021-06-01T01:00:00+05:30", "8000495a"},                                     // 2021-05-31Z = day 18778 (+2^31)
		{datacodec.NewTimestamp("2006-01-02T15:04:05.999-07:00", time.UTC), "timestamp", "2021-06-01T12:00:00.123+05:30", "00000179c643c2bb"}, // 06:30:00.123Z = 1622529000123 ms
	} {
		rec := &probeRec{Kind: "structprobe", Id: next(), TypeCql: zc.typ, Dest: "string " + zc.src,
			What: "a string with an explicit zone offset, encoded by a codec whose layout carries the offset, gives the CQL value of the instant in UTC (" + zc.expect + ")"}
		var enc []byte
		var err error
		if p, msg := safely(func() { enc, err = zc.codec.Encode(zc.src, primitive.ProtocolVersion4) }); p {
			rec.Class, rec.Detail = "panic", msg
		} else if err != nil {
			rec.Class, rec.Detail = "err", err.Error()
		} else {
			rec.Class, rec.Hex = "ok", hex.EncodeToString(enc)
			rec.Holds = rec.Hex == zc.expect
			rec.Detail = "Encode gave " + rec.Hex
		}
		hlib.Emit(rec)
	}
	probes(next)
}

// r2map: the UDT value as map[string]interface{} (to obtain well-formed bytes independently of the struct under test)
func r2map(t *ctype, a *aval) map[string]interface{} {
	m := map[string]interface{}{}
	for i, n := range t.names {
		switch a.elems[i].kind {
		case "int":
			m[n] = int32(a.elems[i].z.Int64())
		case "bytes":
			m[n] = string(a.elems[i].bs)
		}
	}
	return m
}

// probes: behaviours that are characterised, measured on every run and reported in the evidence as observations - they are outside what
// C11 / C12 / C14 state (see notes/cql.md "Audit findings judged"): each record says what was observed.
func probes(next func() string) {
	emit := func(what, typ, class, detail string) {
		hlib.Emit(&probeRec{Kind: "probe", Id: next(), What: what, TypeCql: typ, Class: class, Detail: detail})
	}
	cls := func(err error) string {
		if err != nil {
			return "err"
		}
		return "ok"
	}
	v4 := primitive.ProtocolVersion4
	// audit 5: non-NULL value into a non-empty map / a longer array: old entries / the tail stay
	{
		c, _ := datacodec.NewCodec(mapT(scalarT("SVarchar"), scalarT("SInt")).dt)
		enc, _ := c.Encode(map[string]int32{"a": 1}, v4)
		d := map[string]int32{"stale": 42}
		_, err := c.Decode(enc, &d, v4)
		emit("map destination that is not empty keeps its old entries (adjustMapSize allocates only a nil map)", "map<varchar,int>", cls(err), fmt.Sprintf("{a:1} into map[stale:42] -> %v", d))
		cl, _ := datacodec.NewCodec(listT(scalarT("SInt")).dt)
		encl, _ := cl.Encode([]int32{1}, v4)
		arr := [3]int32{7, 8, 9}
		_, err = cl.Decode(encl, &arr, v4)
		emit("array destination longer than the decoded list keeps its tail", "list<int>", cls(err), fmt.Sprintf("[1] into [3]int32{7,8,9} -> %v", arr))
	}
	// audit 6: the time codec and integers outside 0..86399999999999
	for _, x := range []interface{}{int64(-1), int64(86400000000000), int32(-5), uint64(86400000000000), time.Duration(-1), 24 * time.Hour} {
		enc, err := datacodec.Time.Encode(x, v4)
		emit("CQL time encoded from a number outside 0..86399999999999 (spec 5.17; time.go: 'will be rejected')", "time", cls(err), fmt.Sprintf("Encode(%T(%v)) -> %x", x, x, enc))
	}
	{
		var d int64
		b, _ := hex.DecodeString("00004e94914f0000")
		_, err := datacodec.Time.Decode(b, &d, v4)
		emit("CQL time bytes outside the range decoded into *int64", "time", cls(err), fmt.Sprintf("00004e94914f0000 -> %d", d))
		var dd time.Duration
		_, err = datacodec.Time.Decode(b, &dd, v4)
		emit("CQL time bytes outside the range decoded into *time.Duration", "time", cls(err), fmt.Sprintf("00004e94914f0000 -> %v", dd))
	}
	// audit 7: sub-millisecond digits of a timestamp source
	for _, x := range []interface{}{"2021-06-01T12:00:00.123456789+00:00", time.Date(2021, 6, 1, 12, 0, 0, 999999, time.UTC), time.Unix(0, -1).UTC()} {
		enc, err := datacodec.Timestamp.Encode(x, v4)
		detail := fmt.Sprintf("Encode(%v) -> %x", x, enc)
		if err == nil {
			var back time.Time
			if _, e := datacodec.Timestamp.Decode(enc, &back, v4); e == nil {
				detail += " -> " + back.UTC().Format(time.RFC3339Nano)
			}
		}
		emit("CQL timestamp (millisecond resolution) encoded from a Go value with sub-millisecond digits", "timestamp", cls(err), detail)
	}
	// []rune with an invalid code point, big.Int by value, duration of mixed signs
	{
		enc, err := datacodec.Varchar.Encode([]rune{'a', 0xD800, 0x110000}, v4)
		emit("varchar from []rune with code points that are not Unicode scalar values", "varchar", cls(err), fmt.Sprintf("[]rune{'a',0xD800,0x110000} -> %x", enc))
		_, err = datacodec.Varint.Encode(*newBig(5), v4)
		emit("varint from big.Int by value (doc.go lists it)", "varint", cls(err), fmt.Sprint(err))
		enc, err = datacodec.Duration.Encode(datacodec.CqlDuration{Months: 1, Days: -1, Nanos: 1}, v4)
		emit("duration with components of different signs (spec 5.8: all of one sign)", "duration", cls(err), fmt.Sprintf("{1,-1,1} -> %x", enc))
	}
}

func newBig(x int64) *big.Int { return big.NewInt(x) }
