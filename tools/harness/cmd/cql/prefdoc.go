package main

import (
	"fmt"
	"math/big"
	"net"
	"reflect"
	"time"

	"github.com/datastax/go-cassandra-native-protocol/datacodec"
	"github.com/datastax/go-cassandra-native-protocol/primitive"
)

// The Go type an untyped destination (*interface{}) receives, written from the table of datacodec/doc.go ("preferred types are listed
// first"; "when decoding to *interface{}, the codec will use the preferred type to decode, then store its value") and the documentation of
// PreferredGoType / the collection codecs: independent of PreferredGoType itself.
var docScalarPref = map[string]reflect.Type{
	"SBigint": reflect.TypeOf(int64(0)), "SCounter": reflect.TypeOf(int64(0)),
	"SBlob": reflect.TypeOf([]byte{}), "SCustom": reflect.TypeOf([]byte{}),
	"SBoolean":   reflect.TypeOf(false),
	"SDate":      reflect.TypeOf(time.Time{}),
	"SDecimal":   reflect.TypeOf(datacodec.CqlDecimal{}),
	"SDouble":    reflect.TypeOf(float64(0)),
	"SDuration":  reflect.TypeOf(datacodec.CqlDuration{}),
	"SFloat":     reflect.TypeOf(float32(0)),
	"SInet":      reflect.TypeOf(net.IP{}),
	"SInt":       reflect.TypeOf(int32(0)),
	"SSmallint":  reflect.TypeOf(int16(0)),
	"STime":      reflect.TypeOf(time.Duration(0)),
	"STimestamp": reflect.TypeOf(time.Time{}),
	"STinyint":   reflect.TypeOf(int8(0)),
	"SUuid":      reflect.TypeOf(primitive.UUID{}), "STimeuuid": reflect.TypeOf(primitive.UUID{}),
	"SVarchar": reflect.TypeOf(""), "SAscii": reflect.TypeOf(""),
	"SVarint": reflect.TypeOf((*big.Int)(nil)), // big.Int by value is accepted only when encoding
}

// docPref: scalars as in the table; list / set: a slice of the element's preferred type, behind a pointer unless that type can itself be nil
// (so that NULL elements can be told apart); map: likewise for keys and values, a key type that Go does not allow as a map key (slice, map)
// behind a pointer; tuple: []interface{}; user-defined type: map[string]interface{}.
func docPref(t *ctype) reflect.Type {
	nillable := func(rt reflect.Type) reflect.Type {
		switch rt.Kind() {
		case reflect.Ptr, reflect.Slice, reflect.Map, reflect.Interface:
			return rt
		}
		return reflect.PtrTo(rt)
	}
	switch t.kind {
	case "scalar":
		return docScalarPref[t.scalar]
	case "list", "set":
		return reflect.SliceOf(nillable(docPref(t.elem)))
	case "map":
		k := nillable(docPref(t.key))
		if k.Kind() == reflect.Slice || k.Kind() == reflect.Map {
			k = reflect.PtrTo(k)
		}
		return reflect.MapOf(k, nillable(docPref(t.val)))
	case "tuple":
		return reflect.TypeOf([]interface{}{})
	default:
		return reflect.TypeOf(map[string]interface{}{})
	}
}

// prefDiffers: "" when the value an untyped destination received has the documented type at every level (the values held by the
// interface{} slots of tuples and user-defined types included); otherwise the first difference.
func prefDiffers(t *ctype, v reflect.Value, path string) string {
	for v.Kind() == reflect.Interface {
		if v.IsNil() {
			return ""
		}
		v = v.Elem()
	}
	if want := docPref(t); v.Type() != want {
		return fmt.Sprintf("%s into *interface{}: got %v, documented %v", path, v.Type(), want)
	}
	deref := func(x reflect.Value) (reflect.Value, bool) {
		for x.Kind() == reflect.Ptr || x.Kind() == reflect.Interface {
			if x.IsNil() {
				return x, false
			}
			x = x.Elem()
		}
		return x, true
	}
	switch t.kind {
	case "list", "set":
		for i := 0; i < v.Len(); i++ {
			if t.elem.kind != "scalar" {
				if e, ok := deref(v.Index(i)); ok {
					if d := prefDiffers(t.elem, e, path+"[elem]"); d != "" {
						return d
					}
				}
			}
		}
	case "map":
		it := v.MapRange()
		for it.Next() {
			if e, ok := deref(it.Key()); ok && t.key.kind != "scalar" {
				if d := prefDiffers(t.key, e, path+"[key]"); d != "" {
					return d
				}
			}
			if e, ok := deref(it.Value()); ok && t.val.kind != "scalar" {
				if d := prefDiffers(t.val, e, path+"[value]"); d != "" {
					return d
				}
			}
		}
	case "tuple":
		for i := 0; i < v.Len() && i < len(t.fields); i++ {
			if e := v.Index(i); !e.IsNil() {
				if d := prefDiffers(t.fields[i], e, fmt.Sprintf("%s[%d]", path, i)); d != "" {
					return d
				}
			}
		}
	case "udt":
		for i, n := range t.names {
			if e := v.MapIndex(reflect.ValueOf(n)); e.IsValid() && !e.IsNil() {
				if d := prefDiffers(t.fields[i], e, path+"."+n); d != "" {
					return d
				}
			}
		}
	}
	return ""
}
