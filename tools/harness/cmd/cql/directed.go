package main

import (
	"crypto/sha256"
	"encoding/hex"
	"fmt"
	"math/big"
	"math/rand"
	"reflect"

	"github.com/datastax/go-cassandra-native-protocol/datacodec"
	"github.com/datastax/go-cassandra-native-protocol/primitive"
	"verifharness/hlib"
)

func bigs(xs ...string) []*big.Int {
	var r []*big.Int
	for _, x := range xs {
		z, ok := new(big.Int).SetString(x, 10)
		if !ok {
			panic(x)
		}
		r = append(r, z)
	}
	return r
}

func boundaryInts(bits uint) []*big.Int {
	lo, hi := irange(bits)
	set := map[string]*big.Int{}
	add := func(z *big.Int) {
		if z.Cmp(lo) >= 0 && z.Cmp(hi) <= 0 {
			set[z.String()] = z
		}
	}
	for _, z := range bigs("0", "1", "-1", "2", "-2") {
		add(z)
	}
	add(lo)
	add(hi)
	add(new(big.Int).Add(lo, big.NewInt(1)))
	add(new(big.Int).Sub(hi, big.NewInt(1)))
	for _, k := range []uint{7, 8, 15, 16, 31, 32, 63, 64} {
		p := pow2(k)
		for _, d := range []int64{-1, 0, 1} {
			add(new(big.Int).Add(p, big.NewInt(d)))
			add(new(big.Int).Add(new(big.Int).Neg(p), big.NewInt(d)))
		}
	}
	var r []*big.Int
	for _, z := range set {
		r = append(r, z)
	}
	sortBig(r)
	return r
}

func sortBig(r []*big.Int) {
	for i := 1; i < len(r); i++ {
		for j := i; j > 0 && r[j].Cmp(r[j-1]) < 0; j-- {
			r[j], r[j-1] = r[j-1], r[j]
		}
	}
}

// directedScalarValues: the boundary classes of the property's quantifier
func directedScalarValues(s string) []*aval {
	var r []*aval
	ints := func(bits uint) {
		for _, z := range boundaryInts(bits) {
			r = append(r, aInt(z))
		}
	}
	switch s {
	case "SBigint", "SCounter", "STimestamp":
		ints(64)
	case "SInt", "SDate":
		ints(32)
	case "SSmallint":
		ints(16)
	case "STinyint":
		ints(8)
	case "STime":
		for _, z := range bigs("0", "1", "86399999999999", "86399999999998", "43200000000000", "1000000000") {
			r = append(r, aInt(z))
		}
	case "SVarint":
		// the specification's table (5.24) first
		for _, z := range bigs("0", "1", "127", "128", "129", "-1", "-128", "-129") {
			r = append(r, aInt(z))
		}
		for _, k := range []uint{7, 8, 15, 16, 63, 64, 127, 128} {
			p := pow2(k)
			for _, d := range []int64{-1, 0, 1} {
				r = append(r, aInt(new(big.Int).Add(p, big.NewInt(d))), aInt(new(big.Int).Add(new(big.Int).Neg(p), big.NewInt(d))))
			}
		}
	case "SDecimal":
		for _, sc := range bigs("0", "1", "-1", "2147483647", "-2147483648") {
			for _, un := range bigs("0", "1", "-1", "127", "128", "-128", "-129", "123456789012345678901234567890", "-32768", "32768") {
				r = append(r, &aval{kind: "decimal", z: sc, z2: un})
			}
		}
	case "SDuration":
		ms := bigs("0", "1", "-1", "2147483647", "-2147483648", "63", "64", "-64", "-65")
		ns := bigs("0", "1", "-1", "9223372036854775807", "-9223372036854775808", "36028797018963967", "36028797018963968", "-36028797018963968", "-36028797018963969", "8191", "8192")
		for i, m := range ms {
			for j, n := range ns {
				r = append(r, &aval{kind: "duration", z: m, z2: ms[(i+j)%len(ms)], z3: n})
			}
		}
	case "SBoolean":
		r = append(r, &aval{kind: "bool", b: true}, &aval{kind: "bool", b: false})
	case "SFloat":
		for _, b := range floatBits32 {
			r = append(r, aFloat32(b))
		}
	case "SDouble":
		for _, b := range floatBits64 {
			r = append(r, aFloat64(b))
		}
	case "SAscii":
		r = append(r, aBytes([]byte{}), aBytes([]byte("a")), aBytes([]byte{0, 127}), aBytes(make([]byte, 70000)))
	case "SVarchar":
		long := make([]byte, 0, 70000)
		for len(long) < 69990 {
			long = append(long, []byte("héllo 世界 ")...)
		}
		r = append(r, aBytes([]byte{}), aBytes([]byte("a")), aBytes([]byte("é\U0001f600")), aBytes(long), aBytes([]byte{0}))
	case "SBlob", "SCustom":
		all := make([]byte, 256)
		for i := range all {
			all[i] = byte(i)
		}
		r = append(r, aBytes([]byte{}), aBytes([]byte{0}), aBytes([]byte{0xff}), aBytes(all), aBytes(make([]byte, 70000)))
	case "SUuid", "STimeuuid":
		r = append(r, &aval{kind: "uuid", bs: make([]byte, 16)}, &aval{kind: "uuid", bs: []byte{0xff, 0xff, 0xff, 0xff, 0xff, 0xff, 0xff, 0xff, 0xff, 0xff, 0xff, 0xff, 0xff, 0xff, 0xff, 0xff}},
			&aval{kind: "uuid", bs: []byte{0x12, 0x34, 0x56, 0x78, 0x9a, 0xbc, 0x1e, 0xf0, 0x81, 0x23, 0x45, 0x67, 0x89, 0xab, 0xcd, 0xef}})
	case "SInet":
		r = append(r, &aval{kind: "inet", bs: []byte{0, 0, 0, 0}}, &aval{kind: "inet", bs: []byte{255, 255, 255, 255}}, &aval{kind: "inet", bs: []byte{192, 168, 1, 2}},
			&aval{kind: "inet", bs: make([]byte, 16)}, &aval{kind: "inet", bs: []byte{0x20, 0x01, 0x0d, 0xb8, 0, 0, 0, 0, 0, 0, 0, 0, 0, 0, 0, 1}},
			&aval{kind: "inet", bs: []byte{0, 0, 0, 0, 0, 0, 0, 0, 0, 0, 0xff, 0xfe, 1, 2, 3, 4}})
	}
	return r
}

func vint(a int64) *aval { return aInt64(a) }

func cmdDirected(quick bool) {
	g := &gen{r: rand.New(rand.NewSource(hlib.Seed() + 7))}
	n := 0
	obs := false
	emit := func(t *ctype, r *rep, a *aval, ver primitive.ProtocolVersion) {
		rec := runCase(fmt.Sprintf("d%d", n), t, r, a, ver)
		rec.Kind = "directed"
		if obs {
			rec.Kind = "observation" // degenerate types without fields: reported, not judged
		}
		n++
		hlib.Emit(rec)
	}
	// (1) every scalar x every accepted representation able to hold the value (value and pointer form) x boundary values
	for _, s := range scalarNames {
		t := scalarT(s)
		vals := directedScalarValues(s)
		for ai, a := range vals {
			for si, sr := range scalarReps(s) {
				if !sr.ok(a) {
					continue
				}
				// quick tier: every representation still sees the extremes, the first values (0, +-1 / the spec table for the
				// preferred representation) and a rotating quarter of the boundary set
				// ... and the values at the boundaries of the representation's own Go type (repEdge), whatever the CQL type
				extreme := ai < 2 || ai >= len(vals)-2 || repEdge(sr, a)
				if quick && !(extreme || (ai+si)%4 == 0 || (si == 0 && (s == "SVarint" || len(vals) <= 16))) {
					continue
				}
				if len(a.bs) > 60000 && sr.name != scalarReps(s)[0].name {
					continue
				}
				r := &rep{t: t, kind: "scalar:" + sr.name, gt: sr.gt, s: sr}
				emit(t, r, a, primitive.ProtocolVersion4)
				if !isBigPtr(sr.gt) && len(a.bs) < 1000 && ((ai+si)%3 == 0 || (extreme && a.kind == "float")) {
					emit(t, ptrTo(r), a, primitive.ProtocolVersion2)
				}
			}
		}
	}
	// (2) containers: nulls at every position, every container representation, both version classes
	i32, txt := scalarT("SInt"), scalarT("SVarchar")
	types := []struct {
		t *ctype
		a *aval
	}{
		{listT(i32), &aval{kind: "list", elems: []*aval{}}},
		{listT(i32), &aval{kind: "list", elems: []*aval{vint(1), vint(-2), vint(3)}}},
		{listT(i32), &aval{kind: "list", elems: []*aval{aNull, vint(-2), vint(3)}}},
		{listT(i32), &aval{kind: "list", elems: []*aval{vint(1), aNull, vint(3)}}},
		{listT(i32), &aval{kind: "list", elems: []*aval{vint(1), vint(-2), aNull}}},
		{setT(txt), &aval{kind: "list", elems: []*aval{aBytes([]byte("")), aBytes([]byte("a")), aNull}}},
		{setT(txt), &aval{kind: "list", elems: []*aval{aBytes([]byte("")), aBytes([]byte("a"))}}},
		{listT(scalarT("SBlob")), &aval{kind: "list", elems: []*aval{aBytes([]byte{}), aBytes([]byte{1})}}},
		{mapT(txt, i32), &aval{kind: "map"}},
		{mapT(txt, i32), &aval{kind: "map", pairs: [][2]*aval{{aBytes([]byte("k1")), vint(1)}}}},
		{mapT(txt, i32), &aval{kind: "map", pairs: [][2]*aval{{aBytes([]byte("k1")), aNull}}}},
		{mapT(txt, i32), &aval{kind: "map", pairs: [][2]*aval{{aNull, vint(1)}}}},
		{mapT(txt, i32), &aval{kind: "map", pairs: [][2]*aval{{aBytes([]byte("k1")), vint(1)}, {aBytes([]byte("k2")), aNull}, {aBytes([]byte("")), vint(0)}}}},
		{mapT(i32, listT(txt)), &aval{kind: "map", pairs: [][2]*aval{{vint(5), &aval{kind: "list", elems: []*aval{aBytes([]byte("x")), aNull}}}, {vint(6), aNull}}}},
		{tupleT(i32, txt, i32), &aval{kind: "tuple", elems: []*aval{vint(1), aBytes([]byte("a")), vint(2)}}},
		{tupleT(i32, txt, i32), &aval{kind: "tuple", elems: []*aval{aNull, aBytes([]byte("a")), vint(2)}}},
		{tupleT(i32, txt, i32), &aval{kind: "tuple", elems: []*aval{vint(1), aNull, vint(2)}}},
		{tupleT(i32, txt, i32), &aval{kind: "tuple", elems: []*aval{vint(1), aBytes([]byte("")), aNull}}},
		{tupleT(i32, txt, i32), &aval{kind: "tuple", elems: []*aval{aNull, aNull, aNull}}},
		{udtT([]string{"a", "Value", "x_1"}, i32, txt, listT(i32)), &aval{kind: "udt", elems: []*aval{vint(1), aBytes([]byte("v")), &aval{kind: "list", elems: []*aval{vint(7), aNull}}}}},
		{udtT([]string{"a", "Value", "x_1"}, i32, txt, listT(i32)), &aval{kind: "udt", elems: []*aval{aNull, aBytes([]byte("v")), aNull}}},
		{udtT([]string{"a", "Value", "x_1"}, i32, txt, listT(i32)), &aval{kind: "udt", elems: []*aval{vint(1), aNull, &aval{kind: "list", elems: []*aval{}}}}},
		{listT(tupleT(i32, mapT(txt, udtT([]string{"id"}, scalarT("SVarint"))))), &aval{kind: "list", elems: []*aval{
			&aval{kind: "tuple", elems: []*aval{vint(1), &aval{kind: "map", pairs: [][2]*aval{{aBytes([]byte("k")), &aval{kind: "udt", elems: []*aval{aInt(bigs("-129")[0])}}}}}}},
			&aval{kind: "tuple", elems: []*aval{aNull, aNull}}, aNull}}},
		// degenerate: a tuple / udt type without fields has exactly one non-null value
		{tupleT(), &aval{kind: "tuple", elems: []*aval{}}},
		{udtT([]string{}), &aval{kind: "udt", elems: []*aval{}}},
		{listT(tupleT()), &aval{kind: "list", elems: []*aval{{kind: "tuple", elems: []*aval{}}}}},
	}
	for ci, c := range types {
		obs = ci >= len(types)-3
		for _, ver := range []primitive.ProtocolVersion{primitive.ProtocolVersion2, primitive.ProtocolVersion3, primitive.ProtocolVersion5} {
			emit(c.t, g.plan(c.t, []*aval{c.a}, false, true), c.a, ver)
			nplans := 6
			if quick {
				nplans = 2
			}
			for k := 0; k < nplans; k++ {
				emit(c.t, g.plan(c.t, []*aval{c.a}, false, false), c.a, ver)
			}
		}
	}
	obs = false
	// (3) size boundaries of the v2 format: 65535 / 65536 elements; an element of 65535 / 65536 bytes
	ti8 := scalarT("STinyint")
	for _, cnt := range []int{65535, 65536} {
		a := &aval{kind: "list"}
		for i := 0; i < cnt; i++ {
			a.elems = append(a.elems, vint(int64(i%100)))
		}
		for _, ver := range []primitive.ProtocolVersion{primitive.ProtocolVersion2, primitive.ProtocolVersion4} {
			emit(listT(ti8), g.plan(listT(ti8), []*aval{a}, false, true), a, ver)
		}
	}
	for _, sz := range []int{65535, 65536, 65539} {
		a := &aval{kind: "list", elems: []*aval{aBytes(make([]byte, sz))}}
		tb := listT(scalarT("SBlob"))
		for _, ver := range []primitive.ProtocolVersion{primitive.ProtocolVersion2, primitive.ProtocolVersion4} {
			emit(tb, g.plan(tb, []*aval{a}, false, true), a, ver)
		}
		m := &aval{kind: "map", pairs: [][2]*aval{{vint(1), aBytes(make([]byte, sz))}}}
		tm := mapT(i32, scalarT("SBlob"))
		emit(tm, g.plan(tm, []*aval{m}, false, true), m, primitive.ProtocolVersion2)
	}
	// (3b) a Go map with a NaN key: the extractor looks every key up again (MapIndex), which never finds a NaN
	{
		tm := mapT(scalarT("SDouble"), i32)
		m := &aval{kind: "map", pairs: [][2]*aval{{aFloat64(0x7ff8000000000000), vint(5)}}}
		rec := runCase("nan0", tm, g.plan(tm, []*aval{m}, false, true), m, primitive.ProtocolVersion4)
		rec.Kind = "nan-key"
		hlib.Emit(rec)
	}
	// (3s) the [short]-prefixed positions of the protocol v2 collection format, each on its own at the size boundary
	v2sizes()
	// (3a') a struct used as a CQL map, in every declaration mode of structLayout (tags vs names, reversed declaration order): the encoder walks
	// the struct in declaration order
	{
		tm := mapT(txt, i32)
		keys := []*aval{aBytes([]byte("i1")), aBytes([]byte("u1")), aBytes([]byte("h4"))}
		vals := []*aval{vint(1), vint(-2), aNull}
		m := &aval{kind: "map"}
		for i := range keys {
			m.pairs = append(m.pairs, [2]*aval{keys[i], vals[i]})
		}
		for mode := 0; mode < 3; mode++ {
			for _, ver := range []primitive.ProtocolVersion{primitive.ProtocolVersion3, primitive.ProtocolVersion5} {
				emit(tm, g.planStructMap(tm, keys, vals, mode), m, ver)
			}
		}
		// keys with upper-case letters (only a tag can stand for them)
		mkeys := []*aval{aBytes([]byte("userId")), aBytes([]byte("ZIP")), aBytes([]byte("k9"))}
		mm := &aval{kind: "map"}
		for i := range mkeys {
			mm.pairs = append(mm.pairs, [2]*aval{mkeys[i], vals[i]})
		}
		for mode := 0; mode < 3; mode++ {
			emit(tm, g.planStructMap(tm, mkeys, vals, mode), mm, primitive.ProtocolVersion4)
		}
		m2 := &aval{kind: "map", pairs: [][2]*aval{{keys[2], vint(7)}, {keys[0], vint(8)}}}
		emit(tm, g.planStructMap(tm, []*aval{keys[2], keys[0]}, []*aval{vint(7), vint(8)}, 2), m2, primitive.ProtocolVersion2)
	}
	// (3c) struct representations declared in source (tags, unexported fields), decode-only struct probes, characterised observations
	tn := 0
	cmdTags(func() string { tn++; return fmt.Sprintf("t%d", tn) })
	// (4) specification-formatted bytes that are not what the encoder emits must decode to the value they denote (C12, second sentence)
	specDecode()
}

type specRec struct {
	Kind     string `json:"kind"`
	Id       string `json:"id"`
	Ver      int    `json:"ver"`
	TypeCoq  string `json:"type_coq"`
	TypeCql  string `json:"type_cql"`
	Hex      string `json:"hex"`
	What     string `json:"what"`
	Expect   string `json:"expect_coq"`
	DecClass string `json:"dec_class"`
	DecCoq   string `json:"dec_coq"`
	DecNull  bool   `json:"dec_null"`
	Err      string `json:"err,omitempty"`
}

func decodeIface(t *ctype, b []byte, ver primitive.ProtocolVersion) (class string, coq string, wasNull bool, errs string) {
	codec, err := datacodec.NewCodec(t.dt)
	if err != nil {
		return "nocodec", "", false, err.Error()
	}
	var dest interface{}
	var derr error
	if p, msg := safely(func() { wasNull, derr = codec.Decode(b, &dest, ver) }); p {
		return "panic", "", false, msg
	} else if derr != nil {
		return "err", "", false, derr.Error()
	}
	return "ok", abs(t, reflect.ValueOf(&dest).Elem()).canon().coq(), wasNull, ""
}

func specDecode() {
	i32, txt := scalarT("SInt"), scalarT("SVarchar")
	u := udtT([]string{"a", "b", "c"}, i32, txt, i32)
	cases := []struct {
		t      *ctype
		hex    string
		what   string
		expect *aval
	}{
		{scalarT("SBoolean"), "02", "5.4: any non-zero byte denotes true", &aval{kind: "bool", b: true}},
		{scalarT("SBoolean"), "ff", "5.4: any non-zero byte denotes true", &aval{kind: "bool", b: true}},
		{tupleT(i32, i32), "00000004000000010fffffff"[:16] + "fffffffe", "section 3 [bytes]: any negative length denotes null", &aval{kind: "tuple", elems: []*aval{vint(1), aNull}}},
		{u, "0000000400000001" + "0000000161" + "0000000400000002", "section 6: all three fields", &aval{kind: "udt", elems: []*aval{vint(1), aBytes([]byte("a")), vint(2)}}},
		{u, "0000000400000001" + "0000000161", "section 6: a UDT value may have fewer values than the type has fields (2 of 3)", &aval{kind: "udt", elems: []*aval{vint(1), aBytes([]byte("a")), aNull}}},
		{u, "0000000400000001", "section 6: a UDT value may have fewer values than the type has fields (1 of 3)", &aval{kind: "udt", elems: []*aval{vint(1), aNull, aNull}}},
	}
	for i, c := range cases {
		b, _ := hex.DecodeString(c.hex)
		class, coq, wn, e := decodeIface(c.t, b, primitive.ProtocolVersion4)
		hlib.Emit(&specRec{Kind: "specdecode", Id: fmt.Sprintf("s%d", i), Ver: 4, TypeCoq: c.t.coq(), TypeCql: c.t.dt.AsCql(), Hex: c.hex, What: c.what,
			Expect: c.expect.canon().coq(), DecClass: class, DecCoq: coq, DecNull: wn, Err: e})
	}
}

type sizeRec struct {
	Kind     string `json:"kind"` // v2size
	Id       string `json:"id"`
	Ver      int    `json:"ver"`
	TypeCql  string `json:"type_cql"`
	TypeCoq  string `json:"type_coq"`
	Position string `json:"position"` // list-element | set-element | map-key | map-value
	Elem     string `json:"elem"`     // blob | varchar
	Size     int    `json:"size"`     // bytes of the long element (byte 'a' repeated); every other element is the single byte 'k'
	ValCoq   string `json:"val_coq"`  // with (repeat 97 (Z.to_nat size)) for the long element
	EncClass string `json:"enc_class"`
	EncLen   int    `json:"enc_len"`
	EncSha   string `json:"enc_sha256"`
	RtEqual  bool   `json:"rt_equal"` // enc ok: decoded into *interface{} AND into the same representation, both equal to the value
	Err      string `json:"err,omitempty"`
}

// v2sizes: protocol v2 writes every list element, set element, map key and map value with a 2-byte length.  Each of the four positions, for
// blob and for varchar, carries an element of 65535 bytes (the largest expressible: accepted), 65536 and 70000 bytes (refused: the length
// would wrap) while every other element is one byte long; 65536 is also run in v4 (4-byte lengths: accepted).
func v2sizes() {
	n := 0
	for _, en := range []string{"SBlob", "SVarchar"} {
		et := scalarT(en)
		for _, pos := range []string{"list-element", "set-element", "map-key", "map-value"} {
			for _, size := range []int{65535, 65536, 70000} {
				vers := []primitive.ProtocolVersion{primitive.ProtocolVersion2}
				if size == 65536 {
					vers = append(vers, primitive.ProtocolVersion4)
				}
				long, short := aBytes(bytesOf('a', size)), aBytes([]byte("k"))
				longCoq := fmt.Sprintf("(VBytes (repeat 97 (Z.to_nat %d)))", size)
				var t *ctype
				var a *aval
				var valCoq string
				switch pos {
				case "list-element":
					t, a, valCoq = listT(et), &aval{kind: "list", elems: []*aval{short, long, short}}, "(VList ["+short.coq()+"; "+longCoq+"; "+short.coq()+"])"
				case "set-element":
					t, a, valCoq = setT(et), &aval{kind: "list", elems: []*aval{long}}, "(VList ["+longCoq+"])"
				case "map-key":
					t, a, valCoq = mapT(et, et), &aval{kind: "map", pairs: [][2]*aval{{long, short}}}, "(VMap [("+longCoq+", "+short.coq()+")])"
				default:
					t, a, valCoq = mapT(et, et), &aval{kind: "map", pairs: [][2]*aval{{short, long}}}, "(VMap [("+short.coq()+", "+longCoq+")])"
				}
				g := &gen{r: rand.New(rand.NewSource(1))}
				r := g.plan(t, []*aval{a}, false, true)
				for _, ver := range vers {
					rec := &sizeRec{Kind: "v2size", Id: fmt.Sprintf("z%d", n), Ver: int(ver), TypeCql: t.dt.AsCql(), TypeCoq: t.coq(), Position: pos,
						Elem: et.dt.AsCql(), Size: size, ValCoq: valCoq}
					n++
					full := runCase(rec.Id, t, r, a, ver)
					rec.EncClass, rec.Err = full.EncClass, full.Err
					if full.EncClass == "ok" {
						b, _ := hex.DecodeString(full.EncHex)
						sum := sha256.Sum256(b)
						rec.EncLen, rec.EncSha = len(b), hex.EncodeToString(sum[:])
						rec.RtEqual = full.DecClass == "ok" && full.RtEqual && full.SameClass == "ok" && full.SameEqual && full.SrcIntact && full.Enc2Same
						if !rec.RtEqual {
							rec.Err = fmt.Sprintf("untyped: %s equal=%v; same representation: %s equal=%v; source intact=%v; %s", full.DecClass, full.RtEqual, full.SameClass, full.SameEqual, full.SrcIntact, full.Err)
						}
					}
					if len(rec.Err) > 300 {
						rec.Err = rec.Err[:300]
					}
					hlib.Emit(rec)
				}
			}
		}
	}
}

func bytesOf(b byte, n int) []byte {
	r := make([]byte, n)
	for i := range r {
		r[i] = b
	}
	return r
}
