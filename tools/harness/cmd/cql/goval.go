package main

import (
	"encoding/hex"
	"fmt"
	"math/rand"
	"reflect"
	"sort"
	"strings"

	"github.com/datastax/go-cassandra-native-protocol/datacodec"
	"github.com/datastax/go-cassandra-native-protocol/primitive"
	"verifharness/hlib"
)

// Printing of Go types and values as terms of the Gallina universe gty / gval of coq/model/CqlGoVal.v.
// ok = false: the representation is outside the modelled universe (e.g. a struct used as a CQL map).

var strT = &ctype{kind: "scalar", scalar: "SVarchar"}

func coqStr(s string) string { return "\"" + strings.ReplaceAll(s, "\"", "\"\"") + "\"%string" }

// gIfaceOf: interface{} itself, a defined interface type without methods, an interface type with methods
func gIfaceOf(rt reflect.Type) string {
	switch {
	case rt == tIface:
		return "GIface"
	case rt.NumMethod() == 0:
		return "(GIfaceN false)"
	}
	return "(GIfaceN true)"
}

func gtyOf(t *ctype, rt reflect.Type) (string, bool) {
	if isBigPtr(rt) && t.kind == "scalar" {
		return "(GPtr (GLeaf " + t.scalar + " LVal))", true
	}
	switch rt.Kind() {
	case reflect.Ptr:
		s, ok := gtyOf(t, rt.Elem())
		return "(GPtr " + s + ")", ok
	case reflect.Interface:
		return gIfaceOf(rt), true
	}
	switch t.kind {
	case "scalar":
		if rt.Kind() == reflect.Slice {
			return "(GLeaf " + t.scalar + " LSlice)", true
		}
		return "(GLeaf " + t.scalar + " LVal)", true
	case "list", "set":
		switch rt.Kind() {
		case reflect.Slice:
			s, ok := gtyOf(t.elem, rt.Elem())
			return "(GSlice " + s + ")", ok
		case reflect.Array:
			s, ok := gtyOf(t.elem, rt.Elem())
			return fmt.Sprintf("(GArray %d %s)", rt.Len(), s), ok
		}
	case "map":
		if rt.Kind() == reflect.Map {
			k, ok1 := gtyOf(t.key, rt.Key())
			v, ok2 := gtyOf(t.val, rt.Elem())
			return "(GMap " + k + " " + v + ")", ok1 && ok2
		}
	case "tuple", "udt":
		switch rt.Kind() {
		case reflect.Slice, reflect.Array:
			// positions may have different CQL types; the element Go type is shared: print it against the first field (interface{} in practice)
			var s string
			ok := true
			if rt.Elem().Kind() == reflect.Interface {
				s = gIfaceOf(rt.Elem())
			} else if len(t.fields) > 0 {
				s, ok = gtyOf(t.fields[0], rt.Elem())
				for _, f := range t.fields[1:] {
					s2, ok2 := gtyOf(f, rt.Elem())
					if s2 != s || !ok2 {
						ok = false
					}
				}
			} else {
				ok = false
			}
			if rt.Kind() == reflect.Slice {
				return "(GSlice " + s + ")", ok
			}
			return fmt.Sprintf("(GArray %d %s)", rt.Len(), s), ok
		case reflect.Struct:
			var fs []string
			ok := true
			for i := 0; i < rt.NumField(); i++ {
				f := rt.Field(i)
				ft := fieldCtype(t, f, i)
				if ft == nil {
					return "", false
				}
				s, o := gtyOf(ft, f.Type)
				ok = ok && o
				fs = append(fs, "("+coqStr(f.Name)+", "+coqStr(f.Tag.Get("cassandra"))+", "+s+")")
			}
			return "(GStruct [" + strings.Join(fs, "; ") + "])", ok
		case reflect.Map:
			if t.kind == "udt" && rt.Key().Kind() == reflect.String {
				if rt.Elem().Kind() == reflect.Interface {
					return "(GMap (GLeaf SVarchar LVal) " + gIfaceOf(rt.Elem()) + ")", true
				}
				ok := len(t.fields) > 0
				var s string
				for i, f := range t.fields {
					s2, ok2 := gtyOf(f, rt.Elem())
					if i > 0 && s2 != s {
						ok = false
					}
					s, ok = s2, ok && ok2
				}
				return "(GMap (GLeaf SVarchar LVal) " + s + ")", ok
			}
		}
	}
	return "", false
}

// fieldCtype: the CQL type a struct field stands for (tuple: by index; udt: the CQL field this struct field is found under by the documented
// rule - by its tag when it has one, else by its name). A field that stands for no CQL field (never read, never written) is printed with the
// scalar type matching its Go type.
func fieldCtype(t *ctype, f reflect.StructField, i int) *ctype {
	if t.kind == "tuple" {
		if i < len(t.fields) {
			return t.fields[i]
		}
		return nil
	}
	tag := f.Tag.Get("cassandra")
	for j, n := range t.names {
		if (tag != "" && tag == n) || (tag == "" && strings.EqualFold(n, f.Name)) {
			return t.fields[j]
		}
	}
	if f.Type.Kind() == reflect.Int32 {
		return scalarT("SInt")
	}
	return nil
}

const outsideUniverse = "GV_OUTSIDE_THE_MODELLED_UNIVERSE"

// inUniverse: the printed value contains no dynamic type outside the universe of coq/model/CqlGoVal.v
func inUniverse(g string) bool { return !strings.Contains(g, outsideUniverse) }

func gvalOf(t *ctype, rt reflect.Type, v reflect.Value) string {
	if isBigPtr(rt) && t.kind == "scalar" {
		if v.IsNil() {
			return "GVNilPtr"
		}
		return "(GVPtr (GVLeaf " + abs(t, v).coq() + "))"
	}
	switch rt.Kind() {
	case reflect.Ptr:
		if v.IsNil() {
			return "GVNilPtr"
		}
		return "(GVPtr " + gvalOf(t, rt.Elem(), v.Elem()) + ")"
	case reflect.Interface:
		if v.IsNil() {
			return "GVNilIface"
		}
		dt, ok := gtyOf(t, v.Elem().Type())
		if !ok {
			return outsideUniverse // the dynamic type (e.g. a struct used as a CQL map) is not modelled
		}
		return "(GVIface " + dt + " " + gvalOf(t, v.Elem().Type(), v.Elem()) + ")"
	}
	switch t.kind {
	case "scalar":
		if rt.Kind() == reflect.Slice {
			if v.IsNil() {
				return "(GVLeaf VNull)"
			}
		} else if v.IsZero() && v.Kind() != reflect.Float32 && v.Kind() != reflect.Float64 {
			return "(GVLeaf (lzero " + t.scalar + "))"
		}
		return "(GVLeaf " + abs(t, v).coq() + ")"
	case "list", "set":
		if rt.Kind() == reflect.Slice && v.IsNil() {
			return "GVNilSlice"
		}
		es := make([]string, v.Len())
		for i := range es {
			es[i] = gvalOf(t.elem, rt.Elem(), v.Index(i))
		}
		if rt.Kind() == reflect.Slice {
			return "(GVSlice [" + strings.Join(es, "; ") + "])"
		}
		return "(GVArray [" + strings.Join(es, "; ") + "])"
	case "map":
		if rt.Kind() != reflect.Map {
			return "(GVLeaf VNull)" // struct used as a CQL map: outside the modelled universe
		}
		if v.IsNil() {
			return "GVNilMap"
		}
		var es []string
		it := v.MapRange()
		for it.Next() {
			es = append(es, "("+gvalOf(t.key, rt.Key(), it.Key())+", "+gvalOf(t.val, rt.Elem(), it.Value())+")")
		}
		sort.Strings(es)
		return "(GVMap [" + strings.Join(es, "; ") + "])"
	case "tuple", "udt":
		switch rt.Kind() {
		case reflect.Slice, reflect.Array:
			if rt.Kind() == reflect.Slice && v.IsNil() {
				return "GVNilSlice"
			}
			es := make([]string, v.Len())
			for i := range es {
				ft := strT
				if i < len(t.fields) {
					ft = t.fields[i]
				}
				es[i] = gvalOf(ft, rt.Elem(), v.Index(i))
			}
			if rt.Kind() == reflect.Slice {
				return "(GVSlice [" + strings.Join(es, "; ") + "])"
			}
			return "(GVArray [" + strings.Join(es, "; ") + "])"
		case reflect.Struct:
			es := make([]string, v.NumField())
			for i := range es {
				es[i] = gvalOf(fieldCtype(t, rt.Field(i), i), rt.Field(i).Type, v.Field(i))
			}
			return "(GVStruct [" + strings.Join(es, "; ") + "])"
		case reflect.Map:
			if v.IsNil() {
				return "GVNilMap"
			}
			var es []string
			it := v.MapRange()
			for it.Next() {
				ft := strT
				for j, n := range t.names {
					if n == it.Key().String() {
						ft = t.fields[j]
					}
				}
				es = append(es, "((GVLeaf (VBytes "+hx([]byte(it.Key().String()))+")), "+gvalOf(ft, rt.Elem(), it.Value())+")")
			}
			sort.Strings(es)
			return "(GVMap [" + strings.Join(es, "; ") + "])"
		}
	}
	return "(GVLeaf VNull)"
}

// ---------------------------------------------------------------------------------------------- destination reuse

type reuseRec struct {
	Kind    string `json:"kind"`
	Id      string `json:"id"`
	Ver     int    `json:"ver"`
	TypeCql string `json:"type_cql"`
	TypeCoq string `json:"type_coq"`
	Rep     string `json:"rep"`
	Gty     string `json:"gty"`
	Prefill string `json:"prefill_g"`
	Input   string `json:"input"` // what was decoded: value | null | empty
	ValCoq  string `json:"val_coq"`
	Hex     string `json:"hex"`
	Class   string `json:"class"`
	WasNull bool   `json:"was_null"`
	Result  string `json:"result_g"`
	ResAbs  string `json:"result_abs"`
	Err     string `json:"err,omitempty"`
	// model-free judgement: the abstract value the variable holds afterwards equals the decoded value (NaN = NaN); the variable is zero
	ResEqual   bool   `json:"result_equal"`
	Zeroed     bool   `json:"zeroed"`
	PrefillAbs string `json:"prefill_abs"`
}

// full: a value of type t without NULLs and without empty containers (1-2 elements)
func (g *gen) full(t *ctype) *aval {
	switch t.kind {
	case "scalar":
		return g.scalarValue(t.scalar)
	case "list", "set":
		r := &aval{kind: "list", elems: []*aval{}}
		for i := 0; i < 1+g.pick(2); i++ {
			r.elems = append(r.elems, g.full(t.elem))
		}
		return r
	case "map":
		r := &aval{kind: "map"}
		seen := map[string]bool{}
		for i := 0; i < 1+g.pick(2); i++ {
			k := g.full(t.key)
			if seen[k.canon().coq()] || isNaNKey(t.key, k) {
				continue
			}
			seen[k.canon().coq()] = true
			r.pairs = append(r.pairs, [2]*aval{k, g.full(t.val)})
		}
		return r
	default:
		r := &aval{kind: t.kind, elems: []*aval{}}
		for _, f := range t.fields {
			r.elems = append(r.elems, g.full(f))
		}
		return r
	}
}

// nullAt: copies of a with a NULL at one position: every element / field / map value of the top level, and every position one level
// further down inside tuple / UDT fields and list elements
func nullAt(t *ctype, a *aval, deep bool) []*aval {
	var out []*aval
	switch t.kind {
	case "list", "set", "tuple", "udt":
		for i := range a.elems {
			c := &aval{kind: a.kind, elems: append([]*aval{}, a.elems...)}
			c.elems[i] = aNull
			out = append(out, c)
			if deep {
				ct := t.elem
				if t.kind == "tuple" || t.kind == "udt" {
					ct = t.fields[i]
				}
				for _, sub := range nullAt(ct, a.elems[i], false) {
					c := &aval{kind: a.kind, elems: append([]*aval{}, a.elems...)}
					c.elems[i] = sub
					out = append(out, c)
				}
			}
		}
	case "map":
		for i := range a.pairs {
			c := &aval{kind: "map", pairs: append([][2]*aval{}, a.pairs...)}
			c.pairs[i] = [2]*aval{a.pairs[i][0], aNull}
			out = append(out, c)
		}
	}
	return out
}

// cmdReuse: decode into a destination variable that already holds another value of the same Go type (longer, shorter, other keys,
// non-NULL where the decoded value has a NULL): the variable must end up holding the decoded value, nothing of the old one.
func cmdReuse(n int) {
	g := &gen{r: rand.New(rand.NewSource(hlib.Seed() + 41))}
	i32, txt := scalarT("SInt"), scalarT("SVarchar")
	types := []*ctype{listT(i32), setT(txt), listT(listT(i32)), mapT(txt, i32), mapT(i32, listT(txt)), tupleT(i32, txt), tupleT(i32, txt, listT(i32)),
		udtT([]string{"a", "Value"}, i32, txt), udtT([]string{"a", "Value", "x_1"}, i32, txt, listT(i32)), listT(tupleT(i32, txt)), listT(udtT([]string{"id"}, txt)),
		tupleT(scalarT("SInet"), scalarT("SUuid"), scalarT("SVarint")), udtT([]string{"a", "b"}, tupleT(i32, txt), scalarT("SBlob"))}
	nDirected := len(types)
	id := 0
	for len(types) < nDirected+n/40 {
		t := g.typeTree(2 + g.pick(2))
		if t.kind != "scalar" {
			types = append(types, t)
		}
	}
	runPair := func(t *ctype, codec datacodec.Codec, a, p *aval, r *rep, ver primitive.ProtocolVersion, inputs []string) {
		if r.kind == "ptr" {
			r = r.inner
		}
		gty, _ := gtyOf(t, r.gt)
		var enc []byte
		var eerr error
		if pn, _ := safely(func() { enc, eerr = codec.Encode(r.mk(a).Interface(), ver) }); pn || eerr != nil || enc == nil {
			return
		}
		for _, in := range inputs {
			dest := reflect.New(r.gt)
			dest.Elem().Set(r.mk(p))
			rec := &reuseRec{Kind: "reuse", Id: fmt.Sprintf("r%d", id), Ver: int(ver), TypeCql: t.dt.AsCql(), TypeCoq: t.coq(), Rep: r.String(), Gty: gty,
				Input: in, ValCoq: a.canon().coq(), PrefillAbs: p.canon().coq()}
			if gty != "" {
				if rec.Prefill = gvalOf(t, r.gt, dest.Elem()); !inUniverse(rec.Prefill) {
					rec.Gty, rec.Prefill = "", ""
				}
			}
			id++
			var src []byte
			switch in {
			case "value":
				src = enc
				rec.Hex = hex.EncodeToString(enc)
			case "empty":
				src = []byte{}
			}
			if len(rec.Hex) > 4000 {
				continue
			}
			var wn bool
			var derr error
			if pn, msg := safely(func() { wn, derr = codec.Decode(src, dest.Interface(), ver) }); pn {
				rec.Class, rec.Err = "panic", msg
			} else if derr != nil {
				rec.Class, rec.Err = "err", derr.Error()
			} else {
				rec.Class, rec.WasNull = "ok", wn
				if rec.Gty != "" {
					if rec.Result = gvalOf(t, r.gt, dest.Elem()); !inUniverse(rec.Result) {
						rec.Gty, rec.Result = "", ""
					}
				}
				d := abs(t, dest.Elem())
				rec.ResAbs = d.canon().coq()
				rec.ResEqual = aEqual(d, a)
				rec.Zeroed = dest.Elem().IsZero()
			}
			hlib.Emit(rec)
		}
	}
	for ti, t := range types {
		codec, err := datacodec.NewCodec(t.dt)
		if err != nil {
			continue
		}
		if ti < nDirected {
			// directed: the pre-filled value has no NULL and no empty container; the decoded one has a NULL at one position, for every
			// position, in the preferred and in several other representations able to hold both
			p, base := g.full(t), g.full(t)
			for _, a := range nullAt(t, base, true) {
				ver := primitive.ProtocolVersion4
				if !nullInColl(t, a) && g.pick(2) == 0 {
					ver = primitive.ProtocolVersion2
				}
				seen := map[reflect.Type]bool{}
				for k := 0; k < 6; k++ {
					r := g.plan(t, []*aval{a, p}, false, k == 0)
					if r.kind == "ptr" {
						r = r.inner
					}
					if seen[r.gt] {
						continue
					}
					seen[r.gt] = true
					runPair(t, codec, a, p, r, ver, []string{"value"})
				}
			}
		}
		for k := 0; k < 10; k++ {
			// two values of one representation: the pre-filled one and the decoded one
			a, p := g.value(t, false), g.value(t, false)
			if a.kind == "null" || p.kind == "null" {
				continue
			}
			r := g.plan(t, []*aval{a, p}, false, k == 0)
			ver := primitive.ProtocolVersion4
			if g.pick(3) == 0 && !nullInColl(t, a) {
				ver = primitive.ProtocolVersion2
			}
			runPair(t, codec, a, p, r, ver, []string{"value", "null", "empty"})
		}
	}
}
