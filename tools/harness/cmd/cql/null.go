package main

import (
	"fmt"
	"math/rand"
	"reflect"

	"github.com/datastax/go-cassandra-native-protocol/datacodec"
	"github.com/datastax/go-cassandra-native-protocol/primitive"
	"verifharness/hlib"
)

type nullRec struct {
	Kind    string `json:"kind"` // nullenc | nulldec
	Id      string `json:"id"`
	Ver     int    `json:"ver"`
	TypeCql string `json:"type_cql"`
	TypeCoq string `json:"type_coq"`
	GoType  string `json:"go_type"`
	Input   string `json:"input,omitempty"` // nulldec: nil | empty
	Class   string `json:"class"`           // ok | err | panic
	IsNil   bool   `json:"is_nil"`          // nullenc: encoded form is nil
	WasNull bool   `json:"was_null"`
	Zeroed  bool   `json:"zeroed"` // nulldec: destination holds its zero value afterwards
	Prefill string `json:"prefill,omitempty"`
	Err     string `json:"err,omitempty"`
}

// sampleValue: a non-null, non-zero value of type t
func (g *gen) sampleNonZero(t *ctype) *aval {
	for tries := 0; tries < 200; tries++ {
		a := g.value(t, false)
		if a.kind == "null" {
			continue
		}
		switch a.kind {
		case "int", "float":
			if a.z.Sign() == 0 {
				continue
			}
		case "bytes":
			if len(a.bs) == 0 || len(a.bs) > 40 {
				continue
			}
		case "bool":
			if !a.b {
				continue
			}
		case "list", "tuple", "udt":
			if len(a.elems) == 0 {
				continue
			}
		case "map":
			if len(a.pairs) == 0 {
				continue
			}
		case "uuid", "inet":
			zero := true
			for _, b := range a.bs {
				if b != 0 {
					zero = false
				}
			}
			if zero {
				continue
			}
		case "decimal":
			if a.z.Sign() == 0 || a.z2.Sign() == 0 {
				continue
			}
		case "duration":
			if a.z.Sign() == 0 {
				continue
			}
		}
		return a
	}
	panic("no non-zero sample for " + t.coq())
}

func cmdNull() {
	g := &gen{r: rand.New(rand.NewSource(hlib.Seed() + 13))}
	n := 0
	i32, txt := scalarT("SInt"), scalarT("SVarchar")
	var types []*ctype
	for _, s := range scalarNames {
		types = append(types, scalarT(s))
	}
	types = append(types, listT(i32), setT(txt), mapT(txt, i32), tupleT(i32, txt), udtT([]string{"a", "b"}, i32, txt),
		listT(listT(i32)), mapT(i32, tupleT(txt, txt)), listT(udtT([]string{"a"}, mapT(txt, i32))))
	for _, t := range types {
		codec, err := datacodec.NewCodec(t.dt)
		if err != nil {
			panic(err)
		}
		// the representations to try: every scalar representation; for containers a spread of plans
		var reps []*rep
		if t.kind == "scalar" {
			for _, sr := range scalarReps(t.scalar) {
				reps = append(reps, &rep{t: t, kind: "scalar:" + sr.name, gt: sr.gt, s: sr})
			}
		} else {
			seen := map[string]bool{}
			for k := 0; k < 40; k++ {
				a := g.sampleNonZero(t)
				r := g.plan(t, []*aval{a}, false, k == 0)
				if r.kind == "ptr" {
					r = r.inner
				}
				if !seen[r.gt.String()] {
					seen[r.gt.String()] = true
					reps = append(reps, r)
				}
			}
		}
		for _, ver := range []primitive.ProtocolVersion{primitive.ProtocolVersion2, primitive.ProtocolVersion4} {
			// ---- encoding nils
			encNil := func(goType string, src interface{}) {
				rec := &nullRec{Kind: "nullenc", Id: fmt.Sprintf("n%d", n), Ver: int(ver), TypeCql: t.dt.AsCql(), TypeCoq: t.coq(), GoType: goType}
				n++
				var enc []byte
				var eerr error
				if p, msg := safely(func() { enc, eerr = codec.Encode(src, ver) }); p {
					rec.Class, rec.Err = "panic", msg
				} else if eerr != nil {
					rec.Class, rec.Err = "err", eerr.Error()
				} else {
					rec.Class, rec.IsNil = "ok", enc == nil
				}
				hlib.Emit(rec)
			}
			encNil("untyped nil", nil)
			seenNil := map[string]bool{}
			for _, r := range reps {
				// nil pointer to the representation; the representation's own nil if it is a slice / map / pointer
				cands := []reflect.Type{}
				if !isBigPtr(r.gt) {
					cands = append(cands, reflect.PtrTo(r.gt))
				}
				switch r.gt.Kind() {
				case reflect.Slice, reflect.Map, reflect.Ptr:
					cands = append(cands, r.gt)
				}
				for _, ct := range cands {
					if seenNil[ct.String()] {
						continue
					}
					seenNil[ct.String()] = true
					encNil("nil "+ct.String(), reflect.Zero(ct).Interface())
				}
			}
			// pointer to a nil slice / map
			for _, r := range reps {
				if r.gt.Kind() == reflect.Slice || r.gt.Kind() == reflect.Map {
					key := "ptr-to-nil " + r.gt.String()
					if seenNil[key] {
						continue
					}
					seenNil[key] = true
					p := reflect.New(r.gt)
					encNil("pointer to nil "+r.gt.String(), p.Interface())
				}
			}
			// ---- decoding NULL into pre-filled destinations
			decNull := func(goType string, mkDest func() reflect.Value, prefill string) {
				for _, in := range []string{"nil", "empty"} {
					rec := &nullRec{Kind: "nulldec", Id: fmt.Sprintf("n%d", n), Ver: int(ver), TypeCql: t.dt.AsCql(), TypeCoq: t.coq(), GoType: goType, Input: in, Prefill: prefill}
					n++
					dest := mkDest()
					var src []byte
					if in == "empty" {
						src = []byte{}
					}
					var wn bool
					var derr error
					if p, msg := safely(func() { wn, derr = codec.Decode(src, dest.Interface(), ver) }); p {
						rec.Class, rec.Err = "panic", msg
					} else if derr != nil {
						rec.Class, rec.Err = "err", derr.Error()
					} else {
						rec.Class, rec.WasNull, rec.Zeroed = "ok", wn, dest.Elem().IsZero()
						if dest.Elem().Type() == tBig {
							b := dest.Elem().Interface()
							_ = b
							rec.Zeroed = dest.Interface().(interface{ Sign() int }).Sign() == 0
						}
					}
					hlib.Emit(rec)
				}
			}
			seenDest := map[string]bool{}
			for _, r := range reps {
				dt := r.gt
				if isBigPtr(dt) {
					dt = dt.Elem()
				}
				if seenDest[dt.String()] {
					continue
				}
				seenDest[dt.String()] = true
				a := g.sampleNonZero(t)
				// the sample must be representable in r
				if r.s != nil {
					ok := false
					for tries := 0; tries < 300 && !ok; tries++ {
						a = g.sampleNonZero(t)
						ok = r.s.ok(a)
					}
					if !ok {
						continue
					}
				} else {
					r2 := g.plan(t, []*aval{a}, false, false)
					_ = r2
				}
				rr := r
				if r.s == nil {
					// containers: plan again for this very sample so that the pre-filled value fits the plan
					var found *rep
					for tries := 0; tries < 60; tries++ {
						c := g.plan(t, []*aval{a}, false, tries == 0)
						if c.kind == "ptr" {
							c = c.inner
						}
						if c.gt == r.gt {
							found = c
							break
						}
					}
					if found == nil {
						continue
					}
					rr = found
				}
				mk := func() reflect.Value {
					v := rr.mk(a)
					if isBigPtr(rr.gt) {
						return v // *big.Int / *big.Float pre-filled
					}
					p := reflect.New(rr.gt)
					p.Elem().Set(v)
					return p
				}
				decNull("*"+dt.String(), mk, a.coq())
			}
			// untyped destination pre-filled with a non-nil value
			decNull("*interface {}", func() reflect.Value {
				var x interface{} = 5
				return reflect.ValueOf(&x)
			}, "5")
		}
	}
}
