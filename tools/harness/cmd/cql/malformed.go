package main

import (
	"encoding/binary"
	"encoding/hex"
	"fmt"
	"math/rand"
	"reflect"

	"github.com/datastax/go-cassandra-native-protocol/datacodec"
	"github.com/datastax/go-cassandra-native-protocol/primitive"
	"verifharness/hlib"
)

// The malformed-input stream for the CQL value decoders (datacodec half of C04).
// Valid encodings of generated (type, value) pairs are mutated: truncation at every offset, every count / length field set to
// -1, -2, 0, 1, a large value and the sign bit, single bit flips, appended garbage, random bytes.  Each mutant is decoded by the
// real code into an untyped destination inside recover(); the observable is the outcome class.

type malRec struct {
	Kind    string `json:"kind"`
	Id      string `json:"id"`
	Ver     int    `json:"ver"`
	TypeCoq string `json:"type_coq"`
	TypeCql string `json:"type_cql"`
	Mut     string `json:"mut"`
	Hex     string `json:"hex"`
	Class   string `json:"class"`
	Err     string `json:"err,omitempty"`
	// the destination: "*interface {}" (outcome class compared with the abstract decoder) or a typed variable (compared, value included,
	// with the Go-representation model when its type lies in the modelled universe: Gty != "")
	Dest    string `json:"dest"`
	Gty     string `json:"gty,omitempty"`
	WasNull bool   `json:"was_null"`
	ResultG string `json:"result_g,omitempty"`
}

// fieldOffsets walks a well-formed encoding and returns the offsets (and widths) of its count and length fields.
func fieldOffsets(t *ctype, b []byte, base int, ver primitive.ProtocolVersion, out *[][2]int) {
	four := ver >= primitive.ProtocolVersion3
	w := 2
	if four {
		w = 4
	}
	readN := func(pos int, width int) (int, bool) {
		if pos+width > len(b) {
			return 0, false
		}
		if width == 4 {
			return int(int32(binary.BigEndian.Uint32(b[pos:]))), true
		}
		return int(binary.BigEndian.Uint16(b[pos:])), true
	}
	var elem func(t *ctype, pos int, width int) int
	elem = func(t *ctype, pos int, width int) int {
		n, ok := readN(pos, width)
		if !ok {
			return len(b) + 1
		}
		*out = append(*out, [2]int{base + pos, width})
		pos += width
		if n > 0 {
			if pos+n <= len(b) {
				fieldOffsets(t, b[pos:pos+n], base+pos, ver, out)
			}
			pos += n
		}
		return pos
	}
	switch t.kind {
	case "list", "set", "map":
		cnt, ok := readN(0, w)
		if !ok {
			return
		}
		*out = append(*out, [2]int{base, w})
		pos := w
		for i := 0; i < cnt && pos <= len(b); i++ {
			if t.kind == "map" {
				pos = elem(t.key, pos, w)
				if pos > len(b) {
					return
				}
				pos = elem(t.val, pos, w)
			} else {
				pos = elem(t.elem, pos, w)
			}
		}
	case "tuple", "udt":
		pos := 0
		for _, f := range t.fields {
			if pos > len(b) {
				return
			}
			pos = elem(f, pos, 4)
		}
	}
}

// maxAlloc follows the decoder's reading order and returns the largest count or length it would allocate for.
// Mutants asking for more than 4M elements / bytes are not run: an allocation of many GiB kills the harness process
// (fatal out-of-memory is not a recoverable panic); they are counted and reported as skipped.
func maxAlloc(t *ctype, b []byte, ver primitive.ProtocolVersion) int {
	w := 2
	if ver >= primitive.ProtocolVersion3 {
		w = 4
	}
	rd := func(pos, width int) (int, bool) {
		if pos+width > len(b) {
			return 0, false
		}
		if width == 4 {
			return int(int32(binary.BigEndian.Uint32(b[pos:]))), true
		}
		return int(binary.BigEndian.Uint16(b[pos:])), true
	}
	m := 0
	up := func(x int) {
		if x > m {
			m = x
		}
	}
	// one [bytes] / [short bytes] element at pos; returns the next position or -1
	elem := func(et *ctype, pos, width int) int {
		n, ok := rd(pos, width)
		if !ok {
			return -1
		}
		pos += width
		if n <= 0 {
			return pos
		}
		up(n)
		if pos+n > len(b) {
			return -1
		}
		up(maxAlloc(et, b[pos:pos+n], ver))
		return pos + n
	}
	if len(b) == 0 {
		return 0
	}
	switch t.kind {
	case "list", "set", "map":
		cnt, ok := rd(0, w)
		if !ok || cnt < 0 {
			return 0
		}
		up(cnt)
		pos := w
		for i := 0; i < cnt && pos >= 0 && m <= 1<<22; i++ {
			if t.kind == "map" {
				if pos = elem(t.key, pos, w); pos < 0 {
					break
				}
				pos = elem(t.val, pos, w)
			} else {
				pos = elem(t.elem, pos, w)
			}
		}
	case "tuple", "udt":
		pos := 0
		for _, f := range t.fields {
			if pos = elem(f, pos, 4); pos < 0 {
				break
			}
		}
	}
	return m
}

func cmdMalformed(n int) {
	g := &gen{r: rand.New(rand.NewSource(hlib.Seed() + 29))}
	id := 0
	var dests []reflect.Type // typed destinations of the current base, next to the untyped one
	emit := func(t *ctype, ver primitive.ProtocolVersion, mut string, b []byte) {
		if maxAlloc(t, b, ver) > 1<<22 {
			hlib.Emit(&malRec{Kind: "malformed-skipped", Id: fmt.Sprintf("m%d", id), Ver: int(ver), TypeCoq: t.coq(), TypeCql: t.dt.AsCql(), Mut: mut, Hex: hex.EncodeToString(b), Class: "skipped"})
			id++
			return
		}
		class, _, _, e := decodeIface(t, b, ver)
		if len(e) > 160 {
			e = e[:160]
		}
		hlib.Emit(&malRec{Kind: "malformed", Id: fmt.Sprintf("m%d", id), Ver: int(ver), TypeCoq: t.coq(), TypeCql: t.dt.AsCql(), Mut: mut, Hex: hex.EncodeToString(b), Class: class, Err: e,
			Dest: "*interface {}"})
		id++
		codec, err := datacodec.NewCodec(t.dt)
		if err != nil {
			return
		}
		for _, dt := range dests {
			res := decodeInto(t, codec, b, ver, dt)
			hlib.Emit(&malRec{Kind: "malformed", Id: fmt.Sprintf("m%d", id), Ver: int(ver), TypeCoq: t.coq(), TypeCql: t.dt.AsCql(), Mut: mut, Hex: hex.EncodeToString(b),
				Class: res.Class, Err: res.Err, Dest: "*" + dt.String(), Gty: res.Gty, WasNull: res.WasNull, ResultG: res.G})
			id++
		}
	}
	// mutate: the mutants of one valid encoding. light: the valid encoding, every count / length field set to -1 and 0, three truncations
	// (used for the directed key-type bases, which run in every tier into every destination style)
	mutate := func(t *ctype, ver primitive.ProtocolVersion, enc []byte, light bool) {
		emit(t, ver, "valid", enc)
		var offs [][2]int
		fieldOffsets(t, enc, 0, ver, &offs)
		// truncation at every offset
		for k := 0; k < len(enc); k++ {
			if light && !(k == 0 || k == len(enc)-1 || (len(offs) > 1 && k == offs[1][0]) || (len(offs) > 2 && k == offs[2][0]+1)) {
				continue
			}
			emit(t, ver, fmt.Sprintf("truncate@%d", k), enc[:k])
		}
		// count / length fields
		for _, ow := range offs {
			off, w := ow[0], ow[1]
			var repl []uint32
			if w == 4 {
				repl = []uint32{0xffffffff, 0xfffffffe, 0, 1, 0x00100000, 0x80000000, 0x80000001}
				if light {
					repl = []uint32{0xffffffff, 0}
				}
			} else {
				repl = []uint32{0, 1, 0xffff, 0xfffe, 0x8000}
				if light {
					repl = []uint32{0, 0xffff}
				}
			}
			for _, rv := range repl {
				m := append([]byte{}, enc...)
				if w == 4 {
					binary.BigEndian.PutUint32(m[off:], rv)
				} else {
					binary.BigEndian.PutUint16(m[off:], uint16(rv))
				}
				emit(t, ver, fmt.Sprintf("field@%d:=%#x", off, rv), m)
			}
			// the field off by one in both directions
			for _, d := range []int{-1, 1} {
				if light {
					break
				}
				m := append([]byte{}, enc...)
				if w == 4 {
					binary.BigEndian.PutUint32(m[off:], uint32(int(binary.BigEndian.Uint32(m[off:]))+d))
				} else {
					binary.BigEndian.PutUint16(m[off:], uint16(int(binary.BigEndian.Uint16(m[off:]))+d))
				}
				emit(t, ver, fmt.Sprintf("field@%d%+d", off, d), m)
			}
		}
		if light {
			return
		}
		// bit flips
		for k := 0; k < 12 && len(enc) > 0; k++ {
			m := append([]byte{}, enc...)
			p := g.pick(len(m))
			m[p] ^= 1 << uint(g.pick(8))
			emit(t, ver, fmt.Sprintf("flip@%d", p), m)
		}
		// appended garbage, random bytes
		emit(t, ver, "append1", append(append([]byte{}, enc...), 0))
		emit(t, ver, "append4", append(append([]byte{}, enc...), 0xff, 0xff, 0xff, 0xff))
		for k := 0; k < 4; k++ {
			m := make([]byte, 1+g.pick(24))
			g.r.Read(m)
			if k%2 == 0 && len(m) >= 4 {
				m[0], m[1], m[2] = 0, 0, 0
				m[3] &= 3
			}
			emit(t, ver, "random", m)
		}
	}
	encode := func(t *ctype, a *aval, r *rep, ver primitive.ProtocolVersion) []byte {
		codec, err := datacodec.NewCodec(t.dt)
		if err != nil {
			return nil
		}
		var enc []byte
		var eerr error
		if p, _ := safely(func() { enc, eerr = codec.Encode(r.mk(a).Interface(), ver) }); p || eerr != nil || enc == nil || len(enc) > 400 {
			return nil
		}
		return enc
	}
	// (1) directed: map / set types whose key decodes to an unhashable or pointer-typed Go value, into every destination style
	for bi, kb := range keyBases() {
		ver := primitive.ProtocolVersion4
		if bi%5 == 4 {
			ver = primitive.ProtocolVersion2
		}
		r := g.plan(kb.t, []*aval{kb.a}, false, true)
		enc := encode(kb.t, kb.a, r, ver)
		if enc == nil {
			continue
		}
		dests = dests[:0]
		seen := map[reflect.Type]bool{}
		for st := 1; st <= 3; st++ {
			if dt := styleType(kb.t, kb.a, st); !seen[dt] {
				seen[dt] = true
				dests = append(dests, dt)
			}
		}
		mutate(kb.t, ver, enc, true)
	}
	// (1b) directed: every container codec into pointers to interface types other than interface{} (defined empty interface, interface with
	// methods), at the top and one level down; the light mutants include the NULL value (truncate@0) and NULL / empty elements
	for bi, kb := range ifaceBases() {
		ver := primitive.ProtocolVersion4
		if bi%4 == 3 {
			ver = primitive.ProtocolVersion2
		}
		enc := encode(kb.t, kb.a, g.plan(kb.t, []*aval{kb.a}, false, true), ver)
		if enc == nil {
			continue
		}
		dests = dests[:0]
		seen := map[reflect.Type]bool{}
		for st := 4; st <= nStyles; st++ {
			if dt := styleType(kb.t, kb.a, st); !seen[dt] {
				seen[dt] = true
				dests = append(dests, dt)
			}
		}
		emit(kb.t, ver, "null", nil)
		mutate(kb.t, ver, enc, true)
	}
	// (2) generated type trees: every mutant into the untyped destination and into one typed destination (the styles and the
	// representation the value was encoded from take turns)
	budget := n
	for round := 0; budget > 0; round++ {
		var t *ctype
		if g.pick(5) == 0 {
			t = g.scalarType()
		} else {
			t = g.typeTree(2 + g.pick(3))
		}
		// values small enough to keep every truncation offset affordable
		var a *aval
		for tries := 0; ; tries++ {
			a = g.value(t, false)
			if a.size() <= 14 || tries > 20 {
				break
			}
		}
		ver := versions[g.pick(len(versions))]
		if g.pick(3) == 0 {
			ver = primitive.ProtocolVersion2
		}
		r := g.plan(t, []*aval{a}, false, round%2 == 0)
		enc := encode(t, a, r, ver)
		if enc == nil {
			continue
		}
		dests = dests[:0]
		if st := round % (nStyles + 1); st == 0 {
			dt := r.gt
			if dt.Kind() == reflect.Ptr && !isBigPtr(dt) {
				dt = dt.Elem()
			}
			if isBigPtr(dt) {
				dt = dt.Elem()
			}
			dests = append(dests, dt)
		} else {
			dests = append(dests, styleType(t, a, st))
		}
		before := id
		mutate(t, ver, enc, false)
		budget -= (id - before) / 2 // the budget counts mutants; each goes into two destinations
	}
}
