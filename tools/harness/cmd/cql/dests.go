package main

import (
	"fmt"
	"net"
	"reflect"

	"github.com/datastax/go-cassandra-native-protocol/datacodec"
	"github.com/datastax/go-cassandra-native-protocol/primitive"
)

// Destination Go types for a CQL type, beyond "the representation the value was encoded from" and *interface{}: the quantifier of C04 is
// "every CQL type/destination pair".  What makes a destination interesting for a decoder is where the decoded Go value of a map KEY ends
// up: a key that decodes to a slice / map (CQL list, set, map, tuple, UDT, blob, inet keys) is not hashable unless the destination's key
// type is an array, a struct, a pointer or a string - and an interface-typed key position receives whatever the element codec prefers.
//
//	style 1  maps keyed by interface{}: map[interface{}]V (V typed recursively); lists []E; tuples struct{F0..}; UDTs struct with tags
//	style 2  untyped containers: map[interface{}]interface{}, []interface{}, map[string]interface{}
//	style 3  typed keys: list/set key -> [n]E array ([n]interface{} when E is not comparable); tuple key -> [n]interface{};
//	         UDT key -> struct of interface{} fields; map key -> pointer to the map; blob key -> string; inet key -> *net.IP
//	style 4  pointer to a DEFINED empty interface (type anyV interface{}, like database/sql/driver.Value): not *interface{}, yet everything is
//	         assignable to it
//	style 5  pointer to an interface WITH methods (fmt.Stringer): no preferred Go type implements it
//	style 6  the same one level down: []anyV, map[anyV]anyV, struct{F0 anyV ...}, map[string]anyV
//	style 7  one level down with methods: []fmt.Stringer, map[anyV]fmt.Stringer, []fmt.Stringer, map[string]fmt.Stringer
const nStyles = 7

// anyV is a defined interface type without methods
type anyV interface{}

var (
	tAnyV     = reflect.TypeOf((*anyV)(nil)).Elem()
	tStringer = reflect.TypeOf((*fmt.Stringer)(nil)).Elem()
)

func prefGt(s string) reflect.Type { return scalarReps(s)[0].gt }

func first(a *aval) (e *aval) {
	if a != nil && len(a.elems) > 0 {
		return a.elems[0]
	}
	return nil
}

func structOf(fts []reflect.Type, tags []string) reflect.Type {
	var sf []reflect.StructField
	for i, ft := range fts {
		f := reflect.StructField{Name: fmt.Sprintf("F%d", i), Type: ft}
		if tags != nil {
			f.Tag = reflect.StructTag(`cassandra:"` + tags[i] + `"`)
		}
		sf = append(sf, f)
	}
	return reflect.StructOf(sf)
}

// styleType: the destination type of the given style for CQL type t; the sample value a (may be nil) fixes array lengths.
func styleType(t *ctype, a *aval, style int) reflect.Type {
	if a != nil && a.kind == "null" {
		a = nil
	}
	switch style {
	case 4:
		return tAnyV
	case 5:
		return tStringer
	case 6, 7:
		it := tAnyV
		if style == 7 {
			it = tStringer
		}
		switch t.kind {
		case "scalar":
			return it
		case "list", "set":
			return reflect.SliceOf(it)
		case "map":
			return reflect.MapOf(tAnyV, it)
		case "tuple":
			if style == 7 {
				return reflect.SliceOf(it)
			}
			fts := make([]reflect.Type, len(t.fields))
			for i := range fts {
				fts[i] = it
			}
			return structOf(fts, nil)
		default:
			return reflect.MapOf(tString, it)
		}
	}
	switch t.kind {
	case "scalar":
		return prefGt(t.scalar)
	case "list", "set":
		if style == 2 {
			return reflect.SliceOf(tIface)
		}
		return reflect.SliceOf(styleType(t.elem, first(a), style))
	case "map":
		var k, v *aval
		if a != nil && len(a.pairs) > 0 {
			k, v = a.pairs[0][0], a.pairs[0][1]
		}
		switch style {
		case 1:
			return reflect.MapOf(tIface, styleType(t.val, v, style))
		case 2:
			return reflect.MapOf(tIface, tIface)
		}
		return reflect.MapOf(keyStyle(t.key, k), styleType(t.val, v, style))
	case "tuple":
		if style == 2 {
			return reflect.SliceOf(tIface)
		}
		fts := make([]reflect.Type, len(t.fields))
		for i, f := range t.fields {
			var e *aval
			if a != nil && i < len(a.elems) {
				e = a.elems[i]
			}
			fts[i] = styleType(f, e, style)
		}
		return structOf(fts, nil)
	case "udt":
		if style != 1 {
			return reflect.MapOf(tString, tIface)
		}
		fts := make([]reflect.Type, len(t.fields))
		for i, f := range t.fields {
			var e *aval
			if a != nil && i < len(a.elems) {
				e = a.elems[i]
			}
			fts[i] = styleType(f, e, style)
		}
		return structOf(fts, t.names)
	}
	panic("styleType")
}

// keyStyle: a typed (comparable) Go key type for a CQL map key of type kt (style 3)
func keyStyle(kt *ctype, k *aval) reflect.Type {
	if k != nil && k.kind == "null" {
		k = nil
	}
	switch kt.kind {
	case "scalar":
		switch kt.scalar {
		case "SBlob", "SCustom":
			return tString
		case "SInet":
			return reflect.PtrTo(reflect.TypeOf(net.IP{}))
		}
		return prefGt(kt.scalar)
	case "list", "set":
		n := 1
		if k != nil {
			n = len(k.elems)
		}
		et := styleType(kt.elem, first(k), 3)
		if !et.Comparable() {
			et = tIface
		}
		return reflect.ArrayOf(n, et)
	case "map":
		return reflect.PtrTo(styleType(kt, k, 3))
	case "tuple":
		return reflect.ArrayOf(len(kt.fields), tIface)
	case "udt":
		fts := make([]reflect.Type, len(kt.fields))
		for i := range fts {
			fts[i] = tIface
		}
		return structOf(fts, kt.names)
	}
	panic("keyStyle")
}

type destRes struct {
	Class   string
	WasNull bool
	Gty     string // the destination type in the universe of coq/model/CqlGoVal.v ("" when outside it)
	G       string // the value the destination variable holds afterwards (class ok)
	Err     string
}

// decodeInto: Codec.Decode(b, &variable of type dt) inside recover()
func decodeInto(t *ctype, codec datacodec.Codec, b []byte, ver primitive.ProtocolVersion, dt reflect.Type) destRes {
	var res destRes
	if gty, ok := gtyOf(t, dt); ok {
		res.Gty = gty
	}
	dptr := reflect.New(dt)
	var derr error
	if p, msg := safely(func() { res.WasNull, derr = codec.Decode(b, dptr.Interface(), ver) }); p {
		res.Class, res.Err = "panic", msg
	} else if derr != nil {
		res.Class, res.Err = "err", derr.Error()
	} else {
		res.Class = "ok"
		if res.Gty != "" {
			if res.G = gvalOf(t, dt, dptr.Elem()); !inUniverse(res.G) {
				res.Gty, res.G = "", ""
			}
		}
	}
	if len(res.Err) > 200 {
		res.Err = res.Err[:200]
	}
	return res
}

// keyBases: map and set types whose KEY / element type decodes to a Go value that is unhashable or pointer-typed (collections, tuples,
// UDTs, blob, inet), with one small value each.  They lead the malformed stream of every tier.
func keyBases() []struct {
	t *ctype
	a *aval
} {
	i32, txt, blob, inet := scalarT("SInt"), scalarT("SVarchar"), scalarT("SBlob"), scalarT("SInet")
	lst := func(es ...*aval) *aval { return &aval{kind: "list", elems: es} }
	tup := func(es ...*aval) *aval { return &aval{kind: "tuple", elems: es} }
	udt := func(es ...*aval) *aval { return &aval{kind: "udt", elems: es} }
	mp := func(kv ...*aval) *aval {
		m := &aval{kind: "map"}
		for i := 0; i+1 < len(kv); i += 2 {
			m.pairs = append(m.pairs, [2]*aval{kv[i], kv[i+1]})
		}
		return m
	}
	ip4 := &aval{kind: "inet", bs: []byte{10, 0, 0, 1}}
	keys := []struct {
		t *ctype
		a *aval
	}{
		{listT(i32), lst(vint(1))},
		{setT(txt), lst(aBytes([]byte("a")), aBytes([]byte("b")))},
		{mapT(i32, i32), mp(vint(1), vint(2))},
		{tupleT(i32, txt), tup(vint(1), aBytes([]byte("x")))},
		{tupleT(listT(i32)), tup(lst(vint(1)))},
		{udtT([]string{"a", "b"}, i32, listT(txt)), udt(vint(1), lst(aBytes([]byte("y"))))},
		{blob, aBytes([]byte{1, 2})},
		{inet, ip4},
		{listT(listT(i32)), lst(lst(vint(1)))},
		{i32, vint(3)},
	}
	var r []struct {
		t *ctype
		a *aval
	}
	add := func(t *ctype, a *aval) {
		r = append(r, struct {
			t *ctype
			a *aval
		}{t, a})
	}
	for _, k := range keys {
		add(mapT(k.t, i32), mp(k.a, vint(7)))
	}
	add(setT(listT(i32)), lst(lst(vint(1)), lst()))
	add(setT(tupleT(i32, blob)), lst(tup(vint(1), aBytes([]byte{9}))))
	add(mapT(listT(i32), listT(i32)), mp(lst(vint(1)), lst(vint(2))))
	add(listT(mapT(blob, i32)), lst(mp(aBytes([]byte{1}), vint(2))))
	add(mapT(i32, mapT(listT(i32), txt)), mp(vint(1), mp(lst(vint(1)), aBytes([]byte("z")))))
	add(tupleT(mapT(setT(i32), i32)), tup(mp(lst(vint(4)), vint(5))))
	return r
}

// ifaceBases: one small value per container codec (and a scalar), for the interface-typed destinations of styles 4-7
func ifaceBases() []struct {
	t *ctype
	a *aval
} {
	i32, txt := scalarT("SInt"), scalarT("SVarchar")
	lst := func(es ...*aval) *aval { return &aval{kind: "list", elems: es} }
	return []struct {
		t *ctype
		a *aval
	}{
		{listT(i32), lst(vint(1))},
		{setT(i32), lst(vint(1))},
		{mapT(i32, i32), &aval{kind: "map", pairs: [][2]*aval{{vint(1), vint(2)}}}},
		{tupleT(i32), &aval{kind: "tuple", elems: []*aval{vint(1)}}},
		{udtT([]string{"a"}, i32), &aval{kind: "udt", elems: []*aval{vint(1)}}},
		{listT(tupleT(i32)), lst(&aval{kind: "tuple", elems: []*aval{vint(1)}})},
		{mapT(txt, udtT([]string{"a"}, i32)), &aval{kind: "map", pairs: [][2]*aval{{aBytes([]byte("k")), &aval{kind: "udt", elems: []*aval{vint(1)}}}}}},
		{tupleT(listT(i32), mapT(i32, i32)), &aval{kind: "tuple", elems: []*aval{lst(vint(1)), {kind: "map", pairs: [][2]*aval{{vint(1), vint(2)}}}}}},
		{i32, vint(3)},
		{txt, aBytes([]byte("x"))},
	}
}
