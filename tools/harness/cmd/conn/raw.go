package main

// The raw peer: a client and a server written directly on top of the frame and segment codecs (NOT the client package).
// It chooses how envelopes are put into segments, writes in chunks (so that the real side sees partial reads), and
// captures what the real side writes so that the v5 wire format can be checked.

import (
	"bufio"
	"bytes"
	"errors"
	"fmt"
	"io"
	"net"
	"sync/atomic"
	"time"

	"github.com/datastax/go-cassandra-native-protocol/compression/lz4"
	"github.com/datastax/go-cassandra-native-protocol/compression/snappy"
	"github.com/datastax/go-cassandra-native-protocol/crc"
	"github.com/datastax/go-cassandra-native-protocol/frame"
	"github.com/datastax/go-cassandra-native-protocol/primitive"
	"github.com/datastax/go-cassandra-native-protocol/segment"
)

// Bounded waits. Nothing in a session depends on timing for its verdict: a wait either ends because the expected
// bytes / frames arrived, or it expires and the session reports what did not arrive. The margin is generous (loaded
// machines); once ANY session of the run has failed the run is going to report a violation anyway, and the remaining
// sessions only add detail: they then wait for a few seconds only, which bounds the wall time of a failing run.
const ioTimeout = 20 * time.Second
const shortTimeout = 4 * time.Second

var impatient int32

func patience() time.Duration {
	if atomic.LoadInt32(&impatient) != 0 {
		return shortTimeout
	}
	return ioTimeout
}

func losePatience() { atomic.StoreInt32(&impatient, 1) }

type rawPeer struct {
	conn      net.Conn
	rd        *bufio.Reader
	version   primitive.ProtocolVersion
	comp      primitive.Compression
	frames    frame.Codec    // with the negotiated body compressor (legacy layout)
	rawFrames frame.RawCodec // the same, with access to header and body bytes
	segments  segment.Codec  // with the negotiated payload compressor (modern layout)
	chunk     int            // write chunk size (0: one Write per unit)
	modern    bool
}

func newRawPeer(conn net.Conn, v primitive.ProtocolVersion, comp primitive.Compression, chunk int) *rawPeer {
	return &rawPeer{conn: conn, rd: bufio.NewReaderSize(conn, 1<<16), version: v, comp: comp, chunk: chunk,
		frames:    frame.NewCodecWithCompression(specBodyCompressor(comp)),
		rawFrames: frame.NewRawCodecWithCompression(specBodyCompressor(comp)),
		segments:  segment.NewCodecWithCompression(specPayloadCompressor(comp))}
}

// The raw peer takes NOTHING about the protocol from package client (the code under test): the compressors are chosen here, by
// the NAME of the algorithm negotiated in STARTUP, straight from the compression packages.
//
//	frame bodies (legacy framing, v2-v4 / DSE; specs section 5): "lz4" = LZ4 block preceded by the 4-byte big-endian uncompressed
//	length; "snappy" = Snappy block.   segment payloads (v5 spec 2.2): LZ4 only; the lengths are in the segment header.
func specBodyCompressor(c primitive.Compression) frame.BodyCompressor {
	switch c {
	case primitive.CompressionLz4:
		return lz4.Compressor{}
	case primitive.CompressionSnappy:
		return snappy.Compressor{}
	}
	return nil
}

func specPayloadCompressor(c primitive.Compression) segment.PayloadCompressor {
	if c == primitive.CompressionLz4 {
		return lz4.Compressor{}
	}
	return nil
}

// SASL PLAIN token of the PasswordAuthenticator (RFC 4616: authzid NUL authcid NUL passwd), written out here
func plainToken(user, password string) []byte {
	return append(append(append([]byte{0}, user...), 0), password...)
}

// wrongAlgorithm: a body flagged COMPRESSED that does not decompress with the algorithm negotiated in STARTUP
type wrongAlgorithm struct{ what string }

func (e *wrongAlgorithm) Error() string { return e.what }

func isWrongAlgorithm(err error) bool {
	var e *wrongAlgorithm
	return errors.As(err, &e)
}

func (p *rawPeer) write(b []byte) error {
	_ = p.conn.SetWriteDeadline(time.Now().Add(patience()))
	if p.chunk <= 0 {
		_, err := p.conn.Write(b)
		return err
	}
	for len(b) > 0 {
		n := p.chunk
		if n > len(b) {
			n = len(b)
		}
		if _, err := p.conn.Write(b[:n]); err != nil {
			return err
		}
		b = b[n:]
	}
	return nil
}

// legacy layout: one frame, body compressed iff the frame's flag is set
func (p *rawPeer) writeFrame(f *frame.Frame) error {
	buf := &bytes.Buffer{}
	if err := p.frames.EncodeFrame(f, buf); err != nil {
		return err
	}
	return p.write(buf.Bytes())
}

// notLegacy: the bytes the real side wrote where the specification prescribes a bare (legacy) frame are something else
type notLegacy struct{ what string }

func (e *notLegacy) Error() string { return e.what }

// legacyStart looks at the next bytes without consuming them: a frame starts with the version byte (bit 7 = direction).
// Anything else is described - in particular whether the bytes are the header of a v5 segment (3 or 5 bytes little endian
// followed by their CRC-24), which is what an end does that has wrongly switched to the modern framing layout.
func (p *rawPeer) legacyStart() error {
	_ = p.conn.SetReadDeadline(time.Now().Add(patience()))
	b, err := p.rd.Peek(1)
	if err != nil {
		return err
	}
	if primitive.ProtocolVersion(b[0]&0x7f) == p.version {
		return nil
	}
	hl := 6
	if p.comp == primitive.CompressionLz4 {
		hl = 8
	}
	b, _ = p.rd.Peek(hl)
	seg := false
	if len(b) == hl {
		var data uint64
		for i := 0; i < hl-3; i++ {
			data |= uint64(b[i]) << (8 * uint(i))
		}
		got := uint32(b[hl-3]) | uint32(b[hl-2])<<8 | uint32(b[hl-1])<<16
		seg = crc.ChecksumKoopman(data, hl-3) == got
	}
	return &notLegacy{fmt.Sprintf("the bytes on the wire are not a legacy frame of version %d (first byte %#02x, next bytes %x); they are the header of a "+
		"checksummed v5 segment (CRC-24 matches): %v - the specification of this version prescribes bare frames after the handshake", p.version, b[0], b, seg)}
}

func (p *rawPeer) readFrame() (*frame.Frame, error) {
	if err := p.legacyStart(); err != nil {
		return nil, err
	}
	_ = p.conn.SetReadDeadline(time.Now().Add(patience()))
	// header and body bytes as they are on the wire first, then the body is decompressed with the NEGOTIATED algorithm
	raw, err := p.rawFrames.DecodeRawFrame(p.rd)
	if err != nil {
		return nil, err
	}
	return p.convertNegotiated(raw)
}

// convertNegotiated decodes a raw frame, decompressing a flagged body with the algorithm negotiated in STARTUP
func (p *rawPeer) convertNegotiated(raw *frame.RawFrame) (*frame.Frame, error) {
	f, err := p.rawFrames.ConvertFromRawFrame(raw)
	if err != nil && raw.Header.Flags.Contains(primitive.HeaderFlagCompressed) {
		other := ""
		for _, alt := range []primitive.Compression{primitive.CompressionLz4, primitive.CompressionSnappy} {
			if alt == p.comp {
				continue
			}
			cp := &frame.RawFrame{Header: raw.Header.DeepCopy(), Body: raw.Body}
			if _, e2 := frame.NewRawCodecWithCompression(specBodyCompressor(alt)).ConvertFromRawFrame(cp); e2 == nil {
				other = string(alt)
			}
		}
		n := len(raw.Body)
		if n > 16 {
			n = 16
		}
		return nil, &wrongAlgorithm{fmt.Sprintf("version %d, %s negotiated in STARTUP: the %v on stream %d has the COMPRESSED flag and a %d-byte body %x... that does "+
			"not decompress with %s (%v); it decompresses and decodes with: %q", p.version, compName(p.comp), raw.Header.OpCode, raw.Header.StreamId, len(raw.Body), raw.Body[:n],
			compName(p.comp), err, other)}
	}
	return f, err
}

func isNotLegacy(err error) bool {
	var e *notLegacy
	return errors.As(err, &e)
}

type wireSeg struct {
	Self    bool
	Payload []byte
}

type segObs struct {
	Self bool   `json:"self"`
	Len  int    `json:"len"`
	Crc  uint32 `json:"crc"` // ChecksumIEEE of the uncompressed payload
}

func obsOf(ws []wireSeg) []segObs {
	r := make([]segObs, len(ws))
	for i, w := range ws {
		r[i] = segObs{Self: w.Self, Len: len(w.Payload), Crc: crc.ChecksumIEEE(w.Payload)}
	}
	return r
}

func (p *rawPeer) writeSegments(ws []wireSeg) error {
	buf := &bytes.Buffer{}
	for _, w := range ws {
		seg := &segment.Segment{Header: &segment.Header{IsSelfContained: w.Self}, Payload: &segment.Payload{UncompressedData: w.Payload}}
		if err := p.segments.EncodeSegment(seg, buf); err != nil {
			return fmt.Errorf("raw peer cannot encode segment: %w", err)
		}
	}
	return p.write(buf.Bytes())
}

func (p *rawPeer) readSegment() (wireSeg, error) {
	_ = p.conn.SetReadDeadline(time.Now().Add(patience()))
	seg, err := p.segments.DecodeSegment(p.rd)
	if err != nil {
		return wireSeg{}, err
	}
	return wireSeg{Self: seg.Header.IsSelfContained, Payload: seg.Payload.UncompressedData}, nil
}

// envelopesOf decodes the envelopes of a self-contained payload with a codec WITHOUT compressor: an envelope whose
// compression flag is set is reported (format violation), not decoded.
func envelopesOf(payload []byte) ([]*frame.Frame, string) {
	var res []*frame.Frame
	r := bytes.NewReader(payload)
	for r.Len() > 0 {
		start := len(payload) - r.Len()
		raw := frame.NewRawCodec()
		h, err := raw.DecodeHeader(bytes.NewReader(payload[start:]))
		if err != nil {
			return res, fmt.Sprintf("payload offset %d: no envelope header: %v", start, err)
		}
		if h.Flags.Contains(primitive.HeaderFlagCompressed) {
			return res, fmt.Sprintf("envelope at payload offset %d (stream %d, opcode %v) has the compression flag set inside a segment", start, h.StreamId, h.OpCode)
		}
		end := start + 9 + int(h.BodyLength)
		if h.BodyLength < 0 || end > len(payload) {
			return res, fmt.Sprintf("envelope at payload offset %d declares %d body bytes, payload has %d left", start, h.BodyLength, len(payload)-start-9)
		}
		f, err := plainCodec.DecodeFrame(bytes.NewReader(payload[start:end]))
		if err != nil {
			return res, fmt.Sprintf("envelope at payload offset %d does not decode: %v", start, err)
		}
		res = append(res, f)
		if _, err := r.Seek(int64(end), io.SeekStart); err != nil {
			return res, err.Error()
		}
	}
	return res, ""
}

// readModernFrames reads segments until want envelopes have been seen (or an error); it returns the envelopes, the
// segments and the first format violation. A multi-segment envelope written by the real side is reassembled here too
// (the library never writes one; if it did this would still be spec-conforming).
func (p *rawPeer) readModernFrames(stop func(*frame.Frame) bool) ([]*frame.Frame, []wireSeg, string, error) {
	var frames []*frame.Frame
	var segs []wireSeg
	var acc []byte
	target := 0
	for {
		w, err := p.readSegment()
		if err != nil {
			return frames, segs, "", err
		}
		segs = append(segs, w)
		var fs []*frame.Frame
		var bad string
		if w.Self {
			fs, bad = envelopesOf(w.Payload)
		} else {
			acc = append(acc, w.Payload...)
			if target == 0 && len(acc) >= 9 {
				h, err := frame.NewRawCodec().DecodeHeader(bytes.NewReader(acc))
				if err != nil {
					return frames, segs, "multi-segment envelope: " + err.Error(), nil
				}
				target = 9 + int(h.BodyLength)
			}
			if target > 0 && len(acc) >= target {
				fs, bad = envelopesOf(acc[:target])
				acc, target = nil, 0
			}
		}
		frames = append(frames, fs...)
		if bad != "" {
			return frames, segs, bad, nil
		}
		for _, f := range fs {
			if stop(f) {
				return frames, segs, "", nil
			}
		}
	}
}

func isEOF(err error) bool {
	if err == nil {
		return false
	}
	var ne net.Error
	if errors.As(err, &ne) && ne.Timeout() {
		return false
	}
	return true // EOF, unexpected EOF, connection reset: the other side closed
}

func isTimeout(err error) bool {
	var ne net.Error
	return err != nil && errors.As(err, &ne) && ne.Timeout()
}
