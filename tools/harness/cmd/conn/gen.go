package main

// Frames, fillers and the equality predicate shared by the three kinds of session.

import (
	"bytes"
	"encoding/hex"
	"fmt"

	"github.com/datastax/go-cassandra-native-protocol/datatype"
	"github.com/datastax/go-cassandra-native-protocol/frame"
	"github.com/datastax/go-cassandra-native-protocol/message"
	"github.com/datastax/go-cassandra-native-protocol/primitive"
)

// ---- fillers (mirrored in coq/model/Conn.v: filler / lcg_filler)

// fillP: byte i = (seed + 7*i) mod 251  (compressible; no 4-gram repeats at distance 65536: the period is 251)
func fillP(seed, n int) []byte {
	b := make([]byte, n)
	x := seed % 251
	for i := range b {
		b[i] = byte(x)
		x = (x + 7) % 251
	}
	return b
}

// fillL: x' = (x*1103515245 + 12345) mod 2^31, byte = (x' >> 16) & 255  (incompressible for LZ4)
func fillL(seed, n int) []byte {
	b := make([]byte, n)
	x := uint64(seed) % (1 << 31)
	for i := range b {
		x = (x*1103515245 + 12345) % (1 << 31)
		b[i] = byte((x >> 16) & 255)
	}
	return b
}

func fill(kind string, seed, n int) []byte {
	if kind == "l" {
		return fillL(seed, n)
	}
	return fillP(seed, n)
}

// a 4-byte repeat at distance exactly 65536 (class "lz4-offset-65536": known defect of pierrec/lz4, see C08)
func hasRepeat65536(b []byte) bool {
	for i := 0; i+65536+4 <= len(b); i++ {
		if b[i] == b[i+65536] && b[i+1] == b[i+65537] && b[i+2] == b[i+65538] && b[i+3] == b[i+65539] {
			return true
		}
	}
	return false
}

// ---- frame descriptions

// frameSpec says how a frame is built; it is the replayable form of a frame.
type frameSpec struct {
	Kind     string `json:"kind"`
	Sid      int    `json:"sid"`
	Fill     string `json:"fill,omitempty"` // "p" | "l"
	Seed     int    `json:"seed,omitempty"`
	N        int    `json:"n"`
	Compress bool   `json:"compress,omitempty"` // compression flag set by the sender (legacy: body compressed)
	Tracing  bool   `json:"tracing,omitempty"`
	Payload  bool   `json:"payload,omitempty"` // custom payload with one entry (v4+)
	// Spare > 0: the body carries that many bytes MORE than the message needs (the header's length field counts them).
	// Every specification, section 2: a body "may contain more data than what is described in this document. It will
	// however always be safe to ignore the remainder of the frame body". Such an envelope is written uncompressed.
	Spare int `json:"spare,omitempty"`
}

// spareBytes: the bytes appended after the message (a recognisable pattern that is not a frame header of any version)
func spareBytes(n int) []byte {
	pat := []byte{0xCA, 0xFE, 0xBA, 0xBE, 0x4A, 0x00, 0xFF}
	b := make([]byte, n)
	for i := range b {
		b[i] = pat[i%len(pat)]
	}
	return b
}

// withSpare appends n spare bytes to the body of an encoded, uncompressed envelope and corrects its length field
func withSpare(env []byte, v primitive.ProtocolVersion, n int) []byte {
	if n <= 0 {
		return env
	}
	hl := specHeaderLen(v)
	out := append(append([]byte(nil), env...), spareBytes(n)...)
	bl := len(out) - hl
	out[hl-4], out[hl-3], out[hl-2], out[hl-1] = byte(bl>>24), byte(bl>>16), byte(bl>>8), byte(bl)
	return out
}

var blobType = datatype.Blob

func one() *message.QueryOptions {
	return &message.QueryOptions{Consistency: primitive.ConsistencyLevelOne}
}

func hasResultMetadataId(v primitive.ProtocolVersion) bool {
	return v == primitive.ProtocolVersion5 || v == primitive.ProtocolVersionDse2
}

func clampShort(n int) int {
	if n > 65535 {
		return 65535
	}
	if n < 1 {
		return 1
	}
	return n
}

// build returns the frame and the filler bytes it contains (nil when none).
func (s frameSpec) build(v primitive.ProtocolVersion) (*frame.Frame, []byte) {
	var msg message.Message
	var fl []byte
	str := func(n int) string { fl = fill(s.Fill, s.Seed, n); return string(fl) }
	byt := func(n int) []byte { fl = fill(s.Fill, s.Seed, n); return fl }
	switch s.Kind {
	case "options":
		msg = &message.Options{}
	case "query":
		msg = &message.Query{Query: str(s.N), Options: one()}
	case "prepare":
		msg = &message.Prepare{Query: str(maxInt(s.N, 1))}
	case "execute":
		m := &message.Execute{QueryId: byt(clampShort(s.N)), Options: one()}
		if hasResultMetadataId(v) {
			m.ResultMetadataId = []byte{1, 2, 3, 4}
		}
		msg = m
	case "batch":
		msg = &message.Batch{Type: primitive.BatchTypeLogged, Consistency: primitive.ConsistencyLevelOne,
			Children: []*message.BatchChild{{Query: str(maxInt(s.N, 1))}}}
	case "register":
		msg = &message.Register{EventTypes: []primitive.EventType{primitive.EventTypeSchemaChange, primitive.EventTypeStatusChange}}
	case "authresponse":
		msg = &message.AuthResponse{Token: byt(s.N)}
	case "supported":
		msg = &message.Supported{Options: map[string][]string{"COMPRESSION": {"lz4", "snappy"}}}
	case "rows":
		msg = &message.RowsResult{
			Metadata: &message.RowsMetadata{ColumnCount: 1, Columns: []*message.ColumnMetadata{{Keyspace: "ks", Table: "tb", Name: "c", Type: blobType}}},
			Data:     message.RowSet{message.Row{byt(s.N)}},
		}
	case "void":
		msg = &message.VoidResult{}
	case "setks":
		msg = &message.SetKeyspaceResult{Keyspace: str(clampShort(s.N))}
	case "unavailable":
		msg = &message.Unavailable{ErrorMessage: str(clampShort(s.N)), Consistency: primitive.ConsistencyLevelQuorum, Required: 3, Alive: 1}
	case "authchallenge":
		msg = &message.AuthChallenge{Token: byt(s.N)}
	case "ready":
		msg = &message.Ready{}
	case "event":
		msg = &message.SchemaChangeEvent{ChangeType: primitive.SchemaChangeTypeCreated, Target: primitive.SchemaChangeTargetKeyspace, Keyspace: str(clampShort(s.N))}
	default:
		panic("unknown frame kind " + s.Kind)
	}
	f := frame.NewFrame(v, int16(s.Sid), msg)
	if s.Tracing && !msg.IsResponse() {
		f.RequestTracingId(true)
	}
	if s.Payload && v >= primitive.ProtocolVersion4 {
		f.SetCustomPayload(map[string][]byte{"k": {1, 2, 3}})
	}
	if s.Compress {
		f.SetCompress(true)
	}
	return f, fl
}

func maxInt(a, b int) int {
	if a > b {
		return a
	}
	return b
}

// what the server-side echo loop answers to a request
func echoSpec(req *frame.Frame, spec frameSpec) frameSpec {
	r := frameSpec{Sid: int(req.Header.StreamId), Fill: spec.Fill, Seed: spec.Seed + 1, N: spec.N}
	switch req.Body.Message.(type) {
	case *message.Options:
		r.Kind = "supported"
	case *message.Query:
		r.Kind = "rows"
	case *message.Prepare:
		r.Kind = "setks"
	case *message.Execute:
		r.Kind = "void"
	case *message.Batch:
		r.Kind = "unavailable"
	case *message.Register:
		r.Kind = "ready"
	case *message.AuthResponse:
		r.Kind = "authchallenge"
	default:
		r.Kind = "void"
	}
	return r
}

// echo builds a response from the decoded request alone (what a server handler can do)
func echo(req *frame.Frame) *frame.Frame {
	v := req.Header.Version
	sid := req.Header.StreamId
	var msg message.Message
	switch m := req.Body.Message.(type) {
	case *message.Options:
		msg = &message.Supported{Options: map[string][]string{"COMPRESSION": {"lz4", "snappy"}}}
	case *message.Query:
		cell := []byte(m.Query)
		if specModern(v) && len(cell) > 100000 {
			// this library cannot SEND an envelope that does not fit one segment (see the oversize probe): answer with a prefix
			cell = cell[:1000]
		}
		msg = &message.RowsResult{
			Metadata: &message.RowsMetadata{ColumnCount: 1, Columns: []*message.ColumnMetadata{{Keyspace: "ks", Table: "tb", Name: "c", Type: blobType}}},
			Data:     message.RowSet{message.Row{cell}},
		}
	case *message.Prepare:
		q := m.Query
		if len(q) > 65535 {
			q = q[:65535]
		}
		msg = &message.SetKeyspaceResult{Keyspace: q}
	case *message.Execute:
		msg = &message.VoidResult{}
	case *message.Batch:
		q := "batch"
		if len(m.Children) > 0 {
			q = m.Children[0].Query
		}
		if len(q) > 65535 {
			q = q[:65535]
		}
		msg = &message.Unavailable{ErrorMessage: q, Consistency: primitive.ConsistencyLevelQuorum, Required: 3, Alive: 1}
	case *message.Register:
		msg = &message.Ready{}
	case *message.AuthResponse:
		tok := m.Token
		if specModern(v) && len(tok) > 100000 {
			tok = tok[:1000]
		}
		msg = &message.AuthChallenge{Token: tok}
	default:
		msg = &message.VoidResult{}
	}
	return frame.NewFrame(v, sid, msg)
}

// ---- equality up to nil/empty: same header fields (compression flag and body length aside) and same plain encoding

var plainCodec = frame.NewCodec()
var plainRaw = frame.NewRawCodec()

func plainBytes(f *frame.Frame) ([]byte, error) {
	c := f.DeepCopy()
	c.Header.Flags = c.Header.Flags.Remove(primitive.HeaderFlagCompressed)
	buf := &bytes.Buffer{}
	if err := plainCodec.EncodeFrame(c, buf); err != nil {
		return nil, err
	}
	return buf.Bytes(), nil
}

func sameFrame(sent, got *frame.Frame) string {
	if sent == nil || got == nil {
		if sent != got {
			return "one frame is missing"
		}
		return ""
	}
	hs, hg := sent.Header, got.Header
	if hs.IsResponse != hg.IsResponse || hs.Version != hg.Version || hs.StreamId != hg.StreamId || hs.OpCode != hg.OpCode {
		return fmt.Sprintf("header differs: sent %v, got %v", hs, hg)
	}
	if hs.Flags.Remove(primitive.HeaderFlagCompressed) != hg.Flags.Remove(primitive.HeaderFlagCompressed) {
		return fmt.Sprintf("flags differ: sent %v, got %v", hs.Flags, hg.Flags)
	}
	bs, err1 := plainBytes(sent)
	bg, err2 := plainBytes(got)
	if err1 != nil || err2 != nil {
		return fmt.Sprintf("cannot re-encode for comparison: %v / %v", err1, err2)
	}
	if !bytes.Equal(bs, bg) {
		i := 0
		for i < len(bs) && i < len(bg) && bs[i] == bg[i] {
			i++
		}
		return fmt.Sprintf("body differs at offset %d (lengths %d / %d)", i, len(bs), len(bg))
	}
	return ""
}

// ---- description of an envelope for the model (coq/model/Conn.v raw_envelope): header fields, body = pre ++ filler ++ suf

type envDesc struct {
	V     int    `json:"v"`
	Resp  bool   `json:"resp"`
	Flags int    `json:"flags"`
	Sid   int    `json:"sid"`
	Op    int    `json:"op"`
	Pre   string `json:"pre"`
	Fill  string `json:"fill"` // "" | "p" | "l"
	Seed  int    `json:"seed"`
	N     int    `json:"n"`
	Suf   string `json:"suf"`
	Len   int    `json:"len"` // length of the whole envelope
}

// describe encodes f without compression (flags as given, compression bit kept in the description only) and locates
// the filler inside the body.
func describe(f *frame.Frame, fl []byte, kind string, seed int, spare int) (envDesc, []byte, error) {
	d, env, err := describe0(f, fl, kind, seed)
	if err != nil || spare <= 0 {
		return d, env, err
	}
	env = withSpare(env, f.Header.Version, spare)
	d.Suf += hex.EncodeToString(spareBytes(spare))
	d.Len = len(env)
	return d, env, nil
}

func describe0(f *frame.Frame, fl []byte, kind string, seed int) (envDesc, []byte, error) {
	flags := f.Header.Flags
	env, err := plainBytes(f)
	if err != nil {
		return envDesc{}, nil, err
	}
	hl := specHeaderLen(f.Header.Version)
	body := env[hl:]
	d := envDesc{V: int(f.Header.Version), Resp: f.Header.IsResponse, Flags: int(flags), Sid: int(f.Header.StreamId), Op: int(f.Header.OpCode), Len: len(env)}
	// the filler may appear truncated (a [string] holds at most 65535 bytes; the echo of a large v5 request is a prefix)
	for _, n := range []int{len(fl), 65535, 1000} {
		if n < 16 || n > len(fl) {
			continue
		}
		if i := bytes.Index(body, fl[:n]); i >= 0 {
			d.Pre, d.Fill, d.Seed, d.N, d.Suf = hex.EncodeToString(body[:i]), kind, seed, n, hex.EncodeToString(body[i+n:])
			return d, env, nil
		}
	}
	d.Pre = hex.EncodeToString(body)
	return d, env, nil
}
