// Command conn: harness of property C15 (client and server exchange frames intact under every version and compression).
//
//	harness-conn quick|thorough        run the session plan of the tier, one JSON line per session
//	harness-conn replay <file.json>    re-run one session from the "replay" object of a violation
//
// Every random choice derives from VERIF_SEED. Socket work uses 127.0.0.1 with ephemeral ports, bounded waits of
// several seconds and no timing assumption: a session either completes or reports what did not arrive.
package main

import (
	"encoding/json"
	"fmt"
	"io/ioutil"
	"math/rand"
	"os"
	"time"

	"github.com/rs/zerolog"

	"github.com/datastax/go-cassandra-native-protocol/primitive"
	"verifharness/hlib"
)

var versions = []primitive.ProtocolVersion{primitive.ProtocolVersion2, primitive.ProtocolVersion3, primitive.ProtocolVersion4,
	primitive.ProtocolVersion5, primitive.ProtocolVersionDse1, primitive.ProtocolVersionDse2}
var comps = []primitive.Compression{primitive.CompressionNone, primitive.CompressionLz4, primitive.CompressionSnappy}

// What the SPECIFICATIONS say about a version - written down here, never asked of the library under test (a raw peer that
// asked primitive.ProtocolVersion would follow the library into any mistake about its own capabilities):
//   - framing: checksummed segments after the handshake exist in native_protocol_v5.spec only (section 2); v2, v3, v4 and both
//     DSE protocol versions (DSE v1 = v4-based, DSE v2 = v5-beta-based, before segments were introduced) use bare frames throughout
//   - header: 8 bytes with a one-byte stream id in v1/v2, 9 bytes from v3 on
//   - compression: lz4 and snappy up to v4 and in DSE; v5 knows lz4 only
func specModern(v primitive.ProtocolVersion) bool { return v == primitive.ProtocolVersion5 }

func specHeaderLen(v primitive.ProtocolVersion) int {
	if v == primitive.ProtocolVersion2 {
		return 8
	}
	return 9
}

func allowed(v primitive.ProtocolVersion, c primitive.Compression) bool {
	switch c {
	case primitive.CompressionNone, "", primitive.CompressionLz4:
		return true
	case primitive.CompressionSnappy:
		return v != primitive.ProtocolVersion5
	}
	return false
}

type planned struct {
	ID      string      `json:"id"`
	Mode    string      `json:"mode"`
	Version int         `json:"version"`
	Comp    string      `json:"compression"`
	Auth    bool        `json:"auth"`
	Reqs    []frameSpec `json:"requests,omitempty"`
	Script  *rawScript  `json:"script,omitempty"`
	N       int         `json:"n,omitempty"`
	Dir     string      `json:"dir,omitempty"` // oversize: "request" | "response"
}

func (p planned) run() *result {
	v := primitive.ProtocolVersion(p.Version)
	c := primitive.Compression(p.Comp)
	if c == "" {
		c = primitive.CompressionNone
	}
	switch p.Mode {
	case "loopback":
		return runLoopback(p.ID, v, c, p.Auth, p.Reqs)
	case "rawclient":
		return runRawClient(p.ID, v, c, p.Auth, *p.Script)
	case "rawserver":
		return runRawServer(p.ID, v, c, p.Auth, p.Reqs, *p.Script)
	case "oversize":
		return probeOversizeSend(v, p.N, p.Dir)
	case "managed":
		return probeManaged(v, p.N)
	case "unknowncomp":
		return probeUnknownCompression(v, p.Comp)
	case "dualstack":
		return probeDualStack()
	}
	panic("unknown mode " + p.Mode)
}

// ---- generators

var reqKinds = []string{"query", "options", "prepare", "execute", "batch", "register", "authresponse", "query"}

func fillKind(c primitive.Compression, r *rand.Rand) string {
	if r.Intn(3) == 0 {
		return "l"
	}
	return "p"
}

// requests of assorted kinds and sizes; big = size of the largest one
func genRequests(r *rand.Rand, v primitive.ProtocolVersion, c primitive.Compression, n, big int, firstSid int) []frameSpec {
	sizes := []int{0, 1, 17, 300, 4000, 70000}
	var specs []frameSpec
	for i := 0; i < n; i++ {
		s := frameSpec{Kind: reqKinds[(i+r.Intn(2))%len(reqKinds)], Sid: firstSid + i, Fill: fillKind(c, r), Seed: r.Intn(250), N: sizes[r.Intn(len(sizes))] + r.Intn(9)}
		if i == n/2 {
			s.Kind, s.N = "query", big
		}
		if s.Kind == "query" || s.Kind == "prepare" || s.Kind == "batch" {
			s.N = maxInt(s.N, 1)
		}
		s.Compress = c != primitive.CompressionNone && i%2 == 0
		s.Tracing = s.Kind == "query" && i%3 == 0
		s.Payload = v >= primitive.ProtocolVersion4 && i%4 == 1
		specs = append(specs, s)
	}
	return specs
}

func whole(i int, n int) [3]int { return [3]int{i, 0, n} }

// envelope length of a spec (needed to write slices): build it once
func envLen(v primitive.ProtocolVersion, s frameSpec) int {
	s.Compress = false
	f, _ := s.build(v)
	b, err := plainBytes(f)
	if err != nil {
		panic(err)
	}
	return len(b) + maxInt(s.Spare, 0)
}

// cutPoints: part lengths for an envelope of n bytes: k-1 seeded cut points, first part >= minFirst, every part in 1..131071
func cutParts(r *rand.Rand, n, k, minFirst int) []int {
	const maxP = 131071
	for {
		pts := map[int]bool{}
		for len(pts) < k-1 {
			p := minFirst + r.Intn(maxInt(n-minFirst, 1))
			if p > 0 && p < n {
				pts[p] = true
			} else if n <= minFirst+1 {
				break
			}
		}
		var cuts []int
		for p := range pts {
			cuts = append(cuts, p)
		}
		sortInts(cuts)
		var parts []int
		prev := 0
		ok := true
		for _, c := range append(cuts, n) {
			if c-prev > maxP || c-prev <= 0 {
				ok = false
			}
			parts = append(parts, c-prev)
			prev = c
		}
		if ok {
			return parts
		}
		k++ // more parts until every part fits a segment
	}
}

func sortInts(a []int) {
	for i := 1; i < len(a); i++ {
		for j := i; j > 0 && a[j-1] > a[j]; j-- {
			a[j-1], a[j] = a[j], a[j-1]
		}
	}
}

func splitPlan(idx int, parts []int) []segPlan {
	var ps []segPlan
	off := 0
	for _, n := range parts {
		ps = append(ps, segPlan{Self: false, Slices: [][3]int{{idx, off, off + n}}})
		off += n
	}
	return ps
}

// maximal parts, as a server that fills segments does
func maxParts(n int) []int {
	var parts []int
	for n > 131071 {
		parts = append(parts, 131071)
		n -= 131071
	}
	return append(parts, n)
}

// a mixed script over the given specs: small envelopes are grouped 1..k per self-contained segment, envelopes listed in
// split (index -> number of parts; 0 = maximal parts) are cut
func mixedPlan(r *rand.Rand, v primitive.ProtocolVersion, specs []frameSpec, k int, split map[int]int) []segPlan {
	var plan []segPlan
	var cur [][3]int
	curLen := 0
	flush := func() {
		if len(cur) > 0 {
			plan = append(plan, segPlan{Self: true, Slices: cur})
			cur, curLen = nil, 0
		}
	}
	group := 1 + r.Intn(k)
	for i, s := range specs {
		n := envLen(v, s)
		parts, isSplit := split[i]
		if isSplit || n > 131071 {
			flush()
			var ps []int
			if parts == 0 {
				ps = maxParts(n)
			} else {
				ps = cutParts(r, n, parts, 1)
			}
			plan = append(plan, splitPlan(i, ps)...)
			continue
		}
		if len(cur) >= group || curLen+n > 131071 {
			flush()
			group = 1 + r.Intn(k)
		}
		cur = append(cur, whole(i, n))
		curLen += n
	}
	flush()
	return plan
}

func chunkFor(r *rand.Rand, total int) int {
	c := []int{0, 7, 1000, 65536, 3}[r.Intn(5)]
	if c > 0 && c < 100 && total > 20000 {
		c = 1460
	}
	return c
}

// responses (and events) for the requests with stream ids firstSid..; big = filler size of the largest response
func genResponses(r *rand.Rand, n, big, firstSid int, events int) []frameSpec {
	kinds := []string{"rows", "void", "supported", "setks", "unavailable", "rows", "authchallenge", "ready"}
	sizes := []int{0, 5, 200, 3000, 40000}
	var specs []frameSpec
	ev := 0
	for i := 0; i < n; i++ {
		s := frameSpec{Kind: kinds[(i+r.Intn(2))%len(kinds)], Sid: firstSid + i, Fill: []string{"p", "l"}[r.Intn(2)], Seed: r.Intn(250), N: sizes[r.Intn(len(sizes))] + r.Intn(7), Compress: i%2 == 1}
		if i == n/2 && big > 0 {
			s.Kind, s.N = "rows", big
		}
		specs = append(specs, s)
		if ev < events && i%2 == 0 {
			specs = append(specs, frameSpec{Kind: "event", Sid: -1, Fill: "p", Seed: ev + 1, N: 20 + ev*3})
			ev++
		}
	}
	return specs
}

func smallRequests(n, firstSid int) []frameSpec {
	var specs []frameSpec
	for i := 0; i < n; i++ {
		k := "options"
		if i%2 == 1 {
			k = "query"
		}
		specs = append(specs, frameSpec{Kind: k, Sid: firstSid + i, Fill: "p", Seed: i, N: 10 + i, Compress: i%2 == 1})
	}
	return specs
}

// Envelopes that are a BARE HEADER (9 bytes, empty body: OPTIONS towards the server, READY towards the client) in every
// position of self-contained segments - first, in the middle, last, alone, several in a row - mixed with envelopes that
// have a body (B), one envelope cut over three non-self-contained segments (S) and, towards the client, events (E).
// The core patterns are fixed, a seeded random tail follows.
func emptyTailScript(r *rand.Rand, v primitive.ProtocolVersion, towardsClient bool, firstSid int) ([]frameSpec, []segPlan) {
	patterns := []string{"BO", "O", "OO", "BBO", "OB", "S", "O", "BOB", "OOO", "BOO"}
	if towardsClient {
		patterns = append(patterns, "EO", "OE")
	}
	for k := 0; k < 6; k++ {
		n := 1 + r.Intn(4)
		pat := ""
		for j := 0; j < n; j++ {
			pat += string("BO"[r.Intn(2)])
		}
		if r.Intn(2) == 0 {
			pat = pat[:n-1] + "O"
		}
		patterns = append(patterns, pat)
	}
	reqB := []string{"query", "prepare", "execute", "batch", "register", "authresponse"}
	respB := []string{"rows", "void", "supported", "setks", "unavailable", "authchallenge"}
	sizes := []int{1, 5, 40, 300, 3000}
	var specs []frameSpec
	var plan []segPlan
	sid, nb, ne := firstSid, 0, 0
	for _, pat := range patterns {
		var cur [][3]int
		for _, ch := range pat {
			var sp frameSpec
			switch {
			case ch == 'E':
				sp = frameSpec{Kind: "event", Sid: -1, Fill: "p", Seed: ne + 1, N: 20 + 3*ne}
				ne++
			case ch == 'O' && towardsClient:
				sp = frameSpec{Kind: "ready", Sid: sid}
			case ch == 'O':
				sp = frameSpec{Kind: "options", Sid: sid}
			default:
				kinds := reqB
				if towardsClient {
					kinds = respB
				}
				sp = frameSpec{Kind: kinds[nb%len(kinds)], Sid: sid, Fill: []string{"p", "l"}[r.Intn(2)], Seed: r.Intn(250), N: sizes[r.Intn(len(sizes))] + r.Intn(7)}
				nb++
			}
			if sp.Sid >= 0 {
				sid++
			}
			i := len(specs)
			specs = append(specs, sp)
			n := envLen(v, sp)
			if ch == 'S' {
				plan = append(plan, splitPlan(i, cutParts(r, n, 3, 1))...)
			} else {
				cur = append(cur, whole(i, n))
			}
		}
		if len(cur) > 0 {
			plan = append(plan, segPlan{Self: true, Slices: cur})
		}
	}
	return specs, plan
}

func answered(specs []frameSpec) int {
	n := 0
	for _, s := range specs {
		if s.Sid >= 0 {
			n++
		}
	}
	return n
}

// ---- the plan of a tier

func buildPlan(tier string, seed int64) []planned {
	r := rand.New(rand.NewSource(seed))
	thorough := tier == "thorough"
	var plan []planned
	add := func(p planned) { plan = append(plan, p) }
	v5 := primitive.ProtocolVersion5

	// (0) bare headers at the end of / alone in self-contained segments (an own random stream: the other scripts keep theirs).
	// First the two smallest scripts there are in each direction, then the patterns of emptyTailScript.
	r0 := rand.New(rand.NewSource(seed ^ 0x5eed15))
	qry := frameSpec{Kind: "query", Sid: 10, Fill: "p", Seed: 3, N: 20}
	opt := frameSpec{Kind: "options", Sid: 11}
	add(planned{ID: "rawclient-v5-bare-header-alone", Mode: "rawclient", Version: 5, Comp: "NONE",
		Script: &rawScript{Specs: []frameSpec{opt}, Plan: []segPlan{{Self: true, Slices: [][3]int{whole(0, 9)}}}, Conforming: true, Class: "empty-tail"}})
	add(planned{ID: "rawclient-v5-bare-header-last", Mode: "rawclient", Version: 5, Comp: "NONE",
		Script: &rawScript{Specs: []frameSpec{qry, opt}, Plan: []segPlan{{Self: true, Slices: [][3]int{whole(0, envLen(v5, qry)), whole(1, 9)}}}, Conforming: true, Class: "empty-tail"}})
	rws := frameSpec{Kind: "rows", Sid: 10, Fill: "p", Seed: 3, N: 20}
	rdy := frameSpec{Kind: "ready", Sid: 11}
	add(planned{ID: "rawserver-v5-bare-header-alone", Mode: "rawserver", Version: 5, Comp: "NONE", Reqs: smallRequests(2, 10),
		Script: &rawScript{Specs: []frameSpec{rdy}, Plan: []segPlan{{Self: true, Slices: [][3]int{whole(0, 9)}}}, Conforming: true, Class: "empty-tail"}})
	add(planned{ID: "rawserver-v5-bare-header-last", Mode: "rawserver", Version: 5, Comp: "NONE", Reqs: smallRequests(2, 10),
		Script: &rawScript{Specs: []frameSpec{rws, rdy}, Plan: []segPlan{{Self: true, Slices: [][3]int{whole(0, envLen(v5, rws)), whole(1, 9)}}}, Conforming: true, Class: "empty-tail"}})
	etRounds := 1
	if thorough {
		etRounds = 6
	}
	for round := 0; round < etRounds; round++ {
		for ci, c := range []primitive.Compression{primitive.CompressionNone, primitive.CompressionLz4} {
			specs, pl := emptyTailScript(r0, v5, false, 10)
			add(planned{ID: fmt.Sprintf("rawclient-v5-%s-emptytail-%d", compName(c), round), Mode: "rawclient", Version: 5, Comp: string(c), Auth: (round+ci)%2 == 1,
				Script: &rawScript{Specs: specs, Plan: pl, Chunk: chunkFor(r0, 5000), Conforming: true, Class: "empty-tail"}})
			resps, pl2 := emptyTailScript(r0, v5, true, 10)
			add(planned{ID: fmt.Sprintf("rawserver-v5-%s-emptytail-%d", compName(c), round), Mode: "rawserver", Version: 5, Comp: string(c), Auth: (round+ci)%2 == 0,
				Reqs: smallRequests(answered(resps), 10), Script: &rawScript{Specs: resps, Plan: pl2, Chunk: chunkFor(r0, 5000), Conforming: true, Class: "empty-tail"}})
		}
	}

	// (a) loopback: real client <-> real server
	i := 0
	for _, v := range versions {
		for _, c := range comps {
			if !allowed(v, c) {
				continue
			}
			for _, auth := range []bool{false, true} {
				big := 200000
				if specModern(v) {
					big = 100000 // an envelope must fit one segment to be SENT by this library (see the oversize probe)
				}
				n := 9
				if thorough {
					n, big = 24, big+r.Intn(20000)
					if !specModern(v) {
						big = 700000 + r.Intn(300000)
					}
				}
				add(planned{ID: fmt.Sprintf("loop-v%d-%s-auth%v", v, compName(c), auth), Mode: "loopback", Version: int(v), Comp: string(c), Auth: auth,
					Reqs: genRequests(r, v, c, n, big, 10)})
			}
			i++
		}
	}
	// a write that fails (v5 envelope above one segment) must end the connection on both sides, in both directions
	add(planned{ID: "oversize-request-v5", Mode: "oversize", Version: 5, N: 140000, Dir: "request"})
	add(planned{ID: "oversize-response-v5", Mode: "oversize", Version: 5, N: 140000, Dir: "response"})
	// managed stream ids, strictly sequential requests (v2: known finding; v3: the same sequence as control)
	add(planned{ID: "managed-ids-v2", Mode: "managed", Version: 2, N: 300})
	add(planned{ID: "managed-ids-v3", Mode: "managed", Version: 3, N: 300})
	add(planned{ID: "unknown-compression-v4", Mode: "unknowncomp", Version: 4, Comp: "zstd"})
	add(planned{ID: "unknown-compression-v4-long-s", Mode: "unknowncomp", Version: 4, Comp: "\u017fnappy"}) // strings.ToUpper maps U+017F to S
	add(planned{ID: "dual-stack-listener", Mode: "dualstack", Version: 4})

	// (a') STARTUP spelling the compression algorithm as the specifications and the drivers do (lower case), or in mixed case:
	// READY / AUTHENTICATE must arrive and the compressed exchange that follows must work
	for k, sc := range []struct {
		v     primitive.ProtocolVersion
		c     primitive.Compression
		spell string
		auth  bool
	}{{primitive.ProtocolVersion3, primitive.CompressionLz4, "lz4", false}, {primitive.ProtocolVersion3, primitive.CompressionSnappy, "snappy", true},
		{primitive.ProtocolVersion4, primitive.CompressionLz4, "Lz4", true}, {primitive.ProtocolVersion4, primitive.CompressionSnappy, "sNaPpY", false},
		{primitive.ProtocolVersion4, primitive.CompressionNone, "none", false},
		{v5, primitive.CompressionLz4, "lz4", false}, {v5, primitive.CompressionLz4, "lZ4", true}} {
		reqs := genRequests(r0, sc.v, sc.c, 6, 5000, 10)
		script := &rawScript{StartupComp: sc.spell, Specs: reqs, Chunk: chunkFor(r0, 5000), Conforming: true, Class: "startup-case"}
		if specModern(sc.v) {
			script.Plan = mixedPlan(r0, sc.v, reqs, 3, map[int]int{2: 2})
		}
		add(planned{ID: fmt.Sprintf("rawclient-v%d-startup-%s-%d", sc.v, sc.spell, k), Mode: "rawclient", Version: int(sc.v), Comp: string(sc.c), Auth: sc.auth, Script: script})
	}

	// (a'') bodies that are longer than their message needs ("safe to ignore the remainder of the body"): spare bytes after
	// SUPPORTED / READY / RESULT / ERROR / EVENT (towards the client) and after OPTIONS / QUERY / REGISTER ... (towards the server), in
	// legacy framing and inside v5 segments (first, middle, last of a segment, alone, cut over several segments), each followed by
	// further envelopes: everything must be delivered
	spareResp := func() []frameSpec {
		return []frameSpec{
			{Kind: "supported", Sid: 10, Spare: 3}, {Kind: "ready", Sid: 11, Spare: 5}, {Kind: "void", Sid: 12, Spare: 1},
			{Kind: "rows", Sid: 13, Fill: "p", Seed: 3, N: 40, Spare: 7}, {Kind: "rows", Sid: 14, Fill: "l", Seed: 4, N: 300},
			{Kind: "event", Sid: -1, Fill: "p", Seed: 1, N: 20, Spare: 2}, {Kind: "setks", Sid: 15, Fill: "p", Seed: 5, N: 12, Spare: 9},
			{Kind: "unavailable", Sid: 16, Fill: "p", Seed: 6, N: 30, Spare: 4}, {Kind: "ready", Sid: 17}, {Kind: "authchallenge", Sid: 18, Fill: "p", Seed: 7, N: 16, Spare: 6},
			{Kind: "supported", Sid: 19, Spare: 300}, {Kind: "void", Sid: 20}}
	}
	spareReq := func() []frameSpec {
		return []frameSpec{
			{Kind: "options", Sid: 10, Spare: 3}, {Kind: "query", Sid: 11, Fill: "p", Seed: 2, N: 25, Spare: 2}, {Kind: "register", Sid: 12, Spare: 4},
			{Kind: "prepare", Sid: 13, Fill: "p", Seed: 3, N: 30, Spare: 1}, {Kind: "options", Sid: 14}, {Kind: "execute", Sid: 15, Fill: "p", Seed: 4, N: 16, Spare: 8},
			{Kind: "batch", Sid: 16, Fill: "p", Seed: 5, N: 20, Spare: 5}, {Kind: "authresponse", Sid: 17, Fill: "l", Seed: 6, N: 24, Spare: 6},
			{Kind: "options", Sid: 18, Spare: 200}, {Kind: "query", Sid: 19, Fill: "p", Seed: 7, N: 9}}
	}
	// v5: [0 1] [2] [3 4 5] (6 cut in 3 parts) [7 8 9] [10] [11]  /  [0] [1 2] (3 cut) [4 5 6] [7 8] [9]
	sparePlan := func(v primitive.ProtocolVersion, specs []frameSpec, groups [][]int) []segPlan {
		var pl []segPlan
		for _, g := range groups {
			if len(g) == 1 && g[0] < 0 {
				i := -g[0]
				pl = append(pl, splitPlan(i, cutParts(r0, envLen(v, specs[i]), 3, 1))...)
				continue
			}
			var sl [][3]int
			for _, i := range g {
				sl = append(sl, whole(i, envLen(v, specs[i])))
			}
			pl = append(pl, segPlan{Self: true, Slices: sl})
		}
		return pl
	}
	for k, sc := range []struct {
		v primitive.ProtocolVersion
		c primitive.Compression
	}{{primitive.ProtocolVersion4, primitive.CompressionNone}, {primitive.ProtocolVersion3, primitive.CompressionLz4}, {primitive.ProtocolVersion2, primitive.CompressionNone},
		{v5, primitive.CompressionNone}, {v5, primitive.CompressionLz4}} {
		resps, reqs := spareResp(), spareReq()
		ssc := &rawScript{Specs: resps, Chunk: chunkFor(r0, 3000), Conforming: true, Class: "spare-bytes"}
		csc := &rawScript{Specs: reqs, Chunk: chunkFor(r0, 3000), Conforming: true, Class: "spare-bytes"}
		if specModern(sc.v) {
			ssc.Plan = sparePlan(sc.v, resps, [][]int{{0, 1}, {2}, {3, 4, 5}, {-6}, {7, 8, 9}, {10}, {11}})
			csc.Plan = sparePlan(sc.v, reqs, [][]int{{0}, {1, 2}, {-3}, {4, 5, 6}, {7, 8}, {9}})
		}
		add(planned{ID: fmt.Sprintf("rawserver-v%d-%s-spare-%d", sc.v, compName(sc.c), k), Mode: "rawserver", Version: int(sc.v), Comp: string(sc.c), Auth: k%2 == 1,
			Reqs: smallRequests(answered(resps), 10), Script: ssc})
		add(planned{ID: fmt.Sprintf("rawclient-v%d-%s-spare-%d", sc.v, compName(sc.c), k), Mode: "rawclient", Version: int(sc.v), Comp: string(sc.c), Auth: k%2 == 0, Script: csc})
	}

	// (b) raw peer, legacy layout: frames back to back, chunked writes
	j := 0
	for _, v := range versions {
		if specModern(v) {
			continue
		}
		for _, c := range comps {
			if !allowed(v, c) {
				continue
			}
			if !thorough && j%3 != int(v)%3 {
				j++
				continue
			}
			j++
			auth := j%2 == 0
			reqs := genRequests(r, v, c, 6, 150000, 10)
			add(planned{ID: fmt.Sprintf("rawclient-v%d-%s", v, compName(c)), Mode: "rawclient", Version: int(v), Comp: string(c), Auth: auth,
				Script: &rawScript{Specs: reqs, Chunk: chunkFor(r, 200000), Conforming: true, Class: "legacy"}})
			sreq := smallRequests(6, 10)
			add(planned{ID: fmt.Sprintf("rawserver-v%d-%s", v, compName(c)), Mode: "rawserver", Version: int(v), Comp: string(c), Auth: !auth, Reqs: sreq,
				Script: &rawScript{Specs: genResponses(r, 6, 150000, 10, 2), Chunk: chunkFor(r, 200000), Conforming: true, Class: "legacy"}})
		}
	}

	// (b') both DSE versions once more, with authentication (the layout decision is taken on READY *or* AUTHENTICATE) and LZ4:
	// the raw peer keeps to bare frames after the handshake, as the DSE specifications prescribe
	for _, v := range []primitive.ProtocolVersion{primitive.ProtocolVersionDse1, primitive.ProtocolVersionDse2} {
		reqs := genRequests(r0, v, primitive.CompressionLz4, 5, 20000, 10)
		add(planned{ID: fmt.Sprintf("rawclient-v%d-LZ4-auth-legacy", v), Mode: "rawclient", Version: int(v), Comp: "LZ4", Auth: true,
			Script: &rawScript{Specs: reqs, Chunk: chunkFor(r0, 30000), Conforming: true, Class: "legacy"}})
		add(planned{ID: fmt.Sprintf("rawserver-v%d-LZ4-auth-legacy", v), Mode: "rawserver", Version: int(v), Comp: "LZ4", Auth: true, Reqs: smallRequests(5, 10),
			Script: &rawScript{Specs: genResponses(r0, 5, 20000, 10, 1), Chunk: chunkFor(r0, 30000), Conforming: true, Class: "legacy"}})
	}

	// (b) raw peer, modern layout: segmentations
	v5comps := []primitive.Compression{primitive.CompressionNone, primitive.CompressionLz4}
	rounds := 1
	if thorough {
		rounds = 6
	}
	for round := 0; round < rounds; round++ {
		for ci, c := range v5comps {
			auth := (round+ci)%2 == 1
			// groups of small envelopes, 1..k per segment
			reqs := genRequests(r, v5, c, 10, 3000, 10)
			add(planned{ID: fmt.Sprintf("rawclient-v5-%s-groups-%d", compName(c), round), Mode: "rawclient", Version: 5, Comp: string(c), Auth: auth,
				Script: &rawScript{Specs: reqs, Plan: mixedPlan(r, v5, reqs, 4, nil), Chunk: chunkFor(r, 50000), Conforming: true, Class: "groups"}})
			// one envelope of a few hundred KiB at seeded split points, small ones around it
			big := 270000
			if c == primitive.CompressionLz4 {
				big = 140000
			}
			if thorough {
				big = 300000 + r.Intn(700000)
			}
			reqs = genRequests(r, v5, c, 5, big, 10)
			reqs[2].Fill = []string{"p", "l"}[ci] // LZ4 sessions carry incompressible large bodies (see notes/conn.md)
			add(planned{ID: fmt.Sprintf("rawclient-v5-%s-split-%d", compName(c), round), Mode: "rawclient", Version: 5, Comp: string(c), Auth: !auth,
				Script: &rawScript{Specs: reqs, Plan: mixedPlan(r, v5, reqs, 2, map[int]int{2: 3 + r.Intn(3)}), Chunk: chunkFor(r, big), Conforming: true, Class: "split"}})
			// mixture: maximal parts, a small envelope cut into many parts, groups
			reqs = genRequests(r, v5, c, 7, 131071+r.Intn(3000), 10)
			add(planned{ID: fmt.Sprintf("rawclient-v5-%s-mix-%d", compName(c), round), Mode: "rawclient", Version: 5, Comp: string(c), Auth: auth,
				Script: &rawScript{Specs: reqs, Plan: mixedPlan(r, v5, reqs, 3, map[int]int{1: 5, 3: 0, 5: 2}), Chunk: chunkFor(r, 140000), Conforming: true, Class: "mixed"}})
			// the same from the server side: responses and events to the real client
			sreq := smallRequests(7, 10)
			big = 150000
			if thorough {
				big = 200000 + r.Intn(400000)
			}
			resps := genResponses(r, 7, big, 10, 3)
			split := map[int]int{}
			for k, s := range resps {
				if s.N >= 100000 {
					split[k] = 2 + r.Intn(3)
				} else if k%4 == 1 {
					split[k] = 2
				}
			}
			add(planned{ID: fmt.Sprintf("rawserver-v5-%s-mix-%d", compName(c), round), Mode: "rawserver", Version: 5, Comp: string(c), Auth: !auth, Reqs: sreq,
				Script: &rawScript{Specs: resps, Plan: mixedPlan(r, v5, resps, 3, split), Chunk: chunkFor(r, big), Conforming: true, Class: "mixed"}})
		}
	}

	// every split point of a small envelope, two parts - cuts inside the 9-byte header included (quick: a few points)
	tiny := []frameSpec{{Kind: "query", Sid: 11, Fill: "p", Seed: 4, N: 30}}
	n := envLen(v5, tiny[0])
	var points []int
	if thorough {
		for k := 1; k < n; k++ {
			points = append(points, k)
		}
	} else {
		points = []int{1, 5, 8, 9, 10, n - 1}
	}
	for _, k := range points {
		add(planned{ID: fmt.Sprintf("rawclient-v5-split-at-%d", k), Mode: "rawclient", Version: 5, Comp: "NONE",
			Script: &rawScript{Specs: tiny, Plan: splitPlan(0, []int{k, n - k}), Conforming: true, Class: "split-point"}})
	}
	// the header spread over many parts, zero-length parts before, between and after
	add(planned{ID: "rawclient-v5-header-in-pieces", Mode: "rawclient", Version: 5, Comp: "LZ4", Auth: true,
		Script: &rawScript{Specs: tiny, Plan: splitPlan(0, []int{0, 1, 1, 0, 2, 1, 3, 0, 1, 4, n - 13, 0}), Conforming: true, Class: "header-in-pieces"}})
	// ... and towards the client
	rtiny := []frameSpec{{Kind: "rows", Sid: 10, Fill: "p", Seed: 4, N: 30}}
	rn := envLen(v5, rtiny[0])
	cpoints := []int{1, 5, 8, 9, rn - 1}
	if thorough {
		cpoints = nil
		for k := 1; k < rn; k += 1 {
			cpoints = append(cpoints, k)
		}
	}
	for _, k := range cpoints {
		add(planned{ID: fmt.Sprintf("rawserver-v5-split-at-%d", k), Mode: "rawserver", Version: 5, Comp: "NONE", Reqs: smallRequests(1, 10),
			Script: &rawScript{Specs: rtiny, Plan: splitPlan(0, []int{k, rn - k}), Conforming: true, Class: "split-point"}})
	}
	add(planned{ID: "rawserver-v5-header-in-pieces", Mode: "rawserver", Version: 5, Comp: "NONE", Reqs: smallRequests(1, 10),
		Script: &rawScript{Specs: rtiny, Plan: splitPlan(0, []int{0, 2, 0, 3, 1, 1, 1, 0, 5, rn - 13, 0}), Conforming: true, Class: "header-in-pieces"}})

	// what the code does with peers that do NOT follow the specification (model/code correspondence only)
	two := []frameSpec{{Kind: "query", Sid: 11, Fill: "p", Seed: 4, N: 40}, {Kind: "query", Sid: 12, Fill: "p", Seed: 5, N: 12}}
	n0, n1 := envLen(v5, two[0]), envLen(v5, two[1])
	add(planned{ID: "rawclient-v5-nonconforming-overlong", Mode: "rawclient", Version: 5, Comp: "NONE",
		Script: &rawScript{Specs: two, Class: "nonconforming", Plan: []segPlan{
			{Self: false, Slices: [][3]int{{0, 0, 20}}}, {Self: false, Slices: [][3]int{{0, 20, n0}, {1, 0, 5}}}, // 5 bytes too many: never delivered
			{Self: true, Slices: [][3]int{{1, 0, n1}}}}}})
	add(planned{ID: "rawclient-v5-nonconforming-interleaved", Mode: "rawclient", Version: 5, Comp: "NONE",
		Script: &rawScript{Specs: two, Class: "nonconforming", Plan: []segPlan{
			{Self: false, Slices: [][3]int{{0, 0, 20}}}, {Self: true, Slices: [][3]int{{1, 0, n1}}}, {Self: false, Slices: [][3]int{{0, 20, n0}}}}}})
	add(planned{ID: "rawclient-v5-nonconforming-trailing-bytes", Mode: "rawclient", Version: 5, Comp: "NONE",
		Script: &rawScript{Specs: two, Class: "nonconforming", Plan: []segPlan{
			{Self: true, Slices: [][3]int{{0, 0, n0}, {1, 0, 4}}}, {Self: true, Slices: [][3]int{{1, 0, n1}}}}}})
	return plan
}

func main() {
	zerolog.SetGlobalLevel(zerolog.Disabled)
	defer hlib.Flush()
	if len(os.Args) < 2 {
		fmt.Fprintln(os.Stderr, "usage: conn quick|thorough|replay <file>")
		os.Exit(2)
	}
	if os.Args[1] == "replay" {
		raw, err := ioutil.ReadFile(os.Args[2])
		if err != nil {
			panic(err)
		}
		var obj struct {
			Replay planned `json:"replay"`
		}
		if err := json.Unmarshal(raw, &obj); err != nil {
			panic(err)
		}
		hlib.Emit(obj.Replay.run())
		return
	}
	t0 := time.Now()
	plan := buildPlan(os.Args[1], hlib.Seed())
	for _, p := range plan {
		hlib.Emit(map[string]interface{}{"kind": "begin", "replay": p})
		hlib.Flush()
		res := p.run()
		hlib.Emit(map[string]interface{}{"kind": "end", "replay": p, "result": res})
		hlib.Flush()
	}
	hlib.Emit(map[string]interface{}{"kind": "summary", "sessions": len(plan), "ms": time.Since(t0).Milliseconds()})
}
