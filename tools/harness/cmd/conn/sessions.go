package main

// The three kinds of session:
//   loopback   real client <-> real server (client.NewCqlClient / client.NewCqlServer on 127.0.0.1): the property's own
//              predicate - every request arrives equal at the server, every response arrives equal at the client
//   rawclient  raw peer as client <-> real server: the raw peer chooses the segmentation of its requests
//   rawserver  real client <-> raw peer as server: the raw peer chooses the segmentation of its responses and events
// In the raw sessions everything the real side writes is captured and checked against the v5 wire format.

import (
	"context"
	"fmt"
	"net"
	"sort"
	"strings"
	"sync"
	"time"

	"github.com/datastax/go-cassandra-native-protocol/client"
	"github.com/datastax/go-cassandra-native-protocol/frame"
	"github.com/datastax/go-cassandra-native-protocol/message"
	"github.com/datastax/go-cassandra-native-protocol/primitive"
)

const sentinelSid = 120 // fits the one-byte stream id of protocol v2

type M = map[string]interface{}

type failure struct {
	What   string      `json:"what"`
	Class  string      `json:"class,omitempty"`
	Detail interface{} `json:"detail,omitempty"` // structured form of What (which envelope, where in which segment)
}

// a segment of a script: self-contained or not, payload = concatenation of slices (envelope index, from, to)
type segPlan struct {
	Self   bool     `json:"self"`
	Slices [][3]int `json:"sl"`
}

type corrRec struct {
	Role       string    `json:"role"` // the REAL side that receives: "server" | "client"
	Comp       string    `json:"comp"`
	Envs       []envDesc `json:"envs"`
	Plan       []segPlan `json:"plan"`
	Payloads   []segObs  `json:"payloads"`  // what the raw peer actually put into each segment
	Delivered  [][3]int  `json:"delivered"` // (stream id, opcode, body length) in delivery order (server) / events in order (client)
	Responses  [][3]int  `json:"responses"` // client only: frames delivered to in-flight requests, sorted by stream id
	Outcome    string    `json:"outcome"`   // ok | abort
	Conforming bool      `json:"conforming"`
	Class      string    `json:"class"`
	TxRole     string    `json:"tx_role"`     // the real side that wrote in modern layout
	TxFrames   []envDesc `json:"tx_frames"`   // the frames handed to it, in order
	TxPayloads []segObs  `json:"tx_payloads"` // the segments it wrote
	TxCounts   []int     `json:"tx_counts"`   // envelopes per segment
}

type result struct {
	Kind        string                 `json:"kind"`
	ID          string                 `json:"id"`
	Mode        string                 `json:"mode"`
	Version     int                    `json:"version"`
	Compression string                 `json:"compression"`
	Auth        bool                   `json:"auth"`
	Script      map[string]interface{} `json:"script"`
	Frames      int                    `json:"frames"`
	Bytes       int                    `json:"bytes"`
	MaxEnvelope int                    `json:"max_envelope"`
	Segments    int                    `json:"segments"`
	Failures    []failure              `json:"failures"`
	Obs         map[string]interface{} `json:"obs"`
	Corr        *corrRec               `json:"corr,omitempty"`
	Millis      int64                  `json:"ms"`
}

func (r *result) fail(class, format string, a ...interface{}) {
	r.Failures = append(r.Failures, failure{What: fmt.Sprintf(format, a...), Class: class})
	if class != "harness" {
		losePatience() // the run reports a violation anyway: the remaining sessions wait a few seconds only (see raw.go)
	}
}

// failKnownClass records a failure whose class a known finding may match (the check decides); the remaining sessions
// keep their full patience because such a failure is expected on every run
func (r *result) failKnownClass(class string, detail interface{}, format string, a ...interface{}) {
	r.Failures = append(r.Failures, failure{What: fmt.Sprintf(format, a...), Class: class, Detail: detail})
}

func (r *result) failDetail(class string, detail interface{}, format string, a ...interface{}) {
	r.fail(class, format, a...)
	r.Failures[len(r.Failures)-1].Detail = detail
}

// ---- delivery: every envelope sent is handed to the user exactly once, in the order sent

// where an envelope sits in the segmentation chosen by the raw peer
type envPlace struct {
	Index   int    `json:"envelope"` // index in the script (the sentinel is the last)
	Kind    string `json:"kind"`
	Sid     int    `json:"stream"`
	Len     int    `json:"bytes"`
	Bare    bool   `json:"bare_header"`           // the envelope is a 9-byte header with an empty body
	Spare   int    `json:"spare_bytes,omitempty"` // bytes of the body after the end of the message
	Segment int    `json:"segment"`               // index of the segment that carries it (its first byte); -1: not in the plan
	Self    bool   `json:"self_contained"`
	Pos     int    `json:"position"` // 1-based among the slices of that segment
	Of      int    `json:"of"`
	SegLen  int    `json:"segment_payload_bytes"`
}

func placeOf(plan []segPlan, i int, spec frameSpec, envLen int) envPlace {
	pl := envPlace{Index: i, Kind: spec.Kind, Sid: spec.Sid, Len: envLen, Bare: envLen == 9, Spare: spec.Spare, Segment: -1}
	for s, p := range plan {
		n := 0
		for _, sl := range p.Slices {
			n += sl[2] - sl[1]
		}
		for k, sl := range p.Slices {
			if sl[0] == i && sl[1] == 0 {
				pl.Segment, pl.Self, pl.Pos, pl.Of, pl.SegLen = s, p.Self, k+1, len(p.Slices), n
				return pl
			}
		}
	}
	return pl
}

func (p envPlace) String() string {
	what := fmt.Sprintf("envelope %d (%s, stream %d, %d bytes", p.Index, p.Kind, p.Sid, p.Len)
	if p.Bare {
		what += ": a bare header with an empty body"
	}
	if p.Spare > 0 {
		what += fmt.Sprintf(", the last %d of its body are spare bytes after the end of the message", p.Spare)
	}
	what += ")"
	if p.Segment < 0 {
		return what
	}
	if !p.Self {
		return what + fmt.Sprintf(", cut over non-self-contained segments starting at segment %d", p.Segment)
	}
	where := fmt.Sprintf("envelope %d of %d", p.Pos, p.Of)
	if p.Of == 1 {
		where = "the only envelope"
	} else if p.Pos == p.Of {
		where = fmt.Sprintf("the last of the %d envelopes", p.Of)
	}
	return what + fmt.Sprintf(", %s of self-contained segment %d (payload %d bytes)", where, p.Segment, p.SegLen)
}

// deliveryCheck compares the stream ids handed over (in order) with the stream ids sent (in order, distinct):
// indices never delivered, indices delivered more than once, stream ids nobody sent, and the first inversion of order.
func deliveryCheck(sent []int, got []int) (missing, dup []int, unknown []int, inversion [2]int, inverted bool) {
	idx := map[int]int{}
	for i, s := range sent {
		idx[s] = i
	}
	count := map[int]int{}
	last := -1
	for _, g := range got {
		i, ok := idx[g]
		if !ok {
			unknown = append(unknown, g)
			continue
		}
		count[i]++
		if count[i] > 1 {
			continue
		}
		if i < last && !inverted {
			inversion, inverted = [2]int{last, i}, true
		}
		if i > last {
			last = i
		}
	}
	for i := range sent {
		if count[i] == 0 {
			missing = append(missing, i)
		} else if count[i] > 1 {
			dup = append(dup, i)
		}
	}
	return
}

func sentinelRequest() frameSpec {
	// the envelope that ends a script has a body: the end of a session must not depend on how bare headers are treated
	return frameSpec{Kind: "query", Sid: sentinelSid, Fill: "p", Seed: 9, N: 12}
}

func sentinelResponse() frameSpec {
	return frameSpec{Kind: "rows", Sid: sentinelSid, Fill: "p", Seed: 9, N: 12}
}

var creds = &client.AuthCredentials{Username: "cassandra", Password: "cassandra"}

func credsFor(auth bool) *client.AuthCredentials {
	if auth {
		return creds
	}
	return nil
}

func freeAddr() string {
	l, err := net.Listen("tcp", "127.0.0.1:0")
	if err != nil {
		panic(err)
	}
	defer l.Close()
	return l.Addr().String()
}

// startServer retries on a port that was taken between the probe and the bind
func startServer(ctx context.Context, auth bool) (*client.CqlServer, string, error) {
	var last error
	for try := 0; try < 6; try++ {
		addr := freeAddr()
		s := client.NewCqlServer(addr, credsFor(auth))
		s.AcceptTimeout = 15 * time.Second
		if err := s.Start(ctx); err != nil {
			last = err
			if strings.Contains(err.Error(), "address already in use") {
				continue
			}
			return nil, "", err
		}
		return s, addr, nil
	}
	return nil, "", last
}

// ---- the real server's user code: handshake (optionally), then receive / echo until the sentinel or the end

type serverSide struct {
	mu       sync.Mutex
	received []*frame.Frame
	sent     []*frame.Frame
	hsErr    error
	done     chan struct{}
}

func serveEcho(sc *client.CqlServerConnection, handshake bool) *serverSide {
	return serveEchoUntil(sc, handshake, sentinelSid)
}

// stopAt < 0: echo until the connection ends
func serveEchoUntil(sc *client.CqlServerConnection, handshake bool, stopAt int) *serverSide {
	s := &serverSide{done: make(chan struct{})}
	go func() {
		defer close(s.done)
		if handshake {
			if err := sc.AcceptHandshake(); err != nil {
				s.hsErr = err
				return
			}
		}
		for {
			f, err := sc.Receive()
			if err != nil || f == nil {
				return
			}
			r := echo(f)
			s.mu.Lock()
			s.received = append(s.received, f.DeepCopy())
			s.sent = append(s.sent, r.DeepCopy())
			s.mu.Unlock()
			if err := sc.Send(r); err != nil {
				return
			}
			if stopAt >= 0 && int(f.Header.StreamId) == stopAt {
				return
			}
		}
	}()
	return s
}

func (s *serverSide) wait(d time.Duration) bool {
	select {
	case <-s.done:
		return true
	case <-time.After(d):
		return false
	}
}

func (s *serverSide) snapshot() (rec, sent []*frame.Frame) {
	s.mu.Lock()
	defer s.mu.Unlock()
	return append([]*frame.Frame(nil), s.received...), append([]*frame.Frame(nil), s.sent...)
}

func compName(c primitive.Compression) string {
	if c == "" {
		return "NONE"
	}
	return string(c)
}

func lz4Class(comp primitive.Compression, bodies ...[]byte) string {
	if comp != primitive.CompressionLz4 {
		return ""
	}
	for _, b := range bodies {
		if hasRepeat65536(b) {
			return "lz4-offset-65536"
		}
	}
	return ""
}

// =================================================================================================== loopback
func runLoopback(id string, v primitive.ProtocolVersion, comp primitive.Compression, auth bool, specs []frameSpec) *result {
	t0 := time.Now()
	res := &result{Kind: "session", ID: id, Mode: "loopback", Version: int(v), Compression: compName(comp), Auth: auth,
		Script: map[string]interface{}{"requests": specs}, Obs: map[string]interface{}{}, Failures: []failure{}}
	defer func() { res.Millis = time.Since(t0).Milliseconds() }()
	ctx, cancel := context.WithCancel(context.Background())
	defer cancel()
	server, addr, err := startServer(ctx, auth)
	if err != nil {
		res.fail("harness", "server start: %v", err)
		return res
	}
	defer server.Close()
	clt := client.NewCqlClient(addr, credsFor(auth))
	clt.Compression = comp
	clt.ReadTimeout = patience()
	cc, sc, err := server.BindAndInit(clt, ctx, v, 1)
	if err != nil {
		res.fail("handshake", "handshake failed: %v", err)
		return res
	}
	defer cc.Close()
	side := serveEcho(sc, false)
	all := append(append([]frameSpec(nil), specs...), frameSpec{Kind: "options", Sid: sentinelSid})
	sent := make([]*frame.Frame, len(all))
	fills := make([][]byte, len(all))
	got := make([]*frame.Frame, len(all))
	const window = 8
	for lo := 0; lo < len(all); lo += window {
		hi := lo + window
		if hi > len(all) {
			hi = len(all)
		}
		chans := make([]client.InFlightRequest, hi-lo)
		for i := lo; i < hi; i++ {
			f, fl := all[i].build(v)
			if comp == primitive.CompressionNone || comp == "" {
				f.SetCompress(false)
			}
			sent[i], fills[i] = f.DeepCopy(), fl
			ch, err := cc.Send(f)
			if err != nil {
				res.fail(lz4Class(comp, fl), "request %d (%s, %d bytes) was refused by Send: %v", i, all[i].Kind, all[i].N, err)
				return res
			}
			chans[i-lo] = ch
		}
		for i := lo; i < hi; i++ {
			r, err := cc.Receive(chans[i-lo])
			if err != nil || r == nil {
				res.fail(lz4Class(comp, fills[i]), "no response to request %d (%s, stream %d, %d filler bytes): %v", i, all[i].Kind, all[i].Sid, all[i].N, err)
				return res
			}
			got[i] = r
		}
	}
	if !side.wait(patience()) {
		res.fail("", "the server side did not see the last request within %v", patience())
	}
	rec, srvSent := side.snapshot()
	if len(rec) != len(all) {
		res.fail("", "server received %d frames, client sent %d", len(rec), len(all))
	}
	for i := 0; i < len(rec) && i < len(all); i++ {
		if d := sameFrame(sent[i], rec[i]); d != "" {
			res.fail(lz4Class(comp, fills[i]), "request %d (%s, stream %d) arrived different at the server: %s", i, all[i].Kind, all[i].Sid, d)
		}
		res.Bytes += int(rec[i].Header.BodyLength) + 9
		if b, err := plainBytes(rec[i]); err == nil && len(b) > res.MaxEnvelope {
			res.MaxEnvelope = len(b)
		}
	}
	bySid := map[int16]*frame.Frame{}
	for _, f := range srvSent {
		bySid[f.Header.StreamId] = f
	}
	for i, r := range got {
		if r == nil {
			continue
		}
		if d := sameFrame(bySid[r.Header.StreamId], r); d != "" {
			res.fail(lz4Class(comp, fills[i]), "response to request %d (stream %d) arrived different at the client: %s", i, all[i].Sid, d)
		}
		res.Bytes += int(r.Header.BodyLength) + 9
	}
	res.Frames = len(rec) + len(got)
	return res
}

// v5: an envelope that does not fit one segment cannot be SENT (model: C15_tx_modern_large_refused; nothing splits
// outgoing envelopes - a limitation outside C15's quantifier, reported as an observation). What IS required: the failed
// write ends the connection - the request fails and both ends are closed - instead of leaving the peer waiting.
//
//	dir "request":  the real client sends a QUERY of n bytes
//	dir "response": the real client sends a small QUERY, the real server's handler answers with a Rows result of n bytes
//
// The verdict is read off the state (request failed, client closed, server connection closed), not off a duration.
func probeOversizeSend(v primitive.ProtocolVersion, n int, dir string) *result {
	t0 := time.Now()
	if dir == "" {
		dir = "request"
	}
	res := &result{Kind: "session", ID: fmt.Sprintf("oversize-%s-v%d-%d", dir, v, n), Mode: "oversize", Version: int(v), Compression: "NONE",
		Script: map[string]interface{}{"dir": dir, "n": n}, Obs: map[string]interface{}{"dir": dir}, Failures: []failure{}}
	defer func() { res.Millis = time.Since(t0).Milliseconds() }()
	ctx, cancel := context.WithCancel(context.Background())
	defer cancel()
	server, addr, err := startServer(ctx, false)
	if err != nil {
		res.fail("harness", "server start: %v", err)
		return res
	}
	defer server.Close()
	clt := client.NewCqlClient(addr, nil)
	clt.ReadTimeout = 5 * time.Second
	cc, sc, err := server.BindAndInit(clt, ctx, v, 1)
	if err != nil {
		res.fail("handshake", "handshake failed: %v", err)
		return res
	}
	defer cc.Close()
	reqN := n
	if dir == "response" {
		reqN = 10
		go func() { // the server's user code: one request, one oversized response
			f, err := sc.Receive()
			if err != nil || f == nil {
				return
			}
			big, _ := frameSpec{Kind: "rows", Sid: int(f.Header.StreamId), Fill: "p", Seed: 2, N: n}.build(v)
			_ = sc.Send(big)
		}()
	} else {
		_ = serveEcho(sc, false)
	}
	f, _ := frameSpec{Kind: "query", Sid: 5, Fill: "p", Seed: 1, N: reqN}.build(v)
	ch, err := cc.Send(f)
	delivered := false
	if err == nil {
		r, err2 := cc.Receive(ch)
		delivered = err2 == nil && r != nil
		if err2 != nil {
			res.Obs["request_error"] = err2.Error()
		}
	} else {
		res.Obs["send_error"] = err.Error()
	}
	closedWithin := func(closed func() bool) bool {
		deadline := time.Now().Add(patience())
		for !closed() && time.Now().Before(deadline) {
			time.Sleep(10 * time.Millisecond)
		}
		return closed()
	}
	clientClosed := closedWithin(cc.IsClosed)
	serverClosed := closedWithin(sc.IsClosed)
	res.Obs["delivered"] = delivered
	res.Obs["client_closed"] = clientClosed
	res.Obs["server_closed"] = serverClosed
	if !delivered && specModern(v) && n > 131071 {
		if !clientClosed || !serverClosed {
			res.fail("oversize-send", "v%d, %s of %d bytes (does not fit one segment, the write fails): the request failed but the connection did not end - "+
				"client connection closed: %v, server connection closed: %v (request error: %v)", v, dir, n, clientClosed, serverClosed, res.Obs["request_error"])
		}
	}
	return res
}

// Protocol v2 with managed stream ids (client.ManagedStreamId) and the default MaxInFlight: strictly sequential requests,
// never more than one in flight. Every one of them must be answered. (Known finding: ids are recycled FIFO from a pool
// 1..MaxInFlight, v2 ids are one signed byte, so the request that is handed id 128 kills the connection.)
func probeManaged(v primitive.ProtocolVersion, n int) *result {
	t0 := time.Now()
	res := &result{Kind: "session", ID: fmt.Sprintf("managed-ids-v%d-%d", v, n), Mode: "managed", Version: int(v), Compression: "NONE",
		Script: map[string]interface{}{"sequential_requests": n, "stream_id": "managed", "max_in_flight": client.DefaultMaxInFlight}, Obs: map[string]interface{}{}, Failures: []failure{}}
	defer func() { res.Millis = time.Since(t0).Milliseconds() }()
	ctx, cancel := context.WithCancel(context.Background())
	defer cancel()
	server, addr, err := startServer(ctx, false)
	if err != nil {
		res.fail("harness", "server start: %v", err)
		return res
	}
	defer server.Close()
	clt := client.NewCqlClient(addr, nil)
	clt.ReadTimeout = patience()
	cc, sc, err := server.BindAndInit(clt, ctx, v, client.ManagedStreamId)
	if err != nil {
		res.fail("handshake", "handshake with a managed stream id failed: %v", err)
		return res
	}
	defer cc.Close()
	_ = serveEchoUntil(sc, false, -1)
	maxId := 0
	for i := 1; i <= n; i++ {
		req := frame.NewFrame(v, client.ManagedStreamId, &message.Options{})
		ch, err := cc.Send(req)
		if err != nil {
			res.fail("", "request #%d (managed stream id, nothing else in flight) was refused by Send: %v", i, err)
			break
		}
		id := int(ch.StreamId())
		if id > maxId {
			maxId = id
		}
		r, err := cc.Receive(ch)
		res.Frames += 2
		if err != nil || r == nil {
			detail := M{"request": i, "assigned_stream_id": id, "connection_closed": cc.IsClosed(), "answered_before": i - 1}
			if v <= primitive.ProtocolVersion2 && id > 127 {
				// exactly the known symptom: the id does not fit the one-byte stream id of protocol v2
				res.failKnownClass("v2-managed-stream-id-overflow", detail, "v%d: sequential request #%d was assigned managed stream id %d (> 127, the largest id of "+
					"protocol v%d); Send accepted it, it was never answered and the connection was closed: %v (requests #1..#%d were answered)", v, i, id, v, cc.IsClosed(), i-1)
			} else {
				res.failDetail("", detail, "v%d: sequential request #%d (managed stream id %d) got no response: %v; connection closed: %v", v, i, id, err, cc.IsClosed())
			}
			break
		}
		if r.Header.StreamId != int16(id) {
			res.fail("", "request #%d: response on stream %d, request on stream %d", i, r.Header.StreamId, id)
			break
		}
		if _, ok := r.Body.Message.(*message.Supported); !ok {
			res.fail("", "request #%d: OPTIONS answered by %v", i, r.Header.OpCode)
			break
		}
		res.Obs["answered"] = i
	}
	res.Obs["largest_stream_id"] = maxId
	return res
}

// A STARTUP whose COMPRESSION names no algorithm the library knows: observation, compared with the model (the server adopts
// a compression for which it has no compressor: the flagged response cannot be encoded, the failed write ends the connection).
func probeUnknownCompression(v primitive.ProtocolVersion, name string) *result {
	t0 := time.Now()
	res := &result{Kind: "session", ID: fmt.Sprintf("unknown-compression-v%d-%x", v, name), Mode: "unknowncomp", Version: int(v), Compression: name,
		Script: map[string]interface{}{"startup_compression": name}, Obs: map[string]interface{}{}, Failures: []failure{}}
	defer func() { res.Millis = time.Since(t0).Milliseconds() }()
	ctx, cancel := context.WithCancel(context.Background())
	defer cancel()
	server, addr, err := startServer(ctx, false)
	if err != nil {
		res.fail("harness", "server start: %v", err)
		return res
	}
	defer server.Close()
	conn, err := net.DialTimeout("tcp", addr, 10*time.Second)
	if err != nil {
		res.fail("harness", "dial: %v", err)
		return res
	}
	defer conn.Close()
	sconn, err := server.AcceptAny()
	if err != nil {
		res.fail("harness", "accept: %v", err)
		return res
	}
	_ = serveEcho(sconn, true)
	p := newRawPeer(conn, v, primitive.CompressionNone, 0)
	startup := message.NewStartup()
	startup.Options[message.StartupOptionCompression] = name
	if err := p.writeFrame(frame.NewFrame(v, 1, startup)); err != nil {
		res.fail("harness", "write STARTUP: %v", err)
		return res
	}
	_ = conn.SetReadDeadline(time.Now().Add(shortTimeout))
	raw, err := p.rawFrames.DecodeRawFrame(p.rd)
	res.Obs["startup_answered"] = err == nil && raw != nil
	res.Obs["startup_response_compressed"] = err == nil && raw != nil && raw.Header.Flags.Contains(primitive.HeaderFlagCompressed)
	res.Obs["connection_ended"] = err != nil && !isTimeout(err)
	if err != nil {
		res.Obs["error"] = err.Error()
	}
	return res
}

// Observation only (a precondition of any exchange, not part of C15's statements): a server listening on a wildcard
// address (":port", dual stack where the host has IPv6) and a client dialling 127.0.0.1 - does Bind pair them?
func probeDualStack() *result {
	t0 := time.Now()
	res := &result{Kind: "session", ID: "dual-stack-listener", Mode: "dualstack", Version: 4, Compression: "NONE",
		Script: map[string]interface{}{"listen": ":<port>", "dial": "127.0.0.1:<port>"}, Obs: map[string]interface{}{}, Failures: []failure{}}
	defer func() { res.Millis = time.Since(t0).Milliseconds() }()
	ctx, cancel := context.WithCancel(context.Background())
	defer cancel()
	var server *client.CqlServer
	port := ""
	for try := 0; try < 6; try++ {
		addr := freeAddr()
		port = addr[strings.LastIndex(addr, ":"):]
		server = client.NewCqlServer(port, nil)
		server.AcceptTimeout = time.Second
		if err := server.Start(ctx); err == nil {
			break
		} else {
			server = nil
			res.Obs["start_error"] = err.Error()
		}
	}
	if server == nil {
		return res
	}
	defer func() {
		if p := recover(); p != nil {
			res.Obs["panic_on_close"] = fmt.Sprint(p)
		}
	}()
	defer server.Close()
	clt := client.NewCqlClient("127.0.0.1"+port, nil)
	cc, _, err := server.Bind(clt, ctx)
	res.Obs["bind_ok"] = err == nil
	if err != nil {
		res.Obs["bind_error"] = err.Error()
	}
	if cc != nil {
		_ = cc.Close()
	}
	return res
}

// =================================================================================================== raw client
type rawScript struct {
	// StartupComp: the spelling of the COMPRESSION option the raw client puts into STARTUP ("" = the canonical upper-case
	// name). The specifications, Cassandra's SUPPORTED and the drivers write "lz4" / "snappy"; names are not case-sensitive.
	StartupComp string      `json:"startup_compression,omitempty"`
	Specs       []frameSpec `json:"specs"`
	Plan        []segPlan   `json:"plan"` // over the envelopes of Specs (modern layout only); the sentinel is appended by the harness
	Chunk       int         `json:"chunk"`
	Conforming  bool        `json:"conforming"`
	Class       string      `json:"class"`
}

func obs3(f *frame.Frame) [3]int {
	return [3]int{int(f.Header.StreamId), int(f.Header.OpCode), int(f.Header.BodyLength)}
}

func buildWire(envs [][]byte, plan []segPlan) []wireSeg {
	ws := make([]wireSeg, len(plan))
	for i, p := range plan {
		var b []byte
		for _, sl := range p.Slices {
			b = append(b, envs[sl[0]][sl[1]:sl[2]]...)
		}
		ws[i] = wireSeg{Self: p.Self, Payload: b}
	}
	return ws
}

func runRawClient(id string, v primitive.ProtocolVersion, comp primitive.Compression, auth bool, script rawScript) *result {
	t0 := time.Now()
	res := &result{Kind: "session", ID: id, Mode: "rawclient", Version: int(v), Compression: compName(comp), Auth: auth,
		Script: map[string]interface{}{"requests": script}, Obs: map[string]interface{}{}, Failures: []failure{}}
	defer func() { res.Millis = time.Since(t0).Milliseconds() }()
	ctx, cancel := context.WithCancel(context.Background())
	defer cancel()
	server, addr, err := startServer(ctx, auth)
	if err != nil {
		res.fail("harness", "server start: %v", err)
		return res
	}
	defer server.Close()
	conn, err := net.DialTimeout("tcp", addr, 10*time.Second)
	if err != nil {
		res.fail("harness", "dial: %v", err)
		return res
	}
	defer conn.Close()
	sconn, err := server.AcceptAny()
	if err != nil {
		res.fail("harness", "accept: %v", err)
		return res
	}
	side := serveEcho(sconn, true)
	p := newRawPeer(conn, v, comp, script.Chunk)
	modern := specModern(v)

	// ---- handshake: STARTUP and the response to it are never inside a segment
	startup := message.NewStartup()
	if comp != primitive.CompressionNone && comp != "" {
		startup.SetCompression(comp)
	}
	if script.StartupComp != "" {
		startup.Options[message.StartupOptionCompression] = script.StartupComp
	}
	if err := p.writeFrame(frame.NewFrame(v, 1, startup)); err != nil {
		res.fail("harness", "write STARTUP: %v", err)
		return res
	}
	// the response to STARTUP, byte for byte: header and body as they are on the wire
	_ = conn.SetReadDeadline(time.Now().Add(patience()))
	rawHs, err := p.rawFrames.DecodeRawFrame(p.rd)
	if err != nil {
		if script.StartupComp != "" {
			res.fail(script.Class, "STARTUP (version %d) with COMPRESSION %q got no READY / AUTHENTICATE: %v", v, script.StartupComp, err)
		} else {
			res.fail("wire-format", "the response to STARTUP is not a plain (unframed) envelope: %v", err)
		}
		return res
	}
	hsCompressed := rawHs.Header.Flags.Contains(primitive.HeaderFlagCompressed)
	res.Obs["startup_response"] = rawHs.Header.OpCode.String()
	res.Obs["startup_response_compressed"] = hsCompressed
	if modern {
		// native_protocol_v5.spec 2.3.1: the response to STARTUP is transmitted unframed; 2.4: the compression flag is
		// "deprecated and ignored in protocol v5" - a peer reads the body as the message itself. Check exactly that.
		asSpec := &frame.RawFrame{Header: rawHs.Header.DeepCopy(), Body: rawHs.Body}
		asSpec.Header.Flags = asSpec.Header.Flags.Remove(primitive.HeaderFlagCompressed)
		specF, specErr := plainRaw.ConvertFromRawFrame(asSpec)
		okAsSpec := specErr == nil
		if okAsSpec {
			if a, isAuth := specF.Body.Message.(*message.Authenticate); isAuth && a.Authenticator == "" {
				okAsSpec = false
			}
		}
		if hsCompressed || !okAsSpec {
			n := len(rawHs.Body)
			if n > 12 {
				n = 12
			}
			res.failKnownClass("v5-handshake-envelope-compressed", M{"header_flags": int(rawHs.Header.Flags), "opcode": rawHs.Header.OpCode.String(),
				"body_length": len(rawHs.Body), "body_prefix": fmt.Sprintf("%x", rawHs.Body[:n]), "readable_with_flag_ignored": okAsSpec},
				"v5, COMPRESSION %s: the unframed %v answering STARTUP has header flags %#02x (COMPRESSED set: %v) and a %d-byte body %x...; read as the "+
					"specification says (flag ignored in v5) it is a well-formed message: %v", compName(comp), rawHs.Header.OpCode, int(rawHs.Header.Flags),
				hsCompressed, len(rawHs.Body), rawHs.Body[:n], okAsSpec)
		}
	}
	hs, err := p.convertNegotiated(rawHs)
	if err != nil {
		res.fail("wire-format", "the response to STARTUP does not decode: %v", err)
		return res
	}
	sendOne := func(f *frame.Frame) error {
		if !modern {
			return p.writeFrame(f)
		}
		env, err := plainBytes(f)
		if err != nil {
			return err
		}
		return p.writeSegments([]wireSeg{{Self: true, Payload: env}})
	}
	readOne := func() (*frame.Frame, string, error) {
		if !modern {
			f, err := p.readFrame()
			return f, "", err
		}
		fs, _, bad, err := p.readModernFrames(func(*frame.Frame) bool { return true })
		if err != nil || bad != "" || len(fs) == 0 {
			return nil, bad, err
		}
		return fs[0], "", nil
	}
	if auth {
		if _, ok := hs.Body.Message.(*message.Authenticate); !ok {
			res.fail("handshake", "expected AUTHENTICATE, got %v", hs.Body.Message)
			return res
		}
		if err := sendOne(frame.NewFrame(v, 1, &message.AuthResponse{Token: plainToken("cassandra", "cassandra")})); err != nil {
			res.fail("harness", "write AUTH_RESPONSE: %v", err)
			return res
		}
		ar, bad, err := readOne()
		if bad != "" {
			res.fail("wire-format", "AUTH_SUCCESS: %s", bad)
			return res
		}
		if err != nil {
			res.fail(map[bool]string{true: "wire-format", false: "handshake"}[isNotLegacy(err) || isWrongAlgorithm(err)], "no AUTH_SUCCESS (version %d): %v", v, err)
			return res
		}
		if _, ok := ar.Body.Message.(*message.AuthSuccess); !ok {
			res.fail("handshake", "expected AUTH_SUCCESS, got %v", ar.Body.Message)
			return res
		}
	} else if _, ok := hs.Body.Message.(*message.Ready); !ok {
		res.fail("handshake", "expected READY, got %v", hs.Body.Message)
		return res
	}

	// ---- the script
	all := append(append([]frameSpec(nil), script.Specs...), sentinelRequest())
	frames := make([]*frame.Frame, len(all))
	fills := make([][]byte, len(all))
	envs := make([][]byte, len(all))
	descs := make([]envDesc, len(all))
	bySidSpec := map[int16]int{}
	for i, s := range all {
		if modern {
			s.Compress = false
		}
		f, fl := s.build(v)
		if comp == primitive.CompressionNone || comp == "" || s.Spare > 0 {
			f.SetCompress(false)
		}
		d, env, err := describe(f, fl, s.Fill, s.Seed, s.Spare)
		if err != nil {
			res.fail("harness", "cannot encode envelope %d: %v", i, err)
			return res
		}
		frames[i], fills[i], envs[i], descs[i] = f, fl, env, d
		bySidSpec[int16(s.Sid)] = i
		if len(env) > res.MaxEnvelope {
			res.MaxEnvelope = len(env)
		}
		res.Bytes += len(env)
	}
	res.Frames = len(all)
	var wire []wireSeg
	plan := append([]segPlan(nil), script.Plan...)
	if modern {
		plan = append(plan, segPlan{Self: true, Slices: [][3]int{{len(all) - 1, 0, len(envs[len(all)-1])}}})
		wire = buildWire(envs, plan)
		res.Segments = len(wire)
		if err := p.writeSegments(wire); err != nil {
			res.Obs["write_error"] = err.Error() // the real side may already have closed the connection
		}
	} else {
		for i, f := range frames {
			var err error
			if all[i].Spare > 0 {
				err = p.write(envs[i]) // the envelope with its spare bytes, as encoded above
			} else {
				err = p.writeFrame(f.DeepCopy())
			}
			if err != nil {
				res.Obs["write_error"] = err.Error()
				break
			}
		}
	}

	// ---- what the real server writes back
	outcome := "ok"
	var responses []*frame.Frame
	var txSegs []wireSeg
	if modern {
		fs, segs, bad, err := p.readModernFrames(func(f *frame.Frame) bool { return f.Header.StreamId == sentinelSid })
		responses, txSegs = fs, segs
		if bad != "" {
			res.fail("wire-format", "v5 bytes written by the server: %s", bad)
		}
		if err != nil {
			if isTimeout(err) {
				res.fail("", "timed out waiting for the response to the last request")
			} else {
				outcome = "abort"
			}
		}
	} else {
		for {
			f, err := p.readFrame()
			if err != nil {
				if isNotLegacy(err) || isWrongAlgorithm(err) {
					res.fail("wire-format", "version %d, after the handshake, response %d from the server: %v", v, len(responses), err)
				} else if isTimeout(err) {
					res.fail("", "timed out waiting for the response to the last request")
				} else {
					outcome = "abort"
				}
				break
			}
			responses = append(responses, f)
			if f.Header.StreamId == sentinelSid {
				break
			}
		}
	}
	if !side.wait(patience()) {
		res.fail("", "the server side did not finish within %v", patience())
	}
	if side.hsErr != nil {
		res.fail("handshake", "server handshake: %v", side.hsErr)
	}
	rec, srvSent := side.snapshot()
	res.Obs["outcome"] = outcome
	res.Obs["delivered"] = len(rec)

	if script.Conforming {
		if outcome != "ok" {
			res.fail(script.Class, "the server closed the connection during a spec-conforming script (%d of %d envelopes delivered)", len(rec), len(all))
		}
		// every envelope sent is delivered exactly once, in the order sent (stream ids are distinct within a script)
		sentSids := make([]int, len(all))
		for i, sp := range all {
			sentSids[i] = sp.Sid
		}
		gotSids := make([]int, len(rec))
		for j, f := range rec {
			gotSids[j] = int(f.Header.StreamId)
		}
		place := func(i int) envPlace { return placeOf(plan, i, all[i], len(envs[i])) }
		missing, dup, unknown, inv, inverted := deliveryCheck(sentSids, gotSids)
		for k, i := range missing {
			if k >= 4 {
				break
			}
			pl := place(i)
			res.failDetail(firstNonEmpty(lz4Class(comp, fills[i]), script.Class), M{"not_delivered": pl, "delivered": len(rec), "sent": len(all), "not_delivered_count": len(missing)},
				"%s was never delivered by the server (%d of the %d envelopes sent were delivered)", pl, len(rec)-len(unknown), len(all))
		}
		for _, i := range dup {
			pl := place(i)
			res.failDetail(script.Class, M{"delivered_twice": pl}, "%s was delivered more than once by the server", pl)
		}
		for _, g := range unknown {
			res.fail(script.Class, "the server delivered an envelope with stream id %d that the peer never sent", g)
		}
		if inverted {
			res.failDetail(script.Class, M{"before": place(inv[0]), "after": place(inv[1])}, "delivered out of order: %s was delivered after %s", place(inv[1]), place(inv[0]))
		}
		for _, f := range rec {
			i, ok := bySidSpec[f.Header.StreamId]
			if !ok {
				continue
			}
			if d := sameFrame(frames[i], f); d != "" {
				res.fail(firstNonEmpty(lz4Class(comp, fills[i]), script.Class), "%s arrived different at the server: %s", place(i), d)
				break
			}
		}
	}
	// responses read by the raw peer = responses the server's user code sent, in order
	for i := 0; i < len(responses) && i < len(srvSent); i++ {
		if d := sameFrame(srvSent[i], responses[i]); d != "" {
			k := bySidSpec[srvSent[i].Header.StreamId]
			res.fail(lz4Class(comp, fills[k]), "response %d (stream %d) read by the peer differs from what the server sent: %s", i, srvSent[i].Header.StreamId, d)
			break
		}
	}
	if outcome == "ok" && len(responses) != len(srvSent) {
		res.fail("", "the peer read %d responses, the server sent %d", len(responses), len(srvSent))
	}

	if modern {
		c := &corrRec{Role: "server", Comp: compName(comp), Envs: descs, Plan: plan, Payloads: obsOf(wire), Outcome: outcome,
			Conforming: script.Conforming, Class: script.Class, TxRole: "server", TxPayloads: obsOf(txSegs)}
		for _, f := range rec {
			c.Delivered = append(c.Delivered, obs3(f))
		}
		for _, w := range txSegs {
			n := 0
			if w.Self {
				fs, _ := envelopesOf(w.Payload)
				n = len(fs)
			}
			c.TxCounts = append(c.TxCounts, n)
		}
		for _, f := range srvSent {
			k := bySidSpec[f.Header.StreamId]
			d, _, err := describe(f, fills[k], all[k].Fill, all[k].Seed, 0)
			if err != nil {
				res.fail("harness", "cannot describe response: %v", err)
				break
			}
			c.TxFrames = append(c.TxFrames, d)
		}
		res.Corr = c
	}
	return res
}

func firstNonEmpty(a, b string) string {
	if a != "" {
		return a
	}
	return b
}

// =================================================================================================== raw server
func runRawServer(id string, v primitive.ProtocolVersion, comp primitive.Compression, auth bool, reqs []frameSpec, script rawScript) *result {
	t0 := time.Now()
	res := &result{Kind: "session", ID: id, Mode: "rawserver", Version: int(v), Compression: compName(comp), Auth: auth,
		Script: map[string]interface{}{"requests": reqs, "responses": script}, Obs: map[string]interface{}{}, Failures: []failure{}}
	defer func() { res.Millis = time.Since(t0).Milliseconds() }()
	ctx, cancel := context.WithCancel(context.Background())
	defer cancel()
	var ln net.Listener
	var err error
	for try := 0; try < 6; try++ {
		if ln, err = net.Listen("tcp", "127.0.0.1:0"); err == nil {
			break
		}
	}
	if err != nil {
		res.fail("harness", "listen: %v", err)
		return res
	}
	defer ln.Close()
	clt := client.NewCqlClient(ln.Addr().String(), credsFor(auth))
	clt.Compression = comp
	clt.ReadTimeout = patience()
	clt.ConnectTimeout = 10 * time.Second
	var cc *client.CqlClientConnection
	var hsErr error
	hsDone := make(chan struct{})
	go func() {
		defer close(hsDone)
		var e error
		if cc, e = clt.Connect(ctx); e != nil {
			hsErr = e
			return
		}
		hsErr = cc.InitiateHandshake(v, 1)
	}()
	_ = ln.(*net.TCPListener).SetDeadline(time.Now().Add(10 * time.Second))
	conn, err := ln.Accept()
	if err != nil {
		res.fail("harness", "accept: %v", err)
		return res
	}
	defer conn.Close()
	defer func() {
		<-hsDone
		if cc != nil {
			_ = cc.Close()
		}
	}()
	p := newRawPeer(conn, v, comp, script.Chunk)
	modern := specModern(v)

	// ---- handshake, server side; STARTUP must be a plain, uncompressed, unframed envelope
	_ = conn.SetReadDeadline(time.Now().Add(patience()))
	st, err := plainCodec.DecodeFrame(p.rd)
	if err != nil {
		res.fail("wire-format", "STARTUP is not a plain (unframed, uncompressed) envelope: %v", err)
		return res
	}
	su, ok := st.Body.Message.(*message.Startup)
	if !ok {
		res.fail("handshake", "expected STARTUP, got %v", st.Body.Message)
		return res
	}
	res.Obs["startup_compression"] = string(su.GetCompression())
	want := comp
	if want == "" {
		want = primitive.CompressionNone
	}
	if su.GetCompression() != want {
		res.fail("handshake", "STARTUP announces compression %q, the client was configured with %q", su.GetCompression(), want)
	}
	sid := st.Header.StreamId
	first := message.Message(&message.Ready{})
	if auth {
		first = &message.Authenticate{Authenticator: "org.apache.cassandra.auth.PasswordAuthenticator"}
	}
	if err := p.writeFrame(frame.NewFrame(v, sid, first)); err != nil {
		res.fail("harness", "write READY/AUTHENTICATE: %v", err)
		return res
	}
	if auth {
		var ar *frame.Frame
		if modern {
			fs, _, bad, err := p.readModernFrames(func(*frame.Frame) bool { return true })
			if bad != "" || err != nil || len(fs) == 0 {
				res.fail("wire-format", "AUTH_RESPONSE after AUTHENTICATE is not inside a well-formed segment: %s %v", bad, err)
				return res
			}
			ar = fs[0]
		} else if ar, err = p.readFrame(); err != nil {
			res.fail(map[bool]string{true: "wire-format", false: "handshake"}[isNotLegacy(err) || isWrongAlgorithm(err)], "no AUTH_RESPONSE (version %d): %v", v, err)
			return res
		}
		m, ok := ar.Body.Message.(*message.AuthResponse)
		if !ok || string(m.Token) != string(plainToken("cassandra", "cassandra")) {
			res.fail("handshake", "unexpected AUTH_RESPONSE %v", ar.Body.Message)
			return res
		}
		ok2 := frame.NewFrame(v, ar.Header.StreamId, &message.AuthSuccess{})
		if modern {
			env, _ := plainBytes(ok2)
			err = p.writeSegments([]wireSeg{{Self: true, Payload: env}})
		} else {
			err = p.writeFrame(ok2)
		}
		if err != nil {
			res.fail("harness", "write AUTH_SUCCESS: %v", err)
			return res
		}
	}
	select {
	case <-hsDone:
	case <-time.After(patience()):
		res.fail("handshake", "client handshake did not finish within %v", patience())
		return res
	}
	if hsErr != nil {
		res.fail("handshake", "client handshake: %v", hsErr)
		return res
	}

	// ---- requests written by the real client; the last one is the sentinel, whose response (it has a body) ends the script
	reqs = append(append([]frameSpec(nil), reqs...), sentinelRequest())
	evch := cc.EventChannel()
	sentReq := make([]*frame.Frame, len(reqs))
	reqFills := make([][]byte, len(reqs))
	reqDescs := make([]envDesc, len(reqs))
	chans := make([]client.InFlightRequest, len(reqs))
	for i, s := range reqs {
		f, fl := s.build(v)
		if comp == primitive.CompressionNone || comp == "" {
			f.SetCompress(false)
		}
		sentReq[i], reqFills[i] = f.DeepCopy(), fl
		d, _, err := describe(f, fl, s.Fill, s.Seed, 0)
		if err != nil {
			res.fail("harness", "cannot describe request: %v", err)
			return res
		}
		reqDescs[i] = d
		if chans[i], err = cc.Send(f); err != nil {
			res.fail("", "request %d refused by Send: %v", i, err)
			return res
		}
	}
	var gotReq []*frame.Frame
	var txSegs []wireSeg
	if modern {
		n := 0
		fs, segs, bad, err := p.readModernFrames(func(*frame.Frame) bool { n++; return n >= len(reqs) })
		gotReq, txSegs = fs, segs
		if bad != "" {
			res.fail("wire-format", "v5 bytes written by the client: %s", bad)
		}
		if err != nil {
			res.fail("", "reading the client's requests: %v", err)
		}
	} else {
		for range reqs {
			f, err := p.readFrame()
			if err != nil {
				res.fail(map[bool]string{true: "wire-format", false: ""}[isNotLegacy(err) || isWrongAlgorithm(err)], "version %d, after the handshake, request %d of %d written by the client: %v", v, len(gotReq), len(reqs), err)
				break
			}
			gotReq = append(gotReq, f)
		}
	}
	if len(gotReq) != len(reqs) {
		res.fail("", "the peer read %d requests, the client sent %d", len(gotReq), len(reqs))
	}
	for i := 0; i < len(gotReq) && i < len(reqs); i++ {
		if d := sameFrame(sentReq[i], gotReq[i]); d != "" {
			res.fail(lz4Class(comp, reqFills[i]), "request %d (%s, stream %d) read by the peer differs from what the client sent: %s", i, reqs[i].Kind, reqs[i].Sid, d)
			break
		}
	}

	// ---- responses and events in the segmentation of the script, then the response to the sentinel in a segment of its own
	all := append(append([]frameSpec(nil), script.Specs...), sentinelResponse())
	frames := make([]*frame.Frame, len(all))
	fills := make([][]byte, len(all))
	envs := make([][]byte, len(all))
	descs := make([]envDesc, len(all))
	for i, s := range all {
		if modern {
			s.Compress = false
		}
		f, fl := s.build(v)
		if comp == primitive.CompressionNone || comp == "" || s.Spare > 0 {
			f.SetCompress(false)
		}
		d, env, err := describe(f, fl, s.Fill, s.Seed, s.Spare)
		if err != nil {
			res.fail("harness", "cannot encode response %d: %v", i, err)
			return res
		}
		frames[i], fills[i], envs[i], descs[i] = f, fl, env, d
		if len(env) > res.MaxEnvelope {
			res.MaxEnvelope = len(env)
		}
		res.Bytes += len(env)
	}
	res.Frames = len(all) + len(reqs)
	var wire []wireSeg
	plan := append([]segPlan(nil), script.Plan...)
	if modern {
		plan = append(plan, segPlan{Self: true, Slices: [][3]int{{len(all) - 1, 0, len(envs[len(all)-1])}}})
		wire = buildWire(envs, plan)
		res.Segments = len(wire)
		if err := p.writeSegments(wire); err != nil {
			res.Obs["write_error"] = err.Error()
		}
	} else {
		for i, f := range frames {
			var err error
			if all[i].Spare > 0 {
				err = p.write(envs[i])
			} else {
				err = p.writeFrame(f.DeepCopy())
			}
			if err != nil {
				res.Obs["write_error"] = err.Error()
				break
			}
		}
	}

	// ---- what the real client hands to its user.  The client's read loop dispatches frames one after the other: once the
	//      response to the sentinel (the last envelope written) has been handed over, every envelope written before it has
	//      been dispatched - to the buffered channel of its in-flight request or to the buffered event channel - or never
	//      will be.  So only the sentinel is waited for; everything else is then there or missing, without further waiting.
	bySid := map[int16]*frame.Frame{}
	idxOf := map[int]int{}
	var events []*frame.Frame
	var eventIdx []int
	for i, f := range frames {
		if f.Header.OpCode == primitive.OpCodeEvent {
			events = append(events, f)
			eventIdx = append(eventIdx, i)
		} else {
			bySid[f.Header.StreamId] = f
			idxOf[int(f.Header.StreamId)] = i
		}
	}
	place := func(i int) envPlace { return placeOf(plan, i, all[i], len(envs[i])) }
	outcome := "ok"
	var deliveredResp [][3]int
	missing := 0
	sentinelSeen := false
	if r, err := cc.Receive(chans[len(chans)-1]); err == nil && r != nil {
		sentinelSeen = true
		deliveredResp = append(deliveredResp, obs3(r))
		if d := sameFrame(frames[len(frames)-1], r); d != "" {
			res.fail(script.Class, "the response that ends the script (stream %d) arrived different at the client: %s", sentinelSid, d)
		}
	} else {
		if cc.IsClosed() {
			outcome = "abort"
		}
		if script.Conforming {
			res.fail(script.Class, "the response that ends the script (stream %d, a RESULT with a body, alone in the last segment) was not delivered: %v", sentinelSid, err)
		}
	}
	grace := 2 * time.Second // the frames are already in their channels (see above); the margin costs nothing when they are
	if !sentinelSeen {
		grace = 200 * time.Millisecond
	}
	within := func(ch <-chan *frame.Frame, d time.Duration) (*frame.Frame, bool) {
		select {
		case f, ok := <-ch:
			return f, ok && f != nil
		default:
		}
		select {
		case f, ok := <-ch:
			return f, ok && f != nil
		case <-time.After(d):
			return nil, false
		}
	}
	notDelivered := 0
	for i, ch := range chans[:len(chans)-1] {
		wantF := bySid[int16(reqs[i].Sid)]
		if wantF == nil {
			continue // the script answers only some requests
		}
		r, ok := within(ch.Incoming(), grace)
		if !ok {
			missing++
			if cc.IsClosed() {
				outcome = "abort"
			}
			if script.Conforming {
				pl := place(idxOf[reqs[i].Sid])
				if notDelivered < 4 {
					res.failDetail(script.Class, M{"not_delivered": pl, "sentinel_delivered": sentinelSeen},
						"%s was never delivered to the client's request on stream %d (the response written after it was delivered: %v)", pl, reqs[i].Sid, sentinelSeen)
				}
				notDelivered++
			}
			grace = 200 * time.Millisecond
			continue
		}
		deliveredResp = append(deliveredResp, obs3(r))
		if d := sameFrame(wantF, r); d != "" {
			res.fail(firstNonEmpty(lz4Class(comp, fills...), script.Class), "%s arrived different at the client: %s", place(idxOf[reqs[i].Sid]), d)
		}
		if extra, ok := within(ch.Incoming(), 0); ok {
			res.failDetail(script.Class, M{"delivered_twice": place(idxOf[reqs[i].Sid])}, "a second frame (opcode %v) was delivered to the request on stream %d", extra.Header.OpCode, reqs[i].Sid)
		}
	}
	// events: exactly the events written, in the order written
	var deliveredEv [][3]int
	for i, e := range events {
		if evch == nil {
			break
		}
		r, ok := within(evch, grace)
		if !ok {
			if cc.IsClosed() {
				outcome = "abort"
			}
			if script.Conforming {
				res.failDetail(script.Class, M{"not_delivered": place(eventIdx[i])}, "event %d: %s was not delivered (%d of %d events delivered)", i, place(eventIdx[i]), len(deliveredEv), len(events))
			}
			break
		}
		deliveredEv = append(deliveredEv, obs3(r))
		if d := sameFrame(e, r); d != "" {
			res.fail(script.Class, "event %d: %s arrived different (or out of order) at the client: %s", i, place(eventIdx[i]), d)
		}
	}
	if evch != nil && len(deliveredEv) == len(events) {
		if extra, ok := within(evch, 0); ok {
			res.fail(script.Class, "an event nobody sent (or a duplicate) was delivered: stream %d, body length %d", extra.Header.StreamId, extra.Header.BodyLength)
		}
	}
	if cc.IsClosed() {
		outcome = "abort"
	}
	if script.Conforming && outcome != "ok" {
		res.fail(script.Class, "the client closed the connection during a spec-conforming script")
	}
	res.Obs["outcome"] = outcome
	res.Obs["missing"] = missing
	sort.Slice(deliveredResp, func(i, j int) bool { return deliveredResp[i][0] < deliveredResp[j][0] })

	if modern {
		c := &corrRec{Role: "client", Comp: compName(comp), Envs: descs, Plan: plan, Payloads: obsOf(wire), Outcome: outcome,
			Conforming: script.Conforming, Class: script.Class, Delivered: deliveredEv, Responses: deliveredResp,
			TxRole: "client", TxFrames: reqDescs, TxPayloads: obsOf(txSegs)}
		for _, w := range txSegs {
			n := 0
			if w.Self {
				fs, _ := envelopesOf(w.Payload)
				n = len(fs)
			}
			c.TxCounts = append(c.TxCounts, n)
		}
		res.Corr = c
	}
	return res
}
