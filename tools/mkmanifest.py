#!/usr/bin/env python3
"""Writes /verif/MANIFEST.json from the table below (one place to edit)."""
import json
import os

ROOT = os.path.dirname(os.path.dirname(os.path.abspath(__file__)))
ALL = ["C%02d" % i for i in range(1, 21)]

COMMON_NOTE = ("Trusted: Coq 8.16.1 kernel + vm_compute (no native_compute); tools/go2coq and coq/base/GoInt.v for regenerated files; "
               "hand-written model files only as far as the correspondence run compared them with the compiled code; 64-bit int. "
               "No axioms: Print Assumptions under every property theorem is captured into the evidence on every run.")

import importlib
import sys

sys.path.insert(0, os.path.join(ROOT, "tools", "lib"))
sys.path.insert(0, os.path.join(ROOT, "tools", "props"))

# Each tools/props/Cxx.py exports MANIFEST = {"text":…, "technique":…, "design_ref":…, "note":…, optional "hooks": [...]}
CLAIMED = {}
for _p in ALL:
    if os.path.exists(os.path.join(ROOT, "tools", "props", _p + ".py")):
        _m = importlib.import_module(_p)
        if getattr(_m, "MANIFEST", None):
            CLAIMED[_p] = dict(_m.MANIFEST)
            CLAIMED[_p].setdefault("note", "")
            CLAIMED[_p]["note"] = (CLAIMED[_p]["note"] + " " + COMMON_NOTE).strip()

NOT_YET = "machinery for this property is not built yet in this revision of /verif (the design claims it; see DESIGN.md section 3)"


def main():
    checks = []
    for pid in ALL:
        if pid not in CLAIMED:
            continue
        c = CLAIMED[pid]
        checks.append({
            "property_id": pid,
            "quick_cmd": "./check %s quick" % pid,
            "thorough_cmd": "./check %s thorough" % pid,
            "evidence_file": "/verif/evidence/%s.json" % pid,
            "replay_cmd_template": "./check %s --replay {path}" % pid,
            "engine": "rocq-model",
            "level_claimed": {"category": "proof", "text": c["text"], "design_ref": c["design_ref"]},
            "level_note": c["note"],
            "technique": c["technique"],
        })
    m = {
        "version": 1,
        "setup_cmd": "./setup.sh",
        "hooks": {
            "guard": "verif",
            "enable": "go build -tags verif (the harness module tools/harness replaces the library by /repo and is rebuilt on every check run)",
            "baseline_off_cmd": "cd /repo && GOFLAGS=-mod=mod GOPROXY=off go test -vet=off -count=1 ./...",
            "source_commits": HOOK_COMMITS,
            "add_only": True,
        },
        "engines": [
            {"name": "rocq-model", "path": "coq/", "serves_properties": sorted(CLAIMED), "kind_free_text": "Coq 8.16.1 development: base/ gen/ model/ spec/ proofs/ props/"},
            {"name": "go2coq", "path": "tools/go2coq/", "serves_properties": sorted(CLAIMED), "kind_free_text": "Go source -> Gallina translator (go/parser + go/types)"},
            {"name": "harness", "path": "tools/harness/", "serves_properties": sorted(CLAIMED), "kind_free_text": "runs the implementation on generated inputs; correspondence and directed search"},
        ],
        "checks": checks,
        "not_applicable": [{"property_id": p, "reason": NA.get(p, NOT_YET)} for p in ALL if p not in CLAIMED],
        "notes": "Single entry point ./check <id> quick|thorough. Known findings: known_findings.jsonl. See DESIGN.md.",
    }
    with open(os.path.join(ROOT, "MANIFEST.json"), "w") as f:
        json.dump(m, f, indent=1)
        f.write("\n")


HOOK_COMMITS = ["0d265a77d354839568a4ebf77ea7411aa35ccac5", "b842b89e1e294cca266f5a3d8cb7bdbb28e2463a"]   # client/verif_hooks.go, datacodec/verif_hooks.go (build tag verif, add-only)
NA = {}

if __name__ == "__main__":
    main()
