package main

// Unit "footprint" (property C18, partial).
//
// For every codec entry point of /repo (the Encode* / Decode* / Convert* / Discard* / Compress* / Decompress* methods of the
// frame, segment, message, datacodec and compression packages) this unit computes, on the SSA form of the CURRENT source
// (golang.org/x/tools/go/ssa), the set of WRITES whose target is memory shared between goroutines that use the same codec:
// memory reachable from the receiver (the shared codec object) or from a package-level variable of the module's own packages.
//
// Method: a context-insensitive, flow-insensitive taint analysis over the module's own functions reachable from the entry
// point.  Seeds: the receiver of the entry point and every module-own package-level variable.  Taint follows field and
// element addresses, loads of pointer-like values, slices, map lookups, conversions, interface construction, phi, closures'
// free variables, call arguments into parameters (static callees, and for interface calls every module-own implementation)
// and results.  A write is a Store / MapUpdate whose address (map) is tainted, a builtin append / copy / delete / clear on a
// tainted operand, a channel send on a tainted channel, or a call into a function outside the module that receives a tainted
// pointer, slice or map (the callee's body is not analysed; fmt / errors formatting calls are taken to be read-only).
// Setters and constructors are listed separately: they are not encode/decode calls.
//
// Not covered (named in the evidence): bodies of third-party and standard-library functions (sync.Pool inside pierrec/lz4),
// implementations of the module's interfaces that live outside the module, reflection, unsafe, the Go memory model.
//
// Output: coq/gen/Footprint_gen.v (fp_entrypoints, fp_setters) and coq/gen/footprint_table.json.

import (
	"encoding/json"
	"fmt"
	"go/token"
	"go/types"
	"os"
	"path/filepath"
	"sort"
	"strings"

	"golang.org/x/tools/go/packages"
	"golang.org/x/tools/go/ssa"
	"golang.org/x/tools/go/ssa/ssautil"
)

func init() {
	allUnits = append(allUnits, unit{"footprint", "Footprint_gen.v", genFootprint})
}

const fpModule = "github.com/datastax/go-cassandra-native-protocol"

// packages whose exported codec methods are entry points
var fpEntryPkgs = []string{"frame", "segment", "message", "datacodec", "compression/lz4", "compression/snappy"}

// every module-own package that the entry points can reach
var fpLoadPkgs = []string{"frame", "segment", "message", "datacodec", "compression/lz4", "compression/snappy", "primitive", "datatype", "crc"}

var fpEntryPrefixes = []string{"Encode", "Decode", "Convert", "Discard", "Compress", "Decompress"}

type fpWrite struct {
	Kind   string `json:"kind"` // WStore WMapUpdate WAppend WCopy WDelete WSend WExternal
	Target string `json:"target"`
	Where  string `json:"where"`
	In     string `json:"in"` // function that performs it
}

type fpEntry struct {
	Name      string    `json:"name"`
	Pkg       string    `json:"pkg"`
	Recv      string    `json:"recv"`
	Method    string    `json:"method"`
	Writes    []fpWrite `json:"writes"`
	Reads     []string  `json:"reads"`
	Functions int       `json:"functions_analysed"`
	Where     string    `json:"where"`
}

type fpAnalysis struct {
	prog    *ssa.Program
	fset    *token.FileSet
	own     map[*ssa.Package]bool
	named   []types.Type // module-own named types and pointers to them
	impls   map[string][]*ssa.Function
	repo    string
	globals []*ssa.Global
}

func fpOwnPath(p string) bool { return p == fpModule || strings.HasPrefix(p, fpModule+"/") }

func (a *fpAnalysis) ownFn(f *ssa.Function) bool {
	if f == nil {
		return false
	}
	for f.Parent() != nil {
		f = f.Parent()
	}
	if f.Pkg != nil {
		return a.own[f.Pkg]
	}
	// instantiations / wrappers: decide by the object's package
	if o := f.Object(); o != nil && o.Pkg() != nil {
		return fpOwnPath(o.Pkg().Path())
	}
	if f.Origin() != nil {
		return a.ownFn(f.Origin())
	}
	return false
}

func (a *fpAnalysis) pos(p token.Pos) string {
	if !p.IsValid() {
		return "?"
	}
	po := a.fset.Position(p)
	rel, err := filepath.Rel(a.repo, po.Filename)
	if err != nil {
		rel = po.Filename
	}
	return fmt.Sprintf("%s:%d", rel, po.Line)
}

func fpPointerLike(t types.Type) bool {
	switch u := t.Underlying().(type) {
	case *types.Pointer, *types.Slice, *types.Map, *types.Chan, *types.Interface, *types.Signature:
		return true
	case *types.Struct:
		for i := 0; i < u.NumFields(); i++ {
			if fpPointerLike(u.Field(i).Type()) {
				return true
			}
		}
	case *types.Array:
		return fpPointerLike(u.Elem())
	case *types.Tuple:
		for i := 0; i < u.Len(); i++ {
			if fpPointerLike(u.At(i).Type()) {
				return true
			}
		}
	}
	return false
}

func fpMutableRef(t types.Type) bool {
	switch t.Underlying().(type) {
	case *types.Pointer, *types.Slice, *types.Map, *types.Chan:
		return true
	}
	return false
}

func fpShortPkg(p string) string {
	if strings.HasPrefix(p, fpModule+"/") {
		return p[len(fpModule)+1:]
	}
	return p
}

func fpTypeName(t types.Type) string {
	if p, ok := t.(*types.Pointer); ok {
		return "*" + fpTypeName(p.Elem())
	}
	if n, ok := t.(*types.Named); ok {
		if n.Obj().Pkg() != nil {
			return fpShortPkg(n.Obj().Pkg().Path()) + "." + n.Obj().Name()
		}
		return n.Obj().Name()
	}
	return types.TypeString(t, func(p *types.Package) string { return fpShortPkg(p.Path()) })
}

// describe names the memory an address / map / slice value denotes.
func fpDescribe(v ssa.Value, depth int) string {
	if depth > 6 {
		return "..."
	}
	switch x := v.(type) {
	case *ssa.Global:
		return fpShortPkg(x.Pkg.Pkg.Path()) + "." + x.Name()
	case *ssa.FieldAddr:
		st := x.X.Type().Underlying().(*types.Pointer).Elem()
		f := st.Underlying().(*types.Struct).Field(x.Field).Name()
		return strings.TrimPrefix(fpTypeName(st), "*") + "." + f
	case *ssa.Field:
		f := x.X.Type().Underlying().(*types.Struct).Field(x.Field).Name()
		return fpTypeName(x.X.Type()) + "." + f
	case *ssa.IndexAddr:
		return fpDescribe(x.X, depth+1) + "[]"
	case *ssa.Index:
		return fpDescribe(x.X, depth+1) + "[]"
	case *ssa.Lookup:
		return fpDescribe(x.X, depth+1) + "{}"
	case *ssa.UnOp:
		if x.Op == token.MUL {
			return fpDescribe(x.X, depth+1)
		}
	case *ssa.Slice:
		return fpDescribe(x.X, depth+1)
	case *ssa.Parameter:
		if x.Parent() != nil {
			return "(" + x.Name() + " of " + x.Parent().String() + ")"
		}
	case *ssa.Phi:
		if len(x.Edges) > 0 {
			return fpDescribe(x.Edges[0], depth+1)
		}
	case *ssa.ChangeType:
		return fpDescribe(x.X, depth+1)
	case *ssa.Convert:
		return fpDescribe(x.X, depth+1)
	case *ssa.MakeInterface:
		return fpDescribe(x.X, depth+1)
	case *ssa.TypeAssert:
		return fpDescribe(x.X, depth+1)
	case *ssa.Extract:
		return fpDescribe(x.Tuple, depth+1)
	case *ssa.Call:
		return "result of " + x.Call.String()
	case *ssa.FreeVar:
		return "(captured " + x.Name() + ")"
	}
	return v.Name() + ":" + fpTypeName(v.Type())
}

// Contracts of standard-library functions that the analysis relies on (part of the trusted base of C18): these calls do not
// write through the listed arguments.
var fpReadOnlyExternal = map[string]bool{
	"fmt.Errorf": true, "fmt.Sprintf": true, "fmt.Sprint": true, "fmt.Sprintln": true, "errors.New": true, "errors.Is": true, "errors.As": true,
	"reflect.TypeOf": true, "reflect.ValueOf": true, "hash/crc32.Update": true, "hash/crc32.Checksum": true,
	"time.ParseInLocation": true, "(time.Time).In": true, "bytes.Equal": true, "bytes.NewReader": true,
	"(net.IP).To4": true, "(net.IP).To16": true, "(net.IP).String": true, "(net.IP).Equal": true,
	"unicode/utf8.Valid": true, "unicode/utf8.DecodeRune": true, "strings.NewReader": true,
}

// interface methods without an implementation in the module whose contract forbids writing through the receiver / argument
var fpReadOnlyIfaceMethod = map[string]bool{
	// io.Writer: "Write must not modify the slice data, even temporarily"
	"io.Writer.Write": true, "io.StringWriter.WriteString": true, "io.ByteWriter.WriteByte": true,
}

// math/big: a method writes its receiver only; these do not write at all
var fpBigReadOnly = map[string]bool{"Sign": true, "Bytes": true, "BitLen": true, "Cmp": true, "CmpAbs": true, "Int64": true, "Uint64": true, "IsInt64": true,
	"IsUint64": true, "String": true, "Text": true, "Append": true, "FillBytes": true, "Bit": true, "TrailingZeroBits": true, "ProbablyPrime": true,
	"Float64": true, "Prec": true, "MinPrec": true, "Mode": true, "Acc": true, "IsInf": true, "IsInt": true, "Signbit": true, "MantExp": true,
	"Float32": true, "Int": true, "Rat": true, "Format": true, "GobEncode": true, "MarshalText": true, "MarshalJSON": true}

func fpIsReflectType(t types.Type) bool {
	n, ok := t.(*types.Named)
	return ok && n.Obj().Pkg() != nil && n.Obj().Pkg().Path() == "reflect" && n.Obj().Name() == "Type"
}

// callees resolves the module-own callees of a call instruction.
func (a *fpAnalysis) callees(c *ssa.CallCommon) (own []*ssa.Function, external string, dynamic bool) {
	if c.IsInvoke() {
		key := c.Value.Type().String() + "#" + c.Method.Name()
		if fs, ok := a.impls[key]; ok {
			return fs, "", false
		}
		iface, _ := c.Value.Type().Underlying().(*types.Interface)
		var fs []*ssa.Function
		if iface != nil {
			for _, t := range a.named {
				if types.Implements(t, iface) {
					ms := a.prog.MethodSets.MethodSet(t)
					if sel := ms.Lookup(c.Method.Pkg(), c.Method.Name()); sel != nil {
						if f := a.prog.MethodValue(sel); f != nil {
							fs = append(fs, f)
						}
					}
				}
			}
		}
		a.impls[key] = fs
		return fs, "", false
	}
	if f := c.StaticCallee(); f != nil {
		if a.ownFn(f) {
			return []*ssa.Function{f}, "", false
		}
		name := f.String()
		if f.Object() != nil && f.Object().Pkg() != nil && f.Signature.Recv() == nil {
			name = f.Object().Pkg().Path() + "." + f.Name()
		}
		return nil, name, false
	}
	if _, ok := c.Value.(*ssa.Builtin); ok {
		return nil, "", false
	}
	if mc, ok := c.Value.(*ssa.MakeClosure); ok {
		if f, ok := mc.Fn.(*ssa.Function); ok && a.ownFn(f) {
			return []*ssa.Function{f}, "", false
		}
	}
	return nil, "", true
}

// analyse computes the shared writes and reads of one entry point (or setter).
func (a *fpAnalysis) analyse(entry *ssa.Function) (writes []fpWrite, reads []string, nfun int) {
	tainted := map[ssa.Value]bool{}
	retTainted := map[*ssa.Function]map[int]bool{} // function -> indices of tainted results
	tupleIdx := map[ssa.Value]map[int]bool{}     // call returning a tuple -> tainted components
	reach := map[*ssa.Function]bool{}
	var order []*ssa.Function
	add := func(f *ssa.Function) {
		if f != nil && !reach[f] && len(f.Blocks) > 0 {
			reach[f] = true
			order = append(order, f)
		}
	}
	add(entry)
	if len(entry.Params) > 0 && entry.Signature.Recv() != nil {
		tainted[entry.Params[0]] = true
	}
	for _, g := range a.globals {
		tainted[g] = true
	}
	// locations (identified by the root of their address) into which a tainted value has been stored: loads through them yield
	// tainted values again, so that taint survives a round trip through a local variable, a fresh struct or a local map
	holder := map[ssa.Value]bool{}
	root := func(v ssa.Value) ssa.Value {
		for i := 0; i < 32; i++ {
			switch x := v.(type) {
			case *ssa.FieldAddr:
				v = x.X
			case *ssa.IndexAddr:
				v = x.X
			case *ssa.Slice:
				v = x.X
			case *ssa.ChangeType:
				v = x.X
			default:
				return v
			}
		}
		return v
	}
	changed := true
	taint := func(v ssa.Value) {
		if !tainted[v] {
			tainted[v] = true
			changed = true
		}
	}
	for changed {
		changed = false
		for i := 0; i < len(order); i++ {
			f := order[i]
			for _, fv := range f.FreeVars {
				_ = fv
			}
			for _, b := range f.Blocks {
				for _, ins := range b.Instrs {
					switch x := ins.(type) {
					case *ssa.FieldAddr:
						if tainted[x.X] {
							taint(x)
						}
					case *ssa.IndexAddr:
						if tainted[x.X] {
							taint(x)
						}
					case *ssa.Field:
						if tainted[x.X] && fpPointerLike(x.Type()) {
							taint(x)
						}
					case *ssa.Index:
						if tainted[x.X] && fpPointerLike(x.Type()) {
							taint(x)
						}
					case *ssa.Lookup:
						if (tainted[x.X] || holder[root(x.X)]) && fpPointerLike(x.Type()) {
							taint(x)
						}
					case *ssa.Slice:
						if tainted[x.X] {
							taint(x)
						}
					case *ssa.Store:
						if tainted[x.Val] && fpPointerLike(x.Val.Type()) {
							if r := root(x.Addr); !holder[r] {
								holder[r] = true
								changed = true
							}
						}
					case *ssa.MapUpdate:
						if (tainted[x.Value] && fpPointerLike(x.Value.Type())) || (tainted[x.Key] && fpPointerLike(x.Key.Type())) {
							if r := root(x.Map); !holder[r] {
								holder[r] = true
								changed = true
							}
						}
					case *ssa.UnOp:
						if x.Op == token.MUL && (tainted[x.X] || holder[root(x.X)]) && fpPointerLike(x.Type()) {
							taint(x)
						}
						if x.Op == token.ARROW && tainted[x.X] && fpPointerLike(x.Type()) {
							taint(x)
						}
					case *ssa.ChangeType:
						if tainted[x.X] {
							taint(x)
						}
					case *ssa.Convert:
						if tainted[x.X] && fpPointerLike(x.Type()) {
							taint(x)
						}
					case *ssa.ChangeInterface:
						if tainted[x.X] {
							taint(x)
						}
					case *ssa.MakeInterface:
						if tainted[x.X] && fpPointerLike(x.X.Type()) {
							taint(x)
						}
					case *ssa.TypeAssert:
						if tainted[x.X] && fpPointerLike(x.Type()) {
							taint(x)
						}
					case *ssa.Extract:
						if (tainted[x.Tuple] || tupleIdx[x.Tuple][x.Index]) && fpPointerLike(x.Type()) {
							taint(x)
						}
					case *ssa.Phi:
						for _, e := range x.Edges {
							if tainted[e] {
								taint(x)
							}
						}
					case *ssa.Range:
						if tainted[x.X] {
							taint(x)
						}
					case *ssa.Next:
						if tainted[x.Iter] {
							taint(x)
						}
					case *ssa.MakeClosure:
						if fn, ok := x.Fn.(*ssa.Function); ok && a.ownFn(fn) {
							add(fn)
							for i, bnd := range x.Bindings {
								if tainted[bnd] && i < len(fn.FreeVars) {
									taint(fn.FreeVars[i])
								}
							}
						}
					case *ssa.Return:
						for i, r := range x.Results {
							if tainted[r] && !retTainted[f][i] {
								if retTainted[f] == nil {
									retTainted[f] = map[int]bool{}
								}
								retTainted[f][i] = true
								changed = true
							}
						}
					}
					if ci, ok := ins.(ssa.CallInstruction); ok {
						c := ci.Common()
						own, _, _ := a.callees(c)
						var args []ssa.Value
						if c.IsInvoke() {
							args = append([]ssa.Value{c.Value}, c.Args...)
						} else {
							args = c.Args
						}
						for _, callee := range own {
							add(callee)
							for i, arg := range args {
								if tainted[arg] && i < len(callee.Params) {
									taint(callee.Params[i])
								}
							}
							if v, ok := ins.(ssa.Value); ok {
								for i := range retTainted[callee] {
									if _, isTuple := v.Type().(*types.Tuple); isTuple {
										if !tupleIdx[v][i] {
											if tupleIdx[v] == nil {
												tupleIdx[v] = map[int]bool{}
											}
											tupleIdx[v][i] = true
											changed = true
										}
									} else if fpPointerLike(v.Type()) {
										taint(v)
									}
								}
							}
						}
						// builtin append returns (possibly) the same backing array
						if bi, ok := c.Value.(*ssa.Builtin); ok && bi.Name() == "append" && len(c.Args) > 0 && tainted[c.Args[0]] {
							if v, ok := ins.(ssa.Value); ok {
								taint(v)
							}
						}
					}
				}
			}
		}
	}
	// ---- collect
	seenW := map[string]bool{}
	addW := func(w fpWrite) {
		k := w.Kind + "|" + w.Target + "|" + w.Where
		if !seenW[k] {
			seenW[k] = true
			writes = append(writes, w)
		}
	}
	seenR := map[string]bool{}
	for _, f := range order {
		for _, b := range f.Blocks {
			for _, ins := range b.Instrs {
				switch x := ins.(type) {
				case *ssa.Store:
					if tainted[x.Addr] {
						addW(fpWrite{"WStore", fpDescribe(x.Addr, 0), a.pos(x.Pos()), f.String()})
					}
				case *ssa.MapUpdate:
					if tainted[x.Map] {
						addW(fpWrite{"WMapUpdate", fpDescribe(x.Map, 0) + "{}", a.pos(x.Pos()), f.String()})
					}
				case *ssa.Send:
					if tainted[x.Chan] {
						addW(fpWrite{"WSend", fpDescribe(x.Chan, 0), a.pos(x.Pos()), f.String()})
					}
				case *ssa.UnOp:
					if x.Op == token.MUL && tainted[x.X] {
						d := fpDescribe(x.X, 0)
						if !seenR[d] {
							seenR[d] = true
							reads = append(reads, d)
						}
					}
				case *ssa.Lookup:
					if tainted[x.X] {
						d := fpDescribe(x.X, 0) + "{}"
						if !seenR[d] {
							seenR[d] = true
							reads = append(reads, d)
						}
					}
				}
				ci, ok := ins.(ssa.CallInstruction)
				if !ok {
					continue
				}
				c := ci.Common()
				if bi, ok := c.Value.(*ssa.Builtin); ok {
					switch bi.Name() {
					case "append", "copy", "delete", "clear":
						if len(c.Args) > 0 && tainted[c.Args[0]] {
							kind := map[string]string{"append": "WAppend", "copy": "WCopy", "delete": "WDelete", "clear": "WDelete"}[bi.Name()]
							addW(fpWrite{kind, fpDescribe(c.Args[0], 0), a.pos(ins.Pos()), f.String()})
						}
					}
					continue
				}
				own, external, dynamic := a.callees(c)
				if len(own) > 0 {
					continue
				}
				var args []ssa.Value
				if c.IsInvoke() {
					if fpIsReflectType(c.Value.Type()) {
						continue // reflect.Type is immutable
					}
					if nt, ok := c.Value.Type().(*types.Named); ok && nt.Obj().Pkg() != nil && fpReadOnlyIfaceMethod[nt.Obj().Pkg().Path()+"."+nt.Obj().Name()+"."+c.Method.Name()] {
						continue
					}
					// an interface call with no module-own implementation: the receiver is the only thing that could be shared
					if tainted[c.Value] {
						addW(fpWrite{"WExternal", "method " + c.Method.Name() + " of " + fpDescribe(c.Value, 0) + " (no implementation in the module)", a.pos(ins.Pos()), f.String()})
					}
					args = c.Args
					external = "(interface method " + c.Method.Name() + ")"
				} else {
					args = c.Args
				}
				if fpReadOnlyExternal[external] {
					continue
				}
				bigMethod := ""
				if strings.HasPrefix(external, "(*math/big.") {
					bigMethod = external[strings.LastIndex(external, ".")+1:]
					if fpBigReadOnly[bigMethod] {
						continue
					}
				}
				for ai, arg := range args {
					if bigMethod != "" && ai > 0 {
						continue // math/big methods write their receiver only
					}
					if tainted[arg] && fpMutableRef(arg.Type()) {
						what := external
						if dynamic {
							what = "(dynamic call)"
						}
						addW(fpWrite{"WExternal", fpDescribe(arg, 0) + " passed to " + what, a.pos(ins.Pos()), f.String()})
					}
				}
			}
		}
	}
	sort.Slice(writes, func(i, j int) bool {
		if writes[i].Where != writes[j].Where {
			return writes[i].Where < writes[j].Where
		}
		return writes[i].Target < writes[j].Target
	})
	sort.Strings(reads)
	return writes, reads, len(order)
}

func genFootprint(repo string) (string, error) {
	var pats []string
	for _, p := range fpLoadPkgs {
		pats = append(pats, "./"+p)
	}
	env := []string{}
	for _, e := range os.Environ() {
		if !strings.HasPrefix(e, "GOFLAGS=") {
			env = append(env, e)
		}
	}
	env = append(env, "GOFLAGS=-mod=readonly", "GOPROXY=off", "GOSUMDB=off")
	cfg := &packages.Config{
		Mode: packages.NeedName | packages.NeedFiles | packages.NeedCompiledGoFiles | packages.NeedImports | packages.NeedDeps | packages.NeedTypes |
			packages.NeedSyntax | packages.NeedTypesInfo | packages.NeedTypesSizes | packages.NeedModule,
		Dir: repo, Env: env, Tests: false,
	}
	pkgs, err := packages.Load(cfg, pats...)
	if err != nil {
		return "", fmt.Errorf("loading packages: %v", err)
	}
	var loadErrs []string
	packages.Visit(pkgs, nil, func(p *packages.Package) {
		for _, e := range p.Errors {
			loadErrs = append(loadErrs, e.Error())
		}
	})
	if len(loadErrs) > 0 {
		return "", fmt.Errorf("package errors: %s", strings.Join(loadErrs[:min(3, len(loadErrs))], "; "))
	}
	prog, _ := ssautil.AllPackages(pkgs, ssa.InstantiateGenerics)
	prog.Build()
	a := &fpAnalysis{prog: prog, fset: prog.Fset, own: map[*ssa.Package]bool{}, impls: map[string][]*ssa.Function{}, repo: repo}
	var ownPkgs []*ssa.Package
	for _, sp := range prog.AllPackages() {
		if fpOwnPath(sp.Pkg.Path()) {
			a.own[sp] = true
			ownPkgs = append(ownPkgs, sp)
		}
	}
	sort.Slice(ownPkgs, func(i, j int) bool { return ownPkgs[i].Pkg.Path() < ownPkgs[j].Pkg.Path() })
	for _, sp := range ownPkgs {
		var names []string
		for n := range sp.Members {
			names = append(names, n)
		}
		sort.Strings(names)
		for _, n := range names {
			switch m := sp.Members[n].(type) {
			case *ssa.Type:
				if _, isI := m.Type().Underlying().(*types.Interface); !isI {
					a.named = append(a.named, m.Type(), types.NewPointer(m.Type()))
				}
			case *ssa.Global:
				a.globals = append(a.globals, m)
			}
		}
	}
	// ---- entry points and setters
	isEntryPkg := map[string]bool{}
	for _, p := range fpEntryPkgs {
		isEntryPkg[fpModule+"/"+p] = true
	}
	var entries, setters []fpEntry
	for _, sp := range ownPkgs {
		if !isEntryPkg[sp.Pkg.Path()] {
			continue
		}
		var names []string
		for n := range sp.Members {
			names = append(names, n)
		}
		sort.Strings(names)
		for _, n := range names {
			mt, ok := sp.Members[n].(*ssa.Type)
			if !ok {
				continue
			}
			if _, isI := mt.Type().Underlying().(*types.Interface); isI {
				continue
			}
			nt, ok := mt.Type().(*types.Named)
			if !ok {
				continue
			}
			// does the type carry codec methods at all?
			ms := prog.MethodSets.MethodSet(types.NewPointer(nt))
			var codecMethods, otherMethods []*ssa.Function
			for i := 0; i < ms.Len(); i++ {
				sel := ms.At(i)
				f := prog.MethodValue(sel)
				if f == nil || f.Synthetic != "" && !strings.Contains(f.Synthetic, "wrapper") {
					continue
				}
				// use the declared method, not the pointer wrapper of a value method
				if fo, ok := sel.Obj().(*types.Func); ok {
					if df := prog.FuncValue(fo); df != nil {
						f = df
					}
				}
				isEntry := false
				for _, pre := range fpEntryPrefixes {
					if strings.HasPrefix(f.Name(), pre) && f.Object() != nil && f.Object().Exported() {
						isEntry = true
					}
				}
				if isEntry {
					codecMethods = append(codecMethods, f)
				} else {
					otherMethods = append(otherMethods, f)
				}
			}
			if len(codecMethods) == 0 {
				continue
			}
			mk := func(f *ssa.Function) fpEntry {
				w, r, nf := a.analyse(f)
				recv := fpTypeName(f.Signature.Recv().Type())
				short := fpShortPkg(sp.Pkg.Path())
				rn := strings.Replace(recv, short+".", "", 1)
				return fpEntry{Name: fmt.Sprintf("%s.(%s).%s", short, rn, f.Name()), Pkg: short, Recv: recv, Method: f.Name(),
					Writes: w, Reads: r, Functions: nf, Where: a.pos(f.Pos())}
			}
			for _, f := range codecMethods {
				entries = append(entries, mk(f))
			}
			for _, f := range otherMethods {
				e := mk(f)
				if len(e.Writes) > 0 {
					setters = append(setters, e)
				}
			}
		}
		// constructors: package-level functions that return a type with codec methods are listed with their writes to globals only
	}
	sort.Slice(entries, func(i, j int) bool { return entries[i].Name < entries[j].Name })
	sort.Slice(setters, func(i, j int) bool { return setters[i].Name < setters[j].Name })
	if len(entries) == 0 {
		return "", fmt.Errorf("no codec entry point found")
	}

	// ---- Gallina
	var b strings.Builder
	fmt.Fprintf(&b, "(* GENERATED by /verif/tools/go2coq (unit footprint) from the SSA form of {%s} -- do not edit; regenerated on every check run *)\n", strings.Join(fpLoadPkgs, ","))
	b.WriteString("From Coq Require Import List String.\nFrom GCNP Require Import model.Footprint.\nImport ListNotations.\nOpen Scope string_scope.\n\n")
	emit := func(name string, es []fpEntry) {
		fmt.Fprintf(&b, "Definition %s : list (string * list swrite) := [\n", name)
		for i, e := range es {
			var ws []string
			for _, w := range e.Writes {
				ws = append(ws, fmt.Sprintf("(%s, %s, %s)", w.Kind, coqString(fpAscii(w.Target)), coqString(fpAscii(w.Where))))
			}
			sep := ";"
			if i == len(es)-1 {
				sep = ""
			}
			fmt.Fprintf(&b, "  (%s, [%s])%s\n", coqString(fpAscii(e.Name)), strings.Join(ws, "; "), sep)
		}
		b.WriteString("].\n\n")
	}
	b.WriteString("(* encode / decode / convert / compress entry points with their writes to memory shared through the codec or a package-level variable *)\n")
	emit("fp_entrypoints", entries)
	b.WriteString("(* methods of the same types that are not encode/decode calls and do write shared memory (setters) *)\n")
	emit("fp_setters", setters)
	fmt.Fprintf(&b, "(* shared locations read by the entry points *)\nDefinition fp_reads : list (string * list string) := [\n")
	for i, e := range entries {
		var rs []string
		for _, r := range e.Reads {
			rs = append(rs, coqString(fpAscii(r)))
		}
		sep := ";"
		if i == len(entries)-1 {
			sep = ""
		}
		fmt.Fprintf(&b, "  (%s, [%s])%s\n", coqString(fpAscii(e.Name)), strings.Join(rs, "; "), sep)
	}
	b.WriteString("].\n")
	tb, _ := json.MarshalIndent(map[string]interface{}{"entrypoints": entries, "setters": setters}, "", " ")
	extraFiles["footprint_table.json"] = string(tb) + "\n"
	for _, e := range entries {
		manifest = append(manifest, manifestEntry{"footprint", e.Name, e.Where, "", "fp_entrypoints"})
	}
	return b.String(), nil
}

func fpAscii(s string) string {
	var b strings.Builder
	for _, r := range s {
		if r < 32 || r > 126 {
			b.WriteByte('?')
		} else {
			b.WriteRune(r)
		}
	}
	return b.String()
}
