package main

// Unit "crc": the numeric parameters of the v5 segment framing, evaluated by go/types from the
// current source of crc/crc24.go, crc/crc32.go and segment/{codec,encode,decode}.go.
//
// Emitted (coq/gen/Crc_gen.v):
//   crc24Init crc24Poly                       typed constants of crc/crc24.go
//   crc32InitialBytes crc32Poly               the composite literal initialBytes and the constant
//                                             handed to crc32.MakeTable in crc/crc32.go
//   MaxPayloadLength UncompressedHeaderLength CompressedHeaderLength Crc24Length Crc32Length
//   <func>_<const>                            function-local constants (flagOffset, headerLength)
//   <func>_literals : list Z                  every integer literal of the function body in source
//                                             order: pins shifts, masks and loop bounds of the
//                                             hand-modelled functions (checked in proofs/SegmentProofs.v)
// The shape of crc/crc32.go (MakeTable / Update(0, table, initialBytes) / Update(initialChecksum,
// table, data)) is recognised structurally; anything else is a hard error of the unit.

import (
	"fmt"
	"go/ast"
	"go/constant"
	"go/token"
	"go/types"
	"strings"
)

func init() {
	allUnits = append(allUnits, unit{"crc", "Crc_gen.v", genCrc})
}

func crcConst(p *pkgInfo, b *strings.Builder, name string) error {
	obj := p.pkg.Scope().Lookup(name)
	c, ok := obj.(*types.Const)
	if !ok || c.Val().Kind() != constant.Int {
		return fmt.Errorf("%s: integer constant %s not found", p.dir, name)
	}
	fmt.Fprintf(b, "Definition %s : Z := %s.\n", coqIdent(name), zLit(c.Val()))
	for id, o := range p.info.Defs {
		if o == obj {
			p.record("crc", name, coqIdent(name), id)
		}
	}
	return nil
}

func crcFunc(p *pkgInfo, file, name string) *ast.FuncDecl {
	f := p.files[file]
	if f == nil {
		panic(unsupported("missing file " + p.dir + "/" + file))
	}
	for _, d := range f.Decls {
		if fd, ok := d.(*ast.FuncDecl); ok && fd.Name.Name == name && fd.Body != nil {
			return fd
		}
	}
	panic(unsupported("function " + name + " not found in " + p.dir + "/" + file))
}

// crcLiterals emits the integer literals of a function body (source order) and its local constants.
func crcLiterals(p *pkgInfo, b *strings.Builder, file, name string) {
	fd := crcFunc(p, file, name)
	var lits []string
	ast.Inspect(fd.Body, func(n ast.Node) bool {
		switch x := n.(type) {
		case *ast.BasicLit:
			if x.Kind == token.INT {
				tv, ok := p.info.Types[x]
				if !ok || tv.Value == nil {
					panic(unsupported("literal without value in " + name))
				}
				lits = append(lits, zLit(constant.ToInt(tv.Value)))
			}
		case *ast.GenDecl:
			if x.Tok == token.CONST {
				for _, s := range x.Specs {
					vs := s.(*ast.ValueSpec)
					for _, id := range vs.Names {
						if c, ok := p.info.Defs[id].(*types.Const); ok && c.Val().Kind() == constant.Int {
							fmt.Fprintf(b, "Definition %s_%s : Z := %s.\n", name, id.Name, zLit(c.Val()))
						}
					}
				}
			}
		}
		return true
	})
	fmt.Fprintf(b, "Definition %s_literals : list Z := [%s].\n", name, strings.Join(lits, "; "))
	p.record("crc", name, name+"_literals", fd)
}

func isSel(e ast.Expr, pkg, name string) bool {
	s, ok := e.(*ast.SelectorExpr)
	if !ok {
		return false
	}
	id, ok := s.X.(*ast.Ident)
	return ok && id.Name == pkg && s.Sel.Name == name
}

func isIdent(e ast.Expr, name string) bool {
	id, ok := e.(*ast.Ident)
	return ok && id.Name == name
}

func genCrc(repo string) (string, error) {
	var b strings.Builder
	fmt.Fprintf(&b, genHeader, "crc/crc24.go, crc/crc32.go, segment/codec.go, segment/encode.go, segment/decode.go")

	// ---- package crc
	p, err := loadPkg(repo, "crc")
	if err != nil {
		return "", err
	}
	for _, n := range []string{"crc24Init", "crc24Poly"} {
		if err := crcConst(p, &b, n); err != nil {
			return "", err
		}
	}
	crcLiterals(p, &b, "crc24.go", "ChecksumKoopman")

	// crc32.go: var table = crc32.MakeTable(<const>); var initialBytes = []byte{...};
	//           var initialChecksum = crc32.Update(0, table, initialBytes);
	//           func ChecksumIEEE(data []byte) uint32 { return crc32.Update(initialChecksum, table, data) }
	f32 := p.files["crc32.go"]
	if f32 == nil {
		return "", fmt.Errorf("crc/crc32.go missing")
	}
	seen := map[string]bool{}
	for _, d := range f32.Decls {
		gd, ok := d.(*ast.GenDecl)
		if !ok || gd.Tok != token.VAR {
			continue
		}
		for _, s := range gd.Specs {
			vs := s.(*ast.ValueSpec)
			if len(vs.Names) != 1 || len(vs.Values) != 1 {
				return "", fmt.Errorf("crc/crc32.go: unexpected var declaration")
			}
			name, val := vs.Names[0].Name, vs.Values[0]
			switch name {
			case "table":
				call, ok := val.(*ast.CallExpr)
				if !ok || !isSel(call.Fun, "crc32", "MakeTable") || len(call.Args) != 1 {
					return "", fmt.Errorf("crc/crc32.go: table is not crc32.MakeTable(<polynomial>)")
				}
				tv := p.info.Types[call.Args[0]]
				if tv.Value == nil {
					return "", fmt.Errorf("crc/crc32.go: polynomial is not a constant")
				}
				fmt.Fprintf(&b, "Definition crc32Poly : Z := %s.\n", zLit(constant.ToInt(tv.Value)))
				p.record("crc", "table", "crc32Poly", vs)
			case "initialBytes":
				cl, ok := val.(*ast.CompositeLit)
				if !ok {
					return "", fmt.Errorf("crc/crc32.go: initialBytes is not a composite literal")
				}
				var items []string
				for _, e := range cl.Elts {
					tv := p.info.Types[e]
					if tv.Value == nil {
						return "", fmt.Errorf("crc/crc32.go: initialBytes element is not a constant (keyed literal?)")
					}
					items = append(items, zLit(constant.ToInt(tv.Value)))
				}
				fmt.Fprintf(&b, "Definition crc32InitialBytes : list Z := [%s].\n", strings.Join(items, "; "))
				p.record("crc", "initialBytes", "crc32InitialBytes", vs)
			case "initialChecksum":
				call, ok := val.(*ast.CallExpr)
				if !ok || !isSel(call.Fun, "crc32", "Update") || len(call.Args) != 3 || !isIdent(call.Args[1], "table") || !isIdent(call.Args[2], "initialBytes") {
					return "", fmt.Errorf("crc/crc32.go: initialChecksum is not crc32.Update(_, table, initialBytes)")
				}
				tv := p.info.Types[call.Args[0]]
				if tv.Value == nil {
					return "", fmt.Errorf("crc/crc32.go: initialChecksum start value is not a constant")
				}
				fmt.Fprintf(&b, "Definition crc32InitialStart : Z := %s.\n", zLit(constant.ToInt(tv.Value)))
				p.record("crc", "initialChecksum", "crc32InitialStart", vs)
			default:
				return "", fmt.Errorf("crc/crc32.go: unexpected package variable %s", name)
			}
			seen[name] = true
		}
	}
	for _, n := range []string{"table", "initialBytes", "initialChecksum"} {
		if !seen[n] {
			return "", fmt.Errorf("crc/crc32.go: variable %s not found", n)
		}
	}
	{
		fd := crcFunc(p, "crc32.go", "ChecksumIEEE")
		okShape := false
		if len(fd.Body.List) == 1 {
			if r, ok := fd.Body.List[0].(*ast.ReturnStmt); ok && len(r.Results) == 1 {
				if call, ok := r.Results[0].(*ast.CallExpr); ok && isSel(call.Fun, "crc32", "Update") && len(call.Args) == 3 &&
					isIdent(call.Args[0], "initialChecksum") && isIdent(call.Args[1], "table") && isIdent(call.Args[2], "data") {
					okShape = true
				}
			}
		}
		if !okShape {
			return "", fmt.Errorf("crc/crc32.go: ChecksumIEEE is not `return crc32.Update(initialChecksum, table, data)`")
		}
		p.record("crc", "ChecksumIEEE", "checksum_ieee (model/Crc.v)", fd)
	}

	// ---- package segment
	b.WriteString("\n")
	sp, err := loadPkg(repo, "segment")
	if err != nil {
		return "", err
	}
	for _, n := range []string{"MaxPayloadLength", "UncompressedHeaderLength", "CompressedHeaderLength", "Crc24Length", "Crc32Length"} {
		if err := crcConst(sp, &b, n); err != nil {
			return "", err
		}
	}
	for _, fn := range [][2]string{{"encode.go", "encodeHeaderUncompressed"}, {"encode.go", "encodeHeaderCompressed"},
		{"encode.go", "writeHeaderDataAndCrc"}, {"decode.go", "decodeSegmentHeader"}} {
		crcLiterals(sp, &b, fn[0], fn[1])
	}
	return b.String(), nil
}
