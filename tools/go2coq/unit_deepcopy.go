package main

// Unit "deepcopy" (property C17).
//
// For every named type of the packages primitive, datatype, message, frame and segment that has a deep-copy
// operation (a method whose name starts with DeepCopy), this unit emits from the CURRENT source
//   (a) its SHAPE, read off the type declaration with go/types, and
//   (b) the COPY PLAN of each of its DeepCopy* methods, read off the AST of the method body.
// Only the fixed set of statement shapes that k8s deepcopy-gen produces (plus the hand-written shapes of
// primitive/uuid.go) is recognised; any other statement is a hard error for the unit (main.go then writes an
// uncompilable placeholder, so that every proof obligation over the table fails closed).
//
// Output: coq/gen/DeepCopy_gen.v (dc_env, dc_ifaces, dc_funcs, dc_roots) and coq/gen/deepcopy_table.json.

import (
	"encoding/json"
	"fmt"
	"go/ast"
	"go/token"
	"go/types"
	"sort"
	"strings"
)

func init() {
	allUnits = append(allUnits, unit{"deepcopy", "DeepCopy_gen.v", genDeepCopy})
}

var dcPackages = []string{"primitive", "datatype", "message", "frame", "segment"}

const dcModule = "github.com/datastax/go-cassandra-native-protocol/"

// ---- shapes

type dcTy struct {
	K    string `json:"k"`              // scalar string ptr slice array map iface named
	N    string `json:"n,omitempty"`    // named / iface: qualified name
	Len  int64  `json:"len,omitempty"`  // array
	Elem *dcTy  `json:"e,omitempty"`    // ptr slice array map(value)
	Key  *dcTy  `json:"key,omitempty"`  // map
	Go   string `json:"go,omitempty"`   // Go spelling of a scalar (informative)
}

func (t *dcTy) coq() string {
	switch t.K {
	case "scalar":
		return "TScalar"
	case "string":
		return "TString"
	case "ptr":
		return "(TPtr " + t.Elem.coq() + ")"
	case "slice":
		return "(TSlice " + t.Elem.coq() + ")"
	case "array":
		return fmt.Sprintf("(TArray %d %s)", t.Len, t.Elem.coq())
	case "map":
		return "(TMap " + t.Key.coq() + " " + t.Elem.coq() + ")"
	case "iface":
		return "(TIface " + coqString(t.N) + ")"
	case "named":
		return "(TNamed " + coqString(t.N) + ")"
	}
	panic(unsupported("shape kind " + t.K))
}

type dcField struct {
	Name string `json:"name"`
	Ty   *dcTy  `json:"ty"`
}

type dcType struct {
	Name    string    `json:"name"`
	Decl    string    `json:"decl"` // struct | alias
	Fields  []dcField `json:"fields,omitempty"`
	Alias   *dcTy     `json:"alias,omitempty"`
	Methods []string  `json:"methods"`
	Marker  bool      `json:"marker"` // carries +k8s:deepcopy-gen=true
	Where   string    `json:"where"`
}

type dcIface struct {
	Name   string   `json:"name"`
	Method string   `json:"method"`
	Impls  []string `json:"impls"`
}

// ---- plans

type dcPlan struct {
	Op  string  `json:"op"` // PShallow PSkip PNilOr PNew PMakeCopy PMakeLoop PMapLoop PCall PCallIface
	Sub *dcPlan `json:"sub,omitempty"`
	Arg string  `json:"arg,omitempty"`
}

func (p *dcPlan) coq() string {
	switch p.Op {
	case "PShallow", "PSkip", "PMakeCopy":
		return p.Op
	case "PNilOr", "PNew", "PMakeLoop", "PMapLoop":
		return "(" + p.Op + " " + p.Sub.coq() + ")"
	case "PCall", "PCallIface":
		return "(" + p.Op + " " + coqString(p.Arg) + ")"
	}
	panic(unsupported("plan op " + p.Op))
}

type dcFieldPlan struct {
	Name string  `json:"name"`
	Plan *dcPlan `json:"plan"`
}

type dcFunc struct {
	Name   string        `json:"name"` // pkg.Type.Method
	Type   string        `json:"type"`
	Method string        `json:"method"`
	Form   string        `json:"form"` // FStruct | FPlain | FToIface
	Arg    *dcTy         `json:"arg,omitempty"`
	Iface  string        `json:"iface,omitempty"`
	Plan   *dcPlan       `json:"plan,omitempty"`
	Fields []dcFieldPlan `json:"fields,omitempty"`
	Where  string        `json:"where"`
}

type dcState struct {
	pkgs   map[string]*pkgInfo
	types  map[string]*dcType
	order  []string
	ifaces map[string]*dcIface
	funcs  []*dcFunc
}

func dcShort(path string) string {
	if i := strings.LastIndex(path, "/"); i >= 0 {
		return path[i+1:]
	}
	return path
}

func dcInModule(pkg *types.Package) bool {
	if pkg == nil {
		return false
	}
	p := pkg.Path()
	if strings.HasPrefix(p, dcModule) {
		p = p[len(dcModule):]
	}
	for _, d := range dcPackages {
		if p == d {
			return true
		}
	}
	return false
}

func dcQual(n *types.Named) string {
	if n.Obj().Pkg() == nil {
		return n.Obj().Name()
	}
	return dcShort(n.Obj().Pkg().Path()) + "." + n.Obj().Name()
}

func dcHasCopyMethod(n *types.Named) bool {
	for i := 0; i < n.NumMethods(); i++ {
		if strings.HasPrefix(n.Method(i).Name(), "DeepCopy") {
			return true
		}
	}
	return false
}

// shapeOf gives the shape of a Go type as the copy code sees it.
func dcShapeOf(t types.Type, where string) *dcTy {
	switch u := t.(type) {
	case *types.Named:
		if dcInModule(u.Obj().Pkg()) {
			switch u.Underlying().(type) {
			case *types.Struct:
				return &dcTy{K: "named", N: dcQual(u)}
			case *types.Interface:
				return &dcTy{K: "iface", N: dcQual(u)}
			}
			if dcHasCopyMethod(u) {
				return &dcTy{K: "named", N: dcQual(u)}
			}
			return dcShapeOf(u.Underlying(), where)
		}
		switch u.Underlying().(type) {
		case *types.Struct, *types.Interface:
			panic(unsupported(fmt.Sprintf("%s: field of external struct/interface type %s has no shape in the copy model", where, u.String())))
		}
		return dcShapeOf(u.Underlying(), where)
	case *types.Basic:
		switch {
		case u.Kind() == types.String:
			return &dcTy{K: "string"}
		case u.Info()&(types.IsBoolean|types.IsNumeric) != 0:
			return &dcTy{K: "scalar", Go: u.Name()}
		}
		panic(unsupported(fmt.Sprintf("%s: basic type %s", where, u.String())))
	case *types.Pointer:
		return &dcTy{K: "ptr", Elem: dcShapeOf(u.Elem(), where)}
	case *types.Slice:
		return &dcTy{K: "slice", Elem: dcShapeOf(u.Elem(), where)}
	case *types.Array:
		return &dcTy{K: "array", Len: u.Len(), Elem: dcShapeOf(u.Elem(), where)}
	case *types.Map:
		return &dcTy{K: "map", Key: dcShapeOf(u.Key(), where), Elem: dcShapeOf(u.Elem(), where)}
	}
	panic(unsupported(fmt.Sprintf("%s: type %s has no shape in the copy model", where, t.String())))
}

// ---- AST matching helpers

func dcStr(e ast.Expr) string { return types.ExprString(e) }

type dcFn struct {
	p    *pkgInfo
	fd   *ast.FuncDecl
	name string
}

func (f *dcFn) fail(n ast.Node, format string, a ...interface{}) {
	pos := f.p.fset.Position(n.Pos())
	panic(unsupported(fmt.Sprintf("%s/%s:%d: %s: unrecognised copy statement: %s  [%s]", f.p.dir, dcShort(pos.Filename), pos.Line, f.name,
		fmt.Sprintf(format, a...), strings.Join(strings.Fields(f.p.srcOf(n)), " "))))
}

// assign matches `lhs = rhs` (one each) and returns them.
func dcAssign(s ast.Stmt, tok token.Token) (ast.Expr, ast.Expr, bool) {
	a, ok := s.(*ast.AssignStmt)
	if !ok || a.Tok != tok || len(a.Lhs) != 1 || len(a.Rhs) != 1 {
		return nil, nil, false
	}
	return a.Lhs[0], a.Rhs[0], true
}

// rebind matches `in, out := &X, &Y` and returns the strings of X and Y.
func dcRebind(s ast.Stmt) (string, string, bool) {
	a, ok := s.(*ast.AssignStmt)
	if !ok || a.Tok != token.DEFINE || len(a.Lhs) != 2 || len(a.Rhs) != 2 || dcStr(a.Lhs[0]) != "in" || dcStr(a.Lhs[1]) != "out" {
		return "", "", false
	}
	x, ok1 := a.Rhs[0].(*ast.UnaryExpr)
	y, ok2 := a.Rhs[1].(*ast.UnaryExpr)
	if !ok1 || !ok2 || x.Op != token.AND || y.Op != token.AND {
		return "", "", false
	}
	return dcStr(x.X), dcStr(y.X), true
}

// nilTest matches `X != nil` (ne=true) or `X == nil`.
func dcNilTest(e ast.Expr, ne bool) (string, bool) {
	b, ok := e.(*ast.BinaryExpr)
	if !ok || dcStr(b.Y) != "nil" {
		return "", false
	}
	if (ne && b.Op != token.NEQ) || (!ne && b.Op != token.EQL) {
		return "", false
	}
	return dcStr(b.X), true
}

// methodCall matches `recv.M(args...)`; returns receiver expression, the method object and the arguments.
func (f *dcFn) methodCall(e ast.Expr) (ast.Expr, *types.Func, []ast.Expr, bool) {
	c, ok := e.(*ast.CallExpr)
	if !ok {
		return nil, nil, nil, false
	}
	sel, ok := c.Fun.(*ast.SelectorExpr)
	if !ok {
		return nil, nil, nil, false
	}
	fn, ok := f.p.info.Uses[sel.Sel].(*types.Func)
	if !ok {
		return nil, nil, nil, false
	}
	return sel.X, fn, c.Args, true
}

// calleeName: "pkg.T.Method" for a method with a concrete (pointer or value) receiver in the module; "" + iface=true for an interface method.
func (f *dcFn) callee(fn *types.Func, at ast.Node) (name string, iface bool) {
	sig := fn.Type().(*types.Signature)
	if sig.Recv() == nil {
		f.fail(at, "call of a plain function %s", fn.Name())
	}
	rt := sig.Recv().Type()
	if p, ok := rt.(*types.Pointer); ok {
		rt = p.Elem()
	}
	n, ok := rt.(*types.Named)
	if !ok {
		f.fail(at, "receiver of %s is not a named type", fn.Name())
	}
	if _, isI := n.Underlying().(*types.Interface); isI {
		return fn.Name(), true
	}
	if !dcInModule(n.Obj().Pkg()) {
		f.fail(at, "method %s of a type outside the module", fn.Name())
	}
	return dcQual(n) + "." + fn.Name(), false
}

func dcElemOf(t types.Type) types.Type {
	switch u := t.Underlying().(type) {
	case *types.Pointer:
		return u.Elem()
	case *types.Slice:
		return u.Elem()
	case *types.Map:
		return u.Elem()
	case *types.Array:
		return u.Elem()
	}
	return nil
}

// block translates a statement list that copies `*in` to `*out`, both of type t, the source being known non-nil.
// It is what follows `in, out := &X, &Y` inside a nil guard.
func (f *dcFn) block(stmts []ast.Stmt, t types.Type, at ast.Node) *dcPlan {
	if len(stmts) == 0 {
		f.fail(at, "empty copy block")
	}
	lhs, rhs, ok := dcAssign(stmts[0], token.ASSIGN)
	if !ok || dcStr(lhs) != "*out" {
		f.fail(stmts[0], "expected `*out = ...`")
	}
	switch u := t.Underlying().(type) {
	case *types.Pointer:
		// *out = (*in).DeepCopy()
		if recv, fn, args, ok := f.methodCall(rhs); ok {
			if len(stmts) != 1 || dcStr(recv) != "(*in)" || len(args) != 0 {
				f.fail(stmts[0], "expected `*out = (*in).DeepCopy()`")
			}
			name, isI := f.callee(fn, stmts[0])
			if isI {
				f.fail(stmts[0], "interface call on a pointer")
			}
			return &dcPlan{Op: "PCall", Arg: name}
		}
		// *out = new(T)
		c, ok := rhs.(*ast.CallExpr)
		if !ok || dcStr(c.Fun) != "new" || len(c.Args) != 1 || len(stmts) != 2 {
			f.fail(stmts[0], "expected `*out = new(T)` followed by one statement")
		}
		if tv := f.p.info.TypeOf(c.Args[0]); tv == nil || !types.Identical(tv, u.Elem()) {
			f.fail(stmts[0], "new of a type different from the pointee")
		}
		// **out = **in
		if l2, r2, ok := dcAssign(stmts[1], token.ASSIGN); ok {
			if dcStr(l2) == "**out" && dcStr(r2) == "**in" {
				return &dcPlan{Op: "PNew", Sub: &dcPlan{Op: "PShallow"}}
			}
			f.fail(stmts[1], "expected `**out = **in`")
		}
		// (*in).DeepCopyInto(*out)
		es, ok := stmts[1].(*ast.ExprStmt)
		if !ok {
			f.fail(stmts[1], "expected a DeepCopyInto call")
		}
		recv, fn, args, ok := f.methodCall(es.X)
		if !ok || dcStr(recv) != "(*in)" || len(args) != 1 || dcStr(args[0]) != "*out" || fn.Name() != "DeepCopyInto" {
			f.fail(stmts[1], "expected `(*in).DeepCopyInto(*out)`")
		}
		name, isI := f.callee(fn, stmts[1])
		if isI {
			f.fail(stmts[1], "interface call")
		}
		return &dcPlan{Op: "PNew", Sub: &dcPlan{Op: "PCall", Arg: name}}
	case *types.Slice:
		f.expectMake(stmts[0], rhs, t)
		if len(stmts) != 2 {
			f.fail(stmts[0], "expected make followed by copy or a loop")
		}
		// copy(*out, *in)
		if es, ok := stmts[1].(*ast.ExprStmt); ok {
			c, ok := es.X.(*ast.CallExpr)
			if !ok || dcStr(c.Fun) != "copy" || len(c.Args) != 2 || dcStr(c.Args[0]) != "*out" || dcStr(c.Args[1]) != "*in" {
				f.fail(stmts[1], "expected `copy(*out, *in)`")
			}
			if _, isB := f.p.info.Uses[c.Fun.(*ast.Ident)].(*types.Builtin); !isB {
				f.fail(stmts[1], "copy is not the builtin")
			}
			return &dcPlan{Op: "PMakeCopy"}
		}
		// for i := range *in { ... }
		rs, ok := stmts[1].(*ast.RangeStmt)
		if !ok || rs.Tok != token.DEFINE || rs.Key == nil || dcStr(rs.Key) != "i" || rs.Value != nil || dcStr(rs.X) != "*in" {
			f.fail(stmts[1], "expected `for i := range *in`")
		}
		return &dcPlan{Op: "PMakeLoop", Sub: f.elem(rs.Body.List, u.Elem(), rs)}
	case *types.Map:
		f.expectMake(stmts[0], rhs, t)
		if len(stmts) != 2 {
			f.fail(stmts[0], "expected make followed by a loop")
		}
		rs, ok := stmts[1].(*ast.RangeStmt)
		if !ok || rs.Tok != token.DEFINE || rs.Key == nil || rs.Value == nil || dcStr(rs.Key) != "key" || dcStr(rs.Value) != "val" || dcStr(rs.X) != "*in" {
			f.fail(stmts[1], "expected `for key, val := range *in`")
		}
		return &dcPlan{Op: "PMapLoop", Sub: f.mapBody(rs.Body.List, u.Elem(), rs)}
	}
	f.fail(at, "copy block for a value of type %s", t.String())
	return nil
}

func (f *dcFn) expectMake(s ast.Stmt, rhs ast.Expr, t types.Type) {
	c, ok := rhs.(*ast.CallExpr)
	if !ok || dcStr(c.Fun) != "make" || len(c.Args) != 2 || dcStr(c.Args[1]) != "len(*in)" {
		f.fail(s, "expected `*out = make(T, len(*in))`")
	}
	if _, isB := f.p.info.Uses[c.Fun.(*ast.Ident)].(*types.Builtin); !isB {
		f.fail(s, "make is not the builtin")
	}
	if tv := f.p.info.TypeOf(c.Args[0]); tv == nil || !types.Identical(tv.Underlying(), t.Underlying()) {
		f.fail(s, "make of a different type")
	}
}

// elem translates the body of `for i := range *in` over elements of type et.
func (f *dcFn) elem(stmts []ast.Stmt, et types.Type, at ast.Node) *dcPlan {
	if len(stmts) != 1 {
		f.fail(at, "loop body with %d statements", len(stmts))
	}
	switch s := stmts[0].(type) {
	case *ast.IfStmt:
		x, ok := dcNilTest(s.Cond, true)
		if !ok || x != "(*in)[i]" || s.Init != nil || s.Else != nil {
			f.fail(s, "expected `if (*in)[i] != nil`")
		}
		body := s.Body.List
		if len(body) == 0 {
			f.fail(s, "empty guarded block")
		}
		if a, b, ok := dcRebind(body[0]); ok {
			if a != "(*in)[i]" || b != "(*out)[i]" {
				f.fail(body[0], "expected `in, out := &(*in)[i], &(*out)[i]`")
			}
			return &dcPlan{Op: "PNilOr", Sub: f.block(body[1:], et, s)}
		}
		// (*out)[i] = (*in)[i].DeepCopyX()
		if len(body) == 1 {
			if l, r, ok := dcAssign(body[0], token.ASSIGN); ok && dcStr(l) == "(*out)[i]" {
				if recv, fn, args, ok := f.methodCall(r); ok && dcStr(recv) == "(*in)[i]" && len(args) == 0 {
					return &dcPlan{Op: "PNilOr", Sub: f.valueCall(fn, et, body[0])}
				}
			}
		}
		f.fail(s, "guarded element copy")
	case *ast.ExprStmt:
		// (*in)[i].DeepCopyInto(&(*out)[i])
		recv, fn, args, ok := f.methodCall(s.X)
		if ok && dcStr(recv) == "(*in)[i]" && len(args) == 1 && dcStr(args[0]) == "&(*out)[i]" && fn.Name() == "DeepCopyInto" {
			if _, isS := et.Underlying().(*types.Struct); !isS {
				f.fail(s, "DeepCopyInto on a non-struct element")
			}
			name, isI := f.callee(fn, s)
			if isI {
				f.fail(s, "interface call")
			}
			return &dcPlan{Op: "PCall", Arg: name}
		}
	case *ast.AssignStmt:
		// (*out)[i] = (*in)[i]   (explicit shallow element copy)
		if l, r, ok := dcAssign(s, token.ASSIGN); ok && dcStr(l) == "(*out)[i]" && dcStr(r) == "(*in)[i]" {
			return &dcPlan{Op: "PShallow"}
		}
	}
	f.fail(stmts[0], "element copy")
	return nil
}

// valueCall: `dst = src.M()` where src has static type t: a DeepCopy() on a pointer, or a DeepCopyX() through an interface.
func (f *dcFn) valueCall(fn *types.Func, t types.Type, at ast.Node) *dcPlan {
	name, isI := f.callee(fn, at)
	if isI {
		if _, ok := t.Underlying().(*types.Interface); !ok {
			f.fail(at, "interface method on a non-interface value")
		}
		return &dcPlan{Op: "PCallIface", Arg: name}
	}
	if _, ok := t.Underlying().(*types.Pointer); !ok || fn.Name() != "DeepCopy" {
		f.fail(at, "expected DeepCopy() on a pointer")
	}
	return &dcPlan{Op: "PCall", Arg: name}
}

// mapBody translates the body of `for key, val := range *in` with values of type vt.
func (f *dcFn) mapBody(stmts []ast.Stmt, vt types.Type, at ast.Node) *dcPlan {
	if len(stmts) == 1 {
		l, r, ok := dcAssign(stmts[0], token.ASSIGN)
		if !ok || dcStr(l) != "(*out)[key]" {
			f.fail(stmts[0], "expected `(*out)[key] = ...`")
		}
		if dcStr(r) == "val" {
			return &dcPlan{Op: "PShallow"}
		}
		// (*out)[key] = *val.DeepCopy()   for struct values
		if st, ok := r.(*ast.StarExpr); ok {
			if recv, fn, args, ok := f.methodCall(st.X); ok && dcStr(recv) == "val" && len(args) == 0 && fn.Name() == "DeepCopy" {
				if _, isS := vt.Underlying().(*types.Struct); isS {
					name, _ := f.callee(fn, stmts[0])
					return &dcPlan{Op: "PCall", Arg: strings.TrimSuffix(name, ".DeepCopy") + ".DeepCopyInto"}
				}
			}
		}
		f.fail(stmts[0], "map value copy")
	}
	if len(stmts) != 3 {
		f.fail(at, "map loop body with %d statements", len(stmts))
	}
	// var outVal V
	ds, ok := stmts[0].(*ast.DeclStmt)
	if !ok {
		f.fail(stmts[0], "expected `var outVal V`")
	}
	gd, ok := ds.Decl.(*ast.GenDecl)
	if !ok || gd.Tok != token.VAR || len(gd.Specs) != 1 {
		f.fail(stmts[0], "expected `var outVal V`")
	}
	vs := gd.Specs[0].(*ast.ValueSpec)
	if len(vs.Names) != 1 || vs.Names[0].Name != "outVal" || len(vs.Values) != 0 {
		f.fail(stmts[0], "expected `var outVal V`")
	}
	if tv := f.p.info.TypeOf(vs.Type); tv == nil || !types.Identical(tv, vt) {
		f.fail(stmts[0], "outVal of a type different from the map's value type")
	}
	// if val == nil { (*out)[key] = nil } else { in, out := &val, &outVal; ... }
	is, ok := stmts[1].(*ast.IfStmt)
	if !ok || is.Init != nil || is.Else == nil {
		f.fail(stmts[1], "expected `if val == nil {...} else {...}`")
	}
	if x, ok := dcNilTest(is.Cond, false); !ok || x != "val" {
		f.fail(stmts[1], "expected `if val == nil`")
	}
	if len(is.Body.List) != 1 {
		f.fail(is, "nil branch")
	}
	if l, r, ok := dcAssign(is.Body.List[0], token.ASSIGN); !ok || dcStr(l) != "(*out)[key]" || dcStr(r) != "nil" {
		f.fail(is.Body.List[0], "expected `(*out)[key] = nil`")
	}
	eb, ok := is.Else.(*ast.BlockStmt)
	if !ok || len(eb.List) < 2 {
		f.fail(is, "else branch")
	}
	if a, b, ok := dcRebind(eb.List[0]); !ok || a != "val" || b != "outVal" {
		f.fail(eb.List[0], "expected `in, out := &val, &outVal`")
	}
	sub := f.block(eb.List[1:], vt, is)
	// (*out)[key] = outVal
	if l, r, ok := dcAssign(stmts[2], token.ASSIGN); !ok || dcStr(l) != "(*out)[key]" || dcStr(r) != "outVal" {
		f.fail(stmts[2], "expected `(*out)[key] = outVal`")
	}
	return &dcPlan{Op: "PNilOr", Sub: sub}
}

// into translates the body of `func (in *T) DeepCopyInto(out *T)` for a struct T.
func (f *dcFn) into(st *types.Struct) []dcFieldPlan {
	stmts := f.fd.Body.List
	if n := len(stmts); n > 0 {
		if r, ok := stmts[n-1].(*ast.ReturnStmt); ok && len(r.Results) == 0 {
			stmts = stmts[:n-1]
		}
	}
	def := "PSkip"
	if len(stmts) > 0 {
		if l, r, ok := dcAssign(stmts[0], token.ASSIGN); ok && dcStr(l) == "*out" && dcStr(r) == "*in" {
			def = "PShallow"
			stmts = stmts[1:]
		}
	}
	plans := map[string]*dcPlan{}
	set := func(name string, p *dcPlan, at ast.Node) {
		if plans[name] != nil {
			f.fail(at, "field %s is written twice", name)
		}
		plans[name] = p
	}
	ftype := map[string]types.Type{}
	for i := 0; i < st.NumFields(); i++ {
		ftype[st.Field(i).Name()] = st.Field(i).Type()
	}
	field := func(x string, prefix string, at ast.Node) string {
		if !strings.HasPrefix(x, prefix) || ftype[x[len(prefix):]] == nil {
			f.fail(at, "expected %s<field>, found %s", prefix, x)
		}
		return x[len(prefix):]
	}
	for _, s := range stmts {
		switch s := s.(type) {
		case *ast.IfStmt:
			x, ok := dcNilTest(s.Cond, true)
			if !ok || s.Init != nil || s.Else != nil || len(s.Body.List) == 0 {
				f.fail(s, "expected `if in.F != nil {...}`")
			}
			name := field(x, "in.", s)
			body := s.Body.List
			if a, b, ok := dcRebind(body[0]); ok {
				if a != "in."+name || b != "out."+name {
					f.fail(body[0], "expected `in, out := &in.%s, &out.%s`", name, name)
				}
				set(name, &dcPlan{Op: "PNilOr", Sub: f.block(body[1:], ftype[name], s)}, s)
				continue
			}
			// out.F = in.F.DeepCopyX()
			if len(body) == 1 {
				if l, r, ok := dcAssign(body[0], token.ASSIGN); ok && dcStr(l) == "out."+name {
					if recv, fn, args, ok := f.methodCall(r); ok && dcStr(recv) == "in."+name && len(args) == 0 {
						set(name, &dcPlan{Op: "PNilOr", Sub: f.valueCall(fn, ftype[name], body[0])}, s)
						continue
					}
				}
			}
			f.fail(s, "guarded field copy")
		case *ast.ExprStmt:
			// in.F.DeepCopyInto(&out.F)
			recv, fn, args, ok := f.methodCall(s.X)
			if !ok || len(args) != 1 || fn.Name() != "DeepCopyInto" {
				f.fail(s, "expected `in.F.DeepCopyInto(&out.F)`")
			}
			name := field(dcStr(recv), "in.", s)
			if dcStr(args[0]) != "&out."+name {
				f.fail(s, "expected `in.%s.DeepCopyInto(&out.%s)`", name, name)
			}
			if _, isS := ftype[name].Underlying().(*types.Struct); !isS {
				f.fail(s, "DeepCopyInto on a non-struct field")
			}
			cn, isI := f.callee(fn, s)
			if isI {
				f.fail(s, "interface call")
			}
			set(name, &dcPlan{Op: "PCall", Arg: cn}, s)
		case *ast.AssignStmt:
			// out.F = in.F
			l, r, ok := dcAssign(s, token.ASSIGN)
			if !ok {
				f.fail(s, "field assignment")
			}
			name := field(dcStr(l), "out.", s)
			if dcStr(r) != "in."+name {
				f.fail(s, "expected `out.%s = in.%s`", name, name)
			}
			set(name, &dcPlan{Op: "PShallow"}, s)
		default:
			f.fail(s, "statement kind")
		}
	}
	var res []dcFieldPlan
	for i := 0; i < st.NumFields(); i++ {
		n := st.Field(i).Name()
		p := plans[n]
		if p == nil {
			p = &dcPlan{Op: def}
		}
		res = append(res, dcFieldPlan{n, p})
	}
	return res
}

// ptrCopy translates `func (in *T) DeepCopy() *T`, generated or hand-written.
func (f *dcFn) ptrCopy(recvName string, self *types.Named) *dcPlan {
	stmts := f.fd.Body.List
	// hand-written degenerate form: return <receiver>
	if len(stmts) == 1 {
		if r, ok := stmts[0].(*ast.ReturnStmt); ok && len(r.Results) == 1 && dcStr(r.Results[0]) == recvName {
			return &dcPlan{Op: "PShallow"}
		}
	}
	if len(stmts) < 2 {
		f.fail(f.fd, "DeepCopy body")
	}
	// if in == nil { return nil }
	is, ok := stmts[0].(*ast.IfStmt)
	if !ok || is.Init != nil || is.Else != nil || len(is.Body.List) != 1 {
		f.fail(stmts[0], "expected `if in == nil { return nil }`")
	}
	if x, ok := dcNilTest(is.Cond, false); !ok || x != recvName {
		f.fail(stmts[0], "expected `if in == nil`")
	}
	if r, ok := is.Body.List[0].(*ast.ReturnStmt); !ok || len(r.Results) != 1 || dcStr(r.Results[0]) != "nil" {
		f.fail(stmts[0], "expected `return nil`")
	}
	rest := stmts[1:]
	// hand-written degenerate form after the nil guard: return <receiver>
	if len(rest) == 1 {
		if r, ok := rest[0].(*ast.ReturnStmt); ok && len(r.Results) == 1 && dcStr(r.Results[0]) == recvName {
			return &dcPlan{Op: "PShallow"}
		}
	}
	// generated: out := new(T); in.DeepCopyInto(out); return out
	if len(rest) == 3 {
		l, r, ok := dcAssign(rest[0], token.DEFINE)
		c, isCall := r.(*ast.CallExpr)
		if !ok || !isCall || dcStr(l) != "out" || dcStr(c.Fun) != "new" || len(c.Args) != 1 {
			f.fail(rest[0], "expected `out := new(T)`")
		}
		if tv := f.p.info.TypeOf(c.Args[0]); tv == nil || !types.Identical(tv, self) {
			f.fail(rest[0], "new of a type different from the receiver's")
		}
		es, ok := rest[1].(*ast.ExprStmt)
		if !ok {
			f.fail(rest[1], "expected `in.DeepCopyInto(out)`")
		}
		recv, fn, args, ok := f.methodCall(es.X)
		if !ok || dcStr(recv) != recvName || len(args) != 1 || dcStr(args[0]) != "out" || fn.Name() != "DeepCopyInto" {
			f.fail(rest[1], "expected `in.DeepCopyInto(out)`")
		}
		name, _ := f.callee(fn, rest[1])
		if rs, ok := rest[2].(*ast.ReturnStmt); !ok || len(rs.Results) != 1 || dcStr(rs.Results[0]) != "out" {
			f.fail(rest[2], "expected `return out`")
		}
		return &dcPlan{Op: "PNilOr", Sub: &dcPlan{Op: "PNew", Sub: &dcPlan{Op: "PCall", Arg: name}}}
	}
	// hand-written (primitive/uuid.go): x := *u; return &x
	if len(rest) == 2 {
		l, r, ok := dcAssign(rest[0], token.DEFINE)
		if !ok || dcStr(r) != "*"+recvName {
			f.fail(rest[0], "expected `x := *recv`")
		}
		if rs, ok := rest[1].(*ast.ReturnStmt); !ok || len(rs.Results) != 1 || dcStr(rs.Results[0]) != "&"+dcStr(l) {
			f.fail(rest[1], "expected `return &x`")
		}
		return &dcPlan{Op: "PNilOr", Sub: &dcPlan{Op: "PNew", Sub: &dcPlan{Op: "PShallow"}}}
	}
	f.fail(f.fd, "DeepCopy body")
	return nil
}

// toIface translates `func (in *T) DeepCopyX() I { if c := in.DeepCopy(); c != nil { return c }; return nil }`.
func (f *dcFn) toIface(recvName string) *dcPlan {
	stmts := f.fd.Body.List
	if len(stmts) != 2 {
		f.fail(f.fd, "interface copy body")
	}
	is, ok := stmts[0].(*ast.IfStmt)
	if !ok || is.Init == nil || is.Else != nil || len(is.Body.List) != 1 {
		f.fail(stmts[0], "expected `if c := in.DeepCopy(); c != nil { return c }`")
	}
	l, r, ok := dcAssign(is.Init, token.DEFINE)
	if !ok || dcStr(l) != "c" {
		f.fail(stmts[0], "expected `c := in.DeepCopy()`")
	}
	recv, fn, args, ok := f.methodCall(r)
	if !ok || dcStr(recv) != recvName || len(args) != 0 || fn.Name() != "DeepCopy" {
		f.fail(stmts[0], "expected `c := in.DeepCopy()`")
	}
	name, _ := f.callee(fn, stmts[0])
	if x, ok := dcNilTest(is.Cond, true); !ok || x != "c" {
		f.fail(stmts[0], "expected `c != nil`")
	}
	if rs, ok := is.Body.List[0].(*ast.ReturnStmt); !ok || len(rs.Results) != 1 || dcStr(rs.Results[0]) != "c" {
		f.fail(stmts[0], "expected `return c`")
	}
	if rs, ok := stmts[1].(*ast.ReturnStmt); !ok || len(rs.Results) != 1 || dcStr(rs.Results[0]) != "nil" {
		f.fail(stmts[1], "expected `return nil`")
	}
	return &dcPlan{Op: "PCall", Arg: name}
}

func dcMarker(doc *ast.CommentGroup) bool {
	if doc == nil {
		return false
	}
	for _, c := range doc.List {
		if strings.Contains(c.Text, "+k8s:deepcopy-gen=true") {
			return true
		}
	}
	return false
}

func genDeepCopy(repo string) (string, error) {
	st := &dcState{pkgs: map[string]*pkgInfo{}, types: map[string]*dcType{}, ifaces: map[string]*dcIface{}}
	for _, d := range dcPackages {
		p, err := loadPkg(repo, d)
		if err != nil {
			return "", err
		}
		st.pkgs[d] = p
	}
	// ---- types with a deep-copy operation, and marked types
	for _, d := range dcPackages {
		p := st.pkgs[d]
		var fns []string
		for fn := range p.files {
			fns = append(fns, fn)
		}
		sort.Strings(fns)
		for _, fn := range fns {
			for _, decl := range p.files[fn].Decls {
				gd, ok := decl.(*ast.GenDecl)
				if !ok || gd.Tok != token.TYPE {
					continue
				}
				for _, s := range gd.Specs {
					ts := s.(*ast.TypeSpec)
					obj, ok := p.info.Defs[ts.Name].(*types.TypeName)
					if !ok {
						continue
					}
					named, ok := obj.Type().(*types.Named)
					if !ok {
						continue
					}
					doc := ts.Doc
					if doc == nil && len(gd.Specs) == 1 {
						doc = gd.Doc
					}
					marker := dcMarker(doc)
					if !marker && !dcHasCopyMethod(named) {
						continue
					}
					if _, isI := named.Underlying().(*types.Interface); isI {
						continue
					}
					pos := p.fset.Position(ts.Pos())
					q := d + "." + ts.Name.Name
					t := &dcType{Name: q, Marker: marker, Where: fmt.Sprintf("%s/%s:%d", d, fn, pos.Line)}
					if su, ok := named.Underlying().(*types.Struct); ok {
						t.Decl = "struct"
						for i := 0; i < su.NumFields(); i++ {
							fl := su.Field(i)
							t.Fields = append(t.Fields, dcField{fl.Name(), dcShapeOf(fl.Type(), q+"."+fl.Name())})
						}
					} else {
						t.Decl = "alias"
						t.Alias = dcShapeOf(named.Underlying(), q)
					}
					for i := 0; i < named.NumMethods(); i++ {
						if m := named.Method(i).Name(); strings.HasPrefix(m, "DeepCopy") {
							t.Methods = append(t.Methods, m)
						}
					}
					sort.Strings(t.Methods)
					if marker && len(t.Methods) == 0 {
						panic(unsupported(fmt.Sprintf("%s: type %s is marked +k8s:deepcopy-gen=true but has no generated DeepCopy method (regeneration missing)", t.Where, q)))
					}
					st.types[q] = t
					st.order = append(st.order, q)
					p.record("deepcopy", q, "dc_env", ts)
				}
			}
		}
	}
	// ---- copy functions
	for _, d := range dcPackages {
		p := st.pkgs[d]
		var fns []string
		for fn := range p.files {
			fns = append(fns, fn)
		}
		sort.Strings(fns)
		for _, fn := range fns {
			for _, decl := range p.files[fn].Decls {
				fd, ok := decl.(*ast.FuncDecl)
				if !ok || fd.Recv == nil || fd.Body == nil || !strings.HasPrefix(fd.Name.Name, "DeepCopy") {
					continue
				}
				fobj := p.info.Defs[fd.Name].(*types.Func)
				sig := fobj.Type().(*types.Signature)
				rt := sig.Recv().Type()
				pr, isPtr := rt.(*types.Pointer)
				if !isPtr {
					panic(unsupported(fmt.Sprintf("%s/%s: %s has a value receiver", d, fn, fd.Name.Name)))
				}
				named, ok := pr.Elem().(*types.Named)
				if !ok {
					panic(unsupported(fmt.Sprintf("%s/%s: receiver of %s", d, fn, fd.Name.Name)))
				}
				q := d + "." + named.Obj().Name()
				if st.types[q] == nil {
					panic(unsupported("copy method on unknown type " + q))
				}
				if len(fd.Recv.List) != 1 || len(fd.Recv.List[0].Names) != 1 {
					panic(unsupported(q + "." + fd.Name.Name + ": unnamed receiver"))
				}
				recvName := fd.Recv.List[0].Names[0].Name
				pos := p.fset.Position(fd.Pos())
				f := &dcFn{p: p, fd: fd, name: q + "." + fd.Name.Name}
				out := &dcFunc{Name: f.name, Type: q, Method: fd.Name.Name, Where: fmt.Sprintf("%s/%s:%d", d, fn, pos.Line)}
				switch {
				case fd.Name.Name == "DeepCopyInto":
					su, isS := named.Underlying().(*types.Struct)
					if !isS {
						f.fail(fd, "DeepCopyInto on a non-struct type")
					}
					if recvName != "in" || sig.Params().Len() != 1 || sig.Params().At(0).Name() != "out" || !types.Identical(sig.Params().At(0).Type(), rt) || sig.Results().Len() != 0 {
						f.fail(fd, "signature of DeepCopyInto")
					}
					out.Form = "FStruct"
					out.Fields = f.into(su)
				case fd.Name.Name == "DeepCopy":
					if sig.Params().Len() != 0 || sig.Results().Len() != 1 || !types.Identical(sig.Results().At(0).Type(), rt) {
						f.fail(fd, "signature of DeepCopy")
					}
					out.Form = "FPlain"
					out.Arg = &dcTy{K: "ptr", Elem: &dcTy{K: "named", N: q}}
					out.Plan = f.ptrCopy(recvName, named)
				default:
					if sig.Params().Len() != 0 || sig.Results().Len() != 1 {
						f.fail(fd, "signature of %s", fd.Name.Name)
					}
					in, ok := sig.Results().At(0).Type().(*types.Named)
					if !ok {
						f.fail(fd, "result of %s is not a named interface", fd.Name.Name)
					}
					if _, isI := in.Underlying().(*types.Interface); !isI || !dcInModule(in.Obj().Pkg()) {
						f.fail(fd, "result of %s is not an interface of the module", fd.Name.Name)
					}
					iq := dcShort(in.Obj().Pkg().Path()) + "." + in.Obj().Name()
					if fd.Name.Name != "DeepCopy"+in.Obj().Name() {
						f.fail(fd, "method name does not follow DeepCopy<Interface>")
					}
					out.Form = "FToIface"
					out.Iface = iq
					out.Plan = f.toIface(recvName)
					ifc := st.ifaces[iq]
					if ifc == nil {
						ifc = &dcIface{Name: iq, Method: fd.Name.Name}
						st.ifaces[iq] = ifc
					}
					ifc.Impls = append(ifc.Impls, q)
				}
				st.funcs = append(st.funcs, out)
				p.record("deepcopy", out.Name, "dc_funcs", fd)
			}
		}
	}
	// every interface mentioned in a shape must be known, every named reference must have a declaration
	var check func(t *dcTy, where string)
	check = func(t *dcTy, where string) {
		if t == nil {
			return
		}
		switch t.K {
		case "named":
			if st.types[t.N] == nil {
				panic(unsupported(fmt.Sprintf("%s: struct type %s has no deep-copy operation (it would be copied by assignment)", where, t.N)))
			}
		case "iface":
			if st.ifaces[t.N] == nil {
				panic(unsupported(fmt.Sprintf("%s: interface %s has no DeepCopy%s implementation in the module", where, t.N, t.N)))
			}
		}
		check(t.Elem, where)
		check(t.Key, where)
	}
	// Named struct types without a copy operation that occur as fields are added to the environment (they can only be copied
	// shallowly; adequacy then depends on their being free of mutable reach).
	changed := true
	for changed {
		changed = false
		for _, q := range append([]string{}, st.order...) {
			t := st.types[q]
			var visit func(x *dcTy)
			visit = func(x *dcTy) {
				if x == nil {
					return
				}
				if x.K == "named" && st.types[x.N] == nil {
					if nt := dcLookupNamed(st, x.N); nt != nil {
						st.types[x.N] = nt
						st.order = append(st.order, x.N)
						changed = true
					}
				}
				visit(x.Elem)
				visit(x.Key)
			}
			for _, fl := range t.Fields {
				visit(fl.Ty)
			}
			visit(t.Alias)
		}
	}
	for _, q := range st.order {
		t := st.types[q]
		for _, fl := range t.Fields {
			check(fl.Ty, q+"."+fl.Name)
		}
		check(t.Alias, q)
	}
	sort.Strings(st.order)
	sort.Slice(st.funcs, func(i, j int) bool { return st.funcs[i].Name < st.funcs[j].Name })
	var inames []string
	for n, i := range st.ifaces {
		sort.Strings(i.Impls)
		inames = append(inames, n)
	}
	sort.Strings(inames)

	// ---- Gallina
	var b strings.Builder
	fmt.Fprintf(&b, "(* GENERATED by /verif/tools/go2coq (unit deepcopy) from {%s}/*.go -- do not edit; regenerated on every check run *)\n", strings.Join(dcPackages, ","))
	b.WriteString("From Coq Require Import ZArith List String.\nFrom GCNP Require Import model.DeepCopy.\nImport ListNotations.\nOpen Scope string_scope.\n\n")
	b.WriteString("(* shapes of the types that have a deep-copy operation (and of the struct types they embed by value) *)\n")
	b.WriteString("Definition dc_env : tyenv := [\n")
	for i, q := range st.order {
		t := st.types[q]
		sep := ";"
		if i == len(st.order)-1 {
			sep = ""
		}
		if t.Decl == "struct" {
			var fs []string
			for _, fl := range t.Fields {
				fs = append(fs, fmt.Sprintf("(%s, %s)", coqString(fl.Name), fl.Ty.coq()))
			}
			fmt.Fprintf(&b, "  (%s, DStruct [%s])%s\n", coqString(q), strings.Join(fs, "; "), sep)
		} else {
			fmt.Fprintf(&b, "  (%s, DAlias %s)%s\n", coqString(q), t.Alias.coq(), sep)
		}
	}
	b.WriteString("].\n\n(* interfaces and their implementations (dynamic type: pointer to the named struct) *)\nDefinition dc_ifaces : ifenv := [\n")
	for i, n := range inames {
		var is []string
		for _, x := range st.ifaces[n].Impls {
			is = append(is, coqString(x))
		}
		sep := ";"
		if i == len(inames)-1 {
			sep = ""
		}
		fmt.Fprintf(&b, "  (%s, [%s])%s\n", coqString(n), strings.Join(is, "; "), sep)
	}
	b.WriteString("].\n\n(* copy plans read off the bodies of the DeepCopy* methods *)\nDefinition dc_funcs : ftable := [\n")
	for i, fn := range st.funcs {
		sep := ";"
		if i == len(st.funcs)-1 {
			sep = ""
		}
		switch fn.Form {
		case "FStruct":
			var fs []string
			for _, fp := range fn.Fields {
				fs = append(fs, fmt.Sprintf("(%s, %s)", coqString(fp.Name), fp.Plan.coq()))
			}
			fmt.Fprintf(&b, "  (%s, FStruct %s [%s])%s\n", coqString(fn.Name), coqString(fn.Type), strings.Join(fs, "; "), sep)
		case "FPlain":
			fmt.Fprintf(&b, "  (%s, FPlain %s %s)%s\n", coqString(fn.Name), fn.Arg.coq(), fn.Plan.coq(), sep)
		case "FToIface":
			fmt.Fprintf(&b, "  (%s, FToIface %s %s %s)%s\n", coqString(fn.Name), coqString(fn.Type), coqString(fn.Iface), fn.Plan.coq(), sep)
		}
	}
	b.WriteString("].\n\n(* the types whose copy operations the property is about *)\nDefinition dc_roots : list string := [\n")
	var roots []string
	for _, q := range st.order {
		if len(st.types[q].Methods) > 0 {
			roots = append(roots, "  "+coqString(q))
		}
	}
	b.WriteString(strings.Join(roots, ";\n") + "\n].\n")

	// ---- JSON side table for the harness / python
	var tl []*dcType
	for _, q := range st.order {
		tl = append(tl, st.types[q])
	}
	var il []*dcIface
	for _, n := range inames {
		il = append(il, st.ifaces[n])
	}
	tb, _ := json.MarshalIndent(map[string]interface{}{"types": tl, "ifaces": il, "funcs": st.funcs}, "", " ")
	extraFiles["deepcopy_table.json"] = string(tb) + "\n"
	return b.String(), nil
}

// dcLookupNamed finds the declaration of a module struct type that has no copy method of its own.
func dcLookupNamed(st *dcState, q string) *dcType {
	i := strings.Index(q, ".")
	if i < 0 {
		return nil
	}
	p := st.pkgs[q[:i]]
	if p == nil {
		return nil
	}
	obj := p.pkg.Scope().Lookup(q[i+1:])
	if obj == nil {
		return nil
	}
	named, ok := obj.Type().(*types.Named)
	if !ok {
		return nil
	}
	t := &dcType{Name: q, Where: q[:i]}
	if su, ok := named.Underlying().(*types.Struct); ok {
		t.Decl = "struct"
		for i := 0; i < su.NumFields(); i++ {
			fl := su.Field(i)
			t.Fields = append(t.Fields, dcField{fl.Name(), dcShapeOf(fl.Type(), q+"."+fl.Name())})
		}
	} else {
		t.Decl = "alias"
		t.Alias = dcShapeOf(named.Underlying(), q)
	}
	return t
}
