package main

// Unit "flags": the Flags() methods of message/ that derive a flag word from field presence
// (QueryOptions, Batch, Prepare, VariablesMetadata, RowsMetadata).  Both the encoder and the
// decoder of those messages are driven by the value these methods return, so they are
// regenerated from the current source on every run and proved equal to the hand-written
// definitions the frame model uses (proofs/FlagsGenAgree.v).
//
// Emitted (coq/gen/Flags_gen.v), one definition per method over the records of model/MsgTypes.v:
//   <Type>_Flags_gen (x : <Type>) : result Z
// The accepted subset is the "flag builder" shape and nothing else:
//   var f T | named result f         the accumulator, initially 0
//   f = f.Add(C)                     -> <T>_Add f C          (regenerated in Constants_gen.v)
//   f |= C                           -> wrap_u <bits> (Z.lor f C)
//   if c {..} [else if c {..}] [else {..}]   (bodies of the same shape)
//   return f
// conditions: x.F != nil, x.F != "", x.F (bool), x.F > 0, len(x.F) > 0, len(x.F) == 0,
//   g(x.F) for a callee listed in flagCallees (partial: result bool), c && c (short-circuit).
// A field x.F of Go struct S is the projection <prefix(S)>_F of the model record; nil-able
// fields must be `option` there and strings/slices lists - a wrong assumption is a Coq type
// error of the generated file, i.e. fails closed.  Anything else is a hard error of the unit.

import (
	"fmt"
	"go/ast"
	"go/token"
	"go/types"
	"strings"
)

func init() {
	allUnits = append(allUnits, unit{"flags", "Flags_gen.v", genFlags})
}

// Go struct (package message) -> projection prefix of the record in model/MsgTypes.v
var flagRecordPrefix = map[string]string{
	"QueryOptions":      "qo",
	"Batch":             "b",
	"Prepare":           "p",
	"VariablesMetadata": "vm",
	"RowsMetadata":      "rm",
}

// callees that the hand model defines (partial functions: they return `result bool`)
var flagCallees = map[string]string{
	"haveSameTable": "haveSameTable",
}

var flagMethods = []struct{ file, typ string }{
	{"query_options.go", "QueryOptions"},
	{"batch.go", "Batch"},
	{"prepare.go", "Prepare"},
	{"result_metadata.go", "VariablesMetadata"},
	{"result_metadata.go", "RowsMetadata"},
}

type flagTr struct {
	p    *pkgInfo
	recv string // receiver identifier
	typ  string // Go struct name
	acc  string // accumulator identifier
	accT *types.Named
	depth int // nesting depth of if bodies (a return is accepted at depth 0 only)
}

func (t *flagTr) bad(n ast.Node, what string) {
	panic(unsupported(fmt.Sprintf("%s.Flags (%s): %s: %s", t.typ, t.p.fset.Position(n.Pos()), what, t.p.srcOf(n))))
}

// field translates x.F (x the receiver) to the model projection and returns the Go type of F.
func (t *flagTr) field(e ast.Expr) (string, types.Type) {
	sel, ok := e.(*ast.SelectorExpr)
	if !ok {
		t.bad(e, "expected a field of the receiver")
	}
	id, ok := sel.X.(*ast.Ident)
	if !ok || id.Name != t.recv {
		t.bad(e, "expected a field of the receiver")
	}
	if _, isField := t.p.info.Selections[sel]; !isField || t.p.info.Selections[sel].Kind() != types.FieldVal {
		t.bad(e, "not a field selection")
	}
	return fmt.Sprintf("(%s_%s %s)", flagRecordPrefix[t.typ], sel.Sel.Name, t.recv), t.p.info.TypeOf(e)
}

func isZeroLit(e ast.Expr) bool {
	b, ok := e.(*ast.BasicLit)
	return ok && b.Kind == token.INT && b.Value == "0"
}

// cond returns a Gallina term of type `result bool`.
func (t *flagTr) cond(e ast.Expr) string {
	switch x := e.(type) {
	case *ast.ParenExpr:
		return t.cond(x.X)
	case *ast.SelectorExpr:
		f, ty := t.field(x)
		if b, ok := ty.Underlying().(*types.Basic); !ok || b.Kind() != types.Bool {
			t.bad(e, "non-boolean field used as a condition")
		}
		return "(Ok " + f + ")"
	case *ast.CallExpr:
		fn, ok := x.Fun.(*ast.Ident)
		if !ok || len(x.Args) != 1 {
			t.bad(e, "unsupported call")
		}
		callee, ok := flagCallees[fn.Name]
		if !ok {
			t.bad(e, "call to a function without a model counterpart")
		}
		if _, isFunc := t.p.info.Uses[fn].(*types.Func); !isFunc {
			t.bad(e, "callee is not a package-level function")
		}
		f, _ := t.field(x.Args[0])
		return fmt.Sprintf("(%s %s)", callee, f)
	case *ast.BinaryExpr:
		switch x.Op {
		case token.LAND:
			return fmt.Sprintf("(fg_and %s %s)", t.cond(x.X), t.cond(x.Y))
		case token.NEQ:
			f, ty := t.field(x.X)
			if isNil(x.Y) {
				switch ty.Underlying().(type) {
				case *types.Pointer, *types.Slice, *types.Map:
					return "(Ok (fg_is_some " + f + "))"
				}
				t.bad(e, "nil comparison of a non-nilable field")
			}
			if b, ok := x.Y.(*ast.BasicLit); ok && b.Kind == token.STRING && b.Value == `""` {
				if bt, ok := ty.Underlying().(*types.Basic); ok && bt.Kind() == types.String {
					return "(Ok (fg_nonempty " + f + "))"
				}
			}
			t.bad(e, "unsupported inequality")
		case token.GTR, token.EQL:
			op := map[token.Token]string{token.GTR: "Z.gtb", token.EQL: "Z.eqb"}[x.Op]
			if !isZeroLit(x.Y) {
				t.bad(e, "comparison with something other than the literal 0")
			}
			if c, ok := x.X.(*ast.CallExpr); ok {
				if fn, ok := c.Fun.(*ast.Ident); ok && fn.Name == "len" && len(c.Args) == 1 {
					if _, isBuiltin := t.p.info.Uses[fn].(*types.Builtin); !isBuiltin {
						t.bad(e, "len is shadowed")
					}
					f, ty := t.field(c.Args[0])
					if _, ok := ty.Underlying().(*types.Slice); !ok {
						t.bad(e, "len of a non-slice field")
					}
					return fmt.Sprintf("(Ok (%s (zlen %s) 0))", op, f)
				}
				t.bad(e, "unsupported call in comparison")
			}
			f, ty := t.field(x.X)
			if b, ok := ty.Underlying().(*types.Basic); !ok || b.Info()&types.IsInteger == 0 {
				t.bad(e, "ordering of a non-integer field")
			}
			return fmt.Sprintf("(Ok (%s %s 0))", op, f)
		}
	}
	t.bad(e, "unsupported condition")
	return ""
}

// flagConst translates the operand of Add / |= : a constant of the accumulator's type.
func (t *flagTr) flagConst(e ast.Expr) string {
	tv, ok := t.p.info.Types[e]
	if !ok || tv.Value == nil || !types.Identical(tv.Type, t.accT) {
		t.bad(e, "flag operand is not a constant of the accumulator's type")
	}
	switch x := e.(type) {
	case *ast.SelectorExpr:
		return coqIdent(x.Sel.Name)
	case *ast.Ident:
		return coqIdent(x.Name)
	}
	t.bad(e, "flag operand is not a named constant")
	return ""
}

// stmts translates a statement list into a Gallina term of type `result Z` in which the
// accumulator is the bound variable t.acc; k is the continuation (the rest of the enclosing lists).
func (t *flagTr) stmts(list []ast.Stmt, k func() string) string {
	if len(list) == 0 {
		return k()
	}
	rest := func() string { return t.stmts(list[1:], k) }
	switch s := list[0].(type) {
	case *ast.AssignStmt:
		if len(s.Lhs) != 1 || len(s.Rhs) != 1 {
			t.bad(s, "unsupported assignment")
		}
		lhs, ok := s.Lhs[0].(*ast.Ident)
		if !ok || lhs.Name != t.acc {
			t.bad(s, "assignment to something other than the accumulator")
		}
		var rhs string
		switch s.Tok {
		case token.OR_ASSIGN:
			bits := kindOf(t.accT).bits
			rhs = fmt.Sprintf("wrap_u %d (Z.lor %s %s)", bits, t.acc, t.flagConst(s.Rhs[0]))
		case token.ASSIGN:
			c, ok := s.Rhs[0].(*ast.CallExpr)
			if !ok || len(c.Args) != 1 {
				t.bad(s, "unsupported right-hand side")
			}
			sel, ok := c.Fun.(*ast.SelectorExpr)
			if !ok || sel.Sel.Name != "Add" {
				t.bad(s, "unsupported right-hand side")
			}
			if id, ok := sel.X.(*ast.Ident); !ok || id.Name != t.acc {
				t.bad(s, "Add on something other than the accumulator")
			}
			rhs = fmt.Sprintf("%s_Add %s %s", t.accT.Obj().Name(), t.acc, t.flagConst(c.Args[0]))
		default:
			t.bad(s, "unsupported assignment operator")
		}
		return fmt.Sprintf("let %s := %s in\n  %s", t.acc, rhs, rest())
	case *ast.IfStmt:
		if s.Init != nil {
			t.bad(s, "if with init statement")
		}
		join := func() string { return "Ok " + t.acc }
		t.depth++
		thenT := t.stmts(s.Body.List, join)
		elseT := "Ok " + t.acc
		switch e := s.Else.(type) {
		case nil:
		case *ast.BlockStmt:
			elseT = t.stmts(e.List, join)
		case *ast.IfStmt:
			elseT = t.stmts([]ast.Stmt{e}, join)
		default:
			t.bad(s, "unsupported else")
		}
		t.depth--
		return fmt.Sprintf("fg_bind (fg_if %s\n    (%s)\n    (%s)) (fun %s =>\n  %s)", t.cond(s.Cond), thenT, elseT, t.acc, rest())
	case *ast.ReturnStmt:
		if len(list) != 1 || t.depth != 0 {
			t.bad(s, "return before the end")
		}
		if len(s.Results) == 1 {
			if id, ok := s.Results[0].(*ast.Ident); !ok || id.Name != t.acc {
				t.bad(s, "returns something other than the accumulator")
			}
		} else if len(s.Results) != 0 {
			t.bad(s, "unsupported return")
		}
		return "Ok " + t.acc
	}
	t.bad(list[0], "unsupported statement")
	return ""
}

func genFlags(repo string) (string, error) {
	p, err := loadPkg(repo, "message")
	if err != nil {
		return "", err
	}
	var b strings.Builder
	b.WriteString("(* GENERATED by tools/go2coq (unit flags) from message/*.go - do not edit *)\n")
	b.WriteString("From Coq Require Import ZArith List Bool.\n")
	b.WriteString("From GCNP Require Import base.GoInt base.Bytes gen.Constants_gen model.MsgTypes model.MsgResults.\n")
	b.WriteString("Import ListNotations.\nOpen Scope Z_scope.\n\n")
	b.WriteString("Definition fg_is_some {A} (o : option A) : bool := match o with Some _ => true | None => false end.\n")
	b.WriteString("Definition fg_nonempty {A} (s : list A) : bool := match s with [] => false | _ :: _ => true end.\n")
	b.WriteString("Definition fg_and (a b : result bool) : result bool := match a with Err => Err | Ok false => Ok false | Ok true => b end.\n")
	b.WriteString("Definition fg_if (c : result bool) (a b : result Z) : result Z := match c with Err => Err | Ok true => a | Ok false => b end.\n")
	b.WriteString("Definition fg_bind (a : result Z) (k : Z -> result Z) : result Z := match a with Err => Err | Ok x => k x end.\n\n")
	for _, m := range flagMethods {
		f := p.files[m.file]
		if f == nil {
			return "", fmt.Errorf("missing file message/%s", m.file)
		}
		var fd *ast.FuncDecl
		for _, d := range f.Decls {
			if x, ok := d.(*ast.FuncDecl); ok && x.Name.Name == "Flags" && x.Recv != nil && len(x.Recv.List) == 1 && x.Body != nil {
				if st, ok := x.Recv.List[0].Type.(*ast.StarExpr); ok {
					if id, ok := st.X.(*ast.Ident); ok && id.Name == m.typ {
						fd = x
					}
				}
			}
		}
		if fd == nil {
			return "", fmt.Errorf("method (*%s).Flags not found in message/%s", m.typ, m.file)
		}
		if len(fd.Recv.List[0].Names) != 1 || fd.Type.Params.NumFields() != 0 || fd.Type.Results.NumFields() != 1 {
			return "", fmt.Errorf("(*%s).Flags: unexpected signature", m.typ)
		}
		t := &flagTr{p: p, recv: fd.Recv.List[0].Names[0].Name, typ: m.typ}
		res := fd.Type.Results.List[0]
		named, ok := p.info.TypeOf(res.Type).(*types.Named)
		if !ok || kindOf(named).k != "int" || kindOf(named).signed {
			return "", fmt.Errorf("(*%s).Flags: result is not a named unsigned integer type", m.typ)
		}
		t.accT = named
		body := fd.Body.List
		if len(res.Names) == 1 {
			t.acc = res.Names[0].Name
		} else {
			// var flags T
			ds, ok := body[0].(*ast.DeclStmt)
			if !ok {
				return "", fmt.Errorf("(*%s).Flags: first statement is not the accumulator declaration", m.typ)
			}
			gd, ok := ds.Decl.(*ast.GenDecl)
			if !ok || gd.Tok != token.VAR || len(gd.Specs) != 1 {
				return "", fmt.Errorf("(*%s).Flags: first statement is not the accumulator declaration", m.typ)
			}
			vs := gd.Specs[0].(*ast.ValueSpec)
			if len(vs.Names) != 1 || len(vs.Values) != 0 || !types.Identical(p.info.TypeOf(vs.Type), named) {
				return "", fmt.Errorf("(*%s).Flags: accumulator declaration of unexpected shape", m.typ)
			}
			t.acc = vs.Names[0].Name
			body = body[1:]
		}
		if t.acc == t.recv {
			return "", fmt.Errorf("(*%s).Flags: accumulator shadows the receiver", m.typ)
		}
		term := t.stmts(body, func() string {
			panic(unsupported(fmt.Sprintf("(*%s).Flags: falls off the end without a return", m.typ)))
		})
		name := m.typ + "_Flags_gen"
		fmt.Fprintf(&b, "(* message/%s: func (%s *%s) Flags() %s *)\n", m.file, t.recv, m.typ, named.Obj().Name())
		fmt.Fprintf(&b, "Definition %s (%s : %s) : result Z :=\n  let %s := 0 in\n  %s.\n\n", name, t.recv, m.typ, t.acc, term)
		p.record("flags", "(*"+m.typ+").Flags", name, fd)
	}
	return b.String(), nil
}
