package main

import (
	"fmt"
	"go/ast"
	"go/constant"
	"go/token"
	"go/types"
	"sort"
	"strings"
)

type unsupported string

// kinds of Go types the subset knows
type kind struct {
	k      string // "int", "bool", "string", "bigint", "error", "slice", "other"
	bits   int
	signed bool
	elem   *kind
}

func kindOf(t types.Type) kind {
	if t == nil {
		return kind{k: "other"}
	}
	if p, ok := t.(*types.Pointer); ok {
		if n, ok := p.Elem().(*types.Named); ok && n.Obj().Pkg() != nil && n.Obj().Pkg().Path() == "math/big" && n.Obj().Name() == "Int" {
			return kind{k: "bigint"}
		}
		if n, ok := p.Elem().(*types.Named); ok && n.Obj().Pkg() != nil && n.Obj().Pkg().Path() == "math/big" && n.Obj().Name() == "Float" {
			return kind{k: "bigfloat"}
		}
		e := kindOf(p.Elem())
		switch e.k {
		case "int", "string", "float", "time", "iface":
			return kind{k: "ptr", elem: &e}
		}
		return kind{k: "other"}
	}
	if n, ok := t.(*types.Named); ok && n.Obj().Pkg() == nil && n.Obj().Name() == "error" {
		return kind{k: "error"}
	}
	if n, ok := t.(*types.Named); ok && n.Obj().Pkg() != nil && n.Obj().Pkg().Path() == "time" && n.Obj().Name() == "Time" {
		return kind{k: "time"}
	}
	if n, ok := t.(*types.Named); ok && n.Obj().Pkg() != nil && n.Obj().Pkg().Path() == "math/big" && n.Obj().Name() == "Int" {
		return kind{k: "bigintval"}
	}
	if n, ok := t.(*types.Named); ok && n.Obj().Pkg() != nil && n.Obj().Pkg().Path() == "math/big" && n.Obj().Name() == "Float" {
		return kind{k: "bigfloatval"}
	}
	switch u := t.Underlying().(type) {
	case *types.Basic:
		switch u.Kind() {
		case types.Bool, types.UntypedBool:
			return kind{k: "bool"}
		case types.String, types.UntypedString:
			return kind{k: "string"}
		case types.Int, types.Int64:
			return kind{k: "int", bits: 64, signed: true}
		case types.Int32, types.UntypedRune:
			return kind{k: "int", bits: 32, signed: true}
		case types.Int16:
			return kind{k: "int", bits: 16, signed: true}
		case types.Int8:
			return kind{k: "int", bits: 8, signed: true}
		case types.Uint, types.Uint64, types.Uintptr:
			return kind{k: "int", bits: 64, signed: false}
		case types.Uint32:
			return kind{k: "int", bits: 32, signed: false}
		case types.Uint16:
			return kind{k: "int", bits: 16, signed: false}
		case types.Uint8:
			return kind{k: "int", bits: 8, signed: false}
		case types.UntypedInt:
			return kind{k: "int", bits: 0, signed: true}
		case types.Float32:
			return kind{k: "float", bits: 32}
		case types.Float64:
			return kind{k: "float", bits: 64}
		case types.UntypedFloat:
			return kind{k: "float", bits: 0}
		case types.UntypedNil:
			return kind{k: "nil"}
		}
	case *types.Slice:
		e := kindOf(u.Elem())
		return kind{k: "slice", elem: &e}
	case *types.Interface:
		if t.String() == "error" {
			return kind{k: "error"}
		}
		if u.NumMethods() == 0 {
			return kind{k: "iface"}
		}
	}
	return kind{k: "other"}
}

func (k kind) coqType() string {
	switch k.k {
	case "int", "bigint", "float", "bigintval":
		return "Z"
	case "bigfloat", "bigfloatval":
		return "bigfloat"
	case "time":
		return "gotime"
	case "iface":
		return "goval"
	case "ptr":
		return "(option " + k.elem.coqType() + ")"
	case "bool":
		return "bool"
	case "string":
		return "string"
	case "error":
		return "result unit"
	case "slice":
		return "list " + k.elem.coqType()
	}
	panic(unsupported("type with no Gallina counterpart"))
}

func (k kind) wrap(e string) string {
	if k.k != "int" || k.bits == 0 {
		return e
	}
	s := "u"
	if k.signed {
		s = "i"
	}
	return fmt.Sprintf("(wrap_%s%d %s)", s, k.bits, e)
}

var coqReserved = map[string]bool{"as": true, "at": true, "cofix": true, "else": true, "end": true, "exists": true, "exists2": true, "fix": true, "for": true, "forall": true, "fun": true, "if": true, "IF": true, "in": true, "let": true, "match": true, "mod": true, "Prop": true, "return": true, "Set": true, "then": true, "Type": true, "using": true, "where": true, "with": true, "type": true, "val": false}

func coqIdent(s string) string {
	if coqReserved[s] {
		return s + "_"
	}
	return s
}

func coqString(s string) string {
	var b strings.Builder
	b.WriteByte('"')
	for i := 0; i < len(s); i++ {
		c := s[i]
		if c == '"' {
			b.WriteString(`""`)
		} else if c < 32 || c > 126 {
			panic(unsupported(fmt.Sprintf("non-printable byte in string constant %q", s)))
		} else {
			b.WriteByte(c)
		}
	}
	b.WriteString("\"%string")
	return b.String()
}

func zLit(v constant.Value) string {
	s := v.ExactString()
	if strings.HasPrefix(s, "-") {
		return "(" + s + ")"
	}
	return s
}

// tr translates the body of one function.
type tr struct {
	p     *pkgInfo
	deps  map[string]bool
	fn    *ast.FuncDecl
	sig   *types.Signature
	where func(ast.Node) string

	// extensions for functions with named results, type switches and stores through a destination
	named     []namedRes        // named results, in order
	optVars   map[string]bool   // variables held as an option (nil-able pointers)
	nonNil    map[string]int    // pointer variables known to be non-nil at the current point
	nilAlias  map[string]string // boolean variable -> pointer variable it was last assigned "<ptr> == nil"
	destNil   map[string]bool   // type-switch variables of a destination switch: the Gallina variable is "pointer is nil"
	destParam string            // name of the interface{} parameter stores go through ("" if none)
	storeVar  string            // Gallina variable holding what has been stored through the destination
	dropped   map[string]bool   // parameters with no Gallina counterpart (only allowed inside error constructors)
	destPrec  map[string]string // *big.Float destination variable -> Gallina variable holding the precision it had on entry
	destAcc   map[string]string // *big.Float destination variable -> Gallina variable holding its Acc() (only after a SetFloat64 on it)
	usesO     bool              // the body calls an oracle
	ext       bool              // extended subset (numeric unit); the original subset is unchanged when false
}

type namedRes struct {
	name string
	k    kind
	opt  bool
}

// zero value of a kind, as Gallina
func (k kind) zero() string {
	switch k.k {
	case "int", "float":
		return "0"
	case "bool":
		return "false"
	case "string":
		return "\"\"%string"
	case "error":
		return "(Ok tt)"
	case "slice":
		return "(@nil " + k.elem.coqType() + ")"
	case "ptr":
		return "(@None " + k.elem.coqType() + ")"
	case "bigint":
		return "(@None Z)"
	case "time":
		return "time_zero"
	}
	panic(unsupported("no zero value for kind " + k.k))
}

// govalCtor names the constructor of base/GoNum.v's goval for a Go type.
func govalCtor(t types.Type) (string, bool) {
	if t == nil {
		return "", false
	}
	if p, ok := t.(*types.Pointer); ok {
		if c, ok := govalCtor(p.Elem()); ok && !strings.HasPrefix(c, "G_p") {
			return "G_p" + strings.TrimPrefix(c, "G_"), true
		}
		return "", false
	}
	if n, ok := t.(*types.Named); ok && n.Obj().Pkg() != nil {
		switch n.Obj().Pkg().Path() + "." + n.Obj().Name() {
		case "math/big.Int":
			return "G_bigint", true
		case "math/big.Float":
			return "G_bigfloat", true
		case "time.Time":
			return "G_time", true
		case "time.Duration":
			return "G_duration", true
		}
		return "", false
	}
	if b, ok := t.(*types.Basic); ok {
		switch b.Kind() {
		case types.Int, types.Int8, types.Int16, types.Int32, types.Int64, types.Uint, types.Uint8, types.Uint16, types.Uint32, types.Uint64,
			types.String, types.Float32, types.Float64:
			return "G_" + b.Name(), true
		case types.UntypedNil:
			return "G_nil", true
		}
	}
	return "", false
}

// godstCtor names the constructor of godst for a pointer type.
func godstCtor(t types.Type) (string, bool) {
	p, ok := t.(*types.Pointer)
	if !ok {
		return "", false
	}
	if i, ok := p.Elem().Underlying().(*types.Interface); ok && i.NumMethods() == 0 {
		return "D_piface", true
	}
	c, ok := govalCtor(p.Elem())
	if !ok || strings.HasPrefix(c, "G_p") {
		return "", false
	}
	return "D_p" + strings.TrimPrefix(c, "G_"), true
}

// isErrCtor: a package function that can only return a non-nil error (every return is fmt.Errorf / errors.New).
func (t *tr) isErrCtor(obj *types.Func) bool {
	sig := obj.Type().(*types.Signature)
	if sig.Results().Len() != 1 || kindOf(sig.Results().At(0).Type()).k != "error" {
		return false
	}
	for _, f := range t.p.files {
		for _, d := range f.Decls {
			fd, ok := d.(*ast.FuncDecl)
			if !ok || fd.Recv != nil || fd.Body == nil || t.p.info.Defs[fd.Name] != obj {
				continue
			}
			good := true
			nret := 0
			ast.Inspect(fd.Body, func(n ast.Node) bool {
				r, ok := n.(*ast.ReturnStmt)
				if !ok {
					return true
				}
				nret++
				if len(r.Results) != 1 {
					good = false
					return true
				}
				if id, ok := r.Results[0].(*ast.Ident); ok {
					if v, ok := t.p.info.Uses[id].(*types.Var); ok && v.Parent() == t.p.pkg.Scope() && t.pkgErrVar(v) {
						return true
					}
				}
				c, ok := r.Results[0].(*ast.CallExpr)
				if !ok {
					good = false
					return true
				}
				src := t.p.srcOf(c.Fun)
				if src != "fmt.Errorf" && src != "errors.New" {
					good = false
				}
				return true
			})
			return good && nret > 0
		}
	}
	return false
}

// errExpr translates an expression of type error: nil -> (Ok tt); a variable -> itself; an always-failing
// constructor or a package-level error value -> Err.
func (t *tr) errExpr(e ast.Expr) string {
	if isNil(e) {
		return "(Ok tt)"
	}
	switch x := e.(type) {
	case *ast.ParenExpr:
		return t.errExpr(x.X)
	case *ast.Ident:
		if v, ok := t.p.info.Uses[x].(*types.Var); ok {
			if v.Parent() == t.p.pkg.Scope() {
				// package-level error value: must be initialised with errors.New / fmt.Errorf
				if t.pkgErrVar(v) {
					return "Err"
				}
				t.fail(e, "package-level error variable %s is not a constant error", x.Name)
			}
			return coqIdent(v.Name())
		}
	case *ast.CallExpr:
		if id, ok := x.Fun.(*ast.Ident); ok {
			if f, ok := t.p.info.Uses[id].(*types.Func); ok && f.Pkg() == t.p.pkg {
				if t.isErrCtor(f) {
					return "Err"
				}
				// a translated function returning only an error
				return t.call(x)
			}
		}
		src := t.p.srcOf(x.Fun)
		if src == "fmt.Errorf" || src == "errors.New" {
			return "Err"
		}
	}
	t.fail(e, "error-valued expression")
	return ""
}

func (t *tr) pkgErrVar(v *types.Var) bool {
	for _, f := range t.p.files {
		for _, d := range f.Decls {
			gd, ok := d.(*ast.GenDecl)
			if !ok || gd.Tok != token.VAR {
				continue
			}
			for _, s := range gd.Specs {
				vs := s.(*ast.ValueSpec)
				for i, n := range vs.Names {
					if t.p.info.Defs[n] != v || i >= len(vs.Values) {
						continue
					}
					c, ok := vs.Values[i].(*ast.CallExpr)
					if !ok {
						return false
					}
					src := t.p.srcOf(c.Fun)
					return src == "errors.New" || src == "fmt.Errorf"
				}
			}
		}
	}
	return false
}

// optIdent reports whether e is a variable held as an option.
func (t *tr) optIdent(e ast.Expr) (string, bool) {
	for {
		p, ok := e.(*ast.ParenExpr)
		if !ok {
			break
		}
		e = p.X
	}
	id, ok := e.(*ast.Ident)
	if !ok {
		return "", false
	}
	if _, ok := t.p.info.Uses[id].(*types.Var); !ok {
		return "", false
	}
	if t.optVars[id.Name] {
		return id.Name, true
	}
	return "", false
}

// needNonNil fails unless the pointer variable is known to be non-nil here (Go would panic otherwise).
func (t *tr) needNonNil(n ast.Node, name string) {
	if t.nonNil[name] <= 0 {
		t.fail(n, "pointer %s used where it is not known to be non-nil (Go would panic on nil)", name)
	}
}

// condGuards: pointer variables known non-nil when cond is true / false.
func (t *tr) condGuards(cond ast.Expr) (whenTrue, whenFalse []string) {
	switch x := cond.(type) {
	case *ast.ParenExpr:
		return t.condGuards(x.X)
	case *ast.Ident:
		if p, ok := t.nilAlias[x.Name]; ok {
			return nil, []string{p}
		}
	case *ast.UnaryExpr:
		if x.Op == token.NOT {
			a, b := t.condGuards(x.X)
			return b, a
		}
	case *ast.BinaryExpr:
		switch x.Op {
		case token.LAND:
			a1, _ := t.condGuards(x.X)
			a2, _ := t.condGuards(x.Y)
			return append(a1, a2...), nil
		case token.LOR:
			_, b1 := t.condGuards(x.X)
			_, b2 := t.condGuards(x.Y)
			return nil, append(b1, b2...)
		case token.EQL, token.NEQ:
			var name string
			if isNil(x.Y) {
				if id, ok := x.X.(*ast.Ident); ok && (t.optVars[id.Name] || t.destNil[id.Name]) {
					name = id.Name
				}
			}
			if name != "" {
				if x.Op == token.NEQ {
					return []string{name}, nil
				}
				return nil, []string{name}
			}
		}
	}
	return nil, nil
}

func (t *tr) withGuards(g []string, f func() string) string {
	for _, n := range g {
		t.nonNil[n]++
	}
	s := f()
	for _, n := range g {
		t.nonNil[n]--
	}
	return s
}

func (t *tr) fail(n ast.Node, format string, a ...interface{}) {
	pos := t.p.fset.Position(n.Pos())
	panic(unsupported(fmt.Sprintf("%s:%d: %s", pos.Filename, pos.Line, fmt.Sprintf(format, a...))))
}

func (t *tr) typeOf(e ast.Expr) types.Type { return t.p.info.TypeOf(e) }

func methodCoqName(recv types.Type, name string) string {
	if p, ok := recv.(*types.Pointer); ok {
		recv = p.Elem()
	}
	if n, ok := recv.(*types.Named); ok {
		return n.Obj().Name() + "_" + name
	}
	return "anon_" + name
}

func (t *tr) constExpr(e ast.Expr) (string, bool) {
	tv, ok := t.p.info.Types[e]
	if !ok || tv.Value == nil {
		return "", false
	}
	switch tv.Value.Kind() {
	case constant.Int:
		return zLit(tv.Value), true
	case constant.Bool:
		if constant.BoolVal(tv.Value) {
			return "true", true
		}
		return "false", true
	case constant.String:
		return coqString(constant.StringVal(tv.Value)), true
	case constant.Float:
		if i, ok := constant.Int64Val(constant.ToInt(tv.Value)); ok && constant.ToInt(tv.Value).Kind() == constant.Int {
			return zLit(constant.MakeInt64(i)), true
		}
	}
	return "", false
}

func (t *tr) expr(e ast.Expr) string {
	// named constants keep their name (so theorems can refer to them); other constant
	// expressions are folded by the Go type checker.
	if id, ok := e.(*ast.Ident); ok {
		if c, ok := t.p.info.Uses[id].(*types.Const); ok && c.Pkg() == t.p.pkg && c.Parent() == t.p.pkg.Scope() {
			t.deps[c.Name()] = true
			return coqIdent(c.Name())
		}
	}
	if t.ext {
		if tv, ok := t.p.info.Types[e]; ok && tv.Value != nil && kindOf(tv.Type).k == "float" {
			// floats are carried as IEEE bit patterns: only the constant 0 (= +0.0, all bits clear) is supported
			if constant.Sign(tv.Value) != 0 {
				t.fail(e, "floating-point constant other than 0")
			}
			return "0"
		}
	}
	if s, ok := t.constExpr(e); ok {
		return s
	}
	switch x := e.(type) {
	case *ast.ParenExpr:
		return t.expr(x.X)
	case *ast.Ident:
		switch obj := t.p.info.Uses[x].(type) {
		case *types.Var:
			if t.ext {
				if t.dropped[obj.Name()] {
					t.fail(e, "parameter %s has no Gallina counterpart and is used outside an error constructor", obj.Name())
				}
				if t.destNil[obj.Name()] {
					t.fail(e, "destination pointer %s used as a value", obj.Name())
				}
				if t.optVars[obj.Name()] {
					// a nil-able pointer used as the value it points to (only *big.Int / *big.Float are passed around like this)
					k := kindOf(obj.Type())
					if k.k != "bigint" && k.k != "bigfloat" {
						t.fail(e, "pointer %s used as a value", obj.Name())
					}
					t.needNonNil(e, obj.Name())
					if k.k == "bigfloat" {
						return "(unopt (0, 0) " + coqIdent(obj.Name()) + ")"
					}
					return "(unopt 0 " + coqIdent(obj.Name()) + ")"
				}
				if kindOf(obj.Type()).k == "error" && obj.Parent() == t.p.pkg.Scope() {
					return t.errExpr(e)
				}
			}
			return coqIdent(obj.Name())
		case *types.Nil:
			t.fail(e, "nil outside a supported position")
		}
		t.fail(e, "identifier %s", x.Name)
	case *ast.UnaryExpr:
		k := kindOf(t.typeOf(e))
		switch x.Op {
		case token.NOT:
			return "(negb " + t.expr(x.X) + ")"
		case token.SUB:
			return k.wrap("(- " + t.expr(x.X) + ")")
		case token.XOR:
			return k.wrap("(Z.lnot " + t.expr(x.X) + ")")
		case token.ADD:
			return t.expr(x.X)
		}
		t.fail(e, "unary operator %s", x.Op)
	case *ast.BinaryExpr:
		return t.binary(x)
	case *ast.CallExpr:
		return t.call(x)
	case *ast.CompositeLit:
		k := kindOf(t.typeOf(e))
		if k.k == "slice" {
			var parts []string
			for _, el := range x.Elts {
				parts = append(parts, t.expr(el))
			}
			return "[" + strings.Join(parts, "; ") + "]"
		}
		if t.ext && len(x.Elts) == 0 {
			switch k.k {
			case "bigintval":
				return "0"
			case "bigfloatval":
				return "(0, 0)"
			case "time":
				return "time_zero"
			}
		}
	case *ast.StarExpr:
		if t.ext {
			if name, ok := t.optIdent(x.X); ok {
				t.needNonNil(e, name)
				k := kindOf(t.typeOf(x.X))
				switch k.k {
				case "bigint":
					return "(unopt 0 " + coqIdent(name) + ")"
				case "ptr":
					return "(unopt " + k.elem.zero() + " " + coqIdent(name) + ")"
				}
				t.fail(e, "dereference of %s", k.k)
			}
		}
		// *val where val is *big.Int: same mathematical integer
		if kindOf(t.typeOf(x.X)).k == "bigint" {
			return t.expr(x.X)
		}
	case *ast.IndexExpr:
		if t.ext && kindOf(t.typeOf(x.X)).k == "slice" && kindOf(t.typeOf(x.X)).elem.k == "int" {
			return "(nth_Z " + t.expr(x.X) + " " + t.expr(x.Index) + ")"
		}
	}
	t.fail(e, "expression %T", e)
	return ""
}

func (t *tr) binary(x *ast.BinaryExpr) string {
	if t.ext && (x.Op == token.EQL || x.Op == token.NEQ) && (isNil(x.Y) || isNil(x.X)) {
		o := x.X
		if isNil(x.X) {
			o = x.Y
		}
		var s string
		if id, ok := o.(*ast.Ident); ok && t.destNil[id.Name] {
			s = coqIdent(id.Name)
		} else if name, ok := t.optIdent(o); ok {
			s = "(isNone " + coqIdent(name) + ")"
		} else if kindOf(t.typeOf(o)).k == "error" {
			s = "(is_ok " + t.errExpr(o) + ")"
		} else {
			t.fail(x, "comparison with nil of %s", kindOf(t.typeOf(o)).k)
		}
		if x.Op == token.NEQ {
			return "(negb " + s + ")"
		}
		return s
	}
	if t.ext && kindOf(t.typeOf(x.X)).k == "float" {
		fk := kindOf(t.typeOf(x.X))
		if fk.bits == 0 {
			fk = kindOf(t.typeOf(x.Y))
		}
		if fk.bits == 64 && (x.Op == token.EQL || x.Op == token.NEQ) {
			t.usesO = true
			s := "(o_f64_eqb O " + t.expr(x.X) + " " + t.expr(x.Y) + ")"
			if x.Op == token.NEQ {
				return "(negb " + s + ")"
			}
			return s
		}
		t.fail(x, "floating-point operator %s on %d bits", x.Op, fk.bits)
	}
	l, r := t.expr(x.X), t.expr(x.Y)
	ok := kindOf(t.typeOf(x.X)) // operand kind
	if ok.k == "int" && ok.bits == 0 {
		ok = kindOf(t.typeOf(x.Y))
	}
	rk := kindOf(t.typeOf(x)) // result kind
	switch x.Op {
	case token.LAND:
		return "(" + l + " && " + r + ")"
	case token.LOR:
		return "(" + l + " || " + r + ")"
	case token.EQL, token.NEQ:
		var s string
		switch ok.k {
		case "int", "bigint":
			s = "(Z.eqb " + l + " " + r + ")"
		case "string":
			s = "(String.eqb " + l + " " + r + ")"
		case "bool":
			s = "(Bool.eqb " + l + " " + r + ")"
		default:
			t.fail(x, "equality on %s", ok.k)
		}
		if x.Op == token.NEQ {
			return "(negb " + s + ")"
		}
		return s
	case token.LSS, token.LEQ, token.GTR, token.GEQ:
		if ok.k != "int" {
			t.fail(x, "ordering on %s", ok.k)
		}
		op := map[token.Token]string{token.LSS: "Z.ltb", token.LEQ: "Z.leb", token.GTR: "Z.gtb", token.GEQ: "Z.geb"}[x.Op]
		return "(" + op + " " + l + " " + r + ")"
	}
	if rk.k != "int" {
		t.fail(x, "arithmetic on %s", rk.k)
	}
	switch x.Op {
	case token.ADD:
		return rk.wrap("(" + l + " + " + r + ")")
	case token.SUB:
		return rk.wrap("(" + l + " - " + r + ")")
	case token.MUL:
		return rk.wrap("(" + l + " * " + r + ")")
	case token.QUO:
		return rk.wrap("(go_quot " + l + " " + r + ")")
	case token.REM:
		return rk.wrap("(go_rem " + l + " " + r + ")")
	case token.AND:
		return "(Z.land " + l + " " + r + ")"
	case token.OR:
		return "(Z.lor " + l + " " + r + ")"
	case token.XOR:
		return "(Z.lxor " + l + " " + r + ")"
	case token.AND_NOT:
		return "(Z.ldiff " + l + " " + r + ")"
	case token.SHL:
		return rk.wrap("(Z.shiftl " + l + " " + r + ")")
	case token.SHR:
		return "(Z.shiftr " + l + " " + r + ")"
	}
	t.fail(x, "binary operator %s", x.Op)
	return ""
}

func (t *tr) args(xs []ast.Expr) string {
	var b strings.Builder
	for _, a := range xs {
		if t.ext {
			if k := kindOf(t.typeOf(a)); k.k == "other" || k.k == "error" {
				continue // dropped on both sides (definition and call), e.g. *time.Location
			}
			if id, ok := a.(*ast.Ident); ok && t.destNil[id.Name] {
				// a typed destination pointer handed to a storing helper: what is stored comes back in the result;
				// of a *big.Float destination the helper receives the precision it was configured with
				if kindOf(t.typeOf(a)).k == "bigfloat" {
					pv, ok := t.destPrec[id.Name]
					if !ok {
						t.fail(a, "*big.Float destination %s of unknown precision", id.Name)
					}
					b.WriteString(" " + pv)
				}
				continue
			}
			if k := kindOf(t.typeOf(a)); k.k == "iface" {
				id, ok := a.(*ast.Ident)
				if !ok {
					t.fail(a, "interface-typed argument must be a variable")
				}
				b.WriteString(" " + coqIdent(id.Name))
				continue
			}
		}
		b.WriteString(" ")
		s := t.expr(a)
		if strings.ContainsAny(s, " ") && !strings.HasPrefix(s, "(") && !strings.HasPrefix(s, "[") && !strings.HasPrefix(s, "\"") {
			s = "(" + s + ")"
		}
		b.WriteString(s)
	}
	return b.String()
}

func (t *tr) call(x *ast.CallExpr) string {
	// conversion T(e)
	if tv, ok := t.p.info.Types[x.Fun]; ok && tv.IsType() {
		if len(x.Args) != 1 {
			t.fail(x, "conversion arity")
		}
		to := kindOf(tv.Type)
		from := kindOf(t.typeOf(x.Args[0]))
		a := t.expr(x.Args[0])
		switch {
		case to.k == "int" && (from.k == "int"):
			return to.wrap(a)
		case to.k == "string" && from.k == "string":
			return a
		case to.k == "bool" && from.k == "bool":
			return a
		case t.ext && to.k == "float" && from.k == "float":
			if from.bits == 0 || to.bits == from.bits {
				return a
			}
			t.usesO = true
			if to.bits == 32 {
				return "(o_f64_to_f32 O " + a + ")"
			}
			return "(o_f32_to_f64 O " + a + ")"
		}
		t.fail(x, "conversion %s -> %s", from.k, to.k)
	}
	switch f := x.Fun.(type) {
	case *ast.Ident:
		switch obj := t.p.info.Uses[f].(type) {
		case *types.Func:
			if obj.Pkg() == t.p.pkg {
				t.deps[obj.Name()] = true
				return "(" + coqIdent(obj.Name()) + t.args(x.Args) + ")"
			}
		case *types.Builtin:
			if t.ext {
				switch obj.Name() {
				case "len":
					return "(len_Z " + t.expr(x.Args[0]) + ")"
				case "make":
					if k := kindOf(t.typeOf(x)); k.k == "slice" && k.elem.k == "int" && len(x.Args) == 2 {
						return "(make_bytes " + t.expr(x.Args[1]) + ")"
					}
				}
			}
			t.fail(x, "builtin %s", obj.Name())
		}
	case *ast.SelectorExpr:
		if sel, ok := t.p.info.Selections[f]; ok && sel.Kind() == types.MethodVal {
			recvK := kindOf(sel.Recv())
			m := sel.Obj().(*types.Func)
			if recvK.k == "bigint" {
				switch m.Name() {
				case "IsInt64", "IsUint64", "Int64", "Uint64":
					return "(big_" + m.Name() + " " + t.expr(f.X) + ")"
				}
				if t.ext {
					src := t.p.srcOf(f.X)
					switch {
					case m.Name() == "Text" && len(x.Args) == 1:
						t.usesO = true
						return "(o_BigText O " + t.expr(f.X) + t.args(x.Args) + ")"
					case m.Name() == "SetUint64" && src == "new(big.Int)":
						return t.expr(x.Args[0])
					case m.Name() == "SetInt64" && src == "new(big.Int)":
						return t.expr(x.Args[0])
					case m.Name() == "SetString" && src == "new(big.Int)":
						t.usesO = true
						return "(o_BigSetString O" + t.args(x.Args) + ")"
					}
				}
				t.fail(x, "big.Int method %s", m.Name())
			}
			if t.ext && recvK.k == "bigfloat" && m.Name() == "Float64" {
				t.usesO = true
				return "(o_BigFloat_Float64 O " + t.expr(f.X) + ")"
			}
			if t.ext && recvK.k == "bigfloat" && m.Name() == "Acc" && len(x.Args) == 0 {
				// Acc(): the accuracy of the most recent operation on the receiver. Only understood on a destination whose most
				// recent operation (on this path, in this function) is a SetFloat64 the translator has just modelled.
				if id, ok := f.X.(*ast.Ident); ok && t.destNil[id.Name] {
					if av, ok := t.destAcc[id.Name]; ok {
						t.needNonNil(x, id.Name)
						return av
					}
				}
				t.fail(x, "big.Float Acc() without a dominating SetFloat64 on the same destination")
			}
			if t.ext && recvK.k == "time" {
				switch m.Name() {
				case "UTC":
					return t.expr(f.X)
				case "In":
					return t.expr(f.X)
				case "Unix":
					return "(time_sec " + t.expr(f.X) + ")"
				case "Nanosecond":
					return "(time_nsec " + t.expr(f.X) + ")"
				case "Hour", "Minute", "Second":
					return "(time_" + m.Name() + " " + t.expr(f.X) + ")"
				case "Format":
					t.usesO = true
					return "(o_TimeFormat O " + t.expr(f.X) + t.args(x.Args) + ")"
				case "Add":
					return "(time_Add " + t.expr(f.X) + t.args(x.Args) + ")"
				}
				t.fail(x, "time.Time method %s", m.Name())
			}
			if t.ext && recvK.k == "int" && m.Pkg() != nil && m.Pkg().Path() == "time" && m.Name() == "Nanoseconds" {
				return t.expr(f.X) // time.Duration.Nanoseconds: the int64 itself
			}
			if m.Pkg() == t.p.pkg {
				name := methodCoqName(sel.Recv(), m.Name())
				t.deps[name] = true
				return "(" + name + " " + t.expr(f.X) + t.args(x.Args) + ")"
			}
		}
		// package-qualified function
		if id, ok := f.X.(*ast.Ident); ok {
			if pn, ok := t.p.info.Uses[id].(*types.PkgName); ok {
				full := pn.Imported().Path() + "." + f.Sel.Name
				switch full {
				case "fmt.Sprintf":
					if s, ok := t.constExpr(x.Args[0]); ok {
						return "(sprintf " + s + ")"
					}
				}
				if t.ext {
					switch full {
					case "strconv.ParseInt":
						t.usesO = true
						return "(o_ParseInt O" + t.args(x.Args) + ")"
					case "strconv.FormatInt":
						t.usesO = true
						return "(o_FormatInt O" + t.args(x.Args) + ")"
					case "math/big.NewInt":
						return t.expr(x.Args[0])
					case "math.IsNaN":
						t.usesO = true
						return "(o_f64_isnan O" + t.args(x.Args) + ")"
					case "math.Float32bits", "math.Float64bits", "math.Float32frombits", "math.Float64frombits":
						return t.expr(x.Args[0]) // floats are carried as their bit patterns
					case "time.Unix":
						return "(time_Unix" + t.args(x.Args) + ")"
					case "time.Parse":
						t.usesO = true
						return "(o_TimeParse O" + t.args(x.Args) + ")"
					case "time.ParseInLocation":
						t.usesO = true
						return "(o_TimeParse O" + t.args(x.Args) + ")" // the *time.Location argument is dropped
					case "time.Date":
						if t.p.srcOf(x) == "time.Date(0, time.January, 1, 0, 0, 0, 0, time.UTC)" {
							return "time_year0"
						}
					}
				}
				t.fail(x, "call to %s", full)
			}
		}
	}
	if t.ext {
		switch t.p.srcOf(x.Fun) {
		case "binary.BigEndian.Uint64":
			return "(get_be 8 " + t.expr(x.Args[0]) + ")"
		case "binary.BigEndian.Uint32":
			return "(get_be 4 " + t.expr(x.Args[0]) + ")"
		case "binary.BigEndian.Uint16":
			return "(get_be 2 " + t.expr(x.Args[0]) + ")"
		}
	}
	t.fail(x, "call")
	return ""
}

// terminates reports whether control cannot fall off the end of the statement list.
func terminates(stmts []ast.Stmt) bool {
	if len(stmts) == 0 {
		return false
	}
	switch s := stmts[len(stmts)-1].(type) {
	case *ast.ReturnStmt:
		return true
	case *ast.BlockStmt:
		return terminates(s.List)
	case *ast.IfStmt:
		if s.Else == nil {
			return false
		}
		var els []ast.Stmt
		switch e := s.Else.(type) {
		case *ast.BlockStmt:
			els = e.List
		default:
			els = []ast.Stmt{e}
		}
		return terminates(s.Body.List) && terminates(els)
	case *ast.SwitchStmt:
		hasDefault := false
		for _, c := range s.Body.List {
			cc := c.(*ast.CaseClause)
			if cc.List == nil {
				hasDefault = true
			}
			if !terminates(cc.Body) {
				return false
			}
		}
		return hasDefault
	case *ast.TypeSwitchStmt:
		hasDefault := false
		for _, c := range s.Body.List {
			cc := c.(*ast.CaseClause)
			if cc.List == nil {
				hasDefault = true
			}
			if !terminates(cc.Body) {
				return false
			}
		}
		return hasDefault
	}
	return false
}

// assigned collects variables (declared outside) that a statement list assigns.
func (t *tr) assigned(stmts []ast.Stmt, out map[string]bool) {
	if t.ext {
		local := map[string]bool{}
		declared := map[string]bool{}
		t.assignedExt(stmts, local, declared)
		for v := range local {
			if !declared[v] {
				out[v] = true
			}
		}
		return
	}
	for _, s := range stmts {
		switch x := s.(type) {
		case *ast.AssignStmt:
			if x.Tok == token.ASSIGN || x.Tok != token.DEFINE {
				for _, l := range x.Lhs {
					if id, ok := l.(*ast.Ident); ok {
						out[id.Name] = true
					}
				}
			}
		case *ast.IncDecStmt:
			if id, ok := x.X.(*ast.Ident); ok {
				out[id.Name] = true
			}
		case *ast.BlockStmt:
			t.assigned(x.List, out)
		case *ast.IfStmt:
			t.assigned(x.Body.List, out)
			if x.Else != nil {
				t.assigned([]ast.Stmt{x.Else}, out)
			}
		case *ast.SwitchStmt:
			for _, c := range x.Body.List {
				t.assigned(c.(*ast.CaseClause).Body, out)
			}
		}
	}
}

// assignedExt: like assigned, for the extended subset.  Variables declared in the list itself are reported in
// declared (they do not exist outside).
func (t *tr) assignedExt(stmts []ast.Stmt, out, declared map[string]bool) {
	sub := func(list []ast.Stmt, extraDeclared ...string) {
		l, d := map[string]bool{}, map[string]bool{}
		t.assignedExt(list, l, d)
		for _, e := range extraDeclared {
			d[e] = true
		}
		for v := range l {
			if !d[v] {
				out[v] = true
			}
		}
	}
	lhs := func(l ast.Expr) {
		switch y := l.(type) {
		case *ast.Ident:
			if y.Name != "_" {
				out[y.Name] = true
			}
		case *ast.StarExpr:
			if t.storeVar != "" {
				out[t.storeVar] = true
			}
		}
	}
	for _, s := range stmts {
		switch x := s.(type) {
		case *ast.AssignStmt:
			if x.Tok == token.DEFINE {
				for _, l := range x.Lhs {
					if id, ok := l.(*ast.Ident); ok {
						declared[id.Name] = true
					}
				}
			} else {
				for _, l := range x.Lhs {
					lhs(l)
				}
			}
		case *ast.DeclStmt:
			if gd, ok := x.Decl.(*ast.GenDecl); ok {
				for _, sp := range gd.Specs {
					if vs, ok := sp.(*ast.ValueSpec); ok {
						for _, n := range vs.Names {
							declared[n.Name] = true
						}
					}
				}
			}
		case *ast.ExprStmt:
			if tgt := t.exprStmtTarget(x); tgt != "" {
				out[tgt] = true
			}
		case *ast.IncDecStmt:
			if id, ok := x.X.(*ast.Ident); ok {
				out[id.Name] = true
			}
		case *ast.BlockStmt:
			sub(x.List)
		case *ast.IfStmt:
			var initDecl []string
			if x.Init != nil {
				if a, ok := x.Init.(*ast.AssignStmt); ok && a.Tok == token.DEFINE {
					for _, l := range a.Lhs {
						if id, ok := l.(*ast.Ident); ok {
							initDecl = append(initDecl, id.Name)
						}
					}
				} else {
					sub([]ast.Stmt{x.Init})
				}
			}
			sub(x.Body.List, initDecl...)
			if x.Else != nil {
				sub([]ast.Stmt{x.Else}, initDecl...)
			}
		case *ast.SwitchStmt:
			for _, c := range x.Body.List {
				sub(c.(*ast.CaseClause).Body)
			}
		case *ast.TypeSwitchStmt:
			for _, c := range x.Body.List {
				sub(c.(*ast.CaseClause).Body)
			}
		}
	}
}

// exprStmtTarget: the variable an expression statement updates ("" if it is not a supported update).
//   d.SetInt64(v) / d.SetFloat64(v) on a destination pointer -> the store variable
//   binary.BigEndian.PutUintN(dest, v)                        -> dest
func (t *tr) exprStmtTarget(x *ast.ExprStmt) string {
	c, ok := x.X.(*ast.CallExpr)
	if !ok {
		return ""
	}
	src := t.p.srcOf(c.Fun)
	if strings.HasPrefix(src, "binary.BigEndian.PutUint") && len(c.Args) == 2 {
		if id, ok := c.Args[0].(*ast.Ident); ok {
			return id.Name
		}
	}
	if f, ok := c.Fun.(*ast.SelectorExpr); ok {
		if _, ok := f.X.(*ast.Ident); ok && t.storeVar != "" && (f.Sel.Name == "SetInt64" || f.Sel.Name == "SetFloat64") {
			return t.storeVar
		}
	}
	return ""
}

func (t *tr) ret(r *ast.ReturnStmt) string {
	res := t.sig.Results()
	if len(r.Results) == 0 {
		t.fail(r, "bare return")
	}
	// return f(x) forwarding a multi-value call
	if len(r.Results) == 1 && res.Len() > 1 {
		return t.expr(r.Results[0])
	}
	if res.Len() != len(r.Results) {
		t.fail(r, "return arity")
	}
	if res.Len() == 1 {
		if kindOf(res.At(0).Type()).k == "error" {
			if isNil(r.Results[0]) {
				return "(Ok tt)"
			}
			return "Err"
		}
		return t.expr(r.Results[0])
	}
	last := res.At(res.Len() - 1)
	if kindOf(last.Type()).k == "error" {
		if !isNil(r.Results[len(r.Results)-1]) {
			return "Err"
		}
		var parts []string
		for _, e := range r.Results[:len(r.Results)-1] {
			parts = append(parts, t.expr(e))
		}
		if len(parts) == 1 {
			return "(Ok " + parts[0] + ")"
		}
		return "(Ok (" + strings.Join(parts, ", ") + "))"
	}
	var parts []string
	for _, e := range r.Results {
		parts = append(parts, t.expr(e))
	}
	return "(" + strings.Join(parts, ", ") + ")"
}

func isNil(e ast.Expr) bool {
	id, ok := e.(*ast.Ident)
	return ok && id.Name == "nil"
}

func tuple(vars []string) string {
	if len(vars) == 1 {
		return coqIdent(vars[0])
	}
	var v []string
	for _, x := range vars {
		v = append(v, coqIdent(x))
	}
	return "(" + strings.Join(v, ", ") + ")"
}

func letTuple(vars []string, rhs, body string) string {
	if len(vars) == 1 {
		return "(let " + coqIdent(vars[0]) + " := " + rhs + " in\n  " + body + ")"
	}
	return "(let '" + tuple(vars) + " := " + rhs + " in\n  " + body + ")"
}

// block translates stmts followed by rest (nil when nothing may follow).
func (t *tr) block(stmts []ast.Stmt, rest func() string) string {
	if len(stmts) == 0 {
		if rest == nil {
			panic(unsupported("control falls off the end of " + t.fn.Name.Name))
		}
		return rest()
	}
	s := stmts[0]
	next := func() string { return t.block(stmts[1:], rest) }
	if t.ext {
		if out, ok := t.blockExt(stmts, rest); ok {
			return out
		}
	}
	switch x := s.(type) {
	case *ast.ReturnStmt:
		return t.ret(x)
	case *ast.BlockStmt:
		return t.block(append(append([]ast.Stmt{}, x.List...), stmts[1:]...), rest)
	case *ast.AssignStmt:
		if len(x.Lhs) == 1 && len(x.Rhs) == 1 && (x.Tok == token.DEFINE || x.Tok == token.ASSIGN) {
			id, ok := x.Lhs[0].(*ast.Ident)
			if !ok {
				t.fail(x, "assignment target")
			}
			return "(let " + coqIdent(id.Name) + " := " + t.expr(x.Rhs[0]) + " in\n  " + next() + ")"
		}
		t.fail(x, "assignment form")
	case *ast.IncDecStmt:
		id, ok := x.X.(*ast.Ident)
		if !ok {
			t.fail(x, "inc/dec target")
		}
		k := kindOf(t.typeOf(x.X))
		op := " + 1"
		if x.Tok == token.DEC {
			op = " - 1"
		}
		return "(let " + coqIdent(id.Name) + " := " + k.wrap("("+coqIdent(id.Name)+op+")") + " in\n  " + next() + ")"
	case *ast.IfStmt:
		if x.Init != nil {
			t.fail(x, "if with init statement")
		}
		c := t.expr(x.Cond)
		var els []ast.Stmt
		if x.Else != nil {
			switch e := x.Else.(type) {
			case *ast.BlockStmt:
				els = e.List
			default:
				els = []ast.Stmt{e}
			}
		}
		tT, tE := terminates(x.Body.List), terminates(els)
		switch {
		case tT && tE:
			return "(if " + c + " then " + t.block(x.Body.List, nil) + "\n  else " + t.block(els, nil) + ")"
		case tT:
			return "(if " + c + " then " + t.block(x.Body.List, nil) + "\n  else " + t.block(els, next) + ")"
		case tE:
			return "(if " + c + " then " + t.block(x.Body.List, next) + "\n  else " + t.block(els, nil) + ")"
		default:
			set := map[string]bool{}
			t.assigned(x.Body.List, set)
			t.assigned(els, set)
			var vars []string
			for v := range set {
				vars = append(vars, v)
			}
			sort.Strings(vars)
			if len(vars) == 0 {
				return next()
			}
			tup := func() string { return tuple(vars) }
			rhs := "(if " + c + " then " + t.block(x.Body.List, tup) + " else " + t.block(els, tup) + ")"
			return letTuple(vars, rhs, next())
		}
	case *ast.SwitchStmt:
		if x.Init != nil || x.Tag == nil {
			t.fail(x, "switch form")
		}
		tag := t.expr(x.Tag)
		tk := kindOf(t.typeOf(x.Tag))
		eq := func(e ast.Expr) string {
			switch tk.k {
			case "int":
				return "(Z.eqb " + tag + " " + t.expr(e) + ")"
			case "string":
				return "(String.eqb " + tag + " " + t.expr(e) + ")"
			}
			t.fail(x, "switch on %s", tk.k)
			return ""
		}
		var def *ast.CaseClause
		var clauses []*ast.CaseClause
		for _, c := range x.Body.List {
			cc := c.(*ast.CaseClause)
			if cc.List == nil {
				def = cc
			} else {
				clauses = append(clauses, cc)
			}
		}
		restOrNil := func(body []ast.Stmt) func() string {
			if terminates(body) {
				return nil
			}
			if rest == nil && len(stmts) == 1 {
				return nil
			}
			return next
		}
		var out strings.Builder
		closeN := 0
		for _, cc := range clauses {
			var conds []string
			for _, e := range cc.List {
				conds = append(conds, eq(e))
			}
			out.WriteString("(if " + strings.Join(conds, " || ") + " then " + t.block(cc.Body, restOrNil(cc.Body)) + "\n  else ")
			closeN++
		}
		if def != nil {
			out.WriteString(t.block(def.Body, restOrNil(def.Body)))
		} else {
			out.WriteString(next())
		}
		out.WriteString(strings.Repeat(")", closeN))
		return out.String()
	case *ast.RangeStmt:
		// for _, s := range <list> { if <cond> { return <e> } }  ; rest
		if x.Key != nil {
			if id, ok := x.Key.(*ast.Ident); !ok || id.Name != "_" {
				t.fail(x, "range with index")
			}
		}
		v, ok := x.Value.(*ast.Ident)
		if !ok || len(x.Body.List) != 1 {
			t.fail(x, "range form")
		}
		ifs, ok := x.Body.List[0].(*ast.IfStmt)
		if !ok || ifs.Else != nil || ifs.Init != nil || len(ifs.Body.List) != 1 {
			t.fail(x, "range body form")
		}
		r, ok := ifs.Body.List[0].(*ast.ReturnStmt)
		if !ok {
			t.fail(x, "range body form")
		}
		return "(if existsb (fun " + coqIdent(v.Name) + " => " + t.expr(ifs.Cond) + ") " + t.expr(x.X) + " then " + t.ret(r) + "\n  else " + next() + ")"
	}
	t.fail(s, "statement %T", s)
	return ""
}

// ---------------------------------------------------------------------------------------------
// Extended subset (numeric unit): named results with bare return, type switches over a tagged
// source / destination, stores through a destination pointer, if-with-init, multi-value assignment.

func (t *tr) resultParts() []string {
	var parts []string
	for _, n := range t.named {
		if n.k.k == "error" {
			continue
		}
		parts = append(parts, coqIdent(n.name))
	}
	return parts
}

func tupleExpr(parts []string) string {
	if len(parts) == 1 {
		return parts[0]
	}
	return "(" + strings.Join(parts, ", ") + ")"
}

// isStoring: func(..., dest interface{}) (err error) -- what it stores through dest is part of its Gallina result.
func isStoringSig(sig *types.Signature) string {
	if sig.Results().Len() != 1 || kindOf(sig.Results().At(0).Type()).k != "error" {
		return ""
	}
	for i := 0; i < sig.Params().Len(); i++ {
		v := sig.Params().At(i)
		if k := kindOf(v.Type()).k; v.Name() == "dest" && (k == "iface" || k == "bigfloat" || k == "bigint") {
			return v.Name()
		}
	}
	return ""
}

// storingCall: a call to a translated function that stores through a destination it is handed.
func (t *tr) storingCall(c *ast.CallExpr) bool {
	id, ok := c.Fun.(*ast.Ident)
	if !ok {
		return false
	}
	f, ok := t.p.info.Uses[id].(*types.Func)
	if !ok || f.Pkg() != t.p.pkg || t.isErrCtor(f) {
		return false
	}
	return isStoringSig(f.Type().(*types.Signature)) != ""
}

func (t *tr) calleeSig(c *ast.CallExpr) *types.Signature {
	if id, ok := c.Fun.(*ast.Ident); ok {
		if f, ok := t.p.info.Uses[id].(*types.Func); ok && f.Pkg() == t.p.pkg {
			return f.Type().(*types.Signature)
		}
	}
	return nil
}

func (t *tr) retExt(r *ast.ReturnStmt) string {
	res := t.sig.Results()
	if len(r.Results) == 0 {
		if len(t.named) == 0 && t.storeVar == "" {
			t.fail(r, "bare return without named results")
		}
		var errName string
		for _, n := range t.named {
			if n.k.k == "error" {
				errName = coqIdent(n.name)
			}
		}
		if t.storeVar != "" {
			return "(ret_res " + errName + " " + t.storeVar + ")"
		}
		parts := t.resultParts()
		if errName != "" {
			return "(ret_res " + errName + " " + tupleExpr(parts) + ")"
		}
		return tupleExpr(parts)
	}
	if t.storeVar != "" {
		if len(r.Results) != 1 {
			t.fail(r, "return arity")
		}
		if c, ok := r.Results[0].(*ast.CallExpr); ok {
			if t.storingCall(c) {
				return t.call(c) // forwards value stored and error
			}
		}
		return "(ret_res " + t.errExpr(r.Results[0]) + " " + t.storeVar + ")"
	}
	if len(r.Results) == 1 && res.Len() > 1 {
		return t.expr(r.Results[0])
	}
	if res.Len() != len(r.Results) {
		t.fail(r, "return arity")
	}
	last := res.At(res.Len() - 1)
	if kindOf(last.Type()).k == "error" {
		e := t.errExpr(r.Results[len(r.Results)-1])
		if e == "Err" {
			return "Err"
		}
		if res.Len() == 1 {
			return e
		}
		var parts []string
		for i, x := range r.Results[:len(r.Results)-1] {
			parts = append(parts, t.valueFor(x, t.resOpt(t.sig, i)))
		}
		if e == "(Ok tt)" {
			return "(Ok " + tupleExpr(parts) + ")"
		}
		return "(ret_res " + e + " " + tupleExpr(parts) + ")"
	}
	var parts []string
	for i, x := range r.Results {
		parts = append(parts, t.valueFor(x, t.resOpt(t.sig, i)))
	}
	return tupleExpr(parts)
}

// resOpt: result i of sig is held as an option (a named *big.Int result, nil meaning "no value").
func (t *tr) resOpt(sig *types.Signature, i int) bool {
	v := sig.Results().At(i)
	return v.Name() != "" && kindOf(v.Type()).k == "bigint"
}

// valueFor translates e for a position that is (or is not) an option.
func (t *tr) valueFor(e ast.Expr, wantOpt bool) string {
	if !wantOpt {
		return t.expr(e)
	}
	if isNil(e) {
		return "None"
	}
	if name, ok := t.optIdent(e); ok {
		return coqIdent(name)
	}
	return "(Some " + t.expr(e) + ")"
}

// storeExpr builds the goval stored by "*d = e" / "*d, err = f()" (tmp already translated when e is nil).
func (t *tr) storeValue(n ast.Node, elem types.Type, e ast.Expr, tmp string, vt types.Type) string {
	if i, ok := elem.Underlying().(*types.Interface); ok && i.NumMethods() == 0 {
		if e == nil {
			c, ok := govalCtor(vt)
			if !ok || strings.HasPrefix(c, "G_p") {
				t.fail(n, "value of type %s stored into an interface", vt)
			}
			return "(" + c + " " + tmp + ")"
		}
		if isNil(e) {
			return "G_nil"
		}
		c, ok := govalCtor(t.typeOf(e))
		if !ok {
			t.fail(n, "value of type %s stored into an interface", t.typeOf(e))
		}
		if strings.HasPrefix(c, "G_p") {
			if name, ok := t.optIdent(e); ok {
				return "(" + c + " " + coqIdent(name) + ")"
			}
			return "(" + c + " (Some " + t.expr(e) + "))"
		}
		return "(" + c + " " + t.expr(e) + ")"
	}
	c, ok := govalCtor(elem)
	if !ok || strings.HasPrefix(c, "G_p") {
		t.fail(n, "store into *%s", elem)
	}
	if e == nil {
		return "(" + c + " " + tmp + ")"
	}
	return "(" + c + " " + t.expr(e) + ")"
}

func (t *tr) destIdent(e ast.Expr) (string, bool) {
	st, ok := e.(*ast.StarExpr)
	if !ok {
		return "", false
	}
	id, ok := st.X.(*ast.Ident)
	if !ok || !t.destNil[id.Name] {
		return "", false
	}
	return id.Name, true
}

func (t *tr) blockExt(stmts []ast.Stmt, rest func() string) (string, bool) {
	s := stmts[0]
	next := func() string { return t.block(stmts[1:], rest) }
	let := func(name, rhs string) string {
		return "(let " + coqIdent(name) + " := " + rhs + " in\n  " + next() + ")"
	}
	switch x := s.(type) {
	case *ast.ReturnStmt:
		return t.retExt(x), true
	case *ast.DeclStmt:
		gd, ok := x.Decl.(*ast.GenDecl)
		if !ok || gd.Tok != token.VAR {
			t.fail(x, "declaration")
		}
		var names []string
		var zeros []string
		for _, sp := range gd.Specs {
			vs := sp.(*ast.ValueSpec)
			if len(vs.Values) != 0 {
				t.fail(x, "var with initialiser")
			}
			for _, n := range vs.Names {
				names = append(names, n.Name)
				zeros = append(zeros, kindOf(t.p.info.Defs[n].Type()).zero())
			}
		}
		out := next()
		for i := len(names) - 1; i >= 0; i-- {
			out = "(let " + coqIdent(names[i]) + " := " + zeros[i] + " in\n  " + out + ")"
		}
		return out, true
	case *ast.ExprStmt:
		c, ok := x.X.(*ast.CallExpr)
		if !ok {
			t.fail(x, "expression statement")
		}
		src := t.p.srcOf(c.Fun)
		if strings.HasPrefix(src, "binary.BigEndian.PutUint") && len(c.Args) == 2 {
			n := map[string]string{"binary.BigEndian.PutUint64": "8", "binary.BigEndian.PutUint32": "4", "binary.BigEndian.PutUint16": "2"}[src]
			id, ok := c.Args[0].(*ast.Ident)
			if n == "" || !ok {
				t.fail(x, "PutUint form")
			}
			return let(id.Name, "(put_be "+n+" "+coqIdent(id.Name)+" "+t.expr(c.Args[1])+")"), true
		}
		if f, ok := c.Fun.(*ast.SelectorExpr); ok {
			if id, ok := f.X.(*ast.Ident); ok && t.destNil[id.Name] && len(c.Args) == 1 {
				t.needNonNil(x, id.Name)
				switch f.Sel.Name {
				case "SetInt64":
					if godst, _ := godstCtor(t.typeOf(f.X)); godst == "D_pbigint" {
						return let(t.storeVar, "(Some (G_bigint "+t.expr(c.Args[0])+"))"), true
					}
				case "SetFloat64":
					if godst, _ := godstCtor(t.typeOf(f.X)); godst == "D_pbigfloat" {
						// rounds to the precision the destination was given before the call; value and accuracy come from the oracle
						pv, ok := t.destPrec[id.Name]
						if !ok {
							t.fail(x, "SetFloat64 on a *big.Float destination of unknown precision")
						}
						if _, again := t.destAcc[id.Name]; again {
							t.fail(x, "second SetFloat64 on the same destination (its precision is no longer the one on entry)")
						}
						t.usesO = true
						valV, accV := coqIdent(id.Name)+"_val_", coqIdent(id.Name)+"_acc_"
						arg := t.expr(c.Args[0])
						t.destAcc[id.Name] = accV
						body := next()
						delete(t.destAcc, id.Name)
						return "(let '(" + valV + ", " + accV + ") := (o_BigFloat_SetFloat64 O " + pv + " " + arg + ") in\n  " +
							"(let " + t.storeVar + " := (Some (G_bigfloat " + valV + ")) in\n  " + body + "))", true
					}
				}
			}
		}
		t.fail(x, "expression statement %s", src)
	case *ast.AssignStmt:
		if x.Tok != token.DEFINE && x.Tok != token.ASSIGN {
			return "", false
		}
		if len(x.Lhs) == 1 && len(x.Rhs) == 1 {
			if d, ok := t.destIdent(x.Lhs[0]); ok {
				t.needNonNil(x, d)
				elem := t.typeOf(x.Lhs[0])
				return let(t.storeVar, "(Some "+t.storeValue(x, elem, x.Rhs[0], "", nil)+")"), true
			}
			id, ok := x.Lhs[0].(*ast.Ident)
			if !ok {
				t.fail(x, "assignment target")
			}
			lk := kindOf(t.typeOf(x.Lhs[0]))
			if x.Tok == token.DEFINE {
				lk = kindOf(t.typeOf(x.Rhs[0]))
			}
			delete(t.nilAlias, id.Name)
			if lk.k == "error" {
				if c, ok := x.Rhs[0].(*ast.CallExpr); ok && t.storeVar != "" {
					if t.storingCall(c) {
						return "(let '(" + t.storeVar + ", " + coqIdent(id.Name) + ") := res_split " + t.storeVar + " " + t.call(c) + " in\n  " + next() + ")", true
					}
				}
				return let(id.Name, t.errExpr(x.Rhs[0])), true
			}
			if t.optVars[id.Name] {
				return let(id.Name, t.valueFor(x.Rhs[0], true)), true
			}
			if lk.k == "bool" {
				if b, ok := x.Rhs[0].(*ast.BinaryExpr); ok && b.Op == token.EQL && isNil(b.Y) {
					if name, ok := t.optIdent(b.X); ok {
						rhs := t.expr(x.Rhs[0])
						t.nilAlias[id.Name] = name
						return let(id.Name, rhs), true
					}
				}
			}
			return let(id.Name, t.expr(x.Rhs[0])), true
		}
		if len(x.Rhs) == 1 && len(x.Lhs) >= 2 {
			call, ok := x.Rhs[0].(*ast.CallExpr)
			if !ok {
				t.fail(x, "multi-value assignment from a non-call")
			}
			tup, ok := t.typeOf(call).(*types.Tuple)
			if !ok || tup.Len() != len(x.Lhs) {
				t.fail(x, "multi-value assignment arity")
			}
			hasErr := kindOf(tup.At(tup.Len()-1).Type()).k == "error"
			rhs := t.expr(call)
			sg := t.calleeSig(call)
			// names bound by the let-pattern, and the follow-up lets (stores, Some-wrapping)
			var pat, dfl []string
			var post []string
			n := len(x.Lhs)
			if hasErr {
				n--
			}
			for i := 0; i < n; i++ {
				l := x.Lhs[i]
				vk := kindOf(tup.At(i).Type())
				calleeOpt := sg != nil && t.resOpt(sg, i)
				if d, ok := t.destIdent(l); ok {
					t.needNonNil(x, d)
					tmp := fmt.Sprintf("tmp%d_", i)
					pat = append(pat, tmp)
					dfl = append(dfl, vk.zero())
					post = append(post, "let "+t.storeVar+" := (Some "+t.storeValue(x, t.typeOf(l), nil, tmp, tup.At(i).Type())+") in")
					continue
				}
				id, ok := l.(*ast.Ident)
				if !ok {
					t.fail(x, "assignment target")
				}
				if id.Name == "_" {
					pat = append(pat, "_")
					dfl = append(dfl, vk.zero())
					continue
				}
				delete(t.nilAlias, id.Name)
				if t.optVars[id.Name] && !calleeOpt {
					tmp := fmt.Sprintf("tmp%d_", i)
					pat = append(pat, tmp)
					dfl = append(dfl, "0")
					if hasErr {
						en := coqIdent(x.Lhs[len(x.Lhs)-1].(*ast.Ident).Name)
						post = append(post, "let "+coqIdent(id.Name)+" := (if is_ok "+en+" then Some "+tmp+" else None) in")
					} else {
						post = append(post, "let "+coqIdent(id.Name)+" := (Some "+tmp+") in")
					}
					continue
				}
				pat = append(pat, coqIdent(id.Name))
				if calleeOpt {
					dfl = append(dfl, "None")
				} else {
					dfl = append(dfl, vk.zero())
				}
			}
			var head string
			if hasErr {
				eid, ok := x.Lhs[len(x.Lhs)-1].(*ast.Ident)
				if !ok {
					t.fail(x, "error target")
				}
				en := "_"
				if eid.Name != "_" {
					en = coqIdent(eid.Name)
				}
				head = "let '(" + tupleExpr(pat) + ", " + en + ") := res_split " + tupleExpr(dfl) + " " + rhs + " in"
			} else {
				head = "let '" + tupleExpr(pat) + " := " + rhs + " in"
				if len(pat) == 1 {
					head = "let " + pat[0] + " := " + rhs + " in"
				}
			}
			out := head
			for _, p := range post {
				out += "\n  " + p
			}
			return "(" + out + "\n  " + next() + ")", true
		}
		t.fail(x, "assignment form")
	case *ast.IfStmt:
		if x.Init != nil {
			cp := *x
			cp.Init = nil
			lst := append([]ast.Stmt{x.Init, &cp}, stmts[1:]...)
			return t.block(lst, rest), true
		}
		c := t.expr(x.Cond)
		gT, gF := t.condGuards(x.Cond)
		var els []ast.Stmt
		if x.Else != nil {
			switch e := x.Else.(type) {
			case *ast.BlockStmt:
				els = e.List
			default:
				els = []ast.Stmt{e}
			}
		}
		tT, tE := terminates(x.Body.List), terminates(els)
		thenB := func(k func() string) string {
			return t.withGuards(gT, func() string { return t.block(x.Body.List, k) })
		}
		elseB := func(k func() string) string {
			return t.withGuards(gF, func() string { return t.block(els, k) })
		}
		switch {
		case tT && tE:
			return "(if " + c + " then " + thenB(nil) + "\n  else " + elseB(nil) + ")", true
		case tT:
			return "(if " + c + " then " + thenB(nil) + "\n  else " + elseB(next) + ")", true
		case tE:
			return "(if " + c + " then " + thenB(next) + "\n  else " + elseB(nil) + ")", true
		default:
			set := map[string]bool{}
			t.assigned(x.Body.List, set)
			t.assigned(els, set)
			var vars []string
			for v := range set {
				vars = append(vars, v)
			}
			sort.Strings(vars)
			if len(vars) == 0 {
				return next(), true
			}
			for _, v := range vars {
				delete(t.nilAlias, v)
			}
			tup := func() string { return tuple(vars) }
			rhs := "(if " + c + " then " + thenB(tup) + " else " + elseB(tup) + ")"
			return letTuple(vars, rhs, next()), true
		}
	case *ast.TypeSwitchStmt:
		return t.typeSwitch(x, stmts, rest), true
	}
	return "", false
}

func (t *tr) typeSwitch(x *ast.TypeSwitchStmt, stmts []ast.Stmt, rest func() string) string {
	next := func() string { return t.block(stmts[1:], rest) }
	if x.Init != nil {
		t.fail(x, "type switch with init")
	}
	var bind string
	var ta *ast.TypeAssertExpr
	switch a := x.Assign.(type) {
	case *ast.AssignStmt:
		bind = a.Lhs[0].(*ast.Ident).Name
		ta, _ = a.Rhs[0].(*ast.TypeAssertExpr)
	case *ast.ExprStmt:
		ta, _ = a.X.(*ast.TypeAssertExpr)
	}
	if ta == nil {
		t.fail(x, "type switch form")
	}
	tagID, ok := ta.X.(*ast.Ident)
	if !ok {
		t.fail(x, "type switch on a non-variable")
	}
	isDest := t.destParam != "" && tagID.Name == t.destParam
	var def *ast.CaseClause
	var clauses []*ast.CaseClause
	anyTerm, allTerm := false, true
	for _, c := range x.Body.List {
		cc := c.(*ast.CaseClause)
		if cc.List == nil {
			def = cc
		} else {
			clauses = append(clauses, cc)
		}
		if terminates(cc.Body) {
			anyTerm = true
		} else {
			allTerm = false
		}
	}
	if def == nil {
		allTerm = false
	}
	follows := !(rest == nil && len(stmts) == 1)
	var vars []string
	var cont func(body []ast.Stmt) func() string
	switch {
	case allTerm:
		cont = func([]ast.Stmt) func() string { return nil }
	case anyTerm || !follows:
		cont = func(body []ast.Stmt) func() string {
			if terminates(body) || !follows {
				return nil
			}
			return next
		}
	default:
		set := map[string]bool{}
		for _, c := range x.Body.List {
			t.assigned(c.(*ast.CaseClause).Body, set)
		}
		for v := range set {
			vars = append(vars, v)
		}
		sort.Strings(vars)
		if len(vars) == 0 {
			return next()
		}
		tup := func() string { return tuple(vars) }
		cont = func([]ast.Stmt) func() string { return tup }
	}
	var b strings.Builder
	b.WriteString("match " + coqIdent(tagID.Name) + " with")
	pv := "_"
	if bind != "" {
		pv = coqIdent(bind)
	}
	seen := map[string]bool{}
	for _, cc := range clauses {
		if len(cc.List) != 1 {
			t.fail(cc, "case with several types")
		}
		var pattern string
		undo := func() {}
		switch {
		case isNil(cc.List[0]):
			if isDest {
				t.fail(cc, "case nil in a destination switch")
			}
			pattern = "G_nil"
		case isDest:
			ctor, ok := godstCtor(t.typeOf(cc.List[0]))
			if !ok {
				t.fail(cc, "destination type %s has no constructor in godst", t.typeOf(cc.List[0]))
			}
			pattern = ctor + " " + pv
			if ctor == "D_pbigfloat" {
				// the constructor also carries the precision the destination has on entry
				if bind != "" {
					pattern += " " + coqIdent(bind) + "_prec"
				} else {
					pattern += " _"
				}
			}
			if bind != "" {
				old := t.destNil[bind]
				t.destNil[bind] = true
				oldP, hadP := t.destPrec[bind]
				if ctor == "D_pbigfloat" {
					t.destPrec[bind] = coqIdent(bind) + "_prec"
				} else {
					delete(t.destPrec, bind)
				}
				undo = func() {
					t.destNil[bind] = old
					if hadP {
						t.destPrec[bind] = oldP
					} else {
						delete(t.destPrec, bind)
					}
				}
			}
		default:
			ty := t.typeOf(cc.List[0])
			ctor, ok := govalCtor(ty)
			if !ok {
				t.fail(cc, "source type %s has no constructor in goval", ty)
			}
			pattern = ctor + " " + pv
			if _, isPtr := ty.(*types.Pointer); isPtr && bind != "" {
				old := t.optVars[bind]
				t.optVars[bind] = true
				undo = func() { t.optVars[bind] = old }
			}
		}
		if seen[pattern] {
			t.fail(cc, "duplicate case")
		}
		seen[pattern] = true
		body := t.block(cc.Body, cont(cc.Body))
		undo()
		b.WriteString("\n  | " + pattern + " => " + body)
	}
	if def != nil {
		b.WriteString("\n  | _ => " + t.block(def.Body, cont(def.Body)))
	} else {
		b.WriteString("\n  | _ => " + t.block(nil, cont(nil)))
	}
	b.WriteString("\n  end")
	if vars != nil {
		for _, v := range vars {
			delete(t.nilAlias, v)
		}
		return letTuple(vars, "("+b.String()+")", next())
	}
	return "(" + b.String() + ")"
}

type coqDef struct {
	name  string
	text  string
	deps  map[string]bool
	node  ast.Node
	goNm  string
	usesO bool             // calls an oracle directly (extended subset)
	sig   *types.Signature // extended subset only
}

func (t *tr) resultType() string {
	res := t.sig.Results()
	if res.Len() == 0 {
		panic(unsupported("function without result"))
	}
	if res.Len() == 1 {
		return kindOf(res.At(0).Type()).coqType()
	}
	last := kindOf(res.At(res.Len() - 1).Type())
	var parts []string
	n := res.Len()
	if last.k == "error" {
		n--
	}
	for i := 0; i < n; i++ {
		parts = append(parts, kindOf(res.At(i).Type()).coqType())
	}
	inner := strings.Join(parts, " * ")
	if last.k == "error" {
		if len(parts) > 1 {
			inner = "(" + inner + ")"
		}
		return "result " + inner
	}
	return "(" + inner + ")"
}

// translateFunc turns one Go function or method into a Gallina definition.
func translateFunc(p *pkgInfo, fd *ast.FuncDecl) coqDef {
	obj := p.info.Defs[fd.Name].(*types.Func)
	sig := obj.Type().(*types.Signature)
	t := &tr{p: p, deps: map[string]bool{}, fn: fd, sig: sig}
	name := coqIdent(fd.Name.Name)
	var params []string
	if sig.Recv() != nil {
		name = methodCoqName(sig.Recv().Type(), fd.Name.Name)
		rn := sig.Recv().Name()
		if rn == "" || rn == "_" {
			rn = "recv_"
		}
		params = append(params, "("+coqIdent(rn)+" : "+kindOf(sig.Recv().Type()).coqType()+")")
	}
	for i := 0; i < sig.Params().Len(); i++ {
		v := sig.Params().At(i)
		pn := v.Name()
		if pn == "" || pn == "_" {
			pn = fmt.Sprintf("arg%d_", i)
		}
		params = append(params, "("+coqIdent(pn)+" : "+kindOf(v.Type()).coqType()+")")
	}
	body := t.block(fd.Body.List, nil)
	text := "Definition " + name + " " + strings.Join(params, " ") + " : " + t.resultType() + " :=\n  " + body + "."
	if len(params) == 0 {
		text = "Definition " + name + " : " + t.resultType() + " :=\n  " + body + "."
	}
	return coqDef{name: name, text: text, deps: t.deps, node: fd, goNm: fd.Name.Name}
}

// translateFuncExt: translateFunc for the extended subset (see blockExt).
func translateFuncExt(p *pkgInfo, fd *ast.FuncDecl) coqDef {
	obj := p.info.Defs[fd.Name].(*types.Func)
	sig := obj.Type().(*types.Signature)
	t := &tr{p: p, deps: map[string]bool{}, fn: fd, sig: sig, ext: true,
		optVars: map[string]bool{}, nonNil: map[string]int{}, nilAlias: map[string]string{}, destNil: map[string]bool{}, dropped: map[string]bool{},
		destPrec: map[string]string{}, destAcc: map[string]string{}}
	name := coqIdent(fd.Name.Name)
	var params []string
	if sig.Recv() != nil {
		name = methodCoqName(sig.Recv().Type(), fd.Name.Name)
		if rn := sig.Recv().Name(); rn != "" && rn != "_" {
			t.dropped[rn] = true
		}
	}
	t.destParam = isStoringSig(sig)
	if t.destParam != "" {
		t.storeVar = t.destParam + "_st"
	}
	for i := 0; i < sig.Params().Len(); i++ {
		v := sig.Params().At(i)
		pn := v.Name()
		if pn == "" || pn == "_" {
			pn = fmt.Sprintf("arg%d_", i)
		}
		k := kindOf(v.Type())
		switch {
		case k.k == "other" || k.k == "error":
			t.dropped[pn] = true
			continue
		case k.k == "iface" && pn == t.destParam:
			params = append(params, "("+coqIdent(pn)+" : godst)")
		case pn == t.destParam:
			// typed destination pointer, non-nil by the callers' guard: only what is stored is modelled; of a *big.Float the
			// precision it has on entry is a parameter (SetFloat64 rounds to it)
			t.destNil[pn] = true
			t.nonNil[pn] = 1
			if k.k == "bigfloat" {
				t.destPrec[pn] = coqIdent(pn) + "_prec"
				params = append(params, "("+coqIdent(pn)+"_prec : Z)")
			}
		case k.k == "ptr":
			t.fail(fd, "pointer parameter %s", pn)
		default:
			params = append(params, "("+coqIdent(pn)+" : "+k.coqType()+")")
		}
	}
	var pre []string
	res := sig.Results()
	for i := 0; i < res.Len(); i++ {
		v := res.At(i)
		if v.Name() == "" || v.Name() == "_" {
			continue
		}
		k := kindOf(v.Type())
		nr := namedRes{name: v.Name(), k: k, opt: t.resOpt(sig, i)}
		if nr.opt {
			t.optVars[v.Name()] = true
		}
		t.named = append(t.named, nr)
		pre = append(pre, "let "+coqIdent(v.Name())+" := "+k.zero()+" in")
	}
	if len(t.named) != 0 && len(t.named) != res.Len() {
		t.fail(fd, "partly named results")
	}
	if t.storeVar != "" {
		if len(t.named) == 0 {
			// unnamed (err error): give the error a name only bare returns would use; none exist then
		}
		pre = append(pre, "let "+t.storeVar+" := @None goval in")
	}
	body := t.block(fd.Body.List, nil)
	for i := len(pre) - 1; i >= 0; i-- {
		body = "(" + pre[i] + "\n  " + body + ")"
	}
	rty := t.resultTypeExt()
	text := "Definition " + name + " " + strings.Join(params, " ") + " : " + rty + " :=\n  " + body + "."
	if len(params) == 0 {
		text = "Definition " + name + " : " + rty + " :=\n  " + body + "."
	}
	return coqDef{name: name, text: text, deps: t.deps, node: fd, goNm: fd.Name.Name, usesO: t.usesO, sig: sig}
}

func (t *tr) resultTypeExt() string {
	if t.storeVar != "" {
		return "result (option goval)"
	}
	res := t.sig.Results()
	if res.Len() == 0 {
		panic(unsupported("function without result"))
	}
	ty := func(i int) string {
		if t.resOpt(t.sig, i) {
			return "(option Z)"
		}
		return kindOf(res.At(i).Type()).coqType()
	}
	if res.Len() == 1 {
		return ty(0)
	}
	last := kindOf(res.At(res.Len() - 1).Type())
	var parts []string
	n := res.Len()
	if last.k == "error" {
		n--
	}
	for i := 0; i < n; i++ {
		parts = append(parts, ty(i))
	}
	inner := strings.Join(parts, " * ")
	if last.k == "error" {
		if len(parts) > 1 {
			inner = "(" + inner + ")"
		}
		return "result " + inner
	}
	return "(" + inner + ")"
}

// topo orders definitions so that each follows what it uses.
func topo(defs []coqDef) []coqDef {
	idx := map[string]int{}
	for i, d := range defs {
		idx[d.name] = i
	}
	state := make([]int, len(defs))
	var out []coqDef
	var visit func(i int)
	visit = func(i int) {
		if state[i] != 0 {
			if state[i] == 1 {
				panic(unsupported("recursive definition " + defs[i].name))
			}
			return
		}
		state[i] = 1
		var ds []string
		for d := range defs[i].deps {
			ds = append(ds, d)
		}
		sort.Strings(ds)
		for _, d := range ds {
			if j, ok := idx[d]; ok {
				visit(j)
			}
		}
		state[i] = 2
		out = append(out, defs[i])
	}
	for i := range defs {
		visit(i)
	}
	return out
}
